//! Disposing a suspense scope while a resource read under it is still loading must not re-run the
//! effects of that scope in the middle of the teardown.
#![cfg(all(feature = "suspense", not(target_arch = "wasm32")))]
use sycamore::prelude::*;
use sycamore::futures::{create_suspense_scope, SuspenseScope};
use sycamore::web::create_isomorphic_resource;

#[tokio::test]
async fn effect_of_disposed_boundary_does_not_rerun_mid_teardown() {
    let local = tokio::task::LocalSet::new();
    local
        .run_until(async {
            let root = create_root(|| {
                let runs = create_signal(0);
                let mut scope = None;
                let _ = create_suspense_scope(|| {
                    scope = Some(use_current_scope());
                    // Local state of the boundary's scope.
                    let local = create_signal(1);
                    // A resource that lives under a nested boundary and never finishes loading.
                    let mut resource = None;
                    let _ = create_suspense_scope(|| {
                        resource = Some(create_isomorphic_resource(|| async {
                            std::future::pending::<()>().await;
                            0
                        }));
                    });
                    // Read under the boundary: the boundary is suspended by the resource.
                    let _ = resource.unwrap().get_clone_untracked();
                    // An effect of the boundary's scope that uses the local state once loaded.
                    let loading = use_context::<SuspenseScope>().is_loading();
                    create_effect(move || {
                        if !loading.get() {
                            runs.set_silent(runs.get_untracked() + local.get_untracked());
                        }
                    });
                });
                assert_eq!(runs.get_untracked(), 0);
                scope.unwrap().dispose();
                assert_eq!(runs.get_untracked(), 0, "the effect re-ran while its scope was torn down");
            });
            root.dispose();
        })
        .await;
}
