//! A fetch that is superseded while it is finishing (its own last step writes a dependency of the
//! resource) must not publish its value: the resource holds the result of the latest fetch only.
#![cfg(all(feature = "suspense", not(target_arch = "wasm32")))]
use futures::channel::oneshot;
use sycamore::prelude::*;
use sycamore::web::create_isomorphic_resource;

#[tokio::test]
async fn fetch_that_moves_the_dependency_on_does_not_publish() {
    let local = tokio::task::LocalSet::new();
    local
        .run_until(async {
            let (tx, rx) = oneshot::channel::<()>();
            let mut rx = Some(rx);
            let mut state = None;
            let root = create_root(|| {
                let page = create_signal(1u32);
                let resource = create_isomorphic_resource(on(page, move || {
                    let p = page.get_untracked();
                    let rx = rx.take();
                    async move {
                        if let Some(rx) = rx {
                            // First fetch: finishes when told to, and moves on to the next page.
                            rx.await.unwrap();
                            page.set(2);
                        } else {
                            // The fetch for page 2 never finishes.
                            std::future::pending::<()>().await;
                        }
                        p
                    }
                }));
                state = Some((page, resource));
            });
            let (page, resource) = state.unwrap();
            tokio::task::yield_now().await;
            assert!(root.run_in(|| resource.is_loading()));
            tx.send(()).unwrap();
            for _ in 0..10 {
                tokio::task::yield_now().await;
            }
            assert_eq!(page.get_untracked(), 2);
            // The fetch for page 2 is outstanding: the resource is loading and shows no value of a
            // superseded fetch.
            assert!(root.run_in(|| resource.is_loading()), "the latest fetch is outstanding but the resource is not loading");
            assert_eq!(root.run_in(|| resource.get_clone_untracked()), None, "the superseded fetch published its value");
            root.dispose();
        })
        .await;
}
