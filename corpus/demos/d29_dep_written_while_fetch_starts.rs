#![cfg(all(feature = "suspense", not(target_arch = "wasm32")))]
use sycamore::prelude::*;
use sycamore::futures::{create_suspense_scope, SuspenseScope};
use sycamore::web::create_isomorphic_resource;

#[tokio::test]
async fn dependency_written_by_a_boundary_observer_while_the_fetch_starts() {
    let local = tokio::task::LocalSet::new();
    local
        .run_until(async {
            let mut state = None;
            let root = create_root(|| {
                let page = create_signal(1u32);
                let started = create_signal(Vec::<u32>::new());
                let _ = create_suspense_scope(|| {
                    // An observer of the enclosing boundary: whenever it starts loading, make sure
                    // the page is at least 5.
                    let loading = use_context::<SuspenseScope>().is_loading();
                    create_effect(move || {
                        if loading.get() && page.get_untracked() < 5 {
                            page.set(5);
                        }
                    });
                    let resource = create_isomorphic_resource(on(page, move || {
                        let p = page.get_untracked();
                        started.update(|v| v.push(p));
                        async move {
                            std::future::pending::<()>().await;
                            p
                        }
                    }));
                    state = Some((page, started, resource));
                });
            });
            let (page, started, resource) = state.unwrap();
            for _ in 0..10 { tokio::task::yield_now().await; }
            assert_eq!(page.get_untracked(), 5);
            // The latest fetch must be one for the current dependency value.
            assert_eq!(started.get_clone_untracked().last().copied(), Some(5), "fetches started for {:?}", started.get_clone_untracked());
            let _ = resource;
            root.dispose();
        })
        .await;
}
