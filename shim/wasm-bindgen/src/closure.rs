//! `Closure`: handing Rust closures to "JS". Mirrors `wasm_bindgen::closure`.

use std::fmt;
use std::marker::PhantomData;

use crate::__rt::{invalidate_function, make_function, NativeFn};
use crate::convert::{FromJs, IntoJs};
use crate::{JsValue, UnwrapThrowExt};

/// A handle to both a Rust closure and the JS function object that calls it.
///
/// As with the real `Closure`, dropping the handle invalidates the JS function: calling it
/// afterwards yields an exception (`Err`) rather than running the Rust closure. Use
/// [`Closure::forget`] / [`Closure::into_js_value`] to leak the closure instead.
pub struct Closure<T: ?Sized> {
    js: JsValue,
    forgotten: bool,
    _marker: PhantomData<Box<T>>,
}

/// Implemented for `dyn Fn(..) -> R` and `dyn FnMut(..) -> R` trait object types.
pub trait WasmClosure {
    #[doc(hidden)]
    fn into_native(b: Box<Self>) -> Box<NativeFn>;
}

/// Unsizing of concrete closures to the trait object type `T`.
pub trait IntoWasmClosure<T: ?Sized> {
    fn unsize(self: Box<Self>) -> Box<T>;
}

impl<T: ?Sized + WasmClosure> IntoWasmClosure<T> for T {
    fn unsize(self: Box<Self>) -> Box<T> {
        self
    }
}

/// Conversion of `FnOnce` closures into `FnMut` closures that throw when called twice.
pub trait WasmClosureFnOnce<FnMut: ?Sized, A, R>: 'static {
    fn into_fn_mut(self) -> Box<FnMut>;
    fn into_js_function(self) -> JsValue;
}

impl<T: ?Sized + WasmClosure> Closure<T> {
    /// Create a `Closure` from a Rust closure.
    pub fn new<F>(t: F) -> Self
    where
        F: IntoWasmClosure<T> + 'static,
    {
        Self::wrap(Box::new(t).unsize())
    }

    /// Alias of [`Closure::new`].
    pub fn own<F>(t: F) -> Self
    where
        F: IntoWasmClosure<T> + 'static,
    {
        Self::new(t)
    }

    /// Create a `Closure` from a boxed trait object.
    pub fn wrap<F>(data: Box<F>) -> Self
    where
        F: IntoWasmClosure<T> + ?Sized,
    {
        let mut native = T::into_native(data.unsize());
        Closure {
            js: make_function("closure", move |this, args| native(this, args)),
            forgotten: false,
            _marker: PhantomData,
        }
    }

    /// Create a `Closure` from an `FnOnce`. Calling the JS function twice throws.
    pub fn once<F, A, R>(fn_once: F) -> Self
    where
        F: WasmClosureFnOnce<T, A, R>,
    {
        Self::wrap(fn_once.into_fn_mut())
    }

    /// Convert an `FnOnce` directly into a JS function value. The Rust closure is dropped after
    /// the first call.
    pub fn once_into_js<F, A, R>(fn_once: F) -> JsValue
    where
        F: WasmClosureFnOnce<T, A, R>,
    {
        fn_once.into_js_function()
    }

    /// Leak the closure and return the JS function, which stays valid forever.
    pub fn into_js_value(mut self) -> JsValue {
        self.forgotten = true;
        self.js.clone()
    }

    /// Leak the closure; the JS function stays valid forever.
    pub fn forget(mut self) {
        self.forgotten = true;
    }
}

impl<T: ?Sized> AsRef<JsValue> for Closure<T> {
    fn as_ref(&self) -> &JsValue {
        &self.js
    }
}

impl<T: ?Sized> Drop for Closure<T> {
    fn drop(&mut self) {
        if !self.forgotten {
            invalidate_function(&self.js);
        }
    }
}

impl<T: ?Sized> fmt::Debug for Closure<T> {
    fn fmt(&self, f: &mut fmt::Formatter<'_>) -> fmt::Result {
        write!(f, "Closure {{ ... }}")
    }
}

macro_rules! impl_closures {
    ($(($($var:ident $idx:tt)*))*) => {$(
        impl<$($var,)* R> WasmClosure for dyn Fn($($var),*) -> R
        where
            $($var: FromJs + 'static,)*
            R: IntoJs + 'static,
        {
            #[allow(unused_variables)]
            fn into_native(b: Box<Self>) -> Box<NativeFn> {
                Box::new(move |_this: &JsValue, args: &[JsValue]| {
                    Ok(b($(<$var as FromJs>::from_js(args.get($idx).cloned().unwrap_or_default())),*).into_js())
                })
            }
        }

        impl<$($var,)* R> WasmClosure for dyn FnMut($($var),*) -> R
        where
            $($var: FromJs + 'static,)*
            R: IntoJs + 'static,
        {
            #[allow(unused_variables)]
            fn into_native(mut b: Box<Self>) -> Box<NativeFn> {
                Box::new(move |_this: &JsValue, args: &[JsValue]| {
                    Ok(b($(<$var as FromJs>::from_js(args.get($idx).cloned().unwrap_or_default())),*).into_js())
                })
            }
        }

        impl<T, $($var,)* R> IntoWasmClosure<dyn Fn($($var),*) -> R> for T
        where
            T: 'static + Fn($($var),*) -> R,
            $($var: FromJs + 'static,)*
            R: IntoJs + 'static,
        {
            fn unsize(self: Box<Self>) -> Box<dyn Fn($($var),*) -> R> {
                self
            }
        }

        impl<T, $($var,)* R> IntoWasmClosure<dyn FnMut($($var),*) -> R> for T
        where
            T: 'static + FnMut($($var),*) -> R,
            $($var: FromJs + 'static,)*
            R: IntoJs + 'static,
        {
            fn unsize(self: Box<Self>) -> Box<dyn FnMut($($var),*) -> R> {
                self
            }
        }

        impl<T, $($var,)* R> WasmClosureFnOnce<dyn FnMut($($var),*) -> R, ($($var,)*), R> for T
        where
            T: 'static + FnOnce($($var),*) -> R,
            $($var: FromJs + 'static,)*
            R: IntoJs + 'static,
        {
            #[allow(non_snake_case)]
            fn into_fn_mut(self) -> Box<dyn FnMut($($var),*) -> R> {
                let mut me = Some(self);
                Box::new(move |$($var),*| {
                    let f = me.take().expect_throw("FnOnce called more than once");
                    f($($var),*)
                })
            }

            fn into_js_function(self) -> JsValue {
                let closure: Closure<dyn FnMut($($var),*) -> R> = Closure::wrap(self.into_fn_mut());
                // The real implementation deallocates the Rust closure after the first call; the
                // `Option::take` above already drops the captured environment at that point.
                closure.into_js_value()
            }
        }
    )*};
}

impl_closures! {
    ()
    (A 0)
    (A 0 B 1)
    (A 0 B 1 C 2)
    (A 0 B 1 C 2 D 3)
}
