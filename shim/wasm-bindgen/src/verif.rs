//! Verification-harness API of the shim (not part of the real wasm-bindgen API).

use crate::JsValue;

pub use crate::__rt::{call_function, global, make_function, pending_microtasks, reset_global};

/// Run all queued microtasks (`queueMicrotask` callbacks), including ones queued while running.
/// Returns the number of tasks that ran. Panics if a task throws.
pub fn run_microtasks() -> usize {
    let (n, errors) = crate::__rt::run_microtasks();
    if let Some(e) = errors.into_iter().next() {
        crate::throw_val(e);
    }
    n
}

/// Like [`run_microtasks`] but returns thrown exceptions instead of panicking.
pub fn try_run_microtasks() -> (usize, Vec<JsValue>) {
    crate::__rt::run_microtasks()
}
