//! Conversions between Rust values and [`JsValue`]s at the (simulated) ABI boundary: closure
//! arguments / return values and `extern "C"` import arguments / return values.

use crate::{JsCast, JsValue};

/// Rust → JS.
pub trait IntoJs {
    fn into_js(self) -> JsValue;
}

/// JS → Rust. Like the real ABI conversion this is *unchecked* for object types.
pub trait FromJs: Sized {
    fn from_js(v: JsValue) -> Self;
}

// NOTE: by-value `IntoJs` for wrapper types is implemented per type (by the `js_type!` macro of the
// js-sys shim and by `#[wasm_bindgen]`) because a blanket impl would overlap with the `&T` impl.
impl IntoJs for JsValue {
    fn into_js(self) -> JsValue {
        self
    }
}
impl<T: JsCast> IntoJs for &T {
    fn into_js(self) -> JsValue {
        self.as_ref().clone()
    }
}
impl<T: JsCast> FromJs for T {
    fn from_js(v: JsValue) -> Self {
        T::unchecked_from_js(v)
    }
}

impl IntoJs for () {
    fn into_js(self) -> JsValue {
        JsValue::Undefined
    }
}
impl FromJs for () {
    fn from_js(_v: JsValue) -> Self {}
}

impl IntoJs for bool {
    fn into_js(self) -> JsValue {
        JsValue::Bool(self)
    }
}
impl FromJs for bool {
    fn from_js(v: JsValue) -> Self {
        v.is_truthy()
    }
}

impl IntoJs for &str {
    fn into_js(self) -> JsValue {
        JsValue::from_str(self)
    }
}
impl IntoJs for String {
    fn into_js(self) -> JsValue {
        JsValue::from(self)
    }
}
impl IntoJs for &String {
    fn into_js(self) -> JsValue {
        JsValue::from_str(self)
    }
}
impl FromJs for String {
    fn from_js(v: JsValue) -> Self {
        v.to_js_string()
    }
}

macro_rules! impl_number {
    ($($ty:ty),*) => {
        $(
            impl IntoJs for $ty {
                fn into_js(self) -> JsValue {
                    JsValue::Number(self as f64)
                }
            }
            impl FromJs for $ty {
                fn from_js(v: JsValue) -> Self {
                    // `as` saturates and maps NaN to 0, close enough to JS ToInt conversions for
                    // the in-range values used in practice.
                    v.as_f64().unwrap_or(f64::NAN) as $ty
                }
            }
        )*
    };
}
impl_number!(i8, i16, i32, i64, isize, u8, u16, u32, u64, usize, f32, f64);

impl<T: IntoJs> IntoJs for Option<T> {
    fn into_js(self) -> JsValue {
        match self {
            Some(v) => v.into_js(),
            None => JsValue::Undefined,
        }
    }
}
impl<T: FromJs> FromJs for Option<T> {
    fn from_js(v: JsValue) -> Self {
        if v.is_null_or_undefined() {
            None
        } else {
            Some(T::from_js(v))
        }
    }
}

impl<T: IntoJs, E: Into<JsValue>> IntoJs for Result<T, E> {
    fn into_js(self) -> JsValue {
        match self {
            Ok(v) => v.into_js(),
            Err(e) => crate::throw_val(e.into()),
        }
    }
}
