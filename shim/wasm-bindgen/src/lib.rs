//! Native verification shim for `wasm-bindgen`.
//!
//! This crate replaces the real `wasm-bindgen` (via `[patch.crates-io]`) so that code written
//! against the wasm-bindgen API can be compiled and *run* on a native target. JavaScript values
//! are modelled in-process by the [`JsValue`] enum; objects are reference counted
//! ([`JsObject`]) and compared by identity, like JS objects.
//!
//! Only the API surface needed by sycamore is provided.

use std::any::Any;
use std::cell::RefCell;
use std::fmt;
use std::rc::Rc;

pub use wasm_bindgen_macro::wasm_bindgen;

pub mod closure;
pub mod convert;
pub mod verif;

#[doc(hidden)]
pub mod __rt;

pub mod prelude {
    pub use crate::closure::Closure;
    pub use crate::wasm_bindgen;
    pub use crate::{JsCast, JsError, JsValue, UnwrapThrowExt};
}

/* ---------------------------------------------------------------------------------------------
 * Objects
 * ------------------------------------------------------------------------------------------- */

/// Host data attached to a [`JsObject`] (the "internal slots" of the object).
pub trait ObjectData: Any {
    /// Upcast to [`Any`] so that the concrete type can be recovered.
    fn as_any(&self) -> &dyn Any;
    /// The JS class name, used for `Debug` output.
    fn class_name(&self) -> &'static str {
        "Object"
    }
    /// Extra debug output.
    fn debug(&self, f: &mut fmt::Formatter<'_>) -> fmt::Result {
        write!(f, "[object {}]", self.class_name())
    }
}

/// Data of a plain JS object (`{}`).
#[derive(Debug, Default)]
pub struct PlainObject;
impl ObjectData for PlainObject {
    fn as_any(&self) -> &dyn Any {
        self
    }
}

/// A JavaScript object: a bag of own properties (insertion ordered) plus host data.
pub struct JsObject {
    /// Own (expando) properties in insertion order.
    pub props: RefCell<Vec<(String, JsValue)>>,
    /// Host data.
    pub data: Box<dyn ObjectData>,
}

impl JsObject {
    pub fn new(data: impl ObjectData) -> Rc<Self> {
        Rc::new(JsObject {
            props: RefCell::new(Vec::new()),
            data: Box::new(data),
        })
    }

    /// Downcast the host data.
    pub fn data<T: Any>(&self) -> Option<&T> {
        self.data.as_any().downcast_ref::<T>()
    }

    pub fn get_prop(&self, key: &str) -> JsValue {
        self.props
            .borrow()
            .iter()
            .find(|(k, _)| k == key)
            .map(|(_, v)| v.clone())
            .unwrap_or(JsValue::Undefined)
    }

    pub fn set_prop(&self, key: &str, value: JsValue) {
        let mut props = self.props.borrow_mut();
        if let Some(slot) = props.iter_mut().find(|(k, _)| k == key) {
            slot.1 = value;
        } else {
            props.push((key.to_string(), value));
        }
    }

    pub fn has_prop(&self, key: &str) -> bool {
        self.props.borrow().iter().any(|(k, _)| k == key)
    }

    pub fn delete_prop(&self, key: &str) -> bool {
        let mut props = self.props.borrow_mut();
        let before = props.len();
        props.retain(|(k, _)| k != key);
        before != props.len()
    }
}

/* ---------------------------------------------------------------------------------------------
 * JsValue
 * ------------------------------------------------------------------------------------------- */

/// A JavaScript value.
///
/// DOM nodes, functions, events, arrays… are all `Object`s whose [`JsObject::data`] identifies
/// what they are.
#[derive(Clone)]
pub enum JsValue {
    Undefined,
    Null,
    Bool(bool),
    Number(f64),
    String(Rc<str>),
    Object(Rc<JsObject>),
}

impl JsValue {
    pub const NULL: JsValue = JsValue::Null;
    pub const UNDEFINED: JsValue = JsValue::Undefined;
    pub const TRUE: JsValue = JsValue::Bool(true);
    pub const FALSE: JsValue = JsValue::Bool(false);

    pub fn undefined() -> JsValue {
        JsValue::Undefined
    }
    pub fn null() -> JsValue {
        JsValue::Null
    }
    #[allow(clippy::should_implement_trait)]
    pub fn from_str(s: &str) -> JsValue {
        JsValue::String(Rc::from(s))
    }
    pub fn from_f64(n: f64) -> JsValue {
        JsValue::Number(n)
    }
    pub fn from_bool(b: bool) -> JsValue {
        JsValue::Bool(b)
    }
    /// Create an object value with the given host data.
    pub fn from_object_data(data: impl ObjectData) -> JsValue {
        JsValue::Object(JsObject::new(data))
    }

    pub fn is_undefined(&self) -> bool {
        matches!(self, JsValue::Undefined)
    }
    pub fn is_null(&self) -> bool {
        matches!(self, JsValue::Null)
    }
    pub fn is_null_or_undefined(&self) -> bool {
        matches!(self, JsValue::Null | JsValue::Undefined)
    }
    pub fn is_string(&self) -> bool {
        matches!(self, JsValue::String(_))
    }
    pub fn is_object(&self) -> bool {
        matches!(self, JsValue::Object(_))
    }
    pub fn is_function(&self) -> bool {
        self.object_data::<__rt::FunctionData>().is_some()
    }
    pub fn is_truthy(&self) -> bool {
        match self {
            JsValue::Undefined | JsValue::Null => false,
            JsValue::Bool(b) => *b,
            JsValue::Number(n) => !(*n == 0.0 || n.is_nan()),
            JsValue::String(s) => !s.is_empty(),
            JsValue::Object(_) => true,
        }
    }
    pub fn is_falsy(&self) -> bool {
        !self.is_truthy()
    }

    pub fn as_string(&self) -> Option<String> {
        match self {
            JsValue::String(s) => Some(s.to_string()),
            _ => None,
        }
    }
    pub fn as_f64(&self) -> Option<f64> {
        match self {
            JsValue::Number(n) => Some(*n),
            _ => None,
        }
    }
    pub fn as_bool(&self) -> Option<bool> {
        match self {
            JsValue::Bool(b) => Some(*b),
            _ => None,
        }
    }
    /// `typeof` operator.
    pub fn js_typeof(&self) -> JsValue {
        JsValue::from_str(match self {
            JsValue::Undefined => "undefined",
            JsValue::Null => "object",
            JsValue::Bool(_) => "boolean",
            JsValue::Number(_) => "number",
            JsValue::String(_) => "string",
            JsValue::Object(_) if self.is_function() => "function",
            JsValue::Object(_) => "object",
        })
    }

    /// The underlying object, if this value is an object.
    pub fn as_object(&self) -> Option<&Rc<JsObject>> {
        match self {
            JsValue::Object(o) => Some(o),
            _ => None,
        }
    }

    /// The host data of the underlying object downcast to `T`.
    pub fn object_data<T: Any>(&self) -> Option<&T> {
        self.as_object().and_then(|o| o.data::<T>())
    }

    /// JS `String(value)` (approximation).
    pub fn to_js_string(&self) -> String {
        match self {
            JsValue::Undefined => "undefined".into(),
            JsValue::Null => "null".into(),
            JsValue::Bool(b) => b.to_string(),
            JsValue::Number(n) => __rt::number_to_string(*n),
            JsValue::String(s) => s.to_string(),
            JsValue::Object(o) => format!("[object {}]", o.data.class_name()),
        }
    }
}

impl Default for JsValue {
    fn default() -> Self {
        JsValue::Undefined
    }
}

/// Strict equality (`===`), except that `NaN == NaN` is false as in JS.
impl PartialEq for JsValue {
    fn eq(&self, other: &Self) -> bool {
        match (self, other) {
            (JsValue::Undefined, JsValue::Undefined) => true,
            (JsValue::Null, JsValue::Null) => true,
            (JsValue::Bool(a), JsValue::Bool(b)) => a == b,
            (JsValue::Number(a), JsValue::Number(b)) => a == b,
            (JsValue::String(a), JsValue::String(b)) => a == b,
            (JsValue::Object(a), JsValue::Object(b)) => Rc::ptr_eq(a, b),
            _ => false,
        }
    }
}

impl PartialEq<bool> for JsValue {
    fn eq(&self, other: &bool) -> bool {
        self.as_bool() == Some(*other)
    }
}
impl PartialEq<str> for JsValue {
    fn eq(&self, other: &str) -> bool {
        matches!(self, JsValue::String(s) if &**s == other)
    }
}
impl<'a> PartialEq<&'a str> for JsValue {
    fn eq(&self, other: &&'a str) -> bool {
        <JsValue as PartialEq<str>>::eq(self, other)
    }
}
impl PartialEq<String> for JsValue {
    fn eq(&self, other: &String) -> bool {
        <JsValue as PartialEq<str>>::eq(self, other)
    }
}
impl<'a> PartialEq<&'a String> for JsValue {
    fn eq(&self, other: &&'a String) -> bool {
        <JsValue as PartialEq<str>>::eq(self, other)
    }
}
impl PartialEq<f64> for JsValue {
    fn eq(&self, other: &f64) -> bool {
        self.as_f64() == Some(*other)
    }
}

impl fmt::Debug for JsValue {
    fn fmt(&self, f: &mut fmt::Formatter<'_>) -> fmt::Result {
        match self {
            JsValue::Undefined => write!(f, "JsValue(undefined)"),
            JsValue::Null => write!(f, "JsValue(null)"),
            JsValue::Bool(b) => write!(f, "JsValue({b})"),
            JsValue::Number(n) => write!(f, "JsValue({})", __rt::number_to_string(*n)),
            JsValue::String(s) => write!(f, "JsValue({s:?})"),
            JsValue::Object(o) => {
                write!(f, "JsValue(")?;
                o.data.debug(f)?;
                write!(f, ")")
            }
        }
    }
}

impl From<&str> for JsValue {
    fn from(s: &str) -> Self {
        JsValue::from_str(s)
    }
}
impl From<String> for JsValue {
    fn from(s: String) -> Self {
        JsValue::String(Rc::from(s))
    }
}
impl From<&String> for JsValue {
    fn from(s: &String) -> Self {
        JsValue::from_str(s)
    }
}
impl From<bool> for JsValue {
    fn from(b: bool) -> Self {
        JsValue::Bool(b)
    }
}
impl<T: Into<JsValue>> From<Option<T>> for JsValue {
    fn from(v: Option<T>) -> Self {
        match v {
            Some(v) => v.into(),
            None => JsValue::Undefined,
        }
    }
}
impl<T: JsCast> From<&T> for JsValue {
    fn from(v: &T) -> Self {
        v.as_ref().clone()
    }
}

macro_rules! impl_from_number {
    ($($ty:ty),*) => {
        $(
            impl From<$ty> for JsValue {
                fn from(n: $ty) -> Self {
                    JsValue::Number(n as f64)
                }
            }
            impl PartialEq<$ty> for JsValue {
                fn eq(&self, other: &$ty) -> bool {
                    self.as_f64() == Some(*other as f64)
                }
            }
        )*
    };
}
// NOTE: real wasm-bindgen maps 64/128 bit integers to BigInt. BigInt is not modelled; they become
// (possibly lossy) numbers here.
impl_from_number!(i8, i16, i32, i64, i128, isize, u8, u16, u32, u64, u128, usize, f32);
impl From<f64> for JsValue {
    fn from(n: f64) -> Self {
        JsValue::Number(n)
    }
}

/* ---------------------------------------------------------------------------------------------
 * JsCast
 * ------------------------------------------------------------------------------------------- */

/// Casting between JS types. Mirrors `wasm_bindgen::JsCast`.
///
/// All JS wrapper types are `#[repr(transparent)]` newtypes (transitively) around [`JsValue`],
/// which is what makes [`JsCast::unchecked_from_js_ref`] possible.
pub trait JsCast
where
    Self: AsRef<JsValue> + Into<JsValue>,
{
    /// Dynamic `instanceof` check.
    fn instanceof(val: &JsValue) -> bool;

    /// Custom type check, defaults to [`JsCast::instanceof`].
    fn is_type_of(val: &JsValue) -> bool {
        Self::instanceof(val)
    }

    /// Zero-cost unchecked conversion.
    fn unchecked_from_js(val: JsValue) -> Self;

    /// Zero-cost unchecked conversion of a reference.
    fn unchecked_from_js_ref(val: &JsValue) -> &Self;

    fn has_type<T: JsCast>(&self) -> bool {
        T::is_type_of(self.as_ref())
    }

    fn dyn_into<T: JsCast>(self) -> Result<T, Self>
    where
        Self: Sized,
    {
        if self.has_type::<T>() {
            Ok(self.unchecked_into())
        } else {
            Err(self)
        }
    }

    fn dyn_ref<T: JsCast>(&self) -> Option<&T> {
        if self.has_type::<T>() {
            Some(self.unchecked_ref())
        } else {
            None
        }
    }

    fn unchecked_into<T: JsCast>(self) -> T
    where
        Self: Sized,
    {
        T::unchecked_from_js(self.into())
    }

    fn unchecked_ref<T: JsCast>(&self) -> &T {
        T::unchecked_from_js_ref(self.as_ref())
    }

    fn is_instance_of<T: JsCast>(&self) -> bool {
        T::instanceof(self.as_ref())
    }
}

impl AsRef<JsValue> for JsValue {
    fn as_ref(&self) -> &JsValue {
        self
    }
}

impl JsCast for JsValue {
    fn instanceof(_val: &JsValue) -> bool {
        true
    }
    fn unchecked_from_js(val: JsValue) -> Self {
        val
    }
    fn unchecked_from_js_ref(val: &JsValue) -> &Self {
        val
    }
}

/* ---------------------------------------------------------------------------------------------
 * Errors / throwing
 * ------------------------------------------------------------------------------------------- */

/// Host data of a JS `Error` object (also used for `DOMException`s).
#[derive(Debug, Clone)]
pub struct ErrorData {
    pub name: String,
    pub message: String,
}
impl ObjectData for ErrorData {
    fn as_any(&self) -> &dyn Any {
        self
    }
    fn class_name(&self) -> &'static str {
        "Error"
    }
    fn debug(&self, f: &mut fmt::Formatter<'_>) -> fmt::Result {
        write!(f, "{}: {}", self.name, self.message)
    }
}

/// Create an error object with the given name (e.g. `"TypeError"`, `"NotFoundError"`).
pub fn make_error(name: &str, message: &str) -> JsValue {
    JsValue::from_object_data(ErrorData {
        name: name.to_string(),
        message: message.to_string(),
    })
}

/// Mirrors `wasm_bindgen::JsError`.
#[derive(Debug, Clone)]
pub struct JsError {
    value: JsValue,
}
impl JsError {
    pub fn new(s: &str) -> JsError {
        JsError {
            value: make_error("Error", s),
        }
    }
}
impl From<JsError> for JsValue {
    fn from(e: JsError) -> Self {
        e.value
    }
}

/// "Throws" a JS exception. Natively this is a panic.
#[track_caller]
pub fn throw_str(s: &str) -> ! {
    panic!("JS exception thrown: {s}")
}

/// "Throws" a JS exception. Natively this is a panic.
#[track_caller]
pub fn throw_val(v: JsValue) -> ! {
    panic!("JS exception thrown: {v:?}")
}

/// Mirrors `wasm_bindgen::UnwrapThrowExt`.
pub trait UnwrapThrowExt<T>: Sized {
    #[track_caller]
    fn unwrap_throw(self) -> T {
        self.expect_throw("called `unwrap_throw()` on a `None`/`Err` value")
    }
    #[track_caller]
    fn expect_throw(self, message: &str) -> T;
}

impl<T> UnwrapThrowExt<T> for Option<T> {
    #[track_caller]
    fn expect_throw(self, message: &str) -> T {
        match self {
            Some(v) => v,
            None => throw_str(message),
        }
    }
}

impl<T, E: fmt::Debug> UnwrapThrowExt<T> for Result<T, E> {
    #[track_caller]
    fn expect_throw(self, message: &str) -> T {
        match self {
            Ok(v) => v,
            Err(e) => throw_str(&format!("{message}: {e:?}")),
        }
    }
}

/// String interning is a pure optimisation in wasm-bindgen; it is the identity here.
pub fn intern(s: &str) -> &str {
    s
}

/// See [`intern`].
pub fn unintern(_s: &str) {}
