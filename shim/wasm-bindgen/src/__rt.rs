//! Runtime support: functions, the global object, property access helpers used by the
//! `#[wasm_bindgen]` macro shim, and the microtask queue.

use std::any::Any;
use std::cell::{Cell, RefCell};
use std::collections::VecDeque;
use std::fmt;
use std::rc::Rc;

use crate::{make_error, JsObject, JsValue, ObjectData};

pub use crate::convert::{FromJs, IntoJs};

/// Signature of the Rust implementation of a JS function: `(this, args) -> Result<ret, thrown>`.
pub type NativeFn = dyn FnMut(&JsValue, &[JsValue]) -> Result<JsValue, JsValue>;

/// Host data of a JS function object.
pub struct FunctionData {
    /// The implementation. `None` once the owning `Closure` has been dropped.
    pub f: RefCell<Option<Box<NativeFn>>>,
    /// Set when the owning `Closure` was dropped (possibly while the function was running).
    pub dropped: Cell<bool>,
    /// Function name, for diagnostics only.
    pub name: String,
}

impl ObjectData for FunctionData {
    fn as_any(&self) -> &dyn Any {
        self
    }
    fn class_name(&self) -> &'static str {
        "Function"
    }
    fn debug(&self, f: &mut fmt::Formatter<'_>) -> fmt::Result {
        write!(f, "function {}()", self.name)
    }
}

/// Create a function object.
pub fn make_function(
    name: &str,
    f: impl FnMut(&JsValue, &[JsValue]) -> Result<JsValue, JsValue> + 'static,
) -> JsValue {
    JsValue::from_object_data(FunctionData {
        f: RefCell::new(Some(Box::new(f))),
        dropped: Cell::new(false),
        name: name.to_string(),
    })
}

/// Invalidate a function (used when a `Closure` is dropped). Later calls throw.
pub fn invalidate_function(func: &JsValue) {
    if let Some(data) = func.object_data::<FunctionData>() {
        data.dropped.set(true);
        if let Ok(mut slot) = data.f.try_borrow_mut() {
            // Drop outside of the borrow in case the destructor re-enters.
            let taken = slot.take();
            drop(slot);
            drop(taken);
        }
        // Otherwise the function is currently executing; `call_function` clears the slot
        // when the call returns.
    }
}

/// Call a JS function value. Mirrors `Function.prototype.apply`.
pub fn call_function(func: &JsValue, this: &JsValue, args: &[JsValue]) -> Result<JsValue, JsValue> {
    let Some(data) = func.object_data::<FunctionData>() else {
        return Err(make_error(
            "TypeError",
            &format!("{} is not a function", func.to_js_string()),
        ));
    };
    // Keep the object alive for the duration of the call.
    let _keep_alive = func.clone();
    if data.dropped.get() {
        return Err(make_error(
            "Error",
            "closure invoked recursively or after being dropped",
        ));
    }
    let Ok(mut slot) = data.f.try_borrow_mut() else {
        return Err(make_error(
            "Error",
            "closure invoked recursively or after being dropped",
        ));
    };
    let Some(f) = slot.as_mut() else {
        return Err(make_error(
            "Error",
            "closure invoked recursively or after being dropped",
        ));
    };
    let ret = f(this, args);
    if data.dropped.get() {
        let taken = slot.take();
        drop(slot);
        drop(taken);
    }
    ret
}

/// Host data for the global object (`globalThis` / `window`).
#[derive(Default)]
pub struct GlobalData {
    /// Event listeners registered on the window: `(type, callback)`.
    pub listeners: RefCell<Vec<(String, JsValue)>>,
}

impl ObjectData for GlobalData {
    fn as_any(&self) -> &dyn Any {
        self
    }
    fn class_name(&self) -> &'static str {
        "Window"
    }
}

thread_local! {
    static GLOBAL: Rc<JsObject> = new_global();
    static MICROTASKS: RefCell<VecDeque<JsValue>> = const { RefCell::new(VecDeque::new()) };
}

fn new_global() -> Rc<JsObject> {
    let global = JsObject::new(GlobalData::default());
    install_builtins(&global);
    global
}

fn install_builtins(global: &JsObject) {
    global.set_prop(
        "queueMicrotask",
        make_function("queueMicrotask", |_this, args| {
            let cb = args.first().cloned().unwrap_or_default();
            if !cb.is_function() {
                return Err(make_error(
                    "TypeError",
                    "queueMicrotask: argument is not a function",
                ));
            }
            MICROTASKS.with(|q| q.borrow_mut().push_back(cb));
            Ok(JsValue::Undefined)
        }),
    );
}

/// The global object. There is exactly one per thread; its identity never changes.
pub fn global() -> JsValue {
    GLOBAL.with(|g| JsValue::Object(g.clone()))
}

/// Remove all expando properties and listeners from the global object and re-install the builtins.
pub fn reset_global() {
    GLOBAL.with(|g| {
        g.props.borrow_mut().clear();
        if let Some(data) = g.data::<GlobalData>() {
            data.listeners.borrow_mut().clear();
        }
        install_builtins(g);
    });
    MICROTASKS.with(|q| q.borrow_mut().clear());
}

/// Number of queued microtasks.
pub fn pending_microtasks() -> usize {
    MICROTASKS.with(|q| q.borrow().len())
}

/// Run microtasks until the queue is empty (microtasks queued by microtasks run too, like a JS
/// microtask checkpoint). Returns the number of tasks run. Exceptions thrown by tasks are
/// returned in order.
pub fn run_microtasks() -> (usize, Vec<JsValue>) {
    let mut n = 0;
    let mut errors = Vec::new();
    loop {
        let next = MICROTASKS.with(|q| q.borrow_mut().pop_front());
        let Some(task) = next else { break };
        n += 1;
        if let Err(e) = call_function(&task, &JsValue::Undefined, &[]) {
            errors.push(e);
        }
    }
    (n, errors)
}

/// `target[key]`. Throws (panics) if `target` is `null`/`undefined`, like JS.
#[track_caller]
pub fn get_property(target: &JsValue, key: &str) -> JsValue {
    match target {
        JsValue::Object(o) => o.get_prop(key),
        JsValue::Undefined | JsValue::Null => crate::throw_str(&format!(
            "TypeError: cannot read properties of {} (reading '{key}')",
            target.to_js_string()
        )),
        _ => JsValue::Undefined,
    }
}

/// `target[key] = value`.
#[track_caller]
pub fn set_property(target: &JsValue, key: &str, value: JsValue) {
    match target {
        JsValue::Object(o) => o.set_prop(key, value),
        JsValue::Undefined | JsValue::Null => crate::throw_str(&format!(
            "TypeError: cannot set properties of {} (setting '{key}')",
            target.to_js_string()
        )),
        // Setting a property on a primitive is silently ignored in sloppy mode.
        _ => {}
    }
}

/// Call `globalThis[namespace...][name](...args)`; used for `extern "C"` free functions.
pub fn call_global(
    namespace: &[&str],
    name: &str,
    args: &[JsValue],
) -> Result<JsValue, JsValue> {
    let mut this = global();
    for ns in namespace {
        this = get_property(&this, ns);
    }
    let func = get_property(&this, name);
    if !func.is_function() {
        return Err(make_error(
            "TypeError",
            &format!(
                "{name} is not a function (not provided by the native wasm-bindgen shim; \
                 register it on `wasm_bindgen::verif::global()`)"
            ),
        ));
    }
    call_function(&func, &this, args)
}

/// Call `this[name](...args)`; used for `extern "C"` methods.
pub fn call_method(this: &JsValue, name: &str, args: &[JsValue]) -> Result<JsValue, JsValue> {
    let func = get_property(this, name);
    if !func.is_function() {
        return Err(make_error(
            "TypeError",
            &format!("{}.{name} is not a function", this.to_js_string()),
        ));
    }
    call_function(&func, this, args)
}

/// Unwrap the result of a non-`catch` import: an exception becomes a panic.
#[track_caller]
pub fn unwrap_js(result: Result<JsValue, JsValue>) -> JsValue {
    match result {
        Ok(v) => v,
        Err(e) => crate::throw_val(e),
    }
}

/// `Number.prototype.toString` (approximation good enough for diagnostics and integers).
pub fn number_to_string(n: f64) -> String {
    if n.is_nan() {
        "NaN".into()
    } else if n.is_infinite() {
        if n > 0.0 { "Infinity" } else { "-Infinity" }.into()
    } else if n == 0.0 {
        "0".into()
    } else if n.fract() == 0.0 && n.abs() < 1e21 {
        format!("{n:.0}")
    } else {
        format!("{n}")
    }
}
