//! Native verification shim for `js-sys`: `Object`, `Function`, `Array`, `Reflect`, `Date`.
//!
//! See the `wasm-bindgen` shim for the value model.

use std::any::Any;
use std::cell::RefCell;
use std::fmt;

use wasm_bindgen::{__rt, make_error, JsCast, JsValue, ObjectData, PlainObject};

/// Declare a `#[repr(transparent)]` JS wrapper type with the usual wasm-bindgen conversions.
///
/// `js_type!(Name: Parent [Ancestors...], |v| instanceof_expr)`
#[macro_export]
#[doc(hidden)]
macro_rules! js_type {
    ($(#[$attr:meta])* $name:ident : $parent:ty [$($anc:ty),*], |$v:ident| $check:expr) => {
        $(#[$attr])*
        #[repr(transparent)]
        #[derive(Clone, PartialEq, Eq)]
        pub struct $name {
            obj: $parent,
        }

        impl ::core::ops::Deref for $name {
            type Target = $parent;
            fn deref(&self) -> &$parent {
                &self.obj
            }
        }
        impl ::core::convert::AsRef<$crate::__wasm_bindgen::JsValue> for $name {
            fn as_ref(&self) -> &$crate::__wasm_bindgen::JsValue {
                ::core::convert::AsRef::<$crate::__wasm_bindgen::JsValue>::as_ref(&self.obj)
            }
        }
        impl ::core::convert::AsRef<$name> for $name {
            fn as_ref(&self) -> &$name {
                self
            }
        }
        impl ::core::convert::AsRef<$parent> for $name {
            fn as_ref(&self) -> &$parent {
                &self.obj
            }
        }
        impl ::core::convert::From<$name> for $parent {
            fn from(v: $name) -> $parent {
                v.obj
            }
        }
        impl ::core::convert::From<$name> for $crate::__wasm_bindgen::JsValue {
            fn from(v: $name) -> $crate::__wasm_bindgen::JsValue {
                ::core::convert::Into::<$crate::__wasm_bindgen::JsValue>::into(v.obj)
            }
        }
        $(
            impl ::core::convert::AsRef<$anc> for $name {
                fn as_ref(&self) -> &$anc {
                    $crate::__wasm_bindgen::JsCast::unchecked_ref(self)
                }
            }
            impl ::core::convert::From<$name> for $anc {
                fn from(v: $name) -> $anc {
                    $crate::__wasm_bindgen::JsCast::unchecked_into(v)
                }
            }
        )*
        impl $crate::__wasm_bindgen::JsCast for $name {
            fn instanceof($v: &$crate::__wasm_bindgen::JsValue) -> bool {
                $check
            }
            fn unchecked_from_js(val: $crate::__wasm_bindgen::JsValue) -> Self {
                $name {
                    obj: <$parent as $crate::__wasm_bindgen::JsCast>::unchecked_from_js(val),
                }
            }
            fn unchecked_from_js_ref(val: &$crate::__wasm_bindgen::JsValue) -> &Self {
                // SAFETY: `Self` is a chain of `#[repr(transparent)]` newtypes around `JsValue`.
                unsafe { &*(val as *const $crate::__wasm_bindgen::JsValue as *const Self) }
            }
        }
        impl $crate::__wasm_bindgen::convert::IntoJs for $name {
            fn into_js(self) -> $crate::__wasm_bindgen::JsValue {
                ::core::convert::Into::into(self)
            }
        }
        impl ::core::fmt::Debug for $name {
            fn fmt(&self, f: &mut ::core::fmt::Formatter<'_>) -> ::core::fmt::Result {
                ::core::fmt::Debug::fmt(
                    ::core::convert::AsRef::<$crate::__wasm_bindgen::JsValue>::as_ref(self),
                    f,
                )
            }
        }
    };
}

#[doc(hidden)]
pub use wasm_bindgen as __wasm_bindgen;

/* ---------------------------------------------------------------------------------------------
 * Object
 * ------------------------------------------------------------------------------------------- */

/// `Object`.
#[repr(transparent)]
#[derive(Clone, PartialEq)]
pub struct Object {
    obj: JsValue,
}
impl Eq for Object {}

impl std::ops::Deref for Object {
    type Target = JsValue;
    fn deref(&self) -> &JsValue {
        &self.obj
    }
}
impl AsRef<JsValue> for Object {
    fn as_ref(&self) -> &JsValue {
        &self.obj
    }
}
impl AsRef<Object> for Object {
    fn as_ref(&self) -> &Object {
        self
    }
}
impl From<Object> for JsValue {
    fn from(v: Object) -> JsValue {
        v.obj
    }
}
impl JsCast for Object {
    fn instanceof(val: &JsValue) -> bool {
        val.is_object()
    }
    fn unchecked_from_js(val: JsValue) -> Self {
        Object { obj: val }
    }
    fn unchecked_from_js_ref(val: &JsValue) -> &Self {
        // SAFETY: `Object` is a `#[repr(transparent)]` newtype around `JsValue`.
        unsafe { &*(val as *const JsValue as *const Self) }
    }
}
impl wasm_bindgen::convert::IntoJs for Object {
    fn into_js(self) -> JsValue {
        self.obj
    }
}
impl fmt::Debug for Object {
    fn fmt(&self, f: &mut fmt::Formatter<'_>) -> fmt::Result {
        fmt::Debug::fmt(&self.obj, f)
    }
}

impl Object {
    /// `new Object()`.
    pub fn new() -> Object {
        Object {
            obj: JsValue::from_object_data(PlainObject),
        }
    }

    /// `Object.keys(obj)`: own expando property names in insertion order.
    pub fn keys(object: &Object) -> Array {
        let arr = Array::new();
        if let Some(o) = object.obj.as_object() {
            for (k, _) in o.props.borrow().iter() {
                arr.push(&JsValue::from_str(k));
            }
        }
        arr
    }

    /// `Object.is(a, b)`.
    pub fn is(a: &JsValue, b: &JsValue) -> bool {
        match (a.as_f64(), b.as_f64()) {
            (Some(x), Some(y)) => {
                (x.is_nan() && y.is_nan()) || (x == y && x.is_sign_negative() == y.is_sign_negative())
            }
            _ => a == b,
        }
    }
}

impl Default for Object {
    fn default() -> Self {
        Self::new()
    }
}

/* ---------------------------------------------------------------------------------------------
 * Function
 * ------------------------------------------------------------------------------------------- */

js_type!(
    /// `Function`.
    Function: Object [], |v| v.is_function()
);

impl Function {
    pub fn call0(&self, context: &JsValue) -> Result<JsValue, JsValue> {
        __rt::call_function(self.as_ref(), context, &[])
    }
    pub fn call1(&self, context: &JsValue, arg1: &JsValue) -> Result<JsValue, JsValue> {
        __rt::call_function(self.as_ref(), context, &[arg1.clone()])
    }
    pub fn call2(&self, context: &JsValue, arg1: &JsValue, arg2: &JsValue) -> Result<JsValue, JsValue> {
        __rt::call_function(self.as_ref(), context, &[arg1.clone(), arg2.clone()])
    }
    pub fn call3(
        &self,
        context: &JsValue,
        arg1: &JsValue,
        arg2: &JsValue,
        arg3: &JsValue,
    ) -> Result<JsValue, JsValue> {
        __rt::call_function(
            self.as_ref(),
            context,
            &[arg1.clone(), arg2.clone(), arg3.clone()],
        )
    }
    pub fn apply(&self, context: &JsValue, args: &Array) -> Result<JsValue, JsValue> {
        __rt::call_function(self.as_ref(), context, &args.to_vec())
    }
    /// The function's name (diagnostics only).
    pub fn name(&self) -> String {
        self.object_data::<__rt::FunctionData>()
            .map(|d| d.name.clone())
            .unwrap_or_default()
    }
}

/* ---------------------------------------------------------------------------------------------
 * Array
 * ------------------------------------------------------------------------------------------- */

/// Host data of an `Array`.
#[derive(Default)]
pub struct ArrayData {
    pub items: RefCell<Vec<JsValue>>,
}
impl ObjectData for ArrayData {
    fn as_any(&self) -> &dyn Any {
        self
    }
    fn class_name(&self) -> &'static str {
        "Array"
    }
    fn debug(&self, f: &mut fmt::Formatter<'_>) -> fmt::Result {
        f.debug_list().entries(self.items.borrow().iter()).finish()
    }
}

js_type!(
    /// `Array` (dense, minimal API).
    Array: Object [], |v| v.object_data::<ArrayData>().is_some()
);

impl Array {
    pub fn new() -> Array {
        JsValue::from_object_data(ArrayData::default()).unchecked_into()
    }
    fn data(&self) -> &ArrayData {
        self.object_data::<ArrayData>()
            .expect("value is not an Array")
    }
    pub fn of1(a: &JsValue) -> Array {
        let arr = Array::new();
        arr.push(a);
        arr
    }
    pub fn push(&self, value: &JsValue) -> u32 {
        let mut items = self.data().items.borrow_mut();
        items.push(value.clone());
        items.len() as u32
    }
    pub fn length(&self) -> u32 {
        self.data().items.borrow().len() as u32
    }
    pub fn get(&self, index: u32) -> JsValue {
        self.data()
            .items
            .borrow()
            .get(index as usize)
            .cloned()
            .unwrap_or_default()
    }
    pub fn set(&self, index: u32, value: JsValue) {
        let mut items = self.data().items.borrow_mut();
        if items.len() <= index as usize {
            items.resize(index as usize + 1, JsValue::Undefined);
        }
        items[index as usize] = value;
    }
    pub fn to_vec(&self) -> Vec<JsValue> {
        self.data().items.borrow().clone()
    }
    pub fn iter(&self) -> std::vec::IntoIter<JsValue> {
        self.to_vec().into_iter()
    }
}

impl Default for Array {
    fn default() -> Self {
        Self::new()
    }
}

impl<A: AsRef<JsValue>> FromIterator<A> for Array {
    fn from_iter<T: IntoIterator<Item = A>>(iter: T) -> Array {
        let arr = Array::new();
        for v in iter {
            arr.push(v.as_ref());
        }
        arr
    }
}

/* ---------------------------------------------------------------------------------------------
 * Reflect
 * ------------------------------------------------------------------------------------------- */

/// The `Reflect` namespace. Properties are plain own data properties stored per object; DOM
/// accessor properties (`value`, `textContent`, …) are NOT modelled: reading a property returns
/// whatever was last stored under that key, or `undefined`.
pub mod Reflect {
    #![allow(non_snake_case)]
    use super::*;

    fn key_string(key: &JsValue) -> String {
        key.to_js_string()
    }

    fn not_object(what: &str) -> JsValue {
        make_error("TypeError", &format!("Reflect.{what} called on non-object"))
    }

    /// `Reflect.get(target, key)`.
    pub fn get(target: &JsValue, key: &JsValue) -> Result<JsValue, JsValue> {
        match target.as_object() {
            Some(o) => {
                if let Some(arr) = o.data::<ArrayData>() {
                    if let Some(n) = key.as_f64() {
                        return Ok(arr
                            .items
                            .borrow()
                            .get(n as usize)
                            .cloned()
                            .unwrap_or_default());
                    }
                    if key == "length" {
                        return Ok(JsValue::from(arr.items.borrow().len()));
                    }
                }
                Ok(o.get_prop(&key_string(key)))
            }
            None => Err(not_object("get")),
        }
    }

    /// `Reflect.set(target, key, value)`.
    pub fn set(target: &JsValue, key: &JsValue, value: &JsValue) -> Result<bool, JsValue> {
        match target.as_object() {
            Some(o) => {
                o.set_prop(&key_string(key), value.clone());
                Ok(true)
            }
            None => Err(not_object("set")),
        }
    }

    /// `Reflect.has(target, key)`.
    pub fn has(target: &JsValue, key: &JsValue) -> Result<bool, JsValue> {
        match target.as_object() {
            Some(o) => Ok(o.has_prop(&key_string(key))),
            None => Err(not_object("has")),
        }
    }

    /// `Reflect.deleteProperty(target, key)`.
    pub fn delete_property(target: &Object, key: &JsValue) -> Result<bool, JsValue> {
        match target.as_object() {
            Some(o) => {
                o.delete_prop(&key_string(key));
                Ok(true)
            }
            None => Err(not_object("deleteProperty")),
        }
    }

    /// `Reflect.ownKeys(target)`.
    pub fn own_keys(target: &JsValue) -> Result<Array, JsValue> {
        match target.as_object() {
            Some(o) => Ok(o
                .props
                .borrow()
                .iter()
                .map(|(k, _)| JsValue::from_str(k))
                .collect()),
            None => Err(not_object("ownKeys")),
        }
    }
}

/* ---------------------------------------------------------------------------------------------
 * Date
 * ------------------------------------------------------------------------------------------- */

/// `Date` (only `Date.now()`), driven by a virtual clock so that runs are deterministic.
pub struct Date;

thread_local! {
    static NOW_MS: std::cell::Cell<f64> = const { std::cell::Cell::new(0.0) };
}

impl Date {
    /// Milliseconds of the virtual clock (starts at 0, advanced with [`Date::verif_advance`]).
    pub fn now() -> f64 {
        NOW_MS.with(|n| n.get())
    }
    /// Advance the virtual clock.
    pub fn verif_advance(ms: f64) {
        NOW_MS.with(|n| n.set(n.get() + ms));
    }
}
