//! Native verification shim for `#[wasm_bindgen]`.
//!
//! Supported:
//! * `#[wasm_bindgen] extern "C" { ... }` blocks containing
//!   - `type Name;` (optionally `#[wasm_bindgen(extends = Path, ...)]`): a transparent newtype
//!     around the first `extends` type (or `JsValue`) implementing `JsCast`;
//!   - free functions (`js_name`, `js_namespace`, `catch`): looked up on the shim's global object
//!     at call time;
//!   - `method`s (`getter`, `setter`, `js_name`, `catch`, `structural`): property get / property
//!     set / method call on `this`.
//! * Any other item: passed through with nested `#[wasm_bindgen(..)]` attributes removed (there is
//!   no JS side to export to).

use proc_macro::TokenStream;
use proc_macro2::{Span, TokenStream as TokenStream2};
use quote::{format_ident, quote, ToTokens};
use syn::parse::{Parse, ParseStream};
use syn::punctuated::Punctuated;
use syn::{
    Attribute, Error, Expr, ExprLit, FnArg, ForeignItem, ForeignItemFn, ForeignItemType, Ident,
    Item, ItemForeignMod, Lit, Pat, Path, Result, ReturnType, Token, Type,
};

#[proc_macro_attribute]
pub fn wasm_bindgen(_attr: TokenStream, input: TokenStream) -> TokenStream {
    let item = match syn::parse::<Item>(input) {
        Ok(item) => item,
        Err(e) => return e.to_compile_error().into(),
    };
    let out = match item {
        Item::ForeignMod(m) => expand_foreign_mod(m),
        other => Ok(strip_nested_attrs(other.into_token_stream())),
    };
    match out {
        Ok(ts) => ts.into(),
        Err(e) => e.to_compile_error().into(),
    }
}

/// Remove `#[wasm_bindgen(...)]` attributes appearing anywhere inside a passed-through item.
fn strip_nested_attrs(ts: TokenStream2) -> TokenStream2 {
    use proc_macro2::{Group, TokenTree};
    let mut out = Vec::<TokenTree>::new();
    let mut iter = ts.into_iter().peekable();
    while let Some(tt) = iter.next() {
        match tt {
            TokenTree::Punct(ref p) if p.as_char() == '#' => {
                if let Some(TokenTree::Group(g)) = iter.peek() {
                    let mut inner = g.stream().into_iter();
                    if let Some(TokenTree::Ident(id)) = inner.next() {
                        if id == "wasm_bindgen" {
                            iter.next();
                            continue;
                        }
                    }
                }
                out.push(tt);
            }
            TokenTree::Group(g) => {
                let mut new = Group::new(g.delimiter(), strip_nested_attrs(g.stream()));
                new.set_span(g.span());
                out.push(TokenTree::Group(new));
            }
            other => out.push(other),
        }
    }
    out.into_iter().collect()
}

/// One `key` or `key = value` option inside `#[wasm_bindgen(...)]`.
struct Opt {
    key: Ident,
    value: Option<OptValue>,
}

enum OptValue {
    Str(String),
    Path(Path),
    Other,
}

impl Parse for Opt {
    fn parse(input: ParseStream) -> Result<Self> {
        let key: Ident = input.call(syn::ext::IdentExt::parse_any)?;
        let value = if input.peek(Token![=]) {
            input.parse::<Token![=]>()?;
            if input.peek(syn::LitStr) {
                Some(OptValue::Str(input.parse::<syn::LitStr>()?.value()))
            } else if let Ok(path) = input.fork().parse::<Path>() {
                input.parse::<Path>()?;
                Some(OptValue::Path(path))
            } else {
                let expr: Expr = input.parse()?;
                match expr {
                    Expr::Lit(ExprLit {
                        lit: Lit::Str(s), ..
                    }) => Some(OptValue::Str(s.value())),
                    _ => Some(OptValue::Other),
                }
            }
        } else {
            None
        };
        Ok(Opt { key, value })
    }
}

#[derive(Default)]
struct Opts {
    extends: Vec<Path>,
    js_name: Option<String>,
    js_namespace: Vec<String>,
    method: bool,
    getter: Option<Option<String>>,
    setter: Option<Option<String>>,
    catch: bool,
    static_method_of: Option<Path>,
    constructor: bool,
}

fn parse_opts(attrs: &[Attribute]) -> Result<Opts> {
    let mut opts = Opts::default();
    for attr in attrs {
        if !attr.path().is_ident("wasm_bindgen") {
            continue;
        }
        if matches!(attr.meta, syn::Meta::Path(_)) {
            continue;
        }
        let list = attr.parse_args_with(Punctuated::<Opt, Token![,]>::parse_terminated)?;
        for opt in list {
            let key = opt.key.to_string();
            let as_name = |v: &Option<OptValue>| match v {
                Some(OptValue::Str(s)) => Some(s.clone()),
                Some(OptValue::Path(p)) => p.get_ident().map(|i| i.to_string()),
                _ => None,
            };
            match key.as_str() {
                "extends" => {
                    if let Some(OptValue::Path(p)) = opt.value {
                        opts.extends.push(p);
                    }
                }
                "js_name" => opts.js_name = as_name(&opt.value),
                "js_namespace" => {
                    if let Some(n) = as_name(&opt.value) {
                        opts.js_namespace.push(n);
                    }
                }
                "method" => opts.method = true,
                "getter" => opts.getter = Some(as_name(&opt.value)),
                "setter" => opts.setter = Some(as_name(&opt.value)),
                "catch" => opts.catch = true,
                "constructor" => opts.constructor = true,
                "static_method_of" => {
                    if let Some(OptValue::Path(p)) = opt.value {
                        opts.static_method_of = Some(p);
                    }
                }
                // Accepted and ignored.
                "structural" | "final" | "js_class" | "typescript_type" | "is_type_of"
                | "vendor_prefix" | "variadic" | "no_deref" | "thread_local_v2" | "indexing_getter"
                | "indexing_setter" | "indexing_deleter" | "module" | "raw_module"
                | "inline_js" | "skip_typescript" | "unchecked_return_type"
                | "unchecked_param_type" | "return_description" | "param_description" => {}
                other => {
                    return Err(Error::new(
                        opt.key.span(),
                        format!("wasm-bindgen verification shim: unsupported option `{other}`"),
                    ))
                }
            }
        }
    }
    Ok(opts)
}

fn other_attrs(attrs: &[Attribute]) -> Vec<&Attribute> {
    attrs
        .iter()
        .filter(|a| !a.path().is_ident("wasm_bindgen"))
        .collect()
}

fn expand_foreign_mod(m: ItemForeignMod) -> Result<TokenStream2> {
    let mut out = TokenStream2::new();
    for item in &m.items {
        match item {
            ForeignItem::Type(ty) => out.extend(expand_type(ty)?),
            ForeignItem::Fn(f) => out.extend(expand_fn(f)?),
            other => {
                return Err(Error::new_spanned(
                    other,
                    "wasm-bindgen verification shim: unsupported item in extern block",
                ))
            }
        }
    }
    Ok(out)
}

fn expand_type(ty: &ForeignItemType) -> Result<TokenStream2> {
    let opts = parse_opts(&ty.attrs)?;
    let attrs = other_attrs(&ty.attrs);
    let vis = &ty.vis;
    let name = &ty.ident;
    let parent: TokenStream2 = match opts.extends.first() {
        Some(p) => quote!(#p),
        None => quote!(::wasm_bindgen::JsValue),
    };
    let has_parent = !opts.extends.is_empty();
    let mut extra = TokenStream2::new();
    for anc in &opts.extends {
        extra.extend(quote! {
            impl ::core::convert::From<#name> for #anc {
                fn from(v: #name) -> #anc {
                    ::wasm_bindgen::JsCast::unchecked_into(v)
                }
            }
            impl ::core::convert::AsRef<#anc> for #name {
                fn as_ref(&self) -> &#anc {
                    ::wasm_bindgen::JsCast::unchecked_ref(self)
                }
            }
        });
    }
    let as_ref_js = if has_parent {
        quote!(::core::convert::AsRef::<::wasm_bindgen::JsValue>::as_ref(&self.obj))
    } else {
        quote!(&self.obj)
    };
    let into_js = if has_parent {
        quote!(::core::convert::Into::<::wasm_bindgen::JsValue>::into(v.obj))
    } else {
        quote!(v.obj)
    };
    let from_js = if has_parent {
        quote!(<#parent as ::wasm_bindgen::JsCast>::unchecked_from_js(val))
    } else {
        quote!(val)
    };
    Ok(quote! {
        #(#attrs)*
        #[repr(transparent)]
        #[derive(Clone, PartialEq, Debug)]
        #vis struct #name {
            obj: #parent,
        }

        impl ::core::ops::Deref for #name {
            type Target = #parent;
            fn deref(&self) -> &#parent {
                &self.obj
            }
        }
        impl ::core::convert::AsRef<::wasm_bindgen::JsValue> for #name {
            fn as_ref(&self) -> &::wasm_bindgen::JsValue {
                #as_ref_js
            }
        }
        impl ::core::convert::AsRef<#name> for #name {
            fn as_ref(&self) -> &#name {
                self
            }
        }
        impl ::core::convert::From<#name> for ::wasm_bindgen::JsValue {
            fn from(v: #name) -> ::wasm_bindgen::JsValue {
                #into_js
            }
        }
        impl ::wasm_bindgen::convert::IntoJs for #name {
            fn into_js(self) -> ::wasm_bindgen::JsValue {
                ::core::convert::Into::into(self)
            }
        }
        impl ::wasm_bindgen::JsCast for #name {
            fn instanceof(_val: &::wasm_bindgen::JsValue) -> bool {
                // No JS class to check against natively.
                true
            }
            fn unchecked_from_js(val: ::wasm_bindgen::JsValue) -> Self {
                #name { obj: #from_js }
            }
            fn unchecked_from_js_ref(val: &::wasm_bindgen::JsValue) -> &Self {
                // SAFETY: `Self` is a chain of `#[repr(transparent)]` newtypes around `JsValue`.
                unsafe { &*(val as *const ::wasm_bindgen::JsValue as *const Self) }
            }
        }
        #extra
    })
}

fn expand_fn(f: &ForeignItemFn) -> Result<TokenStream2> {
    let opts = parse_opts(&f.attrs)?;
    let attrs = other_attrs(&f.attrs);
    let vis = &f.vis;
    let sig = &f.sig;
    let rust_name = &sig.ident;
    let js_name = opts.js_name.clone().unwrap_or_else(|| rust_name.to_string());

    // Collect argument names, renaming patterns to plain identifiers.
    let mut arg_idents = Vec::new();
    let mut arg_types = Vec::new();
    for (i, arg) in sig.inputs.iter().enumerate() {
        match arg {
            FnArg::Typed(pt) => {
                let ident = match &*pt.pat {
                    Pat::Ident(pi) => pi.ident.clone(),
                    _ => format_ident!("__arg{}", i),
                };
                arg_idents.push(ident);
                arg_types.push((*pt.ty).clone());
            }
            FnArg::Receiver(r) => {
                return Err(Error::new_spanned(
                    r,
                    "wasm-bindgen verification shim: `self` is not allowed in extern blocks",
                ))
            }
        }
    }

    let ret_ty: TokenStream2 = match &sig.output {
        ReturnType::Default => quote!(()),
        ReturnType::Type(_, ty) => quote!(#ty),
    };

    let convert_ret = |call: TokenStream2| -> TokenStream2 {
        if opts.catch {
            // `Result<T, JsValue>`: convert the Ok side with `FromJs`.
            quote! {
                match #call {
                    ::core::result::Result::Ok(v) => ::core::result::Result::Ok(::wasm_bindgen::__rt::FromJs::from_js(v)),
                    ::core::result::Result::Err(e) => ::core::result::Result::Err(e),
                }
            }
        } else {
            quote! {
                ::wasm_bindgen::__rt::FromJs::from_js(::wasm_bindgen::__rt::unwrap_js(#call))
            }
        }
    };

    let generics = &sig.generics;
    let fn_token = quote!(#[allow(clippy::all, non_snake_case)] #[track_caller]);

    if opts.method {
        let Some(this_ty) = arg_types.first() else {
            return Err(Error::new_spanned(
                sig,
                "wasm-bindgen verification shim: `method` requires a `this` argument",
            ));
        };
        let class: Type = match this_ty {
            Type::Reference(r) => (*r.elem).clone(),
            other => other.clone(),
        };
        let this_ident = &arg_idents[0];
        let rest_idents = &arg_idents[1..];
        let rest_types = &arg_types[1..];
        let this_js = quote!(::core::convert::AsRef::<::wasm_bindgen::JsValue>::as_ref(self));
        let body = if let Some(getter) = &opts.getter {
            let prop = getter
                .clone()
                .or(opts.js_name.clone())
                .unwrap_or_else(|| rust_name.to_string());
            convert_ret(quote!(::core::result::Result::<_, ::wasm_bindgen::JsValue>::Ok(
                ::wasm_bindgen::__rt::get_property(#this_js, #prop)
            )))
        } else if let Some(setter) = &opts.setter {
            let prop = setter.clone().or(opts.js_name.clone()).unwrap_or_else(|| {
                let n = rust_name.to_string();
                n.strip_prefix("set_").map(str::to_string).unwrap_or(n)
            });
            let Some(value) = rest_idents.first() else {
                return Err(Error::new_spanned(
                    sig,
                    "wasm-bindgen verification shim: `setter` requires a value argument",
                ));
            };
            quote! {
                ::wasm_bindgen::__rt::set_property(#this_js, #prop, ::wasm_bindgen::__rt::IntoJs::into_js(#value));
            }
        } else {
            convert_ret(quote!(::wasm_bindgen::__rt::call_method(
                #this_js,
                #js_name,
                &[#(::wasm_bindgen::__rt::IntoJs::into_js(#rest_idents)),*]
            )))
        };
        let _ = this_ident;
        return Ok(quote! {
            impl #class {
                #(#attrs)*
                #fn_token
                #vis fn #rust_name #generics (&self #(, #rest_idents: #rest_types)*) -> #ret_ty {
                    #body
                }
            }
        });
    }

    if opts.constructor || opts.static_method_of.is_some() {
        return Err(Error::new(
            Span::call_site(),
            "wasm-bindgen verification shim: constructors / static methods are not supported",
        ));
    }

    let namespace = &opts.js_namespace;
    let body = convert_ret(quote!(::wasm_bindgen::__rt::call_global(
        &[#(#namespace),*],
        #js_name,
        &[#(::wasm_bindgen::__rt::IntoJs::into_js(#arg_idents)),*]
    )));
    Ok(quote! {
        #(#attrs)*
        #fn_token
        #vis fn #rust_name #generics (#(#arg_idents: #arg_types),*) -> #ret_ty {
            #body
        }
    })
}
