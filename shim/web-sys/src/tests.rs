//! Unit tests of the DOM semantics. Run with `cargo test --offline -p web-sys` from
//! /verif/harness/dom.

use wasm_bindgen::prelude::*;

use crate::verif::*;
use crate::*;

fn doc() -> Document {
    window().unwrap().document().unwrap()
}

fn el(tag: &str) -> Node {
    doc().create_element(tag).unwrap().into()
}

fn setup(names: &[&str]) -> (Node, Vec<Node>) {
    reset_document();
    let parent = el("div");
    let kids: Vec<Node> = names.iter().map(|n| el(n)).collect();
    for k in &kids {
        parent.append_child(k).unwrap();
    }
    (parent, kids)
}

fn tags(parent: &Node) -> String {
    children(parent)
        .iter()
        .map(|c| c.node_name().to_lowercase())
        .collect::<Vec<_>>()
        .join(",")
}

fn err_name(e: JsValue) -> String {
    e.object_data::<wasm_bindgen::ErrorData>().unwrap().name.clone()
}

#[test]
fn reset_gives_skeleton_and_deterministic_ids() {
    reset_document();
    let d = doc();
    assert_eq!(node_id(&d), 1);
    assert_eq!(
        d.document_element().unwrap().outer_html(),
        "<html><head></head><body></body></html>"
    );
    assert_eq!(node_id(&d.body().unwrap()), 4);
    let a = el("a");
    assert_eq!(node_id(&a), 5);
    d.body().unwrap().append_child(&a).unwrap();
    reset_document();
    assert_eq!(node_id(&el("b")), 5);
    assert!(doc().body().unwrap().first_child().is_none());
    assert_eq!(mutation_log().len(), 1); // the CreateElement of <b>
}

#[test]
fn append_moves_node_from_old_parent() {
    let (p1, kids) = setup(&["a", "b"]);
    let p2 = el("section");
    p2.append_child(&kids[0]).unwrap();
    assert_eq!(tags(&p1), "b");
    assert_eq!(tags(&p2), "a");
    assert_eq!(kids[0].parent_node(), Some(p2.clone()));
    // Appending the last child again is a no-op move.
    p1.append_child(&kids[1]).unwrap();
    assert_eq!(tags(&p1), "b");
    // Re-appending the first of several children moves it to the end.
    p1.append_child(&kids[0]).unwrap();
    p1.append_child(&kids[1]).unwrap();
    assert_eq!(tags(&p1), "a,b");
}

#[test]
fn insert_before_semantics() {
    let (p, k) = setup(&["a", "b", "c"]);
    // insertBefore(x, x): reference becomes x's next sibling => no change.
    p.insert_before(&k[1], Some(&k[1])).unwrap();
    assert_eq!(tags(&p), "a,b,c");
    // Move last before first.
    p.insert_before(&k[2], Some(&k[0])).unwrap();
    assert_eq!(tags(&p), "c,a,b");
    // Insert before own next sibling => no change.
    p.insert_before(&k[0], Some(&k[1])).unwrap();
    assert_eq!(tags(&p), "c,a,b");
    // None reference appends.
    p.insert_before(&k[2], None).unwrap();
    assert_eq!(tags(&p), "a,b,c");
    // Reference that is not a child: NotFoundError, nothing changes.
    let stranger = el("x");
    let e = p.insert_before(&k[0], Some(&stranger)).unwrap_err();
    assert_eq!(err_name(e), "NotFoundError");
    assert_eq!(tags(&p), "a,b,c");
    // Inserting an ancestor: HierarchyRequestError.
    let e = k[0].append_child(&p).unwrap_err();
    assert_eq!(err_name(e), "HierarchyRequestError");
    let e = p.append_child(&p).unwrap_err();
    assert_eq!(err_name(e), "HierarchyRequestError");
    // Text nodes cannot have children.
    let t: Node = doc().create_text_node("t").into();
    let e = t.append_child(&k[0]).unwrap_err();
    assert_eq!(err_name(e), "HierarchyRequestError");
}

#[test]
fn fragment_insertion_moves_children() {
    let (p, k) = setup(&["a", "b"]);
    let frag: Node = doc().create_document_fragment().into();
    let (x, y) = (el("x"), el("y"));
    frag.append_child(&x).unwrap();
    frag.append_child(&y).unwrap();
    p.insert_before(&frag, Some(&k[1])).unwrap();
    assert_eq!(tags(&p), "a,x,y,b");
    assert!(!frag.has_child_nodes());
    assert!(frag.parent_node().is_none());
    assert_eq!(x.parent_node(), Some(p.clone()));
    // Empty fragment: no-op.
    p.append_child(&frag).unwrap();
    assert_eq!(tags(&p), "a,x,y,b");
    // replaceChild with a fragment.
    frag.append_child(&x).unwrap();
    frag.append_child(&y).unwrap();
    assert_eq!(tags(&p), "a,b");
    p.replace_child(&frag, &k[0]).unwrap();
    assert_eq!(tags(&p), "x,y,b");
}

#[test]
fn replace_child_semantics() {
    let (p, k) = setup(&["a", "b", "c", "d"]);
    // new is already in the tree, after old.
    let ret = p.replace_child(&k[3], &k[0]).unwrap();
    assert_eq!(ret, k[0]);
    assert_eq!(tags(&p), "d,b,c");
    assert!(k[0].parent_node().is_none());
    // new is the next sibling of old.
    p.replace_child(&k[1], &k[3]).unwrap();
    assert_eq!(tags(&p), "b,c");
    // new is the previous sibling of old.
    p.replace_child(&k[1], &k[2]).unwrap();
    assert_eq!(tags(&p), "b");
    // new == old.
    p.replace_child(&k[1], &k[1]).unwrap();
    assert_eq!(tags(&p), "b");
    // old is not a child.
    let e = p.replace_child(&k[0], &k[3]).unwrap_err();
    assert_eq!(err_name(e), "NotFoundError");
}

#[test]
fn remove_child_of_non_child_is_not_found() {
    let (p, k) = setup(&["a"]);
    let other = el("x");
    assert_eq!(err_name(p.remove_child(&other).unwrap_err()), "NotFoundError");
    p.remove_child(&k[0]).unwrap();
    assert_eq!(err_name(p.remove_child(&k[0]).unwrap_err()), "NotFoundError");
    assert!(k[0].parent_node().is_none());
    assert!(k[0].next_sibling().is_none());
}

#[test]
fn navigation_and_identity() {
    let (p, k) = setup(&["a", "b", "c"]);
    assert_eq!(p.first_child(), Some(k[0].clone()));
    assert_eq!(p.last_child(), Some(k[2].clone()));
    assert_eq!(k[0].next_sibling(), Some(k[1].clone()));
    assert_eq!(k[1].previous_sibling(), Some(k[0].clone()));
    assert_eq!(k[2].next_sibling(), None);
    assert!(k[0].is_same_node(Some(&p.first_child().unwrap())));
    assert_ne!(k[0], k[1]);
    assert!(p.contains(Some(&k[1])) && p.contains(Some(&p)) && !k[1].contains(Some(&p)));
    assert_eq!(p.child_nodes().length(), 3);
    assert!(!p.is_connected());
    doc().body().unwrap().append_child(&p).unwrap();
    assert!(k[0].is_connected());
    // Clones are new nodes.
    let c = p.clone_node_with_deep(true).unwrap();
    assert_ne!(c, p);
    assert!(c.is_equal_node(Some(&p)));
    assert_eq!(c.child_nodes().length(), 3);
}

#[test]
fn jscast_checks_node_kinds() {
    reset_document();
    let e = el("div");
    let t: Node = doc().create_text_node("x").into();
    let c: Node = doc().create_comment("x").into();
    assert!(e.dyn_ref::<Element>().is_some());
    assert!(e.dyn_ref::<HtmlElement>().is_some());
    assert!(e.dyn_ref::<Text>().is_none());
    assert!(t.dyn_ref::<Text>().is_some());
    assert!(t.dyn_ref::<CharacterData>().is_some());
    assert!(t.dyn_ref::<Comment>().is_none());
    assert!(c.is_instance_of::<Comment>());
    assert!(!c.is_instance_of::<Element>());
    let svg: Node = doc()
        .create_element_ns(Some(SVG_NAMESPACE), "svg")
        .unwrap()
        .into();
    assert!(svg.is_instance_of::<Element>() && !svg.is_instance_of::<HtmlElement>());
    let v: JsValue = e.clone().into();
    assert!(v.dyn_into::<Node>().is_ok());
    assert!(JsValue::from(1).dyn_into::<Node>().is_err());
    assert!(window().unwrap().is_instance_of::<EventTarget>());
    assert!(!window().unwrap().is_instance_of::<Node>());
}

#[test]
fn attributes_and_text() {
    reset_document();
    let e: Element = el("div").unchecked_into();
    e.set_attribute("B", "1").unwrap();
    e.set_attribute("a", "2").unwrap();
    e.set_attribute("b", "3").unwrap();
    assert_eq!(attributes(&e), vec![("b".into(), "3".into()), ("a".into(), "2".into())]);
    assert_eq!(e.get_attribute("A").as_deref(), Some("2"));
    e.remove_attribute("b").unwrap();
    e.remove_attribute("zzz").unwrap();
    assert_eq!(e.outer_html(), "<div a=\"2\"></div>");
    assert_eq!(err_name(e.set_attribute("a b", "").unwrap_err()), "InvalidCharacterError");
    assert_eq!(err_name(doc().create_element("1x").unwrap_err()), "InvalidCharacterError");

    e.set_text_content(Some("a<b"));
    assert_eq!(e.child_nodes().length(), 1);
    assert_eq!(e.inner_html(), "a&lt;b");
    assert_eq!(e.text_content().as_deref(), Some("a<b"));
    let span = el("span");
    span.set_text_content(Some("!"));
    e.append_child(&doc().create_comment("c")).unwrap();
    e.append_child(&span).unwrap();
    assert_eq!(e.text_content().as_deref(), Some("a<b!"));
    e.set_text_content(None);
    assert!(!e.has_child_nodes());
    let t = doc().create_text_node("x");
    t.set_text_content(Some("y"));
    assert_eq!(t.node_value().as_deref(), Some("y"));
    assert_eq!(t.data(), "y");
    t.set_node_value(Some("z"));
    assert_eq!(t.text_content().as_deref(), Some("z"));
    assert_eq!(e.node_value(), None);
}

#[test]
fn serialisation_escapes() {
    reset_document();
    let e: Element = el("p").unchecked_into();
    e.set_attribute("title", "a&b\"c<d>\u{a0}").unwrap();
    e.append_child(&doc().create_text_node("x&y<z>\u{a0}\"")).unwrap();
    e.append_child(&doc().create_comment(" c ")).unwrap();
    e.append_child(&el("br")).unwrap();
    assert_eq!(
        e.outer_html(),
        "<p title=\"a&amp;b&quot;c<d>&nbsp;\">x&amp;y&lt;z&gt;&nbsp;\"<!-- c --><br></p>"
    );
    let s: Element = el("script").unchecked_into();
    s.set_text_content(Some("a<b&&c"));
    assert_eq!(s.outer_html(), "<script>a<b&&c</script>");
}

fn parse(html: &str) -> String {
    reset_document();
    let e: Element = el("div").unchecked_into();
    e.set_inner_html(html);
    e.inner_html()
}

#[test]
fn parser_basics() {
    assert_eq!(parse("<p class=\"a b\" hidden>x</p>"), "<p class=\"a b\" hidden=\"\">x</p>");
    assert_eq!(parse("<P CLASS=a DATA-x='1'>x</P>"), "<p class=\"a\" data-x=\"1\">x</p>");
    assert_eq!(parse("a<br>b<img src=\"x\"><input disabled>"), "a<br>b<img src=\"x\"><input disabled=\"\">");
    assert_eq!(parse("<br/><div/>x"), "<br><div>x</div>");
    assert_eq!(parse("<!--/--><!--t-->x<!--><!---->y<!--->z"), "<!--/--><!--t-->x<!----><!---->y<!---->z");
    assert_eq!(parse("<!-- a -- b -->"), "<!-- a -- b -->");
    assert_eq!(parse("&amp;&lt;&gt;&quot;&#65;&#x42;&#x1F600;&apos;&nbsp;"), "&amp;&lt;&gt;\"AB\u{1F600}'&nbsp;");
    assert_eq!(parse("&unknown; & &#; &amp"), "&amp;unknown; &amp; &amp;#; &amp;");
    assert_eq!(parse("<a title=\"&quot;x&amp;y&#33;\">t</a>"), "<a title=\"&quot;x&amp;y!\">t</a>");
    assert_eq!(parse("<a href=\"?a=1&amp=2&lt=3\">t</a>"), "<a href=\"?a=1&amp;amp=2&amp;lt=3\">t</a>");
    assert_eq!(parse("1 < 2 <3 </ x"), "1 &lt; 2 &lt;3 <!-- x-->");
    assert_eq!(parse("a</span>b</div>c"), "abc");
    assert_eq!(parse("<ul><li>a<li>b</ul>"), "<ul><li>a<li>b</li></li></ul>"); // no implied end tags (known gap)
    assert_eq!(parse("<script>if (a<b && c) {}</script><style>a>b{}</style>"), "<script>if (a<b && c) {}</script><style>a>b{}</style>");
    assert_eq!(parse("<textarea>\n&lt;b&gt;</textarea><pre>\nx</pre>"), "<textarea>&lt;b&gt;</textarea><pre>x</pre>");
    assert_eq!(parse("<!DOCTYPE html><p>x"), "<p>x</p>");
    assert_eq!(parse("a\r\nb\rc"), "a\nb\nc");
}

#[test]
fn parser_tree_shape() {
    reset_document();
    let e: Element = el("div").unchecked_into();
    e.set_inner_html("a&amp;b<!--t-->c<!-->d<b>e</b>f");
    let kinds: Vec<u16> = children(&e).iter().map(|n| n.node_type()).collect();
    // Adjacent character tokens (including decoded references) form a single text node.
    assert_eq!(kinds, vec![3, 8, 3, 8, 3, 1, 3]);
    assert_eq!(children(&e)[0].text_content().as_deref(), Some("a&b"));
    assert_eq!(children(&e)[3].text_content().as_deref(), Some(""));
    // Empty dynamic text: no text node between the comments.
    e.set_inner_html("<!--t--><!-->");
    assert_eq!(e.child_nodes().length(), 2);
    // Old children are detached.
    let old = e.first_child().unwrap();
    e.set_inner_html("");
    assert!(old.parent_node().is_none() && !e.has_child_nodes());
    // SVG namespace and case adjustments.
    e.set_inner_html("<svg viewbox=\"0 0 1 1\"><foreignobject><p>x</p></foreignobject><circle r=1 /></svg><p>y</p>");
    let svg: Element = e.first_child().unwrap().unchecked_into();
    assert_eq!(svg.namespace_uri().as_deref(), Some(SVG_NAMESPACE));
    assert_eq!(svg.tag_name(), "svg");
    assert_eq!(svg.get_attribute("viewBox").as_deref(), Some("0 0 1 1"));
    let fo: Element = svg.first_child().unwrap().unchecked_into();
    assert_eq!(fo.tag_name(), "foreignObject");
    let p: Element = fo.first_child().unwrap().unchecked_into();
    assert_eq!(p.namespace_uri().as_deref(), Some(HTML_NAMESPACE));
    assert_eq!(p.tag_name(), "P");
    assert_eq!(
        e.inner_html(),
        "<svg viewBox=\"0 0 1 1\"><foreignObject><p>x</p></foreignObject><circle r=\"1\"></circle></svg><p>y</p>"
    );
}

#[test]
fn selectors() {
    reset_document();
    let body = doc().body().unwrap();
    body.set_inner_html(
        "<div id=\"a\" class=\"x y\" data-hk=\"0.0\"><p data-hk=\"0.1\">1</p><span><p class=\"y\" data-key=\"2\">2</p></span></div><p id=\"c\">3</p>",
    );
    let ids = |sel: &str| -> Vec<String> {
        let list = doc().query_selector_all(sel).unwrap();
        (0..list.length())
            .map(|i| list.get(i).unwrap().text_content().unwrap())
            .collect()
    };
    assert_eq!(ids("[data-hk]"), vec!["12", "1"]);
    assert_eq!(ids("p"), vec!["1", "2", "3"]);
    assert_eq!(ids("div p"), vec!["1", "2"]);
    assert_eq!(ids("div > p"), vec!["1"]);
    assert_eq!(ids("#a .y, #c"), vec!["2", "3"]);
    assert_eq!(ids("p[data-key=\"2\"]"), vec!["2"]);
    assert_eq!(ids("p[data-key=2]"), vec!["2"]);
    assert_eq!(ids("div.x.y"), vec!["12"]);
    assert_eq!(ids("BODY > P"), vec!["3"]);
    assert!(doc().query_selector("#nope").unwrap().is_none());
    assert_eq!(doc().query_selector("body").unwrap().unwrap(), *body);
    assert_eq!(err_name(doc().query_selector("p:hover").unwrap_err()), "SyntaxError");
    // Element-rooted queries only return descendants.
    let a = doc().get_element_by_id("a").unwrap();
    assert_eq!(a.query_selector_all("[data-hk]").unwrap().length(), 1);
    assert!(a.matches("div#a").unwrap());
    assert_eq!(a.first_child().unwrap().unchecked_into::<Element>().closest(".x").unwrap(), Some(a));
}

#[test]
fn events_and_closures() {
    use std::cell::RefCell;
    use std::rc::Rc;
    reset_document();
    let outer = el("div");
    let inner = el("button");
    outer.append_child(&inner).unwrap();
    doc().body().unwrap().append_child(&outer).unwrap();
    let seen = Rc::new(RefCell::new(Vec::<String>::new()));

    let mk = |label: &'static str| {
        let seen = seen.clone();
        Closure::wrap(Box::new(move |ev: Event| {
            let cur: Node = ev.current_target().unwrap().unchecked_into();
            let tgt: Node = ev.target().unwrap().unchecked_into();
            seen.borrow_mut().push(format!(
                "{label}:{}:{}:{}",
                ev.type_(),
                cur.node_name(),
                tgt.node_name()
            ));
        }) as Box<dyn FnMut(Event)>)
    };
    let c_inner = mk("inner");
    let c_outer = mk("outer");
    inner
        .add_event_listener_with_callback("click", c_inner.as_ref().unchecked_ref())
        .unwrap();
    // Registering the same callback twice has no effect.
    inner
        .add_event_listener_with_callback("click", c_inner.as_ref().unchecked_ref())
        .unwrap();
    outer
        .add_event_listener_with_callback("click", c_outer.as_ref().unchecked_ref())
        .unwrap();
    assert_eq!(listener_count(&inner, "click"), 1);

    dispatch(&inner, "click");
    assert_eq!(*seen.borrow(), vec!["inner:click:BUTTON:BUTTON", "outer:click:DIV:BUTTON"]);
    seen.borrow_mut().clear();
    dispatch_with(&inner, "click", false);
    assert_eq!(*seen.borrow(), vec!["inner:click:BUTTON:BUTTON"]);
    seen.borrow_mut().clear();
    dispatch(&inner, "keydown");
    assert!(seen.borrow().is_empty());

    // A dropped closure is invalidated: the listener throws instead of running.
    drop(c_inner);
    dispatch(&inner, "click");
    assert_eq!(*seen.borrow(), vec!["outer:click:DIV:BUTTON"]);
    assert_eq!(uncaught_exceptions().len(), 1);
    // A forgotten closure stays valid.
    c_outer.forget();
    seen.borrow_mut().clear();
    dispatch(&outer, "click");
    assert_eq!(seen.borrow().len(), 1);

    // Microtasks.
    let flag = Rc::new(RefCell::new(0));
    let f2 = flag.clone();
    let cb = Closure::once_into_js(move || *f2.borrow_mut() += 1);
    wasm_bindgen::__rt::call_global(&[], "queueMicrotask", &[cb.clone()]).unwrap();
    assert_eq!((*flag.borrow(), pending_microtasks()), (0, 1));
    assert_eq!(run_microtasks(), 1);
    assert_eq!(*flag.borrow(), 1);

    // Reflect expandos on nodes and the window.
    js_sys::Reflect::set(&inner, &"value".into(), &"v".into()).unwrap();
    assert_eq!(js_sys::Reflect::get(&inner, &"value".into()).unwrap(), "v");
    assert!(js_sys::Reflect::get(&window().unwrap(), &"nope".into()).unwrap().is_undefined());
    console::warn_1(&"careful".into());
    assert_eq!(console_log().last().unwrap(), &(Level::Warn, "careful".to_string()));
}

#[test]
fn mutation_log_records_api_calls() {
    let (p, k) = setup(&["a", "b"]);
    clear_mutation_log();
    p.insert_before(&k[1], Some(&k[0])).unwrap();
    let _ = p.remove_child(&el("x"));
    p.remove_child(&k[0]).unwrap();
    let (pid, a, b) = (node_id(&p), node_id(&k[0]), node_id(&k[1]));
    let log = mutation_log();
    assert_eq!(
        log,
        vec![
            Mutation::InsertBefore { parent: pid, child: b, reference: Some(a) },
            Mutation::CreateElement { id: b + 1, tag: "x".into() },
            Mutation::RemoveChild { parent: pid, child: a },
        ]
    );
    assert_eq!(take_mutation_log().len(), 3);
    assert!(mutation_log().is_empty());
}
