//! Events: `Event` objects, listener storage and the dispatch algorithm (DOM §2.9, simplified:
//! no capture phase, no shadow trees, no passive / once options).

use std::any::Any;
use std::cell::{Cell, RefCell};
use std::fmt;

use wasm_bindgen::__rt::GlobalData;
use wasm_bindgen::{JsCast, JsValue, ObjectData};

use crate::dom::{self, NodeData, NodeKind};
use crate::{Event, EventTarget, Node};

/// Host data of an `Event` object.
pub struct EventData {
    pub type_: String,
    pub bubbles: bool,
    pub cancelable: bool,
    pub target: RefCell<Option<JsValue>>,
    pub current_target: RefCell<Option<JsValue>>,
    pub phase: Cell<u16>,
    pub default_prevented: Cell<bool>,
    pub stop_propagation: Cell<bool>,
    pub stop_immediate: Cell<bool>,
    pub dispatching: Cell<bool>,
}

impl ObjectData for EventData {
    fn as_any(&self) -> &dyn Any {
        self
    }
    fn class_name(&self) -> &'static str {
        "Event"
    }
    fn debug(&self, f: &mut fmt::Formatter<'_>) -> fmt::Result {
        write!(f, "Event {{ type: {:?}, bubbles: {} }}", self.type_, self.bubbles)
    }
}

pub(crate) fn new_event(type_: &str, bubbles: bool, cancelable: bool) -> Event {
    JsValue::from_object_data(EventData {
        type_: type_.to_string(),
        bubbles,
        cancelable,
        target: RefCell::new(None),
        current_target: RefCell::new(None),
        phase: Cell::new(Event::NONE),
        default_prevented: Cell::new(false),
        stop_propagation: Cell::new(false),
        stop_immediate: Cell::new(false),
        dispatching: Cell::new(false),
    })
    .unchecked_into()
}

pub(crate) fn event_data(ev: &Event) -> &EventData {
    AsRef::<JsValue>::as_ref(ev)
        .object_data::<EventData>()
        .expect("TypeError: value is not an Event (bad unchecked cast?)")
}

thread_local! {
    static UNCAUGHT: RefCell<Vec<JsValue>> = const { RefCell::new(Vec::new()) };
}

/// Exceptions thrown by event listeners during dispatch ("report the exception"), e.g. because the
/// owning `Closure` had already been dropped. They are also written to the console log as errors.
pub fn uncaught_exceptions() -> Vec<JsValue> {
    UNCAUGHT.with(|u| u.borrow().clone())
}
pub(crate) fn clear_uncaught() {
    UNCAUGHT.with(|u| u.borrow_mut().clear());
}

fn with_listeners<R>(target: &JsValue, f: impl FnOnce(&mut Vec<(String, JsValue)>) -> R) -> Option<R> {
    if let Some(nd) = target.object_data::<NodeData>() {
        Some(f(&mut nd.inner.borrow_mut().listeners))
    } else if let Some(g) = target.object_data::<GlobalData>() {
        Some(f(&mut g.listeners.borrow_mut()))
    } else {
        None
    }
}

/// "add an event listener" (§2.7): duplicates (same type and callback) are ignored.
pub(crate) fn add_listener(target: &JsValue, type_: &str, callback: &JsValue) {
    with_listeners(target, |l| {
        if !l.iter().any(|(t, c)| t == type_ && c == callback) {
            l.push((type_.to_string(), callback.clone()));
        }
    });
}

pub(crate) fn remove_listener(target: &JsValue, type_: &str, callback: &JsValue) {
    with_listeners(target, |l| {
        l.retain(|(t, c)| !(t == type_ && c == callback));
    });
}

/// Number of listeners for `type_` registered directly on `target`.
pub fn listener_count(target: &EventTarget, type_: &str) -> usize {
    with_listeners(target.as_ref(), |l| l.iter().filter(|(t, _)| t == type_).count()).unwrap_or(0)
}

/// "dispatch" `event` to `target` (§2.9). Returns `false` if the event was cancelled.
pub(crate) fn dispatch(target: &JsValue, event: &Event) -> bool {
    let ed = event_data(event);
    ed.dispatching.set(true);
    *ed.target.borrow_mut() = Some(target.clone());

    // Event path: target, its ancestors and finally the window if the root is the document.
    let mut path: Vec<JsValue> = vec![target.clone()];
    if target.object_data::<NodeData>().is_some() {
        let node: Node = target.clone().unchecked_into();
        let mut cur = dom::parent(&node);
        let mut last = node;
        while let Some(p) = cur {
            path.push(AsRef::<JsValue>::as_ref(&p).clone());
            cur = dom::parent(&p);
            last = p;
        }
        if matches!(dom::data(&last).kind, NodeKind::Document) {
            path.push(wasm_bindgen::verif::global());
        }
    }

    for (i, current) in path.iter().enumerate() {
        if i > 0 && !ed.bubbles {
            break;
        }
        if ed.stop_propagation.get() {
            break;
        }
        ed.phase.set(if i == 0 {
            Event::AT_TARGET
        } else {
            Event::BUBBLING_PHASE
        });
        *ed.current_target.borrow_mut() = Some(current.clone());
        // Clone the listener list: listeners added during dispatch do not run, removed ones are
        // skipped.
        let snapshot: Vec<JsValue> = with_listeners(current, |l| {
            l.iter()
                .filter(|(t, _)| *t == ed.type_)
                .map(|(_, c)| c.clone())
                .collect()
        })
        .unwrap_or_default();
        for callback in snapshot {
            let still_there = with_listeners(current, |l| {
                l.iter().any(|(t, c)| *t == ed.type_ && *c == callback)
            })
            .unwrap_or(false);
            if !still_there {
                continue;
            }
            let result = wasm_bindgen::verif::call_function(
                &callback,
                current,
                &[AsRef::<JsValue>::as_ref(event).clone()],
            );
            if let Err(e) = result {
                crate::console::push(crate::console::Level::Error, format!("Uncaught {e:?}"));
                UNCAUGHT.with(|u| u.borrow_mut().push(e));
            }
            if ed.stop_immediate.get() {
                break;
            }
        }
    }

    ed.phase.set(Event::NONE);
    *ed.current_target.borrow_mut() = None;
    ed.dispatching.set(false);
    ed.stop_propagation.set(false);
    ed.stop_immediate.set(false);
    !ed.default_prevented.get()
}
