//! Native verification shim for `web-sys`: an in-process DOM.
//!
//! The types mirror the `web-sys` API (names, signatures) for the subset used by sycamore; the
//! semantics follow the WHATWG DOM and HTML standards (see `README.md` of the shim directory).
//! Harness-only API lives in [`verif`].

use js_sys::{js_type, Function, Object};
use wasm_bindgen::{JsCast, JsValue};

pub use {js_sys, wasm_bindgen};

pub mod console;
pub mod dom;
pub mod events;
pub mod html;
pub mod selector;
#[cfg(test)]
mod tests;

use dom::{data, Mutation, NodeKind};

/// Harness-only API (not part of web-sys).
pub mod verif {
    pub use crate::console::{clear_console_log, console_log, take_console_log, Level};
    pub use crate::dom::{
        clear_mutation_log, live_node_count, mutation_log, mutation_log_len, node_id,
        reset_document, set_mutation_logging, take_mutation_log, Mutation, NodeKind,
        HTML_NAMESPACE, MATHML_NAMESPACE, SVG_NAMESPACE,
    };
    pub use crate::events::{listener_count, uncaught_exceptions};
    pub use wasm_bindgen::verif::{pending_microtasks, run_microtasks, try_run_microtasks};

    use crate::{Element, Event, EventTarget, Node};
    use wasm_bindgen::JsCast;

    /// Dispatch a (bubbling, cancelable) event of type `event_type` at `target`, invoking the
    /// listeners registered with `add_event_listener_with_callback` on the target and its
    /// ancestors. Returns the event object after dispatch.
    pub fn dispatch(target: &EventTarget, event_type: &str) -> Event {
        dispatch_with(target, event_type, true)
    }

    /// Like [`dispatch`] with an explicit `bubbles` flag.
    pub fn dispatch_with(target: &EventTarget, event_type: &str, bubbles: bool) -> Event {
        let ev = crate::events::new_event(event_type, bubbles, true);
        crate::events::dispatch(target.as_ref(), &ev);
        ev
    }

    /// The kind of a node.
    pub fn node_kind(node: &Node) -> NodeKind {
        crate::dom::data(node).kind.clone()
    }

    /// Creation ids of the children of `node`.
    pub fn children_ids(node: &Node) -> Vec<u64> {
        crate::dom::children(node).iter().map(node_id).collect()
    }

    /// The children of `node` (snapshot).
    pub fn children(node: &Node) -> Vec<Node> {
        crate::dom::children(node)
    }

    /// The attributes of an element in order.
    pub fn attributes(el: &Element) -> Vec<(String, String)> {
        crate::dom::data(el).inner.borrow().attrs.clone()
    }

    /// Outer HTML of `node` together with the creation ids of all serialised nodes (including
    /// `node` itself) in document (pre-)order, i.e. in the order their markup starts in the string.
    pub fn outer_html_with_ids(node: &Node) -> (String, Vec<u64>) {
        let mut out = String::new();
        let mut ids = Vec::new();
        // A text child of a raw text element (script, style, ...) is serialised verbatim.
        let raw = crate::dom::parent(node)
            .map(|p| crate::is_raw_text_element(&p))
            .unwrap_or(false);
        crate::html::serialize_node(node, raw, &mut out, &mut Some(&mut ids));
        (out, ids)
    }

    /// Find a node by creation id among the inclusive descendants of `root`.
    pub fn find_by_id(root: &Node, id: u64) -> Option<Node> {
        if node_id(root) == id {
            return Some(root.clone());
        }
        crate::dom::descendants(root)
            .into_iter()
            .find(|n| node_id(n) == id)
    }

    /// Unchecked upcast helper: any node type to `EventTarget`.
    pub fn as_event_target(node: &Node) -> &EventTarget {
        node.unchecked_ref()
    }
}

pub(crate) fn is_raw_text_element(node: &Node) -> bool {
    matches!(&data(node).kind, NodeKind::Element { tag, namespace }
        if namespace.as_deref() == Some(dom::HTML_NAMESPACE)
            && matches!(tag.as_str(), "style" | "script" | "xmp" | "iframe" | "noembed" | "noframes" | "noscript" | "plaintext"))
}

fn kind_is(v: &JsValue, f: impl FnOnce(&NodeKind) -> bool) -> bool {
    dom::try_data(v).map(|d| f(&d.kind)).unwrap_or(false)
}

/* ---------------------------------------------------------------------------------------------
 * Type declarations
 * ------------------------------------------------------------------------------------------- */

js_type!(
    /// `EventTarget`: nodes and the window.
    EventTarget: Object [], |v| {
        dom::try_data(v).is_some() || v.object_data::<wasm_bindgen::__rt::GlobalData>().is_some()
    }
);
js_type!(
    /// `Node`.
    Node: EventTarget [Object], |v| dom::try_data(v).is_some()
);
js_type!(
    /// `Element`.
    Element: Node [EventTarget, Object], |v| kind_is(v, |k| matches!(k, NodeKind::Element { .. }))
);
js_type!(
    /// `HTMLElement`: an element in the HTML namespace.
    HtmlElement: Element [Node, EventTarget, Object], |v| kind_is(v, |k| {
        matches!(k, NodeKind::Element { namespace, .. } if namespace.as_deref() == Some(dom::HTML_NAMESPACE))
    })
);
js_type!(
    /// `HTMLHeadElement`.
    HtmlHeadElement: HtmlElement [Element, Node, EventTarget, Object], |v| kind_is(v, |k| {
        matches!(k, NodeKind::Element { namespace, tag } if namespace.as_deref() == Some(dom::HTML_NAMESPACE) && tag == "head")
    })
);
js_type!(
    /// `CharacterData`: text and comment nodes.
    CharacterData: Node [EventTarget, Object], |v| kind_is(v, |k| matches!(k, NodeKind::Text | NodeKind::Comment))
);
js_type!(
    /// `Text`.
    Text: CharacterData [Node, EventTarget, Object], |v| kind_is(v, |k| matches!(k, NodeKind::Text))
);
js_type!(
    /// `Comment`.
    Comment: CharacterData [Node, EventTarget, Object], |v| kind_is(v, |k| matches!(k, NodeKind::Comment))
);
js_type!(
    /// `DocumentFragment`.
    DocumentFragment: Node [EventTarget, Object], |v| kind_is(v, |k| matches!(k, NodeKind::DocumentFragment))
);
js_type!(
    /// `Document`.
    Document: Node [EventTarget, Object], |v| kind_is(v, |k| matches!(k, NodeKind::Document))
);
js_type!(
    /// `Window` (the global object).
    Window: EventTarget [Object], |v| v.object_data::<wasm_bindgen::__rt::GlobalData>().is_some()
);
js_type!(
    /// `NodeList` (always static here).
    NodeList: Object [], |v| v.object_data::<NodeListData>().is_some()
);
js_type!(
    /// `Event`.
    Event: Object [], |v| v.object_data::<events::EventData>().is_some()
);
js_type!(
    /// `EventInit` dictionary.
    EventInit: Object [], |v| v.is_object()
);

macro_rules! event_types {
    ($($name:ident : $parent:ident [$($anc:ty),*];)*) => {
        $(
            js_type!(
                /// Event interface. All event interfaces share the same representation in the
                /// shim; `instanceof` only checks that the value is an event.
                $name: $parent [$($anc),*], |v| v.object_data::<events::EventData>().is_some()
            );
        )*
    };
}

event_types! {
    UiEvent: Event [Object];
    AnimationEvent: Event [Object];
    BeforeUnloadEvent: Event [Object];
    CustomEvent: Event [Object];
    DeviceMotionEvent: Event [Object];
    DeviceOrientationEvent: Event [Object];
    ErrorEvent: Event [Object];
    GamepadEvent: Event [Object];
    HashChangeEvent: Event [Object];
    MessageEvent: Event [Object];
    PageTransitionEvent: Event [Object];
    PopStateEvent: Event [Object];
    ProgressEvent: Event [Object];
    PromiseRejectionEvent: Event [Object];
    SecurityPolicyViolationEvent: Event [Object];
    StorageEvent: Event [Object];
    SubmitEvent: Event [Object];
    TransitionEvent: Event [Object];
    CompositionEvent: UiEvent [Event, Object];
    FocusEvent: UiEvent [Event, Object];
    InputEvent: UiEvent [Event, Object];
    KeyboardEvent: UiEvent [Event, Object];
    MouseEvent: UiEvent [Event, Object];
    TouchEvent: UiEvent [Event, Object];
    DragEvent: MouseEvent [UiEvent, Event, Object];
    PointerEvent: MouseEvent [UiEvent, Event, Object];
    WheelEvent: MouseEvent [UiEvent, Event, Object];
}

/* ---------------------------------------------------------------------------------------------
 * Window / globals
 * ------------------------------------------------------------------------------------------- */

/// The global `window`.
pub fn window() -> Option<Window> {
    Some(wasm_bindgen::verif::global().unchecked_into())
}

impl Window {
    pub fn document(&self) -> Option<Document> {
        Some(dom::document())
    }
    /// `window.window`.
    pub fn window(&self) -> Window {
        self.clone()
    }
}

/* ---------------------------------------------------------------------------------------------
 * EventTarget
 * ------------------------------------------------------------------------------------------- */

impl EventTarget {
    pub fn add_event_listener_with_callback(
        &self,
        type_: &str,
        listener: &Function,
    ) -> Result<(), JsValue> {
        events::add_listener(self.as_ref(), type_, listener.as_ref());
        Ok(())
    }

    pub fn remove_event_listener_with_callback(
        &self,
        type_: &str,
        listener: &Function,
    ) -> Result<(), JsValue> {
        events::remove_listener(self.as_ref(), type_, listener.as_ref());
        Ok(())
    }

    pub fn dispatch_event(&self, event: &Event) -> Result<bool, JsValue> {
        if events::event_data(event).dispatching.get() {
            return Err(dom::dom_exception(
                "InvalidStateError",
                "the event is already being dispatched",
            ));
        }
        Ok(events::dispatch(self.as_ref(), event))
    }
}

/* ---------------------------------------------------------------------------------------------
 * Event
 * ------------------------------------------------------------------------------------------- */

impl Event {
    pub const NONE: u16 = 0;
    pub const CAPTURING_PHASE: u16 = 1;
    pub const AT_TARGET: u16 = 2;
    pub const BUBBLING_PHASE: u16 = 3;

    /// `new Event(type)`: not bubbling, not cancelable.
    pub fn new(type_: &str) -> Result<Event, JsValue> {
        Ok(events::new_event(type_, false, false))
    }

    pub fn new_with_event_init_dict(type_: &str, init: &EventInit) -> Result<Event, JsValue> {
        let get = |k: &str| {
            js_sys::Reflect::get(init.as_ref(), &k.into())
                .map(|v| v.is_truthy())
                .unwrap_or(false)
        };
        Ok(events::new_event(type_, get("bubbles"), get("cancelable")))
    }

    pub fn type_(&self) -> String {
        events::event_data(self).type_.clone()
    }
    pub fn target(&self) -> Option<EventTarget> {
        events::event_data(self)
            .target
            .borrow()
            .clone()
            .map(JsCast::unchecked_into)
    }
    pub fn current_target(&self) -> Option<EventTarget> {
        events::event_data(self)
            .current_target
            .borrow()
            .clone()
            .map(JsCast::unchecked_into)
    }
    pub fn event_phase(&self) -> u16 {
        events::event_data(self).phase.get()
    }
    pub fn bubbles(&self) -> bool {
        events::event_data(self).bubbles
    }
    pub fn cancelable(&self) -> bool {
        events::event_data(self).cancelable
    }
    pub fn default_prevented(&self) -> bool {
        events::event_data(self).default_prevented.get()
    }
    pub fn is_trusted(&self) -> bool {
        false
    }
    pub fn prevent_default(&self) {
        let d = events::event_data(self);
        if d.cancelable {
            d.default_prevented.set(true);
        }
    }
    pub fn stop_propagation(&self) {
        events::event_data(self).stop_propagation.set(true);
    }
    pub fn stop_immediate_propagation(&self) {
        let d = events::event_data(self);
        d.stop_propagation.set(true);
        d.stop_immediate.set(true);
    }
}

impl EventInit {
    pub fn new() -> EventInit {
        JsValue::from(Object::new()).unchecked_into()
    }
    pub fn set_bubbles(&self, val: bool) {
        let _ = js_sys::Reflect::set(self.as_ref(), &"bubbles".into(), &val.into());
    }
    pub fn set_cancelable(&self, val: bool) {
        let _ = js_sys::Reflect::set(self.as_ref(), &"cancelable".into(), &val.into());
    }
    pub fn bubbles(&mut self, val: bool) -> &mut Self {
        self.set_bubbles(val);
        self
    }
    pub fn cancelable(&mut self, val: bool) -> &mut Self {
        self.set_cancelable(val);
        self
    }
}

impl Default for EventInit {
    fn default() -> Self {
        Self::new()
    }
}

/* ---------------------------------------------------------------------------------------------
 * Node
 * ------------------------------------------------------------------------------------------- */

impl Node {
    pub const ELEMENT_NODE: u16 = 1;
    pub const ATTRIBUTE_NODE: u16 = 2;
    pub const TEXT_NODE: u16 = 3;
    pub const CDATA_SECTION_NODE: u16 = 4;
    pub const ENTITY_REFERENCE_NODE: u16 = 5;
    pub const ENTITY_NODE: u16 = 6;
    pub const PROCESSING_INSTRUCTION_NODE: u16 = 7;
    pub const COMMENT_NODE: u16 = 8;
    pub const DOCUMENT_NODE: u16 = 9;
    pub const DOCUMENT_TYPE_NODE: u16 = 10;
    pub const DOCUMENT_FRAGMENT_NODE: u16 = 11;
    pub const NOTATION_NODE: u16 = 12;

    pub fn node_type(&self) -> u16 {
        match data(self).kind {
            NodeKind::Element { .. } => Self::ELEMENT_NODE,
            NodeKind::Text => Self::TEXT_NODE,
            NodeKind::Comment => Self::COMMENT_NODE,
            NodeKind::DocumentFragment => Self::DOCUMENT_FRAGMENT_NODE,
            NodeKind::Document => Self::DOCUMENT_NODE,
        }
    }

    pub fn node_name(&self) -> String {
        match &data(self).kind {
            NodeKind::Element { tag, .. } => {
                if dom::is_html_element(self) {
                    tag.to_ascii_uppercase()
                } else {
                    tag.clone()
                }
            }
            NodeKind::Text => "#text".into(),
            NodeKind::Comment => "#comment".into(),
            NodeKind::DocumentFragment => "#document-fragment".into(),
            NodeKind::Document => "#document".into(),
        }
    }

    pub fn is_connected(&self) -> bool {
        matches!(data(&dom::root(self)).kind, NodeKind::Document)
    }

    pub fn owner_document(&self) -> Option<Document> {
        if matches!(data(self).kind, NodeKind::Document) {
            None
        } else {
            Some(dom::document())
        }
    }

    pub fn get_root_node(&self) -> Node {
        dom::root(self)
    }

    pub fn parent_node(&self) -> Option<Node> {
        dom::parent(self)
    }

    pub fn parent_element(&self) -> Option<Element> {
        dom::parent(self).and_then(|p| p.dyn_into::<Element>().ok())
    }

    pub fn has_child_nodes(&self) -> bool {
        !data(self).inner.borrow().children.is_empty()
    }

    pub fn child_nodes(&self) -> NodeList {
        // NOTE: the real `childNodes` is live; this is a snapshot.
        NodeList::from_nodes(dom::children(self))
    }

    pub fn first_child(&self) -> Option<Node> {
        data(self).inner.borrow().children.first().cloned()
    }

    pub fn last_child(&self) -> Option<Node> {
        data(self).inner.borrow().children.last().cloned()
    }

    pub fn previous_sibling(&self) -> Option<Node> {
        dom::previous_sibling(self)
    }

    pub fn next_sibling(&self) -> Option<Node> {
        dom::next_sibling(self)
    }

    /// `nodeValue` getter (§4.4).
    pub fn node_value(&self) -> Option<String> {
        match data(self).kind {
            NodeKind::Text | NodeKind::Comment => Some(data(self).inner.borrow().data.clone()),
            _ => None,
        }
    }

    /// `nodeValue` setter (§4.4).
    pub fn set_node_value(&self, value: Option<&str>) {
        if matches!(data(self).kind, NodeKind::Text | NodeKind::Comment) {
            let text = value.unwrap_or("").to_string();
            data(self).inner.borrow_mut().data = text.clone();
            dom::log(Mutation::SetText {
                node: data(self).id,
                text,
            });
        }
    }

    /// `textContent` getter (§4.4).
    pub fn text_content(&self) -> Option<String> {
        match data(self).kind {
            NodeKind::Element { .. } | NodeKind::DocumentFragment => {
                Some(dom::descendant_text_content(self))
            }
            NodeKind::Text | NodeKind::Comment => Some(data(self).inner.borrow().data.clone()),
            NodeKind::Document => None,
        }
    }

    /// `textContent` setter (§4.4).
    pub fn set_text_content(&self, value: Option<&str>) {
        let text = value.unwrap_or("").to_string();
        match data(self).kind {
            NodeKind::Element { .. } | NodeKind::DocumentFragment => {
                // "string replace all".
                let node = if text.is_empty() {
                    None
                } else {
                    Some(dom::new_node(NodeKind::Text, text.clone()))
                };
                dom::replace_all(self, node.as_ref());
            }
            NodeKind::Text | NodeKind::Comment => {
                data(self).inner.borrow_mut().data = text.clone();
            }
            NodeKind::Document => return,
        }
        dom::log(Mutation::SetText {
            node: data(self).id,
            text,
        });
    }

    /// `appendChild` (§4.4): pre-insert `node` into this before null.
    pub fn append_child(&self, node: &Node) -> Result<Node, JsValue> {
        let ret = dom::pre_insert(self, node, None)?;
        dom::log(Mutation::AppendChild {
            parent: data(self).id,
            child: data(node).id,
        });
        Ok(ret)
    }

    /// `insertBefore` (§4.4).
    pub fn insert_before(&self, node: &Node, child: Option<&Node>) -> Result<Node, JsValue> {
        let ret = dom::pre_insert(self, node, child)?;
        dom::log(Mutation::InsertBefore {
            parent: data(self).id,
            child: data(node).id,
            reference: child.map(|c| data(c).id),
        });
        Ok(ret)
    }

    /// `removeChild` (§4.4).
    pub fn remove_child(&self, child: &Node) -> Result<Node, JsValue> {
        let ret = dom::pre_remove(self, child)?;
        dom::log(Mutation::RemoveChild {
            parent: data(self).id,
            child: data(child).id,
        });
        Ok(ret)
    }

    /// `replaceChild(node, child)` (§4.4): replaces `child` with `node`, returns `child`.
    pub fn replace_child(&self, node: &Node, child: &Node) -> Result<Node, JsValue> {
        let ret = dom::replace(self, node, child)?;
        dom::log(Mutation::ReplaceChild {
            parent: data(self).id,
            new: data(node).id,
            old: data(child).id,
        });
        Ok(ret)
    }

    pub fn clone_node(&self) -> Result<Node, JsValue> {
        self.clone_node_with_deep(false)
    }

    pub fn clone_node_with_deep(&self, deep: bool) -> Result<Node, JsValue> {
        if matches!(data(self).kind, NodeKind::Document) {
            return Err(dom::dom_exception(
                "NotSupportedError",
                "cloning a Document is not supported by the shim",
            ));
        }
        let copy = dom::clone_node(self, deep);
        dom::log(Mutation::CloneNode {
            id: data(&copy).id,
            source: data(self).id,
        });
        Ok(copy)
    }

    /// `contains`: inclusive descendant test.
    pub fn contains(&self, other: Option<&Node>) -> bool {
        match other {
            Some(other) => dom::is_inclusive_ancestor(self, other),
            None => false,
        }
    }

    pub fn is_same_node(&self, node: Option<&Node>) -> bool {
        node == Some(self)
    }

    /// `isEqualNode` (§4.4).
    pub fn is_equal_node(&self, node: Option<&Node>) -> bool {
        let Some(other) = node else { return false };
        let (a, b) = (data(self), data(other));
        if a.kind != b.kind {
            return false;
        }
        {
            let (ia, ib) = (a.inner.borrow(), b.inner.borrow());
            if ia.data != ib.data || ia.attrs.len() != ib.attrs.len() {
                return false;
            }
            if !ia.attrs.iter().all(|x| ib.attrs.contains(x)) {
                return false;
            }
        }
        let (ca, cb) = (dom::children(self), dom::children(other));
        ca.len() == cb.len() && ca.iter().zip(&cb).all(|(x, y)| x.is_equal_node(Some(y)))
    }

    /// `normalize` is not needed by sycamore; provided for completeness (§4.4), without logging.
    pub fn normalize(&self) {
        for node in dom::descendants(self) {
            if !matches!(data(&node).kind, NodeKind::Text) || dom::parent(&node).is_none() {
                continue;
            }
            if data(&node).inner.borrow().data.is_empty() {
                let p = dom::parent(&node).unwrap();
                let _ = dom::pre_remove(&p, &node);
                continue;
            }
            while let Some(next) = dom::next_sibling(&node) {
                if !matches!(data(&next).kind, NodeKind::Text) {
                    break;
                }
                let extra = data(&next).inner.borrow().data.clone();
                data(&node).inner.borrow_mut().data.push_str(&extra);
                let p = dom::parent(&next).unwrap();
                let _ = dom::pre_remove(&p, &next);
            }
        }
    }
}

/* ---------------------------------------------------------------------------------------------
 * NodeList
 * ------------------------------------------------------------------------------------------- */

/// Host data of a (static) `NodeList`.
pub struct NodeListData {
    nodes: Vec<Node>,
}
impl wasm_bindgen::ObjectData for NodeListData {
    fn as_any(&self) -> &dyn std::any::Any {
        self
    }
    fn class_name(&self) -> &'static str {
        "NodeList"
    }
}

impl NodeList {
    pub(crate) fn from_nodes(nodes: Vec<Node>) -> NodeList {
        JsValue::from_object_data(NodeListData { nodes }).unchecked_into()
    }
    fn nodes(&self) -> &Vec<Node> {
        &self
            .object_data::<NodeListData>()
            .expect("TypeError: value is not a NodeList")
            .nodes
    }
    pub fn length(&self) -> u32 {
        self.nodes().len() as u32
    }
    pub fn item(&self, index: u32) -> Option<Node> {
        self.nodes().get(index as usize).cloned()
    }
    pub fn get(&self, index: u32) -> Option<Node> {
        self.item(index)
    }
}

/* ---------------------------------------------------------------------------------------------
 * Document
 * ------------------------------------------------------------------------------------------- */

impl Document {
    /// `createElement` (§4.5) in an HTML document: the name is lowercased, the namespace is the
    /// HTML namespace.
    pub fn create_element(&self, local_name: &str) -> Result<Element, JsValue> {
        if !dom::is_valid_element_name(local_name) {
            return Err(dom::dom_exception(
                "InvalidCharacterError",
                &format!("'{local_name}' is not a valid element name"),
            ));
        }
        let tag = local_name.to_ascii_lowercase();
        let el = dom::new_html_element(&tag);
        dom::log(Mutation::CreateElement {
            id: data(&el).id,
            tag,
        });
        Ok(el.unchecked_into())
    }

    /// `createElementNS` (§4.5). The qualified name is stored verbatim.
    pub fn create_element_ns(
        &self,
        namespace: Option<&str>,
        qualified_name: &str,
    ) -> Result<Element, JsValue> {
        let local = qualified_name.rsplit(':').next().unwrap_or(qualified_name);
        if !dom::is_valid_element_name(local) {
            return Err(dom::dom_exception(
                "InvalidCharacterError",
                &format!("'{qualified_name}' is not a valid element name"),
            ));
        }
        let namespace = namespace.filter(|ns| !ns.is_empty()).map(str::to_string);
        if qualified_name.contains(':') && namespace.is_none() {
            return Err(dom::dom_exception(
                "NamespaceError",
                "a prefixed name requires a namespace",
            ));
        }
        let el = dom::new_node(
            NodeKind::Element {
                tag: qualified_name.to_string(),
                namespace,
            },
            String::new(),
        );
        dom::log(Mutation::CreateElement {
            id: data(&el).id,
            tag: qualified_name.to_string(),
        });
        Ok(el.unchecked_into())
    }

    pub fn create_text_node(&self, data_: &str) -> Text {
        let node = dom::new_node(NodeKind::Text, data_.to_string());
        dom::log(Mutation::CreateText { id: data(&node).id });
        node.unchecked_into()
    }

    pub fn create_comment(&self, data_: &str) -> Comment {
        let node = dom::new_node(NodeKind::Comment, data_.to_string());
        dom::log(Mutation::CreateComment { id: data(&node).id });
        node.unchecked_into()
    }

    pub fn create_document_fragment(&self) -> DocumentFragment {
        let node = dom::new_node(NodeKind::DocumentFragment, String::new());
        dom::log(Mutation::CreateFragment { id: data(&node).id });
        node.unchecked_into()
    }

    pub fn document_element(&self) -> Option<Element> {
        dom::children(self)
            .into_iter()
            .find_map(|c| c.dyn_into::<Element>().ok())
    }

    fn html_child(&self, tag: &str) -> Option<Node> {
        let html = self.document_element()?;
        if !matches!(&data(&html).kind, NodeKind::Element { tag, .. } if tag == "html") {
            return None;
        }
        dom::children(&html).into_iter().find(|c| {
            dom::is_html_element(c)
                && matches!(&data(c).kind, NodeKind::Element { tag: t, .. } if t == tag)
        })
    }

    pub fn body(&self) -> Option<HtmlElement> {
        self.html_child("body").map(JsCast::unchecked_into)
    }

    pub fn head(&self) -> Option<HtmlHeadElement> {
        self.html_child("head").map(JsCast::unchecked_into)
    }

    pub fn get_element_by_id(&self, element_id: &str) -> Option<Element> {
        dom::descendants(self).into_iter().find_map(|n| {
            let is_match = dom::is_element(n.as_ref())
                && data(&n)
                    .inner
                    .borrow()
                    .attrs
                    .iter()
                    .any(|(k, v)| k == "id" && v == element_id);
            if is_match {
                Some(n.unchecked_into())
            } else {
                None
            }
        })
    }

    pub fn query_selector(&self, selectors: &str) -> Result<Option<Element>, JsValue> {
        Ok(selector::query_all(self, selectors)?
            .into_iter()
            .next()
            .map(JsCast::unchecked_into))
    }

    pub fn query_selector_all(&self, selectors: &str) -> Result<NodeList, JsValue> {
        Ok(NodeList::from_nodes(selector::query_all(self, selectors)?))
    }
}

impl DocumentFragment {
    pub fn query_selector(&self, selectors: &str) -> Result<Option<Element>, JsValue> {
        Ok(selector::query_all(self, selectors)?
            .into_iter()
            .next()
            .map(JsCast::unchecked_into))
    }

    pub fn query_selector_all(&self, selectors: &str) -> Result<NodeList, JsValue> {
        Ok(NodeList::from_nodes(selector::query_all(self, selectors)?))
    }
}

/* ---------------------------------------------------------------------------------------------
 * Element
 * ------------------------------------------------------------------------------------------- */

impl Element {
    fn adjust_attr_name(&self, name: &str) -> String {
        // §4.9: for an HTML element in an HTML document the name is lowercased.
        if dom::is_html_element(self) {
            name.to_ascii_lowercase()
        } else {
            name.to_string()
        }
    }

    pub fn namespace_uri(&self) -> Option<String> {
        match &data(self).kind {
            NodeKind::Element { namespace, .. } => namespace.clone(),
            _ => None,
        }
    }

    pub fn local_name(&self) -> String {
        match &data(self).kind {
            NodeKind::Element { tag, .. } => tag.rsplit(':').next().unwrap_or(tag).to_string(),
            _ => String::new(),
        }
    }

    /// `tagName` (§4.9 "HTML-uppercased qualified name").
    pub fn tag_name(&self) -> String {
        self.node_name()
    }

    pub fn id(&self) -> String {
        self.get_attribute("id").unwrap_or_default()
    }
    pub fn set_id(&self, value: &str) {
        let _ = self.set_attribute("id", value);
    }
    pub fn class_name(&self) -> String {
        self.get_attribute("class").unwrap_or_default()
    }
    pub fn set_class_name(&self, value: &str) {
        let _ = self.set_attribute("class", value);
    }

    pub fn has_attributes(&self) -> bool {
        !data(self).inner.borrow().attrs.is_empty()
    }

    pub fn get_attribute_names(&self) -> js_sys::Array {
        data(self)
            .inner
            .borrow()
            .attrs
            .iter()
            .map(|(k, _)| JsValue::from_str(k))
            .collect()
    }

    pub fn get_attribute(&self, name: &str) -> Option<String> {
        let name = self.adjust_attr_name(name);
        data(self)
            .inner
            .borrow()
            .attrs
            .iter()
            .find(|(k, _)| *k == name)
            .map(|(_, v)| v.clone())
    }

    pub fn has_attribute(&self, name: &str) -> bool {
        self.get_attribute(name).is_some()
    }

    /// `setAttribute` (§4.9).
    pub fn set_attribute(&self, name: &str, value: &str) -> Result<(), JsValue> {
        if !dom::is_valid_attribute_name(name) {
            return Err(dom::dom_exception(
                "InvalidCharacterError",
                &format!("'{name}' is not a valid attribute name"),
            ));
        }
        let name = self.adjust_attr_name(name);
        {
            let mut inner = data(self).inner.borrow_mut();
            if let Some(slot) = inner.attrs.iter_mut().find(|(k, _)| *k == name) {
                slot.1 = value.to_string();
            } else {
                inner.attrs.push((name.clone(), value.to_string()));
            }
        }
        dom::log(Mutation::SetAttribute {
            el: data(self).id,
            name,
            value: value.to_string(),
        });
        Ok(())
    }

    /// `removeAttribute` (§4.9).
    pub fn remove_attribute(&self, name: &str) -> Result<(), JsValue> {
        let name = self.adjust_attr_name(name);
        data(self).inner.borrow_mut().attrs.retain(|(k, _)| *k != name);
        dom::log(Mutation::RemoveAttribute {
            el: data(self).id,
            name,
        });
        Ok(())
    }

    /// `toggleAttribute` (§4.9).
    pub fn toggle_attribute(&self, name: &str) -> Result<bool, JsValue> {
        if self.has_attribute(name) {
            self.remove_attribute(name)?;
            Ok(false)
        } else {
            self.set_attribute(name, "")?;
            Ok(true)
        }
    }

    /// `innerHTML` getter: the HTML fragment serialisation algorithm.
    pub fn inner_html(&self) -> String {
        let mut out = String::new();
        html::serialize_children(self, &mut out, &mut None);
        out
    }

    /// `innerHTML` setter: parse with this element as context and "replace all" with the result.
    pub fn set_inner_html(&self, value: &str) {
        let nodes = html::parse_fragment(self, value);
        dom::replace_all(self, None);
        for n in &nodes {
            dom::raw_append(self, n);
        }
        dom::log(Mutation::SetInnerHtml { el: data(self).id });
    }

    /// `outerHTML` getter.
    pub fn outer_html(&self) -> String {
        let mut out = String::new();
        html::serialize_node(self, false, &mut out, &mut None);
        out
    }

    pub fn query_selector(&self, selectors: &str) -> Result<Option<Element>, JsValue> {
        Ok(selector::query_all(self, selectors)?
            .into_iter()
            .next()
            .map(JsCast::unchecked_into))
    }

    pub fn query_selector_all(&self, selectors: &str) -> Result<NodeList, JsValue> {
        Ok(NodeList::from_nodes(selector::query_all(self, selectors)?))
    }

    pub fn matches(&self, selectors: &str) -> Result<bool, JsValue> {
        Ok(selector::parse(selectors)?.matches(self))
    }

    pub fn closest(&self, selectors: &str) -> Result<Option<Element>, JsValue> {
        let list = selector::parse(selectors)?;
        let mut cur: Option<Node> = Some(self.clone().into());
        while let Some(n) = cur {
            if dom::is_element(n.as_ref()) && list.matches(&n) {
                return Ok(Some(n.unchecked_into()));
            }
            cur = dom::parent(&n);
        }
        Ok(None)
    }

    pub fn child_element_count(&self) -> u32 {
        dom::children(self)
            .iter()
            .filter(|c| dom::is_element(c.as_ref()))
            .count() as u32
    }

    pub fn first_element_child(&self) -> Option<Element> {
        dom::children(self)
            .into_iter()
            .find_map(|c| c.dyn_into::<Element>().ok())
    }

    pub fn last_element_child(&self) -> Option<Element> {
        dom::children(self)
            .into_iter()
            .rev()
            .find_map(|c| c.dyn_into::<Element>().ok())
    }

    pub fn next_element_sibling(&self) -> Option<Element> {
        let mut cur = dom::next_sibling(self);
        while let Some(n) = cur {
            if dom::is_element(n.as_ref()) {
                return Some(n.unchecked_into());
            }
            cur = dom::next_sibling(&n);
        }
        None
    }

    pub fn previous_element_sibling(&self) -> Option<Element> {
        let mut cur = dom::previous_sibling(self);
        while let Some(n) = cur {
            if dom::is_element(n.as_ref()) {
                return Some(n.unchecked_into());
            }
            cur = dom::previous_sibling(&n);
        }
        None
    }

    /// `ChildNode.remove()`.
    pub fn remove(&self) {
        if let Some(p) = dom::parent(self) {
            let _ = p.remove_child(self);
        }
    }
}

/* ---------------------------------------------------------------------------------------------
 * CharacterData
 * ------------------------------------------------------------------------------------------- */

impl CharacterData {
    pub fn data(&self) -> String {
        data(self).inner.borrow().data.clone()
    }
    pub fn set_data(&self, value: &str) {
        self.set_node_value(Some(value));
    }
    /// Length in UTF-16 code units.
    pub fn length(&self) -> u32 {
        data(self).inner.borrow().data.encode_utf16().count() as u32
    }
    /// `ChildNode.remove()`.
    pub fn remove(&self) {
        if let Some(p) = dom::parent(self) {
            let _ = p.remove_child(self);
        }
    }
}

impl Text {
    /// `new Text(data)`.
    pub fn new_with_data(data_: &str) -> Result<Text, JsValue> {
        Ok(dom::document().create_text_node(data_))
    }
}

impl Comment {
    /// `new Comment(data)`.
    pub fn new_with_data(data_: &str) -> Result<Comment, JsValue> {
        Ok(dom::document().create_comment(data_))
    }
}

impl DocumentFragment {
    /// `new DocumentFragment()`.
    pub fn new() -> Result<DocumentFragment, JsValue> {
        Ok(dom::document().create_document_fragment())
    }
}
