//! HTML fragment serialisation and a (simplified) HTML fragment parser.
//!
//! Section numbers refer to <https://html.spec.whatwg.org/multipage/parsing.html>.

use crate::dom::{
    self, children, data, new_node, raw_append, NodeKind, HTML_NAMESPACE, MATHML_NAMESPACE,
    SVG_NAMESPACE,
};
use crate::Node;

/// Elements that "serialize as void" (§13.3).
const SERIALIZE_VOID: &[&str] = &[
    "area", "base", "basefont", "bgsound", "br", "col", "embed", "frame", "hr", "img", "input",
    "keygen", "link", "meta", "param", "source", "track", "wbr",
];

/// Void elements for the parser (§13.1.2): start tag never has content.
const PARSE_VOID: &[&str] = &[
    "area", "base", "basefont", "bgsound", "br", "col", "embed", "frame", "hr", "img", "input",
    "keygen", "link", "meta", "param", "source", "track", "wbr",
];

/// Elements whose text children are serialised / parsed without escaping (scripting enabled).
const RAW_TEXT: &[&str] = &[
    "style", "script", "xmp", "iframe", "noembed", "noframes", "noscript",
];
const RCDATA: &[&str] = &["textarea", "title"];

/* ---------------------------------------------------------------------------------------------
 * Serialisation (§13.3 "Serializing HTML fragments")
 * ------------------------------------------------------------------------------------------- */

/// "Escaping a string" (§13.3). Classic rules: `&`, nbsp always; `"` in attribute mode; `<`, `>`
/// outside of attribute mode.
pub fn escape(s: &str, attribute_mode: bool, out: &mut String) {
    for c in s.chars() {
        match c {
            '&' => out.push_str("&amp;"),
            '\u{a0}' => out.push_str("&nbsp;"),
            '"' if attribute_mode => out.push_str("&quot;"),
            '<' if !attribute_mode => out.push_str("&lt;"),
            '>' if !attribute_mode => out.push_str("&gt;"),
            c => out.push(c),
        }
    }
}

/// Serialise the children of `node` (the "HTML fragment serialization algorithm").
pub fn serialize_children(node: &Node, out: &mut String, ids: &mut Option<&mut Vec<u64>>) {
    let nd = data(node);
    if let NodeKind::Element { tag, namespace } = &nd.kind {
        if namespace.as_deref() == Some(HTML_NAMESPACE) && SERIALIZE_VOID.contains(&tag.as_str()) {
            return;
        }
    }
    let raw = matches!(&nd.kind, NodeKind::Element { tag, namespace }
        if namespace.as_deref() == Some(HTML_NAMESPACE)
            && (RAW_TEXT.contains(&tag.as_str()) || tag == "plaintext"));
    for child in children(node) {
        serialize_node(&child, raw, out, ids);
    }
}

/// Serialise `node` itself (outer HTML).
pub fn serialize_node(
    node: &Node,
    parent_is_raw_text: bool,
    out: &mut String,
    ids: &mut Option<&mut Vec<u64>>,
) {
    let nd = data(node);
    if let Some(ids) = ids.as_deref_mut() {
        ids.push(nd.id);
    }
    match &nd.kind {
        NodeKind::Element { tag, namespace } => {
            out.push('<');
            out.push_str(tag);
            for (name, value) in &nd.inner.borrow().attrs {
                out.push(' ');
                out.push_str(name);
                out.push_str("=\"");
                escape(value, true, out);
                out.push('"');
            }
            out.push('>');
            if namespace.as_deref() == Some(HTML_NAMESPACE)
                && SERIALIZE_VOID.contains(&tag.as_str())
            {
                return;
            }
            serialize_children(node, out, ids);
            out.push_str("</");
            out.push_str(tag);
            out.push('>');
        }
        NodeKind::Text => {
            let inner = nd.inner.borrow();
            if parent_is_raw_text {
                out.push_str(&inner.data);
            } else {
                escape(&inner.data, false, out);
            }
        }
        NodeKind::Comment => {
            out.push_str("<!--");
            out.push_str(&nd.inner.borrow().data);
            out.push_str("-->");
        }
        NodeKind::DocumentFragment | NodeKind::Document => {
            serialize_children(node, out, ids);
        }
    }
}

/* ---------------------------------------------------------------------------------------------
 * Character references (§13.2.5.72 ff.)
 * ------------------------------------------------------------------------------------------- */

/// Named character references that are supported: `(name, replacement, legacy)` where `legacy`
/// means the reference is also recognised without the trailing semicolon.
const NAMED: &[(&str, &str, bool)] = &[
    ("amp", "&", true),
    ("lt", "<", true),
    ("gt", ">", true),
    ("quot", "\"", true),
    ("nbsp", "\u{a0}", true),
    ("apos", "'", false),
];

/// Replacement table for numeric references in the C1 range (§13.2.5.80).
const C1_TABLE: &[(u32, u32)] = &[
    (0x80, 0x20AC),
    (0x82, 0x201A),
    (0x83, 0x0192),
    (0x84, 0x201E),
    (0x85, 0x2026),
    (0x86, 0x2020),
    (0x87, 0x2021),
    (0x88, 0x02C6),
    (0x89, 0x2030),
    (0x8A, 0x0160),
    (0x8B, 0x2039),
    (0x8C, 0x0152),
    (0x8E, 0x017D),
    (0x91, 0x2018),
    (0x92, 0x2019),
    (0x93, 0x201C),
    (0x94, 0x201D),
    (0x95, 0x2022),
    (0x96, 0x2013),
    (0x97, 0x2014),
    (0x98, 0x02DC),
    (0x99, 0x2122),
    (0x9A, 0x0161),
    (0x9B, 0x203A),
    (0x9C, 0x0153),
    (0x9E, 0x017E),
    (0x9F, 0x0178),
];

/// Decode character references in `s`.
pub fn decode_char_refs(s: &str, in_attribute: bool) -> String {
    if !s.contains('&') {
        return s.to_string();
    }
    let chars: Vec<char> = s.chars().collect();
    let mut out = String::with_capacity(s.len());
    let mut i = 0;
    while i < chars.len() {
        if chars[i] != '&' {
            out.push(chars[i]);
            i += 1;
            continue;
        }
        // Numeric character reference.
        if chars.get(i + 1) == Some(&'#') {
            let mut j = i + 2;
            let hex = matches!(chars.get(j), Some('x') | Some('X'));
            if hex {
                j += 1;
            }
            let start = j;
            let mut value: u32 = 0;
            while let Some(d) = chars.get(j).and_then(|c| c.to_digit(if hex { 16 } else { 10 })) {
                value = value.saturating_mul(if hex { 16 } else { 10 }).saturating_add(d);
                j += 1;
            }
            if j == start {
                // No digits: not a character reference.
                out.push('&');
                i += 1;
                continue;
            }
            if chars.get(j) == Some(&';') {
                j += 1;
            }
            let cp = match value {
                0 => 0xFFFD,
                v if v > 0x10FFFF => 0xFFFD,
                v if (0xD800..=0xDFFF).contains(&v) => 0xFFFD,
                v => C1_TABLE
                    .iter()
                    .find(|(from, _)| *from == v)
                    .map(|(_, to)| *to)
                    .unwrap_or(v),
            };
            out.push(char::from_u32(cp).unwrap_or('\u{FFFD}'));
            i = j;
            continue;
        }
        // Named character reference.
        let mut matched = false;
        for (name, replacement, legacy) in NAMED {
            let name_chars: Vec<char> = name.chars().collect();
            let end = i + 1 + name_chars.len();
            if chars.len() >= end && chars[i + 1..end] == name_chars[..] {
                if chars.get(end) == Some(&';') {
                    out.push_str(replacement);
                    i = end + 1;
                    matched = true;
                    break;
                } else if *legacy {
                    // Historical: in attributes, a legacy reference followed by `=` or an
                    // alphanumeric is left alone.
                    let next = chars.get(end);
                    if in_attribute
                        && matches!(next, Some(c) if *c == '=' || c.is_ascii_alphanumeric())
                    {
                        continue;
                    }
                    out.push_str(replacement);
                    i = end;
                    matched = true;
                    break;
                }
            }
        }
        if !matched {
            out.push('&');
            i += 1;
        }
    }
    out
}

/* ---------------------------------------------------------------------------------------------
 * Parsing
 * ------------------------------------------------------------------------------------------- */

/// SVG element names whose case is adjusted in foreign content (§13.2.6.5).
const SVG_TAG_ADJUST: &[&str] = &[
    "altGlyph", "altGlyphDef", "altGlyphItem", "animateColor", "animateMotion",
    "animateTransform", "clipPath", "feBlend", "feColorMatrix", "feComponentTransfer",
    "feComposite", "feConvolveMatrix", "feDiffuseLighting", "feDisplacementMap",
    "feDistantLight", "feDropShadow", "feFlood", "feFuncA", "feFuncB", "feFuncG", "feFuncR",
    "feGaussianBlur", "feImage", "feMerge", "feMergeNode", "feMorphology", "feOffset",
    "fePointLight", "feSpecularLighting", "feSpotLight", "feTile", "feTurbulence",
    "foreignObject", "glyphRef", "linearGradient", "radialGradient", "textPath",
];

/// SVG attribute names whose case is adjusted (§13.2.6.1 "adjust SVG attributes").
const SVG_ATTR_ADJUST: &[&str] = &[
    "attributeName", "attributeType", "baseFrequency", "baseProfile", "calcMode",
    "clipPathUnits", "diffuseConstant", "edgeMode", "filterUnits", "glyphRef", "gradientTransform",
    "gradientUnits", "kernelMatrix", "kernelUnitLength", "keyPoints", "keySplines", "keyTimes",
    "lengthAdjust", "limitingConeAngle", "markerHeight", "markerUnits", "markerWidth",
    "maskContentUnits", "maskUnits", "numOctaves", "pathLength", "patternContentUnits",
    "patternTransform", "patternUnits", "pointsAtX", "pointsAtY", "pointsAtZ", "preserveAlpha",
    "preserveAspectRatio", "primitiveUnits", "refX", "refY", "repeatCount", "repeatDur",
    "requiredExtensions", "requiredFeatures", "specularConstant", "specularExponent",
    "spreadMethod", "startOffset", "stdDeviation", "stitchTiles", "surfaceScale",
    "systemLanguage", "tableValues", "targetX", "targetY", "textLength", "viewBox", "viewTarget",
    "xChannelSelector", "yChannelSelector", "zoomAndPan",
];

struct Parser<'a> {
    src: &'a [char],
    pos: usize,
    /// Stack of open elements; the bottom entry is the (virtual) root collecting top-level nodes.
    stack: Vec<Node>,
    /// Pending character data.
    text: String,
    /// Drop a single leading newline of the next text (after `<pre>`, `<textarea>`, `<listing>`).
    skip_newline: bool,
}

fn is_ws(c: char) -> bool {
    matches!(c, '\t' | '\n' | '\x0C' | '\r' | ' ')
}

impl<'a> Parser<'a> {
    fn peek(&self, offset: usize) -> Option<char> {
        self.src.get(self.pos + offset).copied()
    }

    fn starts_with(&self, s: &str) -> bool {
        s.chars().enumerate().all(|(i, c)| self.peek(i) == Some(c))
    }

    fn starts_with_ci(&self, s: &str) -> bool {
        s.chars()
            .enumerate()
            .all(|(i, c)| self.peek(i).map(|x| x.to_ascii_lowercase()) == Some(c))
    }

    fn current(&self) -> &Node {
        self.stack.last().unwrap()
    }

    fn current_namespace(&self) -> Option<String> {
        // The virtual root carries the context element's kind.
        match &data(self.current()).kind {
            NodeKind::Element { namespace, tag } => {
                // HTML integration points switch back to the HTML namespace.
                if namespace.as_deref() == Some(SVG_NAMESPACE)
                    && matches!(tag.as_str(), "foreignObject" | "desc" | "title")
                {
                    Some(HTML_NAMESPACE.to_string())
                } else {
                    namespace.clone()
                }
            }
            _ => Some(HTML_NAMESPACE.to_string()),
        }
    }

    fn flush_text(&mut self, decode: bool) {
        if self.text.is_empty() {
            self.skip_newline = false;
            return;
        }
        let raw = std::mem::take(&mut self.text);
        let mut text = if decode {
            decode_char_refs(&raw, false)
        } else {
            raw
        };
        if self.skip_newline && text.starts_with('\n') {
            text.remove(0);
        }
        self.skip_newline = false;
        if text.is_empty() {
            return;
        }
        // Merge with a preceding text node, as the tree builder does.
        let parent = self.current().clone();
        if let Some(last) = children(&parent).last() {
            if matches!(data(last).kind, NodeKind::Text) {
                data(last).inner.borrow_mut().data.push_str(&text);
                return;
            }
        }
        let node = new_node(NodeKind::Text, text);
        raw_append(&parent, &node);
    }

    fn append_comment(&mut self, data_str: String) {
        self.flush_text(true);
        let node = new_node(NodeKind::Comment, data_str);
        let parent = self.current().clone();
        raw_append(&parent, &node);
    }

    /// Consume until (and including) `>`; returns the consumed text without the `>`.
    fn consume_until_gt(&mut self) -> String {
        let mut s = String::new();
        while let Some(c) = self.peek(0) {
            self.pos += 1;
            if c == '>' {
                break;
            }
            s.push(c);
        }
        s
    }

    fn parse_comment(&mut self) {
        // At "<!--".
        self.pos += 4;
        // Comment start state: "<!-->" and "<!--->" are (abruptly closed) empty comments.
        if self.starts_with(">") {
            self.pos += 1;
            self.append_comment(String::new());
            return;
        }
        if self.starts_with("->") {
            self.pos += 2;
            self.append_comment(String::new());
            return;
        }
        let mut s = String::new();
        loop {
            if self.starts_with("-->") {
                self.pos += 3;
                break;
            }
            if self.starts_with("--!>") {
                self.pos += 4;
                break;
            }
            match self.peek(0) {
                Some(c) => {
                    s.push(c);
                    self.pos += 1;
                }
                None => {
                    // EOF in comment. A trailing "--" / "-" is not part of the data.
                    break;
                }
            }
        }
        self.append_comment(s);
    }

    fn parse_tag_name(&mut self) -> String {
        let mut name = String::new();
        while let Some(c) = self.peek(0) {
            if is_ws(c) || c == '/' || c == '>' {
                break;
            }
            name.push(c.to_ascii_lowercase());
            self.pos += 1;
        }
        name
    }

    /// Parse attributes up to and including the closing `>`. Returns `(attrs, self_closing)`.
    fn parse_attributes(&mut self) -> (Vec<(String, String)>, bool) {
        let mut attrs: Vec<(String, String)> = Vec::new();
        let mut self_closing = false;
        loop {
            while matches!(self.peek(0), Some(c) if is_ws(c)) {
                self.pos += 1;
            }
            match self.peek(0) {
                None => break,
                Some('>') => {
                    self.pos += 1;
                    break;
                }
                Some('/') => {
                    self.pos += 1;
                    if self.peek(0) == Some('>') {
                        self.pos += 1;
                        self_closing = true;
                        break;
                    }
                    continue;
                }
                Some(_) => {}
            }
            // Attribute name (a leading '=' is part of the name).
            let mut name = String::new();
            let mut first = true;
            while let Some(c) = self.peek(0) {
                if is_ws(c) || c == '/' || c == '>' || (c == '=' && !first) {
                    break;
                }
                name.push(c.to_ascii_lowercase());
                self.pos += 1;
                first = false;
            }
            while matches!(self.peek(0), Some(c) if is_ws(c)) {
                self.pos += 1;
            }
            let mut value = String::new();
            if self.peek(0) == Some('=') {
                self.pos += 1;
                while matches!(self.peek(0), Some(c) if is_ws(c)) {
                    self.pos += 1;
                }
                match self.peek(0) {
                    Some(q @ ('"' | '\'')) => {
                        self.pos += 1;
                        while let Some(c) = self.peek(0) {
                            self.pos += 1;
                            if c == q {
                                break;
                            }
                            value.push(c);
                        }
                    }
                    Some('>') => {
                        // Missing attribute value.
                    }
                    _ => {
                        while let Some(c) = self.peek(0) {
                            if is_ws(c) || c == '>' {
                                break;
                            }
                            value.push(c);
                            self.pos += 1;
                        }
                    }
                }
                value = decode_char_refs(&value, true);
            }
            // Duplicate attributes are dropped (first one wins).
            if !attrs.iter().any(|(n, _)| *n == name) {
                attrs.push((name, value));
            }
        }
        (attrs, self_closing)
    }

    fn parse_start_tag(&mut self) {
        // At "<" followed by an ASCII letter.
        self.pos += 1;
        let mut name = self.parse_tag_name();
        let (mut attrs, self_closing) = self.parse_attributes();
        self.flush_text(true);

        let namespace = match name.as_str() {
            "svg" => Some(SVG_NAMESPACE.to_string()),
            "math" => Some(MATHML_NAMESPACE.to_string()),
            _ => self.current_namespace(),
        };
        let foreign = namespace.as_deref() != Some(HTML_NAMESPACE);
        if namespace.as_deref() == Some(SVG_NAMESPACE) {
            if let Some(adj) = SVG_TAG_ADJUST.iter().find(|t| t.to_ascii_lowercase() == name) {
                name = adj.to_string();
            }
            for (attr_name, _) in attrs.iter_mut() {
                if let Some(adj) = SVG_ATTR_ADJUST
                    .iter()
                    .find(|t| t.to_ascii_lowercase() == *attr_name)
                {
                    *attr_name = adj.to_string();
                }
            }
        }
        if namespace.as_deref() == Some(MATHML_NAMESPACE) {
            for (attr_name, _) in attrs.iter_mut() {
                if attr_name == "definitionurl" {
                    *attr_name = "definitionURL".to_string();
                }
            }
        }

        let el = new_node(
            NodeKind::Element {
                tag: name.clone(),
                namespace,
            },
            String::new(),
        );
        data(&el).inner.borrow_mut().attrs = attrs;
        let parent = self.current().clone();
        raw_append(&parent, &el);

        if foreign {
            if !self_closing {
                self.stack.push(el);
            }
            return;
        }
        if PARSE_VOID.contains(&name.as_str()) {
            return;
        }
        self.stack.push(el);
        if matches!(name.as_str(), "pre" | "listing" | "textarea") {
            self.skip_newline = true;
        }
        if RAW_TEXT.contains(&name.as_str()) {
            self.parse_raw_text(&name, false);
        } else if RCDATA.contains(&name.as_str()) {
            self.parse_raw_text(&name, true);
        } else if name == "plaintext" {
            while let Some(c) = self.peek(0) {
                self.text.push(c);
                self.pos += 1;
            }
            self.flush_text(false);
        }
    }

    /// RAWTEXT / RCDATA / script data: everything up to the matching end tag is text.
    fn parse_raw_text(&mut self, name: &str, decode: bool) {
        let close = format!("</{name}");
        let close_len = close.chars().count();
        loop {
            let at_close = self.starts_with_ci(&close)
                && match self.peek(close_len) {
                    None | Some('>') | Some('/') => true,
                    Some(c) => is_ws(c),
                };
            if at_close {
                self.flush_text(decode);
                self.pos += close_len;
                self.consume_until_gt();
                self.stack.pop();
                return;
            }
            match self.peek(0) {
                Some(c) => {
                    self.text.push(c);
                    self.pos += 1;
                }
                None => {
                    self.flush_text(decode);
                    self.stack.pop();
                    return;
                }
            }
        }
    }

    fn parse_end_tag(&mut self) {
        // At "</" followed by an ASCII letter.
        self.pos += 2;
        let name = self.parse_tag_name();
        self.consume_until_gt_in_tag();
        self.flush_text(true);
        // Find the matching open element (never the virtual root at index 0).
        let found = self.stack.iter().skip(1).rposition(|n| {
            matches!(&data(n).kind, NodeKind::Element { tag, .. } if tag.to_ascii_lowercase() == name)
        });
        if let Some(idx) = found {
            self.stack.truncate(idx + 1);
        }
        // Otherwise: stray end tag, ignored (parse error).
    }

    /// Skip the remainder of a tag (attributes on end tags are ignored).
    fn consume_until_gt_in_tag(&mut self) {
        let _ = self.parse_attributes();
    }

    fn run(&mut self) {
        while let Some(c) = self.peek(0) {
            if c != '<' {
                self.text.push(c);
                self.pos += 1;
                continue;
            }
            if self.starts_with("<!--") {
                self.parse_comment();
            } else if self.starts_with("<!") {
                // DOCTYPE (ignored in fragments), CDATA outside foreign content or other
                // markup declarations (bogus comments).
                self.pos += 2;
                if self.starts_with_ci("doctype") {
                    self.flush_text(true);
                    self.consume_until_gt();
                } else {
                    let s = self.consume_until_gt();
                    self.append_comment(s);
                }
            } else if self.starts_with("<?") {
                self.pos += 1;
                let s = self.consume_until_gt();
                self.append_comment(s);
            } else if self.starts_with("</") {
                match self.peek(2) {
                    Some(c) if c.is_ascii_alphabetic() => self.parse_end_tag(),
                    Some('>') => {
                        // "</>" is dropped.
                        self.pos += 3;
                    }
                    Some(_) => {
                        self.pos += 2;
                        let s = self.consume_until_gt();
                        self.append_comment(s);
                    }
                    None => {
                        self.text.push_str("</");
                        self.pos += 2;
                    }
                }
            } else if matches!(self.peek(1), Some(c) if c.is_ascii_alphabetic()) {
                self.parse_start_tag();
            } else {
                // A lone "<" is text.
                self.text.push('<');
                self.pos += 1;
            }
        }
        self.flush_text(true);
    }
}

/// Parse `html` in the context of `context` (the "HTML fragment parsing algorithm", simplified:
/// no insertion modes, implied tags, foster parenting, formatting element reconstruction or
/// `<template>` contents). Returns the new top-level nodes; they are not yet inserted.
pub fn parse_fragment(context: &Node, html: &str) -> Vec<Node> {
    // Input stream preprocessing: normalise newlines.
    let normalised = html.replace("\r\n", "\n").replace('\r', "\n");
    let src: Vec<char> = normalised.chars().collect();

    // Virtual root of the same kind as the context element so that namespace / raw text handling
    // follow the context.
    let root_kind = match &data(context).kind {
        k @ NodeKind::Element { .. } => k.clone(),
        _ => NodeKind::Element {
            tag: "body".to_string(),
            namespace: Some(HTML_NAMESPACE.to_string()),
        },
    };
    // The virtual root does not consume a creation id and is dropped at the end.
    let root = dom::new_scratch_node(root_kind.clone());
    let mut parser = Parser {
        src: &src,
        pos: 0,
        stack: vec![root.clone()],
        text: String::new(),
        skip_newline: false,
    };
    let context_raw = match &root_kind {
        NodeKind::Element { tag, namespace } if namespace.as_deref() == Some(HTML_NAMESPACE) => {
            if RAW_TEXT.contains(&tag.as_str()) || tag == "plaintext" {
                Some(false)
            } else if RCDATA.contains(&tag.as_str()) {
                Some(true)
            } else {
                None
            }
        }
        _ => None,
    };
    match context_raw {
        Some(decode) => {
            parser.text = normalised.clone();
            parser.flush_text(decode);
        }
        None => parser.run(),
    }
    let nodes = children(&root);
    // Detach from the virtual root.
    data(&root).inner.borrow_mut().children.clear();
    for n in &nodes {
        data(n).inner.borrow_mut().parent = None;
    }
    nodes
}
