//! The in-process DOM: node storage, the WHATWG DOM mutation algorithms and the mutation log.
//!
//! Section numbers refer to <https://dom.spec.whatwg.org/>.

use std::any::Any;
use std::cell::{Cell, RefCell};
use std::fmt;
use std::rc::{Rc, Weak};

use wasm_bindgen::{make_error, JsCast, JsObject, JsValue, ObjectData};

use crate::{Document, Node};

pub const HTML_NAMESPACE: &str = "http://www.w3.org/1999/xhtml";
pub const SVG_NAMESPACE: &str = "http://www.w3.org/2000/svg";
pub const MATHML_NAMESPACE: &str = "http://www.w3.org/1998/Math/MathML";

/// What kind of node this is (immutable after creation).
#[derive(Debug, Clone, PartialEq, Eq)]
pub enum NodeKind {
    Element {
        /// Qualified name as stored (lowercase for HTML elements created in the HTML document).
        tag: String,
        namespace: Option<String>,
    },
    Text,
    Comment,
    DocumentFragment,
    Document,
}

/// Mutable part of a node.
#[derive(Default)]
pub struct NodeInner {
    /// Parent node (strong reference, like the JS object graph; cycles are broken by
    /// [`reset_document`]).
    pub parent: Option<Node>,
    /// Child nodes in tree order.
    pub children: Vec<Node>,
    /// Attributes in insertion order (elements only).
    pub attrs: Vec<(String, String)>,
    /// Character data (text and comment nodes only).
    pub data: String,
    /// Event listeners `(type, callback)` in registration order.
    pub listeners: Vec<(String, JsValue)>,
}

/// Host data of a DOM node object.
pub struct NodeData {
    /// Unique creation id.
    pub id: u64,
    pub kind: NodeKind,
    pub inner: RefCell<NodeInner>,
}

impl ObjectData for NodeData {
    fn as_any(&self) -> &dyn Any {
        self
    }
    fn class_name(&self) -> &'static str {
        match &self.kind {
            NodeKind::Element { namespace, .. } if namespace.as_deref() == Some(HTML_NAMESPACE) => {
                "HTMLElement"
            }
            NodeKind::Element { .. } => "Element",
            NodeKind::Text => "Text",
            NodeKind::Comment => "Comment",
            NodeKind::DocumentFragment => "DocumentFragment",
            NodeKind::Document => "HTMLDocument",
        }
    }
    fn debug(&self, f: &mut fmt::Formatter<'_>) -> fmt::Result {
        write!(f, "#{} ", self.id)?;
        match (&self.kind, self.inner.try_borrow()) {
            (NodeKind::Element { tag, .. }, Ok(inner)) => {
                write!(f, "<{tag}")?;
                for (k, v) in &inner.attrs {
                    write!(f, " {k}={v:?}")?;
                }
                write!(f, "> ({} children)", inner.children.len())
            }
            (NodeKind::Element { tag, .. }, Err(_)) => write!(f, "<{tag}>"),
            (NodeKind::Text, Ok(inner)) => write!(f, "#text {:?}", inner.data),
            (NodeKind::Comment, Ok(inner)) => write!(f, "<!--{}-->", inner.data),
            (NodeKind::Text, Err(_)) => write!(f, "#text"),
            (NodeKind::Comment, Err(_)) => write!(f, "#comment"),
            (NodeKind::DocumentFragment, _) => write!(f, "#document-fragment"),
            (NodeKind::Document, _) => write!(f, "#document"),
        }
    }
}

/* ---------------------------------------------------------------------------------------------
 * Mutation log
 * ------------------------------------------------------------------------------------------- */

/// One entry of the mutation log. Nodes are identified by creation id. One entry is recorded per
/// *successful* DOM API call (implicit steps such as the removal from the old parent during an
/// insert are not recorded separately). Nodes created by the HTML parser (`set_inner_html`) do not
/// get `Create*` entries.
#[derive(Debug, Clone, PartialEq, Eq)]
pub enum Mutation {
    AppendChild { parent: u64, child: u64 },
    InsertBefore { parent: u64, child: u64, reference: Option<u64> },
    RemoveChild { parent: u64, child: u64 },
    ReplaceChild { parent: u64, new: u64, old: u64 },
    SetAttribute { el: u64, name: String, value: String },
    RemoveAttribute { el: u64, name: String },
    SetText { node: u64, text: String },
    SetInnerHtml { el: u64 },
    CreateElement { id: u64, tag: String },
    CreateText { id: u64 },
    CreateComment { id: u64 },
    CreateFragment { id: u64 },
    /// `cloneNode`: `id` is the new (root) node.
    CloneNode { id: u64, source: u64 },
}

thread_local! {
    static NEXT_ID: Cell<u64> = const { Cell::new(1) };
    static LOG: RefCell<Vec<Mutation>> = const { RefCell::new(Vec::new()) };
    static LOGGING: Cell<bool> = const { Cell::new(true) };
    static ALL_NODES: RefCell<Vec<Weak<JsObject>>> = const { RefCell::new(Vec::new()) };
    static DOCUMENT: Document = new_document();
}

pub(crate) fn log(m: Mutation) {
    if LOGGING.with(Cell::get) {
        LOG.with(|l| l.borrow_mut().push(m));
    }
}

/// A copy of the mutation log.
pub fn mutation_log() -> Vec<Mutation> {
    LOG.with(|l| l.borrow().clone())
}
/// Take (and clear) the mutation log.
pub fn take_mutation_log() -> Vec<Mutation> {
    LOG.with(|l| std::mem::take(&mut *l.borrow_mut()))
}
/// Clear the mutation log.
pub fn clear_mutation_log() {
    LOG.with(|l| l.borrow_mut().clear());
}
/// Number of entries in the mutation log.
pub fn mutation_log_len() -> usize {
    LOG.with(|l| l.borrow().len())
}
/// Enable / disable recording; returns the previous setting.
pub fn set_mutation_logging(on: bool) -> bool {
    LOGGING.with(|l| l.replace(on))
}

/* ---------------------------------------------------------------------------------------------
 * Node creation
 * ------------------------------------------------------------------------------------------- */

pub(crate) fn new_node(kind: NodeKind, data: String) -> Node {
    let id = NEXT_ID.with(|n| {
        let id = n.get();
        n.set(id + 1);
        id
    });
    let obj = JsObject::new(NodeData {
        id,
        kind,
        inner: RefCell::new(NodeInner {
            data,
            ..Default::default()
        }),
    });
    ALL_NODES.with(|all| all.borrow_mut().push(Rc::downgrade(&obj)));
    JsValue::Object(obj).unchecked_into()
}

/// A node with id 0 that is not registered for teardown; used as a temporary parse root.
pub(crate) fn new_scratch_node(kind: NodeKind) -> Node {
    JsValue::Object(JsObject::new(NodeData {
        id: 0,
        kind,
        inner: RefCell::new(NodeInner::default()),
    }))
    .unchecked_into()
}

fn new_document() -> Document {
    let doc: Document = new_node(NodeKind::Document, String::new()).unchecked_into();
    build_skeleton(&doc);
    doc
}

fn build_skeleton(doc: &Document) {
    let html = new_html_element("html");
    let head = new_html_element("head");
    let body = new_html_element("body");
    raw_append(&html, &head);
    raw_append(&html, &body);
    raw_append(doc, &html);
}

pub(crate) fn new_html_element(tag: &str) -> Node {
    new_node(
        NodeKind::Element {
            tag: tag.to_string(),
            namespace: Some(HTML_NAMESPACE.to_string()),
        },
        String::new(),
    )
}

/// Append without validation or logging.
pub(crate) fn raw_append(parent: &Node, child: &Node) {
    data(child).inner.borrow_mut().parent = Some(parent.clone());
    data(parent).inner.borrow_mut().children.push(child.clone());
}

/// The thread's document. Its identity never changes (sycamore caches it in a thread local).
pub fn document() -> Document {
    DOCUMENT.with(Clone::clone)
}

/// Number of live (not yet dropped) node objects created since the last [`reset_document`].
pub fn live_node_count() -> usize {
    ALL_NODES.with(|all| all.borrow().iter().filter(|w| w.strong_count() > 0).count())
}

/// Reset the thread's DOM to a fresh `<html><head></head><body></body></html>` document.
///
/// * The `Document` object keeps its identity and id (1); the new `html`, `head`, `body` elements
///   get ids 2, 3, 4 and the id counter restarts at 5, so runs are reproducible.
/// * Every node created before the reset is torn down (parent / children / listeners cleared) so
///   that reference cycles are freed. Stale handles must not be used afterwards.
/// * The mutation log, the console log, the microtask queue and the expando properties of
///   `window` and `document` are cleared.
pub fn reset_document() {
    let doc = document();
    let doc_obj = doc.as_object().unwrap().clone();
    // Tear down all nodes. Collect what is dropped and drop it after all borrows are released.
    let mut garbage: Vec<NodeInner> = Vec::new();
    let all = ALL_NODES.with(|all| std::mem::take(&mut *all.borrow_mut()));
    for weak in all {
        if let Some(obj) = weak.upgrade() {
            if let Some(nd) = obj.data::<NodeData>() {
                let mut inner = nd.inner.borrow_mut();
                let old = NodeInner {
                    parent: inner.parent.take(),
                    children: std::mem::take(&mut inner.children),
                    listeners: std::mem::take(&mut inner.listeners),
                    ..Default::default()
                };
                drop(inner);
                garbage.push(old);
            }
            if !Rc::ptr_eq(&obj, &doc_obj) {
                // Expando properties may hold references to other nodes.
                let props = std::mem::take(&mut *obj.props.borrow_mut());
                drop(props);
            }
        }
    }
    drop(garbage);
    doc_obj.props.borrow_mut().clear();
    ALL_NODES.with(|all| all.borrow_mut().push(Rc::downgrade(&doc_obj)));
    NEXT_ID.with(|n| n.set(data(&doc).id + 1));
    build_skeleton(&doc);
    clear_mutation_log();
    crate::console::clear_console_log();
    crate::events::clear_uncaught();
    wasm_bindgen::verif::reset_global();
}

/* ---------------------------------------------------------------------------------------------
 * Accessors
 * ------------------------------------------------------------------------------------------- */

/// Node data of a value, if it is a node.
pub fn try_data(v: &JsValue) -> Option<&NodeData> {
    v.object_data::<NodeData>()
}

/// Node data of a node. Panics if an unchecked cast produced a `Node` that is not a node.
#[track_caller]
pub fn data(node: &Node) -> &NodeData {
    match try_data(node.as_ref()) {
        Some(d) => d,
        None => panic!(
            "TypeError: value is not a DOM Node: {:?} (bad unchecked cast?)",
            AsRef::<JsValue>::as_ref(node)
        ),
    }
}

/// The creation id of a node.
pub fn node_id(node: &Node) -> u64 {
    data(node).id
}

pub fn is_element(v: &JsValue) -> bool {
    matches!(try_data(v).map(|d| &d.kind), Some(NodeKind::Element { .. }))
}

pub fn parent(node: &Node) -> Option<Node> {
    data(node).inner.borrow().parent.clone()
}

pub fn children(node: &Node) -> Vec<Node> {
    data(node).inner.borrow().children.clone()
}

pub fn next_sibling(node: &Node) -> Option<Node> {
    let p = parent(node)?;
    let inner = data(&p).inner.borrow();
    let idx = inner.children.iter().position(|c| c == node)?;
    inner.children.get(idx + 1).cloned()
}

pub fn previous_sibling(node: &Node) -> Option<Node> {
    let p = parent(node)?;
    let inner = data(&p).inner.borrow();
    let idx = inner.children.iter().position(|c| c == node)?;
    if idx == 0 {
        None
    } else {
        inner.children.get(idx - 1).cloned()
    }
}

/// §4.2.1 inclusive ancestor.
pub fn is_inclusive_ancestor(ancestor: &Node, node: &Node) -> bool {
    let mut cur = Some(node.clone());
    while let Some(n) = cur {
        if &n == ancestor {
            return true;
        }
        cur = parent(&n);
    }
    false
}

/// §4.2.1 root.
pub fn root(node: &Node) -> Node {
    let mut cur = node.clone();
    while let Some(p) = parent(&cur) {
        cur = p;
    }
    cur
}

/// All descendants in tree order (excluding `node`).
pub fn descendants(node: &Node) -> Vec<Node> {
    fn walk(node: &Node, out: &mut Vec<Node>) {
        for c in children(node) {
            out.push(c.clone());
            walk(&c, out);
        }
    }
    let mut out = Vec::new();
    walk(node, &mut out);
    out
}

/* ---------------------------------------------------------------------------------------------
 * Errors
 * ------------------------------------------------------------------------------------------- */

pub(crate) fn dom_exception(name: &str, message: &str) -> JsValue {
    make_error(name, message)
}

fn hierarchy(msg: &str) -> JsValue {
    dom_exception("HierarchyRequestError", msg)
}

fn not_found(msg: &str) -> JsValue {
    dom_exception("NotFoundError", msg)
}

/* ---------------------------------------------------------------------------------------------
 * §4.2.3 Mutation algorithms
 * ------------------------------------------------------------------------------------------- */

fn element_child_count(node: &Node) -> usize {
    children(node).iter().filter(|c| is_element(c.as_ref())).count()
}

/// "ensure pre-insertion validity" (§4.2.3) of `node` into `parent` before `child`. With
/// `replacing = true` this is steps 1-6 of "replace" instead (which differ only in the document
/// element checks). Doctype related checks are omitted (doctypes are not modelled).
fn ensure_validity(
    parent: &Node,
    node: &Node,
    child: Option<&Node>,
    replacing: bool,
) -> Result<(), JsValue> {
    let parent_kind = &data(parent).kind;
    // 1. If parent is not a Document, DocumentFragment, or Element node, throw.
    if !matches!(
        parent_kind,
        NodeKind::Document | NodeKind::DocumentFragment | NodeKind::Element { .. }
    ) {
        return Err(hierarchy("parent is not a Document, DocumentFragment or Element"));
    }
    // 2. If node is a host-including inclusive ancestor of parent, throw.
    if is_inclusive_ancestor(node, parent) {
        return Err(hierarchy("the new child is an ancestor of the parent"));
    }
    // 3. If child is non-null and its parent is not parent, throw a "NotFoundError".
    if let Some(child) = child {
        if !parent_of_is(child, parent) {
            return Err(not_found(
                "the node before which the new node is to be inserted (or which is to be replaced) is not a child of this node",
            ));
        }
    }
    // 4. If node is not a DocumentFragment, DocumentType, Element, or CharacterData node, throw.
    let node_kind = &data(node).kind;
    if matches!(node_kind, NodeKind::Document) {
        return Err(hierarchy("a Document cannot be inserted"));
    }
    // 5. If node is a Text node and parent is a document, throw.
    if matches!(parent_kind, NodeKind::Document) {
        if matches!(node_kind, NodeKind::Text) {
            return Err(hierarchy("a Text node cannot be a child of a Document"));
        }
        // 6. Document element constraints.
        let existing_elements = children(parent)
            .iter()
            .filter(|c| is_element(c.as_ref()) && !(replacing && Some(*c) == child))
            .count();
        match node_kind {
            NodeKind::DocumentFragment => {
                let n = element_child_count(node);
                let has_text = children(node)
                    .iter()
                    .any(|c| matches!(data(c).kind, NodeKind::Text));
                if n > 1 || has_text || (n == 1 && existing_elements > 0) {
                    return Err(hierarchy("a Document can only have one element child"));
                }
            }
            NodeKind::Element { .. } => {
                if existing_elements > 0 {
                    return Err(hierarchy("a Document can only have one element child"));
                }
            }
            _ => {}
        }
    }
    Ok(())
}

fn parent_of_is(child: &Node, expected_parent: &Node) -> bool {
    parent(child).as_ref() == Some(expected_parent)
}

/// "remove" (§4.2.3), without live range / observer bookkeeping.
fn remove(node: &Node) {
    let Some(p) = parent(node) else { return };
    {
        let mut inner = data(&p).inner.borrow_mut();
        if let Some(idx) = inner.children.iter().position(|c| c == node) {
            inner.children.remove(idx);
        }
    }
    data(node).inner.borrow_mut().parent = None;
}

/// "insert" (§4.2.3) `node` into `parent` before `child`.
fn insert(node: &Node, parent_node: &Node, child: Option<&Node>) {
    // 1. Let nodes be node's children, if node is a DocumentFragment node; otherwise « node ».
    let is_fragment = matches!(data(node).kind, NodeKind::DocumentFragment);
    let nodes = if is_fragment {
        children(node)
    } else {
        vec![node.clone()]
    };
    // 2-3. If count is 0, return.
    if nodes.is_empty() {
        return;
    }
    // 4. If node is a DocumentFragment node, remove its children.
    if is_fragment {
        let taken = std::mem::take(&mut data(node).inner.borrow_mut().children);
        for c in &taken {
            data(c).inner.borrow_mut().parent = None;
        }
    }
    // 7. For each node in nodes, in tree order: adopt node into parent's node document (which
    //    removes it from its old parent), then insert it before child / append it.
    for n in nodes {
        remove(&n);
        let mut inner = data(parent_node).inner.borrow_mut();
        let idx = match child {
            Some(c) => inner
                .children
                .iter()
                .position(|x| x == c)
                .expect("reference child vanished during insert"),
            None => inner.children.len(),
        };
        inner.children.insert(idx, n.clone());
        drop(inner);
        data(&n).inner.borrow_mut().parent = Some(parent_node.clone());
    }
}

/// "pre-insert" (§4.2.3). Returns `node`.
pub(crate) fn pre_insert(parent: &Node, node: &Node, child: Option<&Node>) -> Result<Node, JsValue> {
    // 1. Ensure pre-insertion validity.
    ensure_validity(parent, node, child, false)?;
    // 2-3. Let referenceChild be child; if referenceChild is node, set it to node's next sibling.
    let mut reference = child.cloned();
    if reference.as_ref() == Some(node) {
        reference = next_sibling(node);
    }
    // 4. Insert node into parent before referenceChild.
    insert(node, parent, reference.as_ref());
    Ok(node.clone())
}

/// "replace" a `child` with `node` within `parent` (§4.2.3). Returns `child`.
pub(crate) fn replace(parent_node: &Node, node: &Node, child: &Node) -> Result<Node, JsValue> {
    // 1-6.
    ensure_validity(parent_node, node, Some(child), true)?;
    // 7-8. Let referenceChild be child's next sibling; if it is node, node's next sibling.
    let mut reference = next_sibling(child);
    if reference.as_ref() == Some(node) {
        reference = next_sibling(node);
    }
    // 11. If child's parent is non-null, remove child.
    remove(child);
    // 13. Insert node into parent before referenceChild.
    insert(node, parent_node, reference.as_ref());
    Ok(child.clone())
}

/// "pre-remove" (§4.2.3). Returns `child`.
pub(crate) fn pre_remove(parent_node: &Node, child: &Node) -> Result<Node, JsValue> {
    if !parent_of_is(child, parent_node) {
        return Err(not_found("the node to be removed is not a child of this node"));
    }
    remove(child);
    Ok(child.clone())
}

/// "replace all" with a node or null within `parent` (§4.2.3).
pub(crate) fn replace_all(parent_node: &Node, node: Option<&Node>) {
    let old = std::mem::take(&mut data(parent_node).inner.borrow_mut().children);
    for c in &old {
        data(c).inner.borrow_mut().parent = None;
    }
    if let Some(node) = node {
        insert(node, parent_node, None);
    }
}

/* ---------------------------------------------------------------------------------------------
 * Text content, cloning
 * ------------------------------------------------------------------------------------------- */

/// "descendant text content" (§4.4).
pub(crate) fn descendant_text_content(node: &Node) -> String {
    let mut out = String::new();
    for d in descendants(node) {
        let nd = data(&d);
        if matches!(nd.kind, NodeKind::Text) {
            out.push_str(&nd.inner.borrow().data);
        }
    }
    out
}

/// "clone a node" (§4.5): copies kind, attributes and data, not listeners or expandos.
pub(crate) fn clone_node(node: &Node, deep: bool) -> Node {
    let nd = data(node);
    let copy = new_node(nd.kind.clone(), nd.inner.borrow().data.clone());
    data(&copy).inner.borrow_mut().attrs = nd.inner.borrow().attrs.clone();
    if deep {
        for c in children(node) {
            let cc = clone_node(&c, true);
            raw_append(&copy, &cc);
        }
    }
    copy
}

/// Is this element an "HTML element" (HTML namespace)?
pub(crate) fn is_html_element(node: &Node) -> bool {
    matches!(&data(node).kind, NodeKind::Element { namespace, .. } if namespace.as_deref() == Some(HTML_NAMESPACE))
}

/// "valid attribute local name" (§1.4 Namespaces, 2025 definition).
pub(crate) fn is_valid_attribute_name(name: &str) -> bool {
    !name.is_empty()
        && !name
            .chars()
            .any(|c| matches!(c, '\t' | '\n' | '\x0C' | '\r' | ' ' | '\0' | '/' | '=' | '>'))
}

/// "valid element local name" (§1.4 Namespaces, 2025 definition).
pub(crate) fn is_valid_element_name(name: &str) -> bool {
    let mut chars = name.chars();
    let Some(first) = chars.next() else { return false };
    if first.is_ascii_alphabetic() {
        !name
            .chars()
            .any(|c| matches!(c, '\t' | '\n' | '\x0C' | '\r' | ' ' | '\0' | '/' | '>'))
    } else if first == ':' || first == '_' || first as u32 >= 0x80 {
        chars.all(|c| {
            c.is_ascii_alphanumeric() || matches!(c, '-' | '.' | ':' | '_') || c as u32 >= 0x80
        })
    } else {
        false
    }
}
