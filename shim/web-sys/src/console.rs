//! `console`: messages are captured in a thread-local log instead of being printed.

use std::cell::RefCell;

use wasm_bindgen::JsValue;

/// Severity of a captured console message.
#[derive(Debug, Clone, Copy, PartialEq, Eq)]
pub enum Level {
    Log,
    Info,
    Debug,
    Warn,
    Error,
}

thread_local! {
    static CONSOLE: RefCell<Vec<(Level, String)>> = const { RefCell::new(Vec::new()) };
}

pub(crate) fn push(level: Level, msg: String) {
    CONSOLE.with(|c| c.borrow_mut().push((level, msg)));
}

fn join(args: &[&JsValue]) -> String {
    args.iter()
        .map(|a| a.to_js_string())
        .collect::<Vec<_>>()
        .join(" ")
}

pub fn log_1(data_1: &JsValue) {
    push(Level::Log, join(&[data_1]));
}
pub fn log_2(data_1: &JsValue, data_2: &JsValue) {
    push(Level::Log, join(&[data_1, data_2]));
}
pub fn info_1(data_1: &JsValue) {
    push(Level::Info, join(&[data_1]));
}
pub fn debug_1(data_1: &JsValue) {
    push(Level::Debug, join(&[data_1]));
}
pub fn warn_1(data_1: &JsValue) {
    push(Level::Warn, join(&[data_1]));
}
pub fn warn_2(data_1: &JsValue, data_2: &JsValue) {
    push(Level::Warn, join(&[data_1, data_2]));
}
pub fn error_1(data_1: &JsValue) {
    push(Level::Error, join(&[data_1]));
}
pub fn error_2(data_1: &JsValue, data_2: &JsValue) {
    push(Level::Error, join(&[data_1, data_2]));
}

/// A copy of the captured console output.
pub fn console_log() -> Vec<(Level, String)> {
    CONSOLE.with(|c| c.borrow().clone())
}
/// Take (and clear) the captured console output.
pub fn take_console_log() -> Vec<(Level, String)> {
    CONSOLE.with(|c| std::mem::take(&mut *c.borrow_mut()))
}
/// Clear the captured console output.
pub fn clear_console_log() {
    CONSOLE.with(|c| c.borrow_mut().clear());
}
