//! A small CSS selector engine: selector lists of complex selectors made of compound selectors
//! (`tag`, `*`, `#id`, `.class`, `[attr]`, `[attr=v]`, `[attr="v"]`, `[attr~=v]`, `[attr^=v]`,
//! `[attr$=v]`, `[attr*=v]`, `[attr|=v]`) joined by descendant (` `) and child (`>`) combinators.
//! Anything else yields a `SyntaxError`.

use wasm_bindgen::JsValue;

use crate::dom::{self, data, NodeKind};
use crate::Node;

#[derive(Debug, Clone)]
enum AttrOp {
    Exists,
    Equals,
    Includes,
    Prefix,
    Suffix,
    Substring,
    Dash,
}

#[derive(Debug, Clone, Default)]
struct Compound {
    tag: Option<String>,
    id: Option<String>,
    classes: Vec<String>,
    attrs: Vec<(String, AttrOp, String)>,
}

#[derive(Debug, Clone, Copy, PartialEq)]
enum Combinator {
    Descendant,
    Child,
}

/// A complex selector: compounds right-to-left are matched starting from the last one.
#[derive(Debug, Clone)]
struct Complex {
    first: Compound,
    rest: Vec<(Combinator, Compound)>,
}

#[derive(Debug, Clone)]
pub struct SelectorList(Vec<Complex>);

fn syntax_error(sel: &str) -> JsValue {
    dom::dom_exception("SyntaxError", &format!("'{sel}' is not a valid (or supported) selector"))
}

fn is_ident_char(c: char) -> bool {
    c.is_alphanumeric() || c == '-' || c == '_' || c as u32 >= 0x80
}

struct P<'a> {
    chars: Vec<char>,
    pos: usize,
    src: &'a str,
}

impl P<'_> {
    fn peek(&self) -> Option<char> {
        self.chars.get(self.pos).copied()
    }
    fn skip_ws(&mut self) -> bool {
        let start = self.pos;
        while matches!(self.peek(), Some(c) if c.is_whitespace()) {
            self.pos += 1;
        }
        self.pos != start
    }
    fn ident(&mut self) -> Result<String, JsValue> {
        let mut s = String::new();
        while let Some(c) = self.peek() {
            if is_ident_char(c) {
                s.push(c);
                self.pos += 1;
            } else if c == '\\' {
                // Simple escapes: `\:` etc.
                self.pos += 1;
                if let Some(e) = self.peek() {
                    s.push(e);
                    self.pos += 1;
                }
            } else {
                break;
            }
        }
        if s.is_empty() {
            Err(syntax_error(self.src))
        } else {
            Ok(s)
        }
    }

    fn compound(&mut self) -> Result<Compound, JsValue> {
        let mut c = Compound::default();
        let mut any = false;
        loop {
            match self.peek() {
                Some('*') => {
                    self.pos += 1;
                    any = true;
                }
                Some('#') => {
                    self.pos += 1;
                    c.id = Some(self.ident()?);
                    any = true;
                }
                Some('.') => {
                    self.pos += 1;
                    c.classes.push(self.ident()?);
                    any = true;
                }
                Some('[') => {
                    self.pos += 1;
                    self.skip_ws();
                    let name = self.ident()?;
                    self.skip_ws();
                    let op = match self.peek() {
                        Some(']') => AttrOp::Exists,
                        Some('=') => {
                            self.pos += 1;
                            AttrOp::Equals
                        }
                        Some(o @ ('~' | '^' | '$' | '*' | '|')) => {
                            self.pos += 1;
                            if self.peek() != Some('=') {
                                return Err(syntax_error(self.src));
                            }
                            self.pos += 1;
                            match o {
                                '~' => AttrOp::Includes,
                                '^' => AttrOp::Prefix,
                                '$' => AttrOp::Suffix,
                                '*' => AttrOp::Substring,
                                _ => AttrOp::Dash,
                            }
                        }
                        _ => return Err(syntax_error(self.src)),
                    };
                    let mut value = String::new();
                    if !matches!(op, AttrOp::Exists) {
                        self.skip_ws();
                        match self.peek() {
                            Some(q @ ('"' | '\'')) => {
                                self.pos += 1;
                                loop {
                                    match self.peek() {
                                        Some(ch) if ch == q => {
                                            self.pos += 1;
                                            break;
                                        }
                                        Some('\\') => {
                                            self.pos += 1;
                                            if let Some(e) = self.peek() {
                                                value.push(e);
                                                self.pos += 1;
                                            }
                                        }
                                        Some(ch) => {
                                            value.push(ch);
                                            self.pos += 1;
                                        }
                                        None => return Err(syntax_error(self.src)),
                                    }
                                }
                            }
                            _ => value = self.ident()?,
                        }
                        self.skip_ws();
                    }
                    if self.peek() != Some(']') {
                        return Err(syntax_error(self.src));
                    }
                    self.pos += 1;
                    c.attrs.push((name, op, value));
                    any = true;
                }
                Some(ch) if is_ident_char(ch) && !any => {
                    c.tag = Some(self.ident()?);
                    any = true;
                }
                _ => break,
            }
        }
        if any {
            Ok(c)
        } else {
            Err(syntax_error(self.src))
        }
    }

    fn complex(&mut self) -> Result<Complex, JsValue> {
        self.skip_ws();
        let first = self.compound()?;
        let mut rest = Vec::new();
        loop {
            let ws = self.skip_ws();
            match self.peek() {
                None | Some(',') => break,
                Some('>') => {
                    self.pos += 1;
                    self.skip_ws();
                    rest.push((Combinator::Child, self.compound()?));
                }
                Some('+') | Some('~') => return Err(syntax_error(self.src)),
                Some(_) if ws => rest.push((Combinator::Descendant, self.compound()?)),
                Some(_) => return Err(syntax_error(self.src)),
            }
        }
        Ok(Complex { first, rest })
    }
}

/// Parse a selector list.
pub fn parse(selector: &str) -> Result<SelectorList, JsValue> {
    let mut p = P {
        chars: selector.chars().collect(),
        pos: 0,
        src: selector,
    };
    let mut list = Vec::new();
    loop {
        list.push(p.complex()?);
        p.skip_ws();
        match p.peek() {
            None => break,
            Some(',') => p.pos += 1,
            Some(_) => return Err(syntax_error(selector)),
        }
    }
    Ok(SelectorList(list))
}

fn attr<'a>(attrs: &'a [(String, String)], name: &str) -> Option<&'a str> {
    attrs.iter().find(|(k, _)| k == name).map(|(_, v)| v.as_str())
}

fn matches_compound(node: &Node, c: &Compound) -> bool {
    let nd = data(node);
    let NodeKind::Element { tag, .. } = &nd.kind else {
        return false;
    };
    let html = dom::is_html_element(node);
    if let Some(t) = &c.tag {
        // Type selectors are ASCII case-insensitive for HTML elements in HTML documents.
        let ok = if html {
            tag.eq_ignore_ascii_case(t)
        } else {
            tag == t
        };
        if !ok {
            return false;
        }
    }
    let inner = nd.inner.borrow();
    if let Some(id) = &c.id {
        if attr(&inner.attrs, "id") != Some(id.as_str()) {
            return false;
        }
    }
    for class in &c.classes {
        let ok = attr(&inner.attrs, "class")
            .map(|v| v.split_ascii_whitespace().any(|x| x == class))
            .unwrap_or(false);
        if !ok {
            return false;
        }
    }
    for (name, op, value) in &c.attrs {
        let name = if html {
            name.to_ascii_lowercase()
        } else {
            name.clone()
        };
        let Some(actual) = attr(&inner.attrs, &name) else {
            return false;
        };
        let ok = match op {
            AttrOp::Exists => true,
            AttrOp::Equals => actual == value,
            AttrOp::Includes => {
                !value.is_empty() && actual.split_ascii_whitespace().any(|x| x == value)
            }
            AttrOp::Prefix => !value.is_empty() && actual.starts_with(value.as_str()),
            AttrOp::Suffix => !value.is_empty() && actual.ends_with(value.as_str()),
            AttrOp::Substring => !value.is_empty() && actual.contains(value.as_str()),
            AttrOp::Dash => actual == value || actual.starts_with(&format!("{value}-")),
        };
        if !ok {
            return false;
        }
    }
    true
}

fn matches_complex(node: &Node, sel: &Complex) -> bool {
    // Flatten to [first, rest...] and match from the right.
    let mut compounds: Vec<&Compound> = vec![&sel.first];
    let mut combinators: Vec<Combinator> = Vec::new();
    for (comb, c) in &sel.rest {
        combinators.push(*comb);
        compounds.push(c);
    }
    fn go(node: &Node, compounds: &[&Compound], combinators: &[Combinator]) -> bool {
        let (last, init) = compounds.split_last().unwrap();
        if !matches_compound(node, last) {
            return false;
        }
        if init.is_empty() {
            return true;
        }
        let (comb, comb_init) = combinators.split_last().unwrap();
        match comb {
            Combinator::Child => match dom::parent(node) {
                Some(p) => go(&p, init, comb_init),
                None => false,
            },
            Combinator::Descendant => {
                let mut cur = dom::parent(node);
                while let Some(p) = cur {
                    if go(&p, init, comb_init) {
                        return true;
                    }
                    cur = dom::parent(&p);
                }
                false
            }
        }
    }
    go(node, &compounds, &combinators)
}

impl SelectorList {
    /// Does `node` match any selector of the list? (Not scoped: ancestors outside of the query
    /// root may take part in the match, as in `querySelector`.)
    pub fn matches(&self, node: &Node) -> bool {
        self.0.iter().any(|c| matches_complex(node, c))
    }
}

/// All descendants of `root` matching `selector`, in tree order.
pub fn query_all(root: &Node, selector: &str) -> Result<Vec<Node>, JsValue> {
    let list = parse(selector)?;
    Ok(dom::descendants(root)
        .into_iter()
        .filter(|n| list.matches(n))
        .collect())
}
