import SycVerif.Lemmas.Preserve
/-!
"Between two top-level operations nothing is marked and nothing is running."

* `Back P r r'` — every live node that satisfies `P` at `r'` was alive and satisfied `P` at `r`;
* `Calm r r'`   — `Back` for `Marked` (`mark ≠ none`) and for `Valueless` (`value = none`, i.e. the node is being
                  run or created): a function that returns leaves no mark and no taken-out value behind;
* `CalmAll f`   — one statement per function of the mutual block at fuel `f`; `calmAll : ∀ f, CalmAll f`.
                  No invariant and no assumption on the closures is needed (a call that returns `.ok` has restored
                  everything: the `dfs` marks are reset by the loop that follows, the value taken out by
                  `runNodeUpdate` / `createSelector` is put back unless the node was destroyed);
* `AtRest r`    — not batching, nothing marked, nothing running; `atRest_init`, `runOps_atRest`.
-/
namespace SycVerif.Reactive

/-! ### 1. the relations -/

def Back (P : Node → Prop) (r r' : Root) : Prop :=
  ∀ j n', r'.get? j = some n' → P n' → ∃ n, r.get? j = some n ∧ P n

abbrev Marked (n : Node) : Prop := n.mark ≠ .none
abbrev Valueless (n : Node) : Prop := n.value = none

theorem marked_of_eq {a b : Node} (e : a.mark = b.mark) (p : Marked a) : Marked b := fun h => p (e.trans h)
theorem valueless_of_eq {a b : Node} (e : a.value = b.value) (p : Valueless a) : Valueless b := e.symm.trans p

theorem Back.refl (P : Node → Prop) (r : Root) : Back P r r := fun _ n h p => ⟨n, h, p⟩

theorem Back.trans {P : Node → Prop} {a b c : Root} (h1 : Back P a b) (h2 : Back P b c) : Back P a c := by
  intro j n' hn' p
  obtain ⟨n, hn, p'⟩ := h2 j n' hn' p
  exact h1 j n hn p'

structure Calm (r r' : Root) : Prop where
  marks : Back Marked r r'
  idle : Back Valueless r r'

theorem Calm.refl (r : Root) : Calm r r := ⟨.refl _ _, .refl _ _⟩

theorem Calm.trans {a b c : Root} (h1 : Calm a b) (h2 : Calm b c) : Calm a c :=
  ⟨h1.marks.trans h2.marks, h1.idle.trans h2.idle⟩

/-! ### 2. the steps that contain no user code -/

/-- the general constructor: every node afterwards is fresh (unmarked, with a value), or existed before and was
marked / valueless if it is now -/
theorem Calm.of_back {r r' : Root}
    (h : ∀ j n', r'.get? j = some n' → (n'.mark = .none ∧ n'.value ≠ none) ∨
      ∃ n, r.get? j = some n ∧ (Marked n' → Marked n) ∧ (Valueless n' → Valueless n)) : Calm r r' := by
  refine ⟨fun j n' hn' p => ?_, fun j n' hn' p => ?_⟩
  · rcases h j n' hn' with ⟨a, _⟩ | ⟨n, hn, a, _⟩
    · exact absurd a p
    · exact ⟨n, hn, a p⟩
  · rcases h j n' hn' with ⟨_, b⟩ | ⟨n, hn, _, b⟩
    · exact absurd p b
    · exact ⟨n, hn, b p⟩

/-- every node is mapped by a function that keeps `mark` and `value` -/
theorem Calm.of_map {r r' : Root} {g : Id → Node → Node} (hg : ∀ j, r'.get? j = (r.get? j).map (g j))
    (hk : ∀ j m, (g j m).mark = m.mark ∧ (g j m).value = m.value) : Calm r r' := by
  refine Calm.of_back fun j n' hn' => .inr ?_
  rw [hg j] at hn'
  cases hr : r.get? j with
  | none => rw [hr] at hn'; cases hn'
  | some n =>
    rw [hr] at hn'; simp only [Option.map_some, Option.some.injEq] at hn'; subst hn'
    exact ⟨n, rfl, marked_of_eq (hk j n).1, valueless_of_eq (hk j n).2⟩

theorem Calm.of_nodes_eq {r r' : Root} (hn : r'.nodes = r.nodes) : Calm r r' :=
  Calm.of_map (g := fun _ m => m) (fun j => by rw [Root.get?_congr_nodes hn]; simp) fun _ _ => ⟨rfl, rfl⟩

/-- any update of the other fields of the root (in a form that unifies with every `{ r with … }`) -/
theorem Calm.fields (r : Root) (t : Option (List Id)) (c rn : Option Id) (q : List Id) (b : Bool)
    (nt : Nat) (tr : List Event) :
    Calm r { nodes := r.nodes, tracker := t, current := c, rootNode := rn, queue := q, batching := b, nextTag := nt, trace := tr } :=
  Calm.of_nodes_eq rfl

/-- overwriting a live node -/
theorem Calm.setNode {r : Root} {id : Id} {n : Node} (hn : r.get? id = some n) {n' : Node}
    (hm : Marked n' → Marked n) (hv : Valueless n' → Valueless n) : Calm r (r.setNode id n') := by
  refine Calm.of_back fun j m' hm' => .inr ?_
  rw [Root.get?_setNode] at hm'
  split at hm'
  · rename_i hc
    cases hm'
    exact ⟨n, by rw [hc.1]; exact hn, hm, hv⟩
  · exact ⟨m', hm', fun p => p, fun p => p⟩

theorem Calm.modify (r : Root) (id : Id) {f : Node → Node}
    (hf : ∀ m, (f m).mark = m.mark ∧ (f m).value = m.value) : Calm r (r.modify id f) := by
  unfold Root.modify
  split
  · rename_i n hn
    exact Calm.setNode hn (marked_of_eq (hf n).1) (valueless_of_eq (hf n).2)
  · exact Calm.refl _

theorem Calm.foldl_modify {f : Node → Node} (hf : ∀ m, (f m).mark = m.mark ∧ (f m).value = m.value)
    (l : List Id) (r : Root) : Calm r (l.foldl (fun r d => r.modify d f) r) := by
  induction l generalizing r with
  | nil => exact Calm.refl _
  | cons d l ih => exact (Calm.modify r d hf).trans (ih _)

theorem Calm.createDependencyLink (r : Root) (deps : List Id) (d : Id) :
    Calm r (createDependencyLink r deps d) := by
  unfold Reactive.createDependencyLink
  split
  · exact Calm.refl _
  · exact (Calm.foldl_modify (by exact fun _ => ⟨rfl, rfl⟩) _ _).trans
      (Calm.modify _ _ (by exact fun _ => ⟨rfl, rfl⟩))

theorem Calm.markDependentsDirty (r : Root) (cur : Id) : Calm r (markDependentsDirty r cur) := by
  unfold Reactive.markDependentsDirty
  split
  · exact Calm.refl _
  · exact Calm.foldl_modify (by exact fun _ => ⟨rfl, rfl⟩) _ _

theorem Calm.unlink (cur : Id) : ∀ (l : List Id) (r r' : Root), unlink cur r l = .ok r' → Calm r r'
  | [], r, r', h => by simp only [Reactive.unlink, Except.ok.injEq] at h; subst h; exact Calm.refl _
  | d :: ds, r, r', h => by
    simp only [Reactive.unlink] at h
    split at h
    · cases h
    · rename_i dn hdn
      exact (Calm.setNode hdn (by exact fun x => x) (by exact fun x => x)).trans (Calm.unlink cur ds _ _ h)

theorem Calm.remove (r : Root) (id : Id) : Calm r (r.remove id) := by
  refine Calm.of_back fun j m' hm' => .inr ?_
  rw [Root.get?_remove] at hm'
  split at hm'
  · cases hm'
  · exact ⟨m', hm', fun p => p, fun p => p⟩

theorem Calm.removeNode (r : Root) (id : Id) : Calm r (removeNode r id) := by
  unfold Reactive.removeNode
  split
  · exact Calm.refl _
  · exact ((Calm.remove r id).trans (Calm.foldl_modify (by exact fun _ => ⟨rfl, rfl⟩) _ _)).trans
      (Calm.foldl_modify (by exact fun _ => ⟨rfl, rfl⟩) _ _)

theorem Calm.unsubscribe (r : Root) (id : Id) : Calm r (unsubscribe r id) := by
  unfold Reactive.unsubscribe
  split
  · exact Calm.refl _
  · exact (Calm.foldl_modify (by exact fun _ => ⟨rfl, rfl⟩) _ _).trans
      (Calm.modify _ _ (by exact fun _ => ⟨rfl, rfl⟩))

/-- what `createNode` does to marks and values: the new node is unmarked and holds `v`, the others keep theirs -/
theorem createNode_back {r r' : Root} {v : Option Int} {id : Id} (h : createNode r v = .ok (r', id)) :
    id = r.nodes.size ∧ ∀ j n', r'.get? j = some n' →
      (j = id ∧ n'.mark = .none ∧ n'.value = v) ∨
      (j ≠ id ∧ ∃ n, r.get? j = some n ∧ n'.mark = n.mark ∧ n'.value = n.value) := by
  obtain ⟨hid, hget, _⟩ := createNode_get? h
  refine ⟨hid, fun j n' hn' => ?_⟩
  rw [hget j] at hn'
  by_cases hj : j = r.nodes.size
  · rw [if_pos hj] at hn'
    simp only [Option.map_some, Option.some.injEq] at hn'; subst hn'
    exact .inl ⟨hj.trans hid.symm, rfl, rfl⟩
  · rw [if_neg hj] at hn'
    cases hr : r.get? j with
    | none => rw [hr] at hn'; cases hn'
    | some n =>
      rw [hr] at hn'; simp only [Option.map_some, Option.some.injEq] at hn'; subst hn'
      exact .inr ⟨fun e => hj (e.trans hid), n, rfl, rfl, rfl⟩

/-- `createNode` with a value (signals, scopes) -/
theorem Calm.createNode {r r' : Root} {v : Int} {id : Id} (h : createNode r (some v) = .ok (r', id)) :
    Calm r r' := by
  obtain ⟨_, hb⟩ := createNode_back h
  refine Calm.of_back fun j n' hn' => ?_
  rcases hb j n' hn' with ⟨_, a, b⟩ | ⟨_, n, hn, a, b⟩
  · exact .inl ⟨a, by rw [b]; simp⟩
  · exact .inr ⟨n, hn, marked_of_eq a, valueless_of_eq b⟩

theorem Calm.setSilent {r r' : Root} {id : Id} {v : Int} (h : setSilent r id v = .ok r') : Calm r r' := by
  obtain ⟨n, hn, _, rfl⟩ := setSilent_ok h
  exact Calm.setNode hn (fun x => x) (fun x => by cases x)

theorem Calm.provideContext {r r' : Root} {ty : Nat} {v : Int} (h : provideContext r ty v = .ok r') :
    Calm r r' := by
  unfold Reactive.provideContext at h
  split at h
  · cases h
  · split at h
    · cases h
    · rename_i n hn
      split at h
      · cases h
      · cases h; exact Calm.setNode hn (fun x => x) (fun x => x)

theorem Calm.track (r : Root) (id : Id) : Calm r (track r id) := Calm.of_nodes_eq (track_nodes r id).1

theorem Calm.trackAll (c : Ctx) (l : List Nat) {r r' : Root} (h : trackAll c r l = .ok r') : Calm r r' :=
  Calm.of_nodes_eq (trackAll_nodes c l h).1

theorem Calm.resetMarks : ∀ (ss : List Id) (r : Root), Calm r (resetMarks r ss)
  | [], r => Calm.refl _
  | s :: ss, r => by
    simp only [Reactive.resetMarks]
    split
    · exact Calm.resetMarks ss r
    · rename_i n hn
      exact (Calm.setNode hn (by exact fun p => absurd rfl p) (by exact fun x => x)).trans
        (Calm.resetMarks ss _)

/-! ### 3. the search: a node whose mark changes is pushed -/

theorem dfs_marked_aux : ∀ fuel : Nat,
    (∀ r buf cur r' buf', dfs fuel r buf cur = some (r', buf') →
      ∀ j n n', r.get? j = some n → r'.get? j = some n' → n'.mark = n.mark ∨ j ∈ buf') ∧
    (∀ r buf cs r' buf', dfsList fuel r buf cs = some (r', buf') →
      ∀ j n n', r.get? j = some n → r'.get? j = some n' → n'.mark = n.mark ∨ j ∈ buf') := by
  intro fuel
  induction fuel with
  | zero => exact ⟨fun _ _ _ _ _ h => by simp [dfs] at h, fun _ _ _ _ _ h => by simp [dfsList] at h⟩
  | succ fuel ih =>
    refine ⟨?_, ?_⟩
    · intro r buf cur r' buf' h j n n' hn hn'
      rw [dfs] at h
      split at h
      · cases h; rw [hn] at hn'; cases hn'; exact .inl rfl
      · rename_i nc hc
        split at h
        · cases h
        · cases h; rw [hn] at hn'; cases hn'; exact .inl rfl
        · simp only at h
          split at h
          · cases h
          · rename_i r2 buf2 hl
            cases h
            by_cases hjc : j = cur
            · exact .inr (by simp [hjc])
            · rw [Dfs.get?_modify, if_neg hjc] at hn'
              have hn1 : (r.setNode cur { nc with mark := .temp }).get? j = some n := by
                rw [Dfs.get?_setNode_of_get? hc, if_neg hjc]; exact hn
              rcases ih.2 _ _ _ _ _ hl j n n' hn1 hn' with e | e
              · exact .inl e
              · exact .inr (List.mem_append_left _ e)
    · intro r buf cs r' buf' h j n n' hn hn'
      cases cs with
      | nil => rw [dfsList] at h; cases h; rw [hn] at hn'; cases hn'; exact .inl rfl
      | cons c cs =>
        rw [dfsList] at h
        split at h
        · cases h
        · rename_i r1 buf1 h1
          obtain ⟨n1, hn1, _⟩ := (dfs_post h1).1.frame.get?_fwd hn
          obtain ⟨ext, hext⟩ := (dfsList_post h).1.ext
          rcases ih.1 _ _ _ _ _ h1 j n n1 hn hn1 with e1 | e1
          · rcases ih.2 _ _ _ _ _ h j n1 n' hn1 hn' with e2 | e2
            · exact .inl (e2.trans e1)
            · exact .inr e2
          · exact .inr (by rw [hext]; exact List.mem_append_left _ e1)

/-- the first loop of `propagate_node_updates`: nothing is created or removed, values are kept, and a node whose
mark changed is in the buffer -/
theorem visitStarts_marked : ∀ (ss : List Id) (r r' : Root) (buf buf' : List Id),
    visitStarts r buf ss = .ok (r', buf') →
    (∀ x ∈ buf, x ∈ buf') ∧
    ∀ j n', r'.get? j = some n' → ∃ n, r.get? j = some n ∧ n'.value = n.value ∧ (n'.mark = n.mark ∨ j ∈ buf')
  | [], r, r', buf, buf', h => by
    simp only [visitStarts, Except.ok.injEq, Prod.mk.injEq] at h
    obtain ⟨rfl, rfl⟩ := h
    exact ⟨fun _ h => h, fun j n' hn' => ⟨n', hn', rfl, .inl rfl⟩⟩
  | s :: ss, r, r', buf, buf', h => by
    simp only [visitStarts] at h
    split at h
    · cases h
    · rename_i r1 buf1 h1
      obtain ⟨sub2, main2⟩ := visitStarts_marked ss _ r' buf1 buf' h
      have hP := (dfs_post h1).1
      obtain ⟨ext, hext⟩ := hP.ext
      refine ⟨fun x hx => sub2 x (by rw [hext]; exact List.mem_append_left _ hx), fun j n' hn' => ?_⟩
      obtain ⟨n2, hn2, ev2, em2⟩ := main2 j n' hn'
      rw [markDependentsDirty_get?] at hn2
      cases hr1 : r1.get? j with
      | none => rw [hr1] at hn2; cases hn2
      | some n1 =>
        rw [hr1] at hn2; simp only [Option.map_some, Option.some.injEq] at hn2; subst hn2
        obtain ⟨n, hn, e⟩ := hP.frame.get?_bwd hr1
        have hv : n1.value = n.value := by
          have := congrArg Node.value e; simpa [Node.eraseMark] using this
        refine ⟨n, hn, ev2.trans hv, ?_⟩
        rcases em2 with e2 | e2
        · rcases (dfs_marked_aux _).1 _ _ _ _ _ h1 j n n1 hn hr1 with e1 | e1
          · exact .inl (e2.trans e1)
          · exact .inr (sub2 j e1)
        · exact .inr e2

/-! ### 4. the functions that run user code -/

/-- the value that a function takes out of node `id` (`runNodeUpdate`) or with which it creates `id`
(`createSelector`) is back when it returns, unless `id` is gone -/
theorem Back.around {r r1 r3 r' : Root} {id : Id}
    (h01 : ∀ j n1, r1.get? j = some n1 → j ≠ id → Valueless n1 → ∃ n, r.get? j = some n ∧ Valueless n)
    (h13 : Back Valueless r1 r3)
    (h' : ∀ j n', r'.get? j = some n' → Valueless n' → j ≠ id ∧ ∃ n3, r3.get? j = some n3 ∧ Valueless n3) :
    Back Valueless r r' := by
  intro j n' hn' p
  obtain ⟨hj, n3, hn3, p3⟩ := h' j n' hn' p
  obtain ⟨n1, hn1, p1⟩ := h13 j n3 hn3 p3
  exact h01 j n1 hn1 hj p1

/-- one statement per function of the mutual block, at fuel `f` -/
structure CalmAll (f : Nat) : Prop where
  body : ∀ r c b r' c', execBody f r c b = .ok (r', c') → Calm r r'
  inner : ∀ r c b r' c', execInner f r c b = .ok (r', c') → Calm r r'
  stmt : ∀ r c s r' c', execStmt f r c s = .ok (r', c') → Calm r r'
  closure : ∀ r cl r' v obs, runClosure f r cl = .ok (r', v, obs) → Calm r r'
  selector : ∀ r eq cl r' id, createSelector f r eq cl = .ok (r', id) → Calm r r'
  update : ∀ r cur r', runNodeUpdate f r cur = .ok r' → Calm r r'
  /-- the loop moreover leaves every member of its list unmarked -/
  loop : ∀ r l r', propagateLoop f r l = .ok r' →
    Calm r r' ∧ ∀ j ∈ l, ∀ n', r'.get? j = some n' → n'.mark = .none
  nodeUpdates : ∀ r l r', propagateNodeUpdates f r l = .ok r' → Calm r r'
  updates : ∀ r s r', propagateUpdates f r s = .ok r' → Calm r r'
  dnode : ∀ r id r', disposeNode f r id = .ok r' → Calm r r'
  dchildren : ∀ r id r', disposeChildren f r id = .ok r' → Calm r r'
  rest : ∀ r id r', disposeRest f r id = .ok r' → Calm r r'
  cleanups : ∀ r cls r', runCleanups f r cls = .ok r' → Calm r r'
  dlist : ∀ r cs r', disposeList f r cs = .ok r' → Calm r r'

theorem calmAll_zero : CalmAll 0 := by
  constructor <;> intros <;> simp_all [execBody, execInner, execStmt, runClosure, createSelector,
    runNodeUpdate, propagateLoop, propagateNodeUpdates, propagateUpdates, disposeNode, disposeChildren,
    disposeRest, runCleanups, disposeList]

section step
variable {f : Nat} (ih : CalmAll f)
include ih

theorem calm_body (r : Root) (c : Ctx) (b : Body) (r' : Root) (c' : Ctx)
    (hx : execBody (f + 1) r c b = .ok (r', c')) : Calm r r' := by
  cases b with
  | nil =>
    simp only [execBody, Except.ok.injEq, Prod.mk.injEq] at hx
    obtain ⟨rfl, rfl⟩ := hx; exact Calm.refl _
  | cons s rest =>
    simp only [execBody] at hx
    split at hx
    · cases hx
    · rename_i r1 c1 h1
      exact (ih.stmt _ _ _ _ _ h1).trans (ih.body _ _ _ _ _ hx)

theorem calm_inner (r : Root) (c : Ctx) (b : Body) (r' : Root) (c' : Ctx)
    (hx : execInner (f + 1) r c b = .ok (r', c')) : Calm r r' := by
  simp only [execInner] at hx
  split at hx
  · cases hx
  · rename_i r1 c1 h1
    simp only [Except.ok.injEq, Prod.mk.injEq] at hx
    obtain ⟨rfl, rfl⟩ := hx
    exact ih.body _ _ _ _ _ h1

theorem calm_closure (r : Root) (cl : Closure) (r' : Root) (v : Int) (obs : List Obs)
    (hx : runClosure (f + 1) r cl = .ok (r', v, obs)) : Calm r r' := by
  simp only [runClosure] at hx
  split at hx
  · cases hx
  · rename_i r1 c1 h1
    simp only [Except.ok.injEq, Prod.mk.injEq] at hx
    obtain ⟨rfl, _, _⟩ := hx
    exact ih.body _ _ _ _ _ h1

theorem calm_cleanups (r : Root) (cls : List Closure) (r' : Root)
    (hx : runCleanups (f + 1) r cls = .ok r') : Calm r r' := by
  cases cls with
  | nil => simp only [runCleanups, Except.ok.injEq] at hx; subst hx; exact Calm.refl _
  | cons cl cls =>
    simp only [runCleanups] at hx
    split at hx
    · cases hx
    · rename_i r1 v obs h1
      exact ((ih.closure _ _ _ _ _ h1).trans (Calm.fields ..)).trans (ih.cleanups _ _ _ hx)

theorem calm_dlist (r : Root) (cs : List Id) (r' : Root)
    (hx : disposeList (f + 1) r cs = .ok r') : Calm r r' := by
  cases cs with
  | nil => simp only [disposeList, Except.ok.injEq] at hx; subst hx; exact Calm.refl _
  | cons c cs =>
    simp only [disposeList] at hx
    split at hx
    · cases hx
    · rename_i r1 h1
      exact (ih.dnode _ _ _ h1).trans (ih.dlist _ _ _ hx)

theorem calm_dnode (r : Root) (id : Id) (r' : Root)
    (hx : disposeNode (f + 1) r id = .ok r') : Calm r r' := by
  simp only [disposeNode] at hx
  split at hx
  · cases hx
  · rename_i r1 h1
    split at hx
    · cases hx
    · rename_i r1' h1'
      simp only [Except.ok.injEq] at hx
      subst hx
      exact (((Calm.unsubscribe r id).trans (ih.dchildren _ _ _ h1)).trans (ih.rest _ _ _ h1')).trans
        (Calm.removeNode _ _)

theorem calm_rest (r : Root) (id : Id) (r' : Root)
    (hx : disposeRest (f + 1) r id = .ok r') : Calm r r' := by
  simp only [disposeRest] at hx
  split at hx
  · simp only [Except.ok.injEq] at hx; subst hx; exact Calm.refl _
  · split at hx
    · simp only [Except.ok.injEq] at hx; subst hx; exact Calm.refl _
    · split at hx
      · cases hx
      · rename_i r1 h1
        exact (ih.dchildren _ _ _ h1).trans (ih.rest _ _ _ hx)

theorem calm_dchildren (r : Root) (id : Id) (r' : Root)
    (hx : disposeChildren (f + 1) r id = .ok r') : Calm r r' := by
  simp only [disposeChildren] at hx
  split at hx
  · simp only [Except.ok.injEq] at hx; subst hx; exact Calm.refl _
  · rename_i n hn
    split at hx
    · cases hx
    · rename_i r1 h1
      split at hx
      · cases hx
      · rename_i r2 h2
        simp only [Except.ok.injEq] at hx
        subst hx
        have a := ih.cleanups _ _ _ h1
        have b := ih.dlist _ _ _ h2
        exact (((((Calm.setNode hn (by exact fun x => x) (by exact fun x => x)).trans (Calm.fields ..)).trans a).trans
          (Calm.fields ..)).trans b).trans (Calm.modify _ _ (by exact fun _ => ⟨rfl, rfl⟩))

theorem calm_updates (r : Root) (s : Id) (r' : Root)
    (hx : propagateUpdates (f + 1) r s = .ok r') : Calm r r' := by
  simp only [propagateUpdates] at hx
  split at hx
  · simp only [Except.ok.injEq] at hx; subst hx; exact Calm.of_nodes_eq rfl
  · exact ih.nodeUpdates _ _ _ hx

theorem calm_nodeUpdates (r : Root) (l : List Id) (r' : Root)
    (hx : propagateNodeUpdates (f + 1) r l = .ok r') : Calm r r' := by
  simp only [propagateNodeUpdates] at hx
  split at hx
  · cases hx
  · rename_i r1 buf h1
    obtain ⟨_, hV⟩ := visitStarts_marked l r r1 [] buf h1
    have hR : Calm r1 (resetMarks r1 l) := Calm.resetMarks _ _
    obtain ⟨hL, hL2⟩ := ih.loop _ _ _ hx
    have h1' := hR.trans hL
    refine ⟨fun j n' hn' p => ?_, fun j n' hn' p => ?_⟩
    · obtain ⟨n1, hn1, p1⟩ := h1'.marks j n' hn' p
      obtain ⟨n, hn, _, em⟩ := hV j n1 hn1
      rcases em with e | e
      · exact ⟨n, hn, marked_of_eq e p1⟩
      · exact absurd (hL2 j (List.mem_reverse.2 e) n' hn') p
    · obtain ⟨n1, hn1, p1⟩ := h1'.idle j n' hn' p
      obtain ⟨n, hn, ev, _⟩ := hV j n1 hn1
      exact ⟨n, hn, valueless_of_eq ev p1⟩

theorem calm_loop (r : Root) (l : List Id) (r' : Root)
    (hx : propagateLoop (f + 1) r l = .ok r') :
    Calm r r' ∧ ∀ j ∈ l, ∀ n', r'.get? j = some n' → n'.mark = .none := by
  cases l with
  | nil =>
    simp only [propagateLoop, Except.ok.injEq] at hx; subst hx
    exact ⟨Calm.refl _, fun j hj => by cases hj⟩
  | cons node rest =>
    simp only [propagateLoop] at hx
    split at hx
    · rename_i hnone
      obtain ⟨hc, hr⟩ := ih.loop _ _ _ hx
      refine ⟨hc, fun j hj n' hn' => ?_⟩
      rcases List.mem_cons.1 hj with rfl | hj
      · by_cases hm : n'.mark = .none
        · exact hm
        · obtain ⟨n, hn, _⟩ := hc.marks j n' hn' hm
          rw [hnone] at hn; cases hn
      · exact hr j hj n' hn'
    · rename_i n hn
      have s1 : Calm r (r.setNode node { n with mark := .none }) :=
        Calm.setNode hn (fun p => absurd rfl p) (fun x => x)
      have hnode : (r.setNode node { n with mark := .none }).get? node = some { n with mark := .none } :=
        Root.get?_setNode_self hn _
      -- whatever follows the reset is `Calm`, so `node` stays unmarked
      have key : ∀ r', Calm (r.setNode node { n with mark := .none }) r' →
          ∀ n', r'.get? node = some n' → n'.mark = .none := by
        intro r' hc n' hn'
        by_cases hm : n'.mark = .none
        · exact hm
        · obtain ⟨m, hm1, p⟩ := hc.marks node n' hn' hm
          rw [hnode] at hm1; cases hm1
          exact absurd rfl p
      split at hx
      · split at hx
        · cases hx
        · rename_i r1 h1
          have u := ih.update _ _ _ h1
          obtain ⟨hc, hr⟩ := ih.loop _ _ _ hx
          refine ⟨(s1.trans u).trans hc, fun j hj n' hn' => ?_⟩
          rcases List.mem_cons.1 hj with rfl | hj
          · exact key r' (u.trans hc) n' hn'
          · exact hr j hj n' hn'
      · obtain ⟨hc, hr⟩ := ih.loop _ _ _ hx
        refine ⟨s1.trans hc, fun j hj n' hn' => ?_⟩
        rcases List.mem_cons.1 hj with rfl | hj
        · exact key r' hc n' hn'
        · exact hr j hj n' hn'

theorem calm_selector (r : Root) (eq : EqKind) (cl : Closure) (r' : Root) (id : Id)
    (hx : createSelector (f + 1) r eq cl = .ok (r', id)) : Calm r r' := by
  simp only [createSelector] at hx
  split at hx
  · cases hx
  · rename_i r1 id1 h1
    obtain ⟨_, hb1⟩ := createNode_back h1
    split at hx
    · cases hx
    · rename_i r2 v obs h2
      have s2 : Calm r1 (createDependencyLink
          { r2 with tracker := r1.tracker, current := r1.current, trace := r2.trace ++ [.run id1 obs v] }
          (r2.tracker.getD []) id1) :=
        (((Calm.fields ..).trans (ih.closure _ _ _ _ _ h2)).trans (Calm.fields ..)).trans
          (Calm.createDependencyLink _ _ _)
      -- marks: the new node is unmarked
      have m01 : Back Marked r r1 := by
        intro j n1 hn1 p
        rcases hb1 j n1 hn1 with ⟨_, a, _⟩ | ⟨_, n, hn, a, _⟩
        · exact absurd a p
        · exact ⟨n, hn, marked_of_eq a p⟩
      have i01 : ∀ j n1, r1.get? j = some n1 → j ≠ id1 → Valueless n1 → ∃ n, r.get? j = some n ∧ Valueless n := by
        intro j n1 hn1 hj p
        rcases hb1 j n1 hn1 with ⟨e, _⟩ | ⟨_, n, hn, _, b⟩
        · exact absurd e hj
        · exact ⟨n, hn, valueless_of_eq b p⟩
      split at hx
      · rename_i hdead
        simp only [Except.ok.injEq, Prod.mk.injEq] at hx
        obtain ⟨rfl, _⟩ := hx
        refine ⟨m01.trans s2.marks, Back.around i01 s2.idle fun j n' hn' p => ⟨?_, n', hn', p⟩⟩
        rintro rfl; rw [hdead] at hn'; cases hn'
      · rename_i n hn
        simp only [Except.ok.injEq, Prod.mk.injEq] at hx
        obtain ⟨rfl, _⟩ := hx
        refine ⟨m01.trans (s2.marks.trans (Calm.setNode hn (by exact fun x => x) (by exact fun x => by cases x)).marks),
          Back.around i01 s2.idle fun j n' hn' p => ?_⟩
        rw [Root.get?_setNode] at hn'
        split at hn'
        · cases hn'; cases p
        · rename_i hc
          refine ⟨fun e => hc ⟨e, Root.lt_size_of_get? hn⟩, n', hn', p⟩

theorem calm_update (r : Root) (cur : Id) (r' : Root)
    (hx : runNodeUpdate (f + 1) r cur = .ok r') : Calm r r' := by
  simp only [runNodeUpdate] at hx
  split at hx
  · cases hx
  · rename_i n hn
    split at hx
    · cases hx
    · rename_i r1 h1
      have s1 : Calm r r1 :=
        (Calm.setNode hn (by exact fun x => x) (by exact fun x => x)).trans (Calm.unlink cur _ _ _ h1)
      split at hx
      · cases hx
      · rename_i n1 hn1
        split at hx
        · cases hx
        · cases hx
        · rename_i eq cl old _ _
          -- the state in which `cur` has been emptied
          have i12 : ∀ j nb, (r1.setNode cur { n1 with callback := none, value := none }).get? j = some nb →
              j ≠ cur → Valueless nb → ∃ m, r1.get? j = some m ∧ Valueless m := by
            intro j nb hnb hj p
            rw [Root.get?_setNode, if_neg (fun hc => hj hc.1)] at hnb
            exact ⟨nb, hnb, p⟩
          have m12 : Back Marked r1 (r1.setNode cur { n1 with callback := none, value := none }) := by
            intro j nb hnb p
            rw [Root.get?_setNode] at hnb
            split at hnb
            · rename_i hc; cases hnb; exact ⟨n1, by rw [hc.1]; exact hn1, p⟩
            · exact ⟨nb, hnb, p⟩
          split at hx
          · cases hx
          · rename_i r2 h2
            have s2 : Calm (r1.setNode cur { n1 with callback := none, value := none }) r2 :=
              ih.dchildren _ _ _ h2
            split at hx
            · rename_i hdead
              simp only [Except.ok.injEq] at hx; subst hx
              refine s1.trans ⟨m12.trans s2.marks, Back.around i12 s2.idle fun j n' hn' p => ⟨?_, n', hn', p⟩⟩
              rintro rfl; rw [hdead] at hn'; cases hn'
            · split at hx
              · cases hx
              · rename_i r3 new obs h3
                have s3 : Calm (r1.setNode cur { n1 with callback := none, value := none })
                    (createDependencyLink
                      { r3 with tracker := r2.tracker, current := r2.current, trace := r3.trace ++ [.run cur obs new] }
                      (r3.tracker.getD []) cur) :=
                  (((s2.trans (Calm.fields ..)).trans (ih.closure _ _ _ _ _ h3)).trans (Calm.fields ..)).trans
                    (Calm.createDependencyLink _ _ _)
                split at hx
                · rename_i hdead
                  simp only [Except.ok.injEq] at hx; subst hx
                  refine s1.trans ⟨m12.trans s3.marks, Back.around i12 s3.idle fun j n' hn' p => ⟨?_, n', hn', p⟩⟩
                  rintro rfl; rw [hdead] at hn'; cases hn'
                · rename_i n4 hn4
                  simp only [Except.ok.injEq] at hx
                  -- the last step puts the value back
                  have fin : ∀ (vv : Int) (r5 : Root),
                      Calm ((createDependencyLink
                        { r3 with tracker := r2.tracker, current := r2.current, trace := r3.trace ++ [.run cur obs new] }
                        (r3.tracker.getD []) cur).setNode cur
                          { n4 with callback := some (eq, cl), value := some vv, dirty := false }) r5 →
                      Calm r r5 := by
                    intro vv r5 h5
                    refine s1.trans ⟨m12.trans (s3.marks.trans ((Calm.setNode hn4 (by exact fun x => x)
                      (by exact fun x => by cases x)).marks.trans h5.marks)), Back.around i12 s3.idle fun j n' hn' p => ?_⟩
                    obtain ⟨n5, hn5, p5⟩ := h5.idle j n' hn' p
                    rw [Root.get?_setNode] at hn5
                    split at hn5
                    · cases hn5; cases p5
                    · rename_i hc
                      exact ⟨fun e => hc ⟨e, Root.lt_size_of_get? hn4⟩, n5, hn5, p5⟩
                  subst hx
                  split
                  · exact fin _ _ (Calm.markDependentsDirty _ _)
                  · exact fin _ _ (Calm.refl _)

/-- `untrack`, `component`, and the second half of `on` -/
theorem calm_untracked {r r' : Root} {c c' : Ctx} {b : Body} {prev : Option (List Id)}
    (hx : (match execInner f { r with tracker := none } c b with
      | .error e => .error e
      | .ok (r, c) => .ok ({ r with tracker := prev }, c)) = (.ok (r', c') : Except Panic (Root × Ctx))) :
    Calm r r' := by
  split at hx
  · cases hx
  · rename_i r1 c1 h1
    simp only [Except.ok.injEq, Prod.mk.injEq] at hx
    obtain ⟨rfl, rfl⟩ := hx
    exact ((Calm.fields ..).trans (ih.inner _ _ _ _ _ h1)).trans (Calm.fields ..)

theorem calm_stmt (r : Root) (c : Ctx) (s : Stmt) (r' : Root) (c' : Ctx)
    (hx : execStmt (f + 1) r c s = .ok (r', c')) : Calm r r' := by
  cases s with
  | read h =>
    simp only [execStmt] at hx
    split at hx
    · cases hx
    · split at hx
      · cases hx
      · split at hx
        · cases hx
        · simp only [Except.ok.injEq, Prod.mk.injEq] at hx
          obtain ⟨rfl, rfl⟩ := hx
          exact Calm.track _ _
  | readU h =>
    simp only [execStmt] at hx
    split at hx
    · cases hx
    · split at hx
      · cases hx
      · split at hx
        · cases hx
        · simp only [Except.ok.injEq, Prod.mk.injEq] at hx
          obtain ⟨rfl, rfl⟩ := hx
          exact Calm.refl _
  | track h =>
    simp only [execStmt] at hx
    split at hx
    · cases hx
    · split at hx
      · cases hx
      · simp only [Except.ok.injEq, Prod.mk.injEq] at hx
        obtain ⟨rfl, rfl⟩ := hx
        exact Calm.track _ _
  | ifpos h t e =>
    simp only [execStmt] at hx
    split at hx
    · cases hx
    · split at hx
      · cases hx
      · split at hx
        · cases hx
        · split at hx
          · exact (Calm.track _ _).trans (ih.inner _ _ _ _ _ hx)
          · exact (Calm.track _ _).trans (ih.inner _ _ _ _ _ hx)
  | untrack b =>
    simp only [execStmt] at hx
    exact calm_untracked ih hx
  | component b =>
    simp only [execStmt] at hx
    exact calm_untracked ih hx
  | on deps b =>
    simp only [execStmt] at hx
    split at hx
    · cases hx
    · rename_i r1 h1
      exact (Calm.trackAll c deps h1).trans (calm_untracked ih hx)
  | signal v =>
    simp only [execStmt] at hx
    split at hx
    · cases hx
    · rename_i r1 id h1
      simp only [Except.ok.injEq, Prod.mk.injEq] at hx
      obtain ⟨rfl, rfl⟩ := hx
      exact Calm.createNode h1
  | memo b =>
    simp only [execStmt] at hx
    split at hx
    · cases hx
    · rename_i r1 id h1
      simp only [Except.ok.injEq, Prod.mk.injEq] at hx
      obtain ⟨rfl, rfl⟩ := hx
      exact ih.selector _ _ _ _ _ h1
  | selector eq b =>
    simp only [execStmt] at hx
    split at hx
    · cases hx
    · rename_i r1 id h1
      simp only [Except.ok.injEq, Prod.mk.injEq] at hx
      obtain ⟨rfl, rfl⟩ := hx
      exact ih.selector _ _ _ _ _ h1
  | effect b =>
    simp only [execStmt] at hx
    split at hx
    · cases hx
    · rename_i r1 id h1
      simp only [Except.ok.injEq, Prod.mk.injEq] at hx
      obtain ⟨rfl, rfl⟩ := hx
      exact ih.selector _ _ _ _ _ h1
  | scope b =>
    simp only [execStmt] at hx
    split at hx
    · cases hx
    · rename_i r1 id h1
      split at hx
      · cases hx
      · rename_i r2 c2 h2
        simp only [Except.ok.injEq, Prod.mk.injEq] at hx
        obtain ⟨rfl, rfl⟩ := hx
        exact (((Calm.createNode h1).trans (Calm.fields ..)).trans (ih.inner _ _ _ _ _ h2)).trans (Calm.fields ..)
  | set h e =>
    simp only [execStmt] at hx
    split at hx
    · cases hx
    · split at hx
      · cases hx
      · split at hx
        · cases hx
        · rename_i r1 h1
          split at hx
          · cases hx
          · rename_i r2 h2
            simp only [Except.ok.injEq, Prod.mk.injEq] at hx
            obtain ⟨rfl, rfl⟩ := hx
            exact (Calm.setSilent h1).trans (ih.updates _ _ _ h2)
  | setSilent h e =>
    simp only [execStmt] at hx
    split at hx
    · cases hx
    · split at hx
      · cases hx
      · split at hx
        · cases hx
        · rename_i r1 h1
          simp only [Except.ok.injEq, Prod.mk.injEq] at hx
          obtain ⟨rfl, rfl⟩ := hx
          exact Calm.setSilent h1
  | cleanup b =>
    simp only [execStmt] at hx
    split at hx
    · simp only [Except.ok.injEq, Prod.mk.injEq] at hx
      obtain ⟨rfl, rfl⟩ := hx
      exact Calm.refl _
    · split at hx
      · cases hx
      · rename_i n hn
        simp only [Except.ok.injEq, Prod.mk.injEq] at hx
        obtain ⟨rfl, rfl⟩ := hx
        exact (Calm.setNode hn (by exact fun x => x) (by exact fun x => x)).trans (Calm.fields ..)
  | dispose h =>
    simp only [execStmt] at hx
    split at hx
    · cases hx
    · split at hx
      · cases hx
      · rename_i r1 h1
        simp only [Except.ok.injEq, Prod.mk.injEq] at hx
        obtain ⟨rfl, rfl⟩ := hx
        exact ih.dnode _ _ _ h1
  | disposeCur =>
    simp only [execStmt] at hx
    split at hx
    · simp only [Except.ok.injEq, Prod.mk.injEq] at hx
      obtain ⟨rfl, rfl⟩ := hx
      exact Calm.refl _
    · split at hx
      · cases hx
      · rename_i r1 h1
        simp only [Except.ok.injEq, Prod.mk.injEq] at hx
        obtain ⟨rfl, rfl⟩ := hx
        exact ih.dnode _ _ _ h1
  | batch b =>
    simp only [execStmt] at hx
    split at hx
    · cases hx
    · rename_i r1 c1 h1
      have s1 : Calm r r1 := (Calm.fields ..).trans (ih.inner _ _ _ _ _ h1)
      split at hx
      · simp only [Except.ok.injEq, Prod.mk.injEq] at hx
        obtain ⟨rfl, rfl⟩ := hx
        exact s1
      · split at hx
        · cases hx
        · rename_i r2 h2
          simp only [Except.ok.injEq, Prod.mk.injEq] at hx
          obtain ⟨rfl, rfl⟩ := hx
          exact (s1.trans (Calm.fields ..)).trans (ih.nodeUpdates _ _ _ h2)
  | provide ty e =>
    simp only [execStmt] at hx
    split at hx
    · cases hx
    · rename_i r1 h1
      simp only [Except.ok.injEq, Prod.mk.injEq] at hx
      obtain ⟨rfl, rfl⟩ := hx
      exact Calm.provideContext h1
  | use ty =>
    simp only [execStmt] at hx
    split at hx
    · cases hx
    · simp only [Except.ok.injEq, Prod.mk.injEq] at hx
      obtain ⟨rfl, rfl⟩ := hx
      exact Calm.refl _
  | runIn h b =>
    simp only [execStmt] at hx
    split at hx
    · cases hx
    · split at hx
      · cases hx
      · rename_i r1 c1 h1
        simp only [Except.ok.injEq, Prod.mk.injEq] at hx
        obtain ⟨rfl, rfl⟩ := hx
        exact ((Calm.fields ..).trans (ih.inner _ _ _ _ _ h1)).trans (Calm.fields ..)

end step

theorem calmAll : ∀ f, CalmAll f
  | 0 => calmAll_zero
  | f + 1 =>
    have ih := calmAll f
    { body := calm_body ih, inner := calm_inner ih, stmt := calm_stmt ih, closure := calm_closure ih,
      selector := calm_selector ih, update := calm_update ih, loop := calm_loop ih,
      nodeUpdates := calm_nodeUpdates ih, updates := calm_updates ih, dnode := calm_dnode ih,
      dchildren := calm_dchildren ih, rest := calm_rest ih, cleanups := calm_cleanups ih,
      dlist := calm_dlist ih }

/-! ### 5. the states between two top-level operations -/

/-- not batching, nothing marked, nothing running -/
structure AtRest (r : Root) : Prop where
  batching : r.batching = false
  marks : ∀ j n, r.get? j = some n → n.mark = .none
  idle : ∀ j n, r.get? j = some n → n.value ≠ none

theorem Calm.unmarked {r r' : Root} (h : Calm r r') (hm : ∀ j n, r.get? j = some n → n.mark = .none) :
    ∀ j n, r'.get? j = some n → n.mark = .none := by
  intro j n' hn'
  by_cases p : n'.mark = .none
  · exact p
  · obtain ⟨n, hn, q⟩ := h.marks j n' hn' p
    exact absurd (hm j n hn) q

theorem Calm.allIdle {r r' : Root} (h : Calm r r') (hi : ∀ j n, r.get? j = some n → n.value ≠ none) :
    ∀ j n, r'.get? j = some n → n.value ≠ none := by
  intro j n' hn' p
  obtain ⟨n, hn, q⟩ := h.idle j n' hn' p
  exact hi j n hn q

theorem atRest_init : AtRest Root.init := by
  refine ⟨rfl, fun j n hn => ?_, fun j n hn => ?_⟩
  · obtain ⟨_, rfl⟩ := init_get? hn; rfl
  · obtain ⟨_, rfl⟩ := init_get? hn; simp [freshNode]

/-- one top-level statement from a state at rest -/
theorem execStmt_atRest {fuel : Nat} {r r' : Root} {c c' : Ctx} {s : Stmt} (hI : RInv r)
    (hE : EnvLt r.nodes.size c.env) (hX : XInv r) (hR : AtRest r)
    (hx : execStmt fuel r c s = .ok (r', c')) : AtRest r' := by
  have hC := (calmAll fuel).stmt _ _ _ _ _ hx
  have hS := (safeAll fuel).stmt _ r c s hI hE hX
  rw [hx] at hS
  exact ⟨hS.2.batching.trans hR.batching, hC.unmarked hR.marks, hC.allIdle hR.idle⟩

/-- every state between two top-level operations is at rest -/
theorem runOps_atRest (fuel : Nat) : ∀ (ops : List Stmt) (r : Root) (env : List Handle) (r' : Root)
    (env' : List Handle), RInv r → EnvLt r.nodes.size env → XInv r → AtRest r →
    runOps fuel ops r env = .ok (r', env') → AtRest r'
  | [], r, env, r', env', _, _, _, hR, hx => by
    simp only [runOps, Except.ok.injEq, Prod.mk.injEq] at hx
    obtain ⟨rfl, rfl⟩ := hx
    exact hR
  | s :: rest, r, env, r', env', hI, hE, hX, hR, hx => by
    simp only [runOps] at hx
    split at hx
    · cases hx
    · rename_i r1 c1 h1
      obtain ⟨i1, _, e1⟩ := (presAll fuel).stmt _ r ⟨env, 0, []⟩ s r1 c1 hI hE h1
      have x1 := (safeAll fuel).stmt _ r ⟨env, 0, []⟩ s hI hE hX
      rw [h1] at x1
      exact runOps_atRest fuel rest r1 c1.env r' env' i1 e1 x1.1 (execStmt_atRest hI hE hX hR h1) hx

theorem reachable_atRest (fuel : Nat) (ops : List Stmt) (r : Root) (env : List Handle)
    (h : runOps fuel ops Root.init [] = .ok (r, env)) : AtRest r :=
  runOps_atRest fuel ops Root.init [] r env rinv_init (by intro hd hm; cases hm) xinv_init atRest_init h

end SycVerif.Reactive
