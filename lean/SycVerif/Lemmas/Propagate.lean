/-
Helper lemmas for the positive half of C01 on STATIC dependency graphs (read-only bodies):

* `execBody_readOnly` / `runClosure_readOnly` — running a read-only body under a tracker;
* `disposeChildren_leaf` — `dispose_children` of a node that owns nothing;
* `runNodeUpdate_unfold`, `finishLink_spec`, `runNodeUpdate_static` — `run_node_update` of a
  read-only computation (`RunPost`);
* `dfs_total` — `dfs` with the fuel `dfsFuel` of the model never fails on an acyclic arena;
* `FlagsRel`, `Sched`, `Evolves`, `LoopInv`, `LoopInv.skip`, `LoopInv.run`, `propagateLoop_static` —
  the invariant of the second loop of `propagate_node_updates`;
* `visitStarts_static`, `Reach`, `visitStarts_reach` — what the first loop schedules.

The property theorems are stated in `SycVerif/Props/C01Static.lean`.  Only core Lean is used.
-/
import SycVerif.Spec.Reactive
import SycVerif.Lemmas.Dfs
import SycVerif.Lemmas.Edges
namespace SycVerif.Reactive

/-! ### 1. read-only bodies -/

/-- `some h` for the statement `read h`, `none` for every other statement -/
def Stmt.readHandle? : Stmt → Option Nat
  | .read h => some h
  | _ => none

theorem Stmt.readHandle?_eq_some {s : Stmt} {h : Nat} : s.readHandle? = some h ↔ s = .read h := by
  cases s <;> simp [Stmt.readHandle?]

/-- every statement of the body is `read h`: the body is branch-free and creates nothing -/
def ReadOnly : Body → Prop
  | .nil => True
  | .cons s rest => s.readHandle?.isSome = true ∧ ReadOnly rest

def roBodyLen : Body → Nat
  | .nil => 0
  | .cons _ rest => roBodyLen rest + 1

/-- the ids read by a read-only body, in order, duplicates included -/
def bodyReads (env : List Handle) : Body → List Id
  | .nil => []
  | .cons s rest =>
    (match s.readHandle? with
     | some h => (match env[h]? with | some hd => [hd.id] | none => [])
     | none => []) ++ bodyReads env rest

/-- every handle read by the body exists in the environment, is a signal/memo handle, and is older
than `self` (a closure can only capture handles that existed before the node was created) -/
def ReadHandlesOk (self : Id) (env : List Handle) : Body → Prop
  | .nil => True
  | .cons s rest =>
    (∀ h, s.readHandle? = some h → ∃ hd, env[h]? = some hd ∧ isValueKind hd.kind = true ∧ hd.id < self) ∧
    ReadHandlesOk self env rest

/-- what a read-only body logs when run on `r` -/
def bodyObs (r : Root) (env : List Handle) : Body → List Obs
  | .nil => []
  | .cons s rest =>
    (match s.readHandle? with
     | some h => (match env[h]? with
        | some hd => (match getUntracked r hd.id with | .ok v => [Obs.read hd.id v] | .error _ => [])
        | none => [])
     | none => []) ++ bodyObs r env rest

theorem bodyReads_lt {self : Id} {env : List Handle} {b : Body} (h : ReadHandlesOk self env b) :
    ∀ id ∈ bodyReads env b, id < self := by
  fun_induction roBodyLen b with
  | case1 => simp [bodyReads]
  | case2 s rest ih =>
    obtain ⟨h1, h2⟩ := h
    intro id hid
    simp only [bodyReads, List.mem_append] at hid
    rcases hid with hid | hid
    · split at hid
      · rename_i hh he
        obtain ⟨hd, hhd, _, hlt⟩ := h1 _ he
        rw [hhd] at hid; simp at hid; subst hid; exact hlt
      · cases hid
    · exact ih h2 id hid

/-- the value of a read-only body only depends on what `getUntracked` yields for the ids it reads -/
theorem evalPureBody_congr {r r' : Root} {env : List Handle} {b : Body} (hro : ReadOnly b)
    (h : ∀ id ∈ bodyReads env b, getUntracked r' id = getUntracked r id) (acc : Int) :
    evalPureBody r' env b acc = evalPureBody r env b acc := by
  fun_induction roBodyLen b generalizing acc with
  | case1 => simp [evalPureBody]
  | case2 s rest ih =>
    obtain ⟨h1, h2⟩ := hro
    obtain ⟨hh, hs⟩ := Option.isSome_iff_exists.1 h1
    have hs' := Stmt.readHandle?_eq_some.1 hs
    subst hs'
    have hrest : ∀ id ∈ bodyReads env rest, getUntracked r' id = getUntracked r id :=
      fun id hid => h id (by simp [bodyReads, hid])
    simp only [evalPureBody, evalPureStmt]
    cases he : env[hh]? with
    | none => rfl
    | some hd =>
      have := h hd.id (by simp [bodyReads, Stmt.readHandle?, he])
      simp only [this]
      cases getUntracked r hd.id with
      | error e => rfl
      | ok v => exact ih h2 hrest _

theorem bodyObs_congr {r r' : Root} {env : List Handle} {b : Body}
    (h : ∀ id ∈ bodyReads env b, getUntracked r' id = getUntracked r id) :
    bodyObs r' env b = bodyObs r env b := by
  fun_induction roBodyLen b with
  | case1 => simp [bodyObs]
  | case2 s rest ih =>
    have hrest : ∀ id ∈ bodyReads env rest, getUntracked r' id = getUntracked r id :=
      fun id hid => h id (by simp [bodyReads, hid])
    simp only [bodyObs, ih hrest]
    congr 1
    cases hs : s.readHandle? with
    | none => rfl
    | some hh =>
      cases he : env[hh]? with
      | none => simp [he]
      | some hd =>
        have := h hd.id (by simp [bodyReads, hs, he])
        simp [he, this]

theorem getUntracked_of_value {r : Root} {id : Id} {n : Node} {v : Int} (hn : r.get? id = some n)
    (hv : n.value = some v) : getUntracked r id = .ok v := by
  simp [getUntracked, hn, hv]

/-- **`execBody` on a read-only body** under `tracker = some t`: if every read node is alive and
holds a value, the run succeeds, yields `evalPureBody`, appends the reads to the tracker, logs
`bodyObs`, and changes nothing else in the root. -/
theorem execBody_readOnly {b : Body} : ∀ {fuel : Nat} {r : Root} {c : Ctx} {t : List Id} {self : Id},
    ReadOnly b → ReadHandlesOk self c.env b → r.tracker = some t →
    (∀ id ∈ bodyReads c.env b, ∃ n v, r.get? id = some n ∧ n.value = some v) →
    roBodyLen b + 1 ≤ fuel →
    ∃ acc, evalPureBody r c.env b c.acc = some acc ∧
      execBody fuel r c b =
        .ok ({ r with tracker := some (t ++ bodyReads c.env b) },
             ⟨c.env, acc, c.obs ++ bodyObs r c.env b⟩) := by
  fun_induction roBodyLen b with
  | case1 =>
    intro fuel r c t self _ _ ht _ hf
    obtain ⟨f, rfl⟩ : ∃ f, fuel = f + 1 := ⟨fuel - 1, by omega⟩
    refine ⟨c.acc, by simp [evalPureBody], ?_⟩
    simp [execBody, bodyReads, bodyObs, ← ht]
  | case2 s rest ih =>
    intro fuel r c t self hro hok ht hal hf
    obtain ⟨h1, h2⟩ := hro
    obtain ⟨hh, hs⟩ := Option.isSome_iff_exists.1 h1
    have hs' := Stmt.readHandle?_eq_some.1 hs
    subst hs'
    obtain ⟨hk1, hk2⟩ := hok
    obtain ⟨hd, hhd, hkind, _⟩ := hk1 hh rfl
    obtain ⟨f, rfl⟩ : ∃ f, fuel = f + 2 := ⟨fuel - 2, by omega⟩
    obtain ⟨n, v, hn, hv⟩ := hal hd.id (by simp [bodyReads, Stmt.readHandle?, hhd])
    have hgu : getUntracked r hd.id = .ok v := getUntracked_of_value hn hv
    have hgu' : getUntracked (track r hd.id) hd.id = .ok v := by
      simp only [track, ht]; exact hgu
    -- the state after the first statement
    have hstep : execStmt (f + 1) r c (.read hh) =
        .ok ({ r with tracker := some (t ++ [hd.id]) },
             { c with acc := mix c.acc v, obs := c.obs ++ [.read hd.id v] }) := by
      simp only [execStmt, lookup, hhd, hkind, Bool.not_true, Bool.false_eq_true, if_false, hgu']
      simp [track, ht]
    have hal' : ∀ id ∈ bodyReads c.env rest,
        ∃ n v, ({ r with tracker := some (t ++ [hd.id]) } : Root).get? id = some n ∧ n.value = some v :=
      fun id hid => hal id (by simp [bodyReads, hid])
    obtain ⟨acc, hev, hex⟩ := ih (fuel := f + 1) (r := { r with tracker := some (t ++ [hd.id]) })
      (c := { c with acc := mix c.acc v, obs := c.obs ++ [.read hd.id v] }) (t := t ++ [hd.id])
      (self := self) h2 hk2 rfl hal' (by omega)
    refine ⟨acc, ?_, ?_⟩
    · simp only [evalPureBody, evalPureStmt, hhd, hgu]
      rw [← hev]
      exact (evalPureBody_congr (r' := { r with tracker := some (t ++ [hd.id]) }) (r := r) h2
        (fun _ _ => rfl) _).symm
    · rw [execBody, hstep]
      simp only [hex]
      have hob : bodyObs ({ r with tracker := some (t ++ [hd.id]) } : Root) c.env rest = bodyObs r c.env rest :=
        bodyObs_congr (fun _ _ => rfl)
      simp [bodyReads, bodyObs, Stmt.readHandle?, hhd, hgu, List.append_assoc, hob]

/-- **`runClosure` on a read-only body** (lemma 1) -/
theorem runClosure_readOnly {fuel : Nat} {r : Root} {cl : Closure} {t : List Id} {self : Id}
    (hro : ReadOnly cl.body) (hok : ReadHandlesOk self cl.env cl.body) (ht : r.tracker = some t)
    (hal : ∀ id ∈ bodyReads cl.env cl.body, ∃ n v, r.get? id = some n ∧ n.value = some v)
    (hf : roBodyLen cl.body + 2 ≤ fuel) :
    ∃ v, evalPureBody r cl.env cl.body 0 = some v ∧
      runClosure fuel r cl =
        .ok ({ r with tracker := some (t ++ bodyReads cl.env cl.body) }, v,
             bodyObs r cl.env cl.body) := by
  obtain ⟨f, rfl⟩ : ∃ f, fuel = f + 1 := ⟨fuel - 1, by omega⟩
  obtain ⟨acc, hev, hex⟩ := execBody_readOnly (fuel := f) (r := r) (c := ⟨cl.env, 0, []⟩) (t := t)
    (self := self) hro hok ht hal (by omega)
  exact ⟨acc, hev, by simp [runClosure, hex]⟩

/-! ### 2. the structural invariant -/

/-- the shape of one node of a program made of signals/scopes and read-only computations -/
structure NodeOk (j : Id) (n : Node) : Prop where
  /-- no node is "taken out" -/
  value : n.value.isSome = true
  /-- signals and scopes depend on nothing -/
  plain : n.callback = none → n.dependencies = []
  /-- computations: read-only body over older value handles, nothing owned, and the dependency list
  is the list of reads of the body -/
  comp : ∀ eq cl, n.callback = some (eq, cl) →
    n.children = [] ∧ n.cleanups = [] ∧ ReadOnly cl.body ∧ ReadHandlesOk j cl.env cl.body ∧
    n.dependencies = bodyReads cl.env cl.body

/-- the part of `StaticArena` that does not mention marks, dirty flags or consistency -/
structure Struct (r : Root) : Prop where
  nd : NoDangling r
  sym : EdgesSym r
  node : ∀ j n, r.get? j = some n → NodeOk j n

theorem Struct.deps_lt {r : Root} (h : Struct r) {j : Id} {n : Node} (hn : r.get? j = some n) :
    ∀ d ∈ n.dependencies, d < j := by
  intro d hd
  have hk := h.node j n hn
  cases hc : n.callback with
  | none => rw [hk.plain hc] at hd; cases hd
  | some p =>
    obtain ⟨eq, cl⟩ := p
    obtain ⟨_, _, _, hok, hdeps⟩ := hk.comp eq cl hc
    rw [hdeps] at hd; exact bodyReads_lt hok d hd

/-- `b ∈ dependents a ↔ a ∈ dependencies b` -/
theorem mem_dependents_iff {r : Root} (hs : EdgesSym r) {a b : Id} {na nb : Node}
    (ha : r.get? a = some na) (hb : r.get? b = some nb) :
    b ∈ na.dependents ↔ a ∈ nb.dependencies := by
  rw [← List.count_pos_iff, ← List.count_pos_iff, hs a b na nb ha hb]

theorem Struct.dependents_gt {r : Root} (h : Struct r) {j : Id} {n : Node} (hn : r.get? j = some n) :
    ∀ d ∈ n.dependents, j < d := by
  intro d hd
  obtain ⟨nd, hnd⟩ := Root.alive_iff.1 ((h.nd j n hn).1 d hd)
  exact h.deps_lt hnd j ((mem_dependents_iff h.sym hn hnd).1 hd)

/-- both invariants only look at the arena through `get?` -/
theorem edges_of_get?_eq {r r' : Root} (h : ∀ j, r'.get? j = r.get? j) :
    (NoDangling r → NoDangling r') ∧ (EdgesSym r → EdgesSym r') :=
  sameEdges_preserves fun j => ⟨id, fun _ => ⟨rfl, rfl⟩, by simp [h]⟩

theorem get?_eq_of_nodes {r r' : Root} (h : r'.nodes = r.nodes) (j : Id) : r'.get? j = r.get? j := by
  simp [Root.get?, h]

/-! ### 3. `disposeChildren` of a node that owns nothing -/

theorem disposeChildren_leaf {fuel : Nat} {r : Root} {id : Id} {n : Node} (hn : r.get? id = some n)
    (hc : n.children = []) (hcl : n.cleanups = []) (hf : 2 ≤ fuel) :
    ∃ r', disposeChildren fuel r id = .ok r' ∧
      (∀ j, r'.get? j = if j = id then some { n with context := [] } else r.get? j) ∧
      SameFrame r r' := by
  obtain ⟨f, rfl⟩ : ∃ f, fuel = f + 2 := ⟨fuel - 2, by omega⟩
  have hlt := Root.lt_size_of_get? hn
  refine ⟨_, by simp only [disposeChildren, hn, hc, hcl, runCleanups, disposeList]; rfl, ?_, ?_⟩
  · intro j
    have e : ∀ k, Root.get? _ k = _ :=
      get?_eq_of_nodes (r := r.setNode id { n with cleanups := [], children := [] })
        (r' := { ({ (r.setNode id { n with cleanups := [], children := [] }) with tracker := none } : Root) with
          tracker := (r.setNode id { n with cleanups := [], children := [] }).tracker }) rfl
    rw [Root.get?_modify, e, e, Root.get?_setNode, Root.get?_setNode]
    by_cases hj : j = id
    · simp [hj, hlt, hc, hcl]
    · simp [hj]
  · refine SameFrame.trans (b := r.setNode id { n with cleanups := [], children := [] })
      (SameFrame.setNode ..) ?_
    refine SameFrame.trans (b := { (r.setNode id { n with cleanups := [], children := [] }) with
      tracker := (r.setNode id { n with cleanups := [], children := [] }).tracker }) ?_ (SameFrame.modify ..)
    simp [SameFrame]

/-! ### 4. `runNodeUpdate` -/

/-- the tail of `runNodeUpdate`, after the body has run: link the tracked reads, put callback and
value back, mark the dependents dirty if the value changed -/
def finishLink (rE : Root) (deps : List Id) (cur : Id) (eq : EqKind) (cl : Closure) (old new : Int) : Root :=
  let r := createDependencyLink rE deps cur
  match r.get? cur with
  | none => r
  | some n =>
    let changed := !eqHolds eq new old
    let r := r.setNode cur { n with callback := some (eq, cl),
                                    value := some (if changed then new else old), dirty := false }
    if changed then markDependentsDirty r cur else r

/-- `runNodeUpdate`, given the results of its unlink / dispose / run phases -/
theorem runNodeUpdate_unfold {f : Nat} {r rA rC rD : Root} {cur : Id} {n nA nC : Node} {eq : EqKind}
    {cl : Closure} {old new : Int} {obs : List Obs}
    (hn : r.get? cur = some n)
    (hU : unlink cur (r.setNode cur { n with dependencies := [] }) n.dependencies = .ok rA)
    (hnA : rA.get? cur = some nA) (hcb : nA.callback = some (eq, cl)) (hv : nA.value = some old)
    (hdC : disposeChildren f (rA.setNode cur { nA with callback := none, value := none }) cur = .ok rC)
    (hnC : rC.get? cur = some nC)
    (hrun : runClosure f { rC with current := some cur, tracker := some [] } cl = .ok (rD, new, obs)) :
    runNodeUpdate (f + 1) r cur =
      .ok (finishLink { rD with tracker := rC.tracker, current := rC.current,
                                trace := rD.trace ++ [.run cur obs new] }
            (rD.tracker.getD []) cur eq cl old new) := by
  simp only [runNodeUpdate, hn, hU, hnA]
  split
  · rename_i h; rw [hcb] at h; cases h
  · rename_i h; rw [hv] at h; cases h
  · rename_i eq' cl' old' h1 h2
    rw [hcb] at h1; rw [hv] at h2; cases h1; cases h2
    -- the node is still alive after its (empty) cleanups ran: the D22 guard is not taken
    have hlive : ¬ rC.get? cur = none := by rw [hnC]; simp
    simp only [hdC, hlive, if_false, hrun, finishLink]
    split <;> rename_i hx <;> simp only [hx]

/-- put callback and value back, clear the dirty flag -/
def restored (m : Node) (eq : EqKind) (cl : Closure) (v : Int) : Node :=
  { m with callback := some (eq, cl), value := some v, dirty := false }

theorem isDependentOf_eq {r : Root} {cur : Id} {n : Node} (hn : r.get? cur = some n) (j : Id) :
    isDependentOf r cur j = n.dependents.contains j := by
  simp [isDependentOf, hn]

/-- the tail of `runNodeUpdate` on a node whose reads are all alive and different from itself -/
theorem finishLink_spec {rE : Root} {deps : List Id} {cur : Id} {nE : Node} {eq : EqKind} {cl : Closure}
    {old new : Int} (hnd : NoDangling rE) (hs : EdgesSym rE) (hnE : rE.get? cur = some nE)
    (hdE : nE.dependencies = []) (hfresh : ∀ j nj, rE.get? j = some nj → cur ∉ nj.dependents)
    (hal : ∀ d ∈ deps, rE.alive d = true) (hno : cur ∉ deps) :
    (∀ j, rE.get? j = none → (finishLink rE deps cur eq cl old new).get? j = none) ∧
    (∀ j m, rE.get? j = some m → ∃ m', (finishLink rE deps cur eq cl old new).get? j = some m' ∧
      m'.children = m.children ∧ m'.cleanups = m.cleanups ∧ m'.parent = m.parent ∧ m'.mark = m.mark ∧
      m'.context = m.context ∧
      (j ≠ cur → m'.callback = m.callback ∧ m'.value = m.value ∧ m'.dependencies = m.dependencies ∧
        m'.dirty = (m.dirty || (!eqHolds eq new old && decide (cur ∈ m.dependencies)))) ∧
      (j = cur → m'.callback = some (eq, cl) ∧ m'.value = some (if eqHolds eq new old then old else new) ∧
        m'.dependencies = deps ∧ m'.dirty = false)) ∧
    NoDangling (finishLink rE deps cur eq cl old new) ∧ EdgesSym (finishLink rE deps cur eq cl old new) ∧
    SameFrame rE (finishLink rE deps cur eq cl old new) := by
  have hL : deps.filter rE.alive = deps := List.filter_eq_self.2 hal
  obtain ⟨hgF, _, _, ndF, symF, sfF⟩ := createDependencyLink_spec hnd hs hnE hdE hfresh deps
  rw [hL] at hgF
  have hnF : (createDependencyLink rE deps cur).get? cur = some (linked deps cur cur nE) := by
    rw [hgF, hnE]; rfl
  -- G: put callback and value back
  obtain ⟨nG, hnGdef⟩ : ∃ nG : Node, nG = restored (linked deps cur cur nE) eq cl
      (if (!eqHolds eq new old) = true then new else old) := ⟨_, rfl⟩
  obtain ⟨rG, hrG⟩ : ∃ rG, rG = (createDependencyLink rE deps cur).setNode cur nG := ⟨_, rfl⟩
  have hgG : ∀ j, rG.get? j = if j = cur then some nG else (rE.get? j).map (linked deps cur j) := by
    intro j; rw [hrG, Dfs.get?_setNode_of_get? hnF, hgF]
  have hedG := setNode_sameEdges_preserves (n' := nG) hnF (by rw [hnGdef]; rfl) (by rw [hnGdef]; rfl)
  rw [← hrG] at hedG
  have ndG := hedG.1 ndF
  have symG := hedG.2 symF
  have hnG : rG.get? cur = some nG := by rw [hgG, if_pos rfl]
  have sfG : SameFrame rE rG := by rw [hrG]; exact sfF.trans (SameFrame.setNode ..)
  -- which nodes are dependents of `cur` now
  have hdep : ∀ j m, rE.get? j = some m → j ≠ cur →
      isDependentOf rG cur j = decide (cur ∈ m.dependencies) := by
    intro j m hm hj
    have hmj : rG.get? j = some (linked deps cur j m) := by rw [hgG, if_neg hj, hm]; rfl
    rw [isDependentOf_eq hnG, List.contains_eq_mem]
    have := mem_dependents_iff symG hnG hmj
    simp only [linked, hj, if_false] at this
    simp [this]
  have hdepc : isDependentOf rG cur cur = false := by
    rw [isDependentOf_eq hnG, List.contains_eq_mem]
    have := mem_dependents_iff symG hnG hnG
    have h2 : nG.dependencies = deps := by rw [hnGdef]; simp [linked, restored]
    rw [h2] at this
    simp [this, hno]
  -- the result
  have hfin : finishLink rE deps cur eq cl old new =
      if (!eqHolds eq new old) = true then markDependentsDirty rG cur else rG := by
    simp only [finishLink, hnF, hrG, hnGdef]; rfl
  rw [hfin]
  by_cases hch : eqHolds eq new old = true
  · -- unchanged
    simp only [hch, Bool.not_true, Bool.false_eq_true, if_false, Bool.false_and, Bool.or_false, if_true]
    refine ⟨fun j hj => ?_, fun j m hm => ?_, ndG, symG, sfG⟩
    · rw [hgG]; split
      · subst j; rw [hnE] at hj; cases hj
      · rw [hj]; rfl
    · by_cases hj : j = cur
      · subst hj
        rw [hnE] at hm; cases hm
        refine ⟨nG, hnG, ?_⟩
        rw [hnGdef]; simp [linked, restored, hch]
      · refine ⟨linked deps cur j m, by rw [hgG, if_neg hj, hm]; rfl, ?_⟩
        simp [linked, hj]
  · -- changed
    have hch' : eqHolds eq new old = false := by simpa using hch
    simp only [hch', Bool.not_false, if_true, Bool.true_and, Bool.false_eq_true, if_false]
    obtain ⟨_, ndM, symM, sfM⟩ := markDependentsDirty_frame rG cur
    refine ⟨fun j hj => ?_, fun j m hm => ?_, ndM ndG, symM symG, sfG.trans sfM⟩
    · rw [markDependentsDirty_get?, hgG]; split
      · subst j; rw [hnE] at hj; cases hj
      · rw [hj]; rfl
    · by_cases hj : j = cur
      · subst hj
        rw [hnE] at hm; cases hm
        refine ⟨_, by rw [markDependentsDirty_get?, hnG]; rfl, ?_⟩
        rw [hdepc, hnGdef]; simp [linked, restored, hch']
      · refine ⟨_, by rw [markDependentsDirty_get?, hgG, if_neg hj, hm]; rfl, ?_⟩
        rw [hdep j m hm hj]
        simp [linked, hj]

/-- callback and value taken out while the node runs -/
def takenOut (m : Node) : Node := { m with callback := none, value := none }

/-- what `runNodeUpdate` does to a read-only computation `cur` in a `Struct` state -/
structure RunPost (r : Root) (cur : Id) (vfinal : Int) (changed : Bool) (ev : Event) (r' : Root) : Prop where
  dead : ∀ j, r.get? j = none → r'.get? j = none
  node : ∀ j m, r.get? j = some m → ∃ m', r'.get? j = some m' ∧
      m'.callback = m.callback ∧ m'.dependencies = m.dependencies ∧ m'.children = m.children ∧
      m'.cleanups = m.cleanups ∧ m'.parent = m.parent ∧ m'.mark = m.mark ∧
      (j ≠ cur → m'.value = m.value ∧ m'.context = m.context ∧
         m'.dirty = (m.dirty || (changed && decide (cur ∈ m.dependencies)))) ∧
      (j = cur → m'.value = some vfinal ∧ m'.dirty = false)
  nd : NoDangling r'
  sym : EdgesSym r'
  frame : r'.nodes.size = r.nodes.size ∧ r'.tracker = r.tracker ∧ r'.current = r.current ∧
    r'.rootNode = r.rootNode ∧ r'.queue = r.queue ∧ r'.batching = r.batching ∧ r'.nextTag = r.nextTag
  trace : r'.trace = r.trace ++ [ev]

/-- **`runNodeUpdate` on a read-only computation** (lemma 3) -/
theorem runNodeUpdate_static {fuel : Nat} {r : Root} {cur : Id} {n : Node} {eq : EqKind} {cl : Closure}
    {old : Int} (hS : Struct r) (hn : r.get? cur = some n) (hcb : n.callback = some (eq, cl))
    (hv : n.value = some old) (hf : roBodyLen cl.body + 3 ≤ fuel) :
    ∃ new r', evalPureBody r cl.env cl.body 0 = some new ∧ runNodeUpdate fuel r cur = .ok r' ∧
      RunPost r cur (if eqHolds eq new old then old else new) (!eqHolds eq new old)
        (.run cur (bodyObs r cl.env cl.body) new) r' := by
  obtain ⟨f, rfl⟩ : ∃ f, fuel = f + 1 := ⟨fuel - 1, by omega⟩
  obtain ⟨hch, hcl, hro, hok, hdeps⟩ := (hS.node cur n hn).comp eq cl hcb
  -- A: unlink
  obtain ⟨rA, hU, hgA, hfreshA, _, ndA, symA, sfA⟩ := unlink_spec hS.nd hS.sym hn
  have hnA : rA.get? cur = some (unlinked cur cur n) := by rw [hgA, hn]; rfl
  -- B: take callback and value out
  obtain ⟨nB, hnBdef⟩ : ∃ nB, nB = takenOut (unlinked cur cur n) := ⟨_, rfl⟩
  obtain ⟨rB, hrB⟩ : ∃ rB, rB = rA.setNode cur nB := ⟨_, rfl⟩
  have hgB : ∀ j, rB.get? j = if j = cur then some nB else rA.get? j := by
    intro j; rw [hrB, Dfs.get?_setNode_of_get? hnA]
  have hnB : rB.get? cur = some nB := by rw [hgB, if_pos rfl]
  have hedB := setNode_sameEdges_preserves (n' := nB) hnA (by rw [hnBdef]; rfl) (by rw [hnBdef]; rfl)
  rw [← hrB] at hedB
  have sfB : SameFrame rA rB := by rw [hrB]; exact SameFrame.setNode ..
  -- C: disposeChildren
  obtain ⟨rC, hdC, hgC, sfC⟩ := disposeChildren_leaf (fuel := f) hnB
    (by rw [hnBdef]; simpa [unlinked, takenOut] using hch)
    (by rw [hnBdef]; simpa [unlinked, takenOut] using hcl) (by omega)
  have hedC : (NoDangling rB → NoDangling rC) ∧ (EdgesSym rB → EdgesSym rC) := by
    apply sameEdges_preserves
    intro j
    by_cases hj : j = cur
    · exact ⟨fun m => { m with context := [] }, fun _ => ⟨rfl, rfl⟩, by rw [hgC, if_pos hj, hj, hnB]; rfl⟩
    · exact ⟨id, fun _ => ⟨rfl, rfl⟩, by rw [hgC, if_neg hj]; simp⟩
  have ndC := hedC.1 (hedB.1 ndA)
  have symC := hedC.2 (hedB.2 symA)
  have sfrC : SameFrame r rC := sfA.trans (sfB.trans sfC)
  have hnC : rC.get? cur = some { nB with context := [] } := by rw [hgC, if_pos rfl]
  have hgCr : ∀ id, id ≠ cur → rC.get? id = (r.get? id).map (unlinked cur id) := by
    intro id hne; rw [hgC, if_neg hne, hgB, if_neg hne, hgA]
  -- D: run the body
  have hreads : ∀ id ∈ bodyReads cl.env cl.body,
      id ≠ cur ∧ ∃ m v, r.get? id = some m ∧ m.value = some v := by
    intro id hid
    have hlt := bodyReads_lt hok id hid
    obtain ⟨m, hm⟩ := Root.alive_iff.1 ((hS.nd cur n hn).2 id (hdeps ▸ hid))
    obtain ⟨v, hv⟩ := Option.isSome_iff_exists.1 (hS.node id m hm).value
    exact ⟨Nat.ne_of_lt hlt, m, v, hm, hv⟩
  have hgu : ∀ id ∈ bodyReads cl.env cl.body,
      getUntracked ({ rC with current := some cur, tracker := some [] } : Root) id = getUntracked r id := by
    intro id hid
    obtain ⟨hne, m, v, hm, hv⟩ := hreads id hid
    rw [getUntracked_of_value hm hv]
    refine getUntracked_of_value (n := unlinked cur id m) ?_ hv
    show rC.get? id = _
    rw [hgCr id hne, hm]; rfl
  obtain ⟨new, hev, hrun⟩ := runClosure_readOnly (fuel := f)
    (r := { rC with current := some cur, tracker := some [] }) (t := []) (self := cur) hro hok rfl
    (by
      intro id hid
      obtain ⟨hne, m, v, hm, hv⟩ := hreads id hid
      refine ⟨unlinked cur id m, v, ?_, hv⟩
      show rC.get? id = _
      rw [hgCr id hne, hm]; rfl)
    (by omega)
  rw [evalPureBody_congr hro hgu] at hev
  rw [bodyObs_congr hgu] at hrun
  have hdC' : disposeChildren f (rA.setNode cur { unlinked cur cur n with callback := none, value := none }) cur
      = .ok rC := by rw [hrB, hnBdef] at hdC; exact hdC
  have hrn := runNodeUpdate_unfold hn hU hnA (by simpa [unlinked] using hcb) (by simpa [unlinked] using hv)
    hdC' hnC hrun
  -- E/F: link and restore
  obtain ⟨rE, hrE⟩ : ∃ rE : Root, rE =
      { rC with trace := rC.trace ++ [.run cur (bodyObs r cl.env cl.body) new] } := ⟨_, rfl⟩
  have hrn' : runNodeUpdate (f + 1) r cur =
      .ok (finishLink rE (bodyReads cl.env cl.body) cur eq cl old new) := by rw [hrn, hrE]; rfl
  have hgE : ∀ j, rE.get? j = rC.get? j := fun j => by rw [hrE]; rfl
  have hedE := edges_of_get?_eq hgE
  have hnE : rE.get? cur = some { nB with context := [] } := by rw [hgE, hnC]
  obtain ⟨hdead, hnode, ndR, symR, sfR⟩ := finishLink_spec (eq := eq) (cl := cl) (old := old) (new := new)
    (hedE.1 ndC) (hedE.2 symC) hnE
    (by rw [hnBdef]; simp [unlinked, takenOut])
    (by
      intro j nj hj
      rw [hgE, hgC] at hj
      split at hj
      · cases hj; rw [hnBdef]; exact hfreshA cur (unlinked cur cur n) hnA
      · rw [hgB] at hj; split at hj
        · contradiction
        · exact hfreshA j nj hj)
    (by
      intro d hd
      obtain ⟨hne, m, v, hm, _⟩ := hreads d hd
      rw [Root.alive_iff, hgE, hgCr d hne, hm]; exact ⟨_, rfl⟩)
    (fun hc => (hreads cur hc).1 rfl)
  refine ⟨new, _, hev, hrn', ?_⟩
  obtain ⟨s1, s2, s3, s4, s5, s6, s7, s8⟩ := sfrC
  obtain ⟨t1, t2, t3, t4, t5, t6, t7, t8⟩ := sfR
  have hE : rE.nodes.size = rC.nodes.size ∧ rE.tracker = rC.tracker ∧ rE.current = rC.current ∧
      rE.rootNode = rC.rootNode ∧ rE.queue = rC.queue ∧ rE.batching = rC.batching ∧
      rE.nextTag = rC.nextTag ∧ rE.trace = rC.trace ++ [.run cur (bodyObs r cl.env cl.body) new] := by
    rw [hrE]; exact ⟨rfl, rfl, rfl, rfl, rfl, rfl, rfl, rfl⟩
  obtain ⟨e1, e2, e3, e4, e5, e6, e7, e8⟩ := hE
  refine ⟨?_, ?_, ndR, symR, ⟨by omega, t2.trans (e2.trans s2), t3.trans (e3.trans s3),
    t4.trans (e4.trans s4), t5.trans (e5.trans s5), t6.trans (e6.trans s6), t7.trans (e7.trans s7)⟩,
    by rw [t8, e8, s8]⟩
  · intro j hj
    apply hdead
    rw [hgE, hgC]
    split
    · subst j; rw [hn] at hj; cases hj
    · rw [hgB]; split
      · contradiction
      · rw [hgA, hj]; rfl
  · intro j m hm
    by_cases hj : j = cur
    · subst hj
      rw [hn] at hm; cases hm
      obtain ⟨m', hm', c1, c2, c3, c4, c5, _, c7⟩ := hnode j _ hnE
      obtain ⟨d1, d2, d3, d4⟩ := c7 rfl
      refine ⟨m', hm', ?_, ?_, ?_, ?_, ?_, ?_, fun h => absurd rfl h, fun _ => ⟨d2, d4⟩⟩
      · rw [d1, hcb]
      · rw [d3, hdeps]
      · rw [c1, hnBdef]; rfl
      · rw [c2, hnBdef]; rfl
      · rw [c3, hnBdef]; rfl
      · rw [c4, hnBdef]; rfl
    · have hmE : rE.get? j = some (unlinked cur j m) := by rw [hgE, hgCr j hj, hm]; rfl
      obtain ⟨m', hm', c1, c2, c3, c4, c5, c6, _⟩ := hnode j _ hmE
      obtain ⟨d1, d2, d3, d4⟩ := c6 hj
      refine ⟨m', hm', d1, ?_, c1, c2, c3, c4, fun _ => ⟨d2, c5, ?_⟩, fun h => absurd h hj⟩
      · rw [d3]; simp [unlinked, hj]
      · rw [d4]; simp [unlinked, hj]

/-! ### 5. `dfs` does not fail on an acyclic arena: `dfsFuel` suffices -/

/-- fuel consumed at one slot: one call of `dfs`, one call of `dfsList` per dependent plus one -/
def slotCost : Option Node → Nat
  | some nd => nd.dependents.length + 2
  | none => 2

def costs (r : Root) : List Nat := r.nodes.toList.map slotCost

/-- total cost of the slots `i, i+1, …` -/
def costFrom (r : Root) (i : Nat) : Nat := ((costs r).drop i).sum

theorem costs_getElem? (r : Root) (j : Nat) :
    (costs r)[j]? = if j < r.nodes.size then some (slotCost (r.get? j)) else none := by
  simp only [costs, List.getElem?_map, Array.getElem?_toList, Root.get?]
  by_cases h : j < r.nodes.size
  · simp [h]
  · simp [h]

theorem Frame.costs {r r' : Root} (h : Frame r r') : costs r' = costs r := by
  apply List.ext_getElem?
  intro j
  rw [costs_getElem?, costs_getElem?, h.size]
  split
  · congr 1
    have := h.node j
    cases h1 : r.get? j <;> cases h2 : r'.get? j <;> simp_all [SameButMark, slotCost]
    rename_i a b
    have := Node.dependents_of_eraseMark this; rw [this]
  · rfl

theorem Frame.costFrom {r r' : Root} (h : Frame r r') (i : Nat) : costFrom r' i = costFrom r i := by
  simp [Reactive.costFrom, h.costs]

theorem costFrom_step {r : Root} {i : Nat} {n : Node} (h : r.get? i = some n) :
    costFrom r i = n.dependents.length + 2 + costFrom r (i + 1) := by
  have hlt := Root.lt_size_of_get? h
  have hl : i < (costs r).length := by simp [costs, hlt]
  have hg := costs_getElem? r i
  rw [if_pos hlt, h, List.getElem?_eq_getElem hl] at hg
  simp only [Option.some.injEq] at hg
  simp only [costFrom]
  rw [List.drop_eq_getElem_cons hl, List.sum_cons, hg]; rfl

theorem sum_drop_le (l : List Nat) (k : Nat) : (l.drop k).sum ≤ l.sum := by
  induction l generalizing k with
  | nil => simp
  | cons a l ih =>
    cases k with
    | zero => simp
    | succ k => simp only [List.drop_succ_cons, List.sum_cons]; have := ih k; omega

theorem costFrom_mono (r : Root) {i c : Nat} (h : i ≤ c) : costFrom r c ≤ costFrom r i := by
  obtain ⟨k, rfl⟩ : ∃ k, c = i + k := ⟨c - i, by omega⟩
  simp only [costFrom]
  rw [← List.drop_drop]
  exact sum_drop_le _ _

theorem foldl_cost (f : Nat → Option Node → Nat) (h0 : ∀ n, f n none = n)
    (h1 : ∀ n nd, f n (some nd) = n + nd.dependents.length) (l : List (Option Node)) (a : Nat) :
    l.foldl f a + 2 * l.length = a + (l.map slotCost).sum := by
  induction l generalizing a with
  | nil => simp
  | cons o l ih =>
    simp only [List.foldl_cons, List.length_cons, List.map_cons, List.sum_cons]
    cases o with
    | none => have := ih a; simp only [slotCost, h0]; omega
    | some nd => have := ih (a + nd.dependents.length); simp only [slotCost, h1]; omega

theorem dfsFuel_eq (r : Root) : dfsFuel r = costFrom r 0 + 2 := by
  have key : ∀ f : Nat → Option Node → Nat, (∀ n, f n none = n) →
      (∀ n nd, f n (some nd) = n + nd.dependents.length) →
      2 * r.nodes.size + r.nodes.foldl f 0 + 2 = costFrom r 0 + 2 := by
    intro f h0 h1
    have := foldl_cost f h0 h1 r.nodes.toList 0
    simp only [Array.length_toList, Array.foldl_toList] at this
    simp only [costFrom, costs, List.drop_zero]
    omega
  unfold dfsFuel
  refine key _ ?_ ?_ <;> intros <;> rfl

/-- every subscriber edge goes to a younger node -/
def Up (r : Root) : Prop := ∀ i n, r.get? i = some n → ∀ d ∈ n.dependents, i < d

/-- no node from `k` on is on the DFS stack -/
def NoTempFrom (r : Root) (k : Nat) : Prop := ∀ j n, k ≤ j → r.get? j = some n → n.mark ≠ .temp

theorem Frame.up {r r' : Root} (h : Frame r r') (hu : Up r) : Up r' := by
  intro i n' hi d hd
  obtain ⟨n, hn, he⟩ := h.get?_bwd hi
  rw [Node.dependents_of_eraseMark he] at hd
  exact hu i n hn d hd

theorem NoTempFrom.step {r r' : Root} {k : Nat} (hf : Frame r r') (hm : MarkStep r r')
    (h : NoTempFrom r k) : NoTempFrom r' k := by
  intro j n' hk hj ht
  obtain ⟨n, hn, _⟩ := hf.get?_bwd hj
  obtain ⟨n'', hn'', hmm⟩ := hm j n hn
  rw [hj] at hn''; cases hn''
  rcases hmm with e | ⟨_, e⟩
  · exact h j n hk hn (e.symm.trans ht)
  · rw [ht] at e; cases e

theorem dfs_total_aux : ∀ fuel : Nat,
    (∀ r buf cur, Up r → NoTempFrom r cur → costFrom r cur + 1 ≤ fuel →
      ∃ r' buf', dfs fuel r buf cur = some (r', buf')) ∧
    (∀ r buf cs k, Up r → NoTempFrom r k → (∀ c ∈ cs, k ≤ c) → cs.length + 1 + costFrom r k ≤ fuel →
      ∃ r' buf', dfsList fuel r buf cs = some (r', buf')) := by
  intro fuel
  induction fuel with
  | zero => exact ⟨fun _ _ _ _ _ h => by omega, fun _ _ _ _ _ _ _ h => by omega⟩
  | succ fuel ih =>
    refine ⟨?_, ?_⟩
    · intro r buf cur hu hnt hf
      rw [dfs]
      cases hc : r.get? cur with
      | none => exact ⟨_, _, rfl⟩
      | some n =>
        simp only
        cases hm : n.mark with
        | temp => exact absurd hm (hnt cur n (Nat.le_refl _) hc)
        | perm => exact ⟨_, _, rfl⟩
        | none =>
          simp only
          have hF := Frame.setMark hc .temp
          obtain ⟨r2, buf2, h2⟩ := ih.2 (r.setNode cur { n with mark := .temp }) buf n.dependents (cur + 1)
            (hF.up hu)
            (by
              intro j nj hk hj
              have hne : j ≠ cur := by omega
              rw [Dfs.get?_setNode_of_get? hc, if_neg hne] at hj
              exact hnt j nj (by omega) hj)
            (fun c hcm => hu cur n hc c hcm)
            (by rw [hF.costFrom]; have := costFrom_step hc; omega)
          rw [h2]; exact ⟨_, _, rfl⟩
    · intro r buf cs k hu hnt hk hf
      cases cs with
      | nil => exact ⟨_, _, by rw [dfsList]⟩
      | cons c cs =>
        rw [dfsList]
        have hkc := hk c (by simp)
        obtain ⟨r1, buf1, h1⟩ := ih.1 r buf c hu
          (fun j nj hj => hnt j nj (by omega))
          (by have := costFrom_mono r hkc; simp only [List.length_cons] at hf; omega)
        rw [h1]; simp only
        obtain ⟨hP, _⟩ := dfs_post h1
        exact ih.2 r1 buf1 cs k (hP.frame.up hu) (hnt.step hP.frame hP.marks)
          (fun x hx => hk x (by simp [hx]))
          (by rw [hP.frame.costFrom]; simp only [List.length_cons] at hf; omega)

/-- **`dfs` is total on an arena whose edges go up and on which no search is in progress** -/
theorem dfs_total {r : Root} (hu : Up r) (hnt : NoTemp r) (buf : List Id) (cur : Id) :
    ∃ r' buf', dfs (dfsFuel r) r buf cur = some (r', buf') := by
  apply (dfs_total_aux _).1 r buf cur hu (fun j n _ hj => hnt j n hj)
  rw [dfsFuel_eq]
  have := costFrom_mono r (Nat.zero_le cur); omega

theorem Struct.up {r : Root} (h : Struct r) : Up r := fun _ _ hn => h.dependents_gt hn

/-! ### 6. transformers that only touch `mark` and `dirty` -/

/-- `g` changes nothing but (possibly) `mark` and `dirty` -/
def FlagsOnly (g : Node → Node) : Prop :=
  ∀ m, (g m).value = m.value ∧ (g m).callback = m.callback ∧ (g m).children = m.children ∧
    (g m).parent = m.parent ∧ (g m).dependents = m.dependents ∧ (g m).dependencies = m.dependencies ∧
    (g m).cleanups = m.cleanups ∧ (g m).context = m.context

/-- `r'` is `r` with some marks and dirty flags rewritten -/
def FlagsRel (r r' : Root) : Prop := ∀ j, ∃ g, FlagsOnly g ∧ r'.get? j = (r.get? j).map g

theorem Frame.flagsRel {r r' : Root} (h : Frame r r') : FlagsRel r r' := by
  intro j
  have := h.node j
  cases h1 : r.get? j with
  | none =>
    rw [h1, sameButMark_none_right] at this
    exact ⟨id, fun _ => ⟨rfl, rfl, rfl, rfl, rfl, rfl, rfl, rfl⟩, by rw [this]; rfl⟩
  | some a =>
    rw [h1, sameButMark_some_right] at this
    obtain ⟨b, hb, he⟩ := this
    refine ⟨fun m => { m with mark := b.mark }, fun _ => ⟨rfl, rfl, rfl, rfl, rfl, rfl, rfl, rfl⟩, ?_⟩
    rw [hb]; cases a; cases b; simp [Node.eraseMark] at he; simp [he]

theorem markDependentsDirty_flagsRel (r : Root) (cur : Id) : FlagsRel r (markDependentsDirty r cur) :=
  fun j => ⟨fun m => { m with dirty := m.dirty || isDependentOf r cur j },
    fun _ => ⟨rfl, rfl, rfl, rfl, rfl, rfl, rfl, rfl⟩, markDependentsDirty_get? r cur j⟩

theorem FlagsRel.fwd {r r' : Root} (h : FlagsRel r r') {j : Id} {m : Node} (hm : r.get? j = some m) :
    ∃ m', r'.get? j = some m' ∧ m'.value = m.value ∧ m'.callback = m.callback ∧ m'.children = m.children ∧
      m'.parent = m.parent ∧ m'.dependents = m.dependents ∧ m'.dependencies = m.dependencies ∧
      m'.cleanups = m.cleanups ∧ m'.context = m.context := by
  obtain ⟨g, hg, e⟩ := h j
  exact ⟨g m, by rw [e, hm]; rfl, hg m⟩

theorem FlagsRel.bwd {r r' : Root} (h : FlagsRel r r') {j : Id} {m' : Node} (hm : r'.get? j = some m') :
    ∃ m, r.get? j = some m ∧ m'.value = m.value ∧ m'.callback = m.callback ∧ m'.children = m.children ∧
      m'.parent = m.parent ∧ m'.dependents = m.dependents ∧ m'.dependencies = m.dependencies ∧
      m'.cleanups = m.cleanups ∧ m'.context = m.context := by
  obtain ⟨g, hg, e⟩ := h j
  rw [e, Option.map_eq_some_iff] at hm
  obtain ⟨m, hm, rfl⟩ := hm
  exact ⟨m, hm, hg m⟩

theorem FlagsRel.dead {r r' : Root} (h : FlagsRel r r') {j : Id} (hm : r.get? j = none) :
    r'.get? j = none := by
  obtain ⟨g, _, e⟩ := h j; rw [e, hm]; rfl

theorem FlagsRel.struct {r r' : Root} (h : FlagsRel r r') (hS : Struct r) : Struct r' := by
  have hp : (NoDangling r → NoDangling r') ∧ (EdgesSym r → EdgesSym r') :=
    sameEdges_preserves fun j => by
      obtain ⟨g, hg, e⟩ := h j
      exact ⟨g, fun m => ⟨(hg m).2.2.2.2.1, (hg m).2.2.2.2.2.1⟩, e⟩
  refine ⟨hp.1 hS.nd, hp.2 hS.sym, fun j m' hm' => ?_⟩
  obtain ⟨m, hm, e1, e2, e3, _, _, e6, e7, _⟩ := h.bwd hm'
  have hk := hS.node j m hm
  refine ⟨by rw [e1]; exact hk.value, fun hc => by rw [e6]; exact hk.plain (e2 ▸ hc), fun eq cl hc => ?_⟩
  rw [e3, e7, e6]; exact hk.comp eq cl (e2 ▸ hc)

theorem getUntracked_congr {r r' : Root} {id : Id}
    (h : (r'.get? id).map (·.value) = (r.get? id).map (·.value)) :
    getUntracked r' id = getUntracked r id := by
  unfold getUntracked
  cases h1 : r.get? id <;> cases h2 : r'.get? id <;> simp_all

theorem FlagsRel.getUntracked {r r' : Root} (h : FlagsRel r r') (id : Id) :
    getUntracked r' id = getUntracked r id := by
  apply getUntracked_congr
  obtain ⟨g, hg, e⟩ := h id
  rw [e]; cases r.get? id <;> simp [(hg _).1]

/-- local consistency only looks at the node itself and at the values of what its body reads -/
theorem locallyConsistent_congr {r r' : Root} {j : Id} {n n' : Node} (hn : r.get? j = some n)
    (hn' : r'.get? j = some n') (hc : n'.callback = n.callback) (hv : n'.value = n.value)
    (hb : ∀ eq cl, n.callback = some (eq, cl) → ReadOnly cl.body ∧
      ∀ id ∈ bodyReads cl.env cl.body, getUntracked r' id = getUntracked r id)
    (h : locallyConsistent r j) : locallyConsistent r' j := by
  unfold locallyConsistent at *
  rw [hn'] ; rw [hn] at h
  simp only [hc, hv]
  cases hcb : n.callback with
  | none => simp
  | some p =>
    obtain ⟨eq, cl⟩ := p
    obtain ⟨hro, hg⟩ := hb eq cl hcb
    cases hval : n.value with
    | none => simp
    | some v =>
      simp only [evalPureBody_congr hro hg]
      simpa [hcb, hval] using h

theorem FlagsRel.locallyConsistent {r r' : Root} (h : FlagsRel r r') (hS : Struct r) {j : Id}
    (hl : locallyConsistent r j) : locallyConsistent r' j := by
  cases hn : r.get? j with
  | none => unfold Reactive.locallyConsistent; rw [h.dead hn]; trivial
  | some n =>
    obtain ⟨n', hn', e1, e2, _⟩ := h.fwd hn
    exact locallyConsistent_congr hn hn' e2 e1
      (fun eq cl hc => ⟨((hS.node j n hn).comp eq cl hc).2.2.1, fun id _ => h.getUntracked id⟩) hl

/-! ### 7. the schedule -/

def depsOf (r : Root) (j : Id) : List Id :=
  match r.get? j with
  | some n => n.dependencies
  | none => []

/-- `l` lists each node once, and every node that depends on a listed node is listed later -/
def Sched (dep : Id → Id → Prop) : List Id → Prop
  | [] => True
  | i :: rest => i ∉ rest ∧ (∀ d, dep i d → d ∈ rest) ∧ Sched dep rest

theorem Sched.mono {dep dep' : Id → Id → Prop} (h : ∀ i d, dep' i d → dep i d) :
    ∀ {l : List Id}, Sched dep l → Sched dep' l
  | [], _ => trivial
  | _ :: _, ⟨h1, h2, h3⟩ => ⟨h1, fun d hd => h2 d (h _ d hd), Sched.mono h h3⟩

/-- a duplicate-free list in which every `dep`-successor of a member occurs after it is a schedule -/
theorem sched_of_before {dep : Id → Id → Prop} {L : List Id} (hN : L.Nodup)
    (h : ∀ i ∈ L, ∀ d, dep i d → Before L i d) :
    ∀ (Pn Pd : List Id), L = Pd ++ Pn → Sched dep Pn
  | [], _, _ => trivial
  | i :: rest, Pd, hL => by
    have hN' : (Pd ++ i :: rest).Nodup := hL ▸ hN
    have hN2 := List.nodup_append.1 hN'
    refine ⟨(List.nodup_cons.1 hN2.2.1).1, fun d hd => ?_, sched_of_before hN h rest (Pd ++ [i]) (by simp [hL])⟩
    obtain ⟨l1, l2, e, hi⟩ := h i (by simp [hL]) d hd
    rw [hL] at e
    have hdL : d ∈ Pd ++ i :: rest := by rw [e]; simp
    rcases List.mem_append.1 hdL with hdp | hdr
    · -- `d` before `i`: then `i` (which is in `l1`) would occur twice
      exfalso
      rcases List.append_eq_append_iff.1 e with ⟨a', rfl, e2⟩ | ⟨c', rfl, e2⟩
      · -- l1 = Pd ++ a'
        have hN3 := List.nodup_append.1 (e ▸ hN')
        exact hN3.2.2 d (by simp [hdp]) d (by simp) rfl
      · -- Pd = l1 ++ c'
        exact hN2.2.2 i (by simp [hi]) i (by simp) rfl
    · rcases List.mem_cons.1 hdr with rfl | hdr
      · exfalso
        have hN3 := List.nodup_append.1 (e ▸ hN')
        exact hN3.2.2 d hi d (by simp) rfl
      · exact hdr

/-! ### 8. what a propagation may change -/

/-- the node of a `run` event -/
def runIds : List Event → List Id
  | [] => []
  | .run id _ _ :: es => id :: runIds es
  | .cleanup _ _ :: es => runIds es

theorem runIds_append (a b : List Event) : runIds (a ++ b) = runIds a ++ runIds b := by
  induction a with
  | nil => rfl
  | cons e a ih => cases e <;> simp [runIds, ih]

/-- `r'` is reached from `r` by running the computations `runIds ran` (logging `ran`): the shape of
the graph is the same, signals keep their values, a computation that did not run keeps its value -/
structure Evolves (r r' : Root) (ran : List Event) : Prop where
  frame : r'.nodes.size = r.nodes.size ∧ r'.tracker = r.tracker ∧ r'.current = r.current ∧
    r'.rootNode = r.rootNode ∧ r'.queue = r.queue ∧ r'.batching = r.batching ∧ r'.nextTag = r.nextTag
  trace : r'.trace = r.trace ++ ran
  runs : ∀ e ∈ ran, ∃ id obs v, e = .run id obs v
  dead : ∀ j, r.get? j = none → r'.get? j = none
  node : ∀ j m, r.get? j = some m → ∃ m', r'.get? j = some m' ∧
    m'.callback = m.callback ∧ m'.dependencies = m.dependencies ∧ m'.children = m.children ∧
    m'.cleanups = m.cleanups ∧ m'.parent = m.parent ∧
    (m.callback = none → m'.value = m.value) ∧ (j ∉ runIds ran → m'.value = m.value)

theorem Evolves.trans {a b c : Root} {r1 r2 : List Event} (h1 : Evolves a b r1) (h2 : Evolves b c r2) :
    Evolves a c (r1 ++ r2) := by
  obtain ⟨a1, a2, a3, a4, a5, a6, a7⟩ := h1.frame
  obtain ⟨b1, b2, b3, b4, b5, b6, b7⟩ := h2.frame
  refine ⟨⟨b1.trans a1, b2.trans a2, b3.trans a3, b4.trans a4, b5.trans a5, b6.trans a6, b7.trans a7⟩,
    by rw [h2.trace, h1.trace, List.append_assoc], ?_, fun j hj => h2.dead j (h1.dead j hj), ?_⟩
  · intro e he
    rcases List.mem_append.1 he with he | he
    · exact h1.runs e he
    · exact h2.runs e he
  · intro j m hm
    obtain ⟨m1, hm1, c1, c2, c3, c4, c5, c6, c7⟩ := h1.node j m hm
    obtain ⟨m2, hm2, d1, d2, d3, d4, d5, d6, d7⟩ := h2.node j m1 hm1
    refine ⟨m2, hm2, d1.trans c1, d2.trans c2, d3.trans c3, d4.trans c4, d5.trans c5,
      fun hc => (d6 (c1.trans hc)).trans (c6 hc), fun hj => ?_⟩
    rw [runIds_append, List.mem_append, not_or] at hj
    exact (d7 hj.2).trans (c7 hj.1)

theorem FlagsRel.evolves {r r' : Root} (h : FlagsRel r r')
    (hf : r'.nodes.size = r.nodes.size ∧ r'.tracker = r.tracker ∧ r'.current = r.current ∧
      r'.rootNode = r.rootNode ∧ r'.queue = r.queue ∧ r'.batching = r.batching ∧ r'.nextTag = r.nextTag)
    (ht : r'.trace = r.trace) : Evolves r r' [] := by
  refine ⟨hf, by simp [ht], fun e he => (by cases he), fun j hj => h.dead hj, fun j m hm => ?_⟩
  obtain ⟨m', hm', e1, e2, e3, e4, _, e6, e7, _⟩ := h.fwd hm
  exact ⟨m', hm', e2, e6, e3, e7, e4, fun _ => e1, fun _ => e1⟩

theorem Frame.evolves {r r' : Root} (h : Frame r r') : Evolves r r' [] :=
  h.flagsRel.evolves ⟨h.size, h.tracker, h.current, h.rootNode, h.queue, h.batching, h.nextTag⟩ h.trace

theorem RunPost.evolves {r r' : Root} {cur : Id} {vf : Int} {ch : Bool} {obs : List Obs} {v : Int}
    {n : Node} (h : RunPost r cur vf ch (.run cur obs v) r') (hn : r.get? cur = some n)
    (hc : n.callback ≠ none) : Evolves r r' [.run cur obs v] := by
  refine ⟨h.frame, h.trace, fun e he => ⟨cur, obs, v, by simpa using he⟩, h.dead, fun j m hm => ?_⟩
  obtain ⟨m', hm', c1, c2, c3, c4, c5, _, c7, _⟩ := h.node j m hm
  refine ⟨m', hm', c1, c2, c3, c4, c5, fun hcn => ?_, fun hj => ?_⟩
  · have hj : j ≠ cur := by rintro rfl; rw [hn] at hm; cases hm; exact hc hcn
    exact (c7 hj).1
  · have hj : j ≠ cur := by simpa [runIds] using hj
    exact (c7 hj).1

/-! ### 9. the loop invariant -/

/-- every body is at most `B` statements long -/
def BodyBound (r : Root) (B : Nat) : Prop :=
  ∀ j n eq cl, r.get? j = some n → n.callback = some (eq, cl) → roBodyLen cl.body ≤ B

theorem Evolves.bodyBound {r r' : Root} {ran : List Event} (h : Evolves r r' ran) {B : Nat}
    (hb : BodyBound r B) : BodyBound r' B := by
  intro j n' eq cl hn' hc
  cases hm : r.get? j with
  | none => rw [h.dead j hm] at hn'; cases hn'
  | some m =>
    obtain ⟨m', hm', c1, _⟩ := h.node j m hm
    rw [hn'] at hm'; cases hm'
    exact hb j m eq cl hm (c1 ▸ hc)

/-- the state of `propagateLoop` with `Pn` still to be visited -/
structure LoopInv (r : Root) (Pn : List Id) : Prop where
  struct : Struct r
  marks : ∀ j n, r.get? j = some n → n.mark = if j ∈ Pn then .perm else .none
  pend : ∀ j ∈ Pn, r.alive j = true
  dirty : ∀ j n, r.get? j = some n → n.dirty = true → j ∈ Pn ∧ n.callback ≠ none
  cons : ∀ j n, r.get? j = some n → n.dirty = false → locallyConsistent r j
  sched : Sched (fun i d => i ∈ depsOf r d) Pn

theorem depsOf_eq {r r' : Root} (h : ∀ j m, r.get? j = some m → ∃ m', r'.get? j = some m' ∧
    m'.dependencies = m.dependencies) (hd : ∀ j, r.get? j = none → r'.get? j = none) (j : Id) :
    depsOf r' j = depsOf r j := by
  unfold depsOf
  cases hm : r.get? j with
  | none => rw [hd j hm]
  | some m => obtain ⟨m', hm', e⟩ := h j m hm; rw [hm']; exact e

/-- clearing the mark of the head of the schedule when it is not dirty -/
theorem LoopInv.skip {r : Root} {node : Id} {rest : List Id} {n : Node} (h : LoopInv r (node :: rest))
    (hn : r.get? node = some n) (hd : n.dirty = false) :
    LoopInv (r.setNode node { n with mark := .none }) rest := by
  have hF := Frame.setMark hn .none
  have hR := hF.flagsRel
  obtain ⟨hnot, _, hsch⟩ := h.sched
  have hget := Dfs.get?_setNode_of_get? hn { n with mark := .none }
  refine ⟨hR.struct h.struct, ?_, ?_, ?_, ?_, ?_⟩
  · intro j m hm
    rw [hget] at hm
    split at hm
    · subst j; cases hm; simp [hnot]
    · rename_i hj; rw [h.marks j m hm]; simp [hj]
  · intro j hj; rw [hF.alive]; exact h.pend j (by simp [hj])
  · intro j m hm hdm
    rw [hget] at hm
    split at hm
    · cases hm; simp [hd] at hdm
    · rename_i hj
      obtain ⟨h1, h2⟩ := h.dirty j m hm hdm
      exact ⟨by simpa [hj] using h1, h2⟩
  · intro j m hm hdm
    apply hR.locallyConsistent h.struct
    rw [hget] at hm
    split at hm
    · subst j; cases hm; exact h.cons _ n hn hd
    · exact h.cons j m hm hdm
  · refine Sched.mono (fun i d hd => ?_) hsch
    rwa [depsOf_eq (fun j m hm => ?_) (fun j hj => hR.dead hj)] at hd
    obtain ⟨m', hm', _, _, _, _, _, e, _⟩ := hR.fwd hm
    exact ⟨m', hm', e⟩

/-- running the (dirty) head of the schedule -/
theorem LoopInv.run {r r3 : Root} {node : Id} {rest : List Id} {n : Node} {eq : EqKind} {cl : Closure}
    {old new : Int} {obs : List Obs} (h : LoopInv r (node :: rest)) (hn : r.get? node = some n)
    (hcb : n.callback = some (eq, cl)) (hv : n.value = some old)
    (hev : evalPureBody (r.setNode node { n with mark := .none }) cl.env cl.body 0 = some new)
    (hP : RunPost (r.setNode node { n with mark := .none }) node (if eqHolds eq new old then old else new)
      (!eqHolds eq new old) (.run node obs new) r3) :
    LoopInv r3 rest := by
  have hF := Frame.setMark hn .none
  have hR := hF.flagsRel
  obtain ⟨hnot, hdeps, hsch⟩ := h.sched
  obtain ⟨r2, hr2⟩ : ∃ r2, r2 = r.setNode node { n with mark := .none } := ⟨_, rfl⟩
  rw [← hr2] at hF hR hev hP
  have hget : ∀ j, r2.get? j = if j = node then some { n with mark := .none } else r.get? j := by
    intro j; rw [hr2]; exact Dfs.get?_setNode_of_get? hn _ j
  have hn2 : r2.get? node = some { n with mark := .none } := by rw [hget, if_pos rfl]
  have hS2 := hR.struct h.struct
  have hother : ∀ j, j ≠ node → r2.get? j = r.get? j := fun j hj => by rw [hget, if_neg hj]
  -- every node of `r3` comes from a node of `r2`
  have back : ∀ j m3, r3.get? j = some m3 → ∃ m2, r2.get? j = some m2 ∧
      m3.callback = m2.callback ∧ m3.dependencies = m2.dependencies ∧ m3.children = m2.children ∧
      m3.cleanups = m2.cleanups ∧ m3.mark = m2.mark ∧
      (j ≠ node → m3.value = m2.value ∧
        m3.dirty = (m2.dirty || (!eqHolds eq new old && decide (node ∈ m2.dependencies)))) ∧
      (j = node → m3.value = some (if eqHolds eq new old then old else new) ∧ m3.dirty = false) := by
    intro j m3 hm3
    cases hm2 : r2.get? j with
    | none => rw [hP.dead j hm2] at hm3; cases hm3
    | some m2 =>
      obtain ⟨m', hm', c1, c2, c3, c4, _, c6, c7, c8⟩ := hP.node j m2 hm2
      rw [hm3] at hm'; cases hm'
      exact ⟨m2, rfl, c1, c2, c3, c4, c6, fun hj => ⟨(c7 hj).1, (c7 hj).2.2⟩, c8⟩
  -- values seen by `getUntracked`
  have hval : ∀ id, (id ≠ node ∨ eqHolds eq new old = true) → getUntracked r3 id = getUntracked r2 id := by
    intro id hid
    apply getUntracked_congr
    cases hm2 : r2.get? id with
    | none => rw [hP.dead id hm2]
    | some m2 =>
      obtain ⟨m', hm', _, _, _, _, _, _, c7, c8⟩ := hP.node id m2 hm2
      rw [hm']
      by_cases hj : id = node
      · subst hj
        rw [hn2] at hm2; cases hm2
        rcases hid with hid | hid
        · exact absurd rfl hid
        · simp [(c8 rfl).1, hid, hv]
      · simp [(c7 hj).1]
  have hdepsOf : ∀ j, depsOf r3 j = depsOf r j := by
    intro j
    rw [depsOf_eq (r := r2) (r' := r3) (fun j m hm => ?_) hP.dead,
      depsOf_eq (r := r) (r' := r2) (fun j m hm => ?_) (fun j hj => hR.dead hj)]
    · obtain ⟨m', hm', _, _, _, _, _, e, _⟩ := hR.fwd hm
      exact ⟨m', hm', e⟩
    · obtain ⟨m', hm', _, c2, _⟩ := hP.node j m hm
      exact ⟨m', hm', c2⟩
  refine ⟨⟨hP.nd, hP.sym, fun j m3 hm3 => ?_⟩, ?_, ?_, ?_, ?_, ?_⟩
  · -- NodeOk
    obtain ⟨m2, hm2, c1, c2, c3, c4, _, c7, c8⟩ := back j m3 hm3
    have hk := hS2.node j m2 hm2
    refine ⟨?_, fun hc => by rw [c2]; exact hk.plain (c1 ▸ hc), fun eq' cl' hc => ?_⟩
    · by_cases hj : j = node
      · rw [(c8 hj).1]; rfl
      · rw [(c7 hj).1]; exact hk.value
    · rw [c3, c4, c2]; exact hk.comp eq' cl' (c1 ▸ hc)
  · -- marks
    intro j m3 hm3
    obtain ⟨m2, hm2, _, _, _, _, c6, _⟩ := back j m3 hm3
    rw [c6]
    rw [hget] at hm2
    split at hm2
    · subst j; cases hm2; simp [hnot]
    · rename_i hj; rw [h.marks j m2 hm2]; simp [hj]
  · -- pending nodes are alive
    intro j hj
    obtain ⟨m, hm⟩ := Root.alive_iff.1 (h.pend j (by simp [hj]))
    obtain ⟨m2, hm2, _⟩ := hR.fwd hm
    obtain ⟨m3, hm3, _⟩ := hP.node j m2 hm2
    exact Root.alive_iff.2 ⟨m3, hm3⟩
  · -- dirty nodes are pending computations
    intro j m3 hm3 hd3
    obtain ⟨m2, hm2, c1, _, _, _, _, c7, c8⟩ := back j m3 hm3
    by_cases hj : j = node
    · rw [(c8 hj).2] at hd3; cases hd3
    · rw [hother j hj] at hm2
      rw [(c7 hj).2] at hd3
      rw [c1]
      cases hdm : m2.dirty with
      | true =>
        obtain ⟨h1, h2⟩ := h.dirty j m2 hm2 hdm
        exact ⟨by simpa [hj] using h1, h2⟩
      | false =>
        simp only [hdm, Bool.false_or, Bool.and_eq_true, decide_eq_true_eq] at hd3
        refine ⟨hdeps j (by simp [depsOf, hm2, hd3.2]), fun hc => ?_⟩
        rw [(h.struct.node j m2 hm2).plain hc] at hd3
        exact absurd hd3.2 (by simp)
  · -- clean nodes are consistent
    intro j m3 hm3 hd3
    obtain ⟨m2, hm2, c1, c2, _, _, _, c7, c8⟩ := back j m3 hm3
    by_cases hj : j = node
    · subst hj
      rw [hn2] at hm2; cases hm2
      obtain ⟨_, _, hro, hok, _⟩ := (h.struct.node j n hn).comp eq cl hcb
      have hfresh : evalPureBody r3 cl.env cl.body 0 = some new := by
        rw [evalPureBody_congr hro (fun id hid => hval id (.inl (Nat.ne_of_lt (bodyReads_lt hok id hid))))]
        exact hev
      have hc3 : m3.callback = some (eq, cl) := c1.trans hcb
      unfold locallyConsistent
      simp only [hm3, hc3, (c8 rfl).1, hfresh]
      cases hq : eqHolds eq new old <;> simp [hq]
    · rw [hother j hj] at hm2
      have hdm : m2.dirty = false := by
        rw [(c7 hj).2] at hd3; cases hx : m2.dirty <;> simp [hx] at hd3 ⊢
      have hl2 := hR.locallyConsistent h.struct (h.cons j m2 hm2 hdm)
      have hm2' : r2.get? j = some m2 := by rw [hother j hj]; exact hm2
      refine locallyConsistent_congr hm2' hm3 c1 (c7 hj).1 (fun eq' cl' hc => ?_) hl2
      obtain ⟨_, _, hro, _, hdp⟩ := (h.struct.node j m2 hm2).comp eq' cl' hc
      refine ⟨hro, fun id hid => hval id ?_⟩
      by_cases hid' : id = node
      · right
        rw [(c7 hj).2, hdm] at hd3
        rw [← hdp, hid'] at hid
        simpa [hid] using hd3
      · exact .inl hid'
  · exact Sched.mono (fun i d hd => by rwa [hdepsOf] at hd) hsch

/-- **the propagation loop** (lemma 4): from a state satisfying the loop invariant the loop
terminates without panic in a state where nothing is pending, having run each scheduled node at
most once -/
theorem propagateLoop_static : ∀ (Pn : List Id) (r : Root) (fuel B : Nat), LoopInv r Pn → BodyBound r B →
    Pn.length + B + 4 ≤ fuel →
    ∃ r' ran, propagateLoop fuel r Pn = .ok r' ∧ LoopInv r' [] ∧ Evolves r r' ran ∧
      (runIds ran).Sublist Pn
  | [], r, fuel, B, h, _, hf => by
    obtain ⟨f, rfl⟩ : ∃ f, fuel = f + 1 := ⟨fuel - 1, by omega⟩
    exact ⟨r, [], by rw [propagateLoop], h, (Frame.refl r).evolves, List.Sublist.refl _⟩
  | node :: rest, r, fuel, B, h, hB, hf => by
    obtain ⟨f, rfl⟩ : ∃ f, fuel = f + 1 := ⟨fuel - 1, by omega⟩
    simp only [List.length_cons] at hf
    obtain ⟨n, hn⟩ := Root.alive_iff.1 (h.pend node (by simp))
    have hF := Frame.setMark hn .none
    have hB2 := hF.evolves.bodyBound hB
    have hskip := h.skip hn
    have hrunI := fun eq cl old new obs r3 => h.run (r3 := r3) (eq := eq) (cl := cl) (old := old) (new := new)
      (obs := obs) hn
    have hn2 : (r.setNode node { n with mark := .none }).get? node = some { n with mark := .none } := by
      rw [Dfs.get?_setNode_of_get? hn, if_pos rfl]
    rw [propagateLoop]
    simp only [hn]
    obtain ⟨r2, hr2⟩ : ∃ r2, r2 = r.setNode node { n with mark := .none } := ⟨_, rfl⟩
    rw [← hr2] at hF hB2 hskip hrunI hn2 ⊢
    obtain ⟨n2, hn2def⟩ : ∃ n2 : Node, n2 = { n with mark := .none } := ⟨_, rfl⟩
    rw [← hn2def] at hn2
    have hc2 : n2.callback = n.callback := by rw [hn2def]
    have hv2 : n2.value = n.value := by rw [hn2def]
    clear hr2 hn2def
    cases hd : n.dirty with
    | false =>
      obtain ⟨r', ran, hrun, hI, hE, hsub⟩ := propagateLoop_static rest _ f B (hskip hd) hB2 (by omega)
      refine ⟨r', ran, by simpa using hrun, hI, ?_, hsub.cons _⟩
      simpa using hF.evolves.trans hE
    | true =>
      obtain ⟨_, hcn⟩ := h.dirty node n hn hd
      obtain ⟨⟨eq, cl⟩, hcb⟩ := Option.ne_none_iff_exists'.1 hcn
      obtain ⟨old, hv⟩ := Option.isSome_iff_exists.1 (h.struct.node node n hn).value
      have hS2 := hF.flagsRel.struct h.struct
      obtain ⟨new, r3, hev, hrn, hP⟩ := runNodeUpdate_static (fuel := f) (eq := eq) (cl := cl) (old := old)
        hS2 hn2 (hc2.trans hcb) (hv2.trans hv) (by have := hB node n eq cl hn hcb; omega)
      have hI3 := hrunI _ _ _ _ _ _ hcb hv hev hP
      have hE3 := hP.evolves hn2 (by simp [hc2, hcb])
      obtain ⟨r', ran, hrun, hI, hE, hsub⟩ := propagateLoop_static rest r3 f B hI3
        (hE3.bodyBound hB2) (by omega)
      refine ⟨r', .run node (bodyObs r2 cl.env cl.body) new :: ran, by simp [hrn, hrun], hI, ?_, ?_⟩
      · simpa using hF.evolves.trans (hE3.trans hE)
      · simpa [runIds] using hsub

/-! ### 10. scheduling: `visitStarts` for one start node -/

/-- no node carries a DFS mark -/
def Unmarked (r : Root) : Prop := ∀ j n, r.get? j = some n → n.mark = .none

/-- what the first loop of `propagate_node_updates` yields for a single start node `s` on an
unmarked static arena -/
structure Scheduled (r : Root) (s : Id) (rD : Root) (buf : List Id) : Prop where
  frame : Frame r rD
  nodup : buf.Nodup
  start : s ∈ buf
  marks : ∀ j n, rD.get? j = some n → n.mark = if j ∈ buf then .perm else .none
  alive : ∀ i ∈ buf, rD.alive i = true
  /-- closed under `dependents`, and every dependent comes *before* the node in `buf`
  (hence after it in `buf.reverse`, the order of the second loop) -/
  order : ∀ i ∈ buf, ∀ n, rD.get? i = some n → ∀ d ∈ n.dependents, Before buf d i
  /-- exactly the direct dependents of `s` are flagged -/
  dirty : ∀ j, (markDependentsDirty rD s).get? j =
    (rD.get? j).map fun m => { m with dirty := m.dirty || isDependentOf rD s j }
  /-- `dfs` pushes the start node last: it is the head of `buf.reverse` -/
  last : ∃ pre, buf = pre ++ [s]

/-- resetting the mark of the start node before the second loop changes nothing when that node is
the head of the schedule: the first step of the loop clears this mark anyway -/
theorem propagateLoop_resetMarks_head (fuel : Nat) (r : Root) (s : Id) (rest : List Id) :
    propagateLoop fuel (resetMarks r [s]) (s :: rest) = propagateLoop fuel r (s :: rest) := by
  cases fuel with
  | zero => simp [propagateLoop]
  | succ fuel =>
    simp only [resetMarks]
    cases hn : r.get? s with
    | none => rfl
    | some n =>
      simp only
      rw [propagateLoop, propagateLoop]
      simp only [Dfs.get?_setNode_of_get? hn, if_pos, hn, Dfs.setNode_setNode]

/-- the form used after `visitStarts … [s]`: the schedule `buf.reverse` starts with `s` -/
theorem Scheduled.loop_resetMarks {r : Root} {s : Id} {rD : Root} {buf : List Id}
    (h : Scheduled r s rD buf) (fuel : Nat) (R : Root) :
    propagateLoop fuel (resetMarks R [s]) buf.reverse = propagateLoop fuel R buf.reverse := by
  obtain ⟨pre, rfl⟩ := h.last
  simp only [List.reverse_append, List.reverse_cons, List.reverse_nil, List.nil_append,
    List.singleton_append]
  exact propagateLoop_resetMarks_head fuel R s _

theorem visitStarts_static {r : Root} {s : Id} (hS : Struct r) (hm : Unmarked r) (hs : r.alive s = true) :
    ∃ rD buf, visitStarts r [] [s] = .ok (markDependentsDirty rD s, buf) ∧ Scheduled r s rD buf := by
  have hNT : NoTemp r := fun i n hi ht => by rw [hm i n hi] at ht; cases ht
  have hI : DInv r [] := ⟨hNT, fun i n hi hp => by rw [hm i n hi] at hp; cases hp⟩
  obtain ⟨rD, buf, hdfs⟩ := dfs_total hS.up hNT [] s
  obtain ⟨hP, _⟩ := dfs_post hdfs
  obtain ⟨hD, hin⟩ := dfs_topological hI hdfs
  obtain ⟨hN, hB⟩ := dfs_nodup List.nodup_nil (fun i hi => by cases hi) hdfs
  have hSD := hP.frame.flagsRel.struct hS
  obtain ⟨ns, hns⟩ := Root.alive_iff.1 hs
  refine ⟨rD, buf, by simp [visitStarts, hdfs], hP.frame, hN, hin hs, ?_, ?_, ?_,
    markDependentsDirty_get? rD s, by simpa using dfs_last hdfs hns (hm s ns hns)⟩
  · intro j n hj
    by_cases hb : j ∈ buf
    · obtain ⟨n', hn', hp⟩ := hB j hb
      rw [hj] at hn'; cases hn'; simp [hb, hp]
    · simp only [hb, if_false]
      obtain ⟨n0, hn0, _⟩ := hP.frame.get?_bwd hj
      obtain ⟨n', hn', hmm⟩ := hP.marks j n0 hn0
      rw [hj] at hn'; cases hn'
      rcases hmm with e | ⟨_, e⟩
      · rw [e]; exact hm j n0 hn0
      · exact absurd (hD.2 j n hj e).1 hb
  · intro i hi
    obtain ⟨n, hn, _⟩ := hB i hi
    exact Root.alive_iff.2 ⟨n, hn⟩
  · intro i hi n hn d hd
    obtain ⟨n', hn', hp⟩ := hB i hi
    rw [hn] at hn'; cases hn'
    exact (hD.2 i n hn hp).2 d hd ((hSD.nd i n hn).1 d hd)

/-! ### 11. the buffer lists exactly the nodes reachable through `dependents` -/

/-- `i` is reachable from `s` along `dependents` edges of live nodes -/
inductive Reach (r : Root) (s : Id) : Id → Prop
  | refl : Reach r s s
  | step {i d : Id} {n : Node} : Reach r s i → r.get? i = some n → d ∈ n.dependents → Reach r s d

theorem Reach.trans {r : Root} {a b c : Id} (h1 : Reach r a b) (h2 : Reach r b c) : Reach r a c := by
  induction h2 with
  | refl => exact h1
  | step _ hn hd ih => exact .step ih hn hd

/-- the search does not change reachability (it only rewrites marks) -/
theorem Frame.reach_bwd {r r' : Root} (h : Frame r r') {s i : Id} (hr : Reach r' s i) : Reach r s i := by
  induction hr with
  | refl => exact .refl
  | step _ hn hd ih =>
    obtain ⟨n0, hn0, he⟩ := h.get?_bwd hn
    exact .step ih hn0 (Node.dependents_of_eraseMark he ▸ hd)

theorem Frame.reach_fwd {r r' : Root} (h : Frame r r') {s i : Id} (hr : Reach r s i) : Reach r' s i := by
  induction hr with
  | refl => exact .refl
  | step _ hn hd ih =>
    obtain ⟨n', hn', he⟩ := h.get?_fwd hn
    exact .step ih hn' (Node.dependents_of_eraseMark he ▸ hd)

theorem dfs_reach_aux : ∀ fuel : Nat,
    (∀ r buf cur r' buf', dfs fuel r buf cur = some (r', buf') →
      ∀ i ∈ buf', i ∈ buf ∨ Reach r cur i) ∧
    (∀ r buf cs r' buf', dfsList fuel r buf cs = some (r', buf') →
      ∀ i ∈ buf', i ∈ buf ∨ ∃ c ∈ cs, Reach r c i) := by
  intro fuel
  induction fuel with
  | zero => exact ⟨fun _ _ _ _ _ h => by simp [dfs] at h, fun _ _ _ _ _ h => by simp [dfsList] at h⟩
  | succ fuel ih =>
    refine ⟨?_, ?_⟩
    · intro r buf cur r' buf' h i hi
      rw [dfs] at h
      split at h
      · cases h; exact .inl hi
      · rename_i n hc
        split at h
        · cases h
        · cases h; exact .inl hi
        · simp only at h
          split at h
          · cases h
          · rename_i r2 buf2 hl
            cases h
            have hF := Frame.setMark hc .temp
            rcases List.mem_append.1 hi with hi | hi
            · rcases ih.2 _ _ _ _ _ hl i hi with hb | ⟨c, hcm, hr⟩
              · exact .inl hb
              · exact .inr ((Reach.step .refl hc hcm).trans (hF.reach_bwd hr))
            · simp only [List.mem_singleton] at hi; subst hi; exact .inr .refl
    · intro r buf cs r' buf' h i hi
      cases cs with
      | nil => rw [dfsList] at h; cases h; exact .inl hi
      | cons c cs =>
        rw [dfsList] at h
        split at h
        · cases h
        · rename_i r1 buf1 h1
          rcases ih.2 _ _ _ _ _ h i hi with hb | ⟨c', hcm, hr⟩
          · rcases ih.1 _ _ _ _ _ h1 i hb with hb | hr
            · exact .inl hb
            · exact .inr ⟨c, by simp, hr⟩
          · exact .inr ⟨c', by simp [hcm], (dfs_post h1).1.frame.reach_bwd hr⟩

/-- everything `dfs` pushes is reachable from the start node -/
theorem dfs_reach {fuel : Nat} {r : Root} {cur : Id} {r' : Root} {buf' : List Id}
    (h : dfs fuel r [] cur = some (r', buf')) : ∀ i ∈ buf', Reach r cur i := by
  intro i hi
  rcases (dfs_reach_aux fuel).1 _ _ _ _ _ h i hi with hb | hr
  · cases hb
  · exact hr

/-- **the schedule is exactly the set of nodes reachable from the written signal** -/
theorem visitStarts_reach {r : Root} {s : Id} (hS : Struct r) (hm : Unmarked r) (hs : r.alive s = true) :
    ∃ rD buf, visitStarts r [] [s] = .ok (markDependentsDirty rD s, buf) ∧ Scheduled r s rD buf ∧
      ∀ i, i ∈ buf ↔ Reach r s i := by
  have hNT : NoTemp r := fun i n hi ht => by rw [hm i n hi] at ht; cases ht
  obtain ⟨rD, buf, hvis, hSch⟩ := visitStarts_static hS hm hs
  -- recover the `dfs` call from `visitStarts`
  obtain ⟨rD', buf', hdfs'⟩ := dfs_total hS.up hNT [] s
  have hvis' : visitStarts r [] [s] = .ok (markDependentsDirty rD' s, buf') := by simp [visitStarts, hdfs']
  rw [hvis] at hvis'
  simp only [Except.ok.injEq, Prod.mk.injEq] at hvis'
  obtain ⟨_, hb⟩ := hvis'
  subst hb
  refine ⟨rD, buf, hvis, hSch, fun i => ⟨dfs_reach hdfs' i, fun hr => ?_⟩⟩
  have hr' := hSch.frame.reach_fwd hr
  clear hr
  induction hr' with
  | refl => exact hSch.start
  | step _ hn hd ih => exact (hSch.order _ ih _ hn _ hd).mem_left

/-! ### 12. bounds -/

theorem length_le_size_of_nodup {r : Root} {l : List Id} (hN : l.Nodup) (h : ∀ i ∈ l, r.alive i = true) :
    l.length ≤ r.nodes.size := by
  have := hN.length_le_of_subset (l₂ := List.range r.nodes.size) (fun i hi => by
    obtain ⟨n, hn⟩ := Root.alive_iff.1 (h i hi)
    exact List.mem_range.2 (Root.lt_size_of_get? hn))
  simpa using this

theorem exists_bodyBound (r : Root) : ∃ B, BodyBound r B := by
  have key : ∀ k, ∃ B, ∀ j n eq cl, j < k → r.get? j = some n → n.callback = some (eq, cl) →
      roBodyLen cl.body ≤ B := by
    intro k
    induction k with
    | zero => exact ⟨0, fun _ _ _ _ h => absurd h (Nat.not_lt_zero _)⟩
    | succ k ih =>
      obtain ⟨B, hB⟩ := ih
      have hb : ∃ b, ∀ n eq cl, r.get? k = some n → n.callback = some (eq, cl) → roBodyLen cl.body ≤ b := by
        cases hk : r.get? k with
        | none => exact ⟨0, fun _ _ _ h => by cases h⟩
        | some n =>
          cases hc : n.callback with
          | none => exact ⟨0, fun n' _ _ h h' => by cases h; rw [hc] at h'; cases h'⟩
          | some p =>
            exact ⟨roBodyLen p.2.body, fun n' eq cl h h' => by
              cases h; rw [hc] at h'; cases h'; exact Nat.le_refl _⟩
      obtain ⟨b, hb⟩ := hb
      refine ⟨max B b, fun j n eq cl hj hn hc => ?_⟩
      by_cases hjk : j = k
      · subst hjk; have := hb n eq cl hn hc; omega
      · have := hB j n eq cl (Nat.lt_of_le_of_ne (Nat.le_of_lt_succ hj) hjk) hn hc; omega
  obtain ⟨B, hB⟩ := key r.nodes.size
  exact ⟨B, fun j n eq cl hn hc => hB j n eq cl (Root.lt_size_of_get? hn) hn hc⟩

end SycVerif.Reactive
