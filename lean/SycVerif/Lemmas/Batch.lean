import SycVerif.Model.Reactive
import SycVerif.Lemmas.Edges
/-!
C10 (batching), clause (i): definitions and the fuel induction.

* `WriteOnly b`   — the closure bodies the property speaks about: writes, reads and nested batches
* `writesOf env b` — the signals written by `set` statements of `b`, in program order
* `Quiet r r'`    — "nothing reacted between `r` and `r'`"
* `batch_quiet`   — the mutual induction on fuel over `execBody` / `execInner` / `execStmt`
-/
namespace SycVerif.Reactive

/-! ### 1. the bodies of the property -/

mutual
/-- statements allowed in the closure passed to `batch`: `set`, `set_silent`, `get`,
`get_untracked` and `batch` of such a closure (any nesting depth) -/
inductive WriteOnlyStmt : Stmt → Prop
  | set (h : Nat) (e : Ex) : WriteOnlyStmt (.set h e)
  | setSilent (h : Nat) (e : Ex) : WriteOnlyStmt (.setSilent h e)
  | readU (h : Nat) : WriteOnlyStmt (.readU h)
  | read (h : Nat) : WriteOnlyStmt (.read h)
  | batch {b : Body} : WriteOnly b → WriteOnlyStmt (.batch b)
inductive WriteOnly : Body → Prop
  | nil : WriteOnly .nil
  | cons {s : Stmt} {rest : Body} : WriteOnlyStmt s → WriteOnly rest → WriteOnly (.cons s rest)
end

mutual
/-- ids written by the `set` statements of a body (nested batches included), in program order;
`env` resolves the handles (a `WriteOnly` body creates nothing, so `env` is the same throughout) -/
def writesOf (env : List Handle) : Body → List Id
  | .nil => []
  | .cons s rest => writesOfStmt env s ++ writesOf env rest
def writesOfStmt (env : List Handle) : Stmt → List Id
  | .set h _ => match env[h]? with
    | some hd => [hd.id]
    | none => []
  | .batch b => writesOf env b
  | _ => []
end

/-- the environment is well-typed for writes: a handle of kind `signal` does not name a node that
has a callback (a memo, selector or effect). Holds of every environment the interpreter builds
(`signal` handles come from `createNode`, ids are never reused); needed because `set` only checks
the *handle's* kind. -/
def SignalHandlesOK (r : Root) (env : List Handle) : Prop :=
  ∀ hd ∈ env, hd.kind = .signal → ∀ n, r.get? hd.id = some n → n.callback = none

/-- executable form of `SignalHandlesOK` -/
def signalHandlesOK (r : Root) (env : List Handle) : Bool :=
  env.all fun hd => hd.kind != .signal ||
    match r.get? hd.id with
    | some n => n.callback.isNone
    | none => true

theorem SignalHandlesOK.of_check {r : Root} {env : List Handle} (h : signalHandlesOK r env = true) :
    SignalHandlesOK r env := by
  intro hd hm hk n hn
  simp only [signalHandlesOK, List.all_eq_true] at h
  have := h hd hm
  simp [hk, hn] at this
  exact this

/-! ### 2. "nothing reacted" -/

/-- `n'` is `n` except possibly for the stored value, and even that only if `n` has no callback
(i.e. is a signal or scope, not a memo/selector/effect) -/
structure NodeQuiet (n n' : Node) : Prop where
  callback : n'.callback = n.callback
  children : n'.children = n.children
  parent : n'.parent = n.parent
  dependents : n'.dependents = n.dependents
  dependencies : n'.dependencies = n.dependencies
  cleanups : n'.cleanups = n.cleanups
  context : n'.context = n.context
  dirty : n'.dirty = n.dirty
  mark : n'.mark = n.mark
  hasValue : n'.value.isSome = n.value.isSome
  derived : n.callback ≠ none → n'.value = n.value

/-- nothing reacted between `r` and `r'`: no body and no cleanup ran, no node was created or
removed, the subscription graph, ownership tree, dirty flags and marks are the same, every node with
a callback is unchanged; only values of callback-free nodes may differ and the tracker may have
grown. (The queue is not constrained.) -/
structure Quiet (r r' : Root) : Prop where
  trace : r'.trace = r.trace
  size : r'.nodes.size = r.nodes.size
  current : r'.current = r.current
  rootNode : r'.rootNode = r.rootNode
  batching : r'.batching = r.batching
  nextTag : r'.nextTag = r.nextTag
  tracker : ∃ ext, r'.tracker = r.tracker.map (· ++ ext)
  dead : ∀ j, r.get? j = none → r'.get? j = none
  node : ∀ j n, r.get? j = some n → ∃ n', r'.get? j = some n' ∧ NodeQuiet n n'

theorem NodeQuiet.refl (n : Node) : NodeQuiet n n := by constructor <;> simp

theorem NodeQuiet.trans {a b c : Node} (h1 : NodeQuiet a b) (h2 : NodeQuiet b c) : NodeQuiet a c where
  callback := h2.callback.trans h1.callback
  children := h2.children.trans h1.children
  parent := h2.parent.trans h1.parent
  dependents := h2.dependents.trans h1.dependents
  dependencies := h2.dependencies.trans h1.dependencies
  cleanups := h2.cleanups.trans h1.cleanups
  context := h2.context.trans h1.context
  dirty := h2.dirty.trans h1.dirty
  mark := h2.mark.trans h1.mark
  hasValue := h2.hasValue.trans h1.hasValue
  derived := fun hc => (h2.derived (by rw [h1.callback]; exact hc)).trans (h1.derived hc)

/-- a node with a callback is literally unchanged -/
theorem NodeQuiet.eq_of_callback {n n' : Node} (h : NodeQuiet n n') (hc : n.callback ≠ none) : n' = n := by
  obtain ⟨a1, a2, a3, a4, a5, a6, a7, a8, a9, _, a11⟩ := h
  have := a11 hc
  cases n; cases n'; simp_all

theorem Quiet.refl (r : Root) : Quiet r r where
  trace := rfl
  size := rfl
  current := rfl
  rootNode := rfl
  batching := rfl
  nextTag := rfl
  tracker := ⟨[], by cases r.tracker <;> simp⟩
  dead := fun _ h => h
  node := fun _ n h => ⟨n, h, NodeQuiet.refl n⟩

theorem Quiet.trans {a b c : Root} (h1 : Quiet a b) (h2 : Quiet b c) : Quiet a c where
  trace := h2.trace.trans h1.trace
  size := h2.size.trans h1.size
  current := h2.current.trans h1.current
  rootNode := h2.rootNode.trans h1.rootNode
  batching := h2.batching.trans h1.batching
  nextTag := h2.nextTag.trans h1.nextTag
  tracker := by
    obtain ⟨e1, h1⟩ := h1.tracker
    obtain ⟨e2, h2⟩ := h2.tracker
    refine ⟨e1 ++ e2, ?_⟩
    rw [h2, h1]; cases a.tracker <;> simp
  dead := fun j h => h2.dead j (h1.dead j h)
  node := fun j n h => by
    obtain ⟨n1, g1, q1⟩ := h1.node j n h
    obtain ⟨n2, g2, q2⟩ := h2.node j n1 g1
    exact ⟨n2, g2, q1.trans q2⟩

/-- every node with a callback (memo, selector, effect) is literally unchanged -/
theorem Quiet.derived_unchanged {r r' : Root} (h : Quiet r r') {j : Id} {n : Node}
    (hn : r.get? j = some n) (hc : n.callback ≠ none) : r'.get? j = r.get? j := by
  obtain ⟨n', g, q⟩ := h.node j n hn
  rw [g, hn, q.eq_of_callback hc]

/-- without a tracker installed, none appears -/
theorem Quiet.tracker_none {r r' : Root} (h : Quiet r r') (ht : r.tracker = none) : r'.tracker = none := by
  obtain ⟨e, he⟩ := h.tracker
  rw [he, ht]; rfl

/-- two roots with the same arena and the same frame (queue aside) are `Quiet` -/
theorem Quiet.of_nodes_eq {r r' : Root} (hn : r'.nodes = r.nodes) (h1 : r'.trace = r.trace)
    (h2 : r'.current = r.current) (h3 : r'.rootNode = r.rootNode) (h4 : r'.batching = r.batching)
    (h5 : r'.nextTag = r.nextTag) (h6 : r'.tracker = r.tracker) : Quiet r r' where
  trace := h1
  size := by rw [hn]
  current := h2
  rootNode := h3
  batching := h4
  nextTag := h5
  tracker := ⟨[], by rw [h6]; cases r.tracker <;> simp⟩
  dead := fun j h => by simpa [Root.get?, hn] using h
  node := fun j n h => ⟨n, by simpa [Root.get?, hn] using h, NodeQuiet.refl n⟩

theorem Quiet.setQueue (r : Root) (q : List Id) : Quiet r { r with queue := q } :=
  Quiet.of_nodes_eq rfl rfl rfl rfl rfl rfl rfl

/-- `Quiet` does not look at the queue, and the batching flag may be switched on both sides -/
theorem Quiet.reframe {a b : Root} (h : Quiet a b) (f : Bool) (q1 q2 : List Id) :
    Quiet { a with batching := f, queue := q1 } { b with batching := f, queue := q2 } where
  trace := h.trace
  size := h.size
  current := h.current
  rootNode := h.rootNode
  batching := rfl
  nextTag := h.nextTag
  tracker := h.tracker
  dead := h.dead
  node := h.node

theorem Quiet.track (r : Root) (id : Id) : Quiet r (track r id) := by
  unfold Reactive.track
  split
  · rename_i deps hd
    exact { Quiet.refl r with tracker := ⟨[id], by simp [hd]⟩ }
  · exact Quiet.refl r

/-- overwriting the value of a callback-free node that has a value -/
theorem Quiet.setValue {r : Root} {id : Id} {n : Node} (hn : r.get? id = some n)
    (hc : n.callback = none) (hv : n.value.isSome = true) (v : Int) :
    Quiet r (r.setNode id { n with value := some v }) := by
  obtain ⟨s1, s2, s3, s4, _, s6, s7, s8⟩ := SameFrame.setNode r id { n with value := some v }
  refine ⟨s8, s1, s3, s4, s6, s7, ⟨[], by rw [s2]; cases r.tracker <;> simp⟩, ?_, ?_⟩
  · intro j hj
    rw [Root.get?_setNode]
    split
    · rename_i h; rw [h.1, hn] at hj; cases hj
    · exact hj
  · intro j m hj
    rw [Root.get?_setNode]
    split
    · rename_i h; rw [h.1, hn] at hj; cases hj
      refine ⟨_, rfl, ?_⟩
      constructor <;> simp [hv, hc]
    · exact ⟨m, hj, NodeQuiet.refl m⟩

theorem SignalHandlesOK.quiet {r r' : Root} {env : List Handle} (h : SignalHandlesOK r env)
    (q : Quiet r r') : SignalHandlesOK r' env := by
  intro hd hm hk n' hn'
  cases hg : r.get? hd.id with
  | none => rw [q.dead _ hg] at hn'; cases hn'
  | some n =>
    obtain ⟨m, g, nq⟩ := q.node _ n hg
    rw [g] at hn'; cases hn'
    rw [nq.callback]; exact h hd hm hk n hg

theorem SignalHandlesOK.batching {r : Root} {env : List Handle} (f : Bool) :
    SignalHandlesOK { r with batching := f } env ↔ SignalHandlesOK r env := Iff.rfl

/-! ### 3. the single steps -/

theorem lookup_ok {c : Ctx} {h : Nat} {hd : Handle} (hl : lookup c h = .ok hd) :
    c.env[h]? = some hd ∧ hd ∈ c.env := by
  unfold lookup at hl
  split at hl
  · rename_i x hx
    cases hl
    exact ⟨hx, List.mem_of_getElem? hx⟩
  · cases hl

theorem setSilent_ok {r r1 : Root} {id : Id} {v : Int} (hs : setSilent r id v = .ok r1) :
    ∃ n, r.get? id = some n ∧ n.value.isSome = true ∧ r1 = r.setNode id { n with value := some v } := by
  unfold setSilent at hs
  split at hs
  · cases hs
  · rename_i n hn
    split at hs
    · cases hs
    · rename_i x hx
      cases hs
      exact ⟨n, hn, by simp [hx], rfl⟩

theorem propagateUpdates_batching {fuel : Nat} {r r' : Root} {id : Id} (hb : r.batching = true)
    (h : propagateUpdates fuel r id = .ok r') : r' = { r with queue := r.queue ++ [id] } := by
  cases fuel with
  | zero => simp [propagateUpdates] at h
  | succ f =>
    rw [propagateUpdates, if_pos hb] at h
    cases h; rfl

theorem batching_true_eq {r : Root} (hb : r.batching = true) : { r with batching := true } = r := by
  cases r; simp_all

/-! ### 4. the induction -/

/-- what a `WriteOnly` run from `(r, c)` to `(r', c')` guarantees, `q` being the list of writes -/
def BatchPost (r : Root) (c : Ctx) (r' : Root) (c' : Ctx) (q : List Id) : Prop :=
  Quiet r r' ∧ c'.env = c.env ∧ r'.queue = r.queue ++ q

theorem batch_quiet (fuel : Nat) :
    ∀ (r : Root) (c : Ctx) (r' : Root) (c' : Ctx), r.batching = true → SignalHandlesOK r c.env →
      (∀ b, WriteOnly b → execBody fuel r c b = .ok (r', c') → BatchPost r c r' c' (writesOf c.env b)) ∧
      (∀ b, WriteOnly b → execInner fuel r c b = .ok (r', c') → BatchPost r c r' c' (writesOf c.env b)) ∧
      (∀ s, WriteOnlyStmt s → execStmt fuel r c s = .ok (r', c') →
        BatchPost r c r' c' (writesOfStmt c.env s)) := by
  induction fuel with
  | zero => intro r c r' c' _ _; simp [execBody, execInner, execStmt]
  | succ f ih =>
    intro r c r' c' hb hs
    refine ⟨?_, ?_, ?_⟩
    · intro b hw hx
      cases hw with
      | nil =>
        simp only [execBody, Except.ok.injEq, Prod.mk.injEq] at hx
        obtain ⟨rfl, rfl⟩ := hx
        exact ⟨Quiet.refl _, rfl, by simp [writesOf]⟩
      | cons hw1 hw2 =>
        simp only [execBody] at hx
        split at hx
        · cases hx
        · rename_i r1 c1 h1
          obtain ⟨q1, e1, u1⟩ := (ih r c r1 c1 hb hs).2.2 _ hw1 h1
          have hb1 : r1.batching = true := q1.batching.trans hb
          have hs1 : SignalHandlesOK r1 c1.env := by rw [e1]; exact hs.quiet q1
          obtain ⟨q2, e2, u2⟩ := (ih r1 c1 r' c' hb1 hs1).1 _ hw2 hx
          refine ⟨q1.trans q2, e2.trans e1, ?_⟩
          rw [u2, u1, e1]; simp [writesOf]
    · intro b hw hx
      simp only [execInner] at hx
      split at hx
      · cases hx
      · rename_i r1 c1 h1
        simp only [Except.ok.injEq, Prod.mk.injEq] at hx
        obtain ⟨rfl, rfl⟩ := hx
        obtain ⟨q1, _, u1⟩ := (ih r c r1 c1 hb hs).1 _ hw h1
        exact ⟨q1, rfl, u1⟩
    · intro s hw hx
      cases hw with
      | set h e =>
        simp only [execStmt] at hx
        split at hx
        · cases hx
        · rename_i hd hl
          split at hx
          · cases hx
          · rename_i hk
            split at hx
            · cases hx
            · rename_i r1 h1
              split at hx
              · cases hx
              · rename_i r2 h2
                simp only [Except.ok.injEq, Prod.mk.injEq] at hx
                obtain ⟨rfl, rfl⟩ := hx
                obtain ⟨hg, hm⟩ := lookup_ok hl
                obtain ⟨n, hn, hv, rfl⟩ := setSilent_ok h1
                have hk' : hd.kind = .signal := by simpa using hk
                have q1 := Quiet.setValue hn (hs hd hm hk' n hn) hv (evalEx e c.acc)
                have hb1 := q1.batching.trans hb
                have := propagateUpdates_batching hb1 h2
                subst this
                have hq := (SameFrame.setNode r hd.id { n with value := some (evalEx e c.acc) }).2.2.2.2.1
                exact ⟨q1.trans (Quiet.setQueue _ _), rfl, by simp [writesOfStmt, hg, hq]⟩
      | setSilent h e =>
        simp only [execStmt] at hx
        split at hx
        · cases hx
        · rename_i hd hl
          split at hx
          · cases hx
          · rename_i hk
            split at hx
            · cases hx
            · rename_i r1 h1
              simp only [Except.ok.injEq, Prod.mk.injEq] at hx
              obtain ⟨rfl, rfl⟩ := hx
              obtain ⟨hg, hm⟩ := lookup_ok hl
              obtain ⟨n, hn, hv, rfl⟩ := setSilent_ok h1
              have hk' : hd.kind = .signal := by simpa using hk
              have q1 := Quiet.setValue hn (hs hd hm hk' n hn) hv (evalEx e c.acc)
              refine ⟨q1, rfl, ?_⟩
              have := (SameFrame.setNode r hd.id { n with value := some (evalEx e c.acc) }).2.2.2.2.1
              simp [writesOfStmt, this]
      | readU h =>
        simp only [execStmt] at hx
        split at hx
        · cases hx
        · split at hx
          · cases hx
          · split at hx
            · cases hx
            · simp only [Except.ok.injEq, Prod.mk.injEq] at hx
              obtain ⟨rfl, rfl⟩ := hx
              exact ⟨Quiet.refl _, rfl, by simp [writesOfStmt]⟩
      | read h =>
        simp only [execStmt] at hx
        split at hx
        · cases hx
        · split at hx
          · cases hx
          · split at hx
            · cases hx
            · simp only [Except.ok.injEq, Prod.mk.injEq] at hx
              obtain ⟨rfl, rfl⟩ := hx
              refine ⟨Quiet.track _ _, rfl, ?_⟩
              simp only [writesOfStmt, List.append_nil]
              unfold Reactive.track; split <;> rfl
      | batch hwb =>
        rename_i b
        simp only [execStmt, batching_true_eq hb, hb, if_true] at hx
        split at hx
        · cases hx
        · rename_i r1 c1 h1
          simp only [Except.ok.injEq, Prod.mk.injEq] at hx
          obtain ⟨rfl, rfl⟩ := hx
          have := (ih r c r1 c1 hb hs).2.1 _ hwb h1
          simpa [writesOfStmt] using this

/-! ### 5. propagation from no start node -/

theorem propagateNodeUpdates_nil_ok (fuel : Nat) (r : Root) :
    propagateNodeUpdates (fuel + 2) r [] = .ok r := by
  simp [propagateNodeUpdates, visitStarts, propagateLoop, resetMarks]

theorem propagateNodeUpdates_nil {fuel : Nat} {r r' : Root}
    (h : propagateNodeUpdates fuel r [] = .ok r') : r' = r := by
  match fuel with
  | 0 => simp [propagateNodeUpdates] at h
  | 1 => simp [propagateNodeUpdates, visitStarts, propagateLoop, resetMarks] at h
  | f + 2 => rw [propagateNodeUpdates_nil_ok] at h; cases h; rfl

end SycVerif.Reactive
