/-
Helper lemmas for C08 (SSR → reference HTML reader round trip): character level (escape/decode,
scanners), attribute lists, tokenizer steps, text-run merging, tree builder.
-/
import SycVerif.Spec.HtmlNorm
namespace SycVerif.Html
open SycVerif.Ssr

/-! ### literals -/
theorem lit_amp : lit "&amp;" = [38, 97, 109, 112, 59] := by decide
theorem lit_lt : lit "&lt;" = [38, 108, 116, 59] := by decide
theorem lit_gt : lit "&gt;" = [38, 103, 116, 59] := by decide
theorem lit_quot : lit "&quot;" = [38, 113, 117, 111, 116, 59] := by decide
theorem lit_eqq : lit "=\"" = [61, 34] := by decide
theorem lit_close : lit "</" = [60, 47] := by decide
theorem lit_cmt_t : lit "<!--t-->" = [60, 33, 45, 45, 116, 45, 45, 62] := by decide
theorem lit_cmt_end : lit "<!-->" = [60, 33, 45, 45, 62] := by decide
theorem lit_marker : lit "<!--/-->" = [60, 33, 45, 45, 47, 45, 45, 62] := by decide
theorem lit_hk : lit " data-hk=\"" = 32 :: (lit "data-hk" ++ [61, 34]) := by decide
theorem lit_t : lit "t" = [116] := by decide
theorem lit_slash : lit "/" = [47] := by decide

/-! ### escaping and decoding -/

theorem decode_cons_ne (c : Nat) (r : Str) (h : c ≠ 38) : decode (c :: r) = c :: decode r := by
  conv => lhs; unfold decode
  split <;> simp_all

theorem escTextChar_other (c : Nat) (h1 : c ≠ 38) (h2 : c ≠ 60) (h3 : c ≠ 62) : escTextChar c = [c] := by
  simp [escTextChar, h1, h2, h3]

theorem decode_escTextChar (c : Nat) (r : Str) : decode (escTextChar c ++ r) = c :: decode r := by
  by_cases h1 : c = 38
  · subst h1; simp [escTextChar, lit_amp, decode]
  by_cases h2 : c = 60
  · subst h2; simp [escTextChar, lit_lt, decode]
  by_cases h3 : c = 62
  · subst h3; simp [escTextChar, lit_gt, decode]
  · rw [escTextChar_other c h1 h2 h3]; exact decode_cons_ne c r h1

theorem decode_escAttrChar (c : Nat) (r : Str) : decode (escAttrChar c ++ r) = c :: decode r := by
  by_cases h : c = 34
  · subst h; simp [escAttrChar, lit_quot, decode]
  · simp only [escAttrChar, h, ↓reduceIte]; exact decode_escTextChar c r

theorem escapeText_cons (c : Nat) (s : Str) : escapeText (c :: s) = escTextChar c ++ escapeText s := by
  simp [escapeText]
theorem escapeAttr_cons (c : Nat) (s : Str) : escapeAttr (c :: s) = escAttrChar c ++ escapeAttr s := by
  simp [escapeAttr]
theorem escapeText_append (a b : Str) : escapeText (a ++ b) = escapeText a ++ escapeText b := by
  simp [escapeText]

/-- decoding an escaped text gives the text back, whatever follows -/
theorem decode_escapeText_append (s r : Str) : decode (escapeText s ++ r) = s ++ decode r := by
  induction s with
  | nil => simp [escapeText]
  | cons c s ih => rw [escapeText_cons, List.append_assoc, decode_escTextChar, ih]; rfl

theorem decode_escapeAttr_append (s r : Str) : decode (escapeAttr s ++ r) = s ++ decode r := by
  induction s with
  | nil => simp [escapeAttr]
  | cons c s ih => rw [escapeAttr_cons, List.append_assoc, decode_escAttrChar, ih]; rfl

theorem decode_nil : decode [] = [] := by simp [decode]

theorem decode_escapeText (s : Str) : decode (escapeText s) = s := by
  simpa [decode_nil] using decode_escapeText_append s []
theorem decode_escapeAttr (s : Str) : decode (escapeAttr s) = s := by
  simpa [decode_nil] using decode_escapeAttr_append s []

theorem decode_no_amp (s : Str) (h : 38 ∉ s) : decode s = s := by
  induction s with
  | nil => exact decode_nil
  | cons c s ih =>
    simp only [List.mem_cons, not_or] at h
    rw [decode_cons_ne c s (fun e => h.1 e.symm), ih h.2]

theorem escTextChar_no_lt (c : Nat) : 60 ∉ escTextChar c := by
  by_cases h1 : c = 38
  · subst h1; simp [escTextChar, lit_amp]
  by_cases h2 : c = 60
  · subst h2; simp [escTextChar, lit_lt]
  by_cases h3 : c = 62
  · subst h3; simp [escTextChar, lit_gt]
  · rw [escTextChar_other c h1 h2 h3]; simp; omega

theorem escapeText_no_lt (s : Str) : 60 ∉ escapeText s := by
  simp only [escapeText, List.mem_flatMap, not_exists, not_and]
  exact fun c _ => escTextChar_no_lt c

theorem escAttrChar_no_quote (c : Nat) : 34 ∉ escAttrChar c := by
  by_cases h0 : c = 34
  · subst h0; simp [escAttrChar, lit_quot]
  simp only [escAttrChar, h0, ↓reduceIte]
  by_cases h1 : c = 38
  · subst h1; simp [escTextChar, lit_amp]
  by_cases h2 : c = 60
  · subst h2; simp [escTextChar, lit_lt]
  by_cases h3 : c = 62
  · subst h3; simp [escTextChar, lit_gt]
  · rw [escTextChar_other c h1 h2 h3]; simp; omega

theorem escapeAttr_no_quote (s : Str) : 34 ∉ escapeAttr s := by
  simp only [escapeAttr, List.mem_flatMap, not_exists, not_and]
  exact fun c _ => escAttrChar_no_quote c

theorem escTextChar_ne_nil (c : Nat) : escTextChar c ≠ [] := by
  simp only [escTextChar, lit_amp, lit_lt, lit_gt]
  split
  · simp
  · split
    · simp
    · split <;> simp

theorem escapeText_ne_nil (s : Str) (h : s ≠ []) : escapeText s ≠ [] := by
  cases s with
  | nil => exact absurd rfl h
  | cons c s =>
    rw [escapeText_cons]
    have := escTextChar_ne_nil c
    simp [this]

/-! ### scanners -/

theorem takeText_append (t r : Str) (ht : 60 ∉ t) : takeText (t ++ 60 :: r) = (t, 60 :: r) := by
  induction t with
  | nil => simp [takeText]
  | cons c t ih =>
    simp only [List.mem_cons, not_or] at ht
    have hc : c ≠ 60 := fun h => ht.1 h.symm
    simp only [List.cons_append]
    unfold takeText
    split <;> simp_all

theorem takeText_all (t : Str) (ht : 60 ∉ t) : takeText t = (t, []) := by
  induction t with
  | nil => simp [takeText]
  | cons c t ih =>
    simp only [List.mem_cons, not_or] at ht
    have hc : c ≠ 60 := fun h => ht.1 h.symm
    unfold takeText
    split <;> simp_all

theorem takeQuoted_append (v r : Str) (hv : 34 ∉ v) : takeQuoted (v ++ 34 :: r) = some (v, r) := by
  induction v with
  | nil => simp [takeQuoted]
  | cons c v ih =>
    simp only [List.mem_cons, not_or] at hv
    have hc : c ≠ 34 := fun h => hv.1 h.symm
    simp only [List.cons_append]
    unfold takeQuoted
    split <;> simp_all

def isDelim (c : Nat) : Bool := isSpace c || c == 47 || c == 62 || c == 61

theorem takeName_append (n : Str) (d : Nat) (r : Str) (hn : ∀ c ∈ n, isDelim c = false)
    (hd : isDelim d = true) : takeName (n ++ d :: r) = (n, d :: r) := by
  induction n with
  | nil => simp only [List.nil_append, takeName]; simp only [isDelim] at hd; simp [hd]
  | cons c n ih =>
    have hc := hn c (by simp)
    simp only [isDelim] at hc
    simp only [List.cons_append, takeName, hc]
    rw [ih (fun x hx => hn x (by simp [hx]))]
    simp

theorem nameChar_not_delim (c : Nat) (h : nameChar c = true) : isDelim c = false := by
  simp only [nameChar, isAlpha, isDelim, isSpace, Bool.or_eq_true, Bool.and_eq_true, decide_eq_true_eq,
    beq_iff_eq, Bool.or_eq_false_iff, beq_eq_false_iff_ne] at *
  omega

theorem isAlpha_nameChar (c : Nat) (h : isAlpha c = true) : nameChar c = true := by
  simp [nameChar, h]

theorem isAlpha_not_space (c : Nat) (h : isAlpha c = true) : isSpace c = false := by
  simp only [isAlpha, isSpace, Bool.or_eq_true, Bool.and_eq_true, decide_eq_true_eq,
    beq_iff_eq, Bool.or_eq_false_iff, beq_eq_false_iff_ne] at *
  omega

theorem validName_cons (n : Str) (h : validName n = true) :
    ∃ c cs, n = c :: cs ∧ isAlpha c = true ∧ ∀ x ∈ c :: cs, nameChar x = true := by
  cases n with
  | nil => simp [validName] at h
  | cons c cs =>
    simp only [validName, Bool.and_eq_true, List.all_eq_true] at h
    refine ⟨c, cs, rfl, h.1, ?_⟩
    intro x hx
    rcases List.mem_cons.1 hx with rfl | hx
    · exact isAlpha_nameChar _ h.1
    · exact h.2 x hx

theorem skipSpace_cons_of_not_space (c : Nat) (r : Str) (h : isSpace c = false) :
    skipSpace (c :: r) = c :: r := by
  simp [skipSpace, h]

theorem skipSpace_idem (s : Str) : skipSpace (skipSpace s) = skipSpace s := by
  induction s with
  | nil => simp [skipSpace]
  | cons c s ih =>
    by_cases h : isSpace c = true
    · simp [skipSpace, h, ih]
    · simp [skipSpace, h]

theorem takeAttrs_skipSpace (fuel : Nat) (s : Str) : takeAttrs fuel (skipSpace s) = takeAttrs fuel s := by
  cases fuel with
  | zero => simp [takeAttrs]
  | succ f => rw [takeAttrs, takeAttrs, skipSpace_idem]


/-! ### attribute lists -/

/-- a rendered attribute: ` name="raw"` or ` name` -/
inductive APiece where
  | valued (n raw : Str)
  | bare (n : Str)

def APiece.render : APiece → Str
  | .valued n raw => 32 :: (n ++ 61 :: 34 :: (raw ++ [34]))
  | .bare n => 32 :: n

def APiece.tok : APiece → Str × Str
  | .valued n raw => (n, decode raw)
  | .bare n => (n, [])

def APiece.ok : APiece → Prop
  | .valued n raw => validName n = true ∧ 34 ∉ raw
  | .bare n => validName n = true

theorem isAlpha_ne (c : Nat) (h : isAlpha c = true) : c ≠ 62 ∧ c ≠ 47 ∧ c ≠ 61 ∧ c ≠ 33 ∧ c ≠ 60 := by
  simp only [isAlpha, Bool.or_eq_true, Bool.and_eq_true, decide_eq_true_eq] at h
  omega

theorem takeAttrs_valued (fuel : Nat) (n raw R : Str) (hn : validName n = true) (hraw : 34 ∉ raw) :
    takeAttrs (fuel + 1) (32 :: (n ++ 61 :: 34 :: (raw ++ 34 :: R)))
      = match takeAttrs fuel R with
        | none => none
        | some (as, r5) => some ((n, decode raw) :: as, r5) := by
  obtain ⟨c, cs, rfl, hc, hall⟩ := validName_cons n hn
  have hs : skipSpace (32 :: (c :: cs ++ 61 :: 34 :: (raw ++ 34 :: R))) = c :: cs ++ 61 :: 34 :: (raw ++ 34 :: R) := by
    rw [skipSpace]; simp only [isSpace, beq_self_eq_true, Bool.true_or, ↓reduceIte]
    exact skipSpace_cons_of_not_space _ _ (isAlpha_not_space c hc)
  have hne := isAlpha_ne c hc
  rw [takeAttrs, hs]
  split
  · simp at *
  · simp at *; omega
  · simp at *; omega
  · rw [takeName_append (c :: cs) 61 _ (fun x hx => nameChar_not_delim x (hall x hx)) (by decide)]
    simp only [List.isEmpty_cons, Bool.false_eq_true, ↓reduceIte]
    simp only [skipSpace_cons_of_not_space 61 _ (by decide : isSpace 61 = false),
      skipSpace_cons_of_not_space 34 _ (by decide : isSpace 34 = false), takeQuoted_append raw R hraw]
    cases takeAttrs fuel R <;> rfl

theorem takeAttrs_bare (fuel : Nat) (n R : Str) (hn : validName n = true)
    (hR : ∃ d r, R = d :: r ∧ isDelim d = true) (hR2 : ∀ r2, skipSpace R ≠ 61 :: r2) :
    takeAttrs (fuel + 1) (32 :: (n ++ R))
      = match takeAttrs fuel R with
        | none => none
        | some (as, r5) => some ((n, []) :: as, r5) := by
  obtain ⟨c, cs, rfl, hc, hall⟩ := validName_cons n hn
  obtain ⟨d, r, rfl, hd⟩ := hR
  have hs : skipSpace (32 :: (c :: cs ++ d :: r)) = c :: cs ++ d :: r := by
    rw [skipSpace]; simp only [isSpace, beq_self_eq_true, Bool.true_or, ↓reduceIte]
    exact skipSpace_cons_of_not_space _ _ (isAlpha_not_space c hc)
  have hne := isAlpha_ne c hc
  rw [takeAttrs, hs]
  split
  · simp at *
  · simp at *; omega
  · simp at *; omega
  · rw [takeName_append (c :: cs) d _ (fun x hx => nameChar_not_delim x (hall x hx)) hd]
    simp only [List.isEmpty_cons, Bool.false_eq_true, ↓reduceIte]
    rw [← takeAttrs_skipSpace fuel (d :: r)]
    generalize skipSpace (d :: r) = q at hR2
    rcases q with _ | ⟨x, xs⟩
    · rfl
    · by_cases hx : x = 61
      · subst hx; exact absurd rfl (hR2 xs)
      · split <;> simp_all

/-- the rest of an attribute list starts with a delimiter and not (after spaces) with `=` -/
theorem attrs_tail (ps : List APiece) (rest : Str) (hok : ∀ a ∈ ps, a.ok) :
    (∃ d r, ps.flatMap APiece.render ++ 62 :: rest = d :: r ∧ isDelim d = true)
    ∧ ∀ r2, skipSpace (ps.flatMap APiece.render ++ 62 :: rest) ≠ 61 :: r2 := by
  cases ps with
  | nil =>
    refine ⟨⟨62, rest, by simp, by decide⟩, ?_⟩
    intro r2; simp [skipSpace, isSpace]
  | cons a ps =>
    have hn : ∃ n X, (a :: ps).flatMap APiece.render ++ 62 :: rest = 32 :: (n ++ X) ∧ validName n = true := by
      cases a with
      | valued n raw =>
        exact ⟨n, 61 :: 34 :: (raw ++ [34]) ++ (ps.flatMap APiece.render ++ 62 :: rest), by simp [APiece.render],
          (show validName n = true ∧ 34 ∉ raw from hok (.valued n raw) (by simp)).1⟩
      | bare n =>
        exact ⟨n, ps.flatMap APiece.render ++ 62 :: rest, by simp [APiece.render],
          (show validName n = true from hok (.bare n) (by simp))⟩
    obtain ⟨n, X, hX, hv⟩ := hn
    obtain ⟨c, cs, rfl, hc, -⟩ := validName_cons n hv
    rw [hX]
    refine ⟨⟨32, _, rfl, by decide⟩, ?_⟩
    intro r2
    rw [skipSpace]; simp only [isSpace, beq_self_eq_true, Bool.true_or, ↓reduceIte]
    rw [List.cons_append, skipSpace_cons_of_not_space _ _ (isAlpha_not_space c hc)]
    have := isAlpha_ne c hc
    simp; omega

theorem takeAttrs_pieces (ps : List APiece) (hok : ∀ a ∈ ps, a.ok) (fuel : Nat) (rest : Str) :
    takeAttrs (fuel + ps.length + 1) (ps.flatMap APiece.render ++ 62 :: rest)
      = some (ps.map APiece.tok, rest) := by
  induction ps with
  | nil => simp [takeAttrs, skipSpace, isSpace]
  | cons a ps ih =>
    have ih' := ih (fun x hx => hok x (by simp [hx]))
    have ha := hok a (by simp)
    cases a with
    | valued n raw =>
      replace ha : validName n = true ∧ 34 ∉ raw := ha
      have e : (APiece.valued n raw :: ps).flatMap APiece.render ++ 62 :: rest
          = 32 :: (n ++ 61 :: 34 :: (raw ++ 34 :: (ps.flatMap APiece.render ++ 62 :: rest))) := by
        simp [APiece.render]
      rw [e, List.length_cons, ← Nat.add_assoc, takeAttrs_valued _ _ _ _ ha.1 ha.2, ih']
      simp [APiece.tok]
    | bare n =>
      replace ha : validName n = true := ha
      have e : (APiece.bare n :: ps).flatMap APiece.render ++ 62 :: rest
          = 32 :: (n ++ (ps.flatMap APiece.render ++ 62 :: rest)) := by
        simp [APiece.render]
      have t := attrs_tail ps rest (fun x hx => hok x (by simp [hx]))
      rw [e, List.length_cons, ← Nat.add_assoc, takeAttrs_bare _ _ _ ha t.1 t.2, ih']
      simp [APiece.tok]

end SycVerif.Html
