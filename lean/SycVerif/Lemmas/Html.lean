/-
Helper lemmas for C08 (SSR → reference HTML reader round trip): character level (escape/decode,
scanners), attribute lists, tokenizer steps, text-run merging, tree builder.
-/
import SycVerif.Spec.HtmlNorm
namespace SycVerif.Html
open SycVerif.Ssr

/-! ### literals -/
theorem lit_amp : lit "&amp;" = [38, 97, 109, 112, 59] := by decide
theorem lit_lt : lit "&lt;" = [38, 108, 116, 59] := by decide
theorem lit_gt : lit "&gt;" = [38, 103, 116, 59] := by decide
theorem lit_quot : lit "&quot;" = [38, 113, 117, 111, 116, 59] := by decide
theorem lit_eqq : lit "=\"" = [61, 34] := by decide
theorem lit_close : lit "</" = [60, 47] := by decide
theorem lit_cmt_t : lit "<!--t-->" = [60, 33, 45, 45, 116, 45, 45, 62] := by decide
theorem lit_cmt_end : lit "<!-->" = [60, 33, 45, 45, 62] := by decide
theorem lit_marker : lit "<!--/-->" = [60, 33, 45, 45, 47, 45, 45, 62] := by decide
theorem lit_hk : lit " data-hk=\"" = 32 :: (lit "data-hk" ++ [61, 34]) := by decide
theorem lit_t : lit "t" = [116] := by decide
theorem lit_slash : lit "/" = [47] := by decide

/-! ### escaping and decoding -/

theorem decode_cons_ne (c : Nat) (r : Str) (h : c ≠ 38) : decode (c :: r) = c :: decode r := by
  conv => lhs; unfold decode
  split <;> simp_all

theorem escTextChar_other (c : Nat) (h1 : c ≠ 38) (h2 : c ≠ 60) (h3 : c ≠ 62) : escTextChar c = [c] := by
  simp [escTextChar, h1, h2, h3]

theorem decode_escTextChar (c : Nat) (r : Str) : decode (escTextChar c ++ r) = c :: decode r := by
  by_cases h1 : c = 38
  · subst h1; simp [escTextChar, lit_amp, decode]
  by_cases h2 : c = 60
  · subst h2; simp [escTextChar, lit_lt, decode]
  by_cases h3 : c = 62
  · subst h3; simp [escTextChar, lit_gt, decode]
  · rw [escTextChar_other c h1 h2 h3]; exact decode_cons_ne c r h1

theorem decode_escAttrChar (c : Nat) (r : Str) : decode (escAttrChar c ++ r) = c :: decode r := by
  by_cases h : c = 34
  · subst h; simp [escAttrChar, lit_quot, decode]
  · simp only [escAttrChar, h, ↓reduceIte]; exact decode_escTextChar c r

theorem escapeText_cons (c : Nat) (s : Str) : escapeText (c :: s) = escTextChar c ++ escapeText s := by
  simp [escapeText]
theorem escapeAttr_cons (c : Nat) (s : Str) : escapeAttr (c :: s) = escAttrChar c ++ escapeAttr s := by
  simp [escapeAttr]
theorem escapeText_append (a b : Str) : escapeText (a ++ b) = escapeText a ++ escapeText b := by
  simp [escapeText]

/-- decoding an escaped text gives the text back, whatever follows -/
theorem decode_escapeText_append (s r : Str) : decode (escapeText s ++ r) = s ++ decode r := by
  induction s with
  | nil => simp [escapeText]
  | cons c s ih => rw [escapeText_cons, List.append_assoc, decode_escTextChar, ih]; rfl

theorem decode_escapeAttr_append (s r : Str) : decode (escapeAttr s ++ r) = s ++ decode r := by
  induction s with
  | nil => simp [escapeAttr]
  | cons c s ih => rw [escapeAttr_cons, List.append_assoc, decode_escAttrChar, ih]; rfl

theorem decode_nil : decode [] = [] := by simp [decode]

theorem decode_escapeText (s : Str) : decode (escapeText s) = s := by
  simpa [decode_nil] using decode_escapeText_append s []
theorem decode_escapeAttr (s : Str) : decode (escapeAttr s) = s := by
  simpa [decode_nil] using decode_escapeAttr_append s []

theorem decode_no_amp (s : Str) (h : 38 ∉ s) : decode s = s := by
  induction s with
  | nil => exact decode_nil
  | cons c s ih =>
    simp only [List.mem_cons, not_or] at h
    rw [decode_cons_ne c s (fun e => h.1 e.symm), ih h.2]

theorem escTextChar_no_lt (c : Nat) : 60 ∉ escTextChar c := by
  by_cases h1 : c = 38
  · subst h1; simp [escTextChar, lit_amp]
  by_cases h2 : c = 60
  · subst h2; simp [escTextChar, lit_lt]
  by_cases h3 : c = 62
  · subst h3; simp [escTextChar, lit_gt]
  · rw [escTextChar_other c h1 h2 h3]; simp; omega

theorem escapeText_no_lt (s : Str) : 60 ∉ escapeText s := by
  simp only [escapeText, List.mem_flatMap, not_exists, not_and]
  exact fun c _ => escTextChar_no_lt c

theorem escAttrChar_no_quote (c : Nat) : 34 ∉ escAttrChar c := by
  by_cases h0 : c = 34
  · subst h0; simp [escAttrChar, lit_quot]
  simp only [escAttrChar, h0, ↓reduceIte]
  by_cases h1 : c = 38
  · subst h1; simp [escTextChar, lit_amp]
  by_cases h2 : c = 60
  · subst h2; simp [escTextChar, lit_lt]
  by_cases h3 : c = 62
  · subst h3; simp [escTextChar, lit_gt]
  · rw [escTextChar_other c h1 h2 h3]; simp; omega

theorem escapeAttr_no_quote (s : Str) : 34 ∉ escapeAttr s := by
  simp only [escapeAttr, List.mem_flatMap, not_exists, not_and]
  exact fun c _ => escAttrChar_no_quote c

theorem escTextChar_ne_nil (c : Nat) : escTextChar c ≠ [] := by
  simp only [escTextChar, lit_amp, lit_lt, lit_gt]
  split
  · simp
  · split
    · simp
    · split <;> simp

theorem escapeText_ne_nil (s : Str) (h : s ≠ []) : escapeText s ≠ [] := by
  cases s with
  | nil => exact absurd rfl h
  | cons c s =>
    rw [escapeText_cons]
    have := escTextChar_ne_nil c
    simp [this]

/-! ### scanners -/

theorem takeText_append (t r : Str) (ht : 60 ∉ t) : takeText (t ++ 60 :: r) = (t, 60 :: r) := by
  induction t with
  | nil => simp [takeText]
  | cons c t ih =>
    simp only [List.mem_cons, not_or] at ht
    have hc : c ≠ 60 := fun h => ht.1 h.symm
    simp only [List.cons_append]
    unfold takeText
    split <;> simp_all

theorem takeText_all (t : Str) (ht : 60 ∉ t) : takeText t = (t, []) := by
  induction t with
  | nil => simp [takeText]
  | cons c t ih =>
    simp only [List.mem_cons, not_or] at ht
    have hc : c ≠ 60 := fun h => ht.1 h.symm
    unfold takeText
    split <;> simp_all

theorem takeQuoted_append (v r : Str) (hv : 34 ∉ v) : takeQuoted (v ++ 34 :: r) = some (v, r) := by
  induction v with
  | nil => simp [takeQuoted]
  | cons c v ih =>
    simp only [List.mem_cons, not_or] at hv
    have hc : c ≠ 34 := fun h => hv.1 h.symm
    simp only [List.cons_append]
    unfold takeQuoted
    split <;> simp_all

def isDelim (c : Nat) : Bool := isSpace c || c == 47 || c == 62 || c == 61

theorem takeName_append (n : Str) (d : Nat) (r : Str) (hn : ∀ c ∈ n, isDelim c = false)
    (hd : isDelim d = true) : takeName (n ++ d :: r) = (n, d :: r) := by
  induction n with
  | nil => simp only [List.nil_append, takeName]; simp only [isDelim] at hd; simp [hd]
  | cons c n ih =>
    have hc := hn c (by simp)
    simp only [isDelim] at hc
    simp only [List.cons_append, takeName, hc]
    rw [ih (fun x hx => hn x (by simp [hx]))]
    simp

theorem nameChar_not_delim (c : Nat) (h : nameChar c = true) : isDelim c = false := by
  simp only [nameChar, isAlpha, isDelim, isSpace, Bool.or_eq_true, Bool.and_eq_true, decide_eq_true_eq,
    beq_iff_eq, Bool.or_eq_false_iff, beq_eq_false_iff_ne] at *
  omega

theorem isAlpha_nameChar (c : Nat) (h : isAlpha c = true) : nameChar c = true := by
  simp [nameChar, h]

theorem isAlpha_not_space (c : Nat) (h : isAlpha c = true) : isSpace c = false := by
  simp only [isAlpha, isSpace, Bool.or_eq_true, Bool.and_eq_true, decide_eq_true_eq,
    Bool.or_eq_false_iff, beq_eq_false_iff_ne] at *
  omega

theorem validName_cons (n : Str) (h : validName n = true) :
    ∃ c cs, n = c :: cs ∧ isAlpha c = true ∧ ∀ x ∈ c :: cs, nameChar x = true := by
  cases n with
  | nil => simp [validName] at h
  | cons c cs =>
    simp only [validName, Bool.and_eq_true, List.all_eq_true] at h
    refine ⟨c, cs, rfl, h.1, ?_⟩
    intro x hx
    rcases List.mem_cons.1 hx with rfl | hx
    · exact isAlpha_nameChar _ h.1
    · exact h.2 x hx

theorem skipSpace_cons_of_not_space (c : Nat) (r : Str) (h : isSpace c = false) :
    skipSpace (c :: r) = c :: r := by
  simp [skipSpace, h]

theorem skipSpace_idem (s : Str) : skipSpace (skipSpace s) = skipSpace s := by
  induction s with
  | nil => simp [skipSpace]
  | cons c s ih =>
    by_cases h : isSpace c = true
    · simp [skipSpace, h, ih]
    · simp [skipSpace, h]

theorem takeAttrs_skipSpace (fuel : Nat) (s : Str) : takeAttrs fuel (skipSpace s) = takeAttrs fuel s := by
  cases fuel with
  | zero => simp [takeAttrs]
  | succ f => rw [takeAttrs, takeAttrs, skipSpace_idem]


/-! ### attribute lists -/

/-- a rendered attribute: ` name="raw"` or ` name` -/
inductive APiece where
  | valued (n raw : Str)
  | bare (n : Str)

def APiece.render : APiece → Str
  | .valued n raw => 32 :: (n ++ 61 :: 34 :: (raw ++ [34]))
  | .bare n => 32 :: n

def APiece.tok : APiece → Str × Str
  | .valued n raw => (n, decode raw)
  | .bare n => (n, [])

def APiece.ok : APiece → Prop
  | .valued n raw => validName n = true ∧ 34 ∉ raw
  | .bare n => validName n = true

theorem isAlpha_ne (c : Nat) (h : isAlpha c = true) : c ≠ 62 ∧ c ≠ 47 ∧ c ≠ 61 ∧ c ≠ 33 ∧ c ≠ 60 := by
  simp only [isAlpha, Bool.or_eq_true, Bool.and_eq_true, decide_eq_true_eq] at h
  omega

theorem takeAttrs_valued (fuel : Nat) (n raw R : Str) (hn : validName n = true) (hraw : 34 ∉ raw) :
    takeAttrs (fuel + 1) (32 :: (n ++ 61 :: 34 :: (raw ++ 34 :: R)))
      = match takeAttrs fuel R with
        | none => none
        | some (as, r5) => some ((n, decode raw) :: as, r5) := by
  obtain ⟨c, cs, rfl, hc, hall⟩ := validName_cons n hn
  have hs : skipSpace (32 :: (c :: cs ++ 61 :: 34 :: (raw ++ 34 :: R))) = c :: cs ++ 61 :: 34 :: (raw ++ 34 :: R) := by
    rw [skipSpace]; simp only [isSpace, beq_self_eq_true, Bool.true_or, ↓reduceIte]
    exact skipSpace_cons_of_not_space _ _ (isAlpha_not_space c hc)
  have hne := isAlpha_ne c hc
  rw [takeAttrs, hs]
  split
  · simp at *
  · simp at *; omega
  · simp at *; omega
  · rw [takeName_append (c :: cs) 61 _ (fun x hx => nameChar_not_delim x (hall x hx)) (by decide)]
    simp only [List.isEmpty_cons, Bool.false_eq_true, ↓reduceIte]
    simp only [skipSpace_cons_of_not_space 61 _ (by decide : isSpace 61 = false),
      skipSpace_cons_of_not_space 34 _ (by decide : isSpace 34 = false), takeQuoted_append raw R hraw]
    cases takeAttrs fuel R <;> rfl

theorem takeAttrs_bare (fuel : Nat) (n R : Str) (hn : validName n = true)
    (hR : ∃ d r, R = d :: r ∧ isDelim d = true) (hR2 : ∀ r2, skipSpace R ≠ 61 :: r2) :
    takeAttrs (fuel + 1) (32 :: (n ++ R))
      = match takeAttrs fuel R with
        | none => none
        | some (as, r5) => some ((n, []) :: as, r5) := by
  obtain ⟨c, cs, rfl, hc, hall⟩ := validName_cons n hn
  obtain ⟨d, r, rfl, hd⟩ := hR
  have hs : skipSpace (32 :: (c :: cs ++ d :: r)) = c :: cs ++ d :: r := by
    rw [skipSpace]; simp only [isSpace, beq_self_eq_true, Bool.true_or, ↓reduceIte]
    exact skipSpace_cons_of_not_space _ _ (isAlpha_not_space c hc)
  have hne := isAlpha_ne c hc
  rw [takeAttrs, hs]
  split
  · simp at *
  · simp at *; omega
  · simp at *; omega
  · rw [takeName_append (c :: cs) d _ (fun x hx => nameChar_not_delim x (hall x hx)) hd]
    simp only [List.isEmpty_cons, Bool.false_eq_true, ↓reduceIte]
    rw [← takeAttrs_skipSpace fuel (d :: r)]
    generalize skipSpace (d :: r) = q at hR2
    rcases q with _ | ⟨x, xs⟩
    · rfl
    · by_cases hx : x = 61
      · subst hx; exact absurd rfl (hR2 xs)
      · split <;> simp_all

/-- the rest of an attribute list starts with a delimiter and not (after spaces) with `=` -/
theorem attrs_tail (ps : List APiece) (rest : Str) (hok : ∀ a ∈ ps, a.ok) :
    (∃ d r, ps.flatMap APiece.render ++ 62 :: rest = d :: r ∧ isDelim d = true)
    ∧ ∀ r2, skipSpace (ps.flatMap APiece.render ++ 62 :: rest) ≠ 61 :: r2 := by
  cases ps with
  | nil =>
    refine ⟨⟨62, rest, by simp, by decide⟩, ?_⟩
    intro r2; simp [skipSpace, isSpace]
  | cons a ps =>
    have hn : ∃ n X, (a :: ps).flatMap APiece.render ++ 62 :: rest = 32 :: (n ++ X) ∧ validName n = true := by
      cases a with
      | valued n raw =>
        exact ⟨n, 61 :: 34 :: (raw ++ [34]) ++ (ps.flatMap APiece.render ++ 62 :: rest), by simp [APiece.render],
          (show validName n = true ∧ 34 ∉ raw from hok (.valued n raw) (by simp)).1⟩
      | bare n =>
        exact ⟨n, ps.flatMap APiece.render ++ 62 :: rest, by simp [APiece.render],
          (show validName n = true from hok (.bare n) (by simp))⟩
    obtain ⟨n, X, hX, hv⟩ := hn
    obtain ⟨c, cs, rfl, hc, -⟩ := validName_cons n hv
    rw [hX]
    refine ⟨⟨32, _, rfl, by decide⟩, ?_⟩
    intro r2
    rw [skipSpace]; simp only [isSpace, beq_self_eq_true, Bool.true_or, ↓reduceIte]
    rw [List.cons_append, skipSpace_cons_of_not_space _ _ (isAlpha_not_space c hc)]
    have := isAlpha_ne c hc
    simp; omega

theorem takeAttrs_pieces (ps : List APiece) (hok : ∀ a ∈ ps, a.ok) (fuel : Nat) (rest : Str) :
    takeAttrs (fuel + ps.length + 1) (ps.flatMap APiece.render ++ 62 :: rest)
      = some (ps.map APiece.tok, rest) := by
  induction ps with
  | nil => simp [takeAttrs, skipSpace, isSpace]
  | cons a ps ih =>
    have ih' := ih (fun x hx => hok x (by simp [hx]))
    have ha := hok a (by simp)
    cases a with
    | valued n raw =>
      replace ha : validName n = true ∧ 34 ∉ raw := ha
      have e : (APiece.valued n raw :: ps).flatMap APiece.render ++ 62 :: rest
          = 32 :: (n ++ 61 :: 34 :: (raw ++ 34 :: (ps.flatMap APiece.render ++ 62 :: rest))) := by
        simp [APiece.render]
      rw [e, List.length_cons, ← Nat.add_assoc, takeAttrs_valued _ _ _ _ ha.1 ha.2, ih']
      simp [APiece.tok]
    | bare n =>
      replace ha : validName n = true := ha
      have e : (APiece.bare n :: ps).flatMap APiece.render ++ 62 :: rest
          = 32 :: (n ++ (ps.flatMap APiece.render ++ 62 :: rest)) := by
        simp [APiece.render]
      have t := attrs_tail ps rest (fun x hx => hok x (by simp [hx]))
      rw [e, List.length_cons, ← Nat.add_assoc, takeAttrs_bare _ _ _ ha t.1 t.2, ih']
      simp [APiece.tok]


/-! ### tokenizer steps -/

theorem tokenize_nil (fuel : Nat) : tokenize (fuel + 1) [] = some [] := by simp [tokenize]

theorem tokenize_cmt_t (fuel : Nat) (rest : Str) :
    tokenize (fuel + 1) (lit "<!--t-->" ++ rest) = (tokenize fuel rest).map (Token.comment (lit "t") :: ·) := by
  simp [lit_cmt_t, lit_t, tokenize, takeComment]

theorem tokenize_cmt_end (fuel : Nat) (rest : Str) :
    tokenize (fuel + 1) (lit "<!-->" ++ rest) = (tokenize fuel rest).map (Token.comment [] :: ·) := by
  simp [lit_cmt_end, tokenize]

theorem tokenize_marker (fuel : Nat) (rest : Str) :
    tokenize (fuel + 1) (lit "<!--/-->" ++ rest) = (tokenize fuel rest).map (Token.comment (lit "/") :: ·) := by
  simp [lit_marker, lit_slash, tokenize, takeComment]

theorem tokenize_text_step (fuel : Nat) (raw r : Str) (hne : raw ≠ []) (hlt : 60 ∉ raw) :
    tokenize (fuel + 1) (raw ++ 60 :: r)
      = (tokenize fuel (60 :: r)).map (Token.text (decode raw) :: ·) := by
  cases raw with
  | nil => exact absurd rfl hne
  | cons c cs =>
    have hc : c ≠ 60 := fun h => hlt (by simp [h])
    have ht := takeText_append (c :: cs) r hlt
    rw [List.cons_append] at ht ⊢
    rw [tokenize.eq_def]
    split
    · simp at *
    · simp at *
    · simp at *; omega
    · simp at *; omega
    · simp at *; omega
    · rw [ht]; simp; congr 2; omega

theorem tokenize_text_end (fuel : Nat) (raw : Str) (hne : raw ≠ []) (hlt : 60 ∉ raw) :
    tokenize (fuel + 1) raw = (tokenize fuel []).map (Token.text (decode raw) :: ·) := by
  cases raw with
  | nil => exact absurd rfl hne
  | cons c cs =>
    have hc : c ≠ 60 := fun h => hlt (by simp [h])
    have ht := takeText_all (c :: cs) hlt
    rw [tokenize.eq_def]
    split
    · simp at *
    · simp at *
    · simp at *; omega
    · simp at *; omega
    · simp at *; omega
    · rw [ht]; simp; congr 2; omega


theorem tokenize_endTag (fuel : Nat) (tag rest : Str) (hv : validName tag = true) :
    tokenize (fuel + 1) (60 :: 47 :: (tag ++ 62 :: rest))
      = (tokenize fuel rest).map (Token.endTag tag :: ·) := by
  obtain ⟨c, cs, rfl, hc, hall⟩ := validName_cons tag hv
  have hne := isAlpha_ne c hc
  have hn := takeName_append (c :: cs) 62 rest (fun x hx => nameChar_not_delim x (hall x hx)) (by decide)
  rw [List.cons_append] at hn ⊢
  rw [tokenize.eq_def]
  split
  · simp at *
  · simp at *
  · simp at *
  · rename_i heq1 heq2
    simp only [List.cons.injEq, true_and] at heq2
    obtain ⟨rfl, rfl⟩ := heq2
    simp only [hc, ↓reduceIte, hn, skipSpace_cons_of_not_space 62 _ (by decide : isSpace 62 = false)]
    congr 2; omega
  · simp at *
    rename_i h1 _ h2; exact absurd h2.2.symm (h1 c _ h2.1.symm)
  · simp at *

theorem APiece.render_length_pos (a : APiece) : 1 ≤ a.render.length := by
  cases a <;> simp [APiece.render]

theorem attrs_length_le (ps : List APiece) : ps.length ≤ (ps.flatMap APiece.render).length := by
  induction ps with
  | nil => simp
  | cons a ps ih =>
    have := a.render_length_pos
    simp only [List.flatMap_cons, List.length_append, List.length_cons]
    omega

theorem tokenize_startTag (fuel : Nat) (tag : Str) (ps : List APiece) (rest : Str)
    (hv : validName tag = true) (hok : ∀ a ∈ ps, a.ok) :
    tokenize (fuel + 1) (60 :: (tag ++ (ps.flatMap APiece.render ++ 62 :: rest)))
      = (tokenize fuel rest).map (Token.startTag tag (ps.map APiece.tok) :: ·) := by
  obtain ⟨c, cs, rfl, hc, hall⟩ := validName_cons tag hv
  have hne := isAlpha_ne c hc
  obtain ⟨⟨d, r, hR, hd⟩, -⟩ := attrs_tail ps rest hok
  have hn := takeName_append (c :: cs) d r (fun x hx => nameChar_not_delim x (hall x hx)) hd
  have hlen := attrs_length_le ps
  have hta := takeAttrs_pieces ps hok ((ps.flatMap APiece.render ++ 62 :: rest).length - ps.length) rest
  have hfl : (ps.flatMap APiece.render ++ 62 :: rest).length - ps.length + ps.length + 1
      = (ps.flatMap APiece.render ++ 62 :: rest).length + 1 := by
    simp only [List.length_append, List.length_cons]; omega
  rw [hfl] at hta
  rw [hR] at hta ⊢
  rw [List.cons_append] at hn ⊢
  rw [tokenize.eq_def]
  split
  · simp at *
  · simp at *
  · simp at *; omega
  · simp at *; omega
  · rename_i heq1 heq2
    simp only [List.cons.injEq, true_and] at heq2
    obtain ⟨rfl, rfl⟩ := heq2
    simp only [hc, ↓reduceIte, hn, hta]
    congr 2; omega
  · simp at *


theorem escapeText_nil : escapeText [] = [] := rfl

/-! ### text runs: merging adjacent texts with a pending prefix -/

def emitG {α : Type} (mk : Str → α) (p : Str) : List α := if p.isEmpty then [] else [mk p]

/-- `runsG get mk p l`: walk `l` with pending text `p`; texts are appended to the pending text, any
other item first flushes the pending text. Result: the items emitted and the final pending text. -/
def runsG {α : Type} (get : α → Option Str) (mk : Str → α) : Str → List α → List α × Str
  | p, [] => ([], p)
  | p, x :: r =>
    match get x with
    | some a => runsG get mk (p ++ a) r
    | none => (emitG mk p ++ x :: (runsG get mk [] r).1, (runsG get mk [] r).2)

theorem runsG_nil {α : Type} (get : α → Option Str) (mk : Str → α) (p : Str) :
    runsG get mk p [] = ([], p) := by simp [runsG]

theorem runsG_cons_some {α : Type} (get : α → Option Str) (mk : Str → α) (p : Str) (x : α) (r : List α)
    (a : Str) (h : get x = some a) : runsG get mk p (x :: r) = runsG get mk (p ++ a) r := by
  simp [runsG, h]

theorem runsG_cons_none {α : Type} (get : α → Option Str) (mk : Str → α) (p : Str) (x : α) (r : List α)
    (h : get x = none) :
    runsG get mk p (x :: r) = (emitG mk p ++ x :: (runsG get mk [] r).1, (runsG get mk [] r).2) := by
  simp [runsG, h]

theorem runsG_append {α : Type} (get : α → Option Str) (mk : Str → α) (xs ys : List α) (p : Str) :
    runsG get mk p (xs ++ ys)
      = ((runsG get mk p xs).1 ++ (runsG get mk (runsG get mk p xs).2 ys).1,
         (runsG get mk (runsG get mk p xs).2 ys).2) := by
  induction xs generalizing p with
  | nil => simp [runsG]
  | cons x xs ih =>
    cases h : get x with
    | some a => simp only [List.cons_append, runsG_cons_some get mk _ _ _ a h, ih]
    | none => simp only [List.cons_append, runsG_cons_none get mk _ _ _ h, ih, List.append_assoc, List.cons_append]

def Token.getText : Token → Option Str
  | .text s => some s
  | _ => none

def HNode.getText : HNode → Option Str
  | .text s => some s
  | _ => none

abbrev runsT := runsG Token.getText Token.text
abbrev emitT := emitG Token.text
abbrev runsN := runsG HNode.getText HNode.text
abbrev emitN := emitG HNode.text

/-! ### pieces: source string / token pairs -/

abbrev Piece := Str × Token

def srcOf (ps : List Piece) : Str := ps.flatMap (·.1)

theorem srcOf_cons (x : Piece) (ps : List Piece) : srcOf (x :: ps) = x.1 ++ srcOf ps := by simp [srcOf]
theorem srcOf_append (a b : List Piece) : srcOf (a ++ b) = srcOf a ++ srcOf b := by simp [srcOf]
theorem srcOf_nil : srcOf [] = [] := rfl

/-- a piece is good if it is an escaped text, or a non-text token whose source starts with `<` and
is consumed by exactly one tokenizer step -/
def GoodPiece (x : Piece) : Prop :=
  (∃ t, x = (escapeText t, Token.text t)) ∨
  (x.2.getText = none ∧ (∃ r, x.1 = 60 :: r) ∧
    ∀ fuel rest, tokenize (fuel + 1) (x.1 ++ rest) = (tokenize fuel rest).map (x.2 :: ·))

theorem Option.map_map_cons {α : Type} (o : Option (List α)) (a : List α) (b : List α) :
    (o.map (b ++ ·)).map (a ++ ·) = o.map ((a ++ b) ++ ·) := by
  cases o <;> simp

/-- tokenizing the source of good pieces, with pending (escaped) text `p` in front and any
continuation behind, yields the merged tokens and leaves the final pending text -/
theorem tokenize_pieces (ps : List Piece) (hg : ∀ x ∈ ps, GoodPiece x) :
    ∀ (p : Str) (fuel : Nat) (rest : Str),
      tokenize (fuel + (runsT p (ps.map (·.2))).1.length) (escapeText p ++ (srcOf ps ++ rest))
        = (tokenize fuel (escapeText (runsT p (ps.map (·.2))).2 ++ rest)).map
            ((runsT p (ps.map (·.2))).1 ++ ·) := by
  induction ps with
  | nil => intro p fuel rest; simp [runsG, srcOf]
  | cons x ps ih =>
    intro p fuel rest
    have ih' := ih (fun y hy => hg y (by simp [hy]))
    rcases hg x (by simp) with ⟨t, rfl⟩ | ⟨hnt, ⟨r, hr⟩, hstep⟩
    · have h1 : runsT p (((escapeText t, Token.text t) :: ps).map (·.2)) = runsT (p ++ t) (ps.map (·.2)) := by
        simp only [List.map_cons]; exact runsG_cons_some _ _ _ _ _ t rfl
      rw [h1, srcOf_cons]
      have := ih' (p ++ t) fuel rest
      rw [escapeText_append, List.append_assoc] at this
      rw [List.append_assoc]; exact this
    · obtain ⟨src, tok⟩ := x
      simp only at hnt hr hstep
      subst hr
      have h1 : runsT p (((60 :: r, tok) :: ps).map (·.2))
          = (emitT p ++ tok :: (runsT [] (ps.map (·.2))).1, (runsT [] (ps.map (·.2))).2) := by
        simp only [List.map_cons]; exact runsG_cons_none _ _ _ _ _ hnt
      rw [h1, srcOf_cons]
      have ih0 := ih' [] fuel rest
      rw [escapeText_nil, List.nil_append] at ih0
      simp only
      by_cases hp : p = []
      · subst hp
        simp only [emitG, List.isEmpty_nil, ↓reduceIte, List.nil_append, List.length_cons, escapeText_nil,
          List.append_assoc]
        rw [← Nat.add_assoc, hstep, ih0]
        cases tokenize fuel _ <;> simp
      · have hpe : p.isEmpty = false := by cases p <;> simp_all
        simp only [emitG, hpe, Bool.false_eq_true, ↓reduceIte, List.cons_append, List.nil_append,
          List.length_cons, List.append_assoc]
        rw [← Nat.add_assoc, ← Nat.add_assoc,
          tokenize_text_step _ (escapeText p) _ (escapeText_ne_nil p hp) (escapeText_no_lt p),
          ← List.cons_append, hstep, ih0, decode_escapeText]
        cases tokenize fuel _ <;> simp


/-! ### fuel: every token consumes at least one character -/

def ind (p : Str) : Nat := if p.isEmpty then 0 else 1

theorem ind_append_le (p t : Str) : ind (p ++ t) ≤ ind p + (escapeText t).length := by
  cases p with
  | cons c p => simp [ind]
  | nil =>
    cases t with
    | nil => simp [ind]
    | cons c t =>
      have := escapeText_ne_nil (c :: t) (by simp)
      have : 1 ≤ (escapeText (c :: t)).length := by
        cases h : escapeText (c :: t) with
        | nil => exact absurd h this
        | cons _ _ => simp
      simp [ind]; omega

theorem emitT_length (p : Str) : (emitT p).length = ind p := by
  cases p <;> simp [emitG, ind]

theorem pieces_bound (ps : List Piece) (hg : ∀ x ∈ ps, GoodPiece x) :
    ∀ p : Str, (runsT p (ps.map (·.2))).1.length + ind (runsT p (ps.map (·.2))).2
      ≤ ind p + (srcOf ps).length := by
  induction ps with
  | nil => intro p; simp [runsG, srcOf]
  | cons x ps ih =>
    intro p
    have ih' := ih (fun y hy => hg y (by simp [hy]))
    rcases hg x (by simp) with ⟨t, rfl⟩ | ⟨hnt, ⟨r, hr⟩, -⟩
    · have h1 : runsT p (((escapeText t, Token.text t) :: ps).map (·.2)) = runsT (p ++ t) (ps.map (·.2)) := by
        simp only [List.map_cons]; exact runsG_cons_some _ _ _ _ _ t rfl
      rw [h1, srcOf_cons]
      have := ih' (p ++ t)
      have := ind_append_le p t
      simp only [List.length_append]
      omega
    · obtain ⟨src, tok⟩ := x
      simp only at hnt hr
      subst hr
      have h1 : runsT p (((60 :: r, tok) :: ps).map (·.2))
          = (emitT p ++ tok :: (runsT [] (ps.map (·.2))).1, (runsT [] (ps.map (·.2))).2) := by
        simp only [List.map_cons]; exact runsG_cons_none _ _ _ _ _ hnt
      rw [h1, srcOf_cons]
      have := ih' []
      simp only [List.length_append, List.length_cons, emitT_length]
      have h0 : ind [] = 0 := rfl
      rw [h0] at this
      omega

/-- the tokenizer, with the fuel `parse` gives it, on the source of good pieces -/
theorem tokenize_pieces_full (ps : List Piece) (hg : ∀ x ∈ ps, GoodPiece x) :
    tokenize ((srcOf ps).length + 1) (srcOf ps)
      = some ((runsT [] (ps.map (·.2))).1 ++ emitT (runsT [] (ps.map (·.2))).2) := by
  have hb := pieces_bound ps hg []
  simp only [ind, List.isEmpty_nil, ↓reduceIte, Nat.zero_add] at hb
  generalize hT : (runsT [] (ps.map (·.2))).1 = T at hb
  generalize hq : (runsT [] (ps.map (·.2))).2 = q at hb
  have key := tokenize_pieces ps hg [] ((srcOf ps).length + 1 - T.length) []
  rw [hT, hq, escapeText_nil, List.nil_append, List.append_nil, List.append_nil] at key
  have hf : (srcOf ps).length + 1 - T.length + T.length = (srcOf ps).length + 1 := by omega
  rw [hf] at key
  rw [key]
  by_cases hqe : q = []
  · subst hqe
    obtain ⟨f, hf'⟩ : ∃ f, (srcOf ps).length + 1 - T.length = f + 1 := ⟨(srcOf ps).length - T.length, by omega⟩
    rw [hf', escapeText_nil, tokenize_nil]
    simp [emitG]
  · have hqi : q.isEmpty = false := by cases q <;> simp_all
    simp only [hqi, Bool.false_eq_true, ↓reduceIte] at hb
    obtain ⟨f, hf'⟩ : ∃ f, (srcOf ps).length + 1 - T.length = f + 1 + 1 :=
      ⟨(srcOf ps).length - T.length - 1, by omega⟩
    rw [hf', tokenize_text_end _ _ (escapeText_ne_nil q hqe) (escapeText_no_lt q), tokenize_nil,
      decode_escapeText]
    simp [emitG, hqi]

end SycVerif.Html
