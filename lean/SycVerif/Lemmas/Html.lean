/-
Helper lemmas for C08 (SSR → reference HTML reader round trip): character level (escape/decode,
scanners), attribute lists, tokenizer steps, text-run merging, tree builder.
-/
import SycVerif.Spec.HtmlNorm
namespace SycVerif.Html
open SycVerif.Ssr

/-! ### literals -/
theorem lit_amp : lit "&amp;" = [38, 97, 109, 112, 59] := by decide
theorem lit_lt : lit "&lt;" = [38, 108, 116, 59] := by decide
theorem lit_gt : lit "&gt;" = [38, 103, 116, 59] := by decide
theorem lit_quot : lit "&quot;" = [38, 113, 117, 111, 116, 59] := by decide
theorem lit_eqq : lit "=\"" = [61, 34] := by decide
theorem lit_close : lit "</" = [60, 47] := by decide
theorem lit_cmt_t : lit "<!--t-->" = [60, 33, 45, 45, 116, 45, 45, 62] := by decide
theorem lit_cmt_end : lit "<!-->" = [60, 33, 45, 45, 62] := by decide
theorem lit_marker : lit "<!--/-->" = [60, 33, 45, 45, 47, 45, 45, 62] := by decide
theorem lit_hk : lit " data-hk=\"" = 32 :: (lit "data-hk" ++ [61, 34]) := by decide
theorem lit_t : lit "t" = [116] := by decide
theorem lit_slash : lit "/" = [47] := by decide

/-! ### escaping and decoding -/

theorem decode_cons_ne (c : Nat) (r : Str) (h : c ≠ 38) : decode (c :: r) = c :: decode r := by
  conv => lhs; unfold decode
  split <;> simp_all

theorem escTextChar_other (c : Nat) (h1 : c ≠ 38) (h2 : c ≠ 60) (h3 : c ≠ 62) : escTextChar c = [c] := by
  simp [escTextChar, h1, h2, h3]

theorem decode_escTextChar (c : Nat) (r : Str) : decode (escTextChar c ++ r) = c :: decode r := by
  by_cases h1 : c = 38
  · subst h1; simp [escTextChar, lit_amp, decode]
  by_cases h2 : c = 60
  · subst h2; simp [escTextChar, lit_lt, decode]
  by_cases h3 : c = 62
  · subst h3; simp [escTextChar, lit_gt, decode]
  · rw [escTextChar_other c h1 h2 h3]; exact decode_cons_ne c r h1

theorem decode_escAttrChar (c : Nat) (r : Str) : decode (escAttrChar c ++ r) = c :: decode r := by
  by_cases h : c = 34
  · subst h; simp [escAttrChar, lit_quot, decode]
  · simp only [escAttrChar, h, ↓reduceIte]; exact decode_escTextChar c r

theorem escapeText_cons (c : Nat) (s : Str) : escapeText (c :: s) = escTextChar c ++ escapeText s := by
  simp [escapeText]
theorem escapeAttr_cons (c : Nat) (s : Str) : escapeAttr (c :: s) = escAttrChar c ++ escapeAttr s := by
  simp [escapeAttr]
theorem escapeText_append (a b : Str) : escapeText (a ++ b) = escapeText a ++ escapeText b := by
  simp [escapeText]

/-- decoding an escaped text gives the text back, whatever follows -/
theorem decode_escapeText_append (s r : Str) : decode (escapeText s ++ r) = s ++ decode r := by
  induction s with
  | nil => simp [escapeText]
  | cons c s ih => rw [escapeText_cons, List.append_assoc, decode_escTextChar, ih]; rfl

theorem decode_escapeAttr_append (s r : Str) : decode (escapeAttr s ++ r) = s ++ decode r := by
  induction s with
  | nil => simp [escapeAttr]
  | cons c s ih => rw [escapeAttr_cons, List.append_assoc, decode_escAttrChar, ih]; rfl

theorem decode_nil : decode [] = [] := by simp [decode]

theorem decode_escapeText (s : Str) : decode (escapeText s) = s := by
  simpa [decode_nil] using decode_escapeText_append s []
theorem decode_escapeAttr (s : Str) : decode (escapeAttr s) = s := by
  simpa [decode_nil] using decode_escapeAttr_append s []

theorem decode_no_amp (s : Str) (h : 38 ∉ s) : decode s = s := by
  induction s with
  | nil => exact decode_nil
  | cons c s ih =>
    simp only [List.mem_cons, not_or] at h
    rw [decode_cons_ne c s (fun e => h.1 e.symm), ih h.2]

theorem escTextChar_no_lt (c : Nat) : 60 ∉ escTextChar c := by
  by_cases h1 : c = 38
  · subst h1; simp [escTextChar, lit_amp]
  by_cases h2 : c = 60
  · subst h2; simp [escTextChar, lit_lt]
  by_cases h3 : c = 62
  · subst h3; simp [escTextChar, lit_gt]
  · rw [escTextChar_other c h1 h2 h3]; simp; omega

theorem escapeText_no_lt (s : Str) : 60 ∉ escapeText s := by
  simp only [escapeText, List.mem_flatMap, not_exists, not_and]
  exact fun c _ => escTextChar_no_lt c

theorem escAttrChar_no_quote (c : Nat) : 34 ∉ escAttrChar c := by
  by_cases h0 : c = 34
  · subst h0; simp [escAttrChar, lit_quot]
  simp only [escAttrChar, h0, ↓reduceIte]
  by_cases h1 : c = 38
  · subst h1; simp [escTextChar, lit_amp]
  by_cases h2 : c = 60
  · subst h2; simp [escTextChar, lit_lt]
  by_cases h3 : c = 62
  · subst h3; simp [escTextChar, lit_gt]
  · rw [escTextChar_other c h1 h2 h3]; simp; omega

theorem escapeAttr_no_quote (s : Str) : 34 ∉ escapeAttr s := by
  simp only [escapeAttr, List.mem_flatMap, not_exists, not_and]
  exact fun c _ => escAttrChar_no_quote c

theorem escTextChar_ne_nil (c : Nat) : escTextChar c ≠ [] := by
  simp only [escTextChar, lit_amp, lit_lt, lit_gt]
  split
  · simp
  · split
    · simp
    · split <;> simp

theorem escapeText_ne_nil (s : Str) (h : s ≠ []) : escapeText s ≠ [] := by
  cases s with
  | nil => exact absurd rfl h
  | cons c s =>
    rw [escapeText_cons]
    have := escTextChar_ne_nil c
    simp [this]

/-! ### scanners -/

theorem takeText_append (t r : Str) (ht : 60 ∉ t) : takeText (t ++ 60 :: r) = (t, 60 :: r) := by
  induction t with
  | nil => simp [takeText]
  | cons c t ih =>
    simp only [List.mem_cons, not_or] at ht
    have hc : c ≠ 60 := fun h => ht.1 h.symm
    simp only [List.cons_append]
    unfold takeText
    split <;> simp_all

theorem takeText_all (t : Str) (ht : 60 ∉ t) : takeText t = (t, []) := by
  induction t with
  | nil => simp [takeText]
  | cons c t ih =>
    simp only [List.mem_cons, not_or] at ht
    have hc : c ≠ 60 := fun h => ht.1 h.symm
    unfold takeText
    split <;> simp_all

theorem takeQuoted_append (v r : Str) (hv : 34 ∉ v) : takeQuoted (v ++ 34 :: r) = some (v, r) := by
  induction v with
  | nil => simp [takeQuoted]
  | cons c v ih =>
    simp only [List.mem_cons, not_or] at hv
    have hc : c ≠ 34 := fun h => hv.1 h.symm
    simp only [List.cons_append]
    unfold takeQuoted
    split <;> simp_all

def isDelim (c : Nat) : Bool := isSpace c || c == 47 || c == 62 || c == 61

theorem takeName_append (n : Str) (d : Nat) (r : Str) (hn : ∀ c ∈ n, isDelim c = false)
    (hd : isDelim d = true) : takeName (n ++ d :: r) = (n, d :: r) := by
  induction n with
  | nil => simp only [List.nil_append, takeName]; simp only [isDelim] at hd; simp [hd]
  | cons c n ih =>
    have hc := hn c (by simp)
    simp only [isDelim] at hc
    simp only [List.cons_append, takeName, hc]
    rw [ih (fun x hx => hn x (by simp [hx]))]
    simp

theorem nameChar_not_delim (c : Nat) (h : nameChar c = true) : isDelim c = false := by
  simp only [nameChar, isAlpha, isDelim, isSpace, Bool.or_eq_true, Bool.and_eq_true, decide_eq_true_eq,
    beq_iff_eq, Bool.or_eq_false_iff, beq_eq_false_iff_ne] at *
  omega

theorem isAlpha_nameChar (c : Nat) (h : isAlpha c = true) : nameChar c = true := by
  simp [nameChar, h]

theorem isAlpha_not_space (c : Nat) (h : isAlpha c = true) : isSpace c = false := by
  simp only [isAlpha, isSpace, Bool.or_eq_true, Bool.and_eq_true, decide_eq_true_eq,
    Bool.or_eq_false_iff, beq_eq_false_iff_ne] at *
  omega

theorem validName_cons (n : Str) (h : validName n = true) :
    ∃ c cs, n = c :: cs ∧ isAlpha c = true ∧ ∀ x ∈ c :: cs, nameChar x = true := by
  cases n with
  | nil => simp [validName] at h
  | cons c cs =>
    simp only [validName, Bool.and_eq_true, List.all_eq_true] at h
    refine ⟨c, cs, rfl, h.1, ?_⟩
    intro x hx
    rcases List.mem_cons.1 hx with rfl | hx
    · exact isAlpha_nameChar _ h.1
    · exact h.2 x hx

theorem skipSpace_cons_of_not_space (c : Nat) (r : Str) (h : isSpace c = false) :
    skipSpace (c :: r) = c :: r := by
  simp [skipSpace, h]

theorem skipSpace_idem (s : Str) : skipSpace (skipSpace s) = skipSpace s := by
  induction s with
  | nil => simp [skipSpace]
  | cons c s ih =>
    by_cases h : isSpace c = true
    · simp [skipSpace, h, ih]
    · simp [skipSpace, h]

theorem takeAttrs_skipSpace (fuel : Nat) (s : Str) : takeAttrs fuel (skipSpace s) = takeAttrs fuel s := by
  cases fuel with
  | zero => simp [takeAttrs]
  | succ f => rw [takeAttrs, takeAttrs, skipSpace_idem]


/-! ### attribute lists -/

/-- a rendered attribute: ` name="raw"` or ` name` -/
inductive APiece where
  | valued (n raw : Str)
  | bare (n : Str)

def APiece.render : APiece → Str
  | .valued n raw => 32 :: (n ++ 61 :: 34 :: (raw ++ [34]))
  | .bare n => 32 :: n

def APiece.tok : APiece → Str × Str
  | .valued n raw => (n, decode raw)
  | .bare n => (n, [])

def APiece.ok : APiece → Prop
  | .valued n raw => validName n = true ∧ 34 ∉ raw
  | .bare n => validName n = true

theorem isAlpha_ne (c : Nat) (h : isAlpha c = true) : c ≠ 62 ∧ c ≠ 47 ∧ c ≠ 61 ∧ c ≠ 33 ∧ c ≠ 60 := by
  simp only [isAlpha, Bool.or_eq_true, Bool.and_eq_true, decide_eq_true_eq] at h
  omega

theorem takeAttrs_valued (fuel : Nat) (n raw R : Str) (hn : validName n = true) (hraw : 34 ∉ raw) :
    takeAttrs (fuel + 1) (32 :: (n ++ 61 :: 34 :: (raw ++ 34 :: R)))
      = match takeAttrs fuel R with
        | none => none
        | some (as, r5) => some ((n, decode raw) :: as, r5) := by
  obtain ⟨c, cs, rfl, hc, hall⟩ := validName_cons n hn
  have hs : skipSpace (32 :: (c :: cs ++ 61 :: 34 :: (raw ++ 34 :: R))) = c :: cs ++ 61 :: 34 :: (raw ++ 34 :: R) := by
    rw [skipSpace]; simp only [isSpace, beq_self_eq_true, Bool.true_or, ↓reduceIte]
    exact skipSpace_cons_of_not_space _ _ (isAlpha_not_space c hc)
  have hne := isAlpha_ne c hc
  rw [takeAttrs, hs]
  split
  · simp at *
  · simp at *; omega
  · simp at *; omega
  · rw [takeName_append (c :: cs) 61 _ (fun x hx => nameChar_not_delim x (hall x hx)) (by decide)]
    simp only [List.isEmpty_cons, Bool.false_eq_true, ↓reduceIte]
    simp only [skipSpace_cons_of_not_space 61 _ (by decide : isSpace 61 = false),
      skipSpace_cons_of_not_space 34 _ (by decide : isSpace 34 = false), takeQuoted_append raw R hraw]
    cases takeAttrs fuel R <;> rfl

theorem takeAttrs_bare (fuel : Nat) (n R : Str) (hn : validName n = true)
    (hR : ∃ d r, R = d :: r ∧ isDelim d = true) (hR2 : ∀ r2, skipSpace R ≠ 61 :: r2) :
    takeAttrs (fuel + 1) (32 :: (n ++ R))
      = match takeAttrs fuel R with
        | none => none
        | some (as, r5) => some ((n, []) :: as, r5) := by
  obtain ⟨c, cs, rfl, hc, hall⟩ := validName_cons n hn
  obtain ⟨d, r, rfl, hd⟩ := hR
  have hs : skipSpace (32 :: (c :: cs ++ d :: r)) = c :: cs ++ d :: r := by
    rw [skipSpace]; simp only [isSpace, beq_self_eq_true, Bool.true_or, ↓reduceIte]
    exact skipSpace_cons_of_not_space _ _ (isAlpha_not_space c hc)
  have hne := isAlpha_ne c hc
  rw [takeAttrs, hs]
  split
  · simp at *
  · simp at *; omega
  · simp at *; omega
  · rw [takeName_append (c :: cs) d _ (fun x hx => nameChar_not_delim x (hall x hx)) hd]
    simp only [List.isEmpty_cons, Bool.false_eq_true, ↓reduceIte]
    rw [← takeAttrs_skipSpace fuel (d :: r)]
    generalize skipSpace (d :: r) = q at hR2
    rcases q with _ | ⟨x, xs⟩
    · rfl
    · by_cases hx : x = 61
      · subst hx; exact absurd rfl (hR2 xs)
      · split <;> simp_all

/-- the rest of an attribute list starts with a delimiter and not (after spaces) with `=` -/
theorem attrs_tail (ps : List APiece) (rest : Str) (hok : ∀ a ∈ ps, a.ok) :
    (∃ d r, ps.flatMap APiece.render ++ 62 :: rest = d :: r ∧ isDelim d = true)
    ∧ ∀ r2, skipSpace (ps.flatMap APiece.render ++ 62 :: rest) ≠ 61 :: r2 := by
  cases ps with
  | nil =>
    refine ⟨⟨62, rest, by simp, by decide⟩, ?_⟩
    intro r2; simp [skipSpace, isSpace]
  | cons a ps =>
    have hn : ∃ n X, (a :: ps).flatMap APiece.render ++ 62 :: rest = 32 :: (n ++ X) ∧ validName n = true := by
      cases a with
      | valued n raw =>
        exact ⟨n, 61 :: 34 :: (raw ++ [34]) ++ (ps.flatMap APiece.render ++ 62 :: rest), by simp [APiece.render],
          (show validName n = true ∧ 34 ∉ raw from hok (.valued n raw) (by simp)).1⟩
      | bare n =>
        exact ⟨n, ps.flatMap APiece.render ++ 62 :: rest, by simp [APiece.render],
          (show validName n = true from hok (.bare n) (by simp))⟩
    obtain ⟨n, X, hX, hv⟩ := hn
    obtain ⟨c, cs, rfl, hc, -⟩ := validName_cons n hv
    rw [hX]
    refine ⟨⟨32, _, rfl, by decide⟩, ?_⟩
    intro r2
    rw [skipSpace]; simp only [isSpace, beq_self_eq_true, Bool.true_or, ↓reduceIte]
    rw [List.cons_append, skipSpace_cons_of_not_space _ _ (isAlpha_not_space c hc)]
    have := isAlpha_ne c hc
    simp; omega

theorem takeAttrs_pieces (ps : List APiece) (hok : ∀ a ∈ ps, a.ok) (fuel : Nat) (rest : Str) :
    takeAttrs (fuel + ps.length + 1) (ps.flatMap APiece.render ++ 62 :: rest)
      = some (ps.map APiece.tok, rest) := by
  induction ps with
  | nil => simp [takeAttrs, skipSpace, isSpace]
  | cons a ps ih =>
    have ih' := ih (fun x hx => hok x (by simp [hx]))
    have ha := hok a (by simp)
    cases a with
    | valued n raw =>
      replace ha : validName n = true ∧ 34 ∉ raw := ha
      have e : (APiece.valued n raw :: ps).flatMap APiece.render ++ 62 :: rest
          = 32 :: (n ++ 61 :: 34 :: (raw ++ 34 :: (ps.flatMap APiece.render ++ 62 :: rest))) := by
        simp [APiece.render]
      rw [e, List.length_cons, ← Nat.add_assoc, takeAttrs_valued _ _ _ _ ha.1 ha.2, ih']
      simp [APiece.tok]
    | bare n =>
      replace ha : validName n = true := ha
      have e : (APiece.bare n :: ps).flatMap APiece.render ++ 62 :: rest
          = 32 :: (n ++ (ps.flatMap APiece.render ++ 62 :: rest)) := by
        simp [APiece.render]
      have t := attrs_tail ps rest (fun x hx => hok x (by simp [hx]))
      rw [e, List.length_cons, ← Nat.add_assoc, takeAttrs_bare _ _ _ ha t.1 t.2, ih']
      simp [APiece.tok]


/-! ### tokenizer steps -/

theorem tokenize_nil (fuel : Nat) : tokenize (fuel + 1) [] = some [] := by simp [tokenize]

theorem tokenize_cmt_t (fuel : Nat) (rest : Str) :
    tokenize (fuel + 1) (lit "<!--t-->" ++ rest) = (tokenize fuel rest).map (Token.comment (lit "t") :: ·) := by
  simp [lit_cmt_t, lit_t, tokenize, takeComment]

theorem tokenize_cmt_end (fuel : Nat) (rest : Str) :
    tokenize (fuel + 1) (lit "<!-->" ++ rest) = (tokenize fuel rest).map (Token.comment [] :: ·) := by
  simp [lit_cmt_end, tokenize]

theorem tokenize_marker (fuel : Nat) (rest : Str) :
    tokenize (fuel + 1) (lit "<!--/-->" ++ rest) = (tokenize fuel rest).map (Token.comment (lit "/") :: ·) := by
  simp [lit_marker, lit_slash, tokenize, takeComment]

theorem tokenize_text_step (fuel : Nat) (raw r : Str) (hne : raw ≠ []) (hlt : 60 ∉ raw) :
    tokenize (fuel + 1) (raw ++ 60 :: r)
      = (tokenize fuel (60 :: r)).map (Token.text (decode raw) :: ·) := by
  cases raw with
  | nil => exact absurd rfl hne
  | cons c cs =>
    have hc : c ≠ 60 := fun h => hlt (by simp [h])
    have ht := takeText_append (c :: cs) r hlt
    rw [List.cons_append] at ht ⊢
    rw [tokenize.eq_def]
    split
    · simp at *
    · simp at *
    · simp at *; omega
    · simp at *; omega
    · simp at *; omega
    · rw [ht]; simp; congr 2; omega

theorem tokenize_text_end (fuel : Nat) (raw : Str) (hne : raw ≠ []) (hlt : 60 ∉ raw) :
    tokenize (fuel + 1) raw = (tokenize fuel []).map (Token.text (decode raw) :: ·) := by
  cases raw with
  | nil => exact absurd rfl hne
  | cons c cs =>
    have hc : c ≠ 60 := fun h => hlt (by simp [h])
    have ht := takeText_all (c :: cs) hlt
    rw [tokenize.eq_def]
    split
    · simp at *
    · simp at *
    · simp at *; omega
    · simp at *; omega
    · simp at *; omega
    · rw [ht]; simp; congr 2; omega


theorem tokenize_endTag (fuel : Nat) (tag rest : Str) (hv : validName tag = true) :
    tokenize (fuel + 1) (60 :: 47 :: (tag ++ 62 :: rest))
      = (tokenize fuel rest).map (Token.endTag tag :: ·) := by
  obtain ⟨c, cs, rfl, hc, hall⟩ := validName_cons tag hv
  have hne := isAlpha_ne c hc
  have hn := takeName_append (c :: cs) 62 rest (fun x hx => nameChar_not_delim x (hall x hx)) (by decide)
  rw [List.cons_append] at hn ⊢
  rw [tokenize.eq_def]
  split
  · simp at *
  · simp at *
  · simp at *
  · rename_i heq1 heq2
    simp only [List.cons.injEq, true_and] at heq2
    obtain ⟨rfl, rfl⟩ := heq2
    simp only [hc, ↓reduceIte, hn, skipSpace_cons_of_not_space 62 _ (by decide : isSpace 62 = false)]
    congr 2; omega
  · simp at *
    rename_i h1 _ h2; exact absurd h2.2.symm (h1 c _ h2.1.symm)
  · simp at *

theorem APiece.render_length_pos (a : APiece) : 1 ≤ a.render.length := by
  cases a <;> simp [APiece.render]

theorem attrs_length_le (ps : List APiece) : ps.length ≤ (ps.flatMap APiece.render).length := by
  induction ps with
  | nil => simp
  | cons a ps ih =>
    have := a.render_length_pos
    simp only [List.flatMap_cons, List.length_append, List.length_cons]
    omega

theorem tokenize_startTag (fuel : Nat) (tag : Str) (ps : List APiece) (rest : Str)
    (hv : validName tag = true) (hok : ∀ a ∈ ps, a.ok) :
    tokenize (fuel + 1) (60 :: (tag ++ (ps.flatMap APiece.render ++ 62 :: rest)))
      = (tokenize fuel rest).map (Token.startTag tag (ps.map APiece.tok) :: ·) := by
  obtain ⟨c, cs, rfl, hc, hall⟩ := validName_cons tag hv
  have hne := isAlpha_ne c hc
  obtain ⟨⟨d, r, hR, hd⟩, -⟩ := attrs_tail ps rest hok
  have hn := takeName_append (c :: cs) d r (fun x hx => nameChar_not_delim x (hall x hx)) hd
  have hlen := attrs_length_le ps
  have hta := takeAttrs_pieces ps hok ((ps.flatMap APiece.render ++ 62 :: rest).length - ps.length) rest
  have hfl : (ps.flatMap APiece.render ++ 62 :: rest).length - ps.length + ps.length + 1
      = (ps.flatMap APiece.render ++ 62 :: rest).length + 1 := by
    simp only [List.length_append, List.length_cons]; omega
  rw [hfl] at hta
  rw [hR] at hta ⊢
  rw [List.cons_append] at hn ⊢
  rw [tokenize.eq_def]
  split
  · simp at *
  · simp at *
  · simp at *; omega
  · simp at *; omega
  · rename_i heq1 heq2
    simp only [List.cons.injEq, true_and] at heq2
    obtain ⟨rfl, rfl⟩ := heq2
    simp only [hc, ↓reduceIte, hn, hta]
    congr 2; omega
  · simp at *


theorem escapeText_nil : escapeText [] = [] := rfl

/-! ### text runs: merging adjacent texts with a pending prefix -/

def emitG {α : Type} (mk : Str → α) (p : Str) : List α := if p.isEmpty then [] else [mk p]

/-- `runsG get mk p l`: walk `l` with pending text `p`; texts are appended to the pending text, any
other item first flushes the pending text. Result: the items emitted and the final pending text. -/
def runsG {α : Type} (get : α → Option Str) (mk : Str → α) : Str → List α → List α × Str
  | p, [] => ([], p)
  | p, x :: r =>
    match get x with
    | some a => runsG get mk (p ++ a) r
    | none => (emitG mk p ++ x :: (runsG get mk [] r).1, (runsG get mk [] r).2)

theorem runsG_nil {α : Type} (get : α → Option Str) (mk : Str → α) (p : Str) :
    runsG get mk p [] = ([], p) := by simp [runsG]

theorem runsG_cons_some {α : Type} (get : α → Option Str) (mk : Str → α) (p : Str) (x : α) (r : List α)
    (a : Str) (h : get x = some a) : runsG get mk p (x :: r) = runsG get mk (p ++ a) r := by
  simp [runsG, h]

theorem runsG_cons_none {α : Type} (get : α → Option Str) (mk : Str → α) (p : Str) (x : α) (r : List α)
    (h : get x = none) :
    runsG get mk p (x :: r) = (emitG mk p ++ x :: (runsG get mk [] r).1, (runsG get mk [] r).2) := by
  simp [runsG, h]

theorem runsG_append {α : Type} (get : α → Option Str) (mk : Str → α) (xs ys : List α) (p : Str) :
    runsG get mk p (xs ++ ys)
      = ((runsG get mk p xs).1 ++ (runsG get mk (runsG get mk p xs).2 ys).1,
         (runsG get mk (runsG get mk p xs).2 ys).2) := by
  induction xs generalizing p with
  | nil => simp [runsG]
  | cons x xs ih =>
    cases h : get x with
    | some a => simp only [List.cons_append, runsG_cons_some get mk _ _ _ a h, ih]
    | none => simp only [List.cons_append, runsG_cons_none get mk _ _ _ h, ih, List.append_assoc, List.cons_append]

def Token.getText : Token → Option Str
  | .text s => some s
  | _ => none

def HNode.getText : HNode → Option Str
  | .text s => some s
  | _ => none

abbrev runsT := runsG Token.getText Token.text
abbrev emitT := emitG Token.text
abbrev runsN := runsG HNode.getText HNode.text
abbrev emitN := emitG HNode.text

/-! ### pieces: source string / token pairs -/

abbrev Piece := Str × Token

def srcOf (ps : List Piece) : Str := ps.flatMap (·.1)

theorem srcOf_cons (x : Piece) (ps : List Piece) : srcOf (x :: ps) = x.1 ++ srcOf ps := by simp [srcOf]
theorem srcOf_append (a b : List Piece) : srcOf (a ++ b) = srcOf a ++ srcOf b := by simp [srcOf]
theorem srcOf_nil : srcOf [] = [] := rfl

/-- a piece is good if it is an escaped text, or a non-text token whose source starts with `<` and
is consumed by exactly one tokenizer step -/
def GoodPiece (x : Piece) : Prop :=
  (∃ t, x = (escapeText t, Token.text t)) ∨
  (x.2.getText = none ∧ (∃ r, x.1 = 60 :: r) ∧
    ∀ fuel rest, tokenize (fuel + 1) (x.1 ++ rest) = (tokenize fuel rest).map (x.2 :: ·))

/-- tokenizing the source of good pieces, with pending (escaped) text `p` in front and any
continuation behind, yields the merged tokens and leaves the final pending text -/
theorem tokenize_pieces (ps : List Piece) (hg : ∀ x ∈ ps, GoodPiece x) :
    ∀ (p : Str) (fuel : Nat) (rest : Str),
      tokenize (fuel + (runsT p (ps.map (·.2))).1.length) (escapeText p ++ (srcOf ps ++ rest))
        = (tokenize fuel (escapeText (runsT p (ps.map (·.2))).2 ++ rest)).map
            ((runsT p (ps.map (·.2))).1 ++ ·) := by
  induction ps with
  | nil => intro p fuel rest; simp [runsG, srcOf]
  | cons x ps ih =>
    intro p fuel rest
    have ih' := ih (fun y hy => hg y (by simp [hy]))
    rcases hg x (by simp) with ⟨t, rfl⟩ | ⟨hnt, ⟨r, hr⟩, hstep⟩
    · have h1 : runsT p (((escapeText t, Token.text t) :: ps).map (·.2)) = runsT (p ++ t) (ps.map (·.2)) := by
        simp only [List.map_cons]; exact runsG_cons_some _ _ _ _ _ t rfl
      rw [h1, srcOf_cons]
      have := ih' (p ++ t) fuel rest
      rw [escapeText_append, List.append_assoc] at this
      rw [List.append_assoc]; exact this
    · obtain ⟨src, tok⟩ := x
      simp only at hnt hr hstep
      subst hr
      have h1 : runsT p (((60 :: r, tok) :: ps).map (·.2))
          = (emitT p ++ tok :: (runsT [] (ps.map (·.2))).1, (runsT [] (ps.map (·.2))).2) := by
        simp only [List.map_cons]; exact runsG_cons_none _ _ _ _ _ hnt
      rw [h1, srcOf_cons]
      have ih0 := ih' [] fuel rest
      rw [escapeText_nil, List.nil_append] at ih0
      simp only
      by_cases hp : p = []
      · subst hp
        simp only [emitG, List.isEmpty_nil, ↓reduceIte, List.nil_append, List.length_cons, escapeText_nil,
          List.append_assoc]
        rw [← Nat.add_assoc, hstep, ih0]
        cases tokenize fuel _ <;> simp
      · have hpe : p.isEmpty = false := by cases p <;> simp_all
        simp only [emitG, hpe, Bool.false_eq_true, ↓reduceIte, List.cons_append, List.nil_append,
          List.length_cons, List.append_assoc]
        rw [← Nat.add_assoc, ← Nat.add_assoc,
          tokenize_text_step _ (escapeText p) _ (escapeText_ne_nil p hp) (escapeText_no_lt p),
          ← List.cons_append, hstep, ih0, decode_escapeText]
        cases tokenize fuel _ <;> simp


/-! ### fuel: every token consumes at least one character -/

def ind (p : Str) : Nat := if p.isEmpty then 0 else 1

theorem ind_append_le (p t : Str) : ind (p ++ t) ≤ ind p + (escapeText t).length := by
  cases p with
  | cons c p => simp [ind]
  | nil =>
    cases t with
    | nil => simp [ind]
    | cons c t =>
      have := escapeText_ne_nil (c :: t) (by simp)
      have : 1 ≤ (escapeText (c :: t)).length := by
        cases h : escapeText (c :: t) with
        | nil => exact absurd h this
        | cons _ _ => simp
      simp [ind]; omega

theorem emitT_length (p : Str) : (emitT p).length = ind p := by
  cases p <;> simp [emitG, ind]

theorem pieces_bound (ps : List Piece) (hg : ∀ x ∈ ps, GoodPiece x) :
    ∀ p : Str, (runsT p (ps.map (·.2))).1.length + ind (runsT p (ps.map (·.2))).2
      ≤ ind p + (srcOf ps).length := by
  induction ps with
  | nil => intro p; simp [runsG, srcOf]
  | cons x ps ih =>
    intro p
    have ih' := ih (fun y hy => hg y (by simp [hy]))
    rcases hg x (by simp) with ⟨t, rfl⟩ | ⟨hnt, ⟨r, hr⟩, -⟩
    · have h1 : runsT p (((escapeText t, Token.text t) :: ps).map (·.2)) = runsT (p ++ t) (ps.map (·.2)) := by
        simp only [List.map_cons]; exact runsG_cons_some _ _ _ _ _ t rfl
      rw [h1, srcOf_cons]
      have := ih' (p ++ t)
      have := ind_append_le p t
      simp only [List.length_append]
      omega
    · obtain ⟨src, tok⟩ := x
      simp only at hnt hr
      subst hr
      have h1 : runsT p (((60 :: r, tok) :: ps).map (·.2))
          = (emitT p ++ tok :: (runsT [] (ps.map (·.2))).1, (runsT [] (ps.map (·.2))).2) := by
        simp only [List.map_cons]; exact runsG_cons_none _ _ _ _ _ hnt
      rw [h1, srcOf_cons]
      have := ih' []
      simp only [List.length_append, List.length_cons, emitT_length]
      have h0 : ind [] = 0 := rfl
      rw [h0] at this
      omega

/-- the tokenizer, with the fuel `parse` gives it, on the source of good pieces -/
theorem tokenize_pieces_full (ps : List Piece) (hg : ∀ x ∈ ps, GoodPiece x) :
    tokenize ((srcOf ps).length + 1) (srcOf ps)
      = some ((runsT [] (ps.map (·.2))).1 ++ emitT (runsT [] (ps.map (·.2))).2) := by
  have hb := pieces_bound ps hg []
  simp only [ind, List.isEmpty_nil, ↓reduceIte, Nat.zero_add] at hb
  generalize hT : (runsT [] (ps.map (·.2))).1 = T at hb
  generalize hq : (runsT [] (ps.map (·.2))).2 = q at hb
  have key := tokenize_pieces ps hg [] ((srcOf ps).length + 1 - T.length) []
  rw [hT, hq, escapeText_nil, List.nil_append, List.append_nil, List.append_nil] at key
  have hf : (srcOf ps).length + 1 - T.length + T.length = (srcOf ps).length + 1 := by omega
  rw [hf] at key
  rw [key]
  by_cases hqe : q = []
  · subst hqe
    obtain ⟨f, hf'⟩ : ∃ f, (srcOf ps).length + 1 - T.length = f + 1 := ⟨(srcOf ps).length - T.length, by omega⟩
    rw [hf', escapeText_nil, tokenize_nil]
    simp [emitG]
  · have hqi : q.isEmpty = false := by cases q <;> simp_all
    simp only [hqi, Bool.false_eq_true, ↓reduceIte] at hb
    obtain ⟨f, hf'⟩ : ∃ f, (srcOf ps).length + 1 - T.length = f + 1 + 1 :=
      ⟨(srcOf ps).length - T.length - 1, by omega⟩
    rw [hf', tokenize_text_end _ _ (escapeText_ne_nil q hqe) (escapeText_no_lt q), tokenize_nil,
      decode_escapeText]
    simp [emitG, hqi]


/-! ### the attribute pieces of an element -/

theorem natToStr_digits (n : Nat) : ∀ c ∈ natToStr n, 48 ≤ c ∧ c ≤ 57 := by
  intro c hc
  simp only [natToStr, List.mem_map] at hc
  obtain ⟨ch, hch, rfl⟩ := hc
  have h1 : ch ∈ Nat.toDigits 10 n := by
    have : toString n = n.repr := rfl
    rw [this, Nat.toList_repr] at hch
    exact hch
  have := Nat.isDigit_of_mem_toDigits (by decide) (by decide) h1
  simp only [Char.isDigit, Bool.and_eq_true, decide_eq_true_eq, UInt32.le_iff_toNat_le] at this
  exact this

def hkVal (s e : Nat) : Str := natToStr s ++ [46] ++ natToStr e

theorem hkVal_chars (s e : Nat) : ∀ c ∈ hkVal s e, c = 46 ∨ (48 ≤ c ∧ c ≤ 57) := by
  intro c hc
  simp only [hkVal, List.mem_append, List.mem_singleton] at hc
  rcases hc with (h | h) | h
  · exact .inr (natToStr_digits s c h)
  · exact .inl h
  · exact .inr (natToStr_digits e c h)

theorem hkVal_no_quote (s e : Nat) : 34 ∉ hkVal s e := by
  intro h; have := hkVal_chars s e 34 h; omega

theorem hkVal_no_amp (s e : Nat) : 38 ∉ hkVal s e := by
  intro h; have := hkVal_chars s e 38 h; omega

def strPieces (attrs : List (Str × Str)) : List APiece :=
  attrs.map (fun p => APiece.valued p.1 (escapeAttr p.2))

def boolPieces : List (Str × Bool) → List APiece
  | [] => []
  | (n, true) :: r => .bare n :: boolPieces r
  | (_, false) :: r => boolPieces r

def hkPieces : Option (Nat × Nat) → List APiece
  | none => []
  | some (s, e) => [.valued (lit "data-hk") (hkVal s e)]

def attrPieces (attrs : List (Str × Str)) (battrs : List (Str × Bool)) (hk : Option (Nat × Nat)) :
    List APiece := strPieces attrs ++ boolPieces battrs ++ hkPieces hk

theorem strPieces_render (attrs : List (Str × Str)) :
    (strPieces attrs).flatMap APiece.render = renderAttrs attrs := by
  induction attrs with
  | nil => rfl
  | cons a attrs ih =>
    obtain ⟨n, v⟩ := a
    simp only [strPieces] at ih
    simp [strPieces, renderAttrs, APiece.render, lit_eqq, ih]

theorem boolPieces_render (battrs : List (Str × Bool)) :
    (boolPieces battrs).flatMap APiece.render = renderBoolAttrs battrs := by
  induction battrs with
  | nil => rfl
  | cons a battrs ih =>
    obtain ⟨n, b⟩ := a
    cases b <;> simp [boolPieces, renderBoolAttrs, APiece.render, ih]

def hkStr (hk : Option (Nat × Nat)) : Str :=
  match hk with
  | some (s, e) => lit " data-hk=\"" ++ natToStr s ++ [46] ++ natToStr e ++ [34]
  | none => []

theorem hkPieces_render (hk : Option (Nat × Nat)) :
    (hkPieces hk).flatMap APiece.render = hkStr hk := by
  cases hk with
  | none => rfl
  | some p =>
    obtain ⟨s, e⟩ := p
    simp [hkPieces, hkStr, APiece.render, lit_hk, hkVal]

theorem attrPieces_render (attrs : List (Str × Str)) (battrs : List (Str × Bool)) (hk : Option (Nat × Nat)) :
    (attrPieces attrs battrs hk).flatMap APiece.render
      = renderAttrs attrs ++ renderBoolAttrs battrs ++ hkStr hk := by
  simp [attrPieces, List.flatMap_append, strPieces_render, boolPieces_render, hkPieces_render]

theorem strPieces_tok (attrs : List (Str × Str)) : (strPieces attrs).map APiece.tok = attrs := by
  induction attrs with
  | nil => rfl
  | cons a attrs ih =>
    simp only [strPieces] at ih
    simp [strPieces, APiece.tok, decode_escapeAttr, ih]

theorem boolPieces_tok (battrs : List (Str × Bool)) : (boolPieces battrs).map APiece.tok = trueBools battrs := by
  induction battrs with
  | nil => rfl
  | cons a battrs ih =>
    obtain ⟨n, b⟩ := a
    cases b <;> simp [boolPieces, trueBools, APiece.tok, ih]

theorem hkPieces_tok (hk : Option (Nat × Nat)) : (hkPieces hk).map APiece.tok = hkAttr hk := by
  cases hk with
  | none => rfl
  | some p =>
    obtain ⟨s, e⟩ := p
    simp only [hkPieces, hkAttr, List.map_cons, List.map_nil, APiece.tok]
    rw [decode_no_amp _ (hkVal_no_amp s e)]; rfl

theorem attrPieces_tok (attrs : List (Str × Str)) (battrs : List (Str × Bool)) (hk : Option (Nat × Nat)) :
    (attrPieces attrs battrs hk).map APiece.tok = attrs ++ trueBools battrs ++ hkAttr hk := by
  simp [attrPieces, strPieces_tok, boolPieces_tok, hkPieces_tok]

theorem boolPieces_ok (battrs : List (Str × Bool)) (h : ∀ p ∈ battrs, validName p.1 = true) :
    ∀ a ∈ boolPieces battrs, a.ok := by
  induction battrs with
  | nil => intro a ha; simp [boolPieces] at ha
  | cons x battrs ih =>
    obtain ⟨n, b⟩ := x
    have ih' := ih (fun p hp => h p (by simp [hp]))
    cases b with
    | false => simpa [boolPieces] using ih'
    | true =>
      intro a ha
      simp only [boolPieces, List.mem_cons] at ha
      rcases ha with rfl | ha
      · exact h (n, true) (by simp)
      · exact ih' a ha

theorem attrPieces_ok (attrs : List (Str × Str)) (battrs : List (Str × Bool)) (hk : Option (Nat × Nat))
    (h1 : ∀ p ∈ attrs, validName p.1 = true) (h2 : ∀ p ∈ battrs, validName p.1 = true) :
    ∀ a ∈ attrPieces attrs battrs hk, a.ok := by
  intro a ha
  simp only [attrPieces, List.mem_append] at ha
  rcases ha with (ha | ha) | ha
  · simp only [strPieces, List.mem_map] at ha
    obtain ⟨p, hp, rfl⟩ := ha
    exact ⟨h1 p hp, escapeAttr_no_quote p.2⟩
  · exact boolPieces_ok battrs h2 a ha
  · cases hk with
    | none => simp [hkPieces] at ha
    | some p =>
      obtain ⟨s, e⟩ := p
      simp only [hkPieces, List.mem_singleton] at ha
      subst ha
      exact ⟨by decide, hkVal_no_quote s e⟩

/-! ### pieces of a view -/

def headSrc (tag : Str) (attrs : List (Str × Str)) (battrs : List (Str × Bool)) (hk : Option (Nat × Nat)) : Str :=
  60 :: (tag ++ ((attrPieces attrs battrs hk).flatMap APiece.render ++ [62]))

def headTok (tag : Str) (attrs : List (Str × Str)) (battrs : List (Str × Bool)) (hk : Option (Nat × Nat)) : Token :=
  .startTag tag (attrs ++ trueBools battrs ++ hkAttr hk)

def closeSrc (tag : Str) : Str := 60 :: 47 :: (tag ++ [62])

def textPieces (t : Str) : List Piece := if t.isEmpty then [] else [(escapeText t, Token.text t)]

mutual
/-- source/token pieces of a node: the unmerged token stream with the rendered source of each token -/
def pieces : SsrNode → List Piece
  | .element tag attrs battrs children _ hk =>
    if isVoid tag then [(headSrc tag attrs battrs hk, headTok tag attrs battrs hk)]
    else (headSrc tag attrs battrs hk, headTok tag attrs battrs hk)
      :: (piecesList children ++ [(closeSrc tag, Token.endTag tag)])
  | .textDynamic t =>
    (lit "<!--t-->", Token.comment (lit "t")) :: (textPieces t ++ [(lit "<!-->", Token.comment [])])
  | .textStatic t => textPieces t
  | .marker => [(lit "<!--/-->", Token.comment (lit "/"))]
  | .dynamic v => piecesList v
def piecesList : SsrList → List Piece
  | .nil => []
  | .cons n rest => pieces n ++ piecesList rest
end

theorem good_head (tag : Str) (attrs : List (Str × Str)) (battrs : List (Str × Bool)) (hk : Option (Nat × Nat))
    (hv : validName tag = true)
    (h1 : ∀ p ∈ attrs, validName p.1 = true) (h2 : ∀ p ∈ battrs, validName p.1 = true) :
    GoodPiece (headSrc tag attrs battrs hk, headTok tag attrs battrs hk) := by
  refine .inr ⟨rfl, ⟨_, rfl⟩, ?_⟩
  intro fuel rest
  have := tokenize_startTag fuel tag (attrPieces attrs battrs hk) rest hv (attrPieces_ok attrs battrs hk h1 h2)
  rw [attrPieces_tok] at this
  have e : headSrc tag attrs battrs hk ++ rest
      = 60 :: (tag ++ ((attrPieces attrs battrs hk).flatMap APiece.render ++ 62 :: rest)) := by
    simp [headSrc]
  show tokenize (fuel + 1) (headSrc tag attrs battrs hk ++ rest) = _
  rw [e]; exact this

theorem good_close (tag : Str) (hv : validName tag = true) : GoodPiece (closeSrc tag, Token.endTag tag) := by
  refine .inr ⟨rfl, ⟨_, rfl⟩, ?_⟩
  intro fuel rest
  have := tokenize_endTag fuel tag rest hv
  simp only [closeSrc, List.cons_append, List.append_assoc, List.nil_append]
  exact this

theorem good_cmt_t : GoodPiece (lit "<!--t-->", Token.comment (lit "t")) :=
  .inr ⟨rfl, ⟨_, lit_cmt_t⟩, fun fuel rest => tokenize_cmt_t fuel rest⟩
theorem good_cmt_end : GoodPiece (lit "<!-->", Token.comment []) :=
  .inr ⟨rfl, ⟨_, lit_cmt_end⟩, fun fuel rest => tokenize_cmt_end fuel rest⟩
theorem good_marker : GoodPiece (lit "<!--/-->", Token.comment (lit "/")) :=
  .inr ⟨rfl, ⟨_, lit_marker⟩, fun fuel rest => tokenize_marker fuel rest⟩

theorem good_textPieces (t : Str) : ∀ x ∈ textPieces t, GoodPiece x := by
  intro x hx
  simp only [textPieces] at hx
  split at hx
  · simp at hx
  · simp only [List.mem_singleton] at hx; subst hx; exact .inl ⟨t, rfl⟩

theorem srcOf_textPieces (t : Str) : srcOf (textPieces t) = escapeText t := by
  cases t with
  | nil => rfl
  | cons c t => simp [textPieces, srcOf]

theorem WF_element (tag : Str) (attrs : List (Str × Str)) (battrs : List (Str × Bool)) (ch : SsrList)
    (inner : Option Str) (hk : Option (Nat × Nat)) (h : WF (.element tag attrs battrs ch inner hk) = true) :
    validName tag = true ∧ (∀ p ∈ attrs, validName p.1 = true) ∧ (∀ p ∈ battrs, validName p.1 = true)
    ∧ inner = none ∧ (isVoid tag = true → ch = .nil) ∧ WFList ch = true := by
  simp only [WF, Bool.and_eq_true, List.all_eq_true, Option.isNone_iff_eq_none, Bool.or_eq_true,
    Bool.not_eq_true', decide_eq_true_eq] at h
  obtain ⟨⟨⟨⟨⟨⟨a, b⟩, c⟩, _⟩, d⟩, e⟩, f⟩ := h
  refine ⟨a, b, c, d, ?_, f⟩
  intro hv
  rcases e with e | e
  · simp [hv] at e
  · cases ch with
    | nil => rfl
    | cons _ _ => simp [SsrList.isEmpty] at e

theorem render_element_void (tag : Str) (attrs : List (Str × Str)) (battrs : List (Str × Bool))
    (hk : Option (Nat × Nat)) (hV : isVoid tag = true) :
    render (.element tag attrs battrs .nil none hk) = .ok (headSrc tag attrs battrs hk) := by
  rcases hk with _ | ⟨s, e⟩ <;>
    simp [render, hV, SsrList.isEmpty, headSrc, attrPieces_render, hkStr]

theorem render_element_nonvoid (tag : Str) (attrs : List (Str × Str)) (battrs : List (Str × Bool))
    (ch : SsrList) (hk : Option (Nat × Nat)) (body : Str) (hV : ¬ isVoid tag = true)
    (hb : renderList ch = .ok body) :
    render (.element tag attrs battrs ch none hk)
      = .ok (headSrc tag attrs battrs hk ++ (body ++ closeSrc tag)) := by
  rcases hk with _ | ⟨s, e⟩ <;>
    simp [render, hV, hb, headSrc, attrPieces_render, hkStr, closeSrc, lit_close]

mutual
theorem render_pieces : ∀ n : SsrNode, WF n = true →
    render n = .ok (srcOf (pieces n)) ∧ ∀ x ∈ pieces n, GoodPiece x
  | .element tag attrs battrs ch inner hk, h => by
    obtain ⟨hv, h1, h2, hi, hvoid, hch⟩ := WF_element _ _ _ _ _ _ h
    subst hi
    have ih := renderList_pieces ch hch
    by_cases hV : isVoid tag = true
    · have := hvoid hV; subst this
      rw [render_element_void _ _ _ _ hV]
      simp only [pieces, hV, ↓reduceIte]
      refine ⟨by simp [srcOf], ?_⟩
      intro x hx
      simp only [List.mem_singleton] at hx; subst hx
      exact good_head _ _ _ _ hv h1 h2
    · rw [render_element_nonvoid _ _ _ _ _ _ hV ih.1]
      simp only [pieces, hV, Bool.false_eq_true, ↓reduceIte]
      refine ⟨by simp [srcOf_cons, srcOf_append, srcOf_nil], ?_⟩
      intro x hx
      simp only [List.mem_cons, List.mem_append, List.not_mem_nil, or_false] at hx
      rcases hx with rfl | hx | rfl
      · exact good_head _ _ _ _ hv h1 h2
      · exact ih.2 x hx
      · exact good_close tag hv
  | .textDynamic t, _ => by
    simp only [render, pieces]
    refine ⟨by simp [srcOf_cons, srcOf_append, srcOf_textPieces, srcOf_nil], ?_⟩
    intro x hx
    simp only [List.mem_cons, List.mem_append, List.not_mem_nil, or_false] at hx
    rcases hx with rfl | hx | rfl
    · exact good_cmt_t
    · exact good_textPieces t x hx
    · exact good_cmt_end
  | .textStatic t, _ => by
    simp only [render, pieces]
    exact ⟨by rw [srcOf_textPieces], good_textPieces t⟩
  | .marker, _ => by
    simp only [render, pieces]
    refine ⟨by simp [srcOf], ?_⟩
    intro x hx
    simp only [List.mem_singleton] at hx; subst hx
    exact good_marker
  | .dynamic v, h => by
    have ih := renderList_pieces v (by simpa [WF] using h)
    simp only [render, pieces]
    exact ih
theorem renderList_pieces : ∀ v : SsrList, WFList v = true →
    renderList v = .ok (srcOf (piecesList v)) ∧ ∀ x ∈ piecesList v, GoodPiece x
  | .nil, _ => by simp [renderList, piecesList, srcOf]
  | .cons n rest, h => by
    simp only [WFList, Bool.and_eq_true] at h
    have ih1 := render_pieces n h.1
    have ih2 := renderList_pieces rest h.2
    simp only [renderList, piecesList, ih1.1, ih2.1, srcOf_append]
    refine ⟨trivial, ?_⟩
    intro x hx
    rcases List.mem_append.1 hx with hx | hx
    · exact ih1.2 x hx
    · exact ih2.2 x hx
end


/-! ### merging text nodes = text runs -/

def NoEmptyText (l : List HNode) : Prop := ∀ t, HNode.text t ∈ l → t ≠ []

/-- emitted nodes plus the flushed pending text -/
def finN (p : Str) (l : List HNode) : List HNode := (runsN p l).1 ++ emitN (runsN p l).2

theorem runsN_text (p a : Str) (l : List HNode) : runsN p (.text a :: l) = runsN (p ++ a) l :=
  runsG_cons_some _ _ _ _ _ a rfl
theorem runsN_other (p : Str) (n : HNode) (l : List HNode) (h : n.getText = none) :
    runsN p (n :: l) = (emitN p ++ n :: (runsN [] l).1, (runsN [] l).2) :=
  runsG_cons_none _ _ _ _ _ h
theorem runsN_append (xs ys : List HNode) (p : Str) :
    runsN p (xs ++ ys) = ((runsN p xs).1 ++ (runsN (runsN p xs).2 ys).1, (runsN (runsN p xs).2 ys).2) :=
  runsG_append _ _ _ _ _
theorem runsT_text (p a : Str) (l : List Token) : runsT p (.text a :: l) = runsT (p ++ a) l :=
  runsG_cons_some _ _ _ _ _ a rfl
theorem runsT_other (p : Str) (n : Token) (l : List Token) (h : n.getText = none) :
    runsT p (n :: l) = (emitT p ++ n :: (runsT [] l).1, (runsT [] l).2) :=
  runsG_cons_none _ _ _ _ _ h
theorem runsT_append (xs ys : List Token) (p : Str) :
    runsT p (xs ++ ys) = ((runsT p xs).1 ++ (runsT (runsT p xs).2 ys).1, (runsT (runsT p xs).2 ys).2) :=
  runsG_append _ _ _ _ _
theorem runsN_nil (p : Str) : runsN p [] = ([], p) := runsG_nil _ _ _
theorem runsT_nil (p : Str) : runsT p [] = ([], p) := runsG_nil _ _ _

theorem finN_nil (p : Str) : finN p [] = emitN p := by simp [finN, runsN_nil]
theorem finN_text (p a : Str) (l : List HNode) : finN p (.text a :: l) = finN (p ++ a) l := by
  simp only [finN]; rw [runsN_text]
theorem finN_other (p : Str) (n : HNode) (l : List HNode) (h : n.getText = none) :
    finN p (n :: l) = emitN p ++ n :: finN [] l := by
  simp only [finN]; rw [runsN_other _ _ _ h]; simp

theorem mergeText_cons_other (n : HNode) (l : List HNode) (h : n.getText = none) :
    mergeText (n :: l) = n :: mergeText l := by
  rw [mergeText]
  intro a b r' he
  rw [he] at h; simp [HNode.getText] at h

theorem mergeText_text_other (a : Str) (n : HNode) (l : List HNode) (h : n.getText = none) :
    mergeText (.text a :: n :: l) = .text a :: mergeText (n :: l) := by
  rw [mergeText]
  intro a' b r' _ he
  simp only [List.cons.injEq] at he
  rw [he.1] at h; simp [HNode.getText] at h

theorem mergeText_single (a : Str) : mergeText [.text a] = [.text a] := by
  rw [mergeText]
  · rw [mergeText]
  · intro a' b r' _ he; simp at he

theorem mergeText_eq_fin (l : List HNode) :
    (NoEmptyText l → ∀ a, a ≠ [] → mergeText (.text a :: l) = finN a l)
    ∧ (NoEmptyText l → mergeText l = finN [] l) := by
  induction l with
  | nil =>
    refine ⟨fun _ a ha => ?_, fun _ => ?_⟩
    · have : a.isEmpty = false := by cases a <;> simp_all
      rw [finN_nil, mergeText_single]; simp [emitG, this]
    · rw [finN_nil, mergeText]; rfl
  | cons n l ih =>
    have hne : NoEmptyText (n :: l) → NoEmptyText l := fun h t ht => h t (by simp [ht])
    cases hn : n.getText with
    | some b =>
      have : n = .text b := by cases n <;> simp_all [HNode.getText]
      subst this
      refine ⟨fun h a ha => ?_, fun h => ?_⟩
      · rw [mergeText, finN_text]
        exact ih.1 (hne h) (a ++ b) (by simp [ha])
      · rw [finN_text, List.nil_append]
        exact ih.1 (hne h) b (h b (by simp))
    | none =>
      refine ⟨fun h a ha => ?_, fun h => ?_⟩
      · have : a.isEmpty = false := by cases a <;> simp_all
        rw [mergeText_text_other _ _ _ hn, mergeText_cons_other _ _ hn, finN_other _ _ _ hn, ih.2 (hne h)]
        simp [emitG, this]
      · rw [mergeText_cons_other _ _ hn, finN_other _ _ _ hn, ih.2 (hne h)]
        simp [emitG]

theorem mergeText_eq (l : List HNode) (h : NoEmptyText l) :
    mergeText l = (runsN [] l).1 ++ emitN (runsN [] l).2 := (mergeText_eq_fin l).2 h

mutual
theorem flat_noEmpty : ∀ n : SsrNode, NoEmptyText (flat n)
  | .element .., t, h => by simp [flat] at h
  | .textDynamic s, t, h => by
    simp only [flat] at h
    split at h
    · simp at h
    · simp at h; subst h; cases t <;> simp_all
  | .textStatic s, t, h => by
    simp only [flat] at h
    split at h
    · simp at h
    · simp at h; subst h; cases t <;> simp_all
  | .marker, t, h => by simp [flat] at h
  | .dynamic v, t, h => by
    simp only [flat] at h
    exact flatList_noEmpty v t h
theorem flatList_noEmpty : ∀ v : SsrList, NoEmptyText (flatList v)
  | .nil, t, h => by simp [flatList] at h
  | .cons n rest, t, h => by
    simp only [flatList, List.mem_append] at h
    rcases h with h | h
    · exact flat_noEmpty n t h
    · exact flatList_noEmpty rest t h
end

/-! ### the tree builder -/

abbrev BState := List HNode × List Frame

def pushAll : List HNode → BState → BState
  | [], s => s
  | n :: ns, s => pushAll ns (pushNode n s.1 s.2)

def bt (ts : List Token) (s : BState) : Option (List HNode) := buildTree ts s.1 s.2

theorem pushAll_append (a b : List HNode) (s : BState) : pushAll (a ++ b) s = pushAll b (pushAll a s) := by
  induction a generalizing s with
  | nil => rfl
  | cons n a ih => simp [pushAll, ih]

theorem pushAll_frame (xs : List HNode) (top : List HNode) (f : Frame) (fs : List Frame) :
    pushAll xs (top, f :: fs) = (top, { f with kids := xs.reverse ++ f.kids } :: fs) := by
  induction xs generalizing f with
  | nil => simp [pushAll]
  | cons n xs ih => simp [pushAll, pushNode, ih]

theorem pushAll_top (xs : List HNode) (top : List HNode) :
    pushAll xs (top, []) = (xs.reverse ++ top, []) := by
  induction xs generalizing top with
  | nil => simp [pushAll]
  | cons n xs ih => simp [pushAll, pushNode, ih]

theorem bt_text (s : Str) (ts : List Token) (st : BState) :
    bt (.text s :: ts) st = bt ts (pushAll [.text s] st) := by
  simp [bt, buildTree, pushAll]

theorem bt_comment (s : Str) (ts : List Token) (st : BState) :
    bt (.comment s :: ts) st = bt ts (pushAll [.comment s] st) := by
  simp [bt, buildTree, pushAll]

theorem bt_emit (p : Str) (ts : List Token) (st : BState) :
    bt (emitT p ++ ts) st = bt ts (pushAll (emitN p) st) := by
  cases p with
  | nil => simp [emitG, pushAll]
  | cons c p => simp [emitG, bt_text]

theorem bt_start_void (n : Str) (as : List (Str × Str)) (ts : List Token) (st : BState)
    (h : isVoid n = true) :
    bt (.startTag n as :: ts) st = bt ts (pushAll [.element n as []] st) := by
  simp [bt, buildTree, pushAll, h]

theorem bt_start (n : Str) (as : List (Str × Str)) (ts : List Token) (st : BState)
    (h : ¬ isVoid n = true) :
    bt (.startTag n as :: ts) st = bt ts (st.1, ⟨n, as, []⟩ :: st.2) := by
  simp [bt, buildTree, h]

theorem bt_end (n : Str) (as : List (Str × Str)) (kids : List HNode) (ts : List Token)
    (top : List HNode) (fs : List Frame) :
    bt (.endTag n :: ts) (top, ⟨n, as, kids⟩ :: fs)
      = bt ts (pushAll [.element n as kids.reverse] (top, fs)) := by
  simp [bt, buildTree, pushAll]

theorem bt_nil (top : List HNode) : bt [] (top, []) = some top.reverse := by
  simp [bt, buildTree]


/-! ### tokens of a view vs. its expected nodes -/

def toks (n : SsrNode) : List Token := (pieces n).map (·.2)
def toksList (v : SsrList) : List Token := (piecesList v).map (·.2)
def textToks (t : Str) : List Token := if t.isEmpty then [] else [.text t]
def textNodes (t : Str) : List HNode := if t.isEmpty then [] else [.text t]

theorem toksList_nil : toksList .nil = [] := rfl
theorem toksList_cons (n : SsrNode) (r : SsrList) : toksList (.cons n r) = toks n ++ toksList r := by
  simp [toksList, toks, piecesList]
theorem textPieces_toks (t : Str) : (textPieces t).map (·.2) = textToks t := by
  cases t <;> simp [textPieces, textToks]
theorem toks_textStatic (t : Str) : toks (.textStatic t) = textToks t := by
  simp [toks, pieces, textPieces_toks]
theorem toks_textDynamic (t : Str) :
    toks (.textDynamic t) = .comment (lit "t") :: (textToks t ++ [.comment []]) := by
  simp [toks, pieces, textPieces_toks]
theorem toks_marker : toks .marker = [.comment (lit "/")] := by simp [toks, pieces]
theorem toks_dynamic (v : SsrList) : toks (.dynamic v) = toksList v := by simp [toks, toksList, pieces]
theorem toks_element_void (tag : Str) (attrs : List (Str × Str)) (battrs : List (Str × Bool))
    (ch : SsrList) (inner : Option Str) (hk : Option (Nat × Nat)) (h : isVoid tag = true) :
    toks (.element tag attrs battrs ch inner hk) = [headTok tag attrs battrs hk] := by
  simp [toks, pieces, h]
theorem toks_element (tag : Str) (attrs : List (Str × Str)) (battrs : List (Str × Bool))
    (ch : SsrList) (inner : Option Str) (hk : Option (Nat × Nat)) (h : ¬ isVoid tag = true) :
    toks (.element tag attrs battrs ch inner hk)
      = headTok tag attrs battrs hk :: (toksList ch ++ [.endTag tag]) := by
  simp [toks, toksList, pieces, h]

theorem flat_textStatic (t : Str) : flat (.textStatic t) = textNodes t := by simp [flat, textNodes]
theorem flat_textDynamic (t : Str) :
    flat (.textDynamic t) = .comment (lit "t") :: (textNodes t ++ [.comment []]) := by
  simp [flat, textNodes]

theorem runsT_textToks (p t : Str) : runsT p (textToks t) = ([], p ++ t) := by
  cases t with
  | nil => simp [textToks, runsT_nil]
  | cons c t => simp [textToks, runsT_text, runsT_nil]

theorem runsN_textNodes (p t : Str) : runsN p (textNodes t) = ([], p ++ t) := by
  cases t with
  | nil => simp [textNodes, runsN_nil]
  | cons c t => simp [textNodes, runsN_text, runsN_nil]

theorem runsT_single (p : Str) (x : Token) (h : x.getText = none) : runsT p [x] = (emitT p ++ [x], []) := by
  rw [runsT_other _ _ _ h, runsT_nil]
theorem runsN_single (p : Str) (x : HNode) (h : x.getText = none) : runsN p [x] = (emitN p ++ [x], []) := by
  rw [runsN_other _ _ _ h, runsN_nil]

theorem runsT_textDynamic (p t : Str) :
    runsT p (.comment (lit "t") :: (textToks t ++ [.comment []]))
      = (emitT p ++ .comment (lit "t") :: (emitT t ++ [.comment []]), []) := by
  rw [runsT_other _ _ _ rfl, runsT_append, runsT_textToks, runsT_single _ _ rfl]
  simp

theorem runsN_textDynamic (p t : Str) :
    runsN p (.comment (lit "t") :: (textNodes t ++ [.comment []]))
      = (emitN p ++ .comment (lit "t") :: (emitN t ++ [.comment []]), []) := by
  rw [runsN_other _ _ _ rfl, runsN_append, runsN_textNodes, runsN_single _ _ rfl]
  simp

theorem bt_append_emit_comment (p c : Str) (ts : List Token) (st : BState) :
    bt (emitT p ++ .comment c :: ts) st = bt ts (pushAll (emitN p ++ [.comment c]) st) := by
  rw [bt_emit, bt_comment, pushAll_append]

mutual
theorem tree_node : ∀ n : SsrNode, WF n = true → ∀ (p : Str) (ts : List Token) (st : BState),
    (runsT p (toks n)).2 = (runsN p (flat n)).2 ∧
    bt ((runsT p (toks n)).1 ++ ts) st = bt ts (pushAll (runsN p (flat n)).1 st)
  | .element tag attrs battrs ch inner hk, h, p, ts, st => by
    obtain ⟨hv, h1, h2, hi, hvoid, hch⟩ := WF_element _ _ _ _ _ _ h
    by_cases hV : isVoid tag = true
    · have := hvoid hV; subst this
      rw [toks_element_void _ _ _ _ _ _ hV, runsT_single _ _ rfl]
      simp only [flat, flatList]
      rw [runsN_single _ _ rfl]
      refine ⟨rfl, ?_⟩
      simp only [List.append_assoc, List.cons_append, List.nil_append]
      rw [bt_emit, headTok, bt_start_void _ _ _ _ hV, pushAll_append]
      rw [mergeText]
      simp only [List.append_assoc]
    · have ih := tree_list ch hch [] (emitT (runsT [] (toksList ch)).2 ++ .endTag tag :: ts)
      rw [toks_element _ _ _ _ _ _ hV, runsT_other _ _ _ rfl, runsT_append, runsT_single _ _ rfl]
      simp only [flat]
      rw [runsN_single _ _ rfl]
      refine ⟨rfl, ?_⟩
      simp only [List.append_assoc, List.cons_append, List.nil_append]
      rw [bt_emit, headTok, bt_start _ _ _ _ hV, pushAll_append]
      generalize pushAll (emitN p) st = st1
      obtain ⟨top1, fs1⟩ := st1
      rw [(ih _).2, (ih (top1, fs1)).1, bt_emit, ← pushAll_append, pushAll_frame, bt_end]
      simp only [List.append_nil, List.reverse_reverse]
      rw [mergeText_eq _ (flatList_noEmpty ch)]
      simp only [List.append_assoc]
  | .textDynamic t, _, p, ts, st => by
    rw [toks_textDynamic, flat_textDynamic, runsT_textDynamic, runsN_textDynamic]
    refine ⟨rfl, ?_⟩
    simp only [List.append_assoc, List.cons_append, List.nil_append]
    rw [bt_append_emit_comment, bt_append_emit_comment, ← pushAll_append]
    simp
  | .textStatic t, _, p, ts, st => by
    rw [toks_textStatic, flat_textStatic, runsT_textToks, runsN_textNodes]
    exact ⟨rfl, rfl⟩
  | .marker, _, p, ts, st => by
    rw [toks_marker]
    simp only [flat]
    rw [runsT_single _ _ rfl, runsN_single _ _ rfl]
    refine ⟨rfl, ?_⟩
    simp only [List.append_assoc, List.cons_append, List.nil_append]
    rw [bt_append_emit_comment]
  | .dynamic v, h, p, ts, st => by
    have ih := tree_list v (by simpa [WF] using h) p ts st
    rw [toks_dynamic]
    simp only [flat]
    exact ih
theorem tree_list : ∀ v : SsrList, WFList v = true → ∀ (p : Str) (ts : List Token) (st : BState),
    (runsT p (toksList v)).2 = (runsN p (flatList v)).2 ∧
    bt ((runsT p (toksList v)).1 ++ ts) st = bt ts (pushAll (runsN p (flatList v)).1 st)
  | .nil, _, p, ts, st => by
    simp only [toksList_nil, flatList, runsT_nil, runsN_nil]
    exact ⟨trivial, rfl⟩
  | .cons n rest, h, p, ts, st => by
    simp only [WFList, Bool.and_eq_true] at h
    have ih1 := tree_node n h.1 p
    have ih2 := tree_list rest h.2 (runsT p (toks n)).2
    rw [toksList_cons, runsT_append]
    simp only [flatList]
    rw [runsN_append]
    refine ⟨?_, ?_⟩
    · simp only
      rw [(ih2 ts st).1, (ih1 ts st).1]
    · simp only [List.append_assoc]
      rw [(ih1 _ st).2, (ih2 ts _).2, pushAll_append, (ih1 ts st).1]
end

/-- tree level, whole document -/
theorem buildTree_toks (v : SsrList) (h : WFList v = true) :
    buildTree ((runsT [] (toksList v)).1 ++ emitT (runsT [] (toksList v)).2) [] [] = some (expected v) := by
  have := tree_list v h [] (emitT (runsT [] (toksList v)).2 ++ []) ([], [])
  have e : buildTree ((runsT [] (toksList v)).1 ++ emitT (runsT [] (toksList v)).2) [] []
      = bt ((runsT [] (toksList v)).1 ++ (emitT (runsT [] (toksList v)).2 ++ [])) ([], []) := by
    simp [bt]
  rw [e, this.2, this.1, bt_emit, ← pushAll_append, pushAll_top, bt_nil, expected,
    mergeText_eq _ (flatList_noEmpty v)]
  simp

end SycVerif.Html
