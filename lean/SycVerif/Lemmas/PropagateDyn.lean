/-
Helper lemmas for C01 on DYNAMIC dependency graphs (bodies made of `read h` and `ifpos h t e`),
under the hypothesis that no late edge appears (`Props/C01Dynamic.lean`).  Generalises
`Lemmas/Propagate.lean` (branch-free bodies):

* `PureBody`, `trackedReads`, `allReads`, `pureObs`, `pureCost`, `PureHandlesOk`;
* `pure_congr` — value, tracked reads and log of a pure body only depend on the values of the nodes
  on the branch taken;
* `execBody_pure` / `runClosure_pure` — running a pure body under a tracker;
* `RunPostD`, `runNodeUpdate_dyn` — `run_node_update` of a pure computation: the dependency list is
  REPLACED by the tracked reads of the run;
* `StructD`, `DepsCurrent`, `EvolvesD`, `LoopInvD`, `LoopInvD.skip`, `LoopInvD.run` — the loop
  invariant; the new edges of a node that just ran must come from nodes that are not pending;
* `NoLateRun` (trace hypothesis), `propagateLoop_dyn_run`; `LateOk` (static hypothesis),
  `lateOk_noLateRun`, `propagateLoop_dyn`;
* `visitStarts_sched` — the first loop, from `Up` and `NoDangling` only;
* `readOnly_pure` — read-only bodies are pure bodies without branches.

Only core Lean is used.
-/
import SycVerif.Lemmas.Propagate
namespace SycVerif.Reactive

/-! ### 1. pure bodies: `read h` and `ifpos h t e` only -/

mutual
/-- the body consists of tracked reads and branches on tracked reads only -/
def PureBody : Body → Prop
  | .nil => True
  | .cons s rest => PureStmt s ∧ PureBody rest
def PureStmt : Stmt → Prop
  | .read _ => True
  | .ifpos _ t e => PureBody t ∧ PureBody e
  | _ => False
end

mutual
/-- fuel needed to run a pure body is `pureCost b + 1`: one unit per statement, two more per
nesting level (`execStmt` → `execInner` → `execBody`) -/
def pureCost : Body → Nat
  | .nil => 0
  | .cons s rest => pureCostStmt s + pureCost rest + 1
def pureCostStmt : Stmt → Nat
  | .ifpos _ t e => pureCost t + pureCost e + 2
  | _ => 0
end

mutual
/-- the ids a pure body reads (and therefore tracks) when it is evaluated against the values stored
in `r`, in order, duplicates included: the branch actually taken is followed -/
def trackedReads (r : Root) (env : List Handle) : Body → List Id
  | .nil => []
  | .cons s rest => trackedReadsStmt r env s ++ trackedReads r env rest
def trackedReadsStmt (r : Root) (env : List Handle) : Stmt → List Id
  | .read h =>
    match env[h]? with
    | some hd => [hd.id]
    | none => []
  | .ifpos h t e =>
    match env[h]? with
    | none => []
    | some hd =>
      hd.id :: (match getUntracked r hd.id with
        | .ok v => if v > 0 then trackedReads r env t else trackedReads r env e
        | .error _ => [])
  | _ => []
end

mutual
/-- the ids a pure body can read on ANY branch (a static over-approximation of `trackedReads`) -/
def allReads (env : List Handle) : Body → List Id
  | .nil => []
  | .cons s rest => allReadsStmt env s ++ allReads env rest
def allReadsStmt (env : List Handle) : Stmt → List Id
  | .read h =>
    match env[h]? with
    | some hd => [hd.id]
    | none => []
  | .ifpos h t e =>
    (match env[h]? with
     | some hd => [hd.id]
     | none => []) ++ (allReads env t ++ allReads env e)
  | _ => []
end

mutual
/-- what a pure body logs when run on `r` -/
def pureObs (r : Root) (env : List Handle) : Body → List Obs
  | .nil => []
  | .cons s rest => pureObsStmt r env s ++ pureObs r env rest
def pureObsStmt (r : Root) (env : List Handle) : Stmt → List Obs
  | .read h =>
    match env[h]? with
    | none => []
    | some hd =>
      match getUntracked r hd.id with
      | .ok v => [Obs.read hd.id v]
      | .error _ => []
  | .ifpos h t e =>
    match env[h]? with
    | none => []
    | some hd =>
      match getUntracked r hd.id with
      | .ok v => Obs.read hd.id v :: (if v > 0 then pureObs r env t else pureObs r env e)
      | .error _ => []
  | _ => []
end

mutual
/-- every handle read on any branch exists in the environment, is a signal/memo handle, and is older
than `self` -/
def PureHandlesOk (self : Id) (env : List Handle) : Body → Prop
  | .nil => True
  | .cons s rest => PureHandlesOkStmt self env s ∧ PureHandlesOk self env rest
def PureHandlesOkStmt (self : Id) (env : List Handle) : Stmt → Prop
  | .read h => ∃ hd, env[h]? = some hd ∧ isValueKind hd.kind = true ∧ hd.id < self
  | .ifpos h t e =>
    (∃ hd, env[h]? = some hd ∧ isValueKind hd.kind = true ∧ hd.id < self) ∧
    PureHandlesOk self env t ∧ PureHandlesOk self env e
  | _ => True
end

/-! the reads on the branch taken are among the reads on all branches -/
mutual
theorem trackedReads_subset {r : Root} {env : List Handle} (b : Body) :
    ∀ id ∈ trackedReads r env b, id ∈ allReads env b := by
  cases b with
  | nil => simp [trackedReads]
  | cons s rest =>
    intro id hid
    simp only [trackedReads, allReads, List.mem_append] at hid ⊢
    rcases hid with hid | hid
    · exact .inl (trackedReadsStmt_subset s id hid)
    · exact .inr (trackedReads_subset rest id hid)
theorem trackedReadsStmt_subset {r : Root} {env : List Handle} (s : Stmt) :
    ∀ id ∈ trackedReadsStmt r env s, id ∈ allReadsStmt env s := by
  cases s with
  | read h => intro id hid; simpa [trackedReadsStmt, allReadsStmt] using hid
  | ifpos h t e =>
    intro id hid
    simp only [trackedReadsStmt, allReadsStmt] at hid ⊢
    cases he : env[h]? with
    | none => simp [he] at hid
    | some hd =>
      simp only [he, List.mem_cons] at hid
      simp only [List.mem_append, List.mem_singleton]
      rcases hid with hid | hid
      · exact .inl hid
      · right
        split at hid
        · split at hid
          · exact .inl (trackedReads_subset t id hid)
          · exact .inr (trackedReads_subset e id hid)
        · cases hid
  | _ => simp [trackedReadsStmt]
end

mutual
theorem allReads_lt {self : Id} {env : List Handle} (b : Body) (h : PureHandlesOk self env b) :
    ∀ id ∈ allReads env b, id < self := by
  cases b with
  | nil => simp [allReads]
  | cons s rest =>
    intro id hid
    simp only [PureHandlesOk] at h
    simp only [allReads, List.mem_append] at hid
    rcases hid with hid | hid
    · exact allReadsStmt_lt s h.1 id hid
    · exact allReads_lt rest h.2 id hid
theorem allReadsStmt_lt {self : Id} {env : List Handle} (s : Stmt) (h : PureHandlesOkStmt self env s) :
    ∀ id ∈ allReadsStmt env s, id < self := by
  cases s with
  | read hh =>
    intro id hid
    simp only [PureHandlesOkStmt] at h
    obtain ⟨hd, hhd, _, hlt⟩ := h
    simp only [allReadsStmt, hhd, List.mem_singleton] at hid
    subst hid; exact hlt
  | ifpos hh t e =>
    intro id hid
    simp only [PureHandlesOkStmt] at h
    obtain ⟨⟨hd, hhd, _, hlt⟩, ht, he⟩ := h
    simp only [allReadsStmt, hhd, List.mem_append, List.mem_singleton] at hid
    rcases hid with hid | hid | hid
    · subst hid; exact hlt
    · exact allReads_lt t ht id hid
    · exact allReads_lt e he id hid
  | _ => simp [allReadsStmt]
end

/-! value, tracked reads and log of a body only depend on what `getUntracked` yields for the ids
read on the branch taken -/
mutual
theorem pure_congr {r r' : Root} {env : List Handle} (b : Body)
    (h : ∀ id ∈ trackedReads r env b, getUntracked r' id = getUntracked r id) :
    trackedReads r' env b = trackedReads r env b ∧ pureObs r' env b = pureObs r env b ∧
    ∀ acc, evalPureBody r' env b acc = evalPureBody r env b acc := by
  cases b with
  | nil => simp [trackedReads, pureObs, evalPureBody]
  | cons s rest =>
    simp only [trackedReads, List.mem_append] at h
    obtain ⟨a1, a2, a3⟩ := pureStmt_congr s (fun id hid => h id (.inl hid))
    obtain ⟨b1, b2, b3⟩ := pure_congr rest (fun id hid => h id (.inr hid))
    refine ⟨by simp only [trackedReads, a1, b1], by simp only [pureObs, a2, b2], fun acc => ?_⟩
    simp only [evalPureBody, a3]
    cases evalPureStmt r env s acc with
    | none => rfl
    | some acc' => exact b3 acc'
theorem pureStmt_congr {r r' : Root} {env : List Handle} (s : Stmt)
    (h : ∀ id ∈ trackedReadsStmt r env s, getUntracked r' id = getUntracked r id) :
    trackedReadsStmt r' env s = trackedReadsStmt r env s ∧ pureObsStmt r' env s = pureObsStmt r env s ∧
    ∀ acc, evalPureStmt r' env s acc = evalPureStmt r env s acc := by
  cases s with
  | read hh =>
    simp only [trackedReadsStmt, pureObsStmt, evalPureStmt] at h ⊢
    cases he : env[hh]? with
    | none => simp
    | some hd =>
      have := h hd.id (by simp [he])
      simp [this]
  | ifpos hh t e =>
    simp only [trackedReadsStmt, pureObsStmt, evalPureStmt] at h ⊢
    cases he : env[hh]? with
    | none => simp
    | some hd =>
      simp only [he] at h ⊢
      have h1 := h hd.id (by simp)
      simp only [h1]
      cases hg : getUntracked r hd.id with
      | error _ => simp
      | ok v =>
        simp only [hg, List.mem_cons] at h ⊢
        by_cases hv : v > 0
        · simp only [hv, if_true] at h ⊢
          obtain ⟨b1, b2, b3⟩ := pure_congr t (fun id hid => h id (.inr hid))
          exact ⟨by rw [b1], by rw [b2], fun acc => b3 _⟩
        · simp only [hv, if_false] at h ⊢
          obtain ⟨b1, b2, b3⟩ := pure_congr e (fun id hid => h id (.inr hid))
          exact ⟨by rw [b1], by rw [b2], fun acc => b3 _⟩
  | _ => simp [trackedReadsStmt, pureObsStmt, evalPureStmt]
end

theorem trackedReads_congr {r r' : Root} {env : List Handle} {b : Body}
    (h : ∀ id ∈ trackedReads r env b, getUntracked r' id = getUntracked r id) :
    trackedReads r' env b = trackedReads r env b := (pure_congr b h).1

theorem pureObs_congr {r r' : Root} {env : List Handle} {b : Body}
    (h : ∀ id ∈ trackedReads r env b, getUntracked r' id = getUntracked r id) :
    pureObs r' env b = pureObs r env b := (pure_congr b h).2.1

theorem evalPure_congr {r r' : Root} {env : List Handle} {b : Body}
    (h : ∀ id ∈ trackedReads r env b, getUntracked r' id = getUntracked r id) (acc : Int) :
    evalPureBody r' env b acc = evalPureBody r env b acc := (pure_congr b h).2.2 acc

/-! ### 2. running a pure body -/

mutual
/-- **`execBody` on a pure body** under `tracker = some t`: if every node read on the branch taken
is alive and holds a value, the run succeeds, yields `evalPureBody`, appends `trackedReads` to the
tracker, logs `pureObs`, and changes nothing else in the root -/
theorem execBody_pure (b : Body) {fuel : Nat} {r : Root} {c : Ctx} {t : List Id} {self : Id}
    (hp : PureBody b) (hok : PureHandlesOk self c.env b) (ht : r.tracker = some t)
    (hal : ∀ id ∈ trackedReads r c.env b, ∃ n v, r.get? id = some n ∧ n.value = some v)
    (hf : pureCost b + 1 ≤ fuel) :
    ∃ acc, evalPureBody r c.env b c.acc = some acc ∧
      execBody fuel r c b =
        .ok ({ r with tracker := some (t ++ trackedReads r c.env b) },
             ⟨c.env, acc, c.obs ++ pureObs r c.env b⟩) := by
  cases b with
  | nil =>
    obtain ⟨f, rfl⟩ : ∃ f, fuel = f + 1 := ⟨fuel - 1, by omega⟩
    refine ⟨c.acc, by simp [evalPureBody], ?_⟩
    simp [execBody, trackedReads, pureObs, ← ht]
  | cons s rest =>
    simp only [PureBody] at hp
    simp only [PureHandlesOk] at hok
    simp only [pureCost] at hf
    obtain ⟨f, rfl⟩ : ∃ f, fuel = f + 1 := ⟨fuel - 1, by omega⟩
    obtain ⟨acc1, hev1, hex1⟩ := execStmt_pure s (fuel := f) (r := r) (c := c) (t := t) (self := self)
      hp.1 hok.1 ht (fun id hid => hal id (by simp [trackedReads, hid])) (by omega)
    obtain ⟨r1, hr1⟩ : ∃ r1 : Root, r1 = { r with tracker := some (t ++ trackedReadsStmt r c.env s) } :=
      ⟨_, rfl⟩
    have hcg : ∀ id, getUntracked r1 id = getUntracked r id := fun id => by rw [hr1]; rfl
    obtain ⟨g1, g2, g3⟩ := pure_congr (r := r) (r' := r1) (env := c.env) rest (fun id _ => hcg id)
    obtain ⟨acc, hev, hex⟩ := execBody_pure rest (fuel := f) (r := r1)
      (c := ⟨c.env, acc1, c.obs ++ pureObsStmt r c.env s⟩) (t := t ++ trackedReadsStmt r c.env s)
      (self := self) hp.2 hok.2 (by rw [hr1]) (by
        intro id hid
        rw [g1] at hid
        obtain ⟨n, v, hn, hv⟩ := hal id (by simp [trackedReads, hid])
        exact ⟨n, v, by rw [hr1]; exact hn, hv⟩) (by omega)
    refine ⟨acc, ?_, ?_⟩
    · simp only [evalPureBody, hev1]
      rw [← hev]; exact (g3 _).symm
    · rw [execBody, hex1]
      simp only [← hr1, hex, g1, g2]
      simp [hr1, trackedReads, pureObs, List.append_assoc]
theorem execStmt_pure (s : Stmt) {fuel : Nat} {r : Root} {c : Ctx} {t : List Id} {self : Id}
    (hp : PureStmt s) (hok : PureHandlesOkStmt self c.env s) (ht : r.tracker = some t)
    (hal : ∀ id ∈ trackedReadsStmt r c.env s, ∃ n v, r.get? id = some n ∧ n.value = some v)
    (hf : pureCostStmt s + 1 ≤ fuel) :
    ∃ acc, evalPureStmt r c.env s c.acc = some acc ∧
      execStmt fuel r c s =
        .ok ({ r with tracker := some (t ++ trackedReadsStmt r c.env s) },
             ⟨c.env, acc, c.obs ++ pureObsStmt r c.env s⟩) := by
  cases s with
  | read hh =>
    simp only [PureHandlesOkStmt] at hok
    obtain ⟨hd, hhd, hkind, _⟩ := hok
    obtain ⟨f, rfl⟩ : ∃ f, fuel = f + 1 := ⟨fuel - 1, by omega⟩
    obtain ⟨n, v, hn, hv⟩ := hal hd.id (by simp [trackedReadsStmt, hhd])
    have hgu : getUntracked r hd.id = .ok v := getUntracked_of_value hn hv
    have hgu' : getUntracked (track r hd.id) hd.id = .ok v := by
      simp only [track, ht]; exact hgu
    refine ⟨mix c.acc v, by simp [evalPureStmt, hhd, hgu], ?_⟩
    simp only [execStmt, lookup, hhd, hkind, Bool.not_true, Bool.false_eq_true, if_false, hgu']
    simp [track, ht, trackedReadsStmt, pureObsStmt, hhd, hgu]
  | ifpos hh tb eb =>
    simp only [PureStmt] at hp
    simp only [PureHandlesOkStmt] at hok
    simp only [pureCostStmt] at hf
    obtain ⟨⟨hd, hhd, hkind, _⟩, hokt, hoke⟩ := hok
    obtain ⟨k, rfl⟩ : ∃ k, fuel = k + 3 := ⟨fuel - 3, by omega⟩
    obtain ⟨n, v, hn, hv⟩ := hal hd.id (by simp [trackedReadsStmt, hhd])
    have hgu : getUntracked r hd.id = .ok v := getUntracked_of_value hn hv
    have hgu' : getUntracked (track r hd.id) hd.id = .ok v := by
      simp only [track, ht]; exact hgu
    have htr : track r hd.id = { r with tracker := some (t ++ [hd.id]) } := by simp [track, ht]
    obtain ⟨r1, hr1⟩ : ∃ r1 : Root, r1 = { r with tracker := some (t ++ [hd.id]) } := ⟨_, rfl⟩
    have hcg : ∀ id, getUntracked r1 id = getUntracked r id := fun id => by rw [hr1]; rfl
    obtain ⟨c1, hc1⟩ : ∃ c1 : Ctx, c1 = { c with acc := mix c.acc v, obs := c.obs ++ [.read hd.id v] } :=
      ⟨_, rfl⟩
    have hstep : execStmt (k + 3) r c (.ifpos hh tb eb) =
        if v > 0 then execInner (k + 2) r1 c1 tb else execInner (k + 2) r1 c1 eb := by
      simp only [execStmt, lookup, hhd, hkind, Bool.not_true, Bool.false_eq_true, if_false, hgu']
      rw [htr, ← hr1, ← hc1]
    rw [hstep]
    by_cases hv0 : v > 0
    · obtain ⟨g1, g2, g3⟩ := pure_congr (r := r) (r' := r1) (env := c.env) tb (fun id _ => hcg id)
      have htrk : trackedReadsStmt r c.env (.ifpos hh tb eb) = hd.id :: trackedReads r c.env tb := by
        simp [trackedReadsStmt, hhd, hgu, hv0]
      have hobs : pureObsStmt r c.env (.ifpos hh tb eb) = Obs.read hd.id v :: pureObs r c.env tb := by
        simp [pureObsStmt, hhd, hgu, hv0]
      obtain ⟨acc, hev, hex⟩ := execBody_pure tb (fuel := k + 1) (r := r1) (c := c1) (t := t ++ [hd.id])
        (self := self) hp.1 (by rw [hc1]; exact hokt) (by rw [hr1]) (by
          intro id hid
          have : c1.env = c.env := by rw [hc1]
          rw [this, g1] at hid
          obtain ⟨n, v, hn, hv⟩ := hal id (by rw [htrk]; simp [hid])
          exact ⟨n, v, by rw [hr1]; exact hn, hv⟩) (by omega)
      have he1 : c1.env = c.env := by rw [hc1]
      have ha1 : c1.acc = mix c.acc v := by rw [hc1]
      have ho1 : c1.obs = c.obs ++ [.read hd.id v] := by rw [hc1]
      rw [he1, ha1, g3] at hev
      rw [he1, ho1, g1, g2] at hex
      refine ⟨acc, by simp [evalPureStmt, hhd, hgu, hv0, hev], ?_⟩
      simp only [hv0, if_true, execInner, hex, htrk, hobs, he1]
      simp [hr1, List.append_assoc]
    · obtain ⟨g1, g2, g3⟩ := pure_congr (r := r) (r' := r1) (env := c.env) eb (fun id _ => hcg id)
      have htrk : trackedReadsStmt r c.env (.ifpos hh tb eb) = hd.id :: trackedReads r c.env eb := by
        simp [trackedReadsStmt, hhd, hgu, hv0]
      have hobs : pureObsStmt r c.env (.ifpos hh tb eb) = Obs.read hd.id v :: pureObs r c.env eb := by
        simp [pureObsStmt, hhd, hgu, hv0]
      obtain ⟨acc, hev, hex⟩ := execBody_pure eb (fuel := k + 1) (r := r1) (c := c1) (t := t ++ [hd.id])
        (self := self) hp.2 (by rw [hc1]; exact hoke) (by rw [hr1]) (by
          intro id hid
          have : c1.env = c.env := by rw [hc1]
          rw [this, g1] at hid
          obtain ⟨n, v, hn, hv⟩ := hal id (by rw [htrk]; simp [hid])
          exact ⟨n, v, by rw [hr1]; exact hn, hv⟩) (by omega)
      have he1 : c1.env = c.env := by rw [hc1]
      have ha1 : c1.acc = mix c.acc v := by rw [hc1]
      have ho1 : c1.obs = c.obs ++ [.read hd.id v] := by rw [hc1]
      rw [he1, ha1, g3] at hev
      rw [he1, ho1, g1, g2] at hex
      refine ⟨acc, by simp [evalPureStmt, hhd, hgu, hv0, hev], ?_⟩
      simp only [hv0, if_false, execInner, hex, htrk, hobs, he1]
      simp [hr1, List.append_assoc]
  | _ => simp [PureStmt] at hp
end

/-- **`runClosure` on a pure body** (4a) -/
theorem runClosure_pure {fuel : Nat} {r : Root} {cl : Closure} {t : List Id} {self : Id}
    (hp : PureBody cl.body) (hok : PureHandlesOk self cl.env cl.body) (ht : r.tracker = some t)
    (hal : ∀ id ∈ trackedReads r cl.env cl.body, ∃ n v, r.get? id = some n ∧ n.value = some v)
    (hf : pureCost cl.body + 2 ≤ fuel) :
    ∃ v, evalPureBody r cl.env cl.body 0 = some v ∧
      runClosure fuel r cl =
        .ok ({ r with tracker := some (t ++ trackedReads r cl.env cl.body) }, v,
             pureObs r cl.env cl.body) := by
  obtain ⟨f, rfl⟩ : ∃ f, fuel = f + 1 := ⟨fuel - 1, by omega⟩
  obtain ⟨acc, hev, hex⟩ := execBody_pure cl.body (fuel := f) (r := r) (c := ⟨cl.env, 0, []⟩) (t := t)
    (self := self) hp hok ht hal (by omega)
  exact ⟨acc, hev, by simp [runClosure, hex]⟩

/-! ### 3. the structural invariant -/

/-- the shape of one node of a program made of signals/scopes and pure computations; unlike
`NodeOk` the dependency list is only required to lie within the reads of the body (it is the list of
tracked reads of the node's latest run, see `DepsCurrent`) -/
structure DynNodeOk (r : Root) (j : Id) (n : Node) : Prop where
  /-- no node is "taken out" -/
  value : n.value.isSome = true
  /-- signals and scopes depend on nothing -/
  plain : n.callback = none → n.dependencies = []
  /-- computations: pure body over older value handles that are all alive, nothing owned, and the
  dependency list lies within the reads of the body -/
  comp : ∀ eq cl, n.callback = some (eq, cl) →
    n.children = [] ∧ n.cleanups = [] ∧ PureBody cl.body ∧ PureHandlesOk j cl.env cl.body ∧
    (∀ d ∈ allReads cl.env cl.body, r.alive d = true) ∧
    (∀ d ∈ n.dependencies, d ∈ allReads cl.env cl.body)

/-- the part of `DynArena` that does not mention marks, dirty flags, consistency or the exact
dependency lists -/
structure StructD (r : Root) : Prop where
  nd : NoDangling r
  sym : EdgesSym r
  node : ∀ j n, r.get? j = some n → DynNodeOk r j n

theorem StructD.deps_lt {r : Root} (h : StructD r) {j : Id} {n : Node} (hn : r.get? j = some n) :
    ∀ d ∈ n.dependencies, d < j := by
  intro d hd
  have hk := h.node j n hn
  cases hc : n.callback with
  | none => rw [hk.plain hc] at hd; cases hd
  | some p =>
    obtain ⟨eq, cl⟩ := p
    obtain ⟨_, _, _, hok, _, hdeps⟩ := hk.comp eq cl hc
    exact allReads_lt _ hok d (hdeps d hd)

theorem StructD.dependents_gt {r : Root} (h : StructD r) {j : Id} {n : Node} (hn : r.get? j = some n) :
    ∀ d ∈ n.dependents, j < d := by
  intro d hd
  obtain ⟨nd, hnd⟩ := Root.alive_iff.1 ((h.nd j n hn).1 d hd)
  exact h.deps_lt hnd j ((mem_dependents_iff h.sym hn hnd).1 hd)

theorem StructD.up {r : Root} (h : StructD r) : Up r := fun _ _ hn => h.dependents_gt hn

/-! ### 4. `runNodeUpdate` on a pure computation -/

/-- what `runNodeUpdate` does to a pure computation `cur` in a `StructD` state: as `RunPost`, but the
dependency list of `cur` becomes `newdeps` -/
structure RunPostD (r : Root) (cur : Id) (vfinal : Int) (changed : Bool) (newdeps : List Id) (ev : Event)
    (r' : Root) : Prop where
  dead : ∀ j, r.get? j = none → r'.get? j = none
  node : ∀ j m, r.get? j = some m → ∃ m', r'.get? j = some m' ∧
      m'.callback = m.callback ∧ m'.children = m.children ∧
      m'.cleanups = m.cleanups ∧ m'.parent = m.parent ∧ m'.mark = m.mark ∧
      (j ≠ cur → m'.dependencies = m.dependencies ∧ m'.value = m.value ∧ m'.context = m.context ∧
         m'.dirty = (m.dirty || (changed && decide (cur ∈ m.dependencies)))) ∧
      (j = cur → m'.dependencies = newdeps ∧ m'.value = some vfinal ∧ m'.dirty = false)
  nd : NoDangling r'
  sym : EdgesSym r'
  frame : r'.nodes.size = r.nodes.size ∧ r'.tracker = r.tracker ∧ r'.current = r.current ∧
    r'.rootNode = r.rootNode ∧ r'.queue = r.queue ∧ r'.batching = r.batching ∧ r'.nextTag = r.nextTag
  trace : r'.trace = r.trace ++ [ev]

/-- **`runNodeUpdate` on a pure computation** (4b): the node's value becomes `evalPureBody` of the
current values (or stays, if the selector's `eq` accepts) and its dependency list becomes
`trackedReads` of the current values -/
theorem runNodeUpdate_dyn {fuel : Nat} {r : Root} {cur : Id} {n : Node} {eq : EqKind} {cl : Closure}
    {old : Int} (hS : StructD r) (hn : r.get? cur = some n) (hcb : n.callback = some (eq, cl))
    (hv : n.value = some old) (hf : pureCost cl.body + 3 ≤ fuel) :
    ∃ new r', evalPureBody r cl.env cl.body 0 = some new ∧ runNodeUpdate fuel r cur = .ok r' ∧
      RunPostD r cur (if eqHolds eq new old then old else new) (!eqHolds eq new old)
        (trackedReads r cl.env cl.body) (.run cur (pureObs r cl.env cl.body) new) r' := by
  obtain ⟨f, rfl⟩ : ∃ f, fuel = f + 1 := ⟨fuel - 1, by omega⟩
  obtain ⟨hch, hcl, hpure, hok, halive, _⟩ := (hS.node cur n hn).comp eq cl hcb
  -- A: unlink
  obtain ⟨rA, hU, hgA, hfreshA, _, ndA, symA, sfA⟩ := unlink_spec hS.nd hS.sym hn
  have hnA : rA.get? cur = some (unlinked cur cur n) := by rw [hgA, hn]; rfl
  -- B: take callback and value out
  obtain ⟨nB, hnBdef⟩ : ∃ nB, nB = takenOut (unlinked cur cur n) := ⟨_, rfl⟩
  obtain ⟨rB, hrB⟩ : ∃ rB, rB = rA.setNode cur nB := ⟨_, rfl⟩
  have hgB : ∀ j, rB.get? j = if j = cur then some nB else rA.get? j := by
    intro j; rw [hrB, Dfs.get?_setNode_of_get? hnA]
  have hnB : rB.get? cur = some nB := by rw [hgB, if_pos rfl]
  have hedB := setNode_sameEdges_preserves (n' := nB) hnA (by rw [hnBdef]; rfl) (by rw [hnBdef]; rfl)
  rw [← hrB] at hedB
  have sfB : SameFrame rA rB := by rw [hrB]; exact SameFrame.setNode ..
  -- C: disposeChildren
  obtain ⟨rC, hdC, hgC, sfC⟩ := disposeChildren_leaf (fuel := f) hnB
    (by rw [hnBdef]; simpa [unlinked, takenOut] using hch)
    (by rw [hnBdef]; simpa [unlinked, takenOut] using hcl) (by omega)
  have hedC : (NoDangling rB → NoDangling rC) ∧ (EdgesSym rB → EdgesSym rC) := by
    apply sameEdges_preserves
    intro j
    by_cases hj : j = cur
    · exact ⟨fun m => { m with context := [] }, fun _ => ⟨rfl, rfl⟩, by rw [hgC, if_pos hj, hj, hnB]; rfl⟩
    · exact ⟨id, fun _ => ⟨rfl, rfl⟩, by rw [hgC, if_neg hj]; simp⟩
  have ndC := hedC.1 (hedB.1 ndA)
  have symC := hedC.2 (hedB.2 symA)
  have sfrC : SameFrame r rC := sfA.trans (sfB.trans sfC)
  have hnC : rC.get? cur = some { nB with context := [] } := by rw [hgC, if_pos rfl]
  have hgCr : ∀ id, id ≠ cur → rC.get? id = (r.get? id).map (unlinked cur id) := by
    intro id hne; rw [hgC, if_neg hne, hgB, if_neg hne, hgA]
  -- D: run the body
  have hreads : ∀ id ∈ allReads cl.env cl.body,
      id ≠ cur ∧ ∃ m v, r.get? id = some m ∧ m.value = some v := by
    intro id hid
    have hlt := allReads_lt _ hok id hid
    obtain ⟨m, hm⟩ := Root.alive_iff.1 (halive id hid)
    obtain ⟨v, hv⟩ := Option.isSome_iff_exists.1 (hS.node id m hm).value
    exact ⟨Nat.ne_of_lt hlt, m, v, hm, hv⟩
  obtain ⟨rC', hrC'⟩ : ∃ rC' : Root, rC' = { rC with current := some cur, tracker := some [] } := ⟨_, rfl⟩
  have hgu : ∀ id ∈ allReads cl.env cl.body, getUntracked rC' id = getUntracked r id := by
    intro id hid
    obtain ⟨hne, m, v, hm, hv⟩ := hreads id hid
    rw [getUntracked_of_value hm hv]
    refine getUntracked_of_value (n := unlinked cur id m) ?_ hv
    rw [hrC']
    show rC.get? id = _
    rw [hgCr id hne, hm]; rfl
  obtain ⟨g1, g2, g3⟩ := pure_congr (r := r) (r' := rC') (env := cl.env) cl.body
    (fun id hid => hgu id (trackedReads_subset _ id hid))
  obtain ⟨new, hev, hrun⟩ := runClosure_pure (fuel := f) (r := rC') (t := []) (self := cur) hpure hok
    (by rw [hrC'])
    (by
      intro id hid
      rw [g1] at hid
      obtain ⟨hne, m, v, hm, hv⟩ := hreads id (trackedReads_subset _ id hid)
      refine ⟨unlinked cur id m, v, ?_, hv⟩
      rw [hrC']
      show rC.get? id = _
      rw [hgCr id hne, hm]; rfl)
    (by omega)
  rw [g3] at hev
  rw [g1, g2, hrC'] at hrun
  have hdC' : disposeChildren f (rA.setNode cur { unlinked cur cur n with callback := none, value := none }) cur
      = .ok rC := by rw [hrB, hnBdef] at hdC; exact hdC
  have hrn := runNodeUpdate_unfold hn hU hnA (by simpa [unlinked] using hcb) (by simpa [unlinked] using hv)
    hdC' hnC hrun
  -- E/F: link and restore
  obtain ⟨rE, hrE⟩ : ∃ rE : Root, rE =
      { rC with trace := rC.trace ++ [.run cur (pureObs r cl.env cl.body) new] } := ⟨_, rfl⟩
  have hrn' : runNodeUpdate (f + 1) r cur =
      .ok (finishLink rE (trackedReads r cl.env cl.body) cur eq cl old new) := by rw [hrn, hrE]; rfl
  have hgE : ∀ j, rE.get? j = rC.get? j := fun j => by rw [hrE]; rfl
  have hedE := edges_of_get?_eq hgE
  have hnE : rE.get? cur = some { nB with context := [] } := by rw [hgE, hnC]
  obtain ⟨hdead, hnode, ndR, symR, sfR⟩ := finishLink_spec (eq := eq) (cl := cl) (old := old) (new := new)
    (hedE.1 ndC) (hedE.2 symC) hnE
    (by rw [hnBdef]; simp [unlinked, takenOut])
    (by
      intro j nj hj
      rw [hgE, hgC] at hj
      split at hj
      · cases hj; rw [hnBdef]; exact hfreshA cur (unlinked cur cur n) hnA
      · rw [hgB] at hj; split at hj
        · contradiction
        · exact hfreshA j nj hj)
    (deps := trackedReads r cl.env cl.body)
    (by
      intro d hd
      obtain ⟨hne, m, v, hm, _⟩ := hreads d (trackedReads_subset _ d hd)
      rw [Root.alive_iff, hgE, hgCr d hne, hm]; exact ⟨_, rfl⟩)
    (fun hc => (hreads cur (trackedReads_subset _ cur hc)).1 rfl)
  refine ⟨new, _, hev, hrn', ?_⟩
  obtain ⟨s1, s2, s3, s4, s5, s6, s7, s8⟩ := sfrC
  obtain ⟨t1, t2, t3, t4, t5, t6, t7, t8⟩ := sfR
  have hE : rE.nodes.size = rC.nodes.size ∧ rE.tracker = rC.tracker ∧ rE.current = rC.current ∧
      rE.rootNode = rC.rootNode ∧ rE.queue = rC.queue ∧ rE.batching = rC.batching ∧
      rE.nextTag = rC.nextTag ∧ rE.trace = rC.trace ++ [.run cur (pureObs r cl.env cl.body) new] := by
    rw [hrE]; exact ⟨rfl, rfl, rfl, rfl, rfl, rfl, rfl, rfl⟩
  obtain ⟨e1, e2, e3, e4, e5, e6, e7, e8⟩ := hE
  refine ⟨?_, ?_, ndR, symR, ⟨by omega, t2.trans (e2.trans s2), t3.trans (e3.trans s3),
    t4.trans (e4.trans s4), t5.trans (e5.trans s5), t6.trans (e6.trans s6), t7.trans (e7.trans s7)⟩,
    by rw [t8, e8, s8]⟩
  · intro j hj
    apply hdead
    rw [hgE, hgC]
    split
    · subst j; rw [hn] at hj; cases hj
    · rw [hgB]; split
      · contradiction
      · rw [hgA, hj]; rfl
  · intro j m hm
    by_cases hj : j = cur
    · subst hj
      rw [hn] at hm; cases hm
      obtain ⟨m', hm', c1, c2, c3, c4, c5, _, c7⟩ := hnode j _ hnE
      obtain ⟨d1, d2, d3, d4⟩ := c7 rfl
      refine ⟨m', hm', ?_, ?_, ?_, ?_, ?_, fun h => absurd rfl h, fun _ => ⟨d3, d2, d4⟩⟩
      · rw [d1, hcb]
      · rw [c1, hnBdef]; rfl
      · rw [c2, hnBdef]; rfl
      · rw [c3, hnBdef]; rfl
      · rw [c4, hnBdef]; rfl
    · have hmE : rE.get? j = some (unlinked cur j m) := by rw [hgE, hgCr j hj, hm]; rfl
      obtain ⟨m', hm', c1, c2, c3, c4, c5, c6, _⟩ := hnode j _ hmE
      obtain ⟨d1, d2, d3, d4⟩ := c6 hj
      refine ⟨m', hm', d1, c1, c2, c3, c4, fun _ => ⟨?_, d2, c5, ?_⟩, fun h => absurd h hj⟩
      · rw [d3]; simp [unlinked, hj]
      · rw [d4]; simp [unlinked, hj]

/-! ### 5. transformers that only touch `mark` and `dirty` -/

theorem FlagsRel.alive_eq {r r' : Root} (h : FlagsRel r r') (j : Id) : r'.alive j = r.alive j := by
  obtain ⟨g, _, e⟩ := h j
  simp [Root.alive, e]

theorem FlagsRel.edges {r r' : Root} (h : FlagsRel r r') :
    (NoDangling r → NoDangling r') ∧ (EdgesSym r → EdgesSym r') :=
  sameEdges_preserves fun j => by
    obtain ⟨g, hg, e⟩ := h j
    exact ⟨g, fun m => ⟨(hg m).2.2.2.2.1, (hg m).2.2.2.2.2.1⟩, e⟩

theorem FlagsRel.structD {r r' : Root} (h : FlagsRel r r') (hS : StructD r) : StructD r' := by
  refine ⟨h.edges.1 hS.nd, h.edges.2 hS.sym, fun j m' hm' => ?_⟩
  obtain ⟨m, hm, e1, e2, e3, _, _, e6, e7, _⟩ := h.bwd hm'
  have hk := hS.node j m hm
  refine ⟨by rw [e1]; exact hk.value, fun hc => by rw [e6]; exact hk.plain (e2 ▸ hc), fun eq cl hc => ?_⟩
  obtain ⟨a1, a2, a3, a4, a5, a6⟩ := hk.comp eq cl (e2 ▸ hc)
  exact ⟨e3.trans a1, e7.trans a2, a3, a4, fun d hd => by rw [h.alive_eq]; exact a5 d hd,
    fun d hd => a6 d (e6 ▸ hd)⟩

/-- the dependency list of `n` is the list of tracked reads of its body on the current values: the
reads of its latest run are the reads of a run now -/
def DepsCurrent (r : Root) (n : Node) : Prop :=
  ∀ eq cl, n.callback = some (eq, cl) → n.dependencies = trackedReads r cl.env cl.body

/-- local consistency and `DepsCurrent` only look at the node itself and at the values of what its
body reads on the branch taken -/
theorem settled_congr {r r' : Root} {j : Id} {n n' : Node} (hn : r.get? j = some n)
    (hn' : r'.get? j = some n') (hc : n'.callback = n.callback) (hv : n'.value = n.value)
    (hd : n'.dependencies = n.dependencies)
    (hb : ∀ eq cl, n.callback = some (eq, cl) →
      ∀ id ∈ trackedReads r cl.env cl.body, getUntracked r' id = getUntracked r id)
    (h : locallyConsistent r j ∧ DepsCurrent r n) : locallyConsistent r' j ∧ DepsCurrent r' n' := by
  obtain ⟨h1, h2⟩ := h
  constructor
  · unfold locallyConsistent at *
    rw [hn']; rw [hn] at h1
    simp only [hc, hv]
    cases hcb : n.callback with
    | none => simp
    | some p =>
      obtain ⟨eq, cl⟩ := p
      cases hval : n.value with
      | none => simp
      | some v =>
        simp only [evalPure_congr (hb eq cl hcb)]
        simpa [hcb, hval] using h1
  · intro eq cl hcb
    rw [hc] at hcb
    rw [hd, h2 eq cl hcb, trackedReads_congr (hb eq cl hcb)]

theorem FlagsRel.settled {r r' : Root} (h : FlagsRel r r') {j : Id} {n n' : Node}
    (hn : r.get? j = some n) (hn' : r'.get? j = some n')
    (hl : Reactive.locallyConsistent r j ∧ DepsCurrent r n) :
    Reactive.locallyConsistent r' j ∧ DepsCurrent r' n' := by
  obtain ⟨n'', hn'', e1, e2, _, _, _, e6, _⟩ := h.fwd hn
  rw [hn'] at hn''; cases hn''
  exact settled_congr hn hn' e2 e1 e6 (fun _ _ _ id _ => h.getUntracked id) hl

/-! ### 6. the schedule -/

theorem Sched.mono_mem {dep dep' : Id → Id → Prop} :
    ∀ {l : List Id}, (∀ i ∈ l, ∀ d, dep' i d → dep i d) → Sched dep l → Sched dep' l
  | [], _, _ => trivial
  | i :: _, h, ⟨h1, h2, h3⟩ =>
    ⟨h1, fun d hd => h2 d (h i (by simp) d hd), Sched.mono_mem (fun j hj => h j (by simp [hj])) h3⟩

/-- in a schedule every `dep`-successor of a member is a member -/
theorem Sched.mem_of_dep {dep : Id → Id → Prop} :
    ∀ {l : List Id}, Sched dep l → ∀ i ∈ l, ∀ d, dep i d → d ∈ l
  | [], _, i, hi, _, _ => by cases hi
  | a :: rest, ⟨_, h2, h3⟩, i, hi, d, hd => by
    rcases List.mem_cons.1 hi with rfl | hi
    · exact List.mem_cons_of_mem _ (h2 d hd)
    · exact List.mem_cons_of_mem _ (Sched.mem_of_dep h3 i hi d hd)

theorem depsOf_of_get? {r : Root} {j : Id} {n : Node} (h : r.get? j = some n) :
    depsOf r j = n.dependencies := by simp [depsOf, h]

/-! ### 7. what a propagation may change (dynamic graphs) -/

/-- as `Evolves`, but a computation that ran may have a new dependency list -/
structure EvolvesD (r r' : Root) (ran : List Event) : Prop where
  frame : r'.nodes.size = r.nodes.size ∧ r'.tracker = r.tracker ∧ r'.current = r.current ∧
    r'.rootNode = r.rootNode ∧ r'.queue = r.queue ∧ r'.batching = r.batching ∧ r'.nextTag = r.nextTag
  trace : r'.trace = r.trace ++ ran
  runs : ∀ e ∈ ran, ∃ id obs v, e = .run id obs v
  dead : ∀ j, r.get? j = none → r'.get? j = none
  node : ∀ j m, r.get? j = some m → ∃ m', r'.get? j = some m' ∧
    m'.callback = m.callback ∧ m'.children = m.children ∧
    m'.cleanups = m.cleanups ∧ m'.parent = m.parent ∧
    (m.callback = none → m'.value = m.value ∧ m'.dependencies = m.dependencies) ∧
    (j ∉ runIds ran → m'.value = m.value ∧ m'.dependencies = m.dependencies)

theorem Evolves.toD {r r' : Root} {ran : List Event} (h : Evolves r r' ran) : EvolvesD r r' ran := by
  refine ⟨h.frame, h.trace, h.runs, h.dead, fun j m hm => ?_⟩
  obtain ⟨m', hm', c1, c2, c3, c4, c5, c6, c7⟩ := h.node j m hm
  exact ⟨m', hm', c1, c3, c4, c5, fun hc => ⟨c6 hc, c2⟩, fun hj => ⟨c7 hj, c2⟩⟩

theorem EvolvesD.trans {a b c : Root} {r1 r2 : List Event} (h1 : EvolvesD a b r1) (h2 : EvolvesD b c r2) :
    EvolvesD a c (r1 ++ r2) := by
  obtain ⟨a1, a2, a3, a4, a5, a6, a7⟩ := h1.frame
  obtain ⟨b1, b2, b3, b4, b5, b6, b7⟩ := h2.frame
  refine ⟨⟨b1.trans a1, b2.trans a2, b3.trans a3, b4.trans a4, b5.trans a5, b6.trans a6, b7.trans a7⟩,
    by rw [h2.trace, h1.trace, List.append_assoc], ?_, fun j hj => h2.dead j (h1.dead j hj), ?_⟩
  · intro e he
    rcases List.mem_append.1 he with he | he
    · exact h1.runs e he
    · exact h2.runs e he
  · intro j m hm
    obtain ⟨m1, hm1, c1, c3, c4, c5, c6, c7⟩ := h1.node j m hm
    obtain ⟨m2, hm2, d1, d3, d4, d5, d6, d7⟩ := h2.node j m1 hm1
    refine ⟨m2, hm2, d1.trans c1, d3.trans c3, d4.trans c4, d5.trans c5,
      fun hc => ⟨(d6 (c1.trans hc)).1.trans (c6 hc).1, (d6 (c1.trans hc)).2.trans (c6 hc).2⟩, fun hj => ?_⟩
    rw [runIds_append, List.mem_append, not_or] at hj
    exact ⟨(d7 hj.2).1.trans (c7 hj.1).1, (d7 hj.2).2.trans (c7 hj.1).2⟩

theorem RunPostD.evolvesD {r r' : Root} {cur : Id} {vf : Int} {ch : Bool} {nd : List Id} {obs : List Obs}
    {v : Int} {n : Node} (h : RunPostD r cur vf ch nd (.run cur obs v) r') (hn : r.get? cur = some n)
    (hc : n.callback ≠ none) : EvolvesD r r' [.run cur obs v] := by
  refine ⟨h.frame, h.trace, fun e he => ⟨cur, obs, v, by simpa using he⟩, h.dead, fun j m hm => ?_⟩
  obtain ⟨m', hm', c1, c3, c4, c5, _, c7, _⟩ := h.node j m hm
  refine ⟨m', hm', c1, c3, c4, c5, fun hcn => ?_, fun hj => ?_⟩
  · have hj : j ≠ cur := by rintro rfl; rw [hn] at hm; cases hm; exact hc hcn
    exact ⟨(c7 hj).2.1, (c7 hj).1⟩
  · have hj : j ≠ cur := by simpa [runIds] using hj
    exact ⟨(c7 hj).2.1, (c7 hj).1⟩

/-- every body costs at most `B` -/
def PureBound (r : Root) (B : Nat) : Prop :=
  ∀ j n eq cl, r.get? j = some n → n.callback = some (eq, cl) → pureCost cl.body ≤ B

theorem EvolvesD.pureBound {r r' : Root} {ran : List Event} (h : EvolvesD r r' ran) {B : Nat}
    (hb : PureBound r B) : PureBound r' B := by
  intro j n' eq cl hn' hc
  cases hm : r.get? j with
  | none => rw [h.dead j hm] at hn'; cases hn'
  | some m =>
    obtain ⟨m', hm', c1, _⟩ := h.node j m hm
    rw [hn'] at hm'; cases hm'
    exact hb j m eq cl hm (c1 ▸ hc)

/-! ### 8. the loop invariant -/

/-- the state of `propagateLoop` with `Pn` still to be visited: every clean node is consistent and
its dependency list is current; every live dependent of a pending node is pending and later -/
structure LoopInvD (r : Root) (Pn : List Id) : Prop where
  struct : StructD r
  marks : ∀ j n, r.get? j = some n → n.mark = if j ∈ Pn then .perm else .none
  pend : ∀ j ∈ Pn, r.alive j = true
  dirty : ∀ j n, r.get? j = some n → n.dirty = true → j ∈ Pn ∧ n.callback ≠ none
  cons : ∀ j n, r.get? j = some n → n.dirty = false → locallyConsistent r j ∧ DepsCurrent r n
  sched : Sched (fun i d => i ∈ depsOf r d) Pn

/-- clearing the mark of the head of the schedule when it is not dirty -/
theorem LoopInvD.skip {r : Root} {node : Id} {rest : List Id} {n : Node} (h : LoopInvD r (node :: rest))
    (hn : r.get? node = some n) (hd : n.dirty = false) :
    LoopInvD (r.setNode node { n with mark := .none }) rest := by
  have hF := Frame.setMark hn .none
  have hR := hF.flagsRel
  obtain ⟨hnot, _, hsch⟩ := h.sched
  have hget := Dfs.get?_setNode_of_get? hn { n with mark := .none }
  refine ⟨hR.structD h.struct, ?_, ?_, ?_, ?_, ?_⟩
  · intro j m hm
    rw [hget] at hm
    split at hm
    · subst j; cases hm; simp [hnot]
    · rename_i hj; rw [h.marks j m hm]; simp [hj]
  · intro j hj; rw [hF.alive]; exact h.pend j (by simp [hj])
  · intro j m hm hdm
    rw [hget] at hm
    split at hm
    · cases hm; simp [hd] at hdm
    · rename_i hj
      obtain ⟨h1, h2⟩ := h.dirty j m hm hdm
      exact ⟨by simpa [hj] using h1, h2⟩
  · intro j m hm hdm
    have hm' := hm
    rw [hget] at hm
    split at hm
    · subst j; cases hm; exact hR.settled hn hm' (h.cons _ n hn hd)
    · exact hR.settled hm hm' (h.cons j m hm hdm)
  · refine Sched.mono (fun i d hd => ?_) hsch
    rwa [depsOf_eq (fun j m hm => ?_) (fun j hj => hR.dead hj)] at hd
    obtain ⟨m', hm', _, _, _, _, _, e, _⟩ := hR.fwd hm
    exact ⟨m', hm', e⟩

/-- running the (dirty) head of the schedule, when none of the nodes it reads is still pending -/
theorem LoopInvD.run {r r3 : Root} {node : Id} {rest : List Id} {n : Node} {eq : EqKind} {cl : Closure}
    {old new : Int} {obs : List Obs} (h : LoopInvD r (node :: rest)) (hn : r.get? node = some n)
    (hcb : n.callback = some (eq, cl)) (hv : n.value = some old)
    (hev : evalPureBody (r.setNode node { n with mark := .none }) cl.env cl.body 0 = some new)
    (hP : RunPostD (r.setNode node { n with mark := .none }) node (if eqHolds eq new old then old else new)
      (!eqHolds eq new old) (trackedReads (r.setNode node { n with mark := .none }) cl.env cl.body)
      (.run node obs new) r3)
    (hlate : ∀ d ∈ trackedReads (r.setNode node { n with mark := .none }) cl.env cl.body, d ∉ rest) :
    LoopInvD r3 rest := by
  have hF := Frame.setMark hn .none
  have hR := hF.flagsRel
  obtain ⟨hnot, hdeps, hsch⟩ := h.sched
  obtain ⟨r2, hr2⟩ : ∃ r2, r2 = r.setNode node { n with mark := .none } := ⟨_, rfl⟩
  rw [← hr2] at hF hR hev hP hlate
  have hget : ∀ j, r2.get? j = if j = node then some { n with mark := .none } else r.get? j := by
    intro j; rw [hr2]; exact Dfs.get?_setNode_of_get? hn _ j
  have hn2 : r2.get? node = some { n with mark := .none } := by rw [hget, if_pos rfl]
  have hS2 := hR.structD h.struct
  have hother : ∀ j, j ≠ node → r2.get? j = r.get? j := fun j hj => by rw [hget, if_neg hj]
  obtain ⟨_, _, hpure, hok, _, _⟩ := (h.struct.node node n hn).comp eq cl hcb
  have hrlt : ∀ id ∈ trackedReads r2 cl.env cl.body, id ≠ node := fun id hid =>
    Nat.ne_of_lt (allReads_lt _ hok id (trackedReads_subset _ id hid))
  -- every node of `r3` comes from a node of `r2`
  have back : ∀ j m3, r3.get? j = some m3 → ∃ m2, r2.get? j = some m2 ∧
      m3.callback = m2.callback ∧ m3.children = m2.children ∧
      m3.cleanups = m2.cleanups ∧ m3.mark = m2.mark ∧
      (j ≠ node → m3.dependencies = m2.dependencies ∧ m3.value = m2.value ∧
        m3.dirty = (m2.dirty || (!eqHolds eq new old && decide (node ∈ m2.dependencies)))) ∧
      (j = node → m3.dependencies = trackedReads r2 cl.env cl.body ∧
        m3.value = some (if eqHolds eq new old then old else new) ∧ m3.dirty = false) := by
    intro j m3 hm3
    cases hm2 : r2.get? j with
    | none => rw [hP.dead j hm2] at hm3; cases hm3
    | some m2 =>
      obtain ⟨m', hm', c1, c3, c4, _, c6, c7, c8⟩ := hP.node j m2 hm2
      rw [hm3] at hm'; cases hm'
      exact ⟨m2, rfl, c1, c3, c4, c6, fun hj => ⟨(c7 hj).1, (c7 hj).2.1, (c7 hj).2.2.2⟩, c8⟩
  have halive3 : ∀ d, r2.alive d = true → r3.alive d = true := by
    intro d hd
    obtain ⟨m, hm⟩ := Root.alive_iff.1 hd
    obtain ⟨m', hm', _⟩ := hP.node d m hm
    exact Root.alive_iff.2 ⟨m', hm'⟩
  -- values seen by `getUntracked`
  have hval : ∀ id, (id ≠ node ∨ eqHolds eq new old = true) → getUntracked r3 id = getUntracked r2 id := by
    intro id hid
    apply getUntracked_congr
    cases hm2 : r2.get? id with
    | none => rw [hP.dead id hm2]
    | some m2 =>
      obtain ⟨m', hm', _, _, _, _, _, c7, c8⟩ := hP.node id m2 hm2
      rw [hm']
      by_cases hj : id = node
      · subst hj
        rw [hn2] at hm2; cases hm2
        rcases hid with hid | hid
        · exact absurd rfl hid
        · simp [(c8 rfl).2.1, hid, hv]
      · simp [(c7 hj).2.1]
  -- dependency lists of the other nodes
  have hdepsOf : ∀ j, j ≠ node → depsOf r3 j = depsOf r j := by
    intro j hj
    cases hm : r.get? j with
    | none =>
      have h2 : r2.get? j = none := by rw [hother j hj, hm]
      simp [depsOf, hm, hP.dead j h2]
    | some m =>
      have h2 : r2.get? j = some m := by rw [hother j hj, hm]
      obtain ⟨m', hm', _, _, _, _, _, c7, _⟩ := hP.node j m h2
      rw [depsOf_of_get? hm', depsOf_of_get? hm, (c7 hj).1]
  refine ⟨⟨hP.nd, hP.sym, fun j m3 hm3 => ?_⟩, ?_, ?_, ?_, ?_, ?_⟩
  · -- DynNodeOk
    obtain ⟨m2, hm2, c1, c3, c4, _, c7, c8⟩ := back j m3 hm3
    have hk := hS2.node j m2 hm2
    refine ⟨?_, fun hc => ?_, fun eq' cl' hc => ?_⟩
    · by_cases hj : j = node
      · rw [(c8 hj).2.1]; rfl
      · rw [(c7 hj).2.1]; exact hk.value
    · have hj : j ≠ node := by
        rintro rfl; rw [hn2] at hm2; cases hm2; rw [c1] at hc; simp [hcb] at hc
      rw [(c7 hj).1]; exact hk.plain (c1 ▸ hc)
    · obtain ⟨a1, a2, a3, a4, a5, a6⟩ := hk.comp eq' cl' (c1 ▸ hc)
      refine ⟨c3.trans a1, c4.trans a2, a3, a4, fun d hd => halive3 d (a5 d hd), fun d hd => ?_⟩
      by_cases hj : j = node
      · subst hj
        rw [hn2] at hm2; cases hm2
        have : (eq', cl') = (eq, cl) := by
          have := c1 ▸ hc; simpa [hcb] using this.symm
        cases this
        rw [(c8 rfl).1] at hd
        exact trackedReads_subset _ d hd
      · rw [(c7 hj).1] at hd; exact a6 d hd
  · -- marks
    intro j m3 hm3
    obtain ⟨m2, hm2, _, _, _, c6, _⟩ := back j m3 hm3
    rw [c6]
    rw [hget] at hm2
    split at hm2
    · subst j; cases hm2; simp [hnot]
    · rename_i hj; rw [h.marks j m2 hm2]; simp [hj]
  · -- pending nodes are alive
    intro j hj
    apply halive3
    rw [hF.alive]; exact h.pend j (by simp [hj])
  · -- dirty nodes are pending computations
    intro j m3 hm3 hd3
    obtain ⟨m2, hm2, c1, _, _, _, c7, c8⟩ := back j m3 hm3
    by_cases hj : j = node
    · rw [(c8 hj).2.2] at hd3; cases hd3
    · rw [hother j hj] at hm2
      rw [(c7 hj).2.2] at hd3
      rw [c1]
      cases hdm : m2.dirty with
      | true =>
        obtain ⟨h1, h2⟩ := h.dirty j m2 hm2 hdm
        exact ⟨by simpa [hj] using h1, h2⟩
      | false =>
        simp only [hdm, Bool.false_or, Bool.and_eq_true, decide_eq_true_eq] at hd3
        refine ⟨hdeps j (by simp [depsOf, hm2, hd3.2]), fun hc => ?_⟩
        rw [(h.struct.node j m2 hm2).plain hc] at hd3
        exact absurd hd3.2 (by simp)
  · -- clean nodes are consistent and their dependency lists are current
    intro j m3 hm3 hd3
    obtain ⟨m2, hm2, c1, _, _, _, c7, c8⟩ := back j m3 hm3
    by_cases hj : j = node
    · subst hj
      rw [hn2] at hm2; cases hm2
      have hcg : ∀ id ∈ trackedReads r2 cl.env cl.body, getUntracked r3 id = getUntracked r2 id :=
        fun id hid => hval id (.inl (hrlt id hid))
      have hfresh : evalPureBody r3 cl.env cl.body 0 = some new := by
        rw [evalPure_congr hcg]; exact hev
      have hc3 : m3.callback = some (eq, cl) := c1.trans hcb
      constructor
      · unfold locallyConsistent
        simp only [hm3, hc3, (c8 rfl).2.1, hfresh]
        cases hq : eqHolds eq new old <;> simp [hq]
      · intro eq' cl' hc'
        rw [hc3] at hc'; cases hc'
        rw [(c8 rfl).1, trackedReads_congr hcg]
    · have hm2' := hm2
      rw [hother j hj] at hm2
      have hdm : m2.dirty = false := by
        rw [(c7 hj).2.2] at hd3; cases hx : m2.dirty <;> simp [hx] at hd3 ⊢
      have hl2 := hR.settled hm2 hm2' (h.cons j m2 hm2 hdm)
      refine settled_congr hm2' hm3 c1 (c7 hj).2.1 (c7 hj).1 (fun eq' cl' hc id hid => hval id ?_) hl2
      by_cases hid' : id = node
      · right
        rw [(c7 hj).2.2, hdm] at hd3
        rw [← hl2.2 eq' cl' hc, hid'] at hid
        simpa [hid] using hd3
      · exact .inl hid'
  · -- the schedule: the new edges of `node` come from nodes that are not pending
    refine Sched.mono_mem (fun i hi d hd => ?_) hsch
    by_cases hdn : d = node
    · subst hdn
      obtain ⟨m2', hm2', _⟩ := hP.node d _ hn2
      obtain ⟨m2, hm2, _, _, _, _, _, c8⟩ := back d m2' hm2'
      rw [depsOf_of_get? hm2', (c8 rfl).1] at hd
      exact absurd hi (hlate i hd)
    · rwa [hdepsOf d hdn] at hd

/-! ### 9. the loop -/

/-- the ids the computation `j` reads if it is run now (`[]` for other nodes) -/
def readsNow (r : Root) (j : Id) : List Id :=
  match r.get? j with
  | some n =>
    match n.callback with
    | some (_, cl) => trackedReads r cl.env cl.body
    | none => []
  | none => []

/-- the ids the computation `j` can read on any branch (`[]` for other nodes) -/
def allReadsOf (r : Root) (j : Id) : List Id :=
  match r.get? j with
  | some n =>
    match n.callback with
    | some (_, cl) => allReads cl.env cl.body
    | none => []
  | none => []

/-- **the trace hypothesis**: along the run of `propagateLoop fuel r Pn` (same control flow as the
model function), no computation reads, at the moment it is re-run, a node that is still waiting in
the schedule -/
def NoLateRun : Nat → Root → List Id → Prop
  | 0, _, _ => True
  | _ + 1, _, [] => True
  | fuel + 1, r, node :: rest =>
    match r.get? node with
    | none => NoLateRun fuel r rest
    | some n =>
      if n.dirty then
        (∀ d ∈ readsNow (r.setNode node { n with mark := .none }) node, d ∉ rest) ∧
        (match runNodeUpdate fuel (r.setNode node { n with mark := .none }) node with
         | .error _ => True
         | .ok r3 => NoLateRun fuel r3 rest)
      else NoLateRun fuel (r.setNode node { n with mark := .none }) rest

/-- one iteration of the loop on a dirty head none of whose reads is pending -/
theorem LoopInvD.step_run {r : Root} {node : Id} {rest : List Id} {n : Node} {f B : Nat}
    (h : LoopInvD r (node :: rest)) (hn : r.get? node = some n) (hd : n.dirty = true)
    (hB : PureBound r B) (hf : B + 3 ≤ f)
    (hlate : ∀ d ∈ readsNow (r.setNode node { n with mark := .none }) node, d ∉ rest) :
    ∃ r3 obs new, runNodeUpdate f (r.setNode node { n with mark := .none }) node = .ok r3 ∧
      LoopInvD r3 rest ∧ EvolvesD r r3 [.run node obs new] := by
  have hF := Frame.setMark hn .none
  have hrunI := fun eq cl old new obs r3 => h.run (r3 := r3) (eq := eq) (cl := cl) (old := old) (new := new)
    (obs := obs) hn
  have hn2 : (r.setNode node { n with mark := .none }).get? node = some { n with mark := .none } := by
    rw [Dfs.get?_setNode_of_get? hn, if_pos rfl]
  obtain ⟨r2, hr2⟩ : ∃ r2, r2 = r.setNode node { n with mark := .none } := ⟨_, rfl⟩
  rw [← hr2] at hF hrunI hn2 hlate ⊢
  obtain ⟨n2, hn2def⟩ : ∃ n2 : Node, n2 = { n with mark := .none } := ⟨_, rfl⟩
  rw [← hn2def] at hn2
  have hc2 : n2.callback = n.callback := by rw [hn2def]
  have hv2 : n2.value = n.value := by rw [hn2def]
  clear hr2 hn2def
  obtain ⟨_, hcn⟩ := h.dirty node n hn hd
  obtain ⟨⟨eq, cl⟩, hcb⟩ := Option.ne_none_iff_exists'.1 hcn
  obtain ⟨old, hv⟩ := Option.isSome_iff_exists.1 (h.struct.node node n hn).value
  have hS2 := hF.flagsRel.structD h.struct
  obtain ⟨new, r3, hev, hrn, hP⟩ := runNodeUpdate_dyn (fuel := f) (eq := eq) (cl := cl) (old := old)
    hS2 hn2 (hc2.trans hcb) (hv2.trans hv) (by have := hB node n eq cl hn hcb; omega)
  have hrn2 : readsNow r2 node = trackedReads r2 cl.env cl.body := by
    simp [readsNow, hn2, hc2, hcb]
  rw [hrn2] at hlate
  have hI3 := hrunI _ _ _ _ _ _ hcb hv hev hP hlate
  have hE3 := hP.evolvesD hn2 (by simp [hc2, hcb])
  exact ⟨r3, _, new, hrn, hI3, by simpa using hF.evolves.toD.trans hE3⟩

/-- **the propagation loop under the trace hypothesis**: from a state satisfying the loop invariant,
if along the run no computation reads a node that is still pending, the loop terminates without
panic in a state where nothing is pending, having run each scheduled node at most once -/
theorem propagateLoop_dyn_run : ∀ (Pn : List Id) (r : Root) (fuel B : Nat), LoopInvD r Pn →
    NoLateRun fuel r Pn → PureBound r B → Pn.length + B + 4 ≤ fuel →
    ∃ r' ran, propagateLoop fuel r Pn = .ok r' ∧ LoopInvD r' [] ∧ EvolvesD r r' ran ∧
      (runIds ran).Sublist Pn
  | [], r, fuel, B, h, _, _, hf => by
    obtain ⟨f, rfl⟩ : ∃ f, fuel = f + 1 := ⟨fuel - 1, by omega⟩
    exact ⟨r, [], by rw [propagateLoop], h, (Frame.refl r).evolves.toD, List.Sublist.refl _⟩
  | node :: rest, r, fuel, B, h, hL, hB, hf => by
    obtain ⟨f, rfl⟩ : ∃ f, fuel = f + 1 := ⟨fuel - 1, by omega⟩
    simp only [List.length_cons] at hf
    obtain ⟨n, hn⟩ := Root.alive_iff.1 (h.pend node (by simp))
    have hF := Frame.setMark hn .none
    have hB2 := hF.evolves.toD.pureBound hB
    rw [propagateLoop]
    simp only [NoLateRun, hn] at hL
    simp only [hn]
    by_cases hd : n.dirty = true
    · rw [if_pos hd] at hL ⊢
      obtain ⟨r3, obs, new, hrn, hI3, hE3⟩ := h.step_run (f := f) hn hd hB (by omega) hL.1
      have hL3 := hL.2
      rw [hrn] at hL3
      obtain ⟨r', ran, hrun, hI, hE, hsub⟩ := propagateLoop_dyn_run rest r3 f B hI3 hL3
        (hE3.pureBound hB) (by omega)
      refine ⟨r', .run node obs new :: ran, by simp [hrn, hrun], hI, ?_, ?_⟩
      · simpa using hE3.trans hE
      · simpa [runIds] using hsub
    · rw [if_neg hd] at hL ⊢
      have hd' : n.dirty = false := by simpa using hd
      obtain ⟨r', ran, hrun, hI, hE, hsub⟩ := propagateLoop_dyn_run rest _ f B (h.skip hn hd') hL hB2 (by omega)
      refine ⟨r', ran, hrun, hI, ?_, hsub.cons _⟩
      simpa using hF.evolves.toD.trans hE

/-! ### 10. the static hypothesis implies the trace hypothesis -/

/-- every pending node that a pending computation can read on ANY branch is already one of its
dependencies (so it is earlier in the schedule) -/
def LateOk (r : Root) (Pn : List Id) : Prop :=
  ∀ c ∈ Pn, ∀ d ∈ allReadsOf r c, d ∈ Pn → d ∈ depsOf r c

theorem readsNow_subset (r : Root) (j : Id) : ∀ d ∈ readsNow r j, d ∈ allReadsOf r j := by
  intro d hd
  unfold readsNow at hd
  unfold allReadsOf
  split at hd
  · split at hd
    · exact trackedReads_subset _ d hd
    · cases hd
  · cases hd

theorem EvolvesD.allReadsOf_eq {r r' : Root} {ran : List Event} (h : EvolvesD r r' ran) (j : Id) :
    allReadsOf r' j = allReadsOf r j := by
  unfold allReadsOf
  cases hm : r.get? j with
  | none => rw [h.dead j hm]
  | some m => obtain ⟨m', hm', c1, _⟩ := h.node j m hm; simp only [hm', c1]

theorem EvolvesD.depsOf_eq {r r' : Root} {ran : List Event} (h : EvolvesD r r' ran) {j : Id}
    (hj : j ∉ runIds ran) : depsOf r' j = depsOf r j := by
  unfold depsOf
  cases hm : r.get? j with
  | none => rw [h.dead j hm]
  | some m => obtain ⟨m', hm', _, _, _, _, _, c7⟩ := h.node j m hm; simp only [hm', (c7 hj).2]

/-- `LateOk` for the rest of the schedule after the head has been processed -/
theorem LateOk.tail {r r' : Root} {ran : List Event} {node : Id} {rest : List Id}
    (hE : EvolvesD r r' ran) (hran : ∀ j ∈ runIds ran, j = node) (hnot : node ∉ rest)
    (h : LateOk r (node :: rest)) : LateOk r' rest := by
  intro c hc d hd hdr
  have hcn : c ∉ runIds ran := fun hm => hnot (hran c hm ▸ hc)
  rw [hE.allReadsOf_eq] at hd
  rw [hE.depsOf_eq hcn]
  exact h c (by simp [hc]) d hd (by simp [hdr])

/-- under `LateOk` the head of the schedule reads no pending node -/
theorem LateOk.head {r : Root} {node : Id} {rest : List Id} (hI : LoopInvD r (node :: rest))
    (h : LateOk r (node :: rest)) {r2 : Root} (hF : Frame r r2) :
    ∀ d ∈ readsNow r2 node, d ∉ rest := by
  intro d hd hdr
  obtain ⟨hnot, _, hsch⟩ := hI.sched
  have hd' := readsNow_subset r2 node d hd
  rw [hF.evolves.toD.allReadsOf_eq] at hd'
  have hdep := h node (by simp) d hd' (by simp [hdr])
  exact hnot (Sched.mem_of_dep hsch d hdr node hdep)

theorem lateOk_noLateRun : ∀ (Pn : List Id) (r : Root) (fuel B : Nat), LoopInvD r Pn → LateOk r Pn →
    PureBound r B → Pn.length + B + 4 ≤ fuel → NoLateRun fuel r Pn
  | [], r, fuel, B, _, _, _, hf => by
    obtain ⟨f, rfl⟩ : ∃ f, fuel = f + 1 := ⟨fuel - 1, by omega⟩
    simp [NoLateRun]
  | node :: rest, r, fuel, B, h, hL, hB, hf => by
    obtain ⟨f, rfl⟩ : ∃ f, fuel = f + 1 := ⟨fuel - 1, by omega⟩
    simp only [List.length_cons] at hf
    obtain ⟨n, hn⟩ := Root.alive_iff.1 (h.pend node (by simp))
    have hF := Frame.setMark hn .none
    have hB2 := hF.evolves.toD.pureBound hB
    have hnot := h.sched.1
    simp only [NoLateRun, hn]
    by_cases hd : n.dirty = true
    · rw [if_pos hd]
      have hlate := hL.head h hF
      obtain ⟨r3, obs, new, hrn, hI3, hE3⟩ := h.step_run (f := f) hn hd hB (by omega) hlate
      refine ⟨hlate, ?_⟩
      rw [hrn]
      exact lateOk_noLateRun rest r3 f B hI3 (hL.tail hE3 (by simp [runIds]) hnot)
        (hE3.pureBound hB) (by omega)
    · rw [if_neg hd]
      have hd' : n.dirty = false := by simpa using hd
      exact lateOk_noLateRun rest _ f B (h.skip hn hd')
        (hL.tail hF.evolves.toD (by simp [runIds]) hnot) hB2 (by omega)

/-- **the propagation loop under the static hypothesis** -/
theorem propagateLoop_dyn (Pn : List Id) (r : Root) (fuel B : Nat) (hI : LoopInvD r Pn)
    (hL : LateOk r Pn) (hB : PureBound r B) (hf : Pn.length + B + 4 ≤ fuel) :
    ∃ r' ran, propagateLoop fuel r Pn = .ok r' ∧ LoopInvD r' [] ∧ EvolvesD r r' ran ∧
      (runIds ran).Sublist Pn :=
  propagateLoop_dyn_run Pn r fuel B hI (lateOk_noLateRun Pn r fuel B hI hL hB hf) hB hf

/-! ### 11. scheduling: `visitStarts` for one start node, from `Up` and `NoDangling` only -/

/-- `visitStarts_static` + `visitStarts_reach` without the static node shape: on an unmarked arena
whose subscriber edges go up and do not dangle, the first loop of `propagate_node_updates` for the
single start node `s` does not fail and schedules exactly the nodes reachable from `s` -/
theorem visitStarts_sched {r : Root} {s : Id} (hu : Up r) (hnd : NoDangling r) (hm : Unmarked r)
    (hs : r.alive s = true) :
    ∃ rD buf, visitStarts r [] [s] = .ok (markDependentsDirty rD s, buf) ∧ Scheduled r s rD buf ∧
      ∀ i, i ∈ buf ↔ Reach r s i := by
  have hNT : NoTemp r := fun i n hi ht => by rw [hm i n hi] at ht; cases ht
  have hI : DInv r [] := ⟨hNT, fun i n hi hp => by rw [hm i n hi] at hp; cases hp⟩
  obtain ⟨rD, buf, hdfs⟩ := dfs_total hu hNT [] s
  obtain ⟨hP, _⟩ := dfs_post hdfs
  obtain ⟨hD, hin⟩ := dfs_topological hI hdfs
  obtain ⟨hN, hB⟩ := dfs_nodup List.nodup_nil (fun i hi => by cases hi) hdfs
  have hndD := hP.frame.flagsRel.edges.1 hnd
  have hSch : Scheduled r s rD buf := by
    obtain ⟨ns, hns⟩ := Root.alive_iff.1 hs
    refine ⟨hP.frame, hN, hin hs, ?_, ?_, ?_, markDependentsDirty_get? rD s,
      by simpa using dfs_last hdfs hns (hm s ns hns)⟩
    · intro j n hj
      by_cases hb : j ∈ buf
      · obtain ⟨n', hn', hp⟩ := hB j hb
        rw [hj] at hn'; cases hn'; simp [hb, hp]
      · simp only [hb, if_false]
        obtain ⟨n0, hn0, _⟩ := hP.frame.get?_bwd hj
        obtain ⟨n', hn', hmm⟩ := hP.marks j n0 hn0
        rw [hj] at hn'; cases hn'
        rcases hmm with e | ⟨_, e⟩
        · rw [e]; exact hm j n0 hn0
        · exact absurd (hD.2 j n hj e).1 hb
    · intro i hi
      obtain ⟨n, hn, _⟩ := hB i hi
      exact Root.alive_iff.2 ⟨n, hn⟩
    · intro i hi n hn d hd
      obtain ⟨n', hn', hp⟩ := hB i hi
      rw [hn] at hn'; cases hn'
      exact (hD.2 i n hn hp).2 d hd ((hndD i n hn).1 d hd)
  refine ⟨rD, buf, by simp [visitStarts, hdfs], hSch, fun i => ⟨dfs_reach hdfs i, fun hr => ?_⟩⟩
  have hr' := hSch.frame.reach_fwd hr
  clear hr
  induction hr' with
  | refl => exact hSch.start
  | step _ hn hd ih => exact (hSch.order _ ih _ hn _ hd).mem_left

/-! ### 12. bounds -/

theorem exists_pureBound (r : Root) : ∃ B, PureBound r B := by
  have key : ∀ k, ∃ B, ∀ j n eq cl, j < k → r.get? j = some n → n.callback = some (eq, cl) →
      pureCost cl.body ≤ B := by
    intro k
    induction k with
    | zero => exact ⟨0, fun _ _ _ _ h => absurd h (Nat.not_lt_zero _)⟩
    | succ k ih =>
      obtain ⟨B, hB⟩ := ih
      have hb : ∃ b, ∀ n eq cl, r.get? k = some n → n.callback = some (eq, cl) → pureCost cl.body ≤ b := by
        cases hk : r.get? k with
        | none => exact ⟨0, fun _ _ _ h => by cases h⟩
        | some n =>
          cases hc : n.callback with
          | none => exact ⟨0, fun n' _ _ h h' => by cases h; rw [hc] at h'; cases h'⟩
          | some p =>
            exact ⟨pureCost p.2.body, fun n' eq cl h h' => by
              cases h; rw [hc] at h'; cases h'; exact Nat.le_refl _⟩
      obtain ⟨b, hb⟩ := hb
      refine ⟨max B b, fun j n eq cl hj hn hc => ?_⟩
      by_cases hjk : j = k
      · subst hjk; have := hb n eq cl hn hc; omega
      · have := hB j n eq cl (Nat.lt_of_le_of_ne (Nat.le_of_lt_succ hj) hjk) hn hc; omega
  obtain ⟨B, hB⟩ := key r.nodes.size
  exact ⟨B, fun j n eq cl hn hc => hB j n eq cl (Root.lt_size_of_get? hn) hn hc⟩

/-! ### 13. read-only bodies are pure bodies without branches -/

theorem readOnly_pure {b : Body} (h : ReadOnly b) :
    PureBody b ∧ pureCost b = roBodyLen b ∧
    (∀ env, allReads env b = bodyReads env b) ∧
    (∀ r env, trackedReads r env b = bodyReads env b ∧ pureObs r env b = bodyObs r env b) ∧
    (∀ self env, ReadHandlesOk self env b → PureHandlesOk self env b) := by
  fun_induction roBodyLen b with
  | case1 => simp [PureBody, pureCost, allReads, trackedReads, pureObs, bodyReads, bodyObs, PureHandlesOk]
  | case2 s rest ih =>
    obtain ⟨h1, h2⟩ := h
    obtain ⟨hh, hs⟩ := Option.isSome_iff_exists.1 h1
    have hs' := Stmt.readHandle?_eq_some.1 hs
    subst hs'
    obtain ⟨i1, i2, i3, i4, i5⟩ := ih h2
    refine ⟨by simp [PureBody, PureStmt, i1], by simp [pureCost, pureCostStmt, i2], fun env => ?_,
      fun r env => ⟨?_, ?_⟩, fun self env hok => ?_⟩
    · simp only [allReads, allReadsStmt, bodyReads, Stmt.readHandle?, i3]
      cases env[hh]? <;> rfl
    · simp only [trackedReads, trackedReadsStmt, bodyReads, Stmt.readHandle?, (i4 r env).1]
      cases env[hh]? <;> rfl
    · simp only [pureObs, pureObsStmt, bodyObs, Stmt.readHandle?, (i4 r env).2]
      cases env[hh]? <;> rfl
    · obtain ⟨k1, k2⟩ := hok
      exact ⟨by simpa [PureHandlesOkStmt] using k1 hh rfl, i5 self env k2⟩

end SycVerif.Reactive
