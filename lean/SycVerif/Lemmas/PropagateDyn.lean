/-
Helper lemmas for C01 on DYNAMIC dependency graphs (bodies made of `read h` and `ifpos h t e`),
under the hypothesis that no late edge appears (`Props/C01Dynamic.lean`).  Generalises
`Lemmas/Propagate.lean` (branch-free bodies):

* `PureBody`, `trackedReads`, `allReads`, `pureObs`, `pureCost`, `PureHandlesOk`;
* `pure_congr` — value, tracked reads and log of a pure body only depend on the values of the nodes
  on the branch taken;
* `execBody_pure` / `runClosure_pure` — running a pure body under a tracker;
* `RunPostD`, `runNodeUpdate_dyn` — `run_node_update` of a pure computation: the dependency list is
  REPLACED by the tracked reads of the run;
* `StructD`, `LoopInvD`, `LoopInvD.skip`, `LoopInvD.run`, `propagateLoop_dyn` — the loop invariant;
* `visitStarts_sched` — the first loop, from `Up` and `NoDangling` only.

Only core Lean is used.
-/
import SycVerif.Lemmas.Propagate
namespace SycVerif.Reactive

/-! ### 1. pure bodies: `read h` and `ifpos h t e` only -/

mutual
/-- the body consists of tracked reads and branches on tracked reads only -/
def PureBody : Body → Prop
  | .nil => True
  | .cons s rest => PureStmt s ∧ PureBody rest
def PureStmt : Stmt → Prop
  | .read _ => True
  | .ifpos _ t e => PureBody t ∧ PureBody e
  | _ => False
end

mutual
/-- fuel needed to run a pure body is `pureCost b + 1`: one unit per statement, two more per
nesting level (`execStmt` → `execInner` → `execBody`) -/
def pureCost : Body → Nat
  | .nil => 0
  | .cons s rest => pureCostStmt s + pureCost rest + 1
def pureCostStmt : Stmt → Nat
  | .ifpos _ t e => pureCost t + pureCost e + 2
  | _ => 0
end

mutual
/-- the ids a pure body reads (and therefore tracks) when it is evaluated against the values stored
in `r`, in order, duplicates included: the branch actually taken is followed -/
def trackedReads (r : Root) (env : List Handle) : Body → List Id
  | .nil => []
  | .cons s rest => trackedReadsStmt r env s ++ trackedReads r env rest
def trackedReadsStmt (r : Root) (env : List Handle) : Stmt → List Id
  | .read h =>
    match env[h]? with
    | some hd => [hd.id]
    | none => []
  | .ifpos h t e =>
    match env[h]? with
    | none => []
    | some hd =>
      hd.id :: (match getUntracked r hd.id with
        | .ok v => if v > 0 then trackedReads r env t else trackedReads r env e
        | .error _ => [])
  | _ => []
end

mutual
/-- the ids a pure body can read on ANY branch (a static over-approximation of `trackedReads`) -/
def allReads (env : List Handle) : Body → List Id
  | .nil => []
  | .cons s rest => allReadsStmt env s ++ allReads env rest
def allReadsStmt (env : List Handle) : Stmt → List Id
  | .read h =>
    match env[h]? with
    | some hd => [hd.id]
    | none => []
  | .ifpos h t e =>
    (match env[h]? with
     | some hd => [hd.id]
     | none => []) ++ (allReads env t ++ allReads env e)
  | _ => []
end

mutual
/-- what a pure body logs when run on `r` -/
def pureObs (r : Root) (env : List Handle) : Body → List Obs
  | .nil => []
  | .cons s rest => pureObsStmt r env s ++ pureObs r env rest
def pureObsStmt (r : Root) (env : List Handle) : Stmt → List Obs
  | .read h =>
    match env[h]? with
    | none => []
    | some hd =>
      match getUntracked r hd.id with
      | .ok v => [Obs.read hd.id v]
      | .error _ => []
  | .ifpos h t e =>
    match env[h]? with
    | none => []
    | some hd =>
      match getUntracked r hd.id with
      | .ok v => Obs.read hd.id v :: (if v > 0 then pureObs r env t else pureObs r env e)
      | .error _ => []
  | _ => []
end

mutual
/-- every handle read on any branch exists in the environment, is a signal/memo handle, and is older
than `self` -/
def PureHandlesOk (self : Id) (env : List Handle) : Body → Prop
  | .nil => True
  | .cons s rest => PureHandlesOkStmt self env s ∧ PureHandlesOk self env rest
def PureHandlesOkStmt (self : Id) (env : List Handle) : Stmt → Prop
  | .read h => ∃ hd, env[h]? = some hd ∧ isValueKind hd.kind = true ∧ hd.id < self
  | .ifpos h t e =>
    (∃ hd, env[h]? = some hd ∧ isValueKind hd.kind = true ∧ hd.id < self) ∧
    PureHandlesOk self env t ∧ PureHandlesOk self env e
  | _ => True
end

/-! the reads on the branch taken are among the reads on all branches -/
mutual
theorem trackedReads_subset {r : Root} {env : List Handle} (b : Body) :
    ∀ id ∈ trackedReads r env b, id ∈ allReads env b := by
  cases b with
  | nil => simp [trackedReads]
  | cons s rest =>
    intro id hid
    simp only [trackedReads, allReads, List.mem_append] at hid ⊢
    rcases hid with hid | hid
    · exact .inl (trackedReadsStmt_subset s id hid)
    · exact .inr (trackedReads_subset rest id hid)
theorem trackedReadsStmt_subset {r : Root} {env : List Handle} (s : Stmt) :
    ∀ id ∈ trackedReadsStmt r env s, id ∈ allReadsStmt env s := by
  cases s with
  | read h => intro id hid; simpa [trackedReadsStmt, allReadsStmt] using hid
  | ifpos h t e =>
    intro id hid
    simp only [trackedReadsStmt, allReadsStmt] at hid ⊢
    cases he : env[h]? with
    | none => simp [he] at hid
    | some hd =>
      simp only [he, List.mem_cons] at hid
      simp only [List.mem_append, List.mem_singleton]
      rcases hid with hid | hid
      · exact .inl hid
      · right
        split at hid
        · split at hid
          · exact .inl (trackedReads_subset t id hid)
          · exact .inr (trackedReads_subset e id hid)
        · cases hid
  | _ => simp [trackedReadsStmt]
end

mutual
theorem allReads_lt {self : Id} {env : List Handle} (b : Body) (h : PureHandlesOk self env b) :
    ∀ id ∈ allReads env b, id < self := by
  cases b with
  | nil => simp [allReads]
  | cons s rest =>
    intro id hid
    simp only [PureHandlesOk] at h
    simp only [allReads, List.mem_append] at hid
    rcases hid with hid | hid
    · exact allReadsStmt_lt s h.1 id hid
    · exact allReads_lt rest h.2 id hid
theorem allReadsStmt_lt {self : Id} {env : List Handle} (s : Stmt) (h : PureHandlesOkStmt self env s) :
    ∀ id ∈ allReadsStmt env s, id < self := by
  cases s with
  | read hh =>
    intro id hid
    simp only [PureHandlesOkStmt] at h
    obtain ⟨hd, hhd, _, hlt⟩ := h
    simp only [allReadsStmt, hhd, List.mem_singleton] at hid
    subst hid; exact hlt
  | ifpos hh t e =>
    intro id hid
    simp only [PureHandlesOkStmt] at h
    obtain ⟨⟨hd, hhd, _, hlt⟩, ht, he⟩ := h
    simp only [allReadsStmt, hhd, List.mem_append, List.mem_singleton] at hid
    rcases hid with hid | hid | hid
    · subst hid; exact hlt
    · exact allReads_lt t ht id hid
    · exact allReads_lt e he id hid
  | _ => simp [allReadsStmt]
end

/-! value, tracked reads and log of a body only depend on what `getUntracked` yields for the ids
read on the branch taken -/
mutual
theorem pure_congr {r r' : Root} {env : List Handle} (b : Body)
    (h : ∀ id ∈ trackedReads r env b, getUntracked r' id = getUntracked r id) :
    trackedReads r' env b = trackedReads r env b ∧ pureObs r' env b = pureObs r env b ∧
    ∀ acc, evalPureBody r' env b acc = evalPureBody r env b acc := by
  cases b with
  | nil => simp [trackedReads, pureObs, evalPureBody]
  | cons s rest =>
    simp only [trackedReads, List.mem_append] at h
    obtain ⟨a1, a2, a3⟩ := pureStmt_congr s (fun id hid => h id (.inl hid))
    obtain ⟨b1, b2, b3⟩ := pure_congr rest (fun id hid => h id (.inr hid))
    refine ⟨by simp only [trackedReads, a1, b1], by simp only [pureObs, a2, b2], fun acc => ?_⟩
    simp only [evalPureBody, a3]
    cases evalPureStmt r env s acc with
    | none => rfl
    | some acc' => exact b3 acc'
theorem pureStmt_congr {r r' : Root} {env : List Handle} (s : Stmt)
    (h : ∀ id ∈ trackedReadsStmt r env s, getUntracked r' id = getUntracked r id) :
    trackedReadsStmt r' env s = trackedReadsStmt r env s ∧ pureObsStmt r' env s = pureObsStmt r env s ∧
    ∀ acc, evalPureStmt r' env s acc = evalPureStmt r env s acc := by
  cases s with
  | read hh =>
    simp only [trackedReadsStmt, pureObsStmt, evalPureStmt] at h ⊢
    cases he : env[hh]? with
    | none => simp
    | some hd =>
      have := h hd.id (by simp [he])
      simp [this]
  | ifpos hh t e =>
    simp only [trackedReadsStmt, pureObsStmt, evalPureStmt] at h ⊢
    cases he : env[hh]? with
    | none => simp
    | some hd =>
      simp only [he] at h ⊢
      have h1 := h hd.id (by simp)
      simp only [h1]
      cases hg : getUntracked r hd.id with
      | error _ => simp
      | ok v =>
        simp only [hg, List.mem_cons] at h ⊢
        by_cases hv : v > 0
        · simp only [hv, if_true] at h ⊢
          obtain ⟨b1, b2, b3⟩ := pure_congr t (fun id hid => h id (.inr hid))
          exact ⟨by rw [b1], by rw [b2], fun acc => b3 _⟩
        · simp only [hv, if_false] at h ⊢
          obtain ⟨b1, b2, b3⟩ := pure_congr e (fun id hid => h id (.inr hid))
          exact ⟨by rw [b1], by rw [b2], fun acc => b3 _⟩
  | _ => simp [trackedReadsStmt, pureObsStmt, evalPureStmt]
end

theorem trackedReads_congr {r r' : Root} {env : List Handle} {b : Body}
    (h : ∀ id ∈ trackedReads r env b, getUntracked r' id = getUntracked r id) :
    trackedReads r' env b = trackedReads r env b := (pure_congr b h).1

theorem pureObs_congr {r r' : Root} {env : List Handle} {b : Body}
    (h : ∀ id ∈ trackedReads r env b, getUntracked r' id = getUntracked r id) :
    pureObs r' env b = pureObs r env b := (pure_congr b h).2.1

theorem evalPure_congr {r r' : Root} {env : List Handle} {b : Body}
    (h : ∀ id ∈ trackedReads r env b, getUntracked r' id = getUntracked r id) (acc : Int) :
    evalPureBody r' env b acc = evalPureBody r env b acc := (pure_congr b h).2.2 acc

/-! ### 2. running a pure body -/

mutual
/-- **`execBody` on a pure body** under `tracker = some t`: if every node read on the branch taken
is alive and holds a value, the run succeeds, yields `evalPureBody`, appends `trackedReads` to the
tracker, logs `pureObs`, and changes nothing else in the root -/
theorem execBody_pure (b : Body) {fuel : Nat} {r : Root} {c : Ctx} {t : List Id} {self : Id}
    (hp : PureBody b) (hok : PureHandlesOk self c.env b) (ht : r.tracker = some t)
    (hal : ∀ id ∈ trackedReads r c.env b, ∃ n v, r.get? id = some n ∧ n.value = some v)
    (hf : pureCost b + 1 ≤ fuel) :
    ∃ acc, evalPureBody r c.env b c.acc = some acc ∧
      execBody fuel r c b =
        .ok ({ r with tracker := some (t ++ trackedReads r c.env b) },
             ⟨c.env, acc, c.obs ++ pureObs r c.env b⟩) := by
  cases b with
  | nil =>
    obtain ⟨f, rfl⟩ : ∃ f, fuel = f + 1 := ⟨fuel - 1, by omega⟩
    refine ⟨c.acc, by simp [evalPureBody], ?_⟩
    simp [execBody, trackedReads, pureObs, ← ht]
  | cons s rest =>
    simp only [PureBody] at hp
    simp only [PureHandlesOk] at hok
    simp only [pureCost] at hf
    obtain ⟨f, rfl⟩ : ∃ f, fuel = f + 1 := ⟨fuel - 1, by omega⟩
    obtain ⟨acc1, hev1, hex1⟩ := execStmt_pure s (fuel := f) (r := r) (c := c) (t := t) (self := self)
      hp.1 hok.1 ht (fun id hid => hal id (by simp [trackedReads, hid])) (by omega)
    obtain ⟨r1, hr1⟩ : ∃ r1 : Root, r1 = { r with tracker := some (t ++ trackedReadsStmt r c.env s) } :=
      ⟨_, rfl⟩
    have hcg : ∀ id, getUntracked r1 id = getUntracked r id := fun id => by rw [hr1]; rfl
    obtain ⟨g1, g2, g3⟩ := pure_congr (r := r) (r' := r1) (env := c.env) rest (fun id _ => hcg id)
    obtain ⟨acc, hev, hex⟩ := execBody_pure rest (fuel := f) (r := r1)
      (c := ⟨c.env, acc1, c.obs ++ pureObsStmt r c.env s⟩) (t := t ++ trackedReadsStmt r c.env s)
      (self := self) hp.2 hok.2 (by rw [hr1]) (by
        intro id hid
        rw [g1] at hid
        obtain ⟨n, v, hn, hv⟩ := hal id (by simp [trackedReads, hid])
        exact ⟨n, v, by rw [hr1]; exact hn, hv⟩) (by omega)
    refine ⟨acc, ?_, ?_⟩
    · simp only [evalPureBody, hev1]
      rw [← hev]; exact (g3 _).symm
    · rw [execBody, hex1]
      simp only [← hr1, hex, g1, g2]
      simp [hr1, trackedReads, pureObs, List.append_assoc]
theorem execStmt_pure (s : Stmt) {fuel : Nat} {r : Root} {c : Ctx} {t : List Id} {self : Id}
    (hp : PureStmt s) (hok : PureHandlesOkStmt self c.env s) (ht : r.tracker = some t)
    (hal : ∀ id ∈ trackedReadsStmt r c.env s, ∃ n v, r.get? id = some n ∧ n.value = some v)
    (hf : pureCostStmt s + 1 ≤ fuel) :
    ∃ acc, evalPureStmt r c.env s c.acc = some acc ∧
      execStmt fuel r c s =
        .ok ({ r with tracker := some (t ++ trackedReadsStmt r c.env s) },
             ⟨c.env, acc, c.obs ++ pureObsStmt r c.env s⟩) := by
  cases s with
  | read hh =>
    simp only [PureHandlesOkStmt] at hok
    obtain ⟨hd, hhd, hkind, _⟩ := hok
    obtain ⟨f, rfl⟩ : ∃ f, fuel = f + 1 := ⟨fuel - 1, by omega⟩
    obtain ⟨n, v, hn, hv⟩ := hal hd.id (by simp [trackedReadsStmt, hhd])
    have hgu : getUntracked r hd.id = .ok v := getUntracked_of_value hn hv
    have hgu' : getUntracked (track r hd.id) hd.id = .ok v := by
      simp only [track, ht]; exact hgu
    refine ⟨mix c.acc v, by simp [evalPureStmt, hhd, hgu], ?_⟩
    simp only [execStmt, lookup, hhd, hkind, Bool.not_true, Bool.false_eq_true, if_false, hgu']
    simp [track, ht, trackedReadsStmt, pureObsStmt, hhd, hgu]
  | ifpos hh tb eb =>
    simp only [PureStmt] at hp
    simp only [PureHandlesOkStmt] at hok
    simp only [pureCostStmt] at hf
    obtain ⟨⟨hd, hhd, hkind, _⟩, hokt, hoke⟩ := hok
    obtain ⟨k, rfl⟩ : ∃ k, fuel = k + 3 := ⟨fuel - 3, by omega⟩
    obtain ⟨n, v, hn, hv⟩ := hal hd.id (by simp [trackedReadsStmt, hhd])
    have hgu : getUntracked r hd.id = .ok v := getUntracked_of_value hn hv
    have hgu' : getUntracked (track r hd.id) hd.id = .ok v := by
      simp only [track, ht]; exact hgu
    have htr : track r hd.id = { r with tracker := some (t ++ [hd.id]) } := by simp [track, ht]
    obtain ⟨r1, hr1⟩ : ∃ r1 : Root, r1 = { r with tracker := some (t ++ [hd.id]) } := ⟨_, rfl⟩
    have hcg : ∀ id, getUntracked r1 id = getUntracked r id := fun id => by rw [hr1]; rfl
    obtain ⟨c1, hc1⟩ : ∃ c1 : Ctx, c1 = { c with acc := mix c.acc v, obs := c.obs ++ [.read hd.id v] } :=
      ⟨_, rfl⟩
    have hstep : execStmt (k + 3) r c (.ifpos hh tb eb) =
        if v > 0 then execInner (k + 2) r1 c1 tb else execInner (k + 2) r1 c1 eb := by
      simp only [execStmt, lookup, hhd, hkind, Bool.not_true, Bool.false_eq_true, if_false, hgu']
      rw [htr, ← hr1, ← hc1]
    rw [hstep]
    by_cases hv0 : v > 0
    · obtain ⟨g1, g2, g3⟩ := pure_congr (r := r) (r' := r1) (env := c.env) tb (fun id _ => hcg id)
      have htrk : trackedReadsStmt r c.env (.ifpos hh tb eb) = hd.id :: trackedReads r c.env tb := by
        simp [trackedReadsStmt, hhd, hgu, hv0]
      have hobs : pureObsStmt r c.env (.ifpos hh tb eb) = Obs.read hd.id v :: pureObs r c.env tb := by
        simp [pureObsStmt, hhd, hgu, hv0]
      obtain ⟨acc, hev, hex⟩ := execBody_pure tb (fuel := k + 1) (r := r1) (c := c1) (t := t ++ [hd.id])
        (self := self) hp.1 (by rw [hc1]; exact hokt) (by rw [hr1]) (by
          intro id hid
          have : c1.env = c.env := by rw [hc1]
          rw [this, g1] at hid
          obtain ⟨n, v, hn, hv⟩ := hal id (by rw [htrk]; simp [hid])
          exact ⟨n, v, by rw [hr1]; exact hn, hv⟩) (by omega)
      have he1 : c1.env = c.env := by rw [hc1]
      have ha1 : c1.acc = mix c.acc v := by rw [hc1]
      have ho1 : c1.obs = c.obs ++ [.read hd.id v] := by rw [hc1]
      rw [he1, ha1, g3] at hev
      rw [he1, ho1, g1, g2] at hex
      refine ⟨acc, by simp [evalPureStmt, hhd, hgu, hv0, hev], ?_⟩
      simp only [hv0, if_true, execInner, hex, htrk, hobs, he1]
      simp [hr1, List.append_assoc]
    · obtain ⟨g1, g2, g3⟩ := pure_congr (r := r) (r' := r1) (env := c.env) eb (fun id _ => hcg id)
      have htrk : trackedReadsStmt r c.env (.ifpos hh tb eb) = hd.id :: trackedReads r c.env eb := by
        simp [trackedReadsStmt, hhd, hgu, hv0]
      have hobs : pureObsStmt r c.env (.ifpos hh tb eb) = Obs.read hd.id v :: pureObs r c.env eb := by
        simp [pureObsStmt, hhd, hgu, hv0]
      obtain ⟨acc, hev, hex⟩ := execBody_pure eb (fuel := k + 1) (r := r1) (c := c1) (t := t ++ [hd.id])
        (self := self) hp.2 (by rw [hc1]; exact hoke) (by rw [hr1]) (by
          intro id hid
          have : c1.env = c.env := by rw [hc1]
          rw [this, g1] at hid
          obtain ⟨n, v, hn, hv⟩ := hal id (by rw [htrk]; simp [hid])
          exact ⟨n, v, by rw [hr1]; exact hn, hv⟩) (by omega)
      have he1 : c1.env = c.env := by rw [hc1]
      have ha1 : c1.acc = mix c.acc v := by rw [hc1]
      have ho1 : c1.obs = c.obs ++ [.read hd.id v] := by rw [hc1]
      rw [he1, ha1, g3] at hev
      rw [he1, ho1, g1, g2] at hex
      refine ⟨acc, by simp [evalPureStmt, hhd, hgu, hv0, hev], ?_⟩
      simp only [hv0, if_false, execInner, hex, htrk, hobs, he1]
      simp [hr1, List.append_assoc]
  | _ => simp [PureStmt] at hp
end

/-- **`runClosure` on a pure body** (4a) -/
theorem runClosure_pure {fuel : Nat} {r : Root} {cl : Closure} {t : List Id} {self : Id}
    (hp : PureBody cl.body) (hok : PureHandlesOk self cl.env cl.body) (ht : r.tracker = some t)
    (hal : ∀ id ∈ trackedReads r cl.env cl.body, ∃ n v, r.get? id = some n ∧ n.value = some v)
    (hf : pureCost cl.body + 2 ≤ fuel) :
    ∃ v, evalPureBody r cl.env cl.body 0 = some v ∧
      runClosure fuel r cl =
        .ok ({ r with tracker := some (t ++ trackedReads r cl.env cl.body) }, v,
             pureObs r cl.env cl.body) := by
  obtain ⟨f, rfl⟩ : ∃ f, fuel = f + 1 := ⟨fuel - 1, by omega⟩
  obtain ⟨acc, hev, hex⟩ := execBody_pure cl.body (fuel := f) (r := r) (c := ⟨cl.env, 0, []⟩) (t := t)
    (self := self) hp hok ht hal (by omega)
  exact ⟨acc, hev, by simp [runClosure, hex]⟩

/-! ### 3. the structural invariant -/

/-- the shape of one node of a program made of signals/scopes and pure computations; unlike
`NodeOk` the dependency list is only required to lie within the reads of the body (it is the list of
tracked reads of the node's latest run, see `DepsCurrent`) -/
structure DynNodeOk (r : Root) (j : Id) (n : Node) : Prop where
  /-- no node is "taken out" -/
  value : n.value.isSome = true
  /-- signals and scopes depend on nothing -/
  plain : n.callback = none → n.dependencies = []
  /-- computations: pure body over older value handles that are all alive, nothing owned, and the
  dependency list lies within the reads of the body -/
  comp : ∀ eq cl, n.callback = some (eq, cl) →
    n.children = [] ∧ n.cleanups = [] ∧ PureBody cl.body ∧ PureHandlesOk j cl.env cl.body ∧
    (∀ d ∈ allReads cl.env cl.body, r.alive d = true) ∧
    (∀ d ∈ n.dependencies, d ∈ allReads cl.env cl.body)

/-- the part of `DynArena` that does not mention marks, dirty flags, consistency or the exact
dependency lists -/
structure StructD (r : Root) : Prop where
  nd : NoDangling r
  sym : EdgesSym r
  node : ∀ j n, r.get? j = some n → DynNodeOk r j n

theorem StructD.deps_lt {r : Root} (h : StructD r) {j : Id} {n : Node} (hn : r.get? j = some n) :
    ∀ d ∈ n.dependencies, d < j := by
  intro d hd
  have hk := h.node j n hn
  cases hc : n.callback with
  | none => rw [hk.plain hc] at hd; cases hd
  | some p =>
    obtain ⟨eq, cl⟩ := p
    obtain ⟨_, _, _, hok, _, hdeps⟩ := hk.comp eq cl hc
    exact allReads_lt _ hok d (hdeps d hd)

theorem StructD.dependents_gt {r : Root} (h : StructD r) {j : Id} {n : Node} (hn : r.get? j = some n) :
    ∀ d ∈ n.dependents, j < d := by
  intro d hd
  obtain ⟨nd, hnd⟩ := Root.alive_iff.1 ((h.nd j n hn).1 d hd)
  exact h.deps_lt hnd j ((mem_dependents_iff h.sym hn hnd).1 hd)

theorem StructD.up {r : Root} (h : StructD r) : Up r := fun _ _ hn => h.dependents_gt hn

/-! ### 4. `runNodeUpdate` on a pure computation -/

/-- what `runNodeUpdate` does to a pure computation `cur` in a `StructD` state: as `RunPost`, but the
dependency list of `cur` becomes `newdeps` -/
structure RunPostD (r : Root) (cur : Id) (vfinal : Int) (changed : Bool) (newdeps : List Id) (ev : Event)
    (r' : Root) : Prop where
  dead : ∀ j, r.get? j = none → r'.get? j = none
  node : ∀ j m, r.get? j = some m → ∃ m', r'.get? j = some m' ∧
      m'.callback = m.callback ∧ m'.children = m.children ∧
      m'.cleanups = m.cleanups ∧ m'.parent = m.parent ∧ m'.mark = m.mark ∧
      (j ≠ cur → m'.dependencies = m.dependencies ∧ m'.value = m.value ∧ m'.context = m.context ∧
         m'.dirty = (m.dirty || (changed && decide (cur ∈ m.dependencies)))) ∧
      (j = cur → m'.dependencies = newdeps ∧ m'.value = some vfinal ∧ m'.dirty = false)
  nd : NoDangling r'
  sym : EdgesSym r'
  frame : r'.nodes.size = r.nodes.size ∧ r'.tracker = r.tracker ∧ r'.current = r.current ∧
    r'.rootNode = r.rootNode ∧ r'.queue = r.queue ∧ r'.batching = r.batching ∧ r'.nextTag = r.nextTag
  trace : r'.trace = r.trace ++ [ev]

/-- **`runNodeUpdate` on a pure computation** (4b): the node's value becomes `evalPureBody` of the
current values (or stays, if the selector's `eq` accepts) and its dependency list becomes
`trackedReads` of the current values -/
theorem runNodeUpdate_dyn {fuel : Nat} {r : Root} {cur : Id} {n : Node} {eq : EqKind} {cl : Closure}
    {old : Int} (hS : StructD r) (hn : r.get? cur = some n) (hcb : n.callback = some (eq, cl))
    (hv : n.value = some old) (hf : pureCost cl.body + 3 ≤ fuel) :
    ∃ new r', evalPureBody r cl.env cl.body 0 = some new ∧ runNodeUpdate fuel r cur = .ok r' ∧
      RunPostD r cur (if eqHolds eq new old then old else new) (!eqHolds eq new old)
        (trackedReads r cl.env cl.body) (.run cur (pureObs r cl.env cl.body) new) r' := by
  obtain ⟨f, rfl⟩ : ∃ f, fuel = f + 1 := ⟨fuel - 1, by omega⟩
  obtain ⟨hch, hcl, hpure, hok, halive, _⟩ := (hS.node cur n hn).comp eq cl hcb
  -- A: unlink
  obtain ⟨rA, hU, hgA, hfreshA, _, ndA, symA, sfA⟩ := unlink_spec hS.nd hS.sym hn
  have hnA : rA.get? cur = some (unlinked cur cur n) := by rw [hgA, hn]; rfl
  -- B: take callback and value out
  obtain ⟨nB, hnBdef⟩ : ∃ nB, nB = takenOut (unlinked cur cur n) := ⟨_, rfl⟩
  obtain ⟨rB, hrB⟩ : ∃ rB, rB = rA.setNode cur nB := ⟨_, rfl⟩
  have hgB : ∀ j, rB.get? j = if j = cur then some nB else rA.get? j := by
    intro j; rw [hrB, Dfs.get?_setNode_of_get? hnA]
  have hnB : rB.get? cur = some nB := by rw [hgB, if_pos rfl]
  have hedB := setNode_sameEdges_preserves (n' := nB) hnA (by rw [hnBdef]; rfl) (by rw [hnBdef]; rfl)
  rw [← hrB] at hedB
  have sfB : SameFrame rA rB := by rw [hrB]; exact SameFrame.setNode ..
  -- C: disposeChildren
  obtain ⟨rC, hdC, hgC, sfC⟩ := disposeChildren_leaf (fuel := f) hnB
    (by rw [hnBdef]; simpa [unlinked, takenOut] using hch)
    (by rw [hnBdef]; simpa [unlinked, takenOut] using hcl) (by omega)
  have hedC : (NoDangling rB → NoDangling rC) ∧ (EdgesSym rB → EdgesSym rC) := by
    apply sameEdges_preserves
    intro j
    by_cases hj : j = cur
    · exact ⟨fun m => { m with context := [] }, fun _ => ⟨rfl, rfl⟩, by rw [hgC, if_pos hj, hj, hnB]; rfl⟩
    · exact ⟨id, fun _ => ⟨rfl, rfl⟩, by rw [hgC, if_neg hj]; simp⟩
  have ndC := hedC.1 (hedB.1 ndA)
  have symC := hedC.2 (hedB.2 symA)
  have sfrC : SameFrame r rC := sfA.trans (sfB.trans sfC)
  have hnC : rC.get? cur = some { nB with context := [] } := by rw [hgC, if_pos rfl]
  have hgCr : ∀ id, id ≠ cur → rC.get? id = (r.get? id).map (unlinked cur id) := by
    intro id hne; rw [hgC, if_neg hne, hgB, if_neg hne, hgA]
  -- D: run the body
  have hreads : ∀ id ∈ allReads cl.env cl.body,
      id ≠ cur ∧ ∃ m v, r.get? id = some m ∧ m.value = some v := by
    intro id hid
    have hlt := allReads_lt _ hok id hid
    obtain ⟨m, hm⟩ := Root.alive_iff.1 (halive id hid)
    obtain ⟨v, hv⟩ := Option.isSome_iff_exists.1 (hS.node id m hm).value
    exact ⟨Nat.ne_of_lt hlt, m, v, hm, hv⟩
  obtain ⟨rC', hrC'⟩ : ∃ rC' : Root, rC' = { rC with current := some cur, tracker := some [] } := ⟨_, rfl⟩
  have hgu : ∀ id ∈ allReads cl.env cl.body, getUntracked rC' id = getUntracked r id := by
    intro id hid
    obtain ⟨hne, m, v, hm, hv⟩ := hreads id hid
    rw [getUntracked_of_value hm hv]
    refine getUntracked_of_value (n := unlinked cur id m) ?_ hv
    rw [hrC']
    show rC.get? id = _
    rw [hgCr id hne, hm]; rfl
  obtain ⟨g1, g2, g3⟩ := pure_congr (r := r) (r' := rC') (env := cl.env) cl.body
    (fun id hid => hgu id (trackedReads_subset _ id hid))
  obtain ⟨new, hev, hrun⟩ := runClosure_pure (fuel := f) (r := rC') (t := []) (self := cur) hpure hok
    (by rw [hrC'])
    (by
      intro id hid
      rw [g1] at hid
      obtain ⟨hne, m, v, hm, hv⟩ := hreads id (trackedReads_subset _ id hid)
      refine ⟨unlinked cur id m, v, ?_, hv⟩
      rw [hrC']
      show rC.get? id = _
      rw [hgCr id hne, hm]; rfl)
    (by omega)
  rw [g3] at hev
  rw [g1, g2, hrC'] at hrun
  have hdC' : disposeChildren f (rA.setNode cur { unlinked cur cur n with callback := none, value := none }) cur
      = .ok rC := by rw [hrB, hnBdef] at hdC; exact hdC
  have hrn := runNodeUpdate_unfold hn hU hnA (by simpa [unlinked] using hcb) (by simpa [unlinked] using hv)
    hdC' hrun
  -- E/F: link and restore
  obtain ⟨rE, hrE⟩ : ∃ rE : Root, rE =
      { rC with trace := rC.trace ++ [.run cur (pureObs r cl.env cl.body) new] } := ⟨_, rfl⟩
  have hrn' : runNodeUpdate (f + 1) r cur =
      .ok (finishLink rE (trackedReads r cl.env cl.body) cur eq cl old new) := by rw [hrn, hrE]; rfl
  have hgE : ∀ j, rE.get? j = rC.get? j := fun j => by rw [hrE]; rfl
  have hedE := edges_of_get?_eq hgE
  have hnE : rE.get? cur = some { nB with context := [] } := by rw [hgE, hnC]
  obtain ⟨hdead, hnode, ndR, symR, sfR⟩ := finishLink_spec (eq := eq) (cl := cl) (old := old) (new := new)
    (hedE.1 ndC) (hedE.2 symC) hnE
    (by rw [hnBdef]; simp [unlinked, takenOut])
    (by
      intro j nj hj
      rw [hgE, hgC] at hj
      split at hj
      · cases hj; rw [hnBdef]; exact hfreshA cur (unlinked cur cur n) hnA
      · rw [hgB] at hj; split at hj
        · contradiction
        · exact hfreshA j nj hj)
    (deps := trackedReads r cl.env cl.body)
    (by
      intro d hd
      obtain ⟨hne, m, v, hm, _⟩ := hreads d (trackedReads_subset _ d hd)
      rw [Root.alive_iff, hgE, hgCr d hne, hm]; exact ⟨_, rfl⟩)
    (fun hc => (hreads cur (trackedReads_subset _ cur hc)).1 rfl)
  refine ⟨new, _, hev, hrn', ?_⟩
  obtain ⟨s1, s2, s3, s4, s5, s6, s7, s8⟩ := sfrC
  obtain ⟨t1, t2, t3, t4, t5, t6, t7, t8⟩ := sfR
  have hE : rE.nodes.size = rC.nodes.size ∧ rE.tracker = rC.tracker ∧ rE.current = rC.current ∧
      rE.rootNode = rC.rootNode ∧ rE.queue = rC.queue ∧ rE.batching = rC.batching ∧
      rE.nextTag = rC.nextTag ∧ rE.trace = rC.trace ++ [.run cur (pureObs r cl.env cl.body) new] := by
    rw [hrE]; exact ⟨rfl, rfl, rfl, rfl, rfl, rfl, rfl, rfl⟩
  obtain ⟨e1, e2, e3, e4, e5, e6, e7, e8⟩ := hE
  refine ⟨?_, ?_, ndR, symR, ⟨by omega, t2.trans (e2.trans s2), t3.trans (e3.trans s3),
    t4.trans (e4.trans s4), t5.trans (e5.trans s5), t6.trans (e6.trans s6), t7.trans (e7.trans s7)⟩,
    by rw [t8, e8, s8]⟩
  · intro j hj
    apply hdead
    rw [hgE, hgC]
    split
    · subst j; rw [hn] at hj; cases hj
    · rw [hgB]; split
      · contradiction
      · rw [hgA, hj]; rfl
  · intro j m hm
    by_cases hj : j = cur
    · subst hj
      rw [hn] at hm; cases hm
      obtain ⟨m', hm', c1, c2, c3, c4, c5, _, c7⟩ := hnode j _ hnE
      obtain ⟨d1, d2, d3, d4⟩ := c7 rfl
      refine ⟨m', hm', ?_, ?_, ?_, ?_, ?_, fun h => absurd rfl h, fun _ => ⟨d3, d2, d4⟩⟩
      · rw [d1, hcb]
      · rw [c1, hnBdef]; rfl
      · rw [c2, hnBdef]; rfl
      · rw [c3, hnBdef]; rfl
      · rw [c4, hnBdef]; rfl
    · have hmE : rE.get? j = some (unlinked cur j m) := by rw [hgE, hgCr j hj, hm]; rfl
      obtain ⟨m', hm', c1, c2, c3, c4, c5, c6, _⟩ := hnode j _ hmE
      obtain ⟨d1, d2, d3, d4⟩ := c6 hj
      refine ⟨m', hm', d1, c1, c2, c3, c4, fun _ => ⟨?_, d2, c5, ?_⟩, fun h => absurd h hj⟩
      · rw [d3]; simp [unlinked, hj]
      · rw [d4]; simp [unlinked, hj]

end SycVerif.Reactive
