/-
Helper lemmas for property C06 (`reconcile_fragments`, model in `SycVerif/Model/Reconcile.lean`).
The readable statements are in `SycVerif/Props/C06.lean`. Core Lean only.
-/
import SycVerif.Model.Reconcile
namespace SycVerif.Reconcile

/-! ### `without`: the elements of `A` that are not in `L`, in order -/

def without (A L : List Nat) : List Nat := A.filter (fun x => !L.contains x)

@[simp] theorem without_nil_left (L : List Nat) : without [] L = [] := rfl

@[simp] theorem without_nil_right (A : List Nat) : without A [] = A := by
  simp [without]

theorem mem_without {A L : List Nat} {x : Nat} : x ∈ without A L ↔ x ∈ A ∧ x ∉ L := by
  simp [without]

theorem without_cons_of_mem {x : Nat} {A L : List Nat} (h : x ∈ L) :
    without (x :: A) L = without A L := by
  simp [without, h]

theorem without_cons_of_not_mem {x : Nat} {A L : List Nat} (h : x ∉ L) :
    without (x :: A) L = x :: without A L := by
  simp [without, h]

theorem without_append_left (A1 A2 L : List Nat) :
    without (A1 ++ A2) L = without A1 L ++ without A2 L := by
  simp [without]

theorem without_append_right (A L1 L2 : List Nat) :
    without A (L1 ++ L2) = without (without A L1) L2 := by
  simp [without, List.filter_filter, Bool.and_comm]

theorem without_eq_self {A L : List Nat} (h : ∀ x ∈ A, x ∉ L) : without A L = A := by
  simp only [without, List.filter_eq_self]
  intro x hx; simpa using h x hx

theorem nodup_without {A : List Nat} (L : List Nat) (h : A.Nodup) : (without A L).Nodup :=
  h.sublist List.filter_sublist

theorem erase_eq_without {A : List Nat} (h : A.Nodup) (x : Nat) : A.erase x = without A [x] := by
  induction A with
  | nil => rfl
  | cons y A ih =>
    have hy : y ∉ A := (List.nodup_cons.mp h).1
    have hA : A.Nodup := (List.nodup_cons.mp h).2
    by_cases hxy : y = x
    · subst hxy
      rw [List.erase_cons_head, without_cons_of_mem (by simp), without_eq_self]
      intro z hz; simp; intro h; exact hy (h ▸ hz)
    · rw [List.erase_cons_tail (by simpa using hxy), without_cons_of_not_mem (by simpa using hxy), ih hA]

theorem without_cons_right {A : List Nat} (x : Nat) (L : List Nat) :
    without A (x :: L) = without (without A [x]) L := by
  rw [← without_append_right]; rfl

/-! ### generic list facts -/

theorem erase_mid {l1 l2 : List Nat} {x : Nat} (h : x ∉ l1) : (l1 ++ x :: l2).erase x = l1 ++ l2 := by
  rw [List.erase_append_right _ h, List.erase_cons_head]

theorem erase_right {l1 l2 : List Nat} {x r : Nat} (h : x ∉ l1) (hr : r ≠ x) :
    (l1 ++ r :: l2).erase x = l1 ++ r :: l2.erase x := by
  rw [List.erase_append_right _ h, List.erase_cons_tail (by simpa using hr)]

/-! ### DOM operations on duplicate-free children lists -/

theorem nextSibling_mid {l1 l2 : List Nat} {x : Nat} (h : x ∉ l1) :
    nextSibling (l1 ++ x :: l2) x = l2.head? := by
  induction l1 with
  | nil => cases l2 <;> simp [nextSibling]
  | cons y l1 ih =>
    have hy : y ≠ x := fun e => h (by simp [e])
    have hx : x ∉ l1 := fun e => h (by simp [e])
    cases l1 with
    | nil => simp [nextSibling, hy] at ih ⊢; exact ih
    | cons z l1 => simp only [List.cons_append, nextSibling, hy, if_false]; exact ih hx

theorem nextSibling_not_mem {l : List Nat} {x : Nat} (h : x ∉ l) : nextSibling l x = none := by
  induction l with
  | nil => rfl
  | cons y l ih =>
    have hy : y ≠ x := fun e => h (by simp [e])
    have hx : x ∉ l := fun e => h (by simp [e])
    cases l with
    | nil => rfl
    | cons z l => simp only [nextSibling, hy, if_false]; exact ih hx

theorem insertAt_mid {l1 l2 : List Nat} {r : Nat} (n : Nat) (h : r ∉ l1) :
    insertAt (l1 ++ r :: l2) n (some r) = some (l1 ++ n :: r :: l2) := by
  induction l1 with
  | nil => simp [insertAt]
  | cons y l1 ih =>
    have hy : y ≠ r := fun e => h (by simp [e])
    have hx : r ∉ l1 := fun e => h (by simp [e])
    simp [insertAt, hy, ih hx]

/-- insert before the head of `l2` (at the end when `l2` is empty) -/
theorem insertAt_head? {l1 l2 : List Nat} (n : Nat) (h : ∀ y, l2.head? = some y → y ∉ l1) :
    insertAt (l1 ++ l2) n l2.head? = some (l1 ++ n :: l2) := by
  cases l2 with
  | nil => simp [insertAt]
  | cons y l2 => exact insertAt_mid n (h y rfl)

/-- `insertBefore` with a reference node that is a child, `n` anywhere after the reference or detached -/
theorem insertBefore_some {l1 l2 : List Nat} {n r : Nat} (hnd : (l1 ++ r :: l2).Nodup)
    (hn : n ∉ l1) (hnr : n ≠ r) :
    insertBefore (l1 ++ r :: l2) n (some r) = .ok (l1 ++ n :: r :: l2.erase n) := by
  have hr : r ∉ l1 := by
    intro h; have := (List.nodup_append.mp hnd).2.2 r h r (by simp); exact this rfl
  simp only [insertBefore]
  rw [if_neg (by simp), if_neg (Ne.symm hnr), erase_right hn (Ne.symm hnr), insertAt_mid n hr]

/-- general form: the reference is a child, `n` is a child or not; stated via `erase` -/
theorem insertBefore_some_erase {ch l1 l2 : List Nat} {n r : Nat} (hnd : ch.Nodup)
    (hnr : n ≠ r) (he : ch.erase n = l1 ++ r :: l2) :
    insertBefore ch n (some r) = .ok (l1 ++ n :: r :: l2) := by
  have hnd' : (l1 ++ r :: l2).Nodup := he ▸ hnd.sublist List.erase_sublist
  have hr : r ∉ l1 := by
    intro h; have := (List.nodup_append.mp hnd').2.2 r h r (by simp); exact this rfl
  have hrc : r ∈ ch := List.mem_of_mem_erase (he ▸ (by simp : r ∈ l1 ++ r :: l2))
  simp only [insertBefore]
  rw [if_neg (by simpa using hrc), if_neg (Ne.symm hnr), he, insertAt_mid n hr]

/-- `insertBefore(n, n)`: nothing moves -/
theorem insertBefore_self {l1 l2 : List Nat} {n : Nat} (hnd : (l1 ++ n :: l2).Nodup) :
    insertBefore (l1 ++ n :: l2) n (some n) = .ok (l1 ++ n :: l2) := by
  have hn : n ∉ l1 := by
    intro h; have := (List.nodup_append.mp hnd).2.2 n h n (by simp); exact this rfl
  have h2 : ∀ y, l2.head? = some y → y ∉ l1 := by
    intro y hy h
    have hy2 : y ∈ l2 := List.mem_of_head? hy
    exact (List.nodup_append.mp hnd).2.2 y h y (by simp [hy2]) rfl
  simp only [insertBefore]
  rw [if_neg (by simp), if_pos trivial, nextSibling_mid hn, erase_mid hn, insertAt_head? n h2]

/-- `insertBefore` of a detached node before the head of `l2` (append when `l2 = []`) -/
theorem insertBefore_fresh {l1 l2 : List Nat} {n : Nat} (hnd : (l1 ++ l2).Nodup) (hn : n ∉ l1 ++ l2) :
    insertBefore (l1 ++ l2) n l2.head? = .ok (l1 ++ n :: l2) := by
  cases l2 with
  | nil => simp [insertBefore, List.erase_of_not_mem (by simpa using hn)]
  | cons r l2 =>
    have hnr : n ≠ r := fun e => hn (by simp [e])
    have := insertBefore_some hnd (fun h => hn (by simp [h])) hnr
    rw [List.erase_of_not_mem (fun h => hn (by simp [h]))] at this
    exact this

theorem insertBefore_none (ch : List Nat) (n : Nat) : insertBefore ch n none = .ok (ch.erase n ++ [n]) := rfl

theorem removeChild_mid {l1 l2 : List Nat} {x : Nat} (h : x ∉ l1) :
    removeChild (l1 ++ x :: l2) x = .ok (l1 ++ l2) := by
  simp [removeChild, erase_mid h]

theorem removeChild_not_mem {l : List Nat} {x : Nat} (h : x ∉ l) : removeChild l x = .error .notFound := by
  simp [removeChild, h]

/-- `replaceChild(n, old)`, `n ≠ old`, `n` detached or a later/earlier sibling not before `old` -/
theorem replaceChild_mid {l1 l2 : List Nat} {n old : Nat} (hnd : (l1 ++ old :: l2).Nodup)
    (hn : n ∉ l1) (hno : n ≠ old) :
    replaceChild (l1 ++ old :: l2) n old = .ok (l1 ++ n :: l2.erase n) := by
  have hold : old ∉ l1 := by
    intro h; have := (List.nodup_append.mp hnd).2.2 old h old (by simp); exact this rfl
  have hl2 : ∀ y ∈ l2, y ∉ l1 := by
    intro y hy h
    exact (List.nodup_append.mp hnd).2.2 y h y (by simp [hy]) rfl
  have hnd2 : l2.Nodup := (List.nodup_cons.mp (List.nodup_append.mp hnd).2.1).2
  simp only [replaceChild]
  rw [if_neg (by simp), nextSibling_mid hold, erase_mid hold]
  cases l2 with
  | nil => simp [List.erase_of_not_mem hn, insertAt]
  | cons y l2 =>
    have hy : y ∉ l1 := hl2 y (by simp)
    by_cases hyn : y = n
    · subst hyn
      have hyl2 : y ∉ l2 := (List.nodup_cons.mp hnd2).1
      simp only [List.head?_cons, if_true]
      rw [show l1 ++ old :: y :: l2 = (l1 ++ [old]) ++ y :: l2 by simp,
        nextSibling_mid (by simp [hn, hno]), erase_mid hn, List.erase_cons_head]
      exact (by rw [insertAt_head? y (fun z hz => hl2 z (by simp [List.mem_of_head? hz]))])
    · have : (some y = some n) = False := by simp [hyn]
      simp only [List.head?_cons, this, if_false]
      rw [erase_right hn hyn, List.erase_cons_tail (by simpa using hyn), insertAt_mid n hy]

end SycVerif.Reconcile
