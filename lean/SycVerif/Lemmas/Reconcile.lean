/-
Helper lemmas for property C06 (`reconcile_fragments`, model in `SycVerif/Model/Reconcile.lean`).
The readable statements are in `SycVerif/Props/C06.lean`. Core Lean only.
-/
import SycVerif.Model.Reconcile
namespace SycVerif.Reconcile

/-! ### `without`: the elements of `A` that are not in `L`, in order -/

def without (A L : List Nat) : List Nat := A.filter (fun x => !L.contains x)

@[simp] theorem without_nil_left (L : List Nat) : without [] L = [] := rfl

@[simp] theorem without_nil_right (A : List Nat) : without A [] = A := by
  simp [without]

theorem mem_without {A L : List Nat} {x : Nat} : x ∈ without A L ↔ x ∈ A ∧ x ∉ L := by
  simp [without]

theorem without_cons_of_mem {x : Nat} {A L : List Nat} (h : x ∈ L) :
    without (x :: A) L = without A L := by
  simp [without, h]

theorem without_cons_of_not_mem {x : Nat} {A L : List Nat} (h : x ∉ L) :
    without (x :: A) L = x :: without A L := by
  simp [without, h]

theorem without_append_left (A1 A2 L : List Nat) :
    without (A1 ++ A2) L = without A1 L ++ without A2 L := by
  simp [without]

theorem without_append_right (A L1 L2 : List Nat) :
    without A (L1 ++ L2) = without (without A L1) L2 := by
  simp [without, List.filter_filter, Bool.and_comm]

theorem without_eq_self {A L : List Nat} (h : ∀ x ∈ A, x ∉ L) : without A L = A := by
  simp only [without, List.filter_eq_self]
  intro x hx; simpa using h x hx

theorem nodup_without {A : List Nat} (L : List Nat) (h : A.Nodup) : (without A L).Nodup :=
  h.sublist List.filter_sublist

theorem erase_eq_without {A : List Nat} (h : A.Nodup) (x : Nat) : A.erase x = without A [x] := by
  induction A with
  | nil => rfl
  | cons y A ih =>
    have hy : y ∉ A := (List.nodup_cons.mp h).1
    have hA : A.Nodup := (List.nodup_cons.mp h).2
    by_cases hxy : y = x
    · subst hxy
      rw [List.erase_cons_head, without_cons_of_mem (by simp), without_eq_self]
      intro z hz; simp; intro h; exact hy (h ▸ hz)
    · rw [List.erase_cons_tail (by simpa using hxy), without_cons_of_not_mem (by simpa using hxy), ih hA]

theorem without_cons_right {A : List Nat} (x : Nat) (L : List Nat) :
    without A (x :: L) = without (without A [x]) L := by
  rw [← without_append_right]; rfl

/-! ### generic list facts -/

theorem erase_mid {l1 l2 : List Nat} {x : Nat} (h : x ∉ l1) : (l1 ++ x :: l2).erase x = l1 ++ l2 := by
  rw [List.erase_append_right _ h, List.erase_cons_head]

theorem erase_right {l1 l2 : List Nat} {x r : Nat} (h : x ∉ l1) (hr : r ≠ x) :
    (l1 ++ r :: l2).erase x = l1 ++ r :: l2.erase x := by
  rw [List.erase_append_right _ h, List.erase_cons_tail (by simpa using hr)]

/-! ### DOM operations on duplicate-free children lists -/

theorem nextSibling_mid {l1 l2 : List Nat} {x : Nat} (h : x ∉ l1) :
    nextSibling (l1 ++ x :: l2) x = l2.head? := by
  induction l1 with
  | nil => cases l2 <;> simp [nextSibling]
  | cons y l1 ih =>
    have hy : y ≠ x := fun e => h (by simp [e])
    have hx : x ∉ l1 := fun e => h (by simp [e])
    cases l1 with
    | nil => simp [nextSibling, hy] at ih ⊢; exact ih
    | cons z l1 => simp only [List.cons_append, nextSibling, hy, if_false]; exact ih hx

theorem nextSibling_not_mem {l : List Nat} {x : Nat} (h : x ∉ l) : nextSibling l x = none := by
  induction l with
  | nil => rfl
  | cons y l ih =>
    have hy : y ≠ x := fun e => h (by simp [e])
    have hx : x ∉ l := fun e => h (by simp [e])
    cases l with
    | nil => rfl
    | cons z l => simp only [nextSibling, hy, if_false]; exact ih hx

theorem insertAt_mid {l1 l2 : List Nat} {r : Nat} (n : Nat) (h : r ∉ l1) :
    insertAt (l1 ++ r :: l2) n (some r) = some (l1 ++ n :: r :: l2) := by
  induction l1 with
  | nil => simp [insertAt]
  | cons y l1 ih =>
    have hy : y ≠ r := fun e => h (by simp [e])
    have hx : r ∉ l1 := fun e => h (by simp [e])
    simp [insertAt, hy, ih hx]

/-- insert before the head of `l2` (at the end when `l2` is empty) -/
theorem insertAt_head? {l1 l2 : List Nat} (n : Nat) (h : ∀ y, l2.head? = some y → y ∉ l1) :
    insertAt (l1 ++ l2) n l2.head? = some (l1 ++ n :: l2) := by
  cases l2 with
  | nil => simp [insertAt]
  | cons y l2 => exact insertAt_mid n (h y rfl)

/-- `insertBefore` with a reference node that is a child, `n` anywhere after the reference or detached -/
theorem insertBefore_some {l1 l2 : List Nat} {n r : Nat} (hnd : (l1 ++ r :: l2).Nodup)
    (hn : n ∉ l1) (hnr : n ≠ r) :
    insertBefore (l1 ++ r :: l2) n (some r) = .ok (l1 ++ n :: r :: l2.erase n) := by
  have hr : r ∉ l1 := by
    intro h; have := (List.nodup_append.mp hnd).2.2 r h r (by simp); exact this rfl
  simp only [insertBefore]
  rw [if_neg (by simp), if_neg (Ne.symm hnr), erase_right hn (Ne.symm hnr), insertAt_mid n hr]

/-- general form: the reference is a child, `n` is a child or not; stated via `erase` -/
theorem insertBefore_some_erase {ch l1 l2 : List Nat} {n r : Nat} (hnd : ch.Nodup)
    (hnr : n ≠ r) (he : ch.erase n = l1 ++ r :: l2) :
    insertBefore ch n (some r) = .ok (l1 ++ n :: r :: l2) := by
  have hnd' : (l1 ++ r :: l2).Nodup := he ▸ hnd.sublist List.erase_sublist
  have hr : r ∉ l1 := by
    intro h; have := (List.nodup_append.mp hnd').2.2 r h r (by simp); exact this rfl
  have hrc : r ∈ ch := List.mem_of_mem_erase (he ▸ (by simp : r ∈ l1 ++ r :: l2))
  simp only [insertBefore]
  rw [if_neg (by simpa using hrc), if_neg (Ne.symm hnr), he, insertAt_mid n hr]

/-- `insertBefore(n, n)`: nothing moves -/
theorem insertBefore_self {l1 l2 : List Nat} {n : Nat} (hnd : (l1 ++ n :: l2).Nodup) :
    insertBefore (l1 ++ n :: l2) n (some n) = .ok (l1 ++ n :: l2) := by
  have hn : n ∉ l1 := by
    intro h; have := (List.nodup_append.mp hnd).2.2 n h n (by simp); exact this rfl
  have h2 : ∀ y, l2.head? = some y → y ∉ l1 := by
    intro y hy h
    have hy2 : y ∈ l2 := List.mem_of_head? hy
    exact (List.nodup_append.mp hnd).2.2 y h y (by simp [hy2]) rfl
  simp only [insertBefore]
  rw [if_neg (by simp), if_pos trivial, nextSibling_mid hn, erase_mid hn, insertAt_head? n h2]

/-- `insertBefore` of a detached node before the head of `l2` (append when `l2 = []`) -/
theorem insertBefore_fresh {l1 l2 : List Nat} {n : Nat} (hnd : (l1 ++ l2).Nodup) (hn : n ∉ l1 ++ l2) :
    insertBefore (l1 ++ l2) n l2.head? = .ok (l1 ++ n :: l2) := by
  cases l2 with
  | nil => simp [insertBefore, List.erase_of_not_mem (by simpa using hn)]
  | cons r l2 =>
    have hnr : n ≠ r := fun e => hn (by simp [e])
    have := insertBefore_some hnd (fun h => hn (by simp [h])) hnr
    rw [List.erase_of_not_mem (fun h => hn (by simp [h]))] at this
    exact this

theorem insertBefore_none (ch : List Nat) (n : Nat) : insertBefore ch n none = .ok (ch.erase n ++ [n]) := rfl

theorem removeChild_mid {l1 l2 : List Nat} {x : Nat} (h : x ∉ l1) :
    removeChild (l1 ++ x :: l2) x = .ok (l1 ++ l2) := by
  simp [removeChild, erase_mid h]

theorem removeChild_not_mem {l : List Nat} {x : Nat} (h : x ∉ l) : removeChild l x = .error .notFound := by
  simp [removeChild, h]

/-- `replaceChild(n, old)`, `n ≠ old`, `n` detached or a later/earlier sibling not before `old` -/
theorem replaceChild_mid {l1 l2 : List Nat} {n old : Nat} (hnd : (l1 ++ old :: l2).Nodup)
    (hn : n ∉ l1) (hno : n ≠ old) :
    replaceChild (l1 ++ old :: l2) n old = .ok (l1 ++ n :: l2.erase n) := by
  have hold : old ∉ l1 := by
    intro h; have := (List.nodup_append.mp hnd).2.2 old h old (by simp); exact this rfl
  have hl2 : ∀ y ∈ l2, y ∉ l1 := by
    intro y hy h
    exact (List.nodup_append.mp hnd).2.2 y h y (by simp [hy]) rfl
  have hnd2 : l2.Nodup := (List.nodup_cons.mp (List.nodup_append.mp hnd).2.1).2
  simp only [replaceChild]
  rw [if_neg (by simp), nextSibling_mid hold, erase_mid hold]
  cases l2 with
  | nil => simp [List.erase_of_not_mem hn, insertAt]
  | cons y l2 =>
    have hy : y ∉ l1 := hl2 y (by simp)
    by_cases hyn : y = n
    · subst hyn
      have hyl2 : y ∉ l2 := (List.nodup_cons.mp hnd2).1
      simp only [List.head?_cons, if_true]
      rw [show l1 ++ old :: y :: l2 = (l1 ++ [old]) ++ y :: l2 by simp,
        nextSibling_mid (by simp [hn, hno]), erase_mid hn, List.erase_cons_head]
      exact (by rw [insertAt_head? y (fun z hz => hl2 z (by simp [List.mem_of_head? hz]))])
    · have : (some y = some n) = False := by simp [hyn]
      simp only [List.head?_cons, this, if_false]
      rw [erase_right hn hyn, List.erase_cons_tail (by simpa using hyn), insertAt_mid n hy]

/-- moving (or inserting) `n` before the head of `l2`, stated via `erase` -/
theorem insertBefore_move {ch l1 l2 : List Nat} {n : Nat} (hnd : ch.Nodup) (he : ch.erase n = l1 ++ l2) :
    insertBefore ch n l2.head? = .ok (l1 ++ n :: l2) := by
  cases l2 with
  | nil => rw [List.head?_nil, insertBefore_none, he]; simp
  | cons r l2 =>
    have hr : r ∈ ch.erase n := by rw [he]; simp
    have hnr : n ≠ r := fun e => (hnd.mem_erase_iff.mp hr).1 e.symm
    exact insertBefore_some_erase hnd hnr he

/-- the two `insertBefore` calls of the swap branch exchange the two ends of a run of siblings -/
theorem swap_ops {l1 M l2 : List Nat} {a0 a1 : Nat} (hnd : (l1 ++ a0 :: (M ++ a1 :: l2)).Nodup) :
    ∃ ch1, insertBefore (l1 ++ a0 :: (M ++ a1 :: l2)) a1 (nextSibling (l1 ++ a0 :: (M ++ a1 :: l2)) a0) = .ok ch1 ∧
      insertBefore ch1 a0 (nextSibling (l1 ++ a0 :: (M ++ a1 :: l2)) a1) = .ok (l1 ++ a1 :: (M ++ a0 :: l2)) := by
  have hnd0 := hnd
  simp only [List.nodup_append, List.mem_append, List.nodup_cons, List.mem_cons] at hnd
  have ha0 : a0 ∉ l1 := by grind
  have ha1 : a1 ∉ l1 ++ a0 :: M := by simp only [List.mem_append, List.mem_cons]; grind
  have hns1 : nextSibling (l1 ++ a0 :: (M ++ a1 :: l2)) a1 = l2.head? := by
    rw [show l1 ++ a0 :: (M ++ a1 :: l2) = (l1 ++ a0 :: M) ++ a1 :: l2 by simp]
    exact nextSibling_mid ha1
  have hnd1 : (l1 ++ a0 :: a1 :: (M ++ l2)).Nodup := by
    simp only [List.nodup_append, List.mem_append, List.nodup_cons, List.mem_cons]; grind
  have he : (l1 ++ a0 :: a1 :: (M ++ l2)).erase a0 = (l1 ++ a1 :: M) ++ l2 := by
    rw [erase_mid ha0]; simp
  refine ⟨l1 ++ a0 :: a1 :: (M ++ l2), ?_, ?_⟩
  · rw [nextSibling_mid ha0]
    cases M with
    | nil =>
      simp only [List.nil_append, List.head?_cons]
      have := @insertBefore_self (l1 ++ [a0]) l2 a1 (by simpa using hnd0)
      simpa using this
    | cons m M =>
      simp only [List.cons_append, List.head?_cons]
      have hm : a1 ≠ m := by grind
      have h1 : a1 ∉ l1 ++ [a0] := by simp only [List.mem_append, List.mem_singleton]; grind
      have h2 : a1 ∉ M := by grind
      have := @insertBefore_some (l1 ++ [a0]) (M ++ a1 :: l2) a1 m (by simpa using hnd0) h1 hm
      rw [erase_mid h2] at this
      simpa using this
  · rw [hns1]
    have := insertBefore_move hnd1 he
    simpa using this

/-! ### the two inner loops -/

theorem nodup_insert_mid {l1 l2 : List Nat} {x : Nat} (hnd : (l1 ++ l2).Nodup) (hx : x ∉ l1 ++ l2) :
    ((l1 ++ [x]) ++ l2).Nodup := by
  simp only [List.nodup_append, List.mem_append, List.nodup_cons, List.mem_singleton] at *
  grind

/-- inserting detached nodes before the head of `l2` (or at the end) -/
theorem insertAll_fresh {l2 L : List Nat} : ∀ {l1 : List Nat}, (l1 ++ l2).Nodup → L.Nodup →
    (∀ x ∈ L, x ∉ l1 ++ l2) → insertAll (l1 ++ l2) l2.head? L = .ok (l1 ++ L ++ l2) := by
  induction L with
  | nil => intro l1 _ _ _; simp [insertAll]
  | cons x L ih =>
    intro l1 hnd hL hd
    have hx := hd x (by simp)
    simp only [insertAll, insertBefore_fresh hnd hx]
    have := @ih (l1 ++ [x]) (by simpa using nodup_insert_mid hnd hx) (List.nodup_cons.mp hL).2
      (by
        intro y hy
        have := hd y (by simp [hy])
        have hne : y ≠ x := fun e => (List.nodup_cons.mp hL).1 (e ▸ hy)
        simp at this ⊢; simp [this, hne])
    simpa using this

theorem nodup_move_before {l1 l2 : List Nat} {x r : Nat} (hnd : (l1 ++ r :: l2).Nodup)
    (hx : x ∉ l1) (hxr : x ≠ r) : ((l1 ++ [x]) ++ r :: l2.erase x).Nodup := by
  have hl2 : l2.Nodup := (List.nodup_cons.mp (List.nodup_append.mp hnd).2.1).2
  have hm : ∀ y, y ∈ l2.erase x ↔ y ≠ x ∧ y ∈ l2 := fun y => hl2.mem_erase_iff
  have hl2' : (l2.erase x).Nodup := hl2.sublist List.erase_sublist
  simp only [List.nodup_append, List.mem_append, List.nodup_cons, List.mem_cons] at *
  grind

/-- inserting nodes (detached, or children somewhere after `r`) before the child `r` -/
theorem insertAll_before {r : Nat} {L : List Nat} : ∀ {l1 l2 : List Nat}, (l1 ++ r :: l2).Nodup → L.Nodup →
    (∀ x ∈ L, x ∉ l1 ∧ x ≠ r) →
    insertAll (l1 ++ r :: l2) (some r) L = .ok (l1 ++ L ++ r :: without l2 L) := by
  induction L with
  | nil => intro l1 l2 _ _ _; simp [insertAll]
  | cons x L ih =>
    intro l1 l2 hnd hL hd
    have hx := hd x (by simp)
    have hl2 : l2.Nodup := (List.nodup_cons.mp (List.nodup_append.mp hnd).2.1).2
    simp only [insertAll, insertBefore_some hnd hx.1 hx.2]
    have := @ih (l1 ++ [x]) (l2.erase x) (nodup_move_before hnd hx.1 hx.2) (List.nodup_cons.mp hL).2
      (by
        intro y hy
        have := hd y (by simp [hy])
        have hne : y ≠ x := fun e => (List.nodup_cons.mp hL).1 (e ▸ hy)
        simp [this, hne])
    rw [without_cons_right, ← erase_eq_without hl2]
    simpa using this

/-- the test of the removal loop: the map (if any) does not know `x` -/
def unknown (m : Option NodeMap) (x : Nat) : Bool := m.isNone || (m.bind (·.get x)).isNone

theorem removeAll_cons (ch : List Nat) (m : Option NodeMap) (x : Nat) (xs : List Nat) :
    removeAll ch m (x :: xs) =
      if unknown m x then
        match removeChild ch x with
        | .error e => .error e
        | .ok ch => removeAll ch m xs
      else removeAll ch m xs := rfl

/-- the removal loop removes exactly the nodes selected by its test -/
theorem removeAll_spec {l1 l2 : List Nat} (m : Option NodeMap) : ∀ {A : List Nat},
    (∀ x ∈ A, unknown m x = true → x ∉ l1) →
    removeAll (l1 ++ A.filter (unknown m) ++ l2) m A = .ok (l1 ++ l2) := by
  intro A
  induction A with
  | nil => intro _; simp [removeAll]
  | cons x A ih =>
    intro h
    have ih := ih (fun y hy => h y (by simp [hy]))
    by_cases hp : unknown m x = true
    · have hx := h x (by simp) hp
      rw [List.filter_cons_of_pos hp, removeAll_cons, if_pos hp]
      rw [show l1 ++ x :: List.filter (unknown m) A ++ l2
          = l1 ++ x :: (List.filter (unknown m) A ++ l2) by simp,
        removeChild_mid hx]
      simpa using ih
    · rw [List.filter_cons_of_neg hp, removeAll_cons, if_neg hp]
      exact ih

/-! ### the node → index map -/

theorem get_zipIdx {L : List Nat} (k : Nat) : ∀ (n : Nat), L.Nodup → ∀ (x j : Nat),
    NodeMap.get ((L.zipIdx n).map fun (g, i) => (g, k + i)) x = some j ↔
      ∃ i, L[i]? = some x ∧ j = k + (n + i) := by
  induction L with
  | nil => intro n _ x j; simp [NodeMap.get]
  | cons y L ih =>
    intro n hL x j
    have hy : y ∉ L := (List.nodup_cons.mp hL).1
    have ih := ih (n + 1) (List.nodup_cons.mp hL).2 x j
    by_cases hyx : y = x
    · subst hyx
      simp only [NodeMap.get, List.zipIdx_cons, List.map_cons, List.find?_cons, beq_self_eq_true,
        Option.map_some, Option.some.injEq]
      constructor
      · intro h; exact ⟨0, by simp, by omega⟩
      · rintro ⟨i, hi, hj⟩
        cases i with
        | zero => omega
        | succ i => simp at hi; exact absurd (List.mem_of_getElem? hi) hy
    · have hb : (y == x) = false := by simpa using hyx
      simp only [NodeMap.get, List.zipIdx_cons, List.map_cons, List.find?_cons, hb] at ih ⊢
      rw [ih]
      constructor
      · rintro ⟨i, hi, hj⟩; exact ⟨i + 1, by simpa using hi, by omega⟩
      · rintro ⟨i, hi, hj⟩
        cases i with
        | zero => simp at hi; exact absurd hi hyx
        | succ i => exact ⟨i, by simpa using hi, by omega⟩

/-! ### unfolding `iter`, one lemma per branch -/

section Unfold
variable {b : Array Nat} {after : Option Nat} {s : St}

/-- the slices the model iterates over -/
def St.aWin (s : St) : List Nat := (s.a.toList.drop s.aStart).take (s.aEnd - s.aStart)
def bWin (b : Array Nat) (s : St) : List Nat := (b.toList.drop s.bStart).take (s.bEnd - s.bStart)

theorem iter_append_end {ch : List Nat} (h : s.aEnd = s.aStart) (hb : ¬ s.bEnd < b.size)
    (hi : insertAll s.ch after (bWin b s) = .ok ch) :
    iter b after s = .ok { s with ch := ch, bStart := s.bEnd } := by
  unfold bWin at hi; simp [iter, h, hb, hi]

theorem iter_append_mid {ch : List Nat} {x : Nat} (h : s.aEnd = s.aStart) (hb : s.bEnd < b.size)
    (h0 : s.bStart ≠ 0) (hx : b[s.bStart - 1]? = some x)
    (hi : insertAll s.ch (nextSibling s.ch x) (bWin b s) = .ok ch) :
    iter b after s = .ok { s with ch := ch, bStart := s.bEnd } := by
  unfold bWin at hi; simp [iter, h, hb, h0, hx, hi]

theorem iter_append_start {ch : List Nat} {x : Nat} (h : s.aEnd = s.aStart) (hb : s.bEnd < b.size)
    (h0 : s.bStart = 0) (hx : b[s.bEnd - s.bStart]? = some x)
    (hi : insertAll s.ch (some x) (bWin b s) = .ok ch) :
    iter b after s = .ok { s with ch := ch, bStart := s.bEnd } := by
  unfold bWin at hi
  simp only [iter, h, if_true, hb, h0, ne_eq, not_true_eq_false, if_false] at hx hi ⊢
  simp only [hx, hi]

theorem iter_remove {ch : List Nat} (h : s.aEnd ≠ s.aStart) (hb : s.bEnd = s.bStart)
    (hr : removeAll s.ch s.map s.aWin = .ok ch) :
    iter b after s = .ok { s with ch := ch, aStart := s.aEnd } := by
  unfold St.aWin at hr; simp [iter, h, hb, hr]

variable {a0 b0 a1 b1 : Nat}

theorem iter_prefix (h : s.aEnd ≠ s.aStart) (hb : s.bEnd ≠ s.bStart)
    (ha0 : s.a[s.aStart]? = some a0) (hb0 : b[s.bStart]? = some b0)
    (ha1 : s.a[s.aEnd - 1]? = some a1) (hb1 : b[s.bEnd - 1]? = some b1) (e : a0 = b0) :
    iter b after s = .ok { s with aStart := s.aStart + 1, bStart := s.bStart + 1 } := by
  simp [iter, h, hb, ha0, hb0, ha1, hb1, e]

theorem iter_suffix (h : s.aEnd ≠ s.aStart) (hb : s.bEnd ≠ s.bStart)
    (ha0 : s.a[s.aStart]? = some a0) (hb0 : b[s.bStart]? = some b0)
    (ha1 : s.a[s.aEnd - 1]? = some a1) (hb1 : b[s.bEnd - 1]? = some b1) (e0 : a0 ≠ b0) (e : a1 = b1) :
    iter b after s = .ok { s with aEnd := s.aEnd - 1, bEnd := s.bEnd - 1 } := by
  simp [iter, h, hb, ha0, hb0, ha1, hb1, e0, e]

theorem iter_swap {ch1 ch2 : List Nat} (h : s.aEnd ≠ s.aStart) (hb : s.bEnd ≠ s.bStart)
    (ha0 : s.a[s.aStart]? = some a0) (hb0 : b[s.bStart]? = some b0)
    (ha1 : s.a[s.aEnd - 1]? = some a1) (hb1 : b[s.bEnd - 1]? = some b1) (e0 : a0 ≠ b0) (e1 : a1 ≠ b1)
    (e : a0 = b1 ∧ b0 = a1)
    (h1 : insertBefore s.ch b0 (nextSibling s.ch a0) = .ok ch1)
    (h2 : insertBefore ch1 b1 (nextSibling s.ch a1) = .ok ch2)
    (hsz : s.aEnd - 1 < s.a.size) :
    iter b after s = .ok { s with ch := ch2, aStart := s.aStart + 1, bStart := s.bStart + 1,
                                  aEnd := s.aEnd - 1, bEnd := s.bEnd - 1, a := s.a.set! (s.aEnd - 1) b1 } := by
  obtain ⟨e2, e3⟩ := e
  subst e2 e3
  simp only [iter, h, hb, ha0, hb0, ha1, hb1, e0, e1, if_false, and_self, if_true, h1, h2, hsz]

/-- the map used by the fallback branch -/
def theMap (b : Array Nat) (s : St) : NodeMap :=
  match s.map with
  | some m => m
  | none => (bWin b s).zipIdx.map fun (g, i) => (g, s.bStart + i)

/-- the fallback branch, with the map named -/
def mapBranch (b : Array Nat) (s : St) (a0 b0 : Nat) : Except DomErr St :=
  let m := theMap b s
  let s := { s with map := some m }
  match m.get a0 with
  | some index =>
    if s.bStart < index ∧ index < s.bEnd then
      let sequence := seqLen s.a m s.aEnd s.bEnd index (s.a.size + 1) s.aStart 1
      if sequence > index - s.bStart then
        match insertAll s.ch (some a0) ((b.toList.drop s.bStart).take (index - s.bStart)) with
        | .error e => .error e
        | .ok ch => .ok { s with ch := ch, bStart := index }
      else
        match replaceChild s.ch b0 a0 with
        | .error e => .error e
        | .ok ch => .ok { s with ch := ch, aStart := s.aStart + 1, bStart := s.bStart + 1 }
    else .ok { s with aStart := s.aStart + 1 }
  | none =>
    match removeChild s.ch a0 with
    | .error e => .error e
    | .ok ch => .ok { s with ch := ch, aStart := s.aStart + 1 }

theorem iter_map (h : s.aEnd ≠ s.aStart) (hb : s.bEnd ≠ s.bStart)
    (ha0 : s.a[s.aStart]? = some a0) (hb0 : b[s.bStart]? = some b0)
    (ha1 : s.a[s.aEnd - 1]? = some a1) (hb1 : b[s.bEnd - 1]? = some b1) (e0 : a0 ≠ b0) (e1 : a1 ≠ b1)
    (e : ¬ (a0 = b1 ∧ b0 = a1)) :
    iter b after s = mapBranch b s a0 b0 := by
  simp only [iter, h, hb, ha0, hb0, ha1, hb1, e0, e1, e, if_false]
  rfl

theorem mapBranch_insert {ch : List Nat} {index : Nat}
    (hm : (theMap b s).get a0 = some index) (hr : s.bStart < index ∧ index < s.bEnd)
    (hs : seqLen s.a (theMap b s) s.aEnd s.bEnd index (s.a.size + 1) s.aStart 1 > index - s.bStart)
    (hi : insertAll s.ch (some a0) ((b.toList.drop s.bStart).take (index - s.bStart)) = .ok ch) :
    mapBranch b s a0 b0 = .ok { s with map := some (theMap b s), ch := ch, bStart := index } := by
  simp only [mapBranch, hm, hr, and_self, if_true, hs, hi]

theorem mapBranch_replace {ch : List Nat} {index : Nat}
    (hm : (theMap b s).get a0 = some index) (hr : s.bStart < index ∧ index < s.bEnd)
    (hs : ¬ seqLen s.a (theMap b s) s.aEnd s.bEnd index (s.a.size + 1) s.aStart 1 > index - s.bStart)
    (hi : replaceChild s.ch b0 a0 = .ok ch) :
    mapBranch b s a0 b0 = .ok { s with map := some (theMap b s), ch := ch, aStart := s.aStart + 1,
                                       bStart := s.bStart + 1 } := by
  simp only [mapBranch, hm, hr, and_self, if_true, hs, if_false, hi]

theorem mapBranch_skip {index : Nat}
    (hm : (theMap b s).get a0 = some index) (hr : ¬ (s.bStart < index ∧ index < s.bEnd)) :
    mapBranch b s a0 b0 = .ok { s with map := some (theMap b s), aStart := s.aStart + 1 } := by
  simp only [mapBranch, hm, hr, if_false]

theorem mapBranch_remove {ch : List Nat}
    (hm : (theMap b s).get a0 = none) (hi : removeChild s.ch a0 = .ok ch) :
    mapBranch b s a0 b0 = .ok { s with map := some (theMap b s), ch := ch, aStart := s.aStart + 1 } := by
  simp only [mapBranch, hm, hi]

end Unfold

/-! ### the loop invariant -/

/-- facts that never change during a call -/
structure Fixed (pre post b : List Nat) (after : Option Nat) : Prop where
  bnd : b.Nodup
  prend : pre.Nodup
  postnd : post.Nodup
  prepost : ∀ x ∈ pre, x ∉ post
  bpre : ∀ x ∈ b, x ∉ pre
  bpost : ∀ x ∈ b, x ∉ post
  after_eq : after = post.head?

/-- the map, once built, is the index function of `b` on a window `[s0, e0)` that contains the
current window; no remaining old node sits before that window -/
def MapSome (b : List Nat) (m : NodeMap) (bS bE : Nat) (A : List Nat) : Prop :=
  ∃ s0 e0, s0 ≤ bS ∧ bE ≤ e0 ∧ (∀ x j, m.get x = some j ↔ (s0 ≤ j ∧ j < e0 ∧ b[j]? = some x)) ∧
    ∀ x ∈ A, ∀ j, b[j]? = some x → s0 ≤ j

def MapOk (b : List Nat) (map : Option NodeMap) (bS bE : Nat) (A Bp : List Nat) : Prop :=
  match map with
  | none => ∀ x ∈ A, x ∉ Bp
  | some m => MapSome b m bS bE A

/-- `a = aL ++ A ++ aR`, `b = Bp ++ B ++ Bs` with `A`, `B` the current windows; the children are
`pre ++ Bp ++ (A minus the nodes already placed in Bp) ++ Bs ++ post` -/
structure Inv (pre post b : List Nat) (s : St) (aL A aR Bp B Bs : List Nat) : Prop where
  ha : s.a.toList = aL ++ A ++ aR
  haS : aL.length = s.aStart
  haE : s.aEnd = s.aStart + A.length
  hb : b = Bp ++ B ++ Bs
  hbS : Bp.length = s.bStart
  hbE : s.bEnd = s.bStart + B.length
  hch : s.ch = pre ++ Bp ++ without A Bp ++ Bs ++ post
  hA : A.Nodup
  hABs : ∀ x ∈ A, x ∉ Bs
  hApre : ∀ x ∈ A, x ∉ pre
  hApost : ∀ x ∈ A, x ∉ post
  hmap : MapOk b s.map s.bStart s.bEnd A Bp

section InvLemmas
variable {pre post b : List Nat} {after : Option Nat} {s : St} {aL A aR Bp B Bs : List Nat}

theorem Inv.ch_nodup (F : Fixed pre post b after) (I : Inv pre post b s aL A aR Bp B Bs) :
    (pre ++ Bp ++ without A Bp ++ Bs ++ post).Nodup := by
  have h1 := F.bnd
  have h2 := F.prend
  have h3 := F.postnd
  have h4 := F.prepost
  have h5 := F.bpre
  have h6 := F.bpost
  have h7 := nodup_without Bp I.hA
  have h8 := I.hABs
  have h9 := I.hApre
  have h10 := I.hApost
  rw [I.hb] at h1 h5 h6
  simp only [List.nodup_append, List.mem_append, mem_without] at *
  grind

theorem getElem?_mid (l1 l2 : List Nat) (x : Nat) (i : Nat) (h : i = l1.length) :
    (l1 ++ x :: l2)[i]? = some x := by subst h; simp

theorem Inv.a_first {a0 : Nat} {A' : List Nat} (I : Inv pre post b s aL (a0 :: A') aR Bp B Bs) :
    s.a[s.aStart]? = some a0 := by
  rw [← Array.getElem?_toList, I.ha]
  simpa using getElem?_mid aL (A' ++ aR) a0 s.aStart I.haS.symm

theorem Inv.a_last {a1 : Nat} {Ai : List Nat} (I : Inv pre post b s aL (Ai ++ [a1]) aR Bp B Bs) :
    s.a[s.aEnd - 1]? = some a1 := by
  rw [← Array.getElem?_toList, I.ha]
  have := I.haE; have := I.haS
  simpa using getElem?_mid (aL ++ Ai) aR a1 (s.aEnd - 1) (by simp at *; omega)

theorem Inv.b_first {b0 : Nat} {B' : List Nat} (I : Inv pre post b s aL A aR Bp (b0 :: B') Bs) :
    b.toArray[s.bStart]? = some b0 := by
  rw [List.getElem?_toArray, I.hb]
  simpa using getElem?_mid Bp (B' ++ Bs) b0 s.bStart I.hbS.symm

theorem Inv.b_last {b1 : Nat} {Bi : List Nat} (I : Inv pre post b s aL A aR Bp (Bi ++ [b1]) Bs) :
    b.toArray[s.bEnd - 1]? = some b1 := by
  rw [List.getElem?_toArray, I.hb]
  have := I.hbE; have := I.hbS
  simpa using getElem?_mid (Bp ++ Bi) Bs b1 (s.bEnd - 1) (by simp at *; omega)

theorem Inv.aWin_eq (I : Inv pre post b s aL A aR Bp B Bs) : s.aWin = A := by
  have h1 := I.haE; have h2 := I.haS
  rw [St.aWin, I.ha, ← h2, show s.aEnd - aL.length = A.length by omega]
  simp

theorem Inv.bWin_eq (I : Inv pre post b s aL A aR Bp B Bs) : bWin b.toArray s = B := by
  have h1 := I.hbE; have h2 := I.hbS
  have h3 : b.toArray.toList = Bp ++ B ++ Bs := by simpa using I.hb
  rw [bWin, h3, ← h2, show s.bEnd - Bp.length = B.length by omega]
  simp

/-- consequences of `b.Nodup` for the three parts -/
theorem Inv.b_parts (F : Fixed pre post b after) (I : Inv pre post b s aL A aR Bp B Bs) :
    Bp.Nodup ∧ B.Nodup ∧ Bs.Nodup ∧ (∀ x ∈ Bp, x ∉ B) ∧ (∀ x ∈ Bp, x ∉ Bs) ∧ (∀ x ∈ B, x ∉ Bs) := by
  have h1 := F.bnd
  rw [I.hb] at h1
  simp only [List.nodup_append, List.mem_append] at h1
  grind

theorem without_snoc_of_not_mem {A L : List Nat} {x : Nat} (h : x ∉ A) : without A (L ++ [x]) = without A L := by
  rw [without_append_right]
  exact without_eq_self (fun y hy => by simp; intro e; exact h (e ▸ (mem_without.mp hy).1))

theorem MapSome.mono {m : NodeMap} {bS bE bS' bE' : Nat} {A' : List Nat} (h : MapSome b m bS bE A)
    (h1 : bS ≤ bS') (h2 : bE' ≤ bE) (h3 : ∀ x ∈ A', x ∈ A) : MapSome b m bS' bE' A' := by
  obtain ⟨s0, e0, a1, a2, a3, a4⟩ := h
  exact ⟨s0, e0, by omega, by omega, a3, fun x hx => a4 x (h3 x hx)⟩

/-- common prefix -/
theorem Inv.step_prefix {a0 : Nat} {A' B' : List Nat} (F : Fixed pre post b after)
    (I : Inv pre post b s aL (a0 :: A') aR Bp (a0 :: B') Bs) :
    Inv pre post b { s with aStart := s.aStart + 1, bStart := s.bStart + 1 }
      (aL ++ [a0]) A' aR (Bp ++ [a0]) B' Bs := by
  obtain ⟨p1, p2, p3, p4, p5, p6⟩ := I.b_parts F
  have hA := I.hA
  have hn : a0 ∉ A' := (List.nodup_cons.mp hA).1
  have hBp : a0 ∉ Bp := fun h => p4 a0 h (by simp)
  refine ⟨by simpa using I.ha, by simpa using I.haS, by have := I.haE; simp at *; omega,
    by simpa using I.hb, by simpa using I.hbS, by have := I.hbE; simp at *; omega, ?_,
    (List.nodup_cons.mp hA).2, fun x hx => I.hABs x (by simp [hx]), fun x hx => I.hApre x (by simp [hx]),
    fun x hx => I.hApost x (by simp [hx]), ?_⟩
  · have := I.hch
    rw [without_cons_of_not_mem hBp] at this
    simp only [without_snoc_of_not_mem hn]
    simpa using this
  · have hm := I.hmap
    have := I.hbE
    simp only [MapOk] at hm ⊢
    split
    · rename_i h; simp only [h] at hm
      intro x hx; simp [hm x (by simp [hx])]; intro e; exact hn (e ▸ hx)
    · rename_i m h; simp only [h] at hm
      exact hm.mono (by omega) (by omega) (fun x hx => by simp [hx])

/-- a `MapOk` for a smaller window and fewer remaining nodes, `Bp` grown by nodes not remaining -/
theorem MapOk.mono {map : Option NodeMap} {bS bE bS' bE' : Nat} {A' Bp' : List Nat}
    (h : MapOk b map bS bE A Bp) (h1 : bS ≤ bS') (h2 : bE' ≤ bE) (h3 : ∀ x ∈ A', x ∈ A)
    (h4 : ∀ x ∈ A', x ∈ Bp' → x ∈ Bp) : MapOk b map bS' bE' A' Bp' := by
  cases map with
  | none => exact fun x hx hp => h x (h3 x hx) (h4 x hx hp)
  | some m => exact MapSome.mono h h1 h2 h3

/-- common suffix -/
theorem Inv.step_suffix {a1 : Nat} {Ai Bi : List Nat} (F : Fixed pre post b after)
    (I : Inv pre post b s aL (Ai ++ [a1]) aR Bp (Bi ++ [a1]) Bs) :
    Inv pre post b { s with aEnd := s.aEnd - 1, bEnd := s.bEnd - 1 }
      aL Ai (a1 :: aR) Bp Bi (a1 :: Bs) := by
  obtain ⟨p1, p2, p3, p4, p5, p6⟩ := I.b_parts F
  have hA := I.hA
  have hn : a1 ∉ Ai := by
    intro h; exact (List.nodup_append.mp hA).2.2 a1 h a1 (by simp) rfl
  have hBp : a1 ∉ Bp := fun h => p4 a1 h (by simp)
  refine ⟨by simpa using I.ha, I.haS, by have := I.haE; simp at *; omega,
    by simpa using I.hb, I.hbS, by have := I.hbE; simp at *; omega, ?_,
    (List.nodup_append.mp hA).1, ?_, fun x hx => I.hApre x (by simp [hx]),
    fun x hx => I.hApost x (by simp [hx]), ?_⟩
  · have := I.hch
    rw [without_append_left, without_cons_of_not_mem hBp] at this
    simpa using this
  · intro x hx
    have := I.hABs x (by simp [hx])
    simp [this]; intro e; exact hn (e ▸ hx)
  · have := I.hbE
    exact I.hmap.mono (Nat.le_refl _) (by simp) (fun x hx => by simp [hx]) (fun x _ h => h)

theorem set_mid (l1 l2 : List Nat) (y x : Nat) (i : Nat) (h : i = l1.length) :
    (l1 ++ y :: l2).set i x = l1 ++ x :: l2 := by subst h; simp

/-- swap backwards: the invariant part -/
theorem Inv.step_swap {a0 a1 : Nat} {Am Bm : List Nat} (F : Fixed pre post b after)
    (I : Inv pre post b s aL (a0 :: (Am ++ [a1])) aR Bp (a1 :: (Bm ++ [a0])) Bs) :
    Inv pre post b { s with ch := pre ++ Bp ++ a1 :: (without Am Bp ++ a0 :: (Bs ++ post)),
                            aStart := s.aStart + 1, bStart := s.bStart + 1,
                            aEnd := s.aEnd - 1, bEnd := s.bEnd - 1, a := s.a.set! (s.aEnd - 1) a0 }
      (aL ++ [a0]) Am (a0 :: aR) (Bp ++ [a1]) Bm (a0 :: Bs) := by
  obtain ⟨p1, p2, p3, p4, p5, p6⟩ := I.b_parts F
  have hA := I.hA
  simp only [List.nodup_cons, List.nodup_append, List.mem_append, List.mem_cons] at hA
  have hn0 : a0 ∉ Am := by grind
  have hn1 : a1 ∉ Am := by grind
  refine ⟨?_, by simpa using I.haS, by have := I.haE; simp at *; omega,
    by simpa using I.hb, by simpa using I.hbS, by have := I.hbE; simp at *; omega, ?_,
    by grind, ?_, fun x hx => I.hApre x (by simp [hx]),
    fun x hx => I.hApost x (by simp [hx]), ?_⟩
  · have h1 := I.ha; have h2 := I.haE; have h3 := I.haS
    simp only [Array.set!_eq_setIfInBounds, Array.toList_setIfInBounds, h1]
    have := set_mid (aL ++ a0 :: Am) aR a1 a0 (s.aEnd - 1) (by simp at *; omega)
    simpa using this
  · simp only [without_snoc_of_not_mem hn1]
    simp
  · intro x hx
    have := I.hABs x (by simp [hx])
    simp [this]; intro e; exact hn0 (e ▸ hx)
  · have := I.hbE
    refine I.hmap.mono (by simp) (by simp) (fun x hx => by simp [hx]) ?_
    intro x hx h
    simp at h
    rcases h with h | h
    · exact h
    · exact absurd (h ▸ hx) hn1

/-- swap backwards: the DOM part -/
theorem Inv.swap_dom {a0 a1 : Nat} {Am Bm : List Nat} (F : Fixed pre post b after)
    (I : Inv pre post b s aL (a0 :: (Am ++ [a1])) aR Bp (a1 :: (Bm ++ [a0])) Bs) :
    ∃ ch1, insertBefore s.ch a1 (nextSibling s.ch a0) = .ok ch1 ∧
      insertBefore ch1 a0 (nextSibling s.ch a1) = .ok (pre ++ Bp ++ a1 :: (without Am Bp ++ a0 :: (Bs ++ post))) := by
  obtain ⟨p1, p2, p3, p4, p5, p6⟩ := I.b_parts F
  have hnd := I.ch_nodup F
  have h0 : a0 ∉ Bp := fun h => p4 a0 h (by simp)
  have h1 : a1 ∉ Bp := fun h => p4 a1 h (by simp)
  have hch : s.ch = (pre ++ Bp) ++ a0 :: (without Am Bp ++ a1 :: (Bs ++ post)) := by
    rw [I.hch, without_cons_of_not_mem h0, without_append_left, without_cons_of_not_mem h1]; simp
  rw [← I.hch, hch] at hnd
  rw [hch]
  exact swap_ops hnd

/-! index facts for `b = Bp ++ B ++ Bs` -/

theorem idx_Bp {x j : Nat} (hb : b = Bp ++ B ++ Bs) (h : b[j]? = some x) (hj : j < Bp.length) : x ∈ Bp := by
  subst hb
  rw [List.append_assoc, List.getElem?_append_left hj] at h
  exact List.mem_of_getElem? h

theorem idx_Bs {x j : Nat} (hb : b = Bp ++ B ++ Bs) (h : b[j]? = some x) (hj : Bp.length + B.length ≤ j) :
    x ∈ Bs := by
  subst hb
  rw [List.getElem?_append_right (by simpa using hj)] at h
  exact List.mem_of_getElem? h

theorem idx_B {j : Nat} (hb : b = Bp ++ B ++ Bs) (hj : Bp.length ≤ j) (hj2 : j < Bp.length + B.length) :
    b[j]? = B[j - Bp.length]? := by
  subst hb
  rw [List.append_assoc, List.getElem?_append_right hj, List.getElem?_append_left (by omega)]

theorem idx_of_mem_Bp {x : Nat} (hb : b = Bp ++ B ++ Bs) (h : x ∈ Bp) : ∃ j, j < Bp.length ∧ b[j]? = some x := by
  subst hb
  obtain ⟨j, hj, e⟩ := List.mem_iff_getElem.mp h
  refine ⟨j, hj, ?_⟩
  rw [List.append_assoc, List.getElem?_append_left hj, List.getElem?_eq_getElem hj, e]

/-- the map used by the fallback branch satisfies `MapSome` for the current window -/
theorem Inv.theMap_ok (F : Fixed pre post b after) (I : Inv pre post b s aL A aR Bp B Bs) :
    MapSome b (theMap b.toArray s) s.bStart s.bEnd A := by
  have hm := I.hmap
  unfold theMap
  unfold MapOk at hm
  split
  · rename_i m h; simpa only [h] using hm
  · rename_i h
    simp only [h] at hm
    obtain ⟨p1, p2, p3, p4, p5, p6⟩ := I.b_parts F
    have hbS := I.hbS; have hbE := I.hbE
    refine ⟨s.bStart, s.bEnd, Nat.le_refl _, Nat.le_refl _, ?_, ?_⟩
    · intro x j
      rw [I.bWin_eq]
      have := get_zipIdx (L := B) s.bStart 0 p2 x j
      rw [this]
      constructor
      · rintro ⟨i, hi, hj⟩
        have hi2 : i < B.length := (List.getElem?_eq_some_iff.mp hi).1
        refine ⟨by omega, by omega, ?_⟩
        rw [idx_B I.hb (by omega) (by omega), ← hi]; congr 1; omega
      · rintro ⟨h1, h2, h3⟩
        refine ⟨j - s.bStart, ?_, by omega⟩
        rw [idx_B I.hb (by omega) (by omega)] at h3
        rw [← h3]; congr 1; omega
    · intro x hx j hj
      apply Nat.le_of_not_lt
      intro hlt
      exact hm x hx (idx_Bp I.hb hj (by omega))

theorem MapSome.get_some {m : NodeMap} {bS bE x j : Nat} (h : MapSome b m bS bE A) (hg : m.get x = some j) :
    b[j]? = some x := by
  obtain ⟨s0, e0, a1, a2, a3, a4⟩ := h
  exact ((a3 x j).mp hg).2.2

/-- a remaining node the map does not know has not been placed -/
theorem Inv.not_placed_of_get_none {m : NodeMap} {x : Nat} (I : Inv pre post b s aL A aR Bp B Bs)
    (h : MapSome b m s.bStart s.bEnd A) (hx : x ∈ A) (hg : m.get x = none) : x ∉ Bp := by
  obtain ⟨s0, e0, a1, a2, a3, a4⟩ := h
  intro hp
  obtain ⟨j, hj, e⟩ := idx_of_mem_Bp I.hb hp
  have := a4 x hx j e
  have h1 := I.hbS; have h2 := I.hbE
  have : m.get x = some j := (a3 x j).mpr ⟨this, by omega, e⟩
  rw [hg] at this; cases this

/-- a remaining node that the map sends outside the current window has already been placed
(unless it is the head of the window) -/
theorem Inv.placed_of_get_some {m : NodeMap} {x j : Nat} (I : Inv pre post b s aL A aR Bp B Bs)
    (h : MapSome b m s.bStart s.bEnd A) (hx : x ∈ A) (hg : m.get x = some j)
    (hr : ¬ (s.bStart < j ∧ j < s.bEnd)) (hne : b[s.bStart]? ≠ some x ∨ s.bStart = s.bEnd) : x ∈ Bp := by
  have e := h.get_some hg
  have h1 := I.hbS; have h2 := I.hbE
  by_cases hlt : j < s.bStart
  · exact idx_Bp I.hb e (by omega)
  · by_cases hge : s.bEnd ≤ j
    · exact absurd (idx_Bs I.hb e (by omega)) (I.hABs x hx)
    · have : j = s.bStart := by omega
      subst this
      rcases hne with hne | hne
      · exact absurd e hne
      · omega

/-- map fallback, node already placed: skip -/
theorem Inv.step_skip {a0 : Nat} {A' : List Nat} {m : NodeMap}
    (I : Inv pre post b s aL (a0 :: A') aR Bp B Bs) (hm : MapSome b m s.bStart s.bEnd (a0 :: A'))
    (hp : a0 ∈ Bp) :
    Inv pre post b { s with map := some m, aStart := s.aStart + 1 } (aL ++ [a0]) A' aR Bp B Bs := by
  have hA := I.hA
  refine ⟨by simpa using I.ha, by simpa using I.haS, by have := I.haE; simp at *; omega,
    I.hb, I.hbS, I.hbE, ?_,
    (List.nodup_cons.mp hA).2, fun x hx => I.hABs x (by simp [hx]), fun x hx => I.hApre x (by simp [hx]),
    fun x hx => I.hApost x (by simp [hx]), ?_⟩
  · have := I.hch
    rw [without_cons_of_mem hp] at this
    exact this
  · exact hm.mono (Nat.le_refl _) (Nat.le_refl _) (fun x hx => by simp [hx])

/-- map fallback, node not in `b`: remove it -/
theorem Inv.step_remove1 {a0 : Nat} {A' : List Nat} {m : NodeMap}
    (I : Inv pre post b s aL (a0 :: A') aR Bp B Bs) (hm : MapSome b m s.bStart s.bEnd (a0 :: A'))
    (hp : a0 ∉ Bp) :
    removeChild s.ch a0 = .ok (pre ++ Bp ++ without A' Bp ++ Bs ++ post) ∧
    Inv pre post b { s with map := some m, ch := pre ++ Bp ++ without A' Bp ++ Bs ++ post,
                            aStart := s.aStart + 1 } (aL ++ [a0]) A' aR Bp B Bs := by
  have hA := I.hA
  constructor
  · have hch : s.ch = (pre ++ Bp) ++ a0 :: (without A' Bp ++ Bs ++ post) := by
      rw [I.hch, without_cons_of_not_mem hp]; simp
    rw [hch, removeChild_mid (by simp [hp, I.hApre a0 (by simp)])]
    simp
  · exact ⟨by simpa using I.ha, by simpa using I.haS, by have := I.haE; simp at *; omega,
      I.hb, I.hbS, I.hbE, rfl,
      (List.nodup_cons.mp hA).2, fun x hx => I.hABs x (by simp [hx]), fun x hx => I.hApre x (by simp [hx]),
      fun x hx => I.hApost x (by simp [hx]),
      hm.mono (Nat.le_refl _) (Nat.le_refl _) (fun x hx => by simp [hx])⟩

/-- map fallback: `replaceChild(b[bStart], a[aStart])` -/
theorem Inv.step_replace {a0 b0 : Nat} {A' B' : List Nat} {m : NodeMap} (F : Fixed pre post b after)
    (I : Inv pre post b s aL (a0 :: A') aR Bp (b0 :: B') Bs) (hm : MapSome b m s.bStart s.bEnd (a0 :: A'))
    (hp : a0 ∉ Bp) (hne : a0 ≠ b0) :
    replaceChild s.ch b0 a0 = .ok (pre ++ (Bp ++ [b0]) ++ without A' (Bp ++ [b0]) ++ Bs ++ post) ∧
    Inv pre post b { s with map := some m, ch := pre ++ (Bp ++ [b0]) ++ without A' (Bp ++ [b0]) ++ Bs ++ post,
                            aStart := s.aStart + 1, bStart := s.bStart + 1 }
      (aL ++ [a0]) A' aR (Bp ++ [b0]) B' Bs := by
  obtain ⟨p1, p2, p3, p4, p5, p6⟩ := I.b_parts F
  have hA := I.hA
  have hb0 : b0 ∈ b := by rw [I.hb]; simp
  have hb0Bp : b0 ∉ Bp := fun h => p4 b0 h (by simp)
  constructor
  · have hnd := I.ch_nodup F
    have hch : s.ch = (pre ++ Bp) ++ a0 :: (without A' Bp ++ Bs ++ post) := by
      rw [I.hch, without_cons_of_not_mem hp]; simp
    rw [← I.hch, hch] at hnd
    have hnd2 : (without A' Bp ++ Bs ++ post).Nodup :=
      (List.nodup_cons.mp (List.nodup_append.mp hnd).2.1).2
    rw [hch, replaceChild_mid hnd (by simp [hb0Bp, F.bpre b0 hb0]) (Ne.symm hne),
      erase_eq_without hnd2, without_append_left, without_append_left,
      without_eq_self (A := Bs) (by intro x hx; simp; intro e; exact p6 b0 (by simp) (e ▸ hx)),
      without_eq_self (A := post) (by intro x hx; simp; intro e; exact F.bpost b0 hb0 (e ▸ hx)),
      ← without_append_right]
    simp
  · have := I.hbE
    exact ⟨by simpa using I.ha, by simpa using I.haS, by have := I.haE; simp at *; omega,
      by simpa using I.hb, by simpa using I.hbS, by have := I.hbE; simp at *; omega, rfl,
      (List.nodup_cons.mp hA).2, fun x hx => I.hABs x (by simp [hx]), fun x hx => I.hApre x (by simp [hx]),
      fun x hx => I.hApost x (by simp [hx]),
      hm.mono (by simp) (Nat.le_refl _) (fun x hx => by simp [hx])⟩

/-- map fallback: insert the run `L` of new-order nodes before `a[aStart]` -/
theorem Inv.step_insert {a0 j : Nat} {A' L B2 : List Nat} {m : NodeMap} (F : Fixed pre post b after)
    (I : Inv pre post b s aL (a0 :: A') aR Bp (L ++ a0 :: B2) Bs)
    (hm : MapSome b m s.bStart s.bEnd (a0 :: A')) (hL : s.bStart + L.length = j) :
    insertAll s.ch (some a0) L = .ok (pre ++ (Bp ++ L) ++ without (a0 :: A') (Bp ++ L) ++ Bs ++ post) ∧
    Inv pre post b { s with map := some m, ch := pre ++ (Bp ++ L) ++ without (a0 :: A') (Bp ++ L) ++ Bs ++ post,
                            bStart := j }
      aL (a0 :: A') aR (Bp ++ L) (a0 :: B2) Bs := by
  obtain ⟨p1, p2, p3, p4, p5, p6⟩ := I.b_parts F
  have hLB : ∀ x ∈ L, x ∈ b := by intro x hx; rw [I.hb]; simp [hx]
  have ha0Bp : a0 ∉ Bp := fun h => p4 a0 h (by simp)
  have hp2 := p2
  simp only [List.nodup_append, List.nodup_cons, List.mem_cons] at hp2
  have ha0L : a0 ∉ L := fun h => hp2.2.2 a0 h a0 (by simp) rfl
  constructor
  · have hnd := I.ch_nodup F
    have hch : s.ch = (pre ++ Bp) ++ a0 :: (without A' Bp ++ Bs ++ post) := by
      rw [I.hch, without_cons_of_not_mem ha0Bp]; simp
    rw [← I.hch, hch] at hnd
    rw [hch, insertAll_before hnd hp2.1 (by
        intro x hx
        refine ⟨?_, fun e => ha0L (e ▸ hx)⟩
        simp [F.bpre x (hLB x hx)]
        exact fun h => p4 x h (by simp [hx])),
      without_append_left, without_append_left,
      without_eq_self (A := Bs) (fun x hx h => p6 x (by simp [h]) hx),
      without_eq_self (A := post) (fun x hx h => F.bpost x (hLB x h) hx),
      ← without_append_right, without_cons_of_not_mem (by simp [ha0Bp, ha0L])]
    simp
  · have h1 := I.hbE; have h2 := I.hbS
    exact ⟨I.ha, I.haS, I.haE, by simpa using I.hb, by simp; omega, by simp at *; omega, rfl,
      I.hA, I.hABs, I.hApre, I.hApost, hm.mono (by simp; omega) (Nat.le_refl _) (fun x hx => hx)⟩

/-- splitting the `b` window at the index the map gives -/
theorem Inv.split_B {x j : Nat} (I : Inv pre post b s aL A aR Bp B Bs) (e : b[j]? = some x)
    (hr : s.bStart < j ∧ j < s.bEnd) :
    ∃ L B2, B = L ++ x :: B2 ∧ s.bStart + L.length = j ∧ L ≠ [] ∧
      (b.toArray.toList.drop s.bStart).take (j - s.bStart) = L := by
  have h1 := I.hbE; have h2 := I.hbS
  rw [idx_B I.hb (by omega) (by omega)] at e
  have hlt : j - Bp.length < B.length := by omega
  have e' : B[j - Bp.length] = x := by
    rw [List.getElem?_eq_getElem hlt] at e; exact Option.some.inj e
  refine ⟨B.take (j - Bp.length), B.drop (j - Bp.length + 1), ?_, ?_, ?_, ?_⟩
  · rw [← e', List.getElem_cons_drop, List.take_append_drop]
  · rw [List.length_take]; omega
  · intro h
    have hlen : (B.take (j - Bp.length)).length = j - Bp.length := by rw [List.length_take]; omega
    rw [h, List.length_nil] at hlen; omega
  · have : b.toArray.toList = Bp ++ (B ++ Bs) := by simp [I.hb]
    rw [this, ← h2, List.drop_left, List.take_append_of_le_length (by omega)]

/-- the removal branch -/
theorem Inv.step_removeAll (I : Inv pre post b s aL A aR Bp [] Bs) :
    removeAll s.ch s.map s.aWin = .ok (pre ++ Bp ++ Bs ++ post) ∧
    Inv pre post b { s with ch := pre ++ Bp ++ Bs ++ post, aStart := s.aEnd } (aL ++ A) [] aR Bp [] Bs := by
  have h1 := I.hbE; have h2 := I.hbS
  have hf : without A Bp = A.filter (unknown s.map) := by
    unfold without
    apply List.filter_congr
    intro x hx
    have hm := I.hmap
    cases hmap : s.map with
    | none =>
      rw [hmap] at hm
      have := hm x hx
      simp [unknown, this]
    | some m =>
      rw [hmap] at hm
      simp only [MapOk] at hm
      cases hg : m.get x with
      | none => simp [unknown, hg, I.not_placed_of_get_none hm hx hg]
      | some j =>
        have := I.placed_of_get_some hm hx hg (by simp at h1; omega) (Or.inr (by simpa using h1.symm))
        simp [unknown, hg, this]
  constructor
  · rw [I.aWin_eq, I.hch, hf]
    have := removeAll_spec (l1 := pre ++ Bp) (l2 := Bs ++ post) s.map (A := A) (by
      intro x hx hu
      have : x ∈ without A Bp := by rw [hf]; exact List.mem_filter.mpr ⟨hx, hu⟩
      simp [I.hApre x hx, (mem_without.mp this).2])
    simpa using this
  · refine ⟨by simpa using I.ha, by have := I.haE; have := I.haS; simp; omega, by simp,
      I.hb, I.hbS, I.hbE, by simp, List.nodup_nil, by simp, by simp, by simp, ?_⟩
    exact I.hmap.mono (Nat.le_refl _) (Nat.le_refl _) (by simp) (by simp)

theorem exists_concat {l : List Nat} (h : l ≠ []) : ∃ i x, l = i ++ [x] :=
  ⟨l.dropLast, l.getLast h, (List.dropLast_concat_getLast h).symm⟩

/-- the append branch -/
theorem Inv.step_append (F : Fixed pre post b after) (I : Inv pre post b s aL [] aR Bp B Bs) :
    iter b.toArray after s = .ok { s with ch := pre ++ (Bp ++ B) ++ Bs ++ post, bStart := s.bEnd } ∧
    Inv pre post b { s with ch := pre ++ (Bp ++ B) ++ Bs ++ post, bStart := s.bEnd }
      aL [] aR (Bp ++ B) [] Bs := by
  obtain ⟨p1, p2, p3, p4, p5, p6⟩ := I.b_parts F
  have h1 := I.hbE; have h2 := I.hbS
  have hnd := I.ch_nodup F
  have hch : s.ch = (pre ++ Bp) ++ (Bs ++ post) := by rw [I.hch]; simp
  have hBb : ∀ x ∈ B, x ∈ b := by intro x hx; rw [I.hb]; simp [hx]
  have key : insertAll s.ch (Bs ++ post).head? B = .ok (pre ++ (Bp ++ B) ++ Bs ++ post) := by
    rw [hch, insertAll_fresh (by simpa using hnd) p2 (by
      intro x hx
      simp [F.bpre x (hBb x hx), F.bpost x (hBb x hx), p6 x hx]
      exact fun h => p4 x h hx)]
    simp
  have hsz : b.toArray.size = Bp.length + B.length + Bs.length := by
    rw [List.size_toArray, I.hb]; simp; omega
  have haE : s.aEnd = s.aStart := by simpa using I.haE
  constructor
  · cases hBs : Bs with
    | nil =>
      subst hBs
      apply iter_append_end haE (by simp only [List.length_nil] at hsz; omega)
      rw [I.bWin_eq, F.after_eq]; simpa using key
    | cons c Bs' =>
      subst hBs
      have hlt : s.bEnd < b.toArray.size := by simp only [List.length_cons] at hsz; omega
      have key' : insertAll s.ch (some c) B = .ok (pre ++ (Bp ++ B) ++ c :: Bs' ++ post) := by
        simpa using key
      by_cases h0 : s.bStart = 0
      · refine iter_append_start haE hlt h0 (x := c) ?_ (by rw [I.bWin_eq]; exact key')
        have hBp : Bp = [] := List.eq_nil_of_length_eq_zero (by omega)
        rw [List.getElem?_toArray, I.hb, hBp]
        simpa using getElem?_mid B Bs' c (s.bEnd - s.bStart) (by omega)
      · obtain ⟨Bpi, l, hl⟩ := exists_concat (l := Bp) (by intro h; rw [h] at h2; simp at h2; omega)
        subst hl
        have hx : b.toArray[s.bStart - 1]? = some l := by
          rw [List.getElem?_toArray, I.hb]
          simpa using getElem?_mid Bpi (B ++ c :: Bs') l (s.bStart - 1) (by simp at h2; omega)
        refine iter_append_mid haE hlt h0 hx ?_
        have hl1 : l ∉ pre ++ Bpi := by
          simp only [without_nil_left, List.nodup_append, List.mem_append, List.nodup_cons, List.mem_cons] at hnd
          simp only [List.mem_append]; grind
        have : nextSibling s.ch l = some c := by
          rw [show s.ch = (pre ++ Bpi) ++ l :: (c :: Bs' ++ post) by rw [hch]; simp, nextSibling_mid hl1]
          rfl
        rw [this, I.bWin_eq]; exact key'
  · exact ⟨I.ha, I.haS, I.haE, by simpa using I.hb, by simp; omega, by simp, by simp,
      List.nodup_nil, by simp, by simp, by simp,
      I.hmap.mono (by simp; omega) (Nat.le_refl _) (by simp) (by simp)⟩

theorem Inv.b_first' {b0 : Nat} {B' : List Nat} (I : Inv pre post b s aL A aR Bp (b0 :: B') Bs) :
    b[s.bStart]? = some b0 := by
  have := I.b_first; rwa [List.getElem?_toArray] at this

theorem tail_concat {x y : Nat} {t i : List Nat} (h : x :: t = i ++ [y]) (hne : x ≠ y) :
    ∃ m, t = m ++ [y] := by
  cases i with
  | nil => simp at h; exact absurd h.1 hne
  | cons z m => simp at h; exact ⟨m, h.2⟩

/-- one iteration of the main loop re-establishes the invariant and decreases the measure -/
theorem Inv.step (F : Fixed pre post b after) (I : Inv pre post b s aL A aR Bp B Bs)
    (hpos : 0 < A.length + B.length) :
    ∃ s' aL' A' aR' Bp' B' Bs', iter b.toArray after s = .ok s' ∧
      Inv pre post b s' aL' A' aR' Bp' B' Bs' ∧ A'.length + B'.length < A.length + B.length := by
  cases A with
  | nil =>
    have := I.step_append F
    exact ⟨_, _, _, _, _, _, _, this.1, this.2, by simpa using hpos⟩
  | cons a0 A' =>
    have haE : s.aEnd ≠ s.aStart := by have := I.haE; simp at this; omega
    cases B with
    | nil =>
      have := I.step_removeAll
      exact ⟨_, _, _, _, _, _, _, iter_remove haE (by simpa using I.hbE) this.1, this.2, by simp⟩
    | cons b0 B' =>
      have hbE : s.bEnd ≠ s.bStart := by have := I.hbE; simp at this; omega
      obtain ⟨Ai, a1, hAi⟩ := exists_concat (l := a0 :: A') (by simp)
      obtain ⟨Bi, b1, hBi⟩ := exists_concat (l := b0 :: B') (by simp)
      have hlA : A'.length + 1 = Ai.length + 1 := by simpa using congrArg List.length hAi
      have hlB : B'.length + 1 = Bi.length + 1 := by simpa using congrArg List.length hBi
      have ha0 := I.a_first
      have hb0 := I.b_first
      have ha1 : s.a[s.aEnd - 1]? = some a1 := by
        have I' := I; rw [hAi] at I'; exact I'.a_last
      have hb1 : b.toArray[s.bEnd - 1]? = some b1 := by
        have I' := I; rw [hBi] at I'; exact I'.b_last
      by_cases e0 : a0 = b0
      · subst e0
        exact ⟨_, _, _, _, _, _, _, iter_prefix haE hbE ha0 hb0 ha1 hb1 rfl, I.step_prefix F, by simp; omega⟩
      by_cases e1 : a1 = b1
      · subst e1
        have I' := I; rw [hAi, hBi] at I'
        exact ⟨_, _, _, _, _, _, _, iter_suffix haE hbE ha0 hb0 ha1 hb1 e0 rfl, I'.step_suffix F,
          by simp; omega⟩
      by_cases e2 : a0 = b1 ∧ b0 = a1
      · obtain ⟨e2, e3⟩ := e2
        subst e2 e3
        obtain ⟨Am, hAm⟩ := tail_concat hAi e0
        obtain ⟨Bm, hBm⟩ := tail_concat hBi (Ne.symm e0)
        subst hAm hBm
        obtain ⟨ch1, h1, h2⟩ := I.swap_dom F
        have hsz : s.aEnd - 1 < s.a.size := by
          have h3 := I.haE; have h4 := I.haS
          have := congrArg List.length I.ha
          simp at this h3; omega
        exact ⟨_, _, _, _, _, _, _, iter_swap haE hbE ha0 hb0 ha1 hb1 e0 e1 ⟨rfl, rfl⟩ h1 h2 hsz,
          I.step_swap F, by simp; omega⟩
      · have hmO := I.theMap_ok F
        rw [iter_map haE hbE ha0 hb0 ha1 hb1 e0 e1 e2]
        cases hg : (theMap b.toArray s).get a0 with
        | none =>
          have hp := I.not_placed_of_get_none hmO (by simp) hg
          have := I.step_remove1 hmO hp
          exact ⟨_, _, _, _, _, _, _, mapBranch_remove hg this.1, this.2, by simp⟩
        | some j =>
          by_cases hr : s.bStart < j ∧ j < s.bEnd
          · have e := hmO.get_some hg
            obtain ⟨L, B2, hB, hL, hLne, hLeq⟩ := I.split_B e hr
            have hLpos : 0 < L.length := List.length_pos_iff.mpr hLne
            by_cases hs : seqLen s.a (theMap b.toArray s) s.aEnd s.bEnd j (s.a.size + 1) s.aStart 1 > j - s.bStart
            · have I' := I; rw [hB] at I'
              have hmO' := hmO
              have := I'.step_insert F hmO' hL
              refine ⟨_, _, _, _, _, _, _, mapBranch_insert hg hr hs (by rw [hLeq]; exact this.1), this.2, ?_⟩
              rw [hB]; simp; omega
            · obtain ⟨p1, p2, p3, p4, p5, p6⟩ := I.b_parts F
              have hp : a0 ∉ Bp := fun h => p4 a0 h (by rw [hB]; simp)
              have := I.step_replace F hmO hp e0
              exact ⟨_, _, _, _, _, _, _, mapBranch_replace hg hr hs this.1, this.2, by simp; omega⟩
          · have hp := I.placed_of_get_some hmO (by simp) hg hr
              (Or.inl (by rw [I.b_first']; simpa using Ne.symm e0))
            exact ⟨_, _, _, _, _, _, _, mapBranch_skip hg hr, I.step_skip hmO hp, by simp⟩

end InvLemmas

/-! ### the loop and the whole routine -/

theorem loop_ok {pre post b : List Nat} {after : Option Nat} (F : Fixed pre post b after) :
    ∀ (fuel : Nat) (s : St) (aL A aR Bp B Bs : List Nat), Inv pre post b s aL A aR Bp B Bs →
      A.length + B.length < fuel →
      ∃ s', loop b.toArray after fuel s = .ok s' ∧ s'.ch = pre ++ b ++ post := by
  intro fuel
  induction fuel with
  | zero => intro s aL A aR Bp B Bs _ h; omega
  | succ fuel ih =>
    intro s aL A aR Bp B Bs I hlt
    have h1 := I.haE; have h2 := I.hbE
    by_cases hc : s.aStart < s.aEnd ∨ s.bStart < s.bEnd
    · obtain ⟨s', aL', A', aR', Bp', B', Bs', hit, I', hm⟩ := I.step F (by omega)
      obtain ⟨s'', hl, hch⟩ := ih s' aL' A' aR' Bp' B' Bs' I' (by omega)
      exact ⟨s'', by simp only [loop, hc, if_true, hit]; exact hl, hch⟩
    · have hA : A = [] := List.eq_nil_of_length_eq_zero (by omega)
      have hB : B = [] := List.eq_nil_of_length_eq_zero (by omega)
      subst hA hB
      refine ⟨s, by simp only [loop, hc, if_false], ?_⟩
      rw [I.hch, I.hb]; simp

theorem reconcile_ok (pre a b post : List Nat) (ha : a ≠ []) (hnd : (pre ++ a ++ post).Nodup)
    (hb : b.Nodup) (hnew : ∀ x ∈ b, x ∉ a → x ∉ pre ∧ x ∉ post) :
    reconcile (pre ++ a ++ post) a b = .ok (pre ++ b ++ post) := by
  obtain ⟨ai, last, hl⟩ := exists_concat ha
  have hnd' := hnd
  simp only [List.nodup_append, List.mem_append] at hnd'
  have hlast : a.getLast? = some last := by rw [hl]; simp
  have hafter : nextSibling (pre ++ a ++ post) last = post.head? := by
    rw [hl, show pre ++ (ai ++ [last]) ++ post = (pre ++ ai) ++ last :: post by simp]
    apply nextSibling_mid
    rw [hl] at hnd'
    simp only [List.mem_append, List.nodup_append, List.mem_singleton] at hnd' ⊢
    grind
  have F : Fixed pre post b (nextSibling (pre ++ a ++ post) last) := by
    refine ⟨hb, by grind, by grind, by grind, ?_, ?_, hafter⟩
    · intro x hx
      by_cases hxa : x ∈ a
      · grind
      · exact (hnew x hx hxa).1
    · intro x hx
      by_cases hxa : x ∈ a
      · grind
      · exact (hnew x hx hxa).2
  have I : Inv pre post b ⟨pre ++ a ++ post, a.toArray, 0, a.length, 0, b.length, none⟩ [] a [] [] b [] := by
    refine ⟨by simp, rfl, by simp, by simp, rfl, by simp, by simp, by grind, by simp, by grind, by grind, ?_⟩
    simp [MapOk]
  obtain ⟨s', hloop, hch⟩ := loop_ok F (2 * (a.length + b.length) + 2) _ _ _ _ _ _ _ I (by omega)
  simp only [reconcile, hlast, hloop, hch]

/-! ### `nodesBetween` -/

theorem dropWhile_mid {p : Nat → Bool} {l1 l2 : List Nat} {y : Nat} (h1 : ∀ x ∈ l1, p x = true)
    (hy : p y = false) : (l1 ++ y :: l2).dropWhile p = y :: l2 := by
  induction l1 with
  | nil => simp [hy]
  | cons x l1 ih =>
    simp only [List.cons_append, List.dropWhile_cons, h1 x (by simp), if_true]
    exact ih (fun z hz => h1 z (by simp [hz]))

theorem takeWhile_mid {p : Nat → Bool} {l1 l2 : List Nat} {y : Nat} (h1 : ∀ x ∈ l1, p x = true)
    (hy : p y = false) : (l1 ++ y :: l2).takeWhile p = l1 := by
  induction l1 with
  | nil => simp [hy]
  | cons x l1 ih =>
    simp only [List.cons_append, List.takeWhile_cons, h1 x (by simp), if_true]
    rw [ih (fun z hz => h1 z (by simp [hz]))]

theorem nodesBetween_region (pre old post : List Nat) (start stop : Nat)
    (hnd : (pre ++ [start] ++ old ++ [stop] ++ post).Nodup) :
    nodesBetween (pre ++ [start] ++ old ++ [stop] ++ post) start stop = old := by
  simp only [List.nodup_append, List.mem_append, List.nodup_cons, List.mem_singleton] at hnd
  unfold nodesBetween
  rw [show pre ++ [start] ++ old ++ [stop] ++ post = pre ++ start :: (old ++ stop :: post) by simp,
    dropWhile_mid (by intro x hx; simp; intro e; subst e; grind) (by simp)]
  simp only [List.drop_one, List.tail_cons]
  exact takeWhile_mid (by intro x hx; simp; intro e; subst e; grind) (by simp)

end SycVerif.Reconcile
