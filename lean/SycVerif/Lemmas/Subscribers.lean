import SycVerif.Lemmas.Preserve
/-!
Helper lemmas for `Props/C10Subscribers`: "every computation that is subscribed to a written signal when
`propagate_node_updates` starts RUNS during the propagation, or is destroyed" — for ARBITRARY closures.

* `RanOf i evs`   — a `run` event of computation `i` occurs in `evs`;
* `Mono i r r'`   — two-state facts that need no invariant at all: the arena does not shrink, the trace is only
                    appended to, slot `i` is not revived;
* `Sub i r r'`    — `Mono`, and: if `i` is dirty at `r` then at `r'` it is gone, or still dirty, or a run of `i`
                    was appended to the trace in between (only `runNodeUpdate … i` clears the flag of `i`, and
                    it does so after it has appended the event);
* `SubAll f`      — one statement per function of the mutual block at fuel `f`; `subAll : ∀ f, SubAll f`;
* `visitStarts_subscribers` — after the first loop of `propagate_node_updates`, every live subscriber of a live
                    start node is dirty and is in the buffer (if nothing was marked before);
* `propagateLoop_runs` — the second loop runs every dirty member of its list, unless it is gone (or has run) by
                    the time its turn comes;
* `propagateNodeUpdates_subscribers` — the two together.

No purity assumption, no invariant except where stated.
-/
namespace SycVerif.Reactive

/-! ### 1. the relations -/

/-- a `run` event of computation `i` occurs in `evs` -/
def RanOf (i : Id) (evs : List Event) : Prop := ∃ obs v, Event.run i obs v ∈ evs

theorem RanOf.append_left {i : Id} {a : List Event} (h : RanOf i a) (b : List Event) : RanOf i (a ++ b) := by
  obtain ⟨o, v, hm⟩ := h; exact ⟨o, v, List.mem_append_left _ hm⟩

theorem RanOf.append_right {i : Id} {b : List Event} (a : List Event) (h : RanOf i b) : RanOf i (a ++ b) := by
  obtain ⟨o, v, hm⟩ := h; exact ⟨o, v, List.mem_append_right _ hm⟩

/-- the arena does not shrink, the trace is only appended to, slot `i` is not revived -/
structure Mono (i : Id) (r r' : Root) : Prop where
  size : r.nodes.size ≤ r'.nodes.size
  trace : ∃ evs, r'.trace = r.trace ++ evs
  dead : i < r.nodes.size → r.get? i = none → r'.get? i = none

/-- … and a dirty `i` is gone, still dirty, or has run -/
structure Sub (i : Id) (r r' : Root) : Prop extends Mono i r r' where
  dirty : ∀ n, r.get? i = some n → n.dirty = true →
    r'.get? i = none ∨ (∃ n', r'.get? i = some n' ∧ n'.dirty = true) ∨
      RanOf i (r'.trace.drop r.trace.length)

theorem drop_of_append {a b c : List Event} (h : c = a ++ b) : c.drop a.length = b := by
  rw [h, List.drop_left]

theorem Mono.refl (i : Id) (r : Root) : Mono i r r := ⟨Nat.le_refl _, ⟨[], by simp⟩, fun _ h => h⟩

theorem Mono.trans {i : Id} {a b c : Root} (h1 : Mono i a b) (h2 : Mono i b c) : Mono i a c := by
  obtain ⟨e1, t1⟩ := h1.trace
  obtain ⟨e2, t2⟩ := h2.trace
  exact ⟨Nat.le_trans h1.size h2.size, ⟨e1 ++ e2, by rw [t2, t1, List.append_assoc]⟩,
    fun hl hd => h2.dead (Nat.lt_of_lt_of_le hl h1.size) (h1.dead hl hd)⟩

/-- a run recorded in the first part of a step is recorded in the whole step -/
theorem Mono.ran_left {i j : Id} {a b c : Root} (h1 : Mono j a b) (h2 : Mono j b c)
    (h : RanOf i (b.trace.drop a.trace.length)) : RanOf i (c.trace.drop a.trace.length) := by
  obtain ⟨e1, t1⟩ := h1.trace
  obtain ⟨e2, t2⟩ := h2.trace
  rw [drop_of_append t1] at h
  rw [drop_of_append (show c.trace = a.trace ++ (e1 ++ e2) by rw [t2, t1, List.append_assoc])]
  exact h.append_left _

/-- a run recorded in the second part of a step is recorded in the whole step -/
theorem Mono.ran_right {i j : Id} {a b c : Root} (h1 : Mono j a b) (h2 : Mono j b c)
    (h : RanOf i (c.trace.drop b.trace.length)) : RanOf i (c.trace.drop a.trace.length) := by
  obtain ⟨e1, t1⟩ := h1.trace
  obtain ⟨e2, t2⟩ := h2.trace
  rw [drop_of_append t2] at h
  rw [drop_of_append (show c.trace = a.trace ++ (e1 ++ e2) by rw [t2, t1, List.append_assoc])]
  exact h.append_right _

theorem Sub.refl (i : Id) (r : Root) : Sub i r r :=
  { Mono.refl i r with dirty := fun n hn hd => .inr (.inl ⟨n, hn, hd⟩) }

theorem Sub.trans {i : Id} {a b c : Root} (h1 : Sub i a b) (h2 : Sub i b c) : Sub i a c := by
  refine { h1.toMono.trans h2.toMono with dirty := ?_ }
  intro n hn hd
  have hlt : i < b.nodes.size := Nat.lt_of_lt_of_le (Root.lt_size_of_get? hn) h1.size
  rcases h1.dirty n hn hd with hb | ⟨nb, hnb, hdb⟩ | hr
  · exact .inl (h2.dead hlt hb)
  · rcases h2.dirty nb hnb hdb with hc | hc | hr
    · exact .inl hc
    · exact .inr (.inl hc)
    · exact .inr (.inr (h1.toMono.ran_right h2.toMono hr))
  · exact .inr (.inr (h1.toMono.ran_left h2.toMono hr))

/-- a step during which `i` ran -/
theorem Sub.of_ran {i : Id} {r r' : Root} (m : Mono i r r') (h : RanOf i (r'.trace.drop r.trace.length)) :
    Sub i r r' :=
  { m with dirty := fun _ _ _ => .inr (.inr h) }

/-- the conclusion of the theorems: `i` is gone, or has run since `r0` -/
def Done (i : Id) (r0 r : Root) : Prop := r.get? i = none ∨ RanOf i (r.trace.drop r0.trace.length)

theorem Done.step {i : Id} {r0 r r' : Root} (h : Done i r0 r) (m0 : Mono i r0 r) (m : Mono i r r')
    (hlt : i < r.nodes.size) : Done i r0 r' := by
  rcases h with h | h
  · exact .inl (m.dead hlt h)
  · exact .inr (m0.ran_left m h)

/-! ### 2. the steps that contain no user code -/

/-- the general constructor: sizes, trace, and node `i` is gone afterwards, or alive before and after and not
less dirty -/
theorem Sub.of_get {i : Id} {r r' : Root} (hs : r.nodes.size ≤ r'.nodes.size)
    (ht : ∃ evs, r'.trace = r.trace ++ evs)
    (h : i < r.nodes.size → r'.get? i = none ∨
      ∃ n n', r.get? i = some n ∧ r'.get? i = some n' ∧ (n.dirty = true → n'.dirty = true)) :
    Sub i r r' := by
  refine ⟨⟨hs, ht, ?_⟩, ?_⟩
  · intro hl hd
    rcases h hl with h | ⟨n, _, hn, _⟩
    · exact h
    · rw [hd] at hn; cases hn
  · intro n hn hd
    rcases h (Root.lt_size_of_get? hn) with h | ⟨m, n', hm, hn', hgd⟩
    · exact .inl h
    · rw [hn] at hm; cases hm
      exact .inr (.inl ⟨n', hn', hgd hd⟩)

/-- node `i` is mapped by a function under which `dirty` does not fall -/
theorem Sub.of_map {i : Id} {r r' : Root} (hs : r.nodes.size ≤ r'.nodes.size)
    (ht : ∃ evs, r'.trace = r.trace ++ evs) {g : Node → Node}
    (hg : i < r.nodes.size → r'.get? i = (r.get? i).map g) (hd : ∀ m, m.dirty = true → (g m).dirty = true) :
    Sub i r r' := by
  refine Sub.of_get hs ht fun hl => ?_
  cases hn : r.get? i with
  | none => left; rw [hg hl, hn]; rfl
  | some n => right; exact ⟨n, g n, rfl, by rw [hg hl, hn]; rfl, hd n⟩

/-- only fields of the root other than the arena change; the trace may grow -/
theorem Sub.of_nodes_eq {i : Id} {r r' : Root} (hn : r'.nodes = r.nodes)
    (ht : ∃ evs, r'.trace = r.trace ++ evs) : Sub i r r' :=
  Sub.of_map (g := id) (by rw [hn]; exact Nat.le_refl _) ht
    (fun _ => by rw [Root.get?_congr_nodes hn]; simp) fun _ h => h

theorem Sub.frame {i : Id} {r r' : Root} (hn : r'.nodes = r.nodes) (ht : r'.trace = r.trace) : Sub i r r' :=
  Sub.of_nodes_eq hn ⟨[], by simp [ht]⟩

/-- any update of the other fields of the root (in a form that unifies with every `{ r with … }`) -/
theorem Sub.fields {i : Id} (r : Root) (t : Option (List Id)) (c rn : Option Id) (q : List Id) (b : Bool)
    (nt : Nat) :
    Sub i r { nodes := r.nodes, tracker := t, current := c, rootNode := rn, queue := q, batching := b, nextTag := nt, trace := r.trace } :=
  Sub.frame rfl rfl

/-- … with events appended to the trace -/
theorem Sub.fieldsTrace {i : Id} (r : Root) (t : Option (List Id)) (c rn : Option Id) (q : List Id) (b : Bool)
    (nt : Nat) (evs : List Event) :
    Sub i r { nodes := r.nodes, tracker := t, current := c, rootNode := rn, queue := q, batching := b, nextTag := nt, trace := r.trace ++ evs } :=
  Sub.of_nodes_eq rfl ⟨evs, rfl⟩

theorem SameFrame.size_le {r r' : Root} (hf : SameFrame r r') : r.nodes.size ≤ r'.nodes.size := by
  rw [hf.1]; exact Nat.le_refl _

theorem SameFrame.trace_ext {r r' : Root} (hf : SameFrame r r') : ∃ evs, r'.trace = r.trace ++ evs :=
  ⟨[], by simp [hf.2.2.2.2.2.2.2]⟩

theorem Mono.setNode {i : Id} {r : Root} {id : Id} {n : Node} (hn : r.get? id = some n) (n' : Node) :
    Mono i r (r.setNode id n') := by
  have hf := SameFrame.setNode r id n'
  refine ⟨hf.size_le, hf.trace_ext, ?_⟩
  intro _ hd
  rw [Root.get?_setNode]
  split
  · rename_i hc; rw [hc.1, hn] at hd; cases hd
  · exact hd

/-- overwriting a live node by one that is at least as dirty -/
theorem Sub.setNode {i : Id} {r : Root} {id : Id} {n : Node} (hn : r.get? id = some n) {n' : Node}
    (hd : n.dirty = true → n'.dirty = true) : Sub i r (r.setNode id n') := by
  have hf := SameFrame.setNode r id n'
  refine Sub.of_get hf.size_le hf.trace_ext fun _ => ?_
  rw [Root.get?_setNode]
  by_cases hc : i = id ∧ id < r.nodes.size
  · rw [if_pos hc]
    exact .inr ⟨n, n', by rw [hc.1]; exact hn, rfl, hd⟩
  · rw [if_neg hc]
    cases hi : r.get? i with
    | none => exact .inl rfl
    | some m => exact .inr ⟨m, m, rfl, rfl, fun h => h⟩

/-- overwriting another live node -/
theorem Sub.setNode_ne {i : Id} (r : Root) {id : Id} (n' : Node)
    (hne : i ≠ id) : Sub i r (r.setNode id n') := by
  have hf := SameFrame.setNode r id n'
  refine Sub.of_map (g := fun m => m) hf.size_le hf.trace_ext (fun _ => ?_) fun _ h => h
  rw [Root.get?_setNode, if_neg (fun hc => hne hc.1)]; simp

theorem Sub.modify {i : Id} (r : Root) (id : Id) {f : Node → Node}
    (hf : ∀ m, m.dirty = true → (f m).dirty = true) : Sub i r (r.modify id f) := by
  unfold Root.modify
  split
  · rename_i n hn; exact Sub.setNode hn (hf n)
  · exact Sub.refl _ _

theorem Sub.foldl_modify {i : Id} {f : Node → Node} (hf : ∀ m, m.dirty = true → (f m).dirty = true)
    (l : List Id) (r : Root) : Sub i r (l.foldl (fun r d => r.modify d f) r) := by
  induction l generalizing r with
  | nil => exact Sub.refl _ _
  | cons d l ih => exact (Sub.modify r d hf).trans (ih _)

theorem Sub.createDependencyLink {i : Id} (r : Root) (deps : List Id) (d : Id) :
    Sub i r (createDependencyLink r deps d) := by
  unfold Reactive.createDependencyLink
  split
  · exact Sub.refl _ _
  · exact (Sub.foldl_modify (by exact fun _ h => h) _ _).trans (Sub.modify _ _ (by exact fun _ h => h))

theorem Sub.markDependentsDirty {i : Id} (r : Root) (cur : Id) : Sub i r (markDependentsDirty r cur) := by
  unfold Reactive.markDependentsDirty
  split
  · exact Sub.refl _ _
  · exact Sub.foldl_modify (fun _ _ => rfl) _ _

theorem Sub.unlink {i : Id} (cur : Id) : ∀ (l : List Id) (r r' : Root), unlink cur r l = .ok r' → Sub i r r'
  | [], r, r', h => by simp only [Reactive.unlink, Except.ok.injEq] at h; subst h; exact Sub.refl _ _
  | d :: ds, r, r', h => by
    simp only [Reactive.unlink] at h
    split at h
    · cases h
    · rename_i dn hdn
      exact (Sub.setNode hdn (by exact fun x => x)).trans (Sub.unlink cur ds _ _ h)

theorem Sub.remove {i : Id} (r : Root) (id : Id) : Sub i r (r.remove id) := by
  have hf := SameFrame.remove r id
  refine Sub.of_get hf.size_le hf.trace_ext fun _ => ?_
  rw [Root.get?_remove]
  split
  · exact .inl rfl
  · cases hi : r.get? i with
    | none => exact .inl rfl
    | some m => exact .inr ⟨m, m, rfl, rfl, fun h => h⟩

theorem Sub.removeNode {i : Id} (r : Root) (id : Id) : Sub i r (removeNode r id) := by
  unfold Reactive.removeNode
  split
  · exact Sub.refl _ _
  · exact ((Sub.remove r id).trans (Sub.foldl_modify (by exact fun _ h => h) _ _)).trans
      (Sub.foldl_modify (by exact fun _ h => h) _ _)

theorem Sub.unsubscribe {i : Id} (r : Root) (id : Id) : Sub i r (unsubscribe r id) := by
  unfold Reactive.unsubscribe
  split
  · exact Sub.refl _ _
  · exact (Sub.foldl_modify (by exact fun _ h => h) _ _).trans (Sub.modify _ _ (by exact fun _ h => h))

theorem Sub.createNode {i : Id} {r r' : Root} {v : Option Int} {id : Id} (h : createNode r v = .ok (r', id)) :
    Sub i r r' := by
  obtain ⟨_, hget, hsz, _, _, _, _, _, _, htr⟩ := createNode_get? h
  refine Sub.of_map (g := addChild r.current id i) (by omega) ⟨[], by simp [htr]⟩ (fun hl => ?_) fun _ h => h
  rw [hget i, if_neg (Nat.ne_of_lt hl)]

theorem Sub.setSilent {i : Id} {r r' : Root} {id : Id} {v : Int} (h : setSilent r id v = .ok r') :
    Sub i r r' := by
  obtain ⟨n, hn, _, rfl⟩ := setSilent_ok h
  exact Sub.setNode hn fun x => x

theorem Sub.provideContext {i : Id} {r r' : Root} {ty : Nat} {v : Int} (h : provideContext r ty v = .ok r') :
    Sub i r r' := by
  unfold Reactive.provideContext at h
  split at h
  · cases h
  · split at h
    · cases h
    · rename_i n hn
      split at h
      · cases h
      · cases h; exact Sub.setNode hn fun x => x

theorem track_trace_eq (r : Root) (id : Id) : (track r id).trace = r.trace := by
  unfold track; split <;> rfl

theorem Sub.track {i : Id} (r : Root) (id : Id) : Sub i r (track r id) :=
  Sub.frame (track_nodes r id).1 (track_trace_eq r id)

theorem Sub.trackAll {i : Id} (c : Ctx) : ∀ (l : List Nat) (r r' : Root), trackAll c r l = .ok r' → Sub i r r'
  | [], r, r', h => by simp only [Reactive.trackAll, Except.ok.injEq] at h; subst h; exact Sub.refl _ _
  | x :: l, r, r', h => by
    simp only [Reactive.trackAll] at h
    split at h
    · cases h
    · split at h
      · cases h
      · exact (Sub.track r _).trans (Sub.trackAll c l _ _ h)

/-- a step that changes nothing but marks -/
theorem Sub.of_frame {i : Id} {r r' : Root} (hf : Frame r r') : Sub i r r' := by
  refine Sub.of_get (by rw [hf.size]; exact Nat.le_refl _) ⟨[], by simp [hf.trace]⟩ fun _ => ?_
  have := hf.node i
  cases hi : r.get? i with
  | none => rw [hi] at this; exact .inl (sameButMark_none_right.1 this)
  | some m =>
    rw [hi] at this
    obtain ⟨m', hm', e⟩ := sameButMark_some_right.1 this
    have := sameButMark_some_iff.1 (show SameButMark (some m') (some m) from congrArg some e)
    exact .inr ⟨m, m', rfl, hm', fun h => by rw [this.2.2.2.2.2.2.2.2]; exact h⟩

theorem Sub.dfs {i : Id} {fuel : Nat} {r r' : Root} {buf buf' : List Id} {s : Id}
    (h : dfs fuel r buf s = some (r', buf')) : Sub i r r' :=
  Sub.of_frame (dfs_post h).1.frame

theorem Sub.visitStarts {i : Id} : ∀ (ss : List Id) (r r' : Root) (buf buf' : List Id),
    visitStarts r buf ss = .ok (r', buf') → Sub i r r'
  | [], r, r', buf, buf', h => by
    simp only [Reactive.visitStarts, Except.ok.injEq, Prod.mk.injEq] at h
    obtain ⟨rfl, _⟩ := h; exact Sub.refl _ _
  | s :: ss, r, r', buf, buf', h => by
    simp only [Reactive.visitStarts] at h
    split at h
    · cases h
    · rename_i r1 buf1 h1
      exact ((Sub.dfs h1).trans (Sub.markDependentsDirty r1 s)).trans (Sub.visitStarts ss _ _ _ _ h)

theorem Sub.resetMarks {i : Id} : ∀ (ss : List Id) (r : Root), Sub i r (resetMarks r ss)
  | [], r => Sub.refl _ _
  | s :: ss, r => by
    simp only [Reactive.resetMarks]
    split
    · exact Sub.resetMarks ss r
    · rename_i n hn
      exact (Sub.setNode hn (by exact fun x => x)).trans (Sub.resetMarks ss _)

/-! ### 3. the functions that run user code -/

/-- one statement per function of the mutual block, at fuel `f` -/
structure SubAll (f : Nat) : Prop where
  body : ∀ i r c b r' c', execBody f r c b = .ok (r', c') → Sub i r r'
  inner : ∀ i r c b r' c', execInner f r c b = .ok (r', c') → Sub i r r'
  stmt : ∀ i r c s r' c', execStmt f r c s = .ok (r', c') → Sub i r r'
  closure : ∀ i r cl r' v obs, runClosure f r cl = .ok (r', v, obs) → Sub i r r'
  selector : ∀ i r eq cl r' id, createSelector f r eq cl = .ok (r', id) → Sub i r r'
  /-- `runNodeUpdate … cur` moreover runs `cur`, unless a cleanup of `cur` destroys it first -/
  update : ∀ i r cur r', runNodeUpdate f r cur = .ok r' →
    Sub i r r' ∧ (r'.get? cur = none ∨ RanOf cur (r'.trace.drop r.trace.length))
  loop : ∀ i r l r', propagateLoop f r l = .ok r' → Sub i r r'
  nodeUpdates : ∀ i r l r', propagateNodeUpdates f r l = .ok r' → Sub i r r'
  updates : ∀ i r s r', propagateUpdates f r s = .ok r' → Sub i r r'
  dnode : ∀ i r id r', disposeNode f r id = .ok r' → Sub i r r'
  dchildren : ∀ i r id r', disposeChildren f r id = .ok r' → Sub i r r'
  rest : ∀ i r id r', disposeRest f r id = .ok r' → Sub i r r'
  cleanups : ∀ i r cls r', runCleanups f r cls = .ok r' → Sub i r r'
  dlist : ∀ i r cs r', disposeList f r cs = .ok r' → Sub i r r'

theorem subAll_zero : SubAll 0 := by
  constructor <;> intros <;> simp_all [execBody, execInner, execStmt, runClosure, createSelector,
    runNodeUpdate, propagateLoop, propagateNodeUpdates, propagateUpdates, disposeNode, disposeChildren,
    disposeRest, runCleanups, disposeList]

section step
variable {f : Nat} (ih : SubAll f)
include ih

theorem sub_body (i : Id) (r : Root) (c : Ctx) (b : Body) (r' : Root) (c' : Ctx)
    (hx : execBody (f + 1) r c b = .ok (r', c')) : Sub i r r' := by
  cases b with
  | nil =>
    simp only [execBody, Except.ok.injEq, Prod.mk.injEq] at hx
    obtain ⟨rfl, rfl⟩ := hx; exact Sub.refl _ _
  | cons s rest =>
    simp only [execBody] at hx
    split at hx
    · cases hx
    · rename_i r1 c1 h1
      exact (ih.stmt i _ _ _ _ _ h1).trans (ih.body i _ _ _ _ _ hx)

theorem sub_inner (i : Id) (r : Root) (c : Ctx) (b : Body) (r' : Root) (c' : Ctx)
    (hx : execInner (f + 1) r c b = .ok (r', c')) : Sub i r r' := by
  simp only [execInner] at hx
  split at hx
  · cases hx
  · rename_i r1 c1 h1
    simp only [Except.ok.injEq, Prod.mk.injEq] at hx
    obtain ⟨rfl, rfl⟩ := hx
    exact ih.body i _ _ _ _ _ h1

theorem sub_closure (i : Id) (r : Root) (cl : Closure) (r' : Root) (v : Int) (obs : List Obs)
    (hx : runClosure (f + 1) r cl = .ok (r', v, obs)) : Sub i r r' := by
  simp only [runClosure] at hx
  split at hx
  · cases hx
  · rename_i r1 c1 h1
    simp only [Except.ok.injEq, Prod.mk.injEq] at hx
    obtain ⟨rfl, _, _⟩ := hx
    exact ih.body i _ _ _ _ _ h1

theorem sub_cleanups (i : Id) (r : Root) (cls : List Closure) (r' : Root)
    (hx : runCleanups (f + 1) r cls = .ok r') : Sub i r r' := by
  cases cls with
  | nil => simp only [runCleanups, Except.ok.injEq] at hx; subst hx; exact Sub.refl _ _
  | cons cl cls =>
    simp only [runCleanups] at hx
    split at hx
    · cases hx
    · rename_i r1 v obs h1
      exact ((ih.closure i _ _ _ _ _ h1).trans (Sub.fieldsTrace ..)).trans (ih.cleanups i _ _ _ hx)

theorem sub_dlist (i : Id) (r : Root) (cs : List Id) (r' : Root)
    (hx : disposeList (f + 1) r cs = .ok r') : Sub i r r' := by
  cases cs with
  | nil => simp only [disposeList, Except.ok.injEq] at hx; subst hx; exact Sub.refl _ _
  | cons c cs =>
    simp only [disposeList] at hx
    split at hx
    · cases hx
    · rename_i r1 h1
      exact (ih.dnode i _ _ _ h1).trans (ih.dlist i _ _ _ hx)

theorem sub_dnode (i : Id) (r : Root) (id : Id) (r' : Root)
    (hx : disposeNode (f + 1) r id = .ok r') : Sub i r r' := by
  simp only [disposeNode] at hx
  split at hx
  · cases hx
  · rename_i r1 h1
    split at hx
    · cases hx
    · rename_i r1' h1'
      simp only [Except.ok.injEq] at hx
      subst hx
      exact (((Sub.unsubscribe r id).trans (ih.dchildren i _ _ _ h1)).trans (ih.rest i _ _ _ h1')).trans
        (Sub.removeNode _ _)

theorem sub_rest (i : Id) (r : Root) (id : Id) (r' : Root)
    (hx : disposeRest (f + 1) r id = .ok r') : Sub i r r' := by
  simp only [disposeRest] at hx
  split at hx
  · simp only [Except.ok.injEq] at hx; subst hx; exact Sub.refl _ _
  · split at hx
    · simp only [Except.ok.injEq] at hx; subst hx; exact Sub.refl _ _
    · split at hx
      · cases hx
      · rename_i r1 h1
        exact (ih.dchildren i _ _ _ h1).trans (ih.rest i _ _ _ hx)

theorem sub_dchildren (i : Id) (r : Root) (id : Id) (r' : Root)
    (hx : disposeChildren (f + 1) r id = .ok r') : Sub i r r' := by
  simp only [disposeChildren] at hx
  split at hx
  · simp only [Except.ok.injEq] at hx; subst hx; exact Sub.refl _ _
  · rename_i n hn
    split at hx
    · cases hx
    · rename_i r1 h1
      split at hx
      · cases hx
      · rename_i r2 h2
        simp only [Except.ok.injEq] at hx
        subst hx
        have a := ih.cleanups i _ _ _ h1
        have b := ih.dlist i _ _ _ h2
        exact (((((Sub.setNode hn (by exact fun x => x)).trans (Sub.fields ..)).trans a).trans
          (Sub.fields ..)).trans b).trans (Sub.modify _ _ (by exact fun _ h => h))

theorem sub_updates (i : Id) (r : Root) (s : Id) (r' : Root)
    (hx : propagateUpdates (f + 1) r s = .ok r') : Sub i r r' := by
  simp only [propagateUpdates] at hx
  split at hx
  · simp only [Except.ok.injEq] at hx; subst hx; exact Sub.frame rfl rfl
  · exact ih.nodeUpdates i _ _ _ hx

theorem sub_nodeUpdates (i : Id) (r : Root) (l : List Id) (r' : Root)
    (hx : propagateNodeUpdates (f + 1) r l = .ok r') : Sub i r r' := by
  simp only [propagateNodeUpdates] at hx
  split at hx
  · cases hx
  · rename_i r1 buf h1
    exact ((Sub.visitStarts _ _ _ _ _ h1).trans (Sub.resetMarks _ _)).trans (ih.loop i _ _ _ hx)

theorem sub_loop (i : Id) (r : Root) (l : List Id) (r' : Root)
    (hx : propagateLoop (f + 1) r l = .ok r') : Sub i r r' := by
  cases l with
  | nil => simp only [propagateLoop, Except.ok.injEq] at hx; subst hx; exact Sub.refl _ _
  | cons node rest =>
    simp only [propagateLoop] at hx
    split at hx
    · exact ih.loop i _ _ _ hx
    · rename_i n hn
      have s1 : Sub i r (r.setNode node { n with mark := .none }) := Sub.setNode hn fun x => x
      split at hx
      · split at hx
        · cases hx
        · rename_i r1 h1
          exact (s1.trans (ih.update i _ _ _ h1).1).trans (ih.loop i _ _ _ hx)
      · exact s1.trans (ih.loop i _ _ _ hx)

theorem sub_selector (i : Id) (r : Root) (eq : EqKind) (cl : Closure) (r' : Root) (id : Id)
    (hx : createSelector (f + 1) r eq cl = .ok (r', id)) : Sub i r r' := by
  simp only [createSelector] at hx
  split at hx
  · cases hx
  · rename_i r1 id1 h1
    have s1 : Sub i r r1 := Sub.createNode h1
    split at hx
    · cases hx
    · rename_i r2 v obs h2
      have s2 : Sub i r1 r2 := (Sub.fields ..).trans (ih.closure i _ _ _ _ _ h2)
      have s3 := (s1.trans s2).trans ((Sub.of_nodes_eq (i := i) (r := r2)
        (r' := { r2 with tracker := r1.tracker, current := r1.current, trace := r2.trace ++ [.run id1 obs v] })
        rfl ⟨_, rfl⟩).trans (Sub.createDependencyLink _ (r2.tracker.getD []) id1))
      split at hx
      · simp only [Except.ok.injEq, Prod.mk.injEq] at hx
        obtain ⟨rfl, _⟩ := hx
        exact s3
      · rename_i n hn
        simp only [Except.ok.injEq, Prod.mk.injEq] at hx
        obtain ⟨rfl, _⟩ := hx
        exact s3.trans (Sub.setNode hn (by exact fun x => x))

theorem sub_update (i : Id) (r : Root) (cur : Id) (r' : Root)
    (hx : runNodeUpdate (f + 1) r cur = .ok r') :
    Sub i r r' ∧ (r'.get? cur = none ∨ RanOf cur (r'.trace.drop r.trace.length)) := by
  simp only [runNodeUpdate] at hx
  split at hx
  · cases hx
  · rename_i n hn
    split at hx
    · cases hx
    · rename_i r1 h1
      have s1 : ∀ j, Sub j r r1 := fun j =>
        (Sub.setNode hn (by exact fun x => x)).trans (Sub.unlink cur _ _ _ h1)
      split at hx
      · cases hx
      · rename_i n1 hn1
        split at hx
        · cases hx
        · cases hx
        · rename_i eq cl old _ _
          split at hx
          · cases hx
          · rename_i r2 h2
            have s2 : ∀ j, Sub j r r2 := fun j =>
              ((s1 j).trans (Sub.setNode hn1 (by exact fun x => x))).trans (ih.dchildren j _ _ _ h2)
            split at hx
            · rename_i hdead
              simp only [Except.ok.injEq] at hx; subst hx
              exact ⟨s2 i, .inl hdead⟩
            · split at hx
              · cases hx
              · rename_i r3 new obs h3
                have s3 : ∀ j, Sub j r r3 := fun j =>
                  ((s2 j).trans (Sub.fields ..)).trans (ih.closure j _ _ _ _ _ h3)
                -- the event is appended
                have s4 : ∀ j, Sub j r3 (createDependencyLink
                    { r3 with tracker := r2.tracker, current := r2.current, trace := r3.trace ++ [.run cur obs new] }
                    (r3.tracker.getD []) cur) := fun j =>
                  (Sub.fieldsTrace ..).trans (Sub.createDependencyLink _ _ _)
                have hran4 : RanOf cur ((createDependencyLink
                    { r3 with tracker := r2.tracker, current := r2.current, trace := r3.trace ++ [.run cur obs new] }
                    (r3.tracker.getD []) cur).trace.drop r3.trace.length) := by
                  have ht : (createDependencyLink
                      { r3 with tracker := r2.tracker, current := r2.current, trace := r3.trace ++ [.run cur obs new] }
                      (r3.tracker.getD []) cur).trace = r3.trace ++ [.run cur obs new] :=
                    (createDependencyLink_sameFrame _ _ _).2.2.2.2.2.2.2
                  rw [drop_of_append ht]
                  exact ⟨obs, new, by simp⟩
                have hran : RanOf cur ((createDependencyLink
                    { r3 with tracker := r2.tracker, current := r2.current, trace := r3.trace ++ [.run cur obs new] }
                    (r3.tracker.getD []) cur).trace.drop r.trace.length) :=
                  (s3 cur).toMono.ran_right (s4 cur).toMono hran4
                split at hx
                · rename_i hdead
                  simp only [Except.ok.injEq] at hx; subst hx
                  exact ⟨(s3 i).trans (s4 i), .inl hdead⟩
                · rename_i n4 hn4
                  simp only [Except.ok.injEq] at hx
                  -- the last step: `dirty := false` on `cur`, then possibly `markDependentsDirty`
                  have m5 : ∀ j, Mono j (createDependencyLink
                      { r3 with tracker := r2.tracker, current := r2.current, trace := r3.trace ++ [.run cur obs new] }
                      (r3.tracker.getD []) cur) r' := by
                    intro j
                    subst hx
                    split
                    · exact (Mono.setNode hn4 _).trans (Sub.markDependentsDirty _ _).toMono
                    · exact Mono.setNode hn4 _
                  have hran' : RanOf cur (r'.trace.drop r.trace.length) :=
                    ((s3 cur).trans (s4 cur)).toMono.ran_left (m5 cur) hran
                  refine ⟨?_, .inr hran'⟩
                  by_cases hic : i = cur
                  · subst hic
                    exact Sub.of_ran (((s3 i).trans (s4 i)).toMono.trans (m5 i)) hran'
                  · refine ((s3 i).trans (s4 i)).trans ?_
                    subst hx
                    split
                    · exact (Sub.setNode_ne _ _ hic).trans (Sub.markDependentsDirty _ _)
                    · exact Sub.setNode_ne _ _ hic

/-- `untrack`, `component`, and the second half of `on` -/
theorem sub_untracked (i : Id) {r r' : Root} {c c' : Ctx} {b : Body} {prev : Option (List Id)}
    (hx : (match execInner f { r with tracker := none } c b with
      | .error e => .error e
      | .ok (r, c) => .ok ({ r with tracker := prev }, c)) = (.ok (r', c') : Except Panic (Root × Ctx))) :
    Sub i r r' := by
  split at hx
  · cases hx
  · rename_i r1 c1 h1
    simp only [Except.ok.injEq, Prod.mk.injEq] at hx
    obtain ⟨rfl, rfl⟩ := hx
    exact ((Sub.fields ..).trans (ih.inner i _ _ _ _ _ h1)).trans (Sub.fields ..)

theorem sub_stmt (i : Id) (r : Root) (c : Ctx) (s : Stmt) (r' : Root) (c' : Ctx)
    (hx : execStmt (f + 1) r c s = .ok (r', c')) : Sub i r r' := by
  cases s with
  | read h =>
    simp only [execStmt] at hx
    split at hx
    · cases hx
    · split at hx
      · cases hx
      · split at hx
        · cases hx
        · simp only [Except.ok.injEq, Prod.mk.injEq] at hx
          obtain ⟨rfl, rfl⟩ := hx
          exact Sub.track _ _
  | readU h =>
    simp only [execStmt] at hx
    split at hx
    · cases hx
    · split at hx
      · cases hx
      · split at hx
        · cases hx
        · simp only [Except.ok.injEq, Prod.mk.injEq] at hx
          obtain ⟨rfl, rfl⟩ := hx
          exact Sub.refl _ _
  | track h =>
    simp only [execStmt] at hx
    split at hx
    · cases hx
    · split at hx
      · cases hx
      · simp only [Except.ok.injEq, Prod.mk.injEq] at hx
        obtain ⟨rfl, rfl⟩ := hx
        exact Sub.track _ _
  | ifpos h t e =>
    simp only [execStmt] at hx
    split at hx
    · cases hx
    · split at hx
      · cases hx
      · split at hx
        · cases hx
        · split at hx
          · exact (Sub.track _ _).trans (ih.inner i _ _ _ _ _ hx)
          · exact (Sub.track _ _).trans (ih.inner i _ _ _ _ _ hx)
  | untrack b =>
    simp only [execStmt] at hx
    exact sub_untracked ih i hx
  | component b =>
    simp only [execStmt] at hx
    exact sub_untracked ih i hx
  | on deps b =>
    simp only [execStmt] at hx
    split at hx
    · cases hx
    · rename_i r1 h1
      exact (Sub.trackAll c deps _ _ h1).trans (sub_untracked ih i hx)
  | signal v =>
    simp only [execStmt] at hx
    split at hx
    · cases hx
    · rename_i r1 id h1
      simp only [Except.ok.injEq, Prod.mk.injEq] at hx
      obtain ⟨rfl, rfl⟩ := hx
      exact Sub.createNode h1
  | memo b =>
    simp only [execStmt] at hx
    split at hx
    · cases hx
    · rename_i r1 id h1
      simp only [Except.ok.injEq, Prod.mk.injEq] at hx
      obtain ⟨rfl, rfl⟩ := hx
      exact ih.selector i _ _ _ _ _ h1
  | selector eq b =>
    simp only [execStmt] at hx
    split at hx
    · cases hx
    · rename_i r1 id h1
      simp only [Except.ok.injEq, Prod.mk.injEq] at hx
      obtain ⟨rfl, rfl⟩ := hx
      exact ih.selector i _ _ _ _ _ h1
  | effect b =>
    simp only [execStmt] at hx
    split at hx
    · cases hx
    · rename_i r1 id h1
      simp only [Except.ok.injEq, Prod.mk.injEq] at hx
      obtain ⟨rfl, rfl⟩ := hx
      exact ih.selector i _ _ _ _ _ h1
  | scope b =>
    simp only [execStmt] at hx
    split at hx
    · cases hx
    · rename_i r1 id h1
      split at hx
      · cases hx
      · rename_i r2 c2 h2
        simp only [Except.ok.injEq, Prod.mk.injEq] at hx
        obtain ⟨rfl, rfl⟩ := hx
        exact (((Sub.createNode h1).trans (Sub.fields ..)).trans (ih.inner i _ _ _ _ _ h2)).trans (Sub.fields ..)
  | set h e =>
    simp only [execStmt] at hx
    split at hx
    · cases hx
    · split at hx
      · cases hx
      · split at hx
        · cases hx
        · rename_i r1 h1
          split at hx
          · cases hx
          · rename_i r2 h2
            simp only [Except.ok.injEq, Prod.mk.injEq] at hx
            obtain ⟨rfl, rfl⟩ := hx
            exact (Sub.setSilent h1).trans (ih.updates i _ _ _ h2)
  | setSilent h e =>
    simp only [execStmt] at hx
    split at hx
    · cases hx
    · split at hx
      · cases hx
      · split at hx
        · cases hx
        · rename_i r1 h1
          simp only [Except.ok.injEq, Prod.mk.injEq] at hx
          obtain ⟨rfl, rfl⟩ := hx
          exact Sub.setSilent h1
  | cleanup b =>
    simp only [execStmt] at hx
    split at hx
    · simp only [Except.ok.injEq, Prod.mk.injEq] at hx
      obtain ⟨rfl, rfl⟩ := hx
      exact Sub.refl _ _
    · split at hx
      · cases hx
      · rename_i n hn
        simp only [Except.ok.injEq, Prod.mk.injEq] at hx
        obtain ⟨rfl, rfl⟩ := hx
        exact (Sub.setNode hn (by exact fun x => x)).trans (Sub.fields ..)
  | dispose h =>
    simp only [execStmt] at hx
    split at hx
    · cases hx
    · split at hx
      · cases hx
      · rename_i r1 h1
        simp only [Except.ok.injEq, Prod.mk.injEq] at hx
        obtain ⟨rfl, rfl⟩ := hx
        exact ih.dnode i _ _ _ h1
  | disposeCur =>
    simp only [execStmt] at hx
    split at hx
    · simp only [Except.ok.injEq, Prod.mk.injEq] at hx
      obtain ⟨rfl, rfl⟩ := hx
      exact Sub.refl _ _
    · split at hx
      · cases hx
      · rename_i r1 h1
        simp only [Except.ok.injEq, Prod.mk.injEq] at hx
        obtain ⟨rfl, rfl⟩ := hx
        exact ih.dnode i _ _ _ h1
  | batch b =>
    simp only [execStmt] at hx
    split at hx
    · cases hx
    · rename_i r1 c1 h1
      have s1 : Sub i r r1 := (Sub.fields ..).trans (ih.inner i _ _ _ _ _ h1)
      split at hx
      · simp only [Except.ok.injEq, Prod.mk.injEq] at hx
        obtain ⟨rfl, rfl⟩ := hx
        exact s1
      · split at hx
        · cases hx
        · rename_i r2 h2
          simp only [Except.ok.injEq, Prod.mk.injEq] at hx
          obtain ⟨rfl, rfl⟩ := hx
          exact (s1.trans (Sub.fields ..)).trans (ih.nodeUpdates i _ _ _ h2)
  | provide ty e =>
    simp only [execStmt] at hx
    split at hx
    · cases hx
    · rename_i r1 h1
      simp only [Except.ok.injEq, Prod.mk.injEq] at hx
      obtain ⟨rfl, rfl⟩ := hx
      exact Sub.provideContext h1
  | use ty =>
    simp only [execStmt] at hx
    split at hx
    · cases hx
    · simp only [Except.ok.injEq, Prod.mk.injEq] at hx
      obtain ⟨rfl, rfl⟩ := hx
      exact Sub.refl _ _
  | runIn h b =>
    simp only [execStmt] at hx
    split at hx
    · cases hx
    · split at hx
      · cases hx
      · rename_i r1 c1 h1
        simp only [Except.ok.injEq, Prod.mk.injEq] at hx
        obtain ⟨rfl, rfl⟩ := hx
        exact ((Sub.fields ..).trans (ih.inner i _ _ _ _ _ h1)).trans (Sub.fields ..)

end step

theorem subAll : ∀ f, SubAll f
  | 0 => subAll_zero
  | f + 1 =>
    have ih := subAll f
    { body := sub_body ih, inner := sub_inner ih, stmt := sub_stmt ih, closure := sub_closure ih,
      selector := sub_selector ih, update := sub_update ih, loop := sub_loop ih,
      nodeUpdates := sub_nodeUpdates ih, updates := sub_updates ih, dnode := sub_dnode ih,
      dchildren := sub_dchildren ih, rest := sub_rest ih, cleanups := sub_cleanups ih,
      dlist := sub_dlist ih }

/-! ### 4. the first loop of `propagate_node_updates` -/

/-- from `r` to `r'` nothing is created or removed, `dependents` lists are kept, `dirty` does not fall -/
def DirtyUp (r r' : Root) : Prop :=
  ∀ j, (r.get? j = none ∧ r'.get? j = none) ∨
    ∃ n n', r.get? j = some n ∧ r'.get? j = some n' ∧ n'.dependents = n.dependents ∧
      (n.dirty = true → n'.dirty = true)

theorem DirtyUp.refl (r : Root) : DirtyUp r r := by
  intro j
  cases h : r.get? j with
  | none => exact .inl ⟨rfl, rfl⟩
  | some n => exact .inr ⟨n, n, rfl, rfl, rfl, fun x => x⟩

theorem DirtyUp.trans {a b c : Root} (h1 : DirtyUp a b) (h2 : DirtyUp b c) : DirtyUp a c := by
  intro j
  rcases h1 j with ⟨ha, hb⟩ | ⟨n, n1, ha, hb, e1, d1⟩
  · rcases h2 j with ⟨_, hc⟩ | ⟨m, _, hb', _⟩
    · exact .inl ⟨ha, hc⟩
    · rw [hb] at hb'; cases hb'
  · rcases h2 j with ⟨hb', _⟩ | ⟨m, n2, hb', hc, e2, d2⟩
    · rw [hb] at hb'; cases hb'
    · rw [hb] at hb'; cases hb'
      exact .inr ⟨n, n2, ha, hc, e2.trans e1, fun x => d2 (d1 x)⟩

theorem DirtyUp.of_frame {r r' : Root} (hf : Frame r r') : DirtyUp r r' := by
  intro j
  have := hf.node j
  cases hj : r.get? j with
  | none => rw [hj] at this; exact .inl ⟨rfl, sameButMark_none_right.1 this⟩
  | some m =>
    rw [hj] at this
    obtain ⟨m', hm', e⟩ := sameButMark_some_right.1 this
    have := sameButMark_some_iff.1 (show SameButMark (some m') (some m) from congrArg some e)
    exact .inr ⟨m, m', rfl, hm', this.2.2.2.2.1, fun h => by rw [this.2.2.2.2.2.2.2.2]; exact h⟩

theorem DirtyUp.markDependentsDirty (r : Root) (cur : Id) : DirtyUp r (markDependentsDirty r cur) := by
  intro j
  rw [markDependentsDirty_get?]
  cases hj : r.get? j with
  | none => exact .inl ⟨rfl, rfl⟩
  | some m => exact .inr ⟨m, _, rfl, rfl, rfl, fun h => by simp [h]⟩

theorem DirtyUp.alive {r r' : Root} (h : DirtyUp r r') (j : Id) : r'.alive j = r.alive j := by
  rcases h j with ⟨a, b⟩ | ⟨n, n', a, b, _⟩ <;> simp [Root.alive, a, b]

/-- `markDependentsDirty` keeps the schedule invariant (it touches neither marks nor edges) -/
theorem Topo.markDependentsDirty {r : Root} {buf : List Id} (h : Topo r buf) (cur : Id) :
    Topo (markDependentsDirty r cur) buf := by
  intro i n' hi hm
  rw [markDependentsDirty_get?] at hi
  cases hr : r.get? i with
  | none => rw [hr] at hi; cases hi
  | some n =>
    rw [hr] at hi; simp only [Option.map_some, Option.some.injEq] at hi; subst hi
    obtain ⟨hb, hd⟩ := h i n hr hm
    exact ⟨hb, fun d hd' ha => hd d hd' (by rw [← (DirtyUp.markDependentsDirty r cur).alive d]; exact ha)⟩

/-- **after the first loop**: every live subscriber of a live start node is in the buffer and dirty — provided the
schedule invariant `Topo` holds at the start (e.g. nothing is marked and the buffer is empty) -/
theorem visitStarts_subscribers : ∀ (ss : List Id) (r r' : Root) (buf buf' : List Id),
    Topo r buf → visitStarts r buf ss = .ok (r', buf') →
    DirtyUp r r' ∧ (∀ x ∈ buf, x ∈ buf') ∧
    ∀ s ∈ ss, ∀ ns, r.get? s = some ns → ∀ i ∈ ns.dependents, ∀ ni, r.get? i = some ni →
      i ∈ buf' ∧ ∃ ni', r'.get? i = some ni' ∧ ni'.dirty = true
  | [], r, r', buf, buf', _, h => by
    simp only [visitStarts, Except.ok.injEq, Prod.mk.injEq] at h
    obtain ⟨rfl, rfl⟩ := h
    exact ⟨DirtyUp.refl _, fun _ h => h, fun s hs => by cases hs⟩
  | s :: ss, r, r', buf, buf', hT, h => by
    simp only [visitStarts] at h
    split at h
    · cases h
    · rename_i r1 buf1 h1
      obtain ⟨hT1, hs1⟩ := dfs_topo hT h1
      have hP := (dfs_post h1).1
      have D1 : DirtyUp r r1 := DirtyUp.of_frame hP.frame
      have D2 : DirtyUp r1 (markDependentsDirty r1 s) := DirtyUp.markDependentsDirty r1 s
      obtain ⟨D3, sub3, main3⟩ := visitStarts_subscribers ss _ r' buf1 buf' (hT1.markDependentsDirty s) h
      obtain ⟨new, hnew⟩ := hP.ext
      refine ⟨(D1.trans D2).trans D3, fun x hx => sub3 x (by rw [hnew]; exact List.mem_append_left _ hx), ?_⟩
      intro s' hs' ns hns i hi ni hni
      rcases List.mem_cons.1 hs' with rfl | hs'
      · -- the start node that is being visited
        obtain ⟨⟨n1, hn1, hm1⟩, _⟩ := hs1 (Root.alive_iff.2 ⟨ns, hns⟩)
        have e1 : n1.dependents = ns.dependents := by
          rcases D1 s' with ⟨a, _⟩ | ⟨m, m1, a, b, e, _⟩
          · rw [hns] at a; cases a
          · rw [hns] at a; cases a; rw [hn1] at b; cases b; exact e
        have hi1 : i ∈ n1.dependents := by rw [e1]; exact hi
        have ha1 : r1.alive i = true := by rw [D1.alive i]; exact Root.alive_iff.2 ⟨ni, hni⟩
        have hb : i ∈ buf1 := ((hT1 s' n1 hn1 hm1).2 i hi1 ha1).mem_left
        refine ⟨sub3 i hb, ?_⟩
        obtain ⟨m1, hm1'⟩ := Root.alive_iff.1 ha1
        have h2 : (markDependentsDirty r1 s').get? i = some { m1 with dirty := true } := by
          rw [markDependentsDirty_get?, hm1']
          simp [isDependentOf, hn1, hi1]
        rcases D3 i with ⟨a, _⟩ | ⟨m, m', a, b, _, d⟩
        · rw [h2] at a; cases a
        · rw [h2] at a; cases a
          exact ⟨m', b, d rfl⟩
      · -- a later start node
        have D12 := D1.trans D2
        rcases D12 s' with ⟨a, _⟩ | ⟨m, ns2, a, b, e, _⟩
        · rw [hns] at a; cases a
        · rw [hns] at a; cases a
          rcases D12 i with ⟨a', _⟩ | ⟨m', ni2, a', b', _, _⟩
          · rw [hni] at a'; cases a'
          · exact main3 s' hs' ns2 b i (by rw [e]; exact hi) ni2 b'

/-! ### 5. the second loop -/

theorem Done.weaken_left {i : Id} {r0 r1 r' : Root} (m0 : Mono i r0 r1) (m1 : Mono i r1 r')
    (h : Done i r1 r') : Done i r0 r' := by
  rcases h with h | h
  · exact .inl h
  · exact .inr (m0.ran_right m1 h)

/-- **the second loop runs every dirty member of its list** — unless it is gone by the end, for ARBITRARY closures -/
theorem propagateLoop_runs (i : Id) : ∀ (l : List Id) (fuel : Nat) (r r' : Root),
    propagateLoop fuel r l = .ok r' → i ∈ l → ∀ n, r.get? i = some n → n.dirty = true → Done i r r'
  | [], _, _, _, _, hi, _, _, _ => by cases hi
  | node :: rest, 0, r, r', hx, _, _, _, _ => by simp [propagateLoop] at hx
  | node :: rest, fuel + 1, r, r', hx, hi, n, hn, hd => by
    have hlt : i < r.nodes.size := Root.lt_size_of_get? hn
    simp only [propagateLoop] at hx
    split at hx
    · rename_i hnone
      rcases List.mem_cons.1 hi with rfl | hi
      · rw [hn] at hnone; cases hnone
      · exact propagateLoop_runs i rest fuel r r' hx hi n hn hd
    · rename_i n0 hn0
      have s1 : Sub i r (r.setNode node { n0 with mark := .none }) := Sub.setNode hn0 fun x => x
      split at hx
      · rename_i hdirty0
        split at hx
        · cases hx
        · rename_i r2 h2
          obtain ⟨u1, u2⟩ := (subAll fuel).update i _ node r2 h2
          have u3 := (subAll fuel).loop i r2 rest r' hx
          have hlt2 : i < r2.nodes.size := Nat.lt_of_lt_of_le hlt (s1.trans u1).size
          by_cases hin : i = node
          · subst hin
            have d2 : Done i (r.setNode i { n0 with mark := .none }) r2 := u2
            exact (d2.step u1.toMono u3.toMono hlt2).weaken_left s1.toMono (u1.trans u3).toMono
          · have hi' : i ∈ rest := by
              rcases List.mem_cons.1 hi with e | e
              · exact absurd e hin
              · exact e
            rcases (s1.trans u1).dirty n hn hd with h | ⟨n2, hn2, hd2⟩ | h
            · exact .inl (u3.dead hlt2 h)
            · exact (propagateLoop_runs i rest fuel r2 r' hx hi' n2 hn2 hd2).weaken_left
                (s1.trans u1).toMono u3.toMono
            · exact .inr ((s1.trans u1).toMono.ran_left u3.toMono h)
      · rename_i hdirty0
        have u3 := (subAll fuel).loop i _ rest r' hx
        by_cases hin : i = node
        · subst hin
          rw [hn] at hn0; cases hn0
          exact absurd hd hdirty0
        · have hi' : i ∈ rest := by
            rcases List.mem_cons.1 hi with e | e
            · exact absurd e hin
            · exact e
          have hn1 : (r.setNode node { n0 with mark := .none }).get? i = some n := by
            rw [Root.get?_setNode, if_neg (fun hc => hin hc.1)]; exact hn
          exact (propagateLoop_runs i rest fuel _ r' hx hi' n hn1 hd).weaken_left s1.toMono u3.toMono

/-! ### 6. `propagate_node_updates` -/

/-- **every subscriber of a start node runs, or is gone afterwards.**  Hypotheses: subscriber lists name live
nodes (`NoDangling`, part of `RInv`) and nothing is marked when the propagation starts.  No hypothesis on the
closures. -/
theorem propagateNodeUpdates_subscribers {fuel : Nat} {r r' : Root} {starts : List Id}
    (hnd : NoDangling r) (hmarks : ∀ j n, r.get? j = some n → n.mark = .none)
    (h : propagateNodeUpdates fuel r starts = .ok r') :
    ∀ s ∈ starts, ∀ ns, r.get? s = some ns → ∀ i ∈ ns.dependents, Done i r r' := by
  intro s hs ns hns i hi
  cases fuel with
  | zero => simp [propagateNodeUpdates] at h
  | succ fuel =>
    simp only [propagateNodeUpdates] at h
    split at h
    · cases h
    · rename_i r1 buf h1
      have hT : Topo r [] := fun j n hn hm => by rw [hmarks j n hn] at hm; cases hm
      obtain ⟨_, _, main⟩ := visitStarts_subscribers starts r r1 [] buf hT h1
      obtain ⟨ni, hni⟩ := Root.alive_iff.1 ((hnd s ns hns).1 i hi)
      obtain ⟨hb, n1, hn1, hd1⟩ := main s hs ns hns i hi ni hni
      have sA : Sub i r r1 := Sub.visitStarts _ _ _ _ _ h1
      have sB : Sub i r1 (resetMarks r1 starts) := Sub.resetMarks _ _
      have sC : Sub i (resetMarks r1 starts) r' := (subAll fuel).loop i _ _ _ h
      have hlt2 : i < (resetMarks r1 starts).nodes.size :=
        Nat.lt_of_lt_of_le (Root.lt_size_of_get? hni) (sA.trans sB).size
      rcases sB.dirty n1 hn1 hd1 with h2 | ⟨n2, hn2, hd2⟩ | h2
      · exact .inl (sC.dead hlt2 h2)
      · exact (propagateLoop_runs i buf.reverse fuel _ r' h (List.mem_reverse.2 hb) n2 hn2 hd2).weaken_left
          (sA.trans sB).toMono sC.toMono
      · exact .inr (sA.toMono.ran_right (sB.trans sC).toMono (sB.toMono.ran_left sC.toMono h2))

end SycVerif.Reactive
