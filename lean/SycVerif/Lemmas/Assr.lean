/-
Helpers for the async SSR model (`Model/Assr.lean`): see `Props/C12Assr.lean` and `Props/C13Assr.lean`
for the readable statements.

Plan of the proof
* collectors over built trees: `elKeys`, `suspKeys`, `holes`, `items` (holes and resource texts, each with the
  boundary whose region it lies in).
* `Built reg ctx st out st' sz`: `build`/`buildList` as an inductive relation (`build_built`); every fact
  about building is an induction over it: `frame`, `keys`, `susps`, `holesOK`, `measure`, `pendCtx`,
  `holeItems`, `guardsCtx`, `resItems`, `counts`, `bdsExt`, `waitingOK`, `first`.  Everything is stated by
  COUNTING (`List.count`), turned into `Perm`/`Nodup` only in the Props files.
* `fillList_elKeys` … : filling hole `h` adds `count h (holes t)` copies of the content's keys.
* `Inv P st tree`: the invariant, `P` = the bodies that still have a hole in the tree (`st.pend` plus those
  taken out by `settle` and not yet built). `Inv.start`, `Inv.fillStep`, `Inv.deliver`, `Inv.setSent`.
* the transitions are cut into atomic pieces `Micro` (mark a task done / split `pend` / build one body and
  fill its hole / deliver / send one fragment); `step` and `sendReady` are sequences `Micros` of them;
  `Micro.inv` keeps `WInv`; `Micros.keep` lifts any property kept by the atomic pieces.
* `Reach`, `ReachB`, `ReachS`, `run`, `streamStep`: reachable worlds.
* `settle_complete`: the fuel of `settle` suffices (`pendMeasure` decreases every round).
* streaming: `sendReadyK`, `sendTrace`, `sendTrace_spec`, `streamRun`/`streamAll` (the run of the driver with
  the emitted keys), `streamRun_spec`; `PFirst`: parents first.
* regions: `regionStr`, `Quiet`, `Micro.stable`, `region_stable`.
* the page: `visible`, `Tok`, `renderToks`, `renderList_toks`, `visSub`, `fillSlots`.
-/
import SycVerif.Model.Assr
namespace SycVerif.Assr
set_option linter.unusedSimpArgs false
set_option linter.unusedVariables false

/-! ## Collectors over built trees -/

mutual
/-- hydration keys: of every element, and both keys of every boundary (pre-order) -/
def elKeysN : RN → List Key
  | .el _ key kids => key :: elKeys kids
  | .group kids => elKeys kids
  | .susp _ a b c => a :: b :: elKeys c
  | _ => []
def elKeys : RNs → List Key
  | .nil => []
  | .cons n r => elKeysN n ++ elKeys r
end

mutual
/-- the keys of the boundaries -/
def suspKeysN : RN → List Nat
  | .el _ _ kids => suspKeys kids
  | .group kids => suspKeys kids
  | .susp k _ _ c => k :: suspKeys c
  | _ => []
def suspKeys : RNs → List Nat
  | .nil => []
  | .cons n r => suspKeysN n ++ suspKeys r
end

mutual
/-- the unresolved holes -/
def holesN : RN → List Nat
  | .el _ _ kids => holes kids
  | .group kids => holes kids
  | .susp _ _ _ c => holes c
  | .hole i => [i]
  | _ => []
def holes : RNs → List Nat
  | .nil => []
  | .cons n r => holesN n ++ holes r
end

/-- what the shell rendering of a region depends on -/
inductive Item where
  | hole (h : Nat) | res (r : Nat)
  deriving DecidableEq

mutual
/-- holes and resource texts, each with the boundary whose region it lies in (`x` at the top) -/
def itemsN (x : Option Nat) : RN → List (Item × Option Nat)
  | .el _ _ kids => items x kids
  | .group kids => items x kids
  | .susp k _ _ c => items (some k) c
  | .hole i => [(.hole i, x)]
  | .resText r => [(.res r, x)]
  | _ => []
def items (x : Option Nat) : RNs → List (Item × Option Nat)
  | .nil => []
  | .cons n r => itemsN x n ++ items x r
end

@[simp] theorem nil_append (b : RNs) : (RNs.nil ++ b) = b := rfl
@[simp] theorem cons_append (n : RN) (r b : RNs) : (RNs.cons n r ++ b) = RNs.cons n (r ++ b) := rfl

@[simp] theorem elKeys_append : ∀ a b : RNs, elKeys (a ++ b) = elKeys a ++ elKeys b
  | .nil, b => by simp [elKeys]
  | .cons n r, b => by simp [elKeys, elKeys_append r b]
@[simp] theorem suspKeys_append : ∀ a b : RNs, suspKeys (a ++ b) = suspKeys a ++ suspKeys b
  | .nil, b => by simp [suspKeys]
  | .cons n r, b => by simp [suspKeys, suspKeys_append r b]
@[simp] theorem holes_append : ∀ a b : RNs, holes (a ++ b) = holes a ++ holes b
  | .nil, b => by simp [holes]
  | .cons n r, b => by simp [holes, holes_append r b]
@[simp] theorem items_append (x : Option Nat) : ∀ a b : RNs, items x (a ++ b) = items x a ++ items x b
  | .nil, b => by simp [items]
  | .cons n r, b => by simp [items, items_append x r b]

/-! ## `build` as a relation -/

/-- the state in which the children of a new boundary are built -/
def suspOpen (st : St) (reg : Nat) (ctx : Option Nat) : St :=
  let st1 := (nextKey { st with nextSusp := st.nextSusp + 1 } reg).2
  { st1 with regs := st1.regs ++ [0], bds := st1.bds ++ [⟨ctx, 0, false⟩],
             waiting := st1.waiting ++ [st.nextSusp] }

/-- the state after an async component was created -/
def acompSt (st : St) (reg : Nat) (ctx : Option Nat) (t : Nat) (cs : AVs) : St :=
  incr { st with nextHole := st.nextHole + 1, pend := st.pend ++ [⟨t, reg, ctx, cs, st.nextHole⟩] } ctx

def syncSusp : RNs :=
  .cons .marker (.cons .marker (.cons .fb (.cons .marker (.cons .marker (.cons .marker (.cons .marker .nil))))))

/-- `Built reg ctx st out st' sz`: building a view of size `sz` with registry `reg` under boundary `ctx`
in state `st` gives `out` and `st'` -/
inductive Built : Nat → Option Nat → St → RNs → St → Nat → Prop
  | text (reg ctx st) (n : Nat) : Built reg ctx st (.cons (.text n) .nil) st 1
  | el {reg ctx st kids st2 sz} (tag : Nat) :
      Built reg ctx (nextKey st reg).2 kids st2 sz →
      Built reg ctx st (.cons (.el tag (nextKey st reg).1 kids) .nil) st2 (sz + 1)
  | dynr {reg ctx st kids st1 sz} :
      Built reg ctx st kids st1 sz →
      Built reg ctx st (.cons .marker (kids ++ .cons .marker .nil)) st1 (sz + 1)
  | acomp (reg ctx st) (t : Nat) (cs : AVs) :
      Built reg ctx st (.cons .marker (.cons (.hole st.nextHole) (.cons .marker .nil)))
        (acompSt st reg ctx t cs) (sizeAVs cs + 1)
  | resKeep (reg ctx st) (r : Nat) : (r ∈ st.resDone ∨ ctx = none) →
      Built reg ctx st (.cons (.resText r) .nil) st 1
  | resGuard (reg st) (r k : Nat) : r ∉ st.resDone →
      Built reg (some k) st (.cons (.resText r) .nil)
        (incr { st with guards := st.guards ++ [(r, k)] } (some k)) 1
  | suspSync (reg ctx st) (sz : Nat) : st.mode = .sync → Built reg ctx st syncSusp st (sz + 1)
  | susp {reg ctx st content st2 sz} : st.mode ≠ .sync →
      Built st.nextSusp (some st.nextSusp) (suspOpen st reg ctx) content st2 sz →
      Built reg ctx st
        (.cons (.susp st.nextSusp (nextKey { st with nextSusp := st.nextSusp + 1 } reg).1
          (nextKey st2 reg).1 content) .nil)
        (nextKey st2 reg).2 (sz + 1)
  | nil (reg ctx st) : Built reg ctx st .nil st 0
  | cons {reg ctx st a st1 b st2 s1 s2} :
      Built reg ctx st a st1 s1 → Built reg ctx st1 b st2 s2 → Built reg ctx st (a ++ b) st2 (s1 + s2)

mutual
theorem build_built : ∀ (v : AV) (reg : Nat) (ctx : Option Nat) (st : St),
    Built reg ctx st (build reg ctx v st).1 (build reg ctx v st).2 (sizeAV v)
  | .el tag cs, reg, ctx, st => by
    have h := buildList_built cs reg ctx (nextKey st reg).2
    simpa [build, sizeAV] using Built.el tag h
  | .text n, reg, ctx, st => by simpa [build, sizeAV] using Built.text reg ctx st n
  | .dynr cs, reg, ctx, st => by
    have h := buildList_built cs reg ctx st
    simpa [build, sizeAV] using Built.dynr h
  | .acomp t cs, reg, ctx, st => by
    simpa [build, sizeAV, acompSt] using Built.acomp reg ctx st t cs
  | .res r, reg, ctx, st => by
    by_cases hd : r ∈ st.resDone
    · simpa [build, sizeAV, hd] using Built.resKeep reg ctx st r (Or.inl hd)
    · cases ctx with
      | none => simpa [build, sizeAV, hd] using Built.resKeep reg none st r (Or.inr rfl)
      | some k => simpa [build, sizeAV, hd] using Built.resGuard reg st r k hd
  | .susp cs, reg, ctx, st => by
    by_cases hm : st.mode = .sync
    · simpa [build, sizeAV, hm, syncSusp] using Built.suspSync reg ctx st (sizeAVs cs) hm
    · have h := buildList_built cs st.nextSusp (some st.nextSusp) (suspOpen st reg ctx)
      have h2 := Built.susp hm h
      rw [build]
      split
      · contradiction
      · simpa [sizeAV, suspOpen] using h2
theorem buildList_built : ∀ (vs : AVs) (reg : Nat) (ctx : Option Nat) (st : St),
    Built reg ctx st (buildList reg ctx vs st).1 (buildList reg ctx vs st).2 (sizeAVs vs)
  | .nil, reg, ctx, st => by simpa [buildList, sizeAVs] using Built.nil reg ctx st
  | .cons v rest, reg, ctx, st => by
    have h1 := build_built v reg ctx st
    have h2 := buildList_built rest reg ctx (build reg ctx v st).2
    simpa [buildList, sizeAVs] using Built.cons h1 h2
end

/-! ## field lemmas -/

section fields
variable (st : St) (c : Option Nat)
@[simp] theorem incr_mode : (incr st c).mode = st.mode := by cases c <;> rfl
@[simp] theorem incr_nextSusp : (incr st c).nextSusp = st.nextSusp := by cases c <;> rfl
@[simp] theorem incr_regs : (incr st c).regs = st.regs := by cases c <;> rfl
@[simp] theorem incr_pend : (incr st c).pend = st.pend := by cases c <;> rfl
@[simp] theorem incr_nextHole : (incr st c).nextHole = st.nextHole := by cases c <;> rfl
@[simp] theorem incr_resDone : (incr st c).resDone = st.resDone := by cases c <;> rfl
@[simp] theorem incr_guards : (incr st c).guards = st.guards := by cases c <;> rfl
@[simp] theorem incr_doneTasks : (incr st c).doneTasks = st.doneTasks := by cases c <;> rfl
@[simp] theorem incr_waiting : (incr st c).waiting = st.waiting := by cases c <;> rfl
@[simp] theorem incr_bds_length : (incr st c).bds.length = st.bds.length := by cases c <;> simp [incr]
@[simp] theorem decr_mode : (decr st c).mode = st.mode := by cases c <;> rfl
@[simp] theorem decr_nextSusp : (decr st c).nextSusp = st.nextSusp := by cases c <;> rfl
@[simp] theorem decr_regs : (decr st c).regs = st.regs := by cases c <;> rfl
@[simp] theorem decr_pend : (decr st c).pend = st.pend := by cases c <;> rfl
@[simp] theorem decr_nextHole : (decr st c).nextHole = st.nextHole := by cases c <;> rfl
@[simp] theorem decr_resDone : (decr st c).resDone = st.resDone := by cases c <;> rfl
@[simp] theorem decr_guards : (decr st c).guards = st.guards := by cases c <;> rfl
@[simp] theorem decr_doneTasks : (decr st c).doneTasks = st.doneTasks := by cases c <;> rfl
@[simp] theorem decr_waiting : (decr st c).waiting = st.waiting := by cases c <;> rfl
@[simp] theorem decr_bds_length : (decr st c).bds.length = st.bds.length := by cases c <;> simp [decr]
@[simp] theorem nextKey_mode (r : Nat) : (nextKey st r).2.mode = st.mode := rfl
@[simp] theorem nextKey_nextSusp (r : Nat) : (nextKey st r).2.nextSusp = st.nextSusp := rfl
@[simp] theorem nextKey_pend (r : Nat) : (nextKey st r).2.pend = st.pend := rfl
@[simp] theorem nextKey_nextHole (r : Nat) : (nextKey st r).2.nextHole = st.nextHole := rfl
@[simp] theorem nextKey_bds (r : Nat) : (nextKey st r).2.bds = st.bds := rfl
@[simp] theorem nextKey_resDone (r : Nat) : (nextKey st r).2.resDone = st.resDone := rfl
@[simp] theorem nextKey_guards (r : Nat) : (nextKey st r).2.guards = st.guards := rfl
@[simp] theorem nextKey_loose (r : Nat) : (nextKey st r).2.loose = st.loose := rfl
@[simp] theorem nextKey_doneTasks (r : Nat) : (nextKey st r).2.doneTasks = st.doneTasks := rfl
@[simp] theorem nextKey_waiting (r : Nat) : (nextKey st r).2.waiting = st.waiting := rfl
@[simp] theorem nextKey_regs_length (r : Nat) : (nextKey st r).2.regs.length = st.regs.length := by
  simp [nextKey]
@[simp] theorem suspOpen_mode (r : Nat) : (suspOpen st r c).mode = st.mode := rfl
@[simp] theorem suspOpen_nextSusp (r : Nat) : (suspOpen st r c).nextSusp = st.nextSusp + 1 := rfl
@[simp] theorem suspOpen_pend (r : Nat) : (suspOpen st r c).pend = st.pend := rfl
@[simp] theorem suspOpen_nextHole (r : Nat) : (suspOpen st r c).nextHole = st.nextHole := rfl
@[simp] theorem suspOpen_bds (r : Nat) : (suspOpen st r c).bds = st.bds ++ [⟨c, 0, false⟩] := rfl
@[simp] theorem suspOpen_resDone (r : Nat) : (suspOpen st r c).resDone = st.resDone := rfl
@[simp] theorem suspOpen_guards (r : Nat) : (suspOpen st r c).guards = st.guards := rfl
@[simp] theorem suspOpen_loose (r : Nat) : (suspOpen st r c).loose = st.loose := rfl
@[simp] theorem suspOpen_doneTasks (r : Nat) : (suspOpen st r c).doneTasks = st.doneTasks := rfl
@[simp] theorem suspOpen_waiting (r : Nat) : (suspOpen st r c).waiting = st.waiting ++ [st.nextSusp] := rfl
@[simp] theorem suspOpen_regs_length (r : Nat) : (suspOpen st r c).regs.length = st.regs.length + 1 := by
  simp [suspOpen, nextKey]
@[simp] theorem acompSt_mode (r t : Nat) (cs : AVs) : (acompSt st r c t cs).mode = st.mode := by simp [acompSt]
@[simp] theorem acompSt_nextSusp (r t : Nat) (cs : AVs) : (acompSt st r c t cs).nextSusp = st.nextSusp := by
  simp [acompSt]
@[simp] theorem acompSt_regs (r t : Nat) (cs : AVs) : (acompSt st r c t cs).regs = st.regs := by simp [acompSt]
@[simp] theorem acompSt_nextHole (r t : Nat) (cs : AVs) : (acompSt st r c t cs).nextHole = st.nextHole + 1 := by
  simp [acompSt]
@[simp] theorem acompSt_resDone (r t : Nat) (cs : AVs) : (acompSt st r c t cs).resDone = st.resDone := by
  simp [acompSt]
@[simp] theorem acompSt_guards (r t : Nat) (cs : AVs) : (acompSt st r c t cs).guards = st.guards := by
  simp [acompSt]
@[simp] theorem acompSt_doneTasks (r t : Nat) (cs : AVs) : (acompSt st r c t cs).doneTasks = st.doneTasks := by
  simp [acompSt]
@[simp] theorem acompSt_waiting (r t : Nat) (cs : AVs) : (acompSt st r c t cs).waiting = st.waiting := by
  simp [acompSt]
@[simp] theorem acompSt_bds_length (r t : Nat) (cs : AVs) : (acompSt st r c t cs).bds.length = st.bds.length := by
  simp [acompSt]
@[simp] theorem incr_loose_none : (incr st none).loose = st.loose + 1 := rfl
@[simp] theorem incr_loose_some (k : Nat) : (incr st (some k)).loose = st.loose := rfl
@[simp] theorem incr_bds_none : (incr st none).bds = st.bds := rfl
@[simp] theorem decr_loose_none : (decr st none).loose = st.loose - 1 := rfl
@[simp] theorem decr_loose_some (k : Nat) : (decr st (some k)).loose = st.loose := rfl
@[simp] theorem decr_bds_none : (decr st none).bds = st.bds := rfl
@[simp] theorem acompSt_loose_none (r t : Nat) (cs : AVs) : (acompSt st r none t cs).loose = st.loose + 1 := rfl
@[simp] theorem acompSt_loose_some (r t k : Nat) (cs : AVs) : (acompSt st r (some k) t cs).loose = st.loose := rfl
@[simp] theorem acompSt_bds_none (r t : Nat) (cs : AVs) : (acompSt st r none t cs).bds = st.bds := rfl
theorem acompSt_bds_some (r t k : Nat) (cs : AVs) : (acompSt st r (some k) t cs).bds = (incr st (some k)).bds := rfl
end fields

/-! ## what `build` does to the state: frame -/

theorem Built.frame {reg ctx st out st' sz} (h : Built reg ctx st out st' sz) :
    st'.mode = st.mode ∧ st'.resDone = st.resDone ∧ st'.doneTasks = st.doneTasks ∧
    st.nextSusp ≤ st'.nextSusp ∧ st'.regs.length = st.regs.length + (st'.nextSusp - st.nextSusp) ∧
    st'.bds.length = st.bds.length + (st'.nextSusp - st.nextSusp) ∧
    (st.mode = .sync → st'.nextSusp = st.nextSusp) ∧ st.nextHole ≤ st'.nextHole := by
  induction h with
  | text => simp
  | el tag _ ih => simpa [nextKey] using ih
  | dynr _ ih => exact ih
  | acomp => simp [acompSt]
  | resKeep => simp
  | resGuard => simp
  | suspSync => simp
  | susp hm _ ih =>
    simp only [suspOpen, nextKey, List.length_append, List.length_set, List.length_cons,
      List.length_nil] at ih ⊢
    refine ⟨ih.1, ih.2.1, ih.2.2.1, ?_, ?_, ?_, ?_, ?_⟩ <;> first | omega | (intro h; exact absurd h hm)
  | nil => simp
  | cons _ _ ih1 ih2 =>
    refine ⟨?_, ?_, ?_, ?_, ?_, ?_, ?_, ?_⟩ <;> first | omega | simp_all

/-! ## keys -/

theorem getD_set_nat (l : List Nat) (i j v : Nat) :
    (l.set i v).getD j 0 = if i = j ∧ i < l.length then v else l.getD j 0 := by
  simp only [List.getD_eq_getElem?_getD, List.getElem?_set]
  grind

theorem getD_append_zero (l : List Nat) (j : Nat) : (l ++ [0]).getD j 0 = l.getD j 0 := by
  simp only [List.getD_eq_getElem?_getD, List.getElem?_append]
  split
  · rfl
  · rw [List.getElem?_eq_none (l := l) (by omega)]
    cases hj : j - l.length <;> simp

theorem key_count_cons (a b i x : Nat) (l : List Key) :
    List.count (i, x) ((a, b) :: l) = List.count (i, x) l + if a = i ∧ b = x then 1 else 0 := by
  rw [List.count_cons]; congr 1; simp

theorem Built.keys {reg ctx st out st' sz} (h : Built reg ctx st out st' sz)
    (hreg : reg < st.regs.length) (hlen : st.regs.length = st.nextSusp) :
    ∀ i, st.regs.getD i 0 ≤ st'.regs.getD i 0 ∧ ∀ x, List.count (i, x) (elKeys out) =
      if st.regs.getD i 0 ≤ x ∧ x < st'.regs.getD i 0 then 1 else 0 := by
  induction h with
  | text => intro i; simp [elKeys, elKeysN]
  | @el reg ctx st kids st2 sz tag _ ih =>
    intro i
    have ih := ih (by simpa [nextKey] using hreg) (by simpa [nextKey] using hlen) i
    simp only [nextKey, getD_set_nat] at ih
    simp only [elKeys, elKeysN, nextKey, List.append_nil, key_count_cons]
    clear ‹_ → _›
    by_cases hi : reg = i
    · subst hi; simp only [hreg, and_self, if_true, true_and] at ih ⊢
      refine ⟨by omega, fun x => ?_⟩
      have := ih.2 x; grind
    · simp only [hi, false_and, if_false] at ih ⊢
      simpa using ih
  | dynr _ ih =>
    intro i; simpa [elKeys, elKeysN] using ih hreg hlen i
  | acomp => intro i; simp [elKeys, elKeysN, acompSt]
  | resKeep => intro i; simp [elKeys, elKeysN]
  | resGuard => intro i; simp [elKeys, elKeysN]
  | suspSync => intro i; simp [elKeys, elKeysN, syncSusp]
  | @susp reg ctx st content st2 sz hm hb ih =>
    intro i
    have hf := hb.frame
    have ih := ih (by simp [suspOpen, nextKey]; omega) (by simp [suspOpen, nextKey]; omega) i
    simp only [suspOpen, nextKey, getD_set_nat, getD_append_zero] at ih hf
    simp only [elKeys, elKeysN, nextKey, List.append_nil, key_count_cons, getD_set_nat]
    have hreg2 : reg < st2.regs.length := by
      have := hf.2.2.2.2.1; simp at this; omega
    clear ‹_ → _›
    by_cases hi : reg = i
    · subst hi; simp only [hreg, hreg2, and_self, if_true, true_and] at ih ⊢
      refine ⟨by omega, fun x => ?_⟩
      have := ih.2 x; grind
    · simp only [hi, false_and, if_false] at ih ⊢
      simpa using ih
  | nil => intro i; simp [elKeys]
  | cons h1 _ ih1 ih2 =>
    intro i
    have hf := h1.frame
    have ih1 := ih1 hreg hlen i
    have ih2 := ih2 (by omega) (by omega) i
    constructor
    · omega
    · intro x; have a := ih1.2 x; have b := ih2.2 x
      simp only [elKeys_append, List.count_append, a, b]
      split <;> split <;> split <;> omega

/-! ## boundary keys -/

theorem Built.susps {reg ctx st out st' sz} (h : Built reg ctx st out st' sz) :
    ∀ x, List.count x (suspKeys out) = if st.nextSusp ≤ x ∧ x < st'.nextSusp then 1 else 0 := by
  induction h with
  | text => intro x; simp [suspKeys, suspKeysN]
  | el tag _ ih => intro x; simpa [suspKeys, suspKeysN, nextKey] using ih x
  | dynr _ ih => intro x; simpa [suspKeys, suspKeysN] using ih x
  | acomp => intro x; simp [suspKeys, suspKeysN, acompSt]
  | resKeep => intro x; simp [suspKeys, suspKeysN]
  | resGuard => intro x; simp [suspKeys, suspKeysN]
  | suspSync => intro x; simp [suspKeys, suspKeysN, syncSusp]
  | susp hm hb ih =>
    intro x
    have hf := hb.frame.2.2.2.1
    have := ih x
    simp only [suspOpen, nextKey] at this hf
    simp only [suspKeys, suspKeysN, nextKey, List.append_nil, List.count_cons, this, beq_iff_eq]
    grind
  | nil => intro x; simp [suspKeys]
  | cons h1 h2 ih1 ih2 =>
    intro x
    have f1 := h1.frame.2.2.2.1
    have f2 := h2.frame.2.2.2.1
    simp only [suspKeys_append, List.count_append, ih1 x, ih2 x]
    grind

/-! ## new pending bodies and guards -/

def newPend (st st' : St) : List Pend := st'.pend.drop st.pend.length
def newGuards (st st' : St) : List (Nat × Nat) := st'.guards.drop st.guards.length

theorem drop_trans {α} {l1 l2 l3 a b : List α} (h1 : l2 = l1 ++ a) (h2 : l3 = l2 ++ b) :
    l3.drop l1.length = l2.drop l1.length ++ l3.drop l2.length := by
  subst h1 h2; simp

theorem Built.pend_eq {reg ctx st out st' sz} (h : Built reg ctx st out st' sz) :
    st'.pend = st.pend ++ newPend st st' ∧ st'.guards = st.guards ++ newGuards st st' := by
  induction h with
  | text => simp [newPend, newGuards]
  | el tag _ ih => simpa [newPend, newGuards, nextKey] using ih
  | dynr _ ih => exact ih
  | acomp => simp [newPend, newGuards, acompSt]
  | resKeep => simp [newPend, newGuards]
  | resGuard => simp [newPend, newGuards]
  | suspSync => simp [newPend, newGuards]
  | susp hm _ ih => simpa [newPend, newGuards, nextKey, suspOpen] using ih
  | nil => simp [newPend, newGuards]
  | cons _ _ ih1 ih2 =>
    constructor
    · rw [newPend, drop_trans ih1.1 ih2.1, ← newPend, ← newPend, ← List.append_assoc, ← ih1.1, ← ih2.1]
    · rw [newGuards, drop_trans ih1.2 ih2.2, ← newGuards, ← newGuards, ← List.append_assoc, ← ih1.2, ← ih2.2]

theorem Built.newPend_cons {reg ctx st a st1 s1 b st2 s2} (h1 : Built reg ctx st a st1 s1)
    (h2 : Built reg ctx st1 b st2 s2) : newPend st st2 = newPend st st1 ++ newPend st1 st2 :=
  drop_trans h1.pend_eq.1 h2.pend_eq.1
theorem Built.newGuards_cons {reg ctx st a st1 s1 b st2 s2} (h1 : Built reg ctx st a st1 s1)
    (h2 : Built reg ctx st1 b st2 s2) : newGuards st st2 = newGuards st st1 ++ newGuards st1 st2 :=
  drop_trans h1.pend_eq.2 h2.pend_eq.2

@[simp] theorem newPend_self (st : St) : newPend st st = [] := by simp [newPend]
@[simp] theorem newGuards_self (st : St) : newGuards st st = [] := by simp [newGuards]
@[simp] theorem newPend_nextKey (st st' : St) (reg : Nat) : newPend (nextKey st reg).2 st' = newPend st st' := rfl
@[simp] theorem newPend_nextKey' (st st' : St) (reg : Nat) : newPend st (nextKey st' reg).2 = newPend st st' := rfl
@[simp] theorem newGuards_nextKey (st st' : St) (reg : Nat) : newGuards (nextKey st reg).2 st' = newGuards st st' := rfl
@[simp] theorem newGuards_nextKey' (st st' : St) (reg : Nat) : newGuards st (nextKey st' reg).2 = newGuards st st' := rfl
@[simp] theorem newPend_suspOpen (st st' : St) (reg : Nat) (ctx) : newPend (suspOpen st reg ctx) st' = newPend st st' := rfl
@[simp] theorem newGuards_suspOpen (st st' : St) (reg : Nat) (ctx) : newGuards (suspOpen st reg ctx) st' = newGuards st st' := rfl
@[simp] theorem newPend_acomp (st : St) (reg ctx t cs) :
    newPend st (acompSt st reg ctx t cs) = [⟨t, reg, ctx, cs, st.nextHole⟩] := by simp [newPend, acompSt]
@[simp] theorem newGuards_acomp (st : St) (reg ctx t cs) : newGuards st (acompSt st reg ctx t cs) = [] := by
  simp [newGuards, acompSt]
@[simp] theorem newPend_resGuard (st : St) (r k : Nat) :
    newPend st (incr { st with guards := st.guards ++ [(r, k)] } (some k)) = [] := by simp [newPend]
@[simp] theorem newGuards_resGuard (st : St) (r k : Nat) :
    newGuards st (incr { st with guards := st.guards ++ [(r, k)] } (some k)) = [(r, k)] := by simp [newGuards]

/-! ## holes -/

theorem Built.holesOK {reg ctx st out st' sz} (h : Built reg ctx st out st' sz) :
    (newPend st st').map (·.hole) = holes out ∧
    ∀ x, List.count x (holes out) = if st.nextHole ≤ x ∧ x < st'.nextHole then 1 else 0 := by
  induction h with
  | text => simp [holes, holesN]
  | el tag _ ih => simp only [holes, holesN, List.append_nil]; exact ih
  | dynr _ ih => simpa [holes, holesN] using ih
  | acomp => simp [holes, holesN]; grind
  | resKeep => simp [holes, holesN]
  | resGuard => simp [holes, holesN]
  | suspSync => simp [holes, holesN, syncSusp]
  | susp hm _ ih => simp only [holes, holesN, List.append_nil]; exact ih
  | nil => simp [holes]
  | cons h1 h2 ih1 ih2 =>
    have f1 := h1.frame.2.2.2.2.2.2.2
    have f2 := h2.frame.2.2.2.2.2.2.2
    refine ⟨by simp [h1.newPend_cons h2, ih1.1, ih2.1], fun x => ?_⟩
    simp only [holes_append, List.count_append, ih1.2 x, ih2.2 x]
    grind

def pendMeasure (l : List Pend) : Nat := (l.map fun p => sizeAVs p.body + 1).sum

@[simp] theorem pendMeasure_append (a b : List Pend) : pendMeasure (a ++ b) = pendMeasure a + pendMeasure b := by
  simp [pendMeasure]

theorem Built.measure {reg ctx st out st' sz} (h : Built reg ctx st out st' sz) :
    pendMeasure (newPend st st') ≤ sz := by
  induction h with
  | cons h1 h2 ih1 ih2 => rw [h1.newPend_cons h2]; simp; omega
  | acomp => simp [pendMeasure]
  | el _ _ ih => exact Nat.le_succ_of_le ih
  | dynr _ ih => exact Nat.le_succ_of_le ih
  | susp _ _ ih => exact Nat.le_succ_of_le ih
  | _ => simp [pendMeasure]

/-! ## contexts of the new pending bodies and guards -/

theorem Built.pendCtx {reg ctx st out st' sz} (h : Built reg ctx st out st' sz)
    (hreg : reg < st.regs.length) (hlen : st.regs.length = st.nextSusp) :
    ∀ p ∈ newPend st st', p.reg < st'.regs.length ∧
      (p.ctx = ctx ∨ ∃ j, p.ctx = some j ∧ st.nextSusp ≤ j ∧ j < st'.nextSusp) := by
  induction h with
  | el tag _ ih => exact ih (by simpa using hreg) (by simpa using hlen)
  | dynr _ ih => exact ih hreg hlen
  | acomp => simp; exact hreg
  | susp hm hb ih =>
    intro p hp
    have hf := hb.frame
    have := ih (by simp; omega) (by simp; omega) p hp
    simp only [suspOpen_nextSusp, nextKey_regs_length, nextKey_nextSusp] at this hf ⊢
    refine ⟨this.1, Or.inr ?_⟩
    rcases this.2 with h | ⟨j, h1, h2, h3⟩
    · exact ⟨_, h, by omega, by omega⟩
    · exact ⟨j, h1, by omega, h3⟩
  | cons h1 h2 ih1 ih2 =>
    intro p hp
    have f1 := h1.frame
    have f2 := h2.frame
    rw [h1.newPend_cons h2, List.mem_append] at hp
    rcases hp with hp | hp
    · have := ih1 hreg hlen p hp
      refine ⟨by omega, ?_⟩
      rcases this.2 with h | ⟨j, h1, h2, h3⟩
      · exact Or.inl h
      · exact Or.inr ⟨j, h1, h2, by omega⟩
    · have := ih2 (by omega) (by omega) p hp
      refine ⟨this.1, ?_⟩
      rcases this.2 with h | ⟨j, h1, h2, h3⟩
      · exact Or.inl h
      · exact Or.inr ⟨j, h1, by omega, h3⟩
  | _ => simp

theorem Built.holeItems {reg ctx st out st' sz} (h : Built reg ctx st out st' sz) :
    ∀ hh κ, (Item.hole hh, κ) ∈ items ctx out → ∃ p ∈ newPend st st', p.hole = hh ∧ p.ctx = κ := by
  induction h with
  | el tag _ ih => simpa [items, itemsN] using ih
  | dynr _ ih => simpa [items, itemsN] using ih
  | acomp => simp [items, itemsN]
  | susp hm hb ih => simpa [items, itemsN] using ih
  | cons h1 h2 ih1 ih2 =>
    intro hh κ hm
    rw [items_append, List.mem_append] at hm
    rw [h1.newPend_cons h2]
    rcases hm with hm | hm
    · obtain ⟨p, hp, h⟩ := ih1 hh κ hm; exact ⟨p, by simp [hp], h⟩
    · obtain ⟨p, hp, h⟩ := ih2 hh κ hm; exact ⟨p, by simp [hp], h⟩
  | _ => simp [items, itemsN, syncSusp]

theorem Built.guardsCtx {reg ctx st out st' sz} (h : Built reg ctx st out st' sz) :
    ∀ g ∈ newGuards st st', g.1 ∉ st.resDone ∧
      (some g.2 = ctx ∨ (st.nextSusp ≤ g.2 ∧ g.2 < st'.nextSusp)) := by
  induction h with
  | el tag _ ih => exact ih
  | dynr _ ih => exact ih
  | resGuard reg st r k hr => simp; exact hr
  | susp hm hb ih =>
    intro g hg
    have hf := hb.frame
    have := ih g hg
    simp only [suspOpen_nextSusp, nextKey_nextSusp, suspOpen_resDone] at this hf ⊢
    refine ⟨this.1, Or.inr ?_⟩
    rcases this.2 with h | h
    · have := Option.some.inj h; omega
    · omega
  | cons h1 h2 ih1 ih2 =>
    intro g hg
    have f1 := h1.frame
    have f2 := h2.frame
    rw [h1.newGuards_cons h2, List.mem_append] at hg
    rcases hg with hg | hg
    · have := ih1 g hg
      refine ⟨this.1, ?_⟩
      rcases this.2 with h | h
      · exact Or.inl h
      · exact Or.inr (by omega)
    · have := ih2 g hg
      refine ⟨by rw [← f1.2.1]; exact this.1, ?_⟩
      rcases this.2 with h | h
      · exact Or.inl h
      · exact Or.inr (by omega)
  | _ => simp

theorem Built.resItems {reg ctx st out st' sz} (h : Built reg ctx st out st' sz) :
    ∀ r k, (Item.res r, some k) ∈ items ctx out → r ∈ st.resDone ∨ (r, k) ∈ newGuards st st' := by
  induction h with
  | el tag _ ih => simpa [items, itemsN] using ih
  | dynr _ ih => simpa [items, itemsN] using ih
  | resKeep reg ctx st r hr =>
    intro r' k; simp only [items, itemsN, List.append_nil, List.mem_singleton, Prod.mk.injEq, Item.res.injEq]
    rintro ⟨rfl, rfl⟩; simpa using hr
  | resGuard reg st r k hr =>
    intro r' k'; simp only [items, itemsN, List.append_nil, List.mem_singleton, Prod.mk.injEq, Item.res.injEq]
    rintro ⟨rfl, h⟩; cases h; simp
  | susp hm hb ih => simpa [items, itemsN] using ih
  | cons h1 h2 ih1 ih2 =>
    intro r k hm
    have f1 := h1.frame
    rw [items_append, List.mem_append] at hm
    rw [h1.newGuards_cons h2]
    rcases hm with hm | hm
    · rcases ih1 r k hm with h | h
      · exact Or.inl h
      · exact Or.inr (by simp [h])
    · rcases ih2 r k hm with h | h
      · exact Or.inl (by rw [← f1.2.1]; exact h)
      · exact Or.inr (by simp [h])
  | _ => simp [items, itemsN, syncSusp]

/-! ## counters -/

/-- the counter of the boundary at index `j` (0 if there is none) -/
def cntL (l : List Bd) (j : Nat) : Nat := (l[j]?.map (·.count)).getD 0

theorem cntL_modify_incr (l : List Bd) (i j : Nat) :
    cntL (l.modify i fun b => { b with count := b.count + 1 }) j =
      cntL l j + if i = j ∧ j < l.length then 1 else 0 := by
  simp only [cntL, List.getElem?_modify]
  by_cases hj : j < l.length
  · simp only [List.getElem?_eq_getElem hj]
    by_cases hi : i = j <;> simp [hi, hj]
  · simp [List.getElem?_eq_none (Nat.le_of_not_lt hj), hj]

theorem cntL_modify_decr (l : List Bd) (i j : Nat) :
    cntL (l.modify i fun b => { b with count := b.count - 1 }) j =
      cntL l j - if i = j ∧ j < l.length then 1 else 0 := by
  simp only [cntL, List.getElem?_modify]
  by_cases hj : j < l.length
  · simp only [List.getElem?_eq_getElem hj]
    by_cases hi : i = j <;> simp [hi, hj]
  · simp [List.getElem?_eq_none (Nat.le_of_not_lt hj), hj]

theorem cntL_append_zero (l : List Bd) (c : Option Nat) (s : Bool) (j : Nat) :
    cntL (l ++ [⟨c, 0, s⟩]) j = cntL l j := by
  simp only [cntL, List.getElem?_append]
  split
  · rfl
  · rw [List.getElem?_eq_none (l := l) (by omega)]
    cases hj : j - l.length <;> simp

theorem cntL_incr (st : St) (k j : Nat) (hk : 1 ≤ k ∧ k ≤ st.bds.length) :
    cntL (incr st (some k)).bds j = cntL st.bds j + if k = j + 1 then 1 else 0 := by
  simp only [incr, cntL_modify_incr]
  congr 1
  by_cases h : k = j + 1
  · simp [h]; omega
  · have : ¬ (k - 1 = j ∧ j < st.bds.length) := by omega
    simp [h, this]

theorem cntL_decr (st : St) (k j : Nat) (hk : 1 ≤ k ∧ k ≤ st.bds.length) :
    cntL (decr st (some k)).bds j = cntL st.bds j - if k = j + 1 then 1 else 0 := by
  simp only [decr, cntL_modify_decr]
  congr 1
  by_cases h : k = j + 1
  · simp [h]; omega
  · have : ¬ (k - 1 = j ∧ j < st.bds.length) := by omega
    simp [h, this]

theorem Built.counts {reg ctx st out st' sz} (h : Built reg ctx st out st' sz)
    (hctx : ∀ k, ctx = some k → 1 ≤ k ∧ k ≤ st.bds.length) (hbl : st.bds.length + 1 = st.nextSusp) :
    (∀ j, cntL st'.bds j = cntL st.bds j + (newPend st st').countP (·.ctx = some (j + 1)) +
      (newGuards st st').countP (·.2 = j + 1)) ∧
    st'.loose = st.loose + (newPend st st').countP (·.ctx = none) := by
  induction h with
  | el tag _ ih => exact ih hctx hbl
  | dynr _ ih => exact ih hctx hbl
  | acomp reg ctx st t cs =>
    cases ctx with
    | none => simp
    | some k =>
      have hk := hctx k rfl
      refine ⟨fun j => ?_, ?_⟩
      · simp only [newPend_acomp, newGuards_acomp, List.countP_cons, List.countP_nil]
        rw [acompSt_bds_some, cntL_incr _ _ _ hk]
        simp
      · simp
  | resGuard reg st r k hr =>
    have hk := hctx k rfl
    refine ⟨fun j => ?_, ?_⟩
    · simp only [newPend_resGuard, newGuards_resGuard, List.countP_cons, List.countP_nil]
      rw [cntL_incr _ _ _ (by simpa using hk)]
      simp
    · simp
  | susp hm hb ih =>
    have hf := hb.frame
    have := ih (by simp; omega) (by simp; omega)
    simp only [suspOpen_bds, cntL_append_zero, newPend_suspOpen, newGuards_suspOpen, suspOpen_loose] at this
    exact this
  | cons h1 h2 ih1 ih2 =>
    have f1 := h1.frame
    have a := ih1 hctx hbl
    have b := ih2 (fun k hk => by have := hctx k hk; omega) (by omega)
    rw [h1.newPend_cons h2, h1.newGuards_cons h2]
    refine ⟨fun j => ?_, ?_⟩
    · rw [b.1, a.1]; simp only [List.countP_append]; omega
    · rw [b.2, a.2]; simp only [List.countP_append]; omega
  | _ => simp

/-! ## the static part of the boundaries -/

/-- `l'` extends `l`: old boundaries keep `sent` and `parent`; new ones are unsent and have a smaller parent -/
structure BdsExt (l l' : List Bd) : Prop where
  len : l.length ≤ l'.length
  old : ∀ (j : Nat) (b : Bd), l[j]? = some b →
    ∃ b' : Bd, l'[j]? = some b' ∧ b'.sent = b.sent ∧ b'.parent = b.parent
  new : ∀ (j : Nat) (b' : Bd), l'[j]? = some b' → l.length ≤ j →
    b'.sent = false ∧ ∀ p, b'.parent = some p → 1 ≤ p ∧ p ≤ j

theorem BdsExt.refl (l : List Bd) : BdsExt l l :=
  ⟨Nat.le_refl _, fun j b h => ⟨b, h, rfl, rfl⟩, fun j b' h hj => by
    have := (List.getElem?_eq_some_iff.mp h).1; omega⟩

theorem BdsExt.trans {l1 l2 l3 : List Bd} (a : BdsExt l1 l2) (b : BdsExt l2 l3) : BdsExt l1 l3 := by
  refine ⟨Nat.le_trans a.len b.len, fun j x h => ?_, fun j x h hj => ?_⟩
  · obtain ⟨y, hy, h1, h2⟩ := a.old j x h
    obtain ⟨z, hz, h3, h4⟩ := b.old j y hy
    exact ⟨z, hz, h3.trans h1, h4.trans h2⟩
  · by_cases hj2 : l2.length ≤ j
    · exact b.new j x h hj2
    · obtain ⟨y, hy⟩ : ∃ y, l2[j]? = some y := ⟨l2[j]'(by omega), List.getElem?_eq_getElem (by omega)⟩
      obtain ⟨z, hz, h3, h4⟩ := b.old j y hy
      have := a.new j y hy hj
      rw [hz] at h; cases h
      rw [h3, h4]; exact this

theorem BdsExt.modify (l : List Bd) (i : Nat) (f : Bd → Bd) (hs : ∀ b, (f b).sent = b.sent)
    (hp : ∀ b, (f b).parent = b.parent) : BdsExt l (l.modify i f) := by
  refine ⟨by simp, fun j b h => ?_, fun j b' h hj => ?_⟩
  · rw [List.getElem?_modify, h]
    by_cases hi : i = j <;> simp [hi, hs, hp]
  · have := (List.getElem?_eq_some_iff.mp h).1; simp at this; omega

theorem BdsExt.incr (st : St) (c : Option Nat) : BdsExt st.bds (incr st c).bds := by
  cases c with
  | none => exact BdsExt.refl _
  | some k => exact BdsExt.modify _ _ _ (fun _ => rfl) (fun _ => rfl)

theorem BdsExt.decr (st : St) (c : Option Nat) : BdsExt st.bds (decr st c).bds := by
  cases c with
  | none => exact BdsExt.refl _
  | some k => exact BdsExt.modify _ _ _ (fun _ => rfl) (fun _ => rfl)

theorem BdsExt.push (l : List Bd) (c : Option Nat) (hc : ∀ p, c = some p → 1 ≤ p ∧ p ≤ l.length) :
    BdsExt l (l ++ [⟨c, 0, false⟩]) := by
  refine ⟨by simp, fun j b h => ?_, fun j b' h hj => ?_⟩
  · have := (List.getElem?_eq_some_iff.mp h).1
    exact ⟨b, by rw [List.getElem?_append_left this]; exact h, rfl, rfl⟩
  · have hlt := (List.getElem?_eq_some_iff.mp h).1
    simp at hlt
    have hj' : j = l.length := by omega
    subst hj'
    simp at h; subst h
    exact ⟨rfl, hc⟩

theorem Built.bdsExt {reg ctx st out st' sz} (h : Built reg ctx st out st' sz)
    (hctx : ∀ k, ctx = some k → 1 ≤ k ∧ k ≤ st.bds.length) (hbl : st.bds.length + 1 = st.nextSusp) :
    BdsExt st.bds st'.bds := by
  induction h with
  | el tag _ ih => exact ih hctx hbl
  | dynr _ ih => exact ih hctx hbl
  | acomp reg ctx st t cs =>
    exact BdsExt.incr { st with nextHole := st.nextHole + 1, pend := st.pend ++ [⟨t, reg, ctx, cs, st.nextHole⟩] } ctx
  | resGuard reg st r k hr => exact BdsExt.incr { st with guards := st.guards ++ [(r, k)] } (some k)
  | susp hm hb ih =>
    have := ih (by simp; omega) (by simp; omega)
    exact (BdsExt.push _ _ hctx).trans this
  | cons h1 h2 ih1 ih2 =>
    have f1 := h1.frame
    exact (ih1 hctx hbl).trans (ih2 (fun k hk => by have := hctx k hk; omega) (by omega))
  | _ => exact BdsExt.refl _

theorem Built.waitingOK {reg ctx st out st' sz} (h : Built reg ctx st out st' sz) :
    ∀ k ∈ st'.waiting, k ∈ st.waiting ∨ (st.nextSusp ≤ k ∧ k < st'.nextSusp) := by
  induction h with
  | el tag _ ih => exact ih
  | dynr _ ih => exact ih
  | susp hm hb ih =>
    intro k hk
    have hf := hb.frame.2.2.2.1
    have := ih k hk
    simp only [suspOpen_waiting, List.mem_append, List.mem_singleton, suspOpen_nextSusp,
      nextKey_nextSusp] at this hf ⊢
    rcases this with (h | h) | h
    · exact Or.inl h
    · exact Or.inr (by omega)
    · exact Or.inr (by omega)
  | cons h1 h2 ih1 ih2 =>
    intro k hk
    have f1 := h1.frame.2.2.2.1
    have f2 := h2.frame.2.2.2.1
    rcases ih2 k hk with h | h
    · rcases ih1 k h with h | h
      · exact Or.inl h
      · exact Or.inr (by omega)
    · exact Or.inr (by omega)
  | _ => intro k hk; exact Or.inl (by simpa using hk)

theorem Built.first {reg ctx st out st' sz} (h : Built reg ctx st out st' sz)
    (hreg : reg < st.regs.length) (hlen : st.regs.length = st.nextSusp)
    (h0 : 1 < st.nextSusp → 0 < st.regs.getD 0 0) : 1 < st'.nextSusp → 0 < st'.regs.getD 0 0 := by
  induction h with
  | el tag hb ih =>
    refine ih (by simpa using hreg) (by simpa using hlen) (fun h1 => ?_)
    have := h0 (by simpa using h1)
    simp only [nextKey, getD_set_nat]; split <;> omega
  | dynr _ ih => exact ih hreg hlen h0
  | @susp reg ctx st content st2 sz hm hb ih =>
    intro _
    have hf := hb.frame
    have hk := (hb.keys (by simp; omega) (by simp; omega) 0).1
    simp only [suspOpen, nextKey, getD_set_nat, getD_append_zero, List.length_append, List.length_set,
      List.length_cons, List.length_nil] at hk hf ⊢
    by_cases hr : reg = 0
    · subst hr; simp only [true_and] at hk ⊢; split <;> omega
    · have := h0 (by omega)
      simp only [hr, false_and, if_false] at hk ⊢; omega
  | cons h1 h2 ih1 ih2 =>
    have f1 := h1.frame
    exact ih2 (by omega) (by omega) (ih1 hreg hlen h0)
  | _ => simpa using h0

/-! ## filling a hole -/

mutual
theorem fill_elKeys (h : Nat) (c : RNs) (x : Key) : ∀ n : RN,
    List.count x (elKeysN (fill h c n)) = List.count x (elKeysN n) + List.count h (holesN n) * List.count x (elKeys c)
  | .el tag key kids => by
    simp only [fill, elKeysN, holesN, List.count_cons, fillList_elKeys h c x kids]; omega
  | .hole i => by
    by_cases hi : i = h <;> simp [fill, elKeysN, holesN, hi]
  | .group kids => by simp only [fill, elKeysN, holesN, fillList_elKeys h c x kids]
  | .susp k a b content => by
    simp only [fill, elKeysN, holesN, List.count_cons, fillList_elKeys h c x content]; omega
  | .text _ => by simp [fill, elKeysN, holesN]
  | .fb => by simp [fill, elKeysN, holesN]
  | .marker => by simp [fill, elKeysN, holesN]
  | .resText _ => by simp [fill, elKeysN, holesN]
theorem fillList_elKeys (h : Nat) (c : RNs) (x : Key) : ∀ t : RNs,
    List.count x (elKeys (fillList h c t)) = List.count x (elKeys t) + List.count h (holes t) * List.count x (elKeys c)
  | .nil => by simp [fillList, elKeys, holes]
  | .cons n rest => by
    simp only [fillList, elKeys, holes, List.count_append, fill_elKeys h c x n, fillList_elKeys h c x rest,
      Nat.add_mul]; omega
end

mutual
theorem fill_suspKeys (h : Nat) (c : RNs) (x : Nat) : ∀ n : RN,
    List.count x (suspKeysN (fill h c n)) =
      List.count x (suspKeysN n) + List.count h (holesN n) * List.count x (suspKeys c)
  | .el tag key kids => by simp only [fill, suspKeysN, holesN, fillList_suspKeys h c x kids]
  | .hole i => by
    by_cases hi : i = h <;> simp [fill, suspKeysN, holesN, hi]
  | .group kids => by simp only [fill, suspKeysN, holesN, fillList_suspKeys h c x kids]
  | .susp k a b content => by
    simp only [fill, suspKeysN, holesN, List.count_cons, fillList_suspKeys h c x content]; omega
  | .text _ => by simp [fill, suspKeysN, holesN]
  | .fb => by simp [fill, suspKeysN, holesN]
  | .marker => by simp [fill, suspKeysN, holesN]
  | .resText _ => by simp [fill, suspKeysN, holesN]
theorem fillList_suspKeys (h : Nat) (c : RNs) (x : Nat) : ∀ t : RNs,
    List.count x (suspKeys (fillList h c t)) =
      List.count x (suspKeys t) + List.count h (holes t) * List.count x (suspKeys c)
  | .nil => by simp [fillList, suspKeys, holes]
  | .cons n rest => by
    simp only [fillList, suspKeys, holes, List.count_append, fill_suspKeys h c x n,
      fillList_suspKeys h c x rest, Nat.add_mul]; omega
end

mutual
theorem fill_holes (h : Nat) (c : RNs) (x : Nat) : ∀ n : RN,
    List.count x (holesN (fill h c n)) =
      (if x = h then 0 else List.count x (holesN n)) + List.count h (holesN n) * List.count x (holes c)
  | .el tag key kids => by simp only [fill, holesN, fillList_holes h c x kids]
  | .hole i => by
    by_cases hi : i = h
    · subst hi; by_cases hx : x = i <;> simp [fill, holesN, hx]
      rw [List.count_singleton]; simp; exact fun h => hx h.symm
    · by_cases hx : x = h
      · subst hx; simp [fill, holesN, hi]
      · simp [fill, holesN, hi, hx]
  | .group kids => by simp only [fill, holesN, fillList_holes h c x kids]
  | .susp k a b content => by simp only [fill, holesN, fillList_holes h c x content]
  | .text _ => by simp [fill, holesN]
  | .fb => by simp [fill, holesN]
  | .marker => by simp [fill, holesN]
  | .resText _ => by simp [fill, holesN]
theorem fillList_holes (h : Nat) (c : RNs) (x : Nat) : ∀ t : RNs,
    List.count x (holes (fillList h c t)) =
      (if x = h then 0 else List.count x (holes t)) + List.count h (holes t) * List.count x (holes c)
  | .nil => by simp [fillList, holes]
  | .cons n rest => by
    simp only [fillList, holes, List.count_append, fill_holes h c x n, fillList_holes h c x rest, Nat.add_mul]
    split <;> omega
end

mutual
theorem fill_items (h : Nat) (c : RNs) (y : Item × Option Nat) : ∀ (n : RN) (x : Option Nat),
    y ∈ itemsN x (fill h c n) →
      (y ∈ itemsN x n ∧ y.1 ≠ .hole h) ∨ ∃ κ, (Item.hole h, κ) ∈ itemsN x n ∧ y ∈ items κ c
  | .el tag key kids, x => by simpa only [fill, itemsN] using fillList_items h c y kids x
  | .hole i, x => by
    by_cases hi : i = h
    · subst hi; simp only [fill, if_true, itemsN, List.mem_singleton]
      intro hy; exact Or.inr ⟨x, rfl, hy⟩
    · simp only [fill, hi, if_false, itemsN, List.mem_singleton]
      rintro rfl; exact Or.inl ⟨rfl, by simpa using hi⟩
  | .group kids, x => by simpa only [fill, itemsN] using fillList_items h c y kids x
  | .susp k a b content, x => by simpa only [fill, itemsN] using fillList_items h c y content (some k)
  | .text _, x => by simp [fill, itemsN]
  | .fb, x => by simp [fill, itemsN]
  | .marker, x => by simp [fill, itemsN]
  | .resText r, x => by
    simp only [fill, itemsN, List.mem_singleton]; rintro rfl; exact Or.inl ⟨rfl, by simp⟩
theorem fillList_items (h : Nat) (c : RNs) (y : Item × Option Nat) : ∀ (t : RNs) (x : Option Nat),
    y ∈ items x (fillList h c t) →
      (y ∈ items x t ∧ y.1 ≠ .hole h) ∨ ∃ κ, (Item.hole h, κ) ∈ items x t ∧ y ∈ items κ c
  | .nil, x => by simp [fillList, items]
  | .cons n rest, x => by
    simp only [fillList, items, List.mem_append]
    rintro (hy | hy)
    · rcases fill_items h c y n x hy with ⟨h1, h2⟩ | ⟨κ, h1, h2⟩
      · exact Or.inl ⟨Or.inl h1, h2⟩
      · exact Or.inr ⟨κ, Or.inl h1, h2⟩
    · rcases fillList_items h c y rest x hy with ⟨h1, h2⟩ | ⟨κ, h1, h2⟩
      · exact Or.inl ⟨Or.inr h1, h2⟩
      · exact Or.inr ⟨κ, Or.inr h1, h2⟩
end

/-! ## the invariant -/

/-- `Inv P st tree`: state and tree fit together, `P` being the bodies that still have a hole in the tree -/
structure Inv (P : List Pend) (st : St) (tree : RNs) : Prop where
  regsLen : st.regs.length = st.nextSusp
  bdsLen : st.bds.length + 1 = st.nextSusp
  sync : st.mode = .sync → st.nextSusp = 1
  keys : ∀ i x, List.count (i, x) (elKeys tree) = if x < st.regs.getD i 0 then 1 else 0
  susps : ∀ x, List.count x (suspKeys tree) = if 1 ≤ x ∧ x < st.nextSusp then 1 else 0
  holesC : ∀ x, List.count x (holes tree) = List.count x (P.map (·.hole))
  holesLt : ∀ h ∈ holes tree, h < st.nextHole
  holes1 : ∀ x, List.count x (holes tree) ≤ 1
  pendOK : ∀ p ∈ P, p.reg < st.regs.length ∧ ∀ k, p.ctx = some k → 1 ≤ k ∧ k ≤ st.bds.length
  guardsOK : ∀ g ∈ st.guards, 1 ≤ g.2 ∧ g.2 ≤ st.bds.length ∧ g.1 ∉ st.resDone
  counts : ∀ j, cntL st.bds j = P.countP (·.ctx = some (j + 1)) + st.guards.countP (·.2 = j + 1)
  loose : st.loose = P.countP (·.ctx = none)
  parents : ∀ (j : Nat) (b : Bd), st.bds[j]? = some b → ∀ p, b.parent = some p → 1 ≤ p ∧ p ≤ j
  holeCtx : ∀ h κ, (Item.hole h, κ) ∈ items none tree → ∃ p ∈ P, p.hole = h ∧ p.ctx = κ
  resOK : ∀ r k, (Item.res r, some k) ∈ items none tree → r ∈ st.resDone ∨ (r, k) ∈ st.guards
  first : 1 < st.nextSusp → 0 < st.regs.getD 0 0
  waitOK : ∀ k ∈ st.waiting, 1 ≤ k ∧ k < st.nextSusp

theorem Inv.perm {P P' st tree} (h : Inv P st tree) (hp : P.Perm P') : Inv P' st tree :=
  { h with
    holesC := fun x => by rw [h.holesC x]; exact (hp.map _).count_eq x
    pendOK := fun p hm => h.pendOK p (hp.mem_iff.mpr hm)
    counts := fun j => by rw [h.counts j, hp.countP_eq]
    loose := by rw [h.loose, hp.countP_eq]
    holeCtx := fun hh κ hm => by
      obtain ⟨p, hp', h'⟩ := h.holeCtx hh κ hm
      exact ⟨p, hp.mem_iff.mp hp', h'⟩ }

theorem parents_ext {l l' : List Bd} (h : BdsExt l l')
    (hp : ∀ (j : Nat) (b : Bd), l[j]? = some b → ∀ p, b.parent = some p → 1 ≤ p ∧ p ≤ j) :
    ∀ (j : Nat) (b : Bd), l'[j]? = some b → ∀ p, b.parent = some p → 1 ≤ p ∧ p ≤ j := by
  intro j b hb p hpar
  by_cases hj : l.length ≤ j
  · exact (h.new j b hb hj).2 p hpar
  · obtain ⟨y, hy⟩ : ∃ y, l[j]? = some y := ⟨l[j]'(by omega), List.getElem?_eq_getElem (by omega)⟩
    obtain ⟨z, hz, h3, h4⟩ := h.old j y hy
    rw [hz] at hb; cases hb
    exact hp j y hy p (by rw [← h4]; exact hpar)

theorem getD_init (m : Mode) (i : Nat) : (St.init m).regs.getD i 0 = 0 := by
  simp only [St.init, List.getD_eq_getElem?_getD]
  cases i <;> simp

/-- the first build establishes the invariant -/
theorem Inv.start {m : Mode} {tree st sz} (hb : Built 0 none (St.init m) tree st sz) :
    Inv st.pend st tree := by
  have hf := hb.frame
  have hk := hb.keys (by simp [St.init]) (by simp [St.init])
  have hpe := hb.pend_eq
  have hnp : st.pend = newPend (St.init m) st := by simpa [St.init] using hpe.1
  have hng : st.guards = newGuards (St.init m) st := by simpa [St.init] using hpe.2
  have hc := hb.counts (by simp) (by simp [St.init])
  have hinit : (St.init m).nextSusp = 1 ∧ (St.init m).regs.length = 1 ∧ (St.init m).bds = [] ∧
      (St.init m).nextHole = 0 ∧ (St.init m).loose = 0 ∧ (St.init m).mode = m ∧
      (St.init m).resDone = [] ∧ (St.init m).waiting = [] := by simp [St.init]
  obtain ⟨i1, i2, i3, i4, i5, i6, i7, i8⟩ := hinit
  simp only [i1, i2, i3, i4, i5, i6, i7, List.length_nil] at hf
  refine
    { regsLen := by omega
      bdsLen := by omega
      sync := fun h => by have := hf.2.2.2.2.2.2.1 (by rw [← hf.1]; exact h); omega
      keys := fun i x => by
        have := (hk i).2 x; rw [getD_init] at this; simpa using this
      susps := fun x => by simpa [i1] using hb.susps x
      holesC := fun x => by rw [hnp, hb.holesOK.1]
      holesLt := fun h hh => by
        have := hb.holesOK.2 h
        have hpos : 0 < List.count h (holes tree) := List.count_pos_iff.mpr hh
        split at this <;> omega
      holes1 := fun x => by have := hb.holesOK.2 x; split at this <;> omega
      pendOK := fun p hp => by
        rw [hnp] at hp
        have := hb.pendCtx (by simp [St.init]) (by simp [St.init]) p hp
        refine ⟨this.1, fun k hk => ?_⟩
        rcases this.2 with h | ⟨j, h1, h2, h3⟩
        · rw [h] at hk; cases hk
        · rw [h1] at hk; cases hk; simp only [i1] at h2; omega
      guardsOK := fun g hg => by
        rw [hng] at hg
        have := hb.guardsCtx g hg
        rw [i7] at this
        rcases this.2 with h | h
        · cases h
        · simp only [i1] at h; rw [hf.2.1]; exact ⟨by omega, by omega, by simp⟩
      counts := fun j => by
        have := hc.1 j; simp only [i3] at this
        rw [this, ← hnp, ← hng]; simp [cntL]
      loose := by rw [hc.2, i5, ← hnp]; simp
      parents := parents_ext (hb.bdsExt (by simp) (by simp [St.init])) (by simp [St.init])
      holeCtx := fun h κ hm => by rw [hnp]; exact hb.holeItems h κ hm
      resOK := fun r k hm => by
        rcases hb.resItems r k hm with h | h
        · simp [i7] at h
        · exact Or.inr (by rw [hng]; exact h)
      first := hb.first (by simp [St.init]) (by simp [St.init]) (by simp [St.init])
      waitOK := fun k hk => by
        rcases hb.waitingOK k hk with h | h
        · simp [i8] at h
        · simp only [i1] at h; exact h }

theorem count_map_zero_of_mem {l : List Pend} {q : Pend} (hq : q ∈ l) :
    0 < List.count q.hole (l.map (·.hole)) :=
  List.count_pos_iff.mpr (List.mem_map.mpr ⟨q, hq, rfl⟩)

/-- a body is built and fills its hole -/
theorem Inv.fillStep {P Q : List Pend} {st tree} {p : Pend} {c st1 sz} (h0 : Inv P st tree)
    (hp : P.Perm (p :: Q)) (hb : Built p.reg p.ctx st c st1 sz) :
    Inv (newPend st st1 ++ Q) (decr st1 p.ctx) (fillList p.hole c tree) := by
  have h := h0.perm hp
  have hp0 := h.pendOK p (List.mem_cons_self ..)
  have hf := hb.frame
  have hk := hb.keys hp0.1 h.regsLen
  have hpe := hb.pend_eq
  have hc := hb.counts hp0.2 h.bdsLen
  have hho := hb.holesOK
  have hone : List.count p.hole (holes tree) = 1 := by
    have h1 := h.holesC p.hole; have h2 := h.holes1 p.hole
    simp only [List.map_cons, List.count_cons_self] at h1; omega
  have hQ0 : List.count p.hole (Q.map (·.hole)) = 0 := by
    have h1 := h.holesC p.hole
    simp only [List.map_cons, List.count_cons_self] at h1; omega
  have hlt : ∀ x, 0 < List.count x (holes tree) → x < st.nextHole := fun x hx =>
    h.holesLt x (List.count_pos_iff.mp hx)
  have hctx1 : ∀ k, p.ctx = some k → 1 ≤ k ∧ k ≤ st1.bds.length := fun k hk => by
    have := hp0.2 k hk; omega
  -- the pending body whose hole is `p.hole` is `p`
  have huniq : ∀ q ∈ p :: Q, q.hole = p.hole → q.ctx = p.ctx := by
    intro q hq hh
    rcases List.mem_cons.mp hq with rfl | hq
    · rfl
    · have := count_map_zero_of_mem hq; rw [hh] at this; omega
  refine
    { regsLen := by simp only [decr_regs, decr_nextSusp]; have := h.regsLen; omega
      bdsLen := by simp only [decr_bds_length, decr_nextSusp]; have := h.bdsLen; omega
      sync := fun hm => by
        simp only [decr_mode, decr_nextSusp] at hm ⊢
        have := hf.2.2.2.2.2.2.1 (by rw [← hf.1]; exact hm); have := h.sync (by rw [← hf.1]; exact hm); omega
      keys := fun i x => by
        rw [fillList_elKeys, hone, h.keys, (hk i).2 x, decr_regs]
        have := (hk i).1; split <;> split <;> split <;> omega
      susps := fun x => by
        rw [fillList_suspKeys, hone, h.susps, hb.susps x, decr_nextSusp]
        have := hf.2.2.2.1; have := h.bdsLen; split <;> split <;> split <;> omega
      holesC := fun x => by
        rw [fillList_holes, hone, h.holesC, List.map_append, List.count_append, hho.1]
        simp only [List.map_cons, List.count_cons]
        by_cases hx : x = p.hole
        · subst hx; simp [hQ0]
        · have : ¬ (p.hole == x) = true := by simpa using fun h => hx h.symm
          simp [hx, this]; omega
      holesLt := fun x hx => by
        have hpos := List.count_pos_iff.mpr hx
        rw [fillList_holes, hone, hho.2 x] at hpos
        simp only [decr_nextHole]
        have := hlt x; have := hf.2.2.2.2.2.2.2
        split at hpos <;> split at hpos <;> omega
      holes1 := fun x => by
        rw [fillList_holes, hone, hho.2 x]
        have := hlt x; have := h.holes1 x
        split <;> split <;> omega
      pendOK := fun q hq => by
        simp only [decr_regs, decr_bds_length]
        rcases List.mem_append.mp hq with hq | hq
        · have := hb.pendCtx hp0.1 h.regsLen q hq
          refine ⟨this.1, fun k hk => ?_⟩
          rcases this.2 with h' | ⟨j, h1, h2, h3⟩
          · exact hctx1 k (h' ▸ hk)
          · rw [h1] at hk; cases hk; have := h.bdsLen; omega
        · have := h.pendOK q (List.mem_cons_of_mem _ hq)
          exact ⟨by omega, fun k hk => by have := this.2 k hk; omega⟩
      guardsOK := fun g hg => by
        simp only [decr_guards, decr_bds_length, decr_resDone] at hg ⊢
        rw [hpe.2] at hg
        rcases List.mem_append.mp hg with hg | hg
        · have := h.guardsOK g hg; rw [hf.2.1]; exact ⟨this.1, by omega, this.2.2⟩
        · have := hb.guardsCtx g hg
          rw [hf.2.1]
          refine ⟨?_, ?_, this.1⟩
          · rcases this.2 with h' | h'
            · exact (hctx1 g.2 h'.symm).1
            · have := h.bdsLen; omega
          · rcases this.2 with h' | h'
            · exact (hctx1 g.2 h'.symm).2
            · have := h.bdsLen; omega
      counts := fun j => by
        have e1 := hc.1 j
        have e0 := h.counts j
        simp only [List.countP_cons] at e0
        simp only [decr_guards, List.countP_append]
        rw [hpe.2, List.countP_append]
        cases hctx : p.ctx with
        | none => simp only [decr_bds_none]; simp [hctx] at e0; omega
        | some k =>
          rw [cntL_decr _ _ _ (hctx1 k hctx)]
          simp only [hctx, Option.some.injEq, decide_eq_true_eq] at e0
          split at e0 <;> split <;> omega
      loose := by
        have e1 := hc.2
        have e0 := h.loose
        simp only [List.countP_cons] at e0
        simp only [List.countP_append]
        cases hctx : p.ctx with
        | none => simp only [decr_loose_none]; simp [hctx] at e0; omega
        | some k => simp only [decr_loose_some]; simp [hctx] at e0; omega
      parents := parents_ext ((hb.bdsExt hp0.2 h.bdsLen).trans (BdsExt.decr _ _)) h.parents
      holeCtx := fun hh κ hm => by
        rcases fillList_items _ _ _ _ _ hm with ⟨h1, h2⟩ | ⟨κ', h1, h2⟩
        · obtain ⟨q, hq, e1, e2⟩ := h.holeCtx hh κ h1
          rcases List.mem_cons.mp hq with rfl | hq
          · exact absurd (by rw [e1]) h2
          · exact ⟨q, List.mem_append_right _ hq, e1, e2⟩
        · obtain ⟨q, hq, e1, e2⟩ := h.holeCtx _ κ' h1
          have := huniq q hq e1
          rw [← e2, this] at h2
          obtain ⟨q', hq', e⟩ := hb.holeItems hh κ h2
          exact ⟨q', List.mem_append_left _ hq', e⟩
      resOK := fun r k hm => by
        simp only [decr_resDone, decr_guards]
        rw [hf.2.1, hpe.2]
        rcases fillList_items _ _ _ _ _ hm with ⟨h1, h2⟩ | ⟨κ', h1, h2⟩
        · rcases h.resOK r k h1 with h' | h'
          · exact Or.inl h'
          · exact Or.inr (List.mem_append_left _ h')
        · obtain ⟨q, hq, e1, e2⟩ := h.holeCtx _ κ' h1
          have := huniq q hq e1
          rw [← e2, this] at h2
          rcases hb.resItems r k h2 with h' | h'
          · exact Or.inl h'
          · exact Or.inr (List.mem_append_right _ h')
      first := by
        simp only [decr_regs, decr_nextSusp]
        exact hb.first hp0.1 h.regsLen h.first
      waitOK := fun k hk => by
        simp only [decr_waiting, decr_nextSusp] at hk ⊢
        rcases hb.waitingOK k hk with h' | h'
        · have := h.waitOK k h'; have := hf.2.2.2.1; omega
        · have := h.bdsLen; omega }

/-! ## the transitions, cut into atomic pieces -/

def mineOf (w : World) : List Pend := w.st.pend.filter fun p => w.st.doneTasks.contains p.task
def restW (w : World) : World :=
  { w with st := { w.st with pend := w.st.pend.filter fun p => !w.st.doneTasks.contains p.task } }
def fillW (p : Pend) (w : World) : World :=
  { w with st := decr (buildList p.reg p.ctx p.body w.st).2 p.ctx,
           tree := fillList p.hole (buildList p.reg p.ctx p.body w.st).1 w.tree }
def markDone (w : World) (t : Nat) : World :=
  { w with st := { w.st with doneTasks := w.st.doneTasks ++ [t] } }
def sendOne (w : World) (k : Nat) : World :=
  { w with st := { w.st with bds := w.st.bds.modify (k - 1) fun b => { b with sent := true }, waiting := [] },
           polled := w.polled.filter (· != k) ++ w.st.waiting,
           closed := (w.polled.filter (· != k) ++ w.st.waiting).isEmpty }
/-- the boundaries that could be sent now -/
def readyList (w : World) : List Nat :=
  w.polled.filter fun k =>
    match w.st.bds[k - 1]? with
    | some b => !b.sent && !loading w.st (w.st.bds.length + 1) k &&
        (match b.parent with | some p => (w.st.bds[p - 1]?.map (·.sent)).getD false | none => true)
    | none => false

theorem completeFrom_cons (p : Pend) (ps : List Pend) (w : World) :
    completeFrom (p :: ps) w = completeFrom ps (fillW p w) := rfl
theorem settle_succ (fuel : Nat) (w : World) :
    settle (fuel + 1) w = if (mineOf w).isEmpty then w else settle fuel (completeFrom (mineOf w) (restW w)) := rfl
theorem complete_eq (w : World) (t : Nat) :
    complete w t = settle (settleFuel (markDone w t)) (markDone w t) := rfl
theorem sendReady_succ (fuel : Nat) (w : World) (out : List String) :
    sendReady (fuel + 1) w out =
      if w.closed then (w, out) else
      match readyList w with
      | [] => (w, out)
      | k :: _ => sendReady fuel (sendOne w k) (out ++ [fragmentOf w k]) := rfl

/-- one atomic transition; the list is the bodies taken out of `pend` whose holes are still open -/
inductive Micro : List Pend → World → List Pend → World → Prop
  | done (w t) : Micro [] w [] (markDone w t)
  | part (w) : Micro [] w (mineOf w) (restW w)
  | fill (p ps w) : Micro (p :: ps) w ps (fillW p w)
  | deliver (w r) : Micro [] w [] (deliver w r)
  | send (w k) : Micro [] w [] (sendOne w k)

inductive Micros : List Pend → World → List Pend → World → Prop
  | refl (ps w) : Micros ps w ps w
  | tail {ps w ps1 w1 ps2 w2} : Micros ps w ps1 w1 → Micro ps1 w1 ps2 w2 → Micros ps w ps2 w2

theorem Micros.trans {ps w ps1 w1 ps2 w2} (a : Micros ps w ps1 w1) (b : Micros ps1 w1 ps2 w2) :
    Micros ps w ps2 w2 := by
  induction b with
  | refl => exact a
  | tail _ m ih => exact ih.tail m

theorem Micros.single {ps w ps1 w1} (m : Micro ps w ps1 w1) : Micros ps w ps1 w1 := (Micros.refl _ _).tail m

theorem completeFrom_micros : ∀ (ps : List Pend) (w : World), Micros ps w [] (completeFrom ps w)
  | [], w => Micros.refl _ _
  | p :: ps, w => (Micros.single (Micro.fill p ps w)).trans (completeFrom_micros ps (fillW p w))

theorem settle_micros : ∀ (fuel : Nat) (w : World), Micros [] w [] (settle fuel w)
  | 0, w => Micros.refl _ _
  | fuel + 1, w => by
    rw [settle_succ]
    split
    · exact Micros.refl _ _
    · exact ((Micros.single (Micro.part w)).trans (completeFrom_micros _ _)).trans (settle_micros fuel _)

theorem step_micros (w : World) (e : Ev) : Micros [] w [] (step w e) := by
  cases e with
  | c t => exact (Micros.single (Micro.done w t)).trans (settle_micros _ _)
  | r n => exact Micros.single (Micro.deliver w n)

theorem sendReady_micros : ∀ (fuel : Nat) (w : World) (out : List String),
    Micros [] w [] (sendReady fuel w out).1
  | 0, w, out => Micros.refl _ _
  | fuel + 1, w, out => by
    rw [sendReady_succ]
    split
    · exact Micros.refl _ _
    · split
      · exact Micros.refl _ _
      · exact (Micros.single (Micro.send w _)).trans (sendReady_micros fuel _ _)

/-! ## the invariant along the transitions -/

theorem Inv.of_eq {P st st' tree} (h : Inv P st tree)
    (e : st'.mode = st.mode ∧ st'.nextSusp = st.nextSusp ∧ st'.regs = st.regs ∧ st'.nextHole = st.nextHole ∧
      st'.bds = st.bds ∧ st'.resDone = st.resDone ∧ st'.guards = st.guards ∧ st'.loose = st.loose ∧
      ∀ k ∈ st'.waiting, k ∈ st.waiting) : Inv P st' tree := by
  cases st; cases st'
  simp only at e
  obtain ⟨rfl, rfl, rfl, rfl, rfl, rfl, rfl, rfl, hw⟩ := e
  exact ⟨h.regsLen, h.bdsLen, h.sync, h.keys, h.susps, h.holesC, h.holesLt, h.holes1, h.pendOK, h.guardsOK,
    h.counts, h.loose, h.parents, h.holeCtx, h.resOK, h.first, fun k hk => h.waitOK k (hw k hk)⟩

theorem cntL_modify_same (l : List Bd) (i j : Nat) (f : Bd → Bd) (hf : ∀ b, (f b).count = b.count) :
    cntL (l.modify i f) j = cntL l j := by
  simp only [cntL, List.getElem?_modify]
  cases l[j]? with
  | none => rfl
  | some b => by_cases hi : i = j <;> simp [hi, hf]

/-- changing only `sent` flags and the waiting list -/
theorem Inv.setSent {P st tree} (h : Inv P st tree) (i : Nat) (wt : List Nat)
    (hw : ∀ k ∈ wt, 1 ≤ k ∧ k < st.nextSusp) :
    Inv P { st with bds := st.bds.modify i fun b => { b with sent := true }, waiting := wt } tree :=
  { regsLen := h.regsLen
    bdsLen := by simpa using h.bdsLen
    sync := h.sync
    keys := h.keys
    susps := h.susps
    holesC := h.holesC
    holesLt := h.holesLt
    holes1 := h.holes1
    pendOK := fun p hp => by simpa using h.pendOK p hp
    guardsOK := fun g hg => by simpa using h.guardsOK g hg
    counts := fun j => by
      show cntL (st.bds.modify i fun b => { b with sent := true }) j = _
      rw [cntL_modify_same _ _ _ (fun b => { b with sent := true }) (fun _ => rfl)]; exact h.counts j
    loose := h.loose
    parents := fun j b hb p hp => by
      have hb' : (st.bds.modify i fun b => { b with sent := true })[j]? = some b := hb
      rw [List.getElem?_modify] at hb'
      cases hj : st.bds[j]? with
      | none => rw [hj] at hb'; cases hb'
      | some b0 =>
        rw [hj] at hb'
        simp only [Option.map_eq_map, Option.map_some, Option.some.injEq] at hb'
        refine h.parents j b0 hj p ?_
        rw [← hp, ← hb']; split <;> rfl
    holeCtx := h.holeCtx
    resOK := h.resOK
    first := h.first
    waitOK := hw }

def deliverSt (st : St) (r : Nat) : St :=
  (st.guards.filter (·.1 = r)).foldl (fun st g => decr st (some g.2))
    { st with resDone := st.resDone ++ [r], guards := st.guards.filter (·.1 != r) }

theorem deliver_eq (w : World) (r : Nat) :
    deliver w r = if w.st.resDone.contains r then w else { w with st := deliverSt w.st r } := rfl

theorem foldl_decr (gs : List (Nat × Nat)) : ∀ st : St, (∀ g ∈ gs, 1 ≤ g.2 ∧ g.2 ≤ st.bds.length) →
    gs.foldl (fun st g => decr st (some g.2)) st =
      { st with bds := (gs.foldl (fun st g => decr st (some g.2)) st).bds } ∧
    (∀ j, cntL (gs.foldl (fun st g => decr st (some g.2)) st).bds j =
      cntL st.bds j - gs.countP (·.2 = j + 1)) ∧
    BdsExt st.bds (gs.foldl (fun st g => decr st (some g.2)) st).bds ∧
    (gs.foldl (fun st g => decr st (some g.2)) st).bds.length = st.bds.length := by
  induction gs with
  | nil => intro st _; exact ⟨rfl, fun j => by simp, BdsExt.refl _, rfl⟩
  | cons g gs ih =>
    intro st hv
    have hg := hv g (List.mem_cons_self ..)
    have := ih (decr st (some g.2)) (fun g' hg' => by
      simpa using hv g' (List.mem_cons_of_mem _ hg'))
    simp only [List.foldl_cons]
    refine ⟨?_, fun j => ?_, (BdsExt.decr st (some g.2)).trans this.2.2.1, by rw [this.2.2.2]; simp⟩
    · rw [this.1]; rfl
    · rw [this.2.1 j, cntL_decr _ _ _ hg, List.countP_cons]
      simp only [decide_eq_true_eq]; split <;> omega

theorem countP_filter_split {α} (q a : α → Bool) (l : List α) :
    l.countP q = (l.filter a).countP q + (l.filter fun x => !a x).countP q := by
  rw [← List.countP_append]; exact ((List.filter_append_perm a l).countP_eq q).symm

theorem Inv.deliver {P st tree} (h : Inv P st tree) (r : Nat) (hr : r ∉ st.resDone) :
    Inv P (deliverSt st r) tree ∧ BdsExt st.bds (deliverSt st r).bds ∧
      (deliverSt st r).nextSusp = st.nextSusp ∧ (deliverSt st r).pend = st.pend ∧
      (deliverSt st r).resDone = st.resDone ++ [r] ∧ (deliverSt st r).guards = st.guards.filter (·.1 != r) ∧
      (deliverSt st r).doneTasks = st.doneTasks ∧ (deliverSt st r).waiting = st.waiting := by
  have hv : ∀ g ∈ st.guards.filter (·.1 = r), 1 ≤ g.2 ∧ g.2 ≤
      ({ st with resDone := st.resDone ++ [r], guards := st.guards.filter (·.1 != r) } : St).bds.length :=
    fun g hg => by have := h.guardsOK g (List.mem_filter.mp hg).1; exact ⟨this.1, this.2.1⟩
  have hfd := foldl_decr _ _ hv
  have hst : deliverSt st r =
      { st with
        resDone := st.resDone ++ [r], guards := st.guards.filter (·.1 != r), bds := (deliverSt st r).bds } := by
    rw [deliverSt]; exact hfd.1
  refine ⟨?_, hfd.2.2.1, by rw [hst], by rw [hst], by rw [hst], by rw [hst], by rw [hst], by rw [hst]⟩
  have hlen : (deliverSt st r).bds.length = st.bds.length := hfd.2.2.2
  rw [hst]
  exact
    { regsLen := h.regsLen
      bdsLen := by simp only [hlen]; exact h.bdsLen
      sync := h.sync
      keys := h.keys
      susps := h.susps
      holesC := h.holesC
      holesLt := h.holesLt
      holes1 := h.holes1
      pendOK := fun p hp => by simp only [hlen]; exact h.pendOK p hp
      guardsOK := fun g hg => by
        simp only [hlen]
        have hm := List.mem_filter.mp hg
        have := h.guardsOK g hm.1
        refine ⟨this.1, this.2.1, ?_⟩
        simp only [List.mem_append, List.mem_singleton, not_or]
        exact ⟨this.2.2, by simpa using hm.2⟩
      counts := fun j => by
        show cntL (deliverSt st r).bds j =
          P.countP (·.ctx = some (j + 1)) + (st.guards.filter (·.1 != r)).countP (·.2 = j + 1)
        have e : cntL (deliverSt st r).bds j =
            cntL st.bds j - (st.guards.filter (·.1 = r)).countP (·.2 = j + 1) := hfd.2.1 j
        have e2 := countP_filter_split (fun g : Nat × Nat => decide (g.2 = j + 1))
          (fun g => decide (g.1 = r)) st.guards
        have : (st.guards.filter fun x => !decide (x.1 = r)) = st.guards.filter (·.1 != r) := by
          congr 1
        rw [this] at e2
        rw [e, h.counts j, e2]; omega
      loose := h.loose
      parents := parents_ext hfd.2.2.1 h.parents
      holeCtx := h.holeCtx
      resOK := fun r' k hm => by
        show r' ∈ st.resDone ++ [r] ∨ (r', k) ∈ st.guards.filter (·.1 != r)
        rcases h.resOK r' k hm with h' | h'
        · exact Or.inl (List.mem_append_left _ h')
        · by_cases e : r' = r
          · exact Or.inl (by simp [e])
          · exact Or.inr (List.mem_filter.mpr ⟨h', by simpa using e⟩)
      first := h.first
      waitOK := h.waitOK }

/-- the invariant of a world in the middle of a transition: `ps` are the bodies taken out of `pend` whose
holes are still open -/
structure WInv (ps : List Pend) (w : World) : Prop where
  inv : Inv (w.st.pend ++ ps) w.st w.tree
  pollOK : ∀ k ∈ w.polled, 1 ≤ k ∧ k < w.st.nextSusp

theorem fillW_built (p : Pend) (w : World) :
    Built p.reg p.ctx w.st (buildList p.reg p.ctx p.body w.st).1 (buildList p.reg p.ctx p.body w.st).2
      (sizeAVs p.body) := buildList_built _ _ _ _

theorem mine_rest_perm (w : World) : ((restW w).st.pend ++ mineOf w).Perm w.st.pend :=
  List.perm_append_comm.trans (List.filter_append_perm _ _)

theorem WInv.fill {p ps w} (h : WInv (p :: ps) w) : WInv ps (fillW p w) := by
  have hb := fillW_built p w
  have h1 := h.inv.fillStep (Q := w.st.pend ++ ps) List.perm_middle hb
  refine ⟨h1.perm ?_, fun k hk => ?_⟩
  · show (newPend w.st _ ++ (w.st.pend ++ ps)).Perm ((decr _ p.ctx).pend ++ ps)
    rw [decr_pend, hb.pend_eq.1, ← List.append_assoc]
    exact List.perm_append_comm.append_right ps
  · have := h.pollOK k hk
    have hf := hb.frame.2.2.2.1
    show 1 ≤ k ∧ k < (decr _ p.ctx).nextSusp
    rw [decr_nextSusp]; omega

theorem Micro.inv {ps w ps' w'} (m : Micro ps w ps' w') (h : WInv ps w) : WInv ps' w' := by
  cases m with
  | done w t => exact ⟨h.inv.of_eq ⟨rfl, rfl, rfl, rfl, rfl, rfl, rfl, rfl, fun _ h => h⟩, h.pollOK⟩
  | part w =>
    refine ⟨?_, h.pollOK⟩
    have h0 : Inv w.st.pend w.st w.tree := by simpa using h.inv
    exact (h0.perm (mine_rest_perm w).symm).of_eq ⟨rfl, rfl, rfl, rfl, rfl, rfl, rfl, rfl, fun _ h => h⟩
  | fill p ps w => exact h.fill
  | deliver w r =>
    rw [deliver_eq]
    split
    · exact h
    · rename_i hr
      have hr' : r ∉ w.st.resDone := by simpa using hr
      have := h.inv.deliver r hr'
      refine ⟨?_, fun k hk => ?_⟩
      · show Inv ((deliverSt w.st r).pend ++ []) _ _
        rw [this.2.2.2.1]; exact this.1
      · show 1 ≤ k ∧ k < (deliverSt w.st r).nextSusp
        rw [this.2.2.1]; exact h.pollOK k hk
  | send w k =>
    refine ⟨h.inv.setSent _ _ (by simp), fun k' hk' => ?_⟩
    have hk'' : k' ∈ w.polled.filter (· != k) ++ w.st.waiting := hk'
    rcases List.mem_append.mp hk'' with h1 | h1
    · exact h.pollOK k' (List.mem_filter.mp h1).1
    · exact h.inv.waitOK k' h1

theorem Micros.inv {ps w ps' w'} (m : Micros ps w ps' w') (h : WInv ps w) : WInv ps' w' := by
  induction m with
  | refl => exact h
  | tail _ m ih => exact m.inv ih

/-- a property of (open bodies, world) kept by every atomic transition between good worlds is kept by
every sequence of them -/
theorem Micros.keep {S : List Pend → World → Prop}
    (hS : ∀ {ps w ps' w'}, Micro ps w ps' w' → WInv ps w → S ps w → S ps' w')
    {ps w ps' w'} (m : Micros ps w ps' w') (h : WInv ps w) (hs : S ps w) : S ps' w' := by
  induction m with
  | refl => exact hs
  | tail m1 m ih => exact hS m (m1.inv h) ih

/-! ## reachable worlds -/

theorem start_eq (m : Mode) (vs : AVs) :
    World.start m vs =
      { st := { (buildList 0 none vs (St.init m)).2 with waiting := [] },
        tree := (buildList 0 none vs (St.init m)).1,
        polled := (buildList 0 none vs (St.init m)).2.waiting,
        closed := (buildList 0 none vs (St.init m)).2.waiting.isEmpty } := rfl

theorem WInv.start (m : Mode) (vs : AVs) : WInv [] (World.start m vs) := by
  have hb := buildList_built vs 0 none (St.init m)
  have h := Inv.start hb
  rw [start_eq]
  refine ⟨?_, fun k hk => h.waitOK k hk⟩
  simp only [List.append_nil]
  exact h.of_eq ⟨rfl, rfl, rfl, rfl, rfl, rfl, rfl, rfl, by simp⟩

/-- feed the events one at a time -/
def run (w : World) (es : List Ev) : World := es.foldl step w

/-- one event of a streaming run, as in the driver: the event, then everything that can be sent -/
def streamStep (w : World) (e : Ev) : World × List String :=
  let w := step w e
  sendReady (w.st.bds.length + 1) w []

/-- blocking (or sync) runs: the first build followed by events -/
inductive ReachB (m : Mode) (vs : AVs) : World → Prop
  | start : ReachB m vs (World.start m vs)
  | step {w} (e : Ev) : ReachB m vs w → ReachB m vs (step w e)

/-- streaming runs, as the driver produces them -/
inductive ReachS (vs : AVs) : World → Prop
  | start : ReachS vs (sendReady ((World.start .stream vs).st.bds.length + 1) (World.start .stream vs) []).1
  | step {w} (e : Ev) : ReachS vs w → ReachS vs (streamStep w e).1

/-- any interleaving of events and sending (any fuel) -/
inductive Reach (m : Mode) (vs : AVs) : World → Prop
  | start : Reach m vs (World.start m vs)
  | step {w} (e : Ev) : Reach m vs w → Reach m vs (step w e)
  | send {w} (fuel : Nat) (out : List String) : Reach m vs w → Reach m vs (sendReady fuel w out).1

theorem ReachB.reach {m vs w} (h : ReachB m vs w) : Reach m vs w := by
  induction h with
  | start => exact .start
  | step e _ ih => exact .step e ih

theorem ReachS.reach {vs w} (h : ReachS vs w) : Reach .stream vs w := by
  induction h with
  | start => exact .send _ _ .start
  | step e _ ih => exact .send _ _ (.step e ih)

theorem ReachB.run {m vs} (es : List Ev) : ReachB m vs (run (World.start m vs) es) := by
  suffices ∀ w, ReachB m vs w → ReachB m vs (Assr.run w es) from this _ .start
  induction es with
  | nil => intro w h; exact h
  | cons e es ih => intro w h; exact ih _ (.step e h)

theorem Reach.micros {m vs w} (h : Reach m vs w) : Micros [] (World.start m vs) [] w := by
  induction h with
  | start => exact Micros.refl _ _
  | step e _ ih => exact ih.trans (step_micros _ e)
  | send fuel out _ ih => exact ih.trans (sendReady_micros fuel _ out)

theorem Reach.winv {m vs w} (h : Reach m vs w) : WInv [] w := h.micros.inv (WInv.start m vs)

theorem Reach.inv {m vs w} (h : Reach m vs w) : Inv w.st.pend w.st w.tree := by
  simpa using h.winv.inv

/-- the mode never changes -/
theorem Micro.mode {ps w ps' w'} (m : Micro ps w ps' w') : w'.st.mode = w.st.mode := by
  cases m with
  | done w t => rfl
  | part w => rfl
  | fill p ps w => show (decr _ p.ctx).mode = _; rw [decr_mode]; exact (fillW_built p w).frame.1
  | deliver w r =>
    rw [deliver_eq]; split
    · rfl
    · rename_i hr
      show (deliverSt w.st r).mode = _
      rw [deliverSt]
      generalize (w.st.guards.filter (·.1 = r)) = gs
      suffices ∀ st : St, (gs.foldl (fun st g => decr st (some g.2)) st).mode = st.mode from this _
      induction gs with
      | nil => intro st; rfl
      | cons g gs ih => intro st; rw [List.foldl_cons, ih]; rfl
  | send w k => rfl

theorem Reach.mode {m vs w} (h : Reach m vs w) : w.st.mode = m := by
  have : ∀ {ps w ps' w'}, Micros ps w ps' w' → w'.st.mode = w.st.mode := by
    intro ps w ps' w' ms
    induction ms with
    | refl => rfl
    | tail _ m ih => rw [m.mode, ih]
  rw [this h.micros, start_eq]
  exact (buildList_built vs 0 none (St.init m)).frame.1

/-! ## `settle` has enough fuel -/

theorem pendMeasure_filter (a : Pend → Bool) : ∀ l : List Pend,
    pendMeasure (l.filter a) + pendMeasure (l.filter fun x => !a x) = pendMeasure l
  | [] => rfl
  | p :: l => by
    have ih := pendMeasure_filter a l
    by_cases h : a p = true
    · simp only [List.filter_cons, h, if_true, Bool.not_true, Bool.false_eq_true, if_false]
      simp only [pendMeasure, List.map_cons, List.sum_cons] at ih ⊢; omega
    · have h' : a p = false := by simpa using h
      simp only [List.filter_cons, h', Bool.false_eq_true, if_false, Bool.not_false, if_true]
      simp only [pendMeasure, List.map_cons, List.sum_cons] at ih ⊢; omega

theorem fillW_pend (p : Pend) (w : World) :
    (fillW p w).st.pend = w.st.pend ++ newPend w.st (buildList p.reg p.ctx p.body w.st).2 := by
  show (decr _ p.ctx).pend = _
  rw [decr_pend]; exact (fillW_built p w).pend_eq.1

theorem fillW_doneTasks (p : Pend) (w : World) : (fillW p w).st.doneTasks = w.st.doneTasks := by
  show (decr _ p.ctx).doneTasks = _
  rw [decr_doneTasks]; exact (fillW_built p w).frame.2.2.1

theorem completeFrom_measure : ∀ (ps : List Pend) (w : World),
    pendMeasure (completeFrom ps w).st.pend + ps.length ≤ pendMeasure w.st.pend + pendMeasure ps ∧
    (completeFrom ps w).st.doneTasks = w.st.doneTasks
  | [], w => ⟨by simp [completeFrom, pendMeasure], rfl⟩
  | p :: ps, w => by
    have ih := completeFrom_measure ps (fillW p w)
    have hm := (fillW_built p w).measure
    rw [completeFrom_cons]
    refine ⟨?_, by rw [ih.2, fillW_doneTasks]⟩
    have := ih.1
    rw [fillW_pend, pendMeasure_append] at this
    simp only [pendMeasure, List.map_cons, List.sum_cons, List.length_cons] at this hm ⊢
    omega

theorem settle_doneTasks : ∀ (fuel : Nat) (w : World), (settle fuel w).st.doneTasks = w.st.doneTasks
  | 0, w => rfl
  | fuel + 1, w => by
    rw [settle_succ]; split
    · rfl
    · rw [settle_doneTasks fuel, (completeFrom_measure _ _).2]; rfl

/-- with fuel above the measure, `settle` stops only when no pending body has a completed task -/
theorem settle_complete : ∀ (fuel : Nat) (w : World), pendMeasure w.st.pend < fuel →
    ∀ p ∈ (settle fuel w).st.pend, p.task ∉ (settle fuel w).st.doneTasks
  | 0, w, h => by omega
  | fuel + 1, w, h => by
    rw [settle_succ]; split
    · rename_i he
      intro p hp hd
      have : p ∈ mineOf w := List.mem_filter.mpr ⟨hp, by simpa using hd⟩
      rw [List.isEmpty_iff.mp he] at this; cases this
    · rename_i he
      apply settle_complete fuel
      have h1 := (completeFrom_measure (mineOf w) (restW w)).1
      have h2 := pendMeasure_filter (fun p => w.st.doneTasks.contains p.task) w.st.pend
      have h3 : 0 < (mineOf w).length := by
        cases hm : mineOf w with
        | nil => simp [hm] at he
        | cons _ _ => simp
      have e1 : pendMeasure (restW w).st.pend =
          pendMeasure (w.st.pend.filter fun x => !w.st.doneTasks.contains x.task) := rfl
      have e2 : pendMeasure (mineOf w) =
          pendMeasure (w.st.pend.filter fun p => w.st.doneTasks.contains p.task) := rfl
      omega

theorem complete_no_done_pending (w : World) (t : Nat) :
    ∀ p ∈ (complete w t).st.pend, p.task ∉ (complete w t).st.doneTasks := by
  rw [complete_eq]
  apply settle_complete
  show pendMeasure _ < pendMeasure _ + 1
  omega

/-! ## streaming: what `sendReady` emits -/

/-- `sendReady`, returning the keys of the emitted boundaries instead of the fragments -/
def sendReadyK : Nat → World → List Nat → World × List Nat
  | 0, w, ks => (w, ks)
  | fuel + 1, w, ks =>
    if w.closed then (w, ks) else
    match readyList w with
    | [] => (w, ks)
    | k :: _ => sendReadyK fuel (sendOne w k) (ks ++ [k])

/-- the emissions of `sendReady`: the world just before each emission and the boundary emitted -/
def sendTrace : Nat → World → List (World × Nat)
  | 0, _ => []
  | fuel + 1, w =>
    if w.closed then [] else
    match readyList w with
    | [] => []
    | k :: _ => (w, k) :: sendTrace fuel (sendOne w k)

theorem sendReady_trace : ∀ (fuel : Nat) (w : World) (out : List String),
    sendReady fuel w out =
      ((sendReady fuel w []).1, out ++ (sendTrace fuel w).map fun x => fragmentOf x.1 x.2)
  | 0, w, out => by simp [sendReady, sendTrace]
  | fuel + 1, w, out => by
    rw [sendReady_succ, sendReady_succ, sendTrace]
    split
    · simp
    · split
      · simp
      · rename_i k _ _
        rw [sendReady_trace fuel (sendOne w k) (out ++ [fragmentOf w k]),
          sendReady_trace fuel (sendOne w k) ([] ++ [fragmentOf w k])]
        simp

theorem sendReadyK_trace : ∀ (fuel : Nat) (w : World) (ks : List Nat),
    sendReadyK fuel w ks = ((sendReady fuel w []).1, ks ++ (sendTrace fuel w).map (·.2))
  | 0, w, ks => by simp [sendReady, sendReadyK, sendTrace]
  | fuel + 1, w, ks => by
    rw [sendReadyK, sendReady_succ, sendTrace]
    split
    · simp
    · split
      · simp
      · rename_i k _ _
        rw [sendReadyK_trace fuel (sendOne w k), sendReady_trace fuel (sendOne w k) ([] ++ [fragmentOf w k])]
        simp

/-- the `sent` flag of the boundary at index `j` -/
def sentI (w : World) (j : Nat) : Bool := (w.st.bds[j]?.map (·.sent)).getD false

theorem sentI_sendOne (w : World) (k j : Nat) :
    sentI (sendOne w k) j = if k - 1 = j ∧ j < w.st.bds.length then true else sentI w j := by
  show ((w.st.bds.modify (k - 1) fun b => { b with sent := true })[j]?.map (·.sent)).getD false = _
  rw [List.getElem?_modify, sentI]
  by_cases hj : j < w.st.bds.length
  · rw [List.getElem?_eq_getElem hj]
    by_cases hk : k - 1 = j <;> simp [hk, hj]
  · rw [List.getElem?_eq_none (by omega)]; simp [hj]

theorem mem_readyList {w : World} {k : Nat} (h : k ∈ readyList w) :
    k ∈ w.polled ∧ ∃ b, w.st.bds[k - 1]? = some b ∧ b.sent = false ∧
      loading w.st (w.st.bds.length + 1) k = false ∧
      ∀ p, b.parent = some p → sentI w (p - 1) = true := by
  rw [readyList, List.mem_filter] at h
  refine ⟨h.1, ?_⟩
  have h2 := h.2
  cases hb : w.st.bds[k - 1]? with
  | none => rw [hb] at h2; cases h2
  | some b =>
    rw [hb] at h2
    simp only [Bool.and_eq_true, Bool.not_eq_eq_eq_not, Bool.not_true] at h2
    refine ⟨b, rfl, h2.1.1, h2.1.2, fun p hp => ?_⟩
    have := h2.2; rw [hp] at this; exact this

/-- what one call of `sendReady` emits -/
theorem sendTrace_spec : ∀ (fuel : Nat) (w : World),
    ((sendTrace fuel w).map (·.2)).Nodup ∧
    (∀ k ∈ (sendTrace fuel w).map (·.2), sentI w (k - 1) = false ∧ sentI (sendReady fuel w []).1 (k - 1) = true) ∧
    (∀ j, sentI w j = true → sentI (sendReady fuel w []).1 j = true) ∧
    (∀ j, sentI (sendReady fuel w []).1 j = true →
      sentI w j = true ∨ ∃ k ∈ (sendTrace fuel w).map (·.2), k - 1 = j)
  | 0, w => by simp [sendTrace, sendReady]
  | fuel + 1, w => by
    rw [sendTrace, sendReady_succ]
    split
    · simp
    · split
      · simp
      · rename_i k rest hk
        have hmem : k ∈ readyList w := by rw [hk]; exact List.mem_cons_self ..
        obtain ⟨_, b, hb, hsent, _, _⟩ := mem_readyList hmem
        have hlt : k - 1 < w.st.bds.length := (List.getElem?_eq_some_iff.mp hb).1
        have hs0 : sentI w (k - 1) = false := by rw [sentI, hb]; simpa using hsent
        have hs1 : sentI (sendOne w k) (k - 1) = true := by rw [sentI_sendOne]; simp [hlt]
        have ih := sendTrace_spec fuel (sendOne w k)
        rw [sendReady_trace fuel (sendOne w k) ([] ++ [fragmentOf w k])]
        simp only [List.map_cons, List.nodup_cons, List.mem_cons, forall_eq_or_imp]
        refine ⟨⟨fun hin => ?_, ih.1⟩, ⟨⟨hs0, ih.2.2.1 _ hs1⟩, fun k' hk' => ?_⟩, fun j hj => ?_, fun j hj => ?_⟩
        · have := (ih.2.1 k hin).1; rw [hs1] at this; cases this
        · have := ih.2.1 k' hk'
          refine ⟨?_, this.2⟩
          have h1 := this.1
          rw [sentI_sendOne] at h1
          split at h1
          · cases h1
          · exact h1
        · apply ih.2.2.1
          rw [sentI_sendOne]; split <;> simp [hj]
        · rcases ih.2.2.2 j hj with h1 | ⟨k', hk', e⟩
          · rw [sentI_sendOne] at h1
            split at h1
            · rename_i hc; exact Or.inr ⟨k, Or.inl rfl, hc.1⟩
            · exact Or.inl h1
          · exact Or.inr ⟨k', Or.inr hk', e⟩

/-- the boundaries' static part along an event -/
theorem completeFrom_bdsExt : ∀ (ps : List Pend) (w : World), WInv ps w →
    BdsExt w.st.bds (completeFrom ps w).st.bds
  | [], w, _ => BdsExt.refl _
  | p :: ps, w, h => by
    rw [completeFrom_cons]
    have hp := h.inv.pendOK p (by simp)
    have := (fillW_built p w).bdsExt hp.2 h.inv.bdsLen
    exact (this.trans (BdsExt.decr _ _)).trans (completeFrom_bdsExt ps (fillW p w) h.fill)

theorem settle_bdsExt : ∀ (fuel : Nat) (w : World), WInv [] w → BdsExt w.st.bds (settle fuel w).st.bds
  | 0, w, _ => BdsExt.refl _
  | fuel + 1, w, h => by
    rw [settle_succ]; split
    · exact BdsExt.refl _
    · have h1 : WInv (mineOf w) (restW w) := (Micro.part w).inv h
      have h2 : WInv [] (completeFrom (mineOf w) (restW w)) := (completeFrom_micros _ _).inv h1
      exact (completeFrom_bdsExt _ _ h1).trans (settle_bdsExt fuel _ h2)

theorem step_bdsExt {w : World} (h : WInv [] w) (e : Ev) : BdsExt w.st.bds (step w e).st.bds := by
  cases e with
  | c t => exact settle_bdsExt _ _ ((Micro.done w t).inv h)
  | r n =>
    show BdsExt _ (deliver w n).st.bds
    rw [deliver_eq]; split
    · exact BdsExt.refl _
    · rename_i hr
      have h0 : Inv w.st.pend w.st w.tree := by simpa using h.inv
      exact (h0.deliver n (by simpa using hr)).2.1

theorem sentI_ext {w w' : World} (h : BdsExt w.st.bds w'.st.bds) (j : Nat) (hj : j < w.st.bds.length) :
    sentI w' j = sentI w j := by
  obtain ⟨b', hb', hs, _⟩ := h.old j _ (List.getElem?_eq_getElem hj)
  rw [sentI, sentI, hb', List.getElem?_eq_getElem hj]; simp [hs]

theorem sentI_of_ge {w : World} {j : Nat} (hj : w.st.bds.length ≤ j) : sentI w j = false := by
  rw [sentI, List.getElem?_eq_none hj]; rfl

/-- a new boundary is unsent -/
theorem sentI_new {w w' : World} (h : BdsExt w.st.bds w'.st.bds) (j : Nat) (hj : w.st.bds.length ≤ j) :
    sentI w' j = false := by
  rw [sentI]
  cases hb : w'.st.bds[j]? with
  | none => rfl
  | some b => simpa using (h.new j b hb hj).1

theorem sendTrace_mem_ready : ∀ (fuel : Nat) (w : World) (x : World × Nat),
    x ∈ sendTrace fuel w → x.2 ∈ readyList x.1 ∧ Micros [] w [] x.1
  | 0, w, x, h => by simp [sendTrace] at h
  | fuel + 1, w, x, h => by
    rw [sendTrace] at h
    split at h
    · cases h
    · split at h
      · cases h
      · rename_i k rest hk
        rcases List.mem_cons.mp h with rfl | h
        · exact ⟨by rw [hk]; exact List.mem_cons_self .., Micros.refl _ _⟩
        · have := sendTrace_mem_ready fuel _ x h
          exact ⟨this.1, (Micros.single (Micro.send w k)).trans this.2⟩

theorem sendTrace_keys_pos (fuel : Nat) (w : World) (hw : WInv [] w) :
    ∀ k ∈ (sendTrace fuel w).map (·.2), 1 ≤ k := by
  intro k hk
  obtain ⟨x, hx, rfl⟩ := List.mem_map.mp hk
  have := sendTrace_mem_ready fuel w x hx
  exact ((this.2.inv hw).pollOK _ (mem_readyList this.1).1).1

theorem start_unsent (m : Mode) (vs : AVs) (j : Nat) : sentI (World.start m vs) j = false := by
  have hb := buildList_built vs 0 none (St.init m)
  have hx := hb.bdsExt (by simp) (by simp [St.init])
  exact sentI_new (w := ⟨St.init m, .nil, [], false⟩) (w' := World.start m vs) hx j (by simp [St.init])

/-- a whole streaming run from `w` on: the final world and the keys emitted, in order -/
def streamRun (w : World) : List Ev → World × List Nat
  | [] => (w, [])
  | e :: es =>
    let r := sendReadyK ((step w e).st.bds.length + 1) (step w e) []
    ((streamRun r.1 es).1, r.2 ++ (streamRun r.1 es).2)

/-- the streaming run of the driver: the initial `sendReady`, then `streamStep`s -/
def streamAll (vs : AVs) (es : List Ev) : World × List Nat :=
  let r := sendReadyK ((World.start .stream vs).st.bds.length + 1) (World.start .stream vs) []
  ((streamRun r.1 es).1, r.2 ++ (streamRun r.1 es).2)

theorem streamStep_world (w : World) (e : Ev) :
    (streamStep w e).1 = (sendReadyK ((step w e).st.bds.length + 1) (step w e) []).1 := by
  rw [sendReadyK_trace, streamStep]

theorem streamRun_reachS {vs : AVs} : ∀ (es : List Ev) (w : World), ReachS vs w → ReachS vs (streamRun w es).1
  | [], w, h => h
  | e :: es, w, h => by
    rw [streamRun]
    apply streamRun_reachS es
    rw [← streamStep_world]
    exact .step e h

theorem streamAll_reachS (vs : AVs) (es : List Ev) : ReachS vs (streamAll vs es).1 := by
  rw [streamAll]
  apply streamRun_reachS
  rw [sendReadyK_trace]
  exact .start

/-- the keys emitted from `w` on are distinct, were unsent in `w`, and afterwards exactly the boundaries
sent in `w` or emitted since are sent -/
theorem streamRun_spec : ∀ (es : List Ev) (w : World), WInv [] w →
    (streamRun w es).2.Nodup ∧
    (∀ k ∈ (streamRun w es).2, sentI w (k - 1) = false) ∧
    (∀ j, sentI (streamRun w es).1 j = true → sentI w j = true ∨ ∃ k ∈ (streamRun w es).2, k - 1 = j) ∧
    (∀ k ∈ (streamRun w es).2, 1 ≤ k) ∧
    (∀ j, sentI w j = true → sentI (streamRun w es).1 j = true) ∧
    (∀ k ∈ (streamRun w es).2, sentI (streamRun w es).1 (k - 1) = true)
  | [], w, _ => by simp [streamRun]
  | e :: es, w, h => by
    have hx := step_bdsExt h e
    have h1 : WInv [] (step w e) := (step_micros w e).inv h
    have sp := sendTrace_spec ((step w e).st.bds.length + 1) (step w e)
    have h2 : WInv [] (sendReady ((step w e).st.bds.length + 1) (step w e) []).1 :=
      (sendReady_micros _ _ _).inv h1
    have ih := streamRun_spec es _ h2
    have hback : ∀ j, sentI (step w e) j = false → sentI w j = false := by
      intro j hj
      by_cases hlt : j < w.st.bds.length
      · rw [← sentI_ext hx j hlt]; exact hj
      · exact sentI_of_ge (by omega)
    rw [streamRun]
    simp only [sendReadyK_trace, List.nil_append]
    have hfwd : ∀ j, sentI w j = true → sentI (step w e) j = true := by
      intro j hj
      by_cases hlt : j < w.st.bds.length
      · rw [sentI_ext hx j hlt]; exact hj
      · rw [sentI_of_ge (by omega)] at hj; cases hj
    refine ⟨?_, fun k hk => ?_, fun j hj => ?_, fun k hk => ?_, fun j hj => ?_, fun k hk => ?_⟩
    rotate_left 3
    · rcases List.mem_append.mp hk with hk | hk
      · exact sendTrace_keys_pos _ _ h1 k hk
      · exact ih.2.2.2.1 k hk
    · exact ih.2.2.2.2.1 j (sp.2.2.1 j (hfwd j hj))
    · rcases List.mem_append.mp hk with hk | hk
      · exact ih.2.2.2.2.1 _ (sp.2.1 k hk).2
      · exact ih.2.2.2.2.2 k hk
    · rw [List.nodup_append]
      refine ⟨sp.1, ih.1, fun a ha b hb hab => ?_⟩
      subst hab
      have := (sp.2.1 a ha).2
      rw [ih.2.1 a hb] at this; cases this
    · rcases List.mem_append.mp hk with hk | hk
      · exact hback _ (sp.2.1 k hk).1
      · apply hback
        have := ih.2.1 k hk
        cases hs : sentI (step w e) (k - 1) with
        | false => rfl
        | true => rw [sp.2.2.1 _ hs] at this; cases this
    · rcases ih.2.2.1 j hj with h' | ⟨k, hk, e'⟩
      · rcases sp.2.2.2 j h' with h'' | ⟨k, hk, e'⟩
        · left
          by_cases hlt : j < w.st.bds.length
          · rw [← sentI_ext hx j hlt]; exact h''
          · rw [sentI_new hx j (by omega)] at h''; cases h''
        · exact Or.inr ⟨k, List.mem_append_left _ hk, e'⟩
      · exact Or.inr ⟨k, List.mem_append_right _ hk, e'⟩

theorem streamRun_world : ∀ (es : List Ev) (w : World),
    (streamRun w es).1 = es.foldl (fun w e => (streamStep w e).1) w
  | [], w => rfl
  | e :: es, w => by rw [streamRun, List.foldl_cons, streamStep_world]; exact streamRun_world es _

/-! ## the region of a boundary, rendered in shell form -/

/- the equations of `render` (the generated ones time out on the string literals) -/
theorem render_el (st : St) (how : How) (tag : Nat) (key : Key) (kids : RNs) :
    render st how (.el tag key kids) =
      s!"<{tagOf tag}{hk key}>" ++ renderList st how kids ++ s!"</{tagOf tag}>" := rfl
theorem render_text (st : St) (how : How) (n : Nat) : render st how (.text n) = s!"t{n}" := rfl
theorem render_fb (st : St) (how : How) : render st how .fb = "fb" := rfl
theorem render_marker (st : St) (how : How) : render st how .marker = "<!--/-->" := rfl
theorem render_resText (st : St) (how : How) (r : Nat) :
    render st how (.resText r) =
      "<!--t-->" ++ (if st.resDone.contains r then "r7" else "none") ++ "<!-->" := rfl
theorem render_hole (st : St) (how : How) (i : Nat) : render st how (.hole i) = "" := rfl
theorem render_group (st : St) (how : How) (kids : RNs) :
    render st how (.group kids) = renderList st how kids := rfl
theorem render_susp_final (st : St) (k : Nat) (a b : Key) (c : RNs) :
    render st .final (.susp k a b c) =
      s!"<suspense-start data-key=\"{k}\"{hk a}></suspense-start><no-ssr{hk b}></no-ssr><!--/-->"
        ++ renderList st .final c ++ "<!--/-->" := rfl
theorem render_susp_shell (st : St) (k : Nat) (a b : Key) (c : RNs) :
    render st .shell (.susp k a b c) =
      s!"<no-ssr{hk b}></no-ssr><suspense-start data-key=\"{k}\"{hk a}></suspense-start>fb<suspense-end data-key=\"{k}\"></suspense-end>" :=
  rfl
theorem renderList_nil (st : St) (how : How) : renderList st how .nil = "" := rfl
theorem renderList_cons (st : St) (how : How) (n : RN) (r : RNs) :
    renderList st how (.cons n r) = render st how n ++ renderList st how r := rfl

mutual
/-- filling a hole that is not in the region of `x` itself (only below nested boundaries, or nowhere) does
not change the shell rendering -/
theorem fill_render_shell (st : St) (h : Nat) (c : RNs) : ∀ (n : RN) (x : Option Nat),
    (Item.hole h, x) ∉ itemsN x n → render st .shell (fill h c n) = render st .shell n
  | .el tag key kids, x, hn => by
    have e := fillList_render_shell st h c kids x (by simpa only [itemsN] using hn)
    simp only [fill, render_el, e]
  | .hole i, x, hn => by
    by_cases hi : i = h
    · subst hi; simp [itemsN] at hn
    · simp only [fill, hi, if_false]
  | .group kids, x, hn => by
    simp only [fill, render_group]; exact fillList_render_shell st h c kids x (by simpa [itemsN] using hn)
  | .susp k a b content, x, hn => by simp only [fill, render_susp_shell]
  | .text _, x, hn => by simp only [fill]
  | .fb, x, hn => by simp only [fill]
  | .marker, x, hn => by simp only [fill]
  | .resText r, x, hn => by simp only [fill]
theorem fillList_render_shell (st : St) (h : Nat) (c : RNs) : ∀ (t : RNs) (x : Option Nat),
    (Item.hole h, x) ∉ items x t → renderList st .shell (fillList h c t) = renderList st .shell t
  | .nil, x, hn => rfl
  | .cons n rest, x, hn => by
    simp only [items, List.mem_append, not_or] at hn
    simp only [fillList, renderList_cons, fill_render_shell st h c n x hn.1,
      fillList_render_shell st h c rest x hn.2]
end

mutual
/-- the shell rendering of a region depends on the state only through the resources shown in it -/
theorem render_shell_congr (st st' : St) : ∀ (n : RN) (x : Option Nat),
    (∀ r, (Item.res r, x) ∈ itemsN x n → st.resDone.contains r = st'.resDone.contains r) →
    render st .shell n = render st' .shell n
  | .el tag key kids, x, hr => by
    have e := renderList_shell_congr st st' kids x (by simpa only [itemsN] using hr)
    simp only [render_el, e]
  | .hole i, x, hr => rfl
  | .group kids, x, hr => by
    simp only [render_group]; exact renderList_shell_congr st st' kids x (by simpa [itemsN] using hr)
  | .susp k a b content, x, hr => by simp only [render_susp_shell]
  | .text _, x, hr => rfl
  | .fb, x, hr => rfl
  | .marker, x, hr => rfl
  | .resText r, x, hr => by
    simp only [render_resText]; rw [hr r (by simp [itemsN])]
theorem renderList_shell_congr (st st' : St) : ∀ (t : RNs) (x : Option Nat),
    (∀ r, (Item.res r, x) ∈ items x t → st.resDone.contains r = st'.resDone.contains r) →
    renderList st .shell t = renderList st' .shell t
  | .nil, x, hr => rfl
  | .cons n rest, x, hr => by
    simp only [renderList_cons]
    rw [render_shell_congr st st' n x (fun r hm => hr r (by simp [items, hm])),
      renderList_shell_congr st st' rest x (fun r hm => hr r (by simp [items, hm]))]
end

mutual
/-- the items of the region of boundary `k` are items of the tree -/
theorem findSusp_items (k : Nat) : ∀ (n : RN) (x : Option Nat) (c : RNs), findSusp k n = some c →
    ∀ y ∈ items (some k) c, y ∈ itemsN x n
  | .el tag key kids, x, c, hf => by
    simpa only [itemsN] using findSuspList_items k kids x c (by simpa [findSusp] using hf)
  | .group kids, x, c, hf => by
    simpa only [itemsN] using findSuspList_items k kids x c (by simpa [findSusp] using hf)
  | .susp j a b content, x, c, hf => by
    simp only [findSusp] at hf
    split at hf
    · rename_i hj; subst hj; cases hf; intro y hy; simpa only [itemsN] using hy
    · simpa only [itemsN] using findSuspList_items k content (some j) c hf
  | .hole _, x, c, hf => by simp [findSusp] at hf
  | .text _, x, c, hf => by simp [findSusp] at hf
  | .fb, x, c, hf => by simp [findSusp] at hf
  | .marker, x, c, hf => by simp [findSusp] at hf
  | .resText _, x, c, hf => by simp [findSusp] at hf
theorem findSuspList_items (k : Nat) : ∀ (t : RNs) (x : Option Nat) (c : RNs), findSuspList k t = some c →
    ∀ y ∈ items (some k) c, y ∈ items x t
  | .nil, x, c, hf => by simp [findSuspList] at hf
  | .cons n rest, x, c, hf => by
    simp only [findSuspList] at hf
    intro y hy
    simp only [items, List.mem_append]
    cases hn : findSusp k n with
    | some c' =>
      rw [hn] at hf; simp only [Option.some.injEq] at hf; subst hf
      exact Or.inl (findSusp_items k n x c' hn y hy)
    | none =>
      rw [hn] at hf; simp only at hf
      exact Or.inr (findSuspList_items k rest x c hf y hy)
end

mutual
theorem findSusp_none (k : Nat) : ∀ n : RN, k ∉ suspKeysN n → findSusp k n = none
  | .el tag key kids, hk => by simpa [findSusp] using findSuspList_none k kids (by simpa [suspKeysN] using hk)
  | .group kids, hk => by simpa [findSusp] using findSuspList_none k kids (by simpa [suspKeysN] using hk)
  | .susp j a b content, hk => by
    simp only [suspKeysN, List.mem_cons, not_or] at hk
    simp only [findSusp, if_neg (fun h : j = k => hk.1 h.symm)]
    exact findSuspList_none k content hk.2
  | .hole _, hk => rfl
  | .text _, hk => rfl
  | .fb, hk => rfl
  | .marker, hk => rfl
  | .resText _, hk => rfl
theorem findSuspList_none (k : Nat) : ∀ t : RNs, k ∉ suspKeys t → findSuspList k t = none
  | .nil, hk => rfl
  | .cons n rest, hk => by
    simp only [suspKeys, List.mem_append, not_or] at hk
    simp only [findSuspList, findSusp_none k n hk.1, findSuspList_none k rest hk.2]
end

mutual
theorem findSusp_fill (k h : Nat) (c : RNs) (hc : findSuspList k c = none) : ∀ n : RN,
    findSusp k (fill h c n) = (findSusp k n).map (fillList h c)
  | .el tag key kids => by simpa only [fill, findSusp] using findSuspList_fill k h c hc kids
  | .group kids => by simpa only [fill, findSusp] using findSuspList_fill k h c hc kids
  | .susp j a b content => by
    simp only [fill, findSusp]
    split
    · rfl
    · exact findSuspList_fill k h c hc content
  | .hole i => by
    by_cases hi : i = h
    · simp [fill, hi, findSusp, hc]
    · simp [fill, hi, findSusp]
  | .text _ => rfl
  | .fb => rfl
  | .marker => rfl
  | .resText _ => rfl
theorem findSuspList_fill (k h : Nat) (c : RNs) (hc : findSuspList k c = none) : ∀ t : RNs,
    findSuspList k (fillList h c t) = (findSuspList k t).map (fillList h c)
  | .nil => rfl
  | .cons n rest => by
    simp only [fillList, findSuspList, findSusp_fill k h c hc n]
    cases findSusp k n with
    | some c' => rfl
    | none => exact findSuspList_fill k h c hc rest
end

/-- the region of boundary `k`, rendered in shell form (nested boundaries as fallbacks) -/
def regionStr (w : World) (k : Nat) : String :=
  match findSuspList k w.tree with
  | some c => renderList w.st .shell c
  | none => ""

theorem fragmentOf_eq (w : World) (k : Nat) :
    fragmentOf w k = s!"<template id=\"sycamore-suspense-{k}\"><!--/-->" ++ regionStr w k ++
      s!"<!--/--></template><script>__sycamore_suspense({k})</script>" := rfl

theorem regionStr_congr {w w' : World} (k : Nat) (ht : w'.tree = w.tree) (hr : w'.st.resDone = w.st.resDone) :
    regionStr w' k = regionStr w k := by
  rw [regionStr, regionStr, ht]
  cases findSuspList k w.tree with
  | none => rfl
  | some c => exact renderList_shell_congr _ _ c (some k) (fun r _ => by rw [hr])

/-- nothing is registered under boundary `k` any more -/
def Quiet (k : Nat) (ps : List Pend) (w : World) : Prop :=
  1 ≤ k ∧ k ≤ w.st.bds.length ∧ (∀ q ∈ w.st.pend ++ ps, q.ctx ≠ some k) ∧ (∀ g ∈ w.st.guards, g.2 ≠ k)

/-- ... and its region reads `F` -/
def Stable (k : Nat) (F : String) (ps : List Pend) (w : World) : Prop := Quiet k ps w ∧ regionStr w k = F

theorem Micro.stable {k : Nat} {F : String} {ps w ps' w'} (m : Micro ps w ps' w') (hw : WInv ps w)
    (hs : Stable k F ps w) : Stable k F ps' w' := by
  obtain ⟨⟨hk1, hk2, hq, hg⟩, hF⟩ := hs
  cases m with
  | done w t => exact ⟨⟨hk1, hk2, hq, hg⟩, by rw [← hF]; exact regionStr_congr k rfl rfl⟩
  | part w =>
    refine ⟨⟨hk1, hk2, fun q hq' => ?_, hg⟩, by rw [← hF]; exact regionStr_congr k rfl rfl⟩
    exact hq q (by simpa using (mine_rest_perm w).mem_iff.mp hq')
  | fill p ps w =>
    have hb := fillW_built p w
    have hf := hb.frame
    have hi := hw.inv
    have hpk : p.ctx ≠ some k := hq p (by simp)
    have hp0 := hi.pendOK p (by simp)
    have hbl := hi.bdsLen
    refine ⟨⟨hk1, ?_, fun q hq' => ?_, fun g hg' => ?_⟩, ?_⟩
    · show k ≤ (decr _ p.ctx).bds.length
      rw [decr_bds_length]; omega
    · rw [fillW_pend, List.append_assoc] at hq'
      rcases List.mem_append.mp hq' with h1 | h1
      · exact hq q (by simp [h1])
      · rcases List.mem_append.mp h1 with h1 | h1
        · rcases (hb.pendCtx hp0.1 hi.regsLen q h1).2 with e | ⟨j, e, h2, _⟩
          · rw [e]; exact hpk
          · rw [e]; intro h; cases h; omega
        · exact hq q (by simp [h1])
    · have hg'' : g ∈ (decr _ p.ctx).guards := hg'
      rw [decr_guards, hb.pend_eq.2] at hg''
      rcases List.mem_append.mp hg'' with h1 | h1
      · exact hg g h1
      · rcases (hb.guardsCtx g h1).2 with e | e
        · intro h; rw [h] at e; exact hpk e.symm
        · omega
    · rw [← hF, regionStr, regionStr]
      have hnone : findSuspList k (buildList p.reg p.ctx p.body w.st).1 = none := by
        apply findSuspList_none
        intro hm
        have := List.count_pos_iff.mpr hm
        rw [hb.susps k] at this
        split at this <;> omega
      show (match findSuspList k (fillList p.hole _ w.tree) with
        | some c => renderList (decr _ p.ctx) .shell c | none => "") = _
      rw [findSuspList_fill k _ _ hnone]
      cases hfs : findSuspList k w.tree with
      | none => rfl
      | some content =>
        simp only [Option.map_some]
        rw [fillList_render_shell _ _ _ content (some k)]
        · exact renderList_shell_congr _ _ content (some k) (fun r _ => by rw [decr_resDone, hf.2.1])
        · intro hm
          have := findSuspList_items k w.tree none content hfs _ hm
          obtain ⟨q, hq', _, e2⟩ := hi.holeCtx _ _ this
          exact hq q hq' e2
  | deliver w r =>
    rw [deliver_eq]
    split
    · exact ⟨⟨hk1, hk2, hq, hg⟩, hF⟩
    · rename_i hr
      have h0 : Inv w.st.pend w.st w.tree := by simpa using hw.inv
      have hd := h0.deliver r (by simpa using hr)
      refine ⟨⟨hk1, ?_, fun q hq' => ?_, fun g hg' => ?_⟩, ?_⟩
      · show k ≤ (deliverSt w.st r).bds.length
        have := hd.2.1.len; omega
      · have : q ∈ (deliverSt w.st r).pend ++ [] := hq'
        rw [hd.2.2.2.1] at this; exact hq q this
      · have : g ∈ (deliverSt w.st r).guards := hg'
        rw [hd.2.2.2.2.2.1] at this; exact hg g (List.mem_filter.mp this).1
      · rw [← hF, regionStr, regionStr]
        show (match findSuspList k w.tree with
          | some c => renderList (deliverSt w.st r) .shell c | none => "") = _
        cases hfs : findSuspList k w.tree with
        | none => rfl
        | some content =>
          refine renderList_shell_congr _ _ content (some k) (fun r' hm => ?_)
          have := findSuspList_items k w.tree none content hfs _ hm
          rcases h0.resOK r' k this with h1 | h1
          · rw [hd.2.2.2.2.1]; simp [h1]
          · exact absurd rfl (hg _ h1)
  | send w k' =>
    exact ⟨⟨hk1, by simpa [sendOne] using hk2, hq, hg⟩, by rw [← hF]; exact regionStr_congr k rfl rfl⟩

/-- `w'` comes after `w`: more events, more sending -/
inductive Later (w : World) : World → Prop
  | refl : Later w w
  | step {w'} (e : Ev) : Later w w' → Later w (step w' e)
  | send {w'} (fuel : Nat) (out : List String) : Later w w' → Later w (sendReady fuel w' out).1

theorem Later.micros {w w'} (h : Later w w') : Micros [] w [] w' := by
  induction h with
  | refl => exact Micros.refl _ _
  | step e _ ih => exact ih.trans (step_micros _ e)
  | send fuel out _ ih => exact ih.trans (sendReady_micros fuel _ out)

theorem loading_false_count {st : St} {n k : Nat} {b : Bd} (hb : st.bds[k - 1]? = some b)
    (h : loading st (n + 1) k = false) : b.count = 0 := by
  rw [loading, hb] at h
  simp only [Bool.or_eq_false_iff, decide_eq_false_iff_not] at h
  omega

theorem quiet_of_not_loading {w : World} {k : Nat} (hi : Inv w.st.pend w.st w.tree)
    (hk : 1 ≤ k ∧ k ≤ w.st.bds.length) (h : loading w.st (w.st.bds.length + 1) k = false) :
    Quiet k [] w := by
  obtain ⟨b, hb⟩ : ∃ b, w.st.bds[k - 1]? = some b :=
    ⟨w.st.bds[k - 1]'(by omega), List.getElem?_eq_getElem (by omega)⟩
  have hc := loading_false_count hb h
  have := hi.counts (k - 1)
  rw [cntL, hb, show k - 1 + 1 = k by omega] at this
  simp only [Option.map_some, Option.getD_some, hc] at this
  have h1 : w.st.pend.countP (·.ctx = some k) = 0 := by omega
  have h2 : w.st.guards.countP (·.2 = k) = 0 := by omega
  rw [List.countP_eq_zero] at h1 h2
  refine ⟨hk.1, hk.2, fun q hq => ?_, fun g hg => ?_⟩
  · simpa using h1 q (by simpa using hq)
  · simpa using h2 g hg

/-- once nothing is registered under `k`, its region never changes -/
theorem region_stable {w w' : World} {k : Nat} (hw : WInv [] w) (hq : Quiet k [] w) (hl : Later w w') :
    Quiet k [] w' ∧ regionStr w' k = regionStr w k :=
  Micros.keep (S := Stable k (regionStr w k)) (fun m hw hs => m.stable hw hs) hl.micros hw ⟨hq, rfl⟩

/-! ## what the page shows -/

mutual
/-- the text of the page with every marker, key and wrapper dropped; boundary `k` shows its content if
`sh k`, the fallback otherwise -/
def visibleN (sh : Nat → Bool) (st : St) : RN → List String
  | .el tag _ kids => s!"<{tagOf tag}>" :: (visible sh st kids ++ [s!"</{tagOf tag}>"])
  | .text n => [s!"t{n}"]
  | .fb => ["fb"]
  | .marker => []
  | .resText r => [if st.resDone.contains r then "r7" else "none"]
  | .hole _ => []
  | .group kids => visible sh st kids
  | .susp k _ _ c => if sh k then visible sh st c else ["fb"]
def visible (sh : Nat → Bool) (st : St) : RNs → List String
  | .nil => []
  | .cons n r => visibleN sh st n ++ visible sh st r
end

/-- the pieces of the rendered text -/
inductive Tok where
  | openT (tag : Nat) (key : Key)
  | closeT (tag : Nat)
  | txt (s : String)
  | raw (s : String)      -- comments, `suspense-start`, `suspense-end`, `no-ssr`: nothing to see
  | slot (k : Nat)        -- the fallback between `suspense-start k` and `suspense-end k` in shell form

def Tok.str : Tok → String
  | .openT tag key => s!"<{tagOf tag}{hk key}>"
  | .closeT tag => s!"</{tagOf tag}>"
  | .txt s => s
  | .raw s => s
  | .slot _ => "fb"

/-- what a piece shows (tags without their key) -/
def Tok.vis : Tok → Option String
  | .openT tag _ => some s!"<{tagOf tag}>"
  | .closeT tag => some s!"</{tagOf tag}>"
  | .txt s => some s
  | .raw _ => none
  | .slot _ => some "fb"

mutual
def renderToksN (st : St) (how : How) : RN → List Tok
  | .el tag key kids => .openT tag key :: (renderToks st how kids ++ [.closeT tag])
  | .text n => [.txt s!"t{n}"]
  | .fb => [.txt "fb"]
  | .marker => [.raw "<!--/-->"]
  | .resText r => [.raw "<!--t-->", .txt (if st.resDone.contains r then "r7" else "none"), .raw "<!-->"]
  | .hole _ => []
  | .group kids => renderToks st how kids
  | .susp k a b c =>
    match how with
    | .final =>
      .raw s!"<suspense-start data-key=\"{k}\"{hk a}></suspense-start><no-ssr{hk b}></no-ssr><!--/-->"
        :: (renderToks st .final c ++ [.raw "<!--/-->"])
    | .shell =>
      [.raw s!"<no-ssr{hk b}></no-ssr><suspense-start data-key=\"{k}\"{hk a}></suspense-start>", .slot k,
       .raw s!"<suspense-end data-key=\"{k}\"></suspense-end>"]
def renderToks (st : St) (how : How) : RNs → List Tok
  | .nil => []
  | .cons n r => renderToksN st how n ++ renderToks st how r
end

/-- concatenation -/
def cat : List String → String
  | [] => ""
  | s :: r => s ++ cat r

theorem cat_append : ∀ a b : List String, cat (a ++ b) = cat a ++ cat b
  | [], b => by simp [cat]
  | s :: a, b => by simp [cat, cat_append a b, String.append_assoc]

theorem shell_susp_split (k : Nat) (a b : Key) :
    s!"<no-ssr{hk b}></no-ssr><suspense-start data-key=\"{k}\"{hk a}></suspense-start>fb<suspense-end data-key=\"{k}\"></suspense-end>" =
      s!"<no-ssr{hk b}></no-ssr><suspense-start data-key=\"{k}\"{hk a}></suspense-start>" ++
        ("fb" ++ s!"<suspense-end data-key=\"{k}\"></suspense-end>") := by
  have e : "></suspense-start>fb<suspense-end data-key=\"" =
      "></suspense-start>" ++ ("fb" ++ "<suspense-end data-key=\"") := by decide
  show "<no-ssr" ++ hk b ++ "></no-ssr><suspense-start data-key=\"" ++ toString k ++ "\"" ++ hk a ++
      "></suspense-start>fb<suspense-end data-key=\"" ++ toString k ++ "\"></suspense-end>" =
    "<no-ssr" ++ hk b ++ "></no-ssr><suspense-start data-key=\"" ++ toString k ++ "\"" ++ hk a ++
      "></suspense-start>" ++ ("fb" ++ ("<suspense-end data-key=\"" ++ toString k ++ "\"></suspense-end>"))
  rw [e]; simp only [String.append_assoc]

mutual
/-- the rendered text is the concatenation of its pieces -/
theorem render_toks (st : St) (how : How) : ∀ n : RN,
    render st how n = cat ((renderToksN st how n).map Tok.str)
  | .el tag key kids => by
    rw [render_el, renderList_toks st how kids]
    simp only [renderToksN, List.map_cons, List.map_append, List.map_nil, cat, cat_append, Tok.str,
      String.append_assoc, String.append_empty]
  | .text n => by rw [render_text]; simp [renderToksN, cat, Tok.str]
  | .fb => by rw [render_fb]; simp [renderToksN, cat, Tok.str]
  | .marker => by rw [render_marker]; simp [renderToksN, cat, Tok.str]
  | .resText r => by
    rw [render_resText]; simp [renderToksN, cat, Tok.str, String.append_assoc]
  | .hole _ => by rw [render_hole]; simp [renderToksN, cat]
  | .group kids => by rw [render_group, renderList_toks st how kids]; simp [renderToksN]
  | .susp k a b c => by
    cases how with
    | final =>
      rw [render_susp_final, renderList_toks st .final c]
      simp only [renderToksN, List.map_cons, List.map_append, List.map_nil, cat, cat_append, Tok.str,
        String.append_assoc, String.append_empty]
    | shell =>
      rw [render_susp_shell, shell_susp_split]
      simp only [renderToksN, List.map_cons, List.map_nil, cat, Tok.str, String.append_empty]
theorem renderList_toks (st : St) (how : How) : ∀ t : RNs,
    renderList st how t = cat ((renderToks st how t).map Tok.str)
  | .nil => by rw [renderList_nil]; simp [renderToks, cat]
  | .cons n r => by
    rw [renderList_cons, render_toks st how n, renderList_toks st how r]
    simp only [renderToks, List.map_append, cat_append]
end

mutual
/-- what the final rendering (sync, blocking) shows: every boundary its content -/
theorem visible_final (st : St) : ∀ n : RN,
    visibleN (fun _ => true) st n = (renderToksN st .final n).filterMap Tok.vis
  | .el tag key kids => by simp [visibleN, renderToksN, Tok.vis, visibleList_final st kids, List.filterMap_append]
  | .text n => by simp [visibleN, renderToksN, Tok.vis]
  | .fb => by simp [visibleN, renderToksN, Tok.vis]
  | .marker => by simp [visibleN, renderToksN, Tok.vis]
  | .resText r => by simp [visibleN, renderToksN, Tok.vis, List.filterMap_cons]
  | .hole _ => by simp [visibleN, renderToksN]
  | .group kids => by simp [visibleN, renderToksN, visibleList_final st kids]
  | .susp k a b c => by
    simp [visibleN, renderToksN, Tok.vis, visibleList_final st c, List.filterMap_append, List.filterMap_cons]
theorem visibleList_final (st : St) : ∀ t : RNs,
    visible (fun _ => true) st t = (renderToks st .final t).filterMap Tok.vis
  | .nil => by simp [visible, renderToks]
  | .cons n r => by
    simp [visible, renderToks, List.filterMap_append, visible_final st n, visibleList_final st r]
end

mutual
/-- what the shell shows: every boundary its fallback -/
theorem visible_shell (st : St) : ∀ n : RN,
    visibleN (fun _ => false) st n = (renderToksN st .shell n).filterMap Tok.vis
  | .el tag key kids => by simp [visibleN, renderToksN, Tok.vis, visibleList_shell st kids, List.filterMap_append]
  | .text n => by simp [visibleN, renderToksN, Tok.vis]
  | .fb => by simp [visibleN, renderToksN, Tok.vis]
  | .marker => by simp [visibleN, renderToksN, Tok.vis]
  | .resText r => by simp [visibleN, renderToksN, Tok.vis, List.filterMap_cons]
  | .hole _ => by simp [visibleN, renderToksN]
  | .group kids => by simp [visibleN, renderToksN, visibleList_shell st kids]
  | .susp k a b c => by simp [visibleN, renderToksN, Tok.vis, List.filterMap_cons]
theorem visibleList_shell (st : St) : ∀ t : RNs,
    visible (fun _ => false) st t = (renderToks st .shell t).filterMap Tok.vis
  | .nil => by simp [visible, renderToks]
  | .cons n r => by
    simp [visible, renderToks, List.filterMap_append, visible_shell st n, visibleList_shell st r]
end

mutual
theorem visibleN_congr (sh sh' : Nat → Bool) (st : St) : ∀ n : RN,
    (∀ k ∈ suspKeysN n, sh k = sh' k) → visibleN sh st n = visibleN sh' st n
  | .el tag key kids, h => by
    simp only [visibleN, visible_congr sh sh' st kids (by simpa [suspKeysN] using h)]
  | .text n, h => rfl
  | .fb, h => rfl
  | .marker, h => rfl
  | .resText r, h => rfl
  | .hole _, h => rfl
  | .group kids, h => by
    simp only [visibleN, visible_congr sh sh' st kids (by simpa [suspKeysN] using h)]
  | .susp k a b c, h => by
    simp only [suspKeysN, List.mem_cons, forall_eq_or_imp] at h
    simp only [visibleN, h.1, visible_congr sh sh' st c h.2]
theorem visible_congr (sh sh' : Nat → Bool) (st : St) : ∀ t : RNs,
    (∀ k ∈ suspKeys t, sh k = sh' k) → visible sh st t = visible sh' st t
  | .nil, h => rfl
  | .cons n r, h => by
    simp only [suspKeys, List.mem_append] at h
    simp only [visible, visibleN_congr sh sh' st n (fun k hk => h k (Or.inl hk)),
      visible_congr sh sh' st r (fun k hk => h k (Or.inr hk))]
end

/-! ## the page as the shell with the slots of the sent boundaries filled in -/

mutual
/-- a region in shell form, with `sub k` in the slot of each nested boundary `k` -/
def visSubN (sub : Nat → List String) (st : St) : RN → List String
  | .el tag _ kids => s!"<{tagOf tag}>" :: (visSub sub st kids ++ [s!"</{tagOf tag}>"])
  | .text n => [s!"t{n}"]
  | .fb => ["fb"]
  | .marker => []
  | .resText r => [if st.resDone.contains r then "r7" else "none"]
  | .hole _ => []
  | .group kids => visSub sub st kids
  | .susp k _ _ _ => sub k
def visSub (sub : Nat → List String) (st : St) : RNs → List String
  | .nil => []
  | .cons n r => visSubN sub st n ++ visSub sub st r
end

/-- put `sub k` into slot `k`; everything else shows what it shows -/
def fillSlots (sub : Nat → List String) (toks : List Tok) : List String :=
  toks.flatMap fun t => match t with
    | .slot k => sub k
    | t => t.vis.toList

theorem fillSlots_append (sub : Nat → List String) (a b : List Tok) :
    fillSlots sub (a ++ b) = fillSlots sub a ++ fillSlots sub b := by simp [fillSlots]

mutual
theorem visSubN_toks (sub : Nat → List String) (st : St) : ∀ n : RN,
    visSubN sub st n = fillSlots sub (renderToksN st .shell n)
  | .el tag key kids => by
    simp [visSubN, renderToksN, visSub_toks sub st kids, fillSlots, Tok.vis]
  | .text n => by simp [visSubN, renderToksN, fillSlots, Tok.vis]
  | .fb => by simp [visSubN, renderToksN, fillSlots, Tok.vis]
  | .marker => by simp [visSubN, renderToksN, fillSlots, Tok.vis]
  | .resText r => by simp [visSubN, renderToksN, fillSlots, Tok.vis]
  | .hole _ => by simp [visSubN, renderToksN, fillSlots]
  | .group kids => by simp [visSubN, renderToksN, visSub_toks sub st kids]
  | .susp k a b c => by simp [visSubN, renderToksN, fillSlots, Tok.vis]
theorem visSub_toks (sub : Nat → List String) (st : St) : ∀ t : RNs,
    visSub sub st t = fillSlots sub (renderToks st .shell t)
  | .nil => by simp [visSub, renderToks, fillSlots]
  | .cons n r => by
    simp only [visSub, renderToks, fillSlots_append, visSubN_toks sub st n, visSub_toks sub st r]
end

mutual
/-- the boundaries of a region that are not nested in another boundary of the region, with their contents -/
def shellSuspsN : RN → List (Nat × RNs)
  | .el _ _ kids => shellSusps kids
  | .group kids => shellSusps kids
  | .susp k _ _ c => [(k, c)]
  | _ => []
def shellSusps : RNs → List (Nat × RNs)
  | .nil => []
  | .cons n r => shellSuspsN n ++ shellSusps r
end

mutual
/-- all boundaries with their contents -/
def allSuspsN : RN → List (Nat × RNs)
  | .el _ _ kids => allSusps kids
  | .group kids => allSusps kids
  | .susp k _ _ c => (k, c) :: allSusps c
  | _ => []
def allSusps : RNs → List (Nat × RNs)
  | .nil => []
  | .cons n r => allSuspsN n ++ allSusps r
end

mutual
theorem shellN_sub_all : ∀ (n : RN) (y : Nat × RNs), y ∈ shellSuspsN n → y ∈ allSuspsN n
  | .el _ _ kids, y, h => by simpa only [allSuspsN] using shell_sub_all kids y (by simpa only [shellSuspsN] using h)
  | .group kids, y, h => by simpa only [allSuspsN] using shell_sub_all kids y (by simpa only [shellSuspsN] using h)
  | .susp k _ _ c, y, h => by
    simp only [shellSuspsN, List.mem_singleton] at h; simp [allSuspsN, h]
  | .text _, y, h => by simp [shellSuspsN] at h
  | .fb, y, h => by simp [shellSuspsN] at h
  | .marker, y, h => by simp [shellSuspsN] at h
  | .resText _, y, h => by simp [shellSuspsN] at h
  | .hole _, y, h => by simp [shellSuspsN] at h
theorem shell_sub_all : ∀ (t : RNs) (y : Nat × RNs), y ∈ shellSusps t → y ∈ allSusps t
  | .nil, y, h => by simp [shellSusps] at h
  | .cons n r, y, h => by
    simp only [shellSusps, List.mem_append] at h
    simp only [allSusps, List.mem_append]
    exact h.elim (fun h => Or.inl (shellN_sub_all n y h)) (fun h => Or.inr (shell_sub_all r y h))
end

mutual
theorem allN_trans : ∀ (n : RN) (k : Nat) (c : RNs), (k, c) ∈ allSuspsN n → ∀ y ∈ allSusps c, y ∈ allSuspsN n
  | .el _ _ kids, k, c, h => by simpa only [allSuspsN] using all_trans kids k c (by simpa only [allSuspsN] using h)
  | .group kids, k, c, h => by simpa only [allSuspsN] using all_trans kids k c (by simpa only [allSuspsN] using h)
  | .susp j _ _ content, k, c, h => by
    simp only [allSuspsN, List.mem_cons] at h ⊢
    rcases h with h | h
    · cases h; exact fun y hy => Or.inr hy
    · exact fun y hy => Or.inr (all_trans content k c h y hy)
  | .text _, k, c, h => by simp [allSuspsN] at h
  | .fb, k, c, h => by simp [allSuspsN] at h
  | .marker, k, c, h => by simp [allSuspsN] at h
  | .resText _, k, c, h => by simp [allSuspsN] at h
  | .hole _, k, c, h => by simp [allSuspsN] at h
theorem all_trans : ∀ (t : RNs) (k : Nat) (c : RNs), (k, c) ∈ allSusps t → ∀ y ∈ allSusps c, y ∈ allSusps t
  | .nil, k, c, h => by simp [allSusps] at h
  | .cons n r, k, c, h => by
    simp only [allSusps, List.mem_append] at h ⊢
    exact fun y hy => h.elim (fun h => Or.inl (allN_trans n k c h y hy)) (fun h => Or.inr (all_trans r k c h y hy))
end

mutual
theorem allN_key : ∀ (n : RN) (k : Nat) (c : RNs), (k, c) ∈ allSuspsN n → k ∈ suspKeysN n
  | .el _ _ kids, k, c, h => by simpa only [suspKeysN] using all_key kids k c (by simpa only [allSuspsN] using h)
  | .group kids, k, c, h => by simpa only [suspKeysN] using all_key kids k c (by simpa only [allSuspsN] using h)
  | .susp j _ _ content, k, c, h => by
    simp only [allSuspsN, List.mem_cons] at h
    simp only [suspKeysN, List.mem_cons]
    rcases h with h | h
    · cases h; exact Or.inl rfl
    · exact Or.inr (all_key content k c h)
  | .text _, k, c, h => by simp [allSuspsN] at h
  | .fb, k, c, h => by simp [allSuspsN] at h
  | .marker, k, c, h => by simp [allSuspsN] at h
  | .resText _, k, c, h => by simp [allSuspsN] at h
  | .hole _, k, c, h => by simp [allSuspsN] at h
theorem all_key : ∀ (t : RNs) (k : Nat) (c : RNs), (k, c) ∈ allSusps t → k ∈ suspKeys t
  | .nil, k, c, h => by simp [allSusps] at h
  | .cons n r, k, c, h => by
    simp only [allSusps, List.mem_append] at h
    simp only [suspKeys, List.mem_append]
    exact h.elim (fun h => Or.inl (allN_key n k c h)) (fun h => Or.inr (all_key r k c h))
end

mutual
theorem findSusp_mem_all (k : Nat) : ∀ (n : RN) (c : RNs), findSusp k n = some c → (k, c) ∈ allSuspsN n
  | .el _ _ kids, c, h => by
    simpa only [allSuspsN] using findSuspList_mem_all k kids c (by simpa [findSusp] using h)
  | .group kids, c, h => by
    simpa only [allSuspsN] using findSuspList_mem_all k kids c (by simpa [findSusp] using h)
  | .susp j _ _ content, c, h => by
    simp only [findSusp] at h
    simp only [allSuspsN, List.mem_cons]
    split at h
    · rename_i hj; subst hj; cases h; exact Or.inl rfl
    · exact Or.inr (findSuspList_mem_all k content c h)
  | .text _, c, h => by simp [findSusp] at h
  | .fb, c, h => by simp [findSusp] at h
  | .marker, c, h => by simp [findSusp] at h
  | .resText _, c, h => by simp [findSusp] at h
  | .hole _, c, h => by simp [findSusp] at h
theorem findSuspList_mem_all (k : Nat) : ∀ (t : RNs) (c : RNs), findSuspList k t = some c → (k, c) ∈ allSusps t
  | .nil, c, h => by simp [findSuspList] at h
  | .cons n r, c, h => by
    simp only [findSuspList] at h
    simp only [allSusps, List.mem_append]
    cases hn : findSusp k n with
    | some c' =>
      rw [hn] at h; simp only [Option.some.injEq] at h; subst h
      exact Or.inl (findSusp_mem_all k n c' hn)
    | none =>
      rw [hn] at h; simp only at h
      exact Or.inr (findSuspList_mem_all k r c h)
end

mutual
/-- with distinct keys, `findSusp` finds every boundary -/
theorem findSusp_of_all : ∀ (n : RN), (suspKeysN n).Nodup → ∀ (k : Nat) (c : RNs), (k, c) ∈ allSuspsN n →
    findSusp k n = some c
  | .el _ _ kids, hn, k, c, h => by
    simpa only [findSusp] using findSuspList_of_all kids (by simpa only [suspKeysN] using hn) k c
      (by simpa only [allSuspsN] using h)
  | .group kids, hn, k, c, h => by
    simpa only [findSusp] using findSuspList_of_all kids (by simpa only [suspKeysN] using hn) k c
      (by simpa only [allSuspsN] using h)
  | .susp j _ _ content, hn, k, c, h => by
    simp only [suspKeysN, List.nodup_cons] at hn
    simp only [allSuspsN, List.mem_cons] at h
    simp only [findSusp]
    rcases h with h | h
    · cases h; simp
    · have hk := all_key content k c h
      have : j ≠ k := fun e => hn.1 (e ▸ hk)
      rw [if_neg this]
      exact findSuspList_of_all content hn.2 k c h
  | .text _, hn, k, c, h => by simp [allSuspsN] at h
  | .fb, hn, k, c, h => by simp [allSuspsN] at h
  | .marker, hn, k, c, h => by simp [allSuspsN] at h
  | .resText _, hn, k, c, h => by simp [allSuspsN] at h
  | .hole _, hn, k, c, h => by simp [allSuspsN] at h
theorem findSuspList_of_all : ∀ (t : RNs), (suspKeys t).Nodup → ∀ (k : Nat) (c : RNs), (k, c) ∈ allSusps t →
    findSuspList k t = some c
  | .nil, hn, k, c, h => by simp [allSusps] at h
  | .cons n r, hn, k, c, h => by
    simp only [suspKeys, List.nodup_append] at hn
    simp only [allSusps, List.mem_append] at h
    simp only [findSuspList]
    rcases h with h | h
    · rw [findSusp_of_all n hn.1 k c h]
    · have hk := all_key r k c h
      have : k ∉ suspKeysN n := fun hk' => hn.2.2 k hk' k hk rfl
      rw [findSusp_none k n this]
      exact findSuspList_of_all r hn.2.1 k c h
end

mutual
theorem visibleN_visSub (sh : Nat → Bool) (st : St) (region : Nat → RNs) : ∀ n : RN,
    (∀ y ∈ shellSuspsN n, region y.1 = y.2) →
    visibleN sh st n = visSubN (fun k => if sh k then visible sh st (region k) else ["fb"]) st n
  | .el _ _ kids, h => by
    simp only [visibleN, visSubN, visible_visSub sh st region kids (by simpa only [shellSuspsN] using h)]
  | .group kids, h => by
    simp only [visibleN, visSubN, visible_visSub sh st region kids (by simpa only [shellSuspsN] using h)]
  | .susp k _ _ c, h => by
    have := h (k, c) (by simp [shellSuspsN])
    simp only [visibleN, visSubN, this]
  | .text _, h => rfl
  | .fb, h => rfl
  | .marker, h => rfl
  | .resText _, h => rfl
  | .hole _, h => rfl
theorem visible_visSub (sh : Nat → Bool) (st : St) (region : Nat → RNs) : ∀ t : RNs,
    (∀ y ∈ shellSusps t, region y.1 = y.2) →
    visible sh st t = visSub (fun k => if sh k then visible sh st (region k) else ["fb"]) st t
  | .nil, h => rfl
  | .cons n r, h => by
    simp only [shellSusps, List.mem_append] at h
    simp only [visible, visSub, visibleN_visSub sh st region n (fun y hy => h y (Or.inl hy)),
      visible_visSub sh st region r (fun y hy => h y (Or.inr hy))]
end

/-- the content of boundary `k` in `w` -/
def regionOf (w : World) (k : Nat) : RNs := (findSuspList k w.tree).getD .nil

/-! ## streaming: a parent is emitted before its children -/

/-- old boundaries keep their parent -/
def ParKeep (l l' : List Bd) : Prop :=
  ∀ (j : Nat) (b : Bd), l[j]? = some b → ∃ b' : Bd, l'[j]? = some b' ∧ b'.parent = b.parent

theorem ParKeep.of_ext {l l' : List Bd} (h : BdsExt l l') : ParKeep l l' := fun j b hb => by
  obtain ⟨b', h1, _, h2⟩ := h.old j b hb; exact ⟨b', h1, h2⟩

theorem Micro.parKeep {ps w ps' w'} (m : Micro ps w ps' w') (hw : WInv ps w) :
    ParKeep w.st.bds w'.st.bds := by
  cases m with
  | done w t => exact fun j b hb => ⟨b, hb, rfl⟩
  | part w => exact fun j b hb => ⟨b, hb, rfl⟩
  | fill p ps w =>
    have hp := hw.inv.pendOK p (by simp)
    exact ParKeep.of_ext (((fillW_built p w).bdsExt hp.2 hw.inv.bdsLen).trans (BdsExt.decr _ _))
  | deliver w r =>
    rw [deliver_eq]; split
    · exact fun j b hb => ⟨b, hb, rfl⟩
    · rename_i hr
      have h0 : Inv w.st.pend w.st w.tree := by simpa using hw.inv
      exact ParKeep.of_ext (h0.deliver r (by simpa using hr)).2.1
  | send w k =>
    intro j b hb
    show ∃ b', (w.st.bds.modify (k - 1) fun b => { b with sent := true })[j]? = some b' ∧ _
    rw [List.getElem?_modify, hb]
    by_cases hk : k - 1 = j <;> simp [hk]

theorem Micros.parKeep {ps w ps' w'} (m : Micros ps w ps' w') (hw : WInv ps w) :
    ParKeep w.st.bds w'.st.bds := by
  induction m with
  | refl => exact fun j b hb => ⟨b, hb, rfl⟩
  | tail m1 m ih =>
    intro j b hb
    obtain ⟨b1, h1, e1⟩ := ih j b hb
    obtain ⟨b2, h2, e2⟩ := m.parKeep (m1.inv hw) j b1 h1
    exact ⟨b2, h2, e2.trans e1⟩

/-- the parent of boundary `k` in world `w` -/
def parOf (w : World) (k : Nat) : Option Nat := (w.st.bds[k - 1]?).bind (·.parent)

/-- every key in the list comes after its parent, unless the parent was `seen` before -/
def PFirst (par : Nat → Option Nat) : (Nat → Prop) → List Nat → Prop
  | _, [] => True
  | seen, k :: L => (∀ p, par k = some p → seen p) ∧ PFirst par (fun x => seen x ∨ x = k) L

theorem PFirst.mono {par : Nat → Option Nat} : ∀ {L : List Nat} {seen seen' : Nat → Prop},
    (∀ x, seen x → seen' x) → PFirst par seen L → PFirst par seen' L
  | [], _, _, _, _ => trivial
  | k :: L, _, _, hs, h =>
    ⟨fun p hp => hs p (h.1 p hp), PFirst.mono (fun x hx => hx.elim (fun h => Or.inl (hs x h)) Or.inr) h.2⟩

theorem PFirst.append {par : Nat → Option Nat} : ∀ {A B : List Nat} {seen : Nat → Prop},
    PFirst par seen A → PFirst par (fun x => seen x ∨ x ∈ A) B → PFirst par seen (A ++ B)
  | [], B, seen, _, hb => PFirst.mono (fun x hx => by simpa using hx) hb
  | k :: A, B, seen, ha, hb =>
    ⟨ha.1, PFirst.append ha.2 (PFirst.mono (fun x hx => by
      rcases hx with h | h
      · exact Or.inl (Or.inl h)
      · rcases List.mem_cons.mp h with h | h
        · exact Or.inl (Or.inr h)
        · exact Or.inr h) hb)⟩

theorem PFirst.split {par : Nat → Option Nat} : ∀ {l1 : List Nat} {k : Nat} {l2 : List Nat} {seen : Nat → Prop},
    PFirst par seen (l1 ++ k :: l2) → ∀ p, par k = some p → seen p ∨ p ∈ l1
  | [], k, l2, seen, h, p, hp => Or.inl (h.1 p hp)
  | a :: l1, k, l2, seen, h, p, hp => by
    rcases PFirst.split (l1 := l1) h.2 p hp with (h' | h') | h'
    · exact Or.inl h'
    · exact Or.inr (by simp [h'])
    · exact Or.inr (by simp [h'])

/-- boundary `p` exists with a key ≥ 1 and has been sent -/
def seenW (w : World) (p : Nat) : Prop := 1 ≤ p ∧ sentI w (p - 1) = true

theorem sendReady_succ_ready {fuel : Nat} {w : World} {out : List String} {k : Nat} {rest : List Nat}
    (hc : ¬ w.closed = true) (hk : readyList w = k :: rest) :
    sendReady (fuel + 1) w out = sendReady fuel (sendOne w k) (out ++ [fragmentOf w k]) := by
  rw [sendReady_succ, if_neg hc, hk]

theorem sendTrace_to_end : ∀ (fuel : Nat) (w : World) (x : World × Nat),
    x ∈ sendTrace fuel w → Micros [] x.1 [] (sendReady fuel w []).1
  | 0, w, x, h => by simp [sendTrace] at h
  | fuel + 1, w, x, h => by
    rw [sendTrace] at h
    split at h
    · cases h
    · rename_i hc
      split at h
      · cases h
      · rename_i k rest hk
        rw [sendReady_succ_ready hc hk, sendReady_trace]
        rcases List.mem_cons.mp h with rfl | h
        · exact (Micros.single (Micro.send w k)).trans (sendReady_micros fuel _ [])
        · exact sendTrace_to_end fuel _ x h

theorem sendTrace_pfirst (par : Nat → Option Nat) : ∀ (fuel : Nat) (w : World), WInv [] w →
    (∀ x ∈ sendTrace fuel w, ∀ b, x.1.st.bds[x.2 - 1]? = some b → par x.2 = b.parent) →
    PFirst par (seenW w) ((sendTrace fuel w).map (·.2))
  | 0, w, _, _ => by simp [sendTrace, PFirst]
  | fuel + 1, w, hw, hpar => by
    rw [sendTrace] at hpar ⊢
    split
    · trivial
    · rename_i hc
      rw [if_neg hc] at hpar
      split
      · trivial
      · rename_i k rest hk
        simp only [hk] at hpar
        have hmem : k ∈ readyList w := by rw [hk]; exact List.mem_cons_self ..
        obtain ⟨hpoll, b, hb, _, _, hps⟩ := mem_readyList hmem
        have hk1 := (hw.pollOK k hpoll).1
        have hi : Inv w.st.pend w.st w.tree := by simpa using hw.inv
        have hw' : WInv [] (sendOne w k) := (Micro.send w k).inv hw
        refine ⟨fun p hp => ?_, ?_⟩
        · have e := hpar (w, k) (List.mem_cons_self ..) b hb
          have hbp : b.parent = some p := by rw [← e]; exact hp
          exact ⟨(hi.parents (k - 1) b hb p hbp).1, hps p hbp⟩
        · refine PFirst.mono (fun x hx => ?_)
            (sendTrace_pfirst par fuel (sendOne w k) hw' (fun x hx => hpar x (List.mem_cons_of_mem _ hx)))
          obtain ⟨hx1, hx2⟩ := hx
          rw [sentI_sendOne] at hx2
          split at hx2
          · rename_i hc; exact Or.inr (by simp only at hc ⊢; omega)
          · exact Or.inl ⟨hx1, hx2⟩

theorem streamRun_micros : ∀ (es : List Ev) (w : World), Micros [] w [] (streamRun w es).1
  | [], w => Micros.refl _ _
  | e :: es, w => by
    rw [streamRun]
    simp only [sendReadyK_trace]
    exact ((step_micros w e).trans (sendReady_micros _ _ _)).trans (streamRun_micros es _)

theorem parOf_keep {w' wf : World} (hm : Micros [] w' [] wf) (hw : WInv [] w') {k : Nat} {b : Bd}
    (hb : w'.st.bds[k - 1]? = some b) : parOf wf k = b.parent := by
  obtain ⟨b', h1, h2⟩ := hm.parKeep hw (k - 1) b hb
  rw [parOf, h1]; exact h2

theorem streamRun_pfirst : ∀ (es : List Ev) (w wf : World), WInv [] w → Micros [] (streamRun w es).1 [] wf →
    PFirst (parOf wf) (seenW w) (streamRun w es).2
  | [], w, wf, _, _ => trivial
  | e :: es, w, wf, hw, hm => by
    have hx := step_bdsExt hw e
    have h1 : WInv [] (step w e) := (step_micros w e).inv hw
    have sp := sendTrace_spec ((step w e).st.bds.length + 1) (step w e)
    have pos := sendTrace_keys_pos ((step w e).st.bds.length + 1) (step w e) h1
    have h2 : WInv [] (sendReady ((step w e).st.bds.length + 1) (step w e) []).1 :=
      (sendReady_micros _ _ _).inv h1
    rw [streamRun] at hm ⊢
    simp only [sendReadyK_trace, List.nil_append] at hm ⊢
    have ih := streamRun_pfirst es _ wf h2 hm
    have hback : ∀ x, seenW (step w e) x → seenW w x := by
      rintro x ⟨hx1, hx2⟩
      refine ⟨hx1, ?_⟩
      by_cases hlt : x - 1 < w.st.bds.length
      · rw [← sentI_ext hx _ hlt]; exact hx2
      · rw [sentI_new hx _ (by omega)] at hx2; cases hx2
    apply PFirst.append
    · refine PFirst.mono hback (sendTrace_pfirst _ _ _ h1 (fun x hx b hb => ?_))
      have hm1 := sendTrace_mem_ready _ _ x hx
      have hm2 := sendTrace_to_end _ _ x hx
      exact parOf_keep ((hm2.trans (streamRun_micros es _)).trans hm) (hm1.2.inv h1) hb
    · refine PFirst.mono (fun x hx => ?_) ih
      obtain ⟨hx1, hx2⟩ := hx
      rcases sp.2.2.2 _ hx2 with h' | ⟨k, hk, e'⟩
      · exact Or.inl (hback x ⟨hx1, h'⟩)
      · have := pos k hk
        exact Or.inr (by rwa [show x = k by omega])

theorem streamAll_pfirst (vs : AVs) (es : List Ev) :
    PFirst (parOf (streamAll vs es).1) (fun _ => False) (streamAll vs es).2 := by
  have h0 : WInv [] (World.start .stream vs) := WInv.start _ _
  have sp := sendTrace_spec ((World.start .stream vs).st.bds.length + 1) (World.start .stream vs)
  have pos := sendTrace_keys_pos ((World.start .stream vs).st.bds.length + 1) _ h0
  have h1 := (sendReady_micros ((World.start .stream vs).st.bds.length + 1) (World.start .stream vs) []).inv h0
  rw [streamAll]
  simp only [sendReadyK_trace, List.nil_append]
  have ih := streamRun_pfirst es _ _ h1 (Micros.refl _ _)
  apply PFirst.append
  · refine PFirst.mono (fun x hx => ?_) (sendTrace_pfirst _ _ _ h0 (fun x hx b hb => ?_))
    · obtain ⟨_, hx2⟩ := hx; rw [start_unsent] at hx2; cases hx2
    · have hm1 := sendTrace_mem_ready _ _ x hx
      have hm2 := sendTrace_to_end _ _ x hx
      exact parOf_keep (hm2.trans (streamRun_micros es _)) (hm1.2.inv h0) hb
  · refine PFirst.mono (fun x hx => ?_) ih
    obtain ⟨hx1, hx2⟩ := hx
    rcases sp.2.2.2 _ hx2 with h' | ⟨k, hk, e'⟩
    · rw [start_unsent] at h'; cases h'
    · have := pos k hk
      exact Or.inr (by rwa [show x = k by omega])

/-- views from lists (for the examples) -/
def avs (l : List AV) : AVs := l.foldr .cons .nil

/-! ## from counting to permutations -/

theorem fib_count (i x : Nat) : ∀ l : List Key,
    List.count x ((l.filter (·.1 = i)).map (·.2)) = List.count (i, x) l
  | [] => rfl
  | (a, b) :: l => by
    rw [key_count_cons, ← fib_count i x l]
    by_cases h : a = i
    · subst h; simp [List.count_cons]
    · simp [h]

theorem count_range'_one (s n x : Nat) :
    List.count x (List.range' s n) = if s ≤ x ∧ x < s + n then 1 else 0 := by
  rw [(List.nodup_range' (s := s) (n := n) 1).count]
  simp only [List.mem_range'_1]

end SycVerif.Assr
