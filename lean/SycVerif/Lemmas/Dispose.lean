import SycVerif.Lemmas.Edges
/-!
Helper lemmas for C04 (ownership / disposal): inert cleanup closures, the ownership forest, and the
specification of `disposeNode` / `disposeChildren` / `disposeList`.
The readable statements are in `SycVerif.Props.C04`.
-/
namespace SycVerif.Reactive

/-! ### 1. inert closures -/

/-- statements that cannot change the arena: untracked reads, and tracked reads / `track`, which
only touch `r.tracker` (and do nothing when no tracker is installed) -/
def InertStmt : Stmt → Prop
  | .readU _ => True
  | .read _ => True
  | .track _ => True
  | _ => False

/-- every statement of the body is inert -/
def InertBody : Body → Prop
  | .nil => True
  | .cons s rest => InertStmt s ∧ InertBody rest

/-- the strict class of the task statement: untracked reads only -/
def ReadUStmt : Stmt → Prop
  | .readU _ => True
  | _ => False

def ReadUBody : Body → Prop
  | .nil => True
  | .cons s rest => ReadUStmt s ∧ ReadUBody rest

theorem InertStmt.of_readU {s : Stmt} (h : ReadUStmt s) : InertStmt s := by
  cases s <;> simp_all [ReadUStmt, InertStmt]

theorem execStmt_inert {fuel : Nat} {r r' : Root} {c c' : Ctx} {s : Stmt} (hs : InertStmt s)
    (ht : r.tracker = none) (hx : execStmt fuel r c s = .ok (r', c')) : r' = r := by
  cases fuel with
  | zero => simp [execStmt] at hx
  | succ fuel =>
    cases s <;> simp only [InertStmt] at hs
    · -- read
      simp only [execStmt] at hx
      split at hx <;> try simp at hx
      split at hx <;> try simp at hx
      split at hx <;> try simp at hx
      rw [← hx.1]; simp [track, ht]
    · -- readU
      simp only [execStmt] at hx
      split at hx <;> try simp at hx
      split at hx <;> try simp at hx
      split at hx <;> try simp at hx
      exact hx.1.symm
    · -- track
      simp only [execStmt] at hx
      split at hx <;> try simp at hx
      split at hx <;> try simp at hx
      rw [← hx.1]; simp [track, ht]

theorem execBody_inert : ∀ (fuel : Nat) {r r' : Root} {c c' : Ctx} {b : Body}, InertBody b →
    r.tracker = none → execBody fuel r c b = .ok (r', c') → r' = r
  | 0, _, _, _, _, _, _, _, hx => by simp [execBody] at hx
  | fuel + 1, r, r', c, c', .nil, _, _, hx => by
    simp [execBody] at hx; exact hx.1.symm
  | fuel + 1, r, r', c, c', .cons s rest, hb, ht, hx => by
    simp only [execBody] at hx
    split at hx
    · simp at hx
    · rename_i r1 c1 h1
      have e1 := execStmt_inert hb.1 ht h1
      subst e1
      exact execBody_inert fuel hb.2 ht hx

theorem runClosure_inert {fuel : Nat} {r r' : Root} {cl : Closure} {v : Int} {obs : List Obs}
    (hb : InertBody cl.body) (ht : r.tracker = none)
    (hx : runClosure fuel r cl = .ok (r', v, obs)) : r' = r := by
  cases fuel with
  | zero => simp [runClosure] at hx
  | succ fuel =>
    simp only [runClosure] at hx
    split at hx
    · simp at hx
    · rename_i r1 c1 h1
      simp at hx
      rw [← hx.1]; exact execBody_inert fuel hb ht h1

/-- the tag of a cleanup event (`none` for `run` events) -/
def Event.cleanupTag : Event → Option Nat
  | .cleanup t _ => some t
  | .run .. => none

/-- item 2: running inert cleanup closures with no tracker installed changes nothing in the root
except appending one `Event.cleanup tag obs` per closure, in order, to the trace -/
theorem runCleanups_inert_aux : ∀ (fuel : Nat) (cls : List Closure) {r r' : Root},
    (∀ cl ∈ cls, InertBody cl.body) → r.tracker = none → runCleanups fuel r cls = .ok r' →
    ∃ evs, r' = { r with trace := r.trace ++ evs } ∧
      evs.map Event.cleanupTag = cls.map (fun cl => some cl.tag)
  | 0, _, _, _, _, _, hx => by simp [runCleanups] at hx
  | fuel + 1, [], r, r', _, _, hx => by
    simp [runCleanups] at hx; exact ⟨[], by simp [hx]⟩
  | fuel + 1, cl :: cls, r, r', hb, ht, hx => by
    simp only [runCleanups] at hx
    split at hx
    · simp at hx
    · rename_i r1 v obs h1
      have e1 := runClosure_inert (hb cl (by simp)) ht h1
      subst e1
      obtain ⟨evs, e, ht⟩ := runCleanups_inert_aux fuel cls (r := { r1 with trace := r1.trace ++ [.cleanup cl.tag obs] })
        (fun c hc => hb c (by simp [hc])) ht hx
      exact ⟨.cleanup cl.tag obs :: evs, by simp [e], by simp [ht, Event.cleanupTag]⟩

/-! ### 2. live count -/

theorem liveCount_eq (r : Root) : r.liveCount = r.nodes.toList.countP Option.isSome := by
  unfold Root.liveCount
  rw [← Array.foldl_toList]
  generalize r.nodes.toList = l
  have : ∀ (l : List (Option Node)) (k : Nat),
      l.foldl (fun n o => if o.isSome then n + 1 else n) k = k + l.countP Option.isSome := by
    intro l
    induction l with
    | nil => simp
    | cons o l ih =>
      intro k
      simp only [List.foldl_cons, ih, List.countP_cons]
      cases o <;> simp <;> omega
  simpa using this l 0

theorem liveCount_set (r : Root) (id : Id) (x : Option Node) (h : id < r.nodes.size) :
    ({ r with nodes := r.nodes.set! id x } : Root).liveCount + (if (r.get? id).isSome then 1 else 0)
      = r.liveCount + (if x.isSome then 1 else 0) := by
  rw [liveCount_eq, liveCount_eq]
  have hl : id < r.nodes.toList.length := by simpa using h
  simp only [Array.set!_eq_setIfInBounds, Array.toList_setIfInBounds, List.countP_set hl]
  have hg : r.get? id = r.nodes.toList[id] := by
    simp [Root.get?, h]
  rw [hg]
  have hpos : (r.nodes.toList[id]).isSome = true → 0 < r.nodes.toList.countP Option.isSome := by
    intro hs
    exact List.countP_pos_iff.2 ⟨_, List.getElem_mem hl, hs⟩
  generalize r.nodes.toList.countP Option.isSome = k at hpos ⊢
  generalize (r.nodes.toList[id]).isSome = b at hpos ⊢
  cases b <;> cases hx : x.isSome <;> simp at hpos ⊢ <;> omega

theorem liveCount_setNode {r : Root} {id : Id} {m : Node} (n : Node) (h : r.get? id = some m) :
    (r.setNode id n).liveCount = r.liveCount := by
  have hlt := Root.lt_size_of_get? h
  have := liveCount_set r id (some n) hlt
  simp [h] at this
  simp [Root.setNode, hlt, this]

theorem liveCount_remove {r : Root} {id : Id} {m : Node} (h : r.get? id = some m) :
    (r.remove id).liveCount + 1 = r.liveCount := by
  have hlt := Root.lt_size_of_get? h
  have := liveCount_set r id none hlt
  simp [h] at this
  simp [Root.remove, hlt, this]

theorem liveCount_modify (r : Root) (id : Id) (f : Node → Node) :
    (r.modify id f).liveCount = r.liveCount := by
  unfold Root.modify
  split
  · rename_i n hn; exact liveCount_setNode _ hn
  · rfl

theorem liveCount_foldl_modify (f : Id → Node → Node) (l : List Id) (r : Root) :
    (l.foldl (fun r d => r.modify d (f d)) r).liveCount = r.liveCount := by
  induction l generalizing r with
  | nil => rfl
  | cons d l ih => simp only [List.foldl_cons, ih, liveCount_modify]

theorem liveCount_removeNode {r : Root} {id : Id} {m : Node} (h : r.get? id = some m) :
    (removeNode r id).liveCount + 1 = r.liveCount := by
  simp only [removeNode, h]
  rw [liveCount_foldl_modify (fun _ n => { n with dependents := n.dependents.filter (· != id) }),
    liveCount_foldl_modify (fun _ n => { n with dependencies := n.dependencies.filter (· != id) }),
    liveCount_remove h]

/-! ### 3. removing a set of ids -/

/-- filter the ids of `S` out of both edge lists; all other fields untouched -/
def eraseIds (S : List Id) (n : Node) : Node :=
  { n with dependents := n.dependents.filter (fun d => decide (d ∉ S)),
           dependencies := n.dependencies.filter (fun d => decide (d ∉ S)) }

theorem eraseIds_fields (S : List Id) (n : Node) :
    (eraseIds S n).value = n.value ∧ (eraseIds S n).callback = n.callback ∧
    (eraseIds S n).children = n.children ∧ (eraseIds S n).parent = n.parent ∧
    (eraseIds S n).cleanups = n.cleanups ∧ (eraseIds S n).context = n.context ∧
    (eraseIds S n).dirty = n.dirty ∧ (eraseIds S n).mark = n.mark ∧
    (eraseIds S n).dependents = n.dependents.filter (fun d => decide (d ∉ S)) ∧
    (eraseIds S n).dependencies = n.dependencies.filter (fun d => decide (d ∉ S)) :=
  ⟨rfl, rfl, rfl, rfl, rfl, rfl, rfl, rfl, rfl, rfl⟩

@[simp] theorem eraseIds_nil (n : Node) : eraseIds [] n = n := by
  simp [eraseIds, List.filter_eq_self.2]

theorem eraseIds_congr {S S' : List Id} (h : ∀ d, d ∈ S ↔ d ∈ S') : eraseIds S = eraseIds S' := by
  funext n; simp [eraseIds, h]

theorem eraseIds_eraseIds (S1 S2 : List Id) (n : Node) :
    eraseIds S2 (eraseIds S1 n) = eraseIds (S1 ++ S2) n := by
  simp only [eraseIds, List.filter_filter, List.mem_append, not_or]
  congr 1 <;> (apply List.filter_congr; intro d _; simp [Bool.and_comm])

theorem eraseId_eq_eraseIds (id : Id) : eraseId id = eraseIds [id] := by
  funext n; simp only [eraseId, eraseIds]
  congr 1 <;> (apply List.filter_congr; intro d _; by_cases h : d = id <;> simp [h])

/-- `r'` is `r` with exactly the ids of `S` removed, and erased from every surviving edge list -/
def Removed (r : Root) (S : List Id) (r' : Root) : Prop :=
  ∀ j, r'.get? j = if j ∈ S then none else (r.get? j).map (eraseIds S)

theorem Removed.refl (r : Root) : Removed r [] r := by
  intro j; cases r.get? j <;> simp

theorem Removed.trans {r r1 r2 : Root} {S1 S2 : List Id} (h1 : Removed r S1 r1) (h2 : Removed r1 S2 r2) :
    Removed r (S1 ++ S2) r2 := by
  intro j
  rw [h2 j, h1 j]
  by_cases a : j ∈ S1 <;> by_cases b : j ∈ S2 <;> simp [a, b]
  cases r.get? j <;> simp [eraseIds_eraseIds]

theorem Removed.congr {r r' : Root} {S S' : List Id} (h : Removed r S r') (hS : ∀ d, d ∈ S ↔ d ∈ S') :
    Removed r S' r' := by
  intro j; rw [h j, eraseIds_congr hS]; simp [hS]

theorem removeNode_removed {r : Root} (hnd : NoDangling r) (hs : EdgesSym r) (id : Id) :
    Removed r [id] (removeNode r id) := by
  obtain ⟨h0, _, _, h1, _, _⟩ := removeNode_spec hnd hs id
  intro j
  by_cases hj : j = id
  · subst hj; simp [h0]
  · simp [hj, h1 j hj, eraseId_eq_eraseIds]

/-! ### 4. frames -/

/-- everything of a `Root` except the arena contents is unchanged, and the trace grew by `evs` -/
structure FrameT (r r' : Root) (evs : List Event) : Prop where
  size : r'.nodes.size = r.nodes.size
  tracker : r'.tracker = r.tracker
  current : r'.current = r.current
  rootNode : r'.rootNode = r.rootNode
  queue : r'.queue = r.queue
  batching : r'.batching = r.batching
  nextTag : r'.nextTag = r.nextTag
  trace : r'.trace = r.trace ++ evs

theorem FrameT.refl (r : Root) : FrameT r r [] := ⟨rfl, rfl, rfl, rfl, rfl, rfl, rfl, by simp⟩

theorem FrameT.trans {a b c : Root} {e1 e2 : List Event} (h1 : FrameT a b e1) (h2 : FrameT b c e2) :
    FrameT a c (e1 ++ e2) :=
  ⟨h2.size.trans h1.size, h2.tracker.trans h1.tracker, h2.current.trans h1.current,
   h2.rootNode.trans h1.rootNode, h2.queue.trans h1.queue, h2.batching.trans h1.batching,
   h2.nextTag.trans h1.nextTag, by rw [h2.trace, h1.trace, List.append_assoc]⟩

theorem FrameT.of_sameFrame {r r' : Root} (h : SameFrame r r') : FrameT r r' [] := by
  obtain ⟨a1, a2, a3, a4, a5, a6, a7, a8⟩ := h
  exact ⟨a1, a2, a3, a4, a5, a6, a7, by simp [a8]⟩

/-! ### 5. ownership -/

/-- the part of the ownership invariant that survives every intermediate state of a disposal -/
structure TreeOk (r : Root) : Prop where
  /-- every live child points back to its owner -/
  parent : ∀ i n, r.get? i = some n → ∀ c ∈ n.children, ∀ m, r.get? c = some m → m.parent = some i
  /-- no id is listed twice -/
  nodup : ∀ i n, r.get? i = some n → n.children.Nodup
  /-- creation order: children are younger than their owner -/
  lt : ∀ i n, r.get? i = some n → ∀ c ∈ n.children, i < c

/-- the ownership invariant of the arena -/
structure OwnershipOk (r : Root) : Prop extends TreeOk r where
  /-- a live node whose owner is alive is listed by its owner -/
  listed : ∀ j m p np, r.get? j = some m → m.parent = some p → r.get? p = some np → j ∈ np.children

/-- the ownership subtree of `root`: `root`, and every live id listed as a child by an owned live
node -/
inductive Owned (r : Root) (root : Id) : Id → Prop
  | root : Owned r root root
  | child {i j : Id} {n : Node} : Owned r root i → r.get? i = some n → j ∈ n.children →
      r.alive j = true → Owned r root j

theorem Owned.trans {r : Root} {a b c : Id} (h1 : Owned r a b) (h2 : Owned r b c) : Owned r a c := by
  induction h2 with
  | root => exact h1
  | child _ hn hj ha ih => exact .child ih hn hj ha

/-- `r'` is `r` with some nodes removed and some `children` / `cleanups` lists shortened -/
def Shrinks (r r' : Root) : Prop :=
  ∀ j n', r'.get? j = some n' → ∃ n, r.get? j = some n ∧ n'.children.Sublist n.children ∧
    n'.parent = n.parent ∧ ∀ cl ∈ n'.cleanups, cl ∈ n.cleanups

theorem Shrinks.alive {r r' : Root} (h : Shrinks r r') {j : Id} (ha : r'.alive j = true) :
    r.alive j = true := by
  obtain ⟨n', hn'⟩ := Root.alive_iff.1 ha
  obtain ⟨n, hn, _⟩ := h j n' hn'
  exact Root.alive_iff.2 ⟨n, hn⟩

theorem Shrinks.treeOk {r r' : Root} (h : Shrinks r r') (t : TreeOk r) : TreeOk r' := by
  refine ⟨?_, ?_, ?_⟩
  · intro i n' hn' c hc m' hm'
    obtain ⟨n, hn, hsub, _, _⟩ := h i n' hn'
    obtain ⟨m, hm, _, hp, _⟩ := h c m' hm'
    rw [hp]; exact t.parent i n hn c (hsub.subset hc) m hm
  · intro i n' hn'
    obtain ⟨n, hn, hsub, _, _⟩ := h i n' hn'
    exact (t.nodup i n hn).sublist hsub
  · intro i n' hn' c hc
    obtain ⟨n, hn, hsub, _, _⟩ := h i n' hn'
    exact t.lt i n hn c (hsub.subset hc)

theorem Owned.mono {r r' : Root} (h : Shrinks r r') {a j : Id} (ho : Owned r' a j) : Owned r a j := by
  induction ho with
  | root => exact .root
  | child _ hn hj ha ih =>
    obtain ⟨n, hn2, hsub, _, _⟩ := h _ _ hn
    exact .child ih hn2 (hsub.subset hj) (h.alive ha)

theorem Removed.shrinks {r r' : Root} {S : List Id} (h : Removed r S r') : Shrinks r r' := by
  intro j n' hn'
  rw [h j] at hn'
  split at hn'
  · cases hn'
  · rw [Option.map_eq_some_iff] at hn'
    obtain ⟨n, hn, rfl⟩ := hn'
    exact ⟨n, hn, by simp [eraseIds], rfl, fun cl hcl => hcl⟩

theorem Removed.get?_some {r r' : Root} {S : List Id} (h : Removed r S r') {j : Id} {n' : Node}
    (hn' : r'.get? j = some n') : j ∉ S ∧ ∃ n, r.get? j = some n ∧ n' = eraseIds S n := by
  rw [h j] at hn'
  split at hn'
  · cases hn'
  · rename_i hj
    rw [Option.map_eq_some_iff] at hn'
    obtain ⟨n, hn, rfl⟩ := hn'
    exact ⟨hj, n, hn, rfl⟩

theorem Removed.alive {r r' : Root} {S : List Id} (h : Removed r S r') (j : Id) :
    r'.alive j = (r.alive j && decide (j ∉ S)) := by
  simp only [Root.alive, h j]
  by_cases hj : j ∈ S <;> simp [hj]

/-- removing a set of ids and erasing them from all edge lists keeps the edge invariants -/
theorem Removed.preserves {r r' : Root} {S : List Id} (h : Removed r S r') :
    (NoDangling r → NoDangling r') ∧ (EdgesSym r → EdgesSym r') := by
  constructor
  · intro hnd i n' hn'
    obtain ⟨_, n, hn, rfl⟩ := h.get?_some hn'
    obtain ⟨hd1, hd2⟩ := hnd i n hn
    constructor <;> intro d hd <;> simp [eraseIds, List.mem_filter] at hd <;> rw [h.alive]
    · simp [hd1 d hd.1, hd.2]
    · simp [hd2 d hd.1, hd.2]
  · intro hs a b na' nb' ha hb
    obtain ⟨haS, na, hna, rfl⟩ := h.get?_some ha
    obtain ⟨hbS, nb, hnb, rfl⟩ := h.get?_some hb
    have := hs a b na nb hna hnb
    simp only [eraseIds]
    rw [List.count_filter (by simpa using hbS), List.count_filter (by simpa using haS), this]

theorem Removed.ownershipOk {r r' : Root} {S : List Id} (h : Removed r S r') (o : OwnershipOk r) :
    OwnershipOk r' := by
  refine ⟨h.shrinks.treeOk o.toTreeOk, ?_⟩
  intro j m' p np' hm' hp hnp'
  obtain ⟨_, m, hm, rfl⟩ := h.get?_some hm'
  obtain ⟨_, np, hnp, rfl⟩ := h.get?_some hnp'
  exact o.listed j m p np hm hp hnp

/-! ### 6. the ownership forest as a list (pre-order) -/

/-- `Forest r cs S`: `S` lists, in the order in which `disposeList r cs` visits them, the live nodes
of the ownership subtrees of the roots `cs` -/
inductive Forest (r : Root) : List Id → List Id → Prop
  | nil : Forest r [] []
  | dead {c : Id} {cs S : List Id} : r.get? c = none → Forest r cs S → Forest r (c :: cs) S
  | live {c : Id} {cs S1 S2 : List Id} {n : Node} : r.get? c = some n → Forest r n.children S1 →
      Forest r cs S2 → Forest r (c :: cs) (c :: S1 ++ S2)

theorem Forest.nil_inv {r : Root} {S : List Id} (h : Forest r [] S) : S = [] := by cases h; rfl

theorem Forest.append {r : Root} {as bs S1 S2 : List Id} (h1 : Forest r as S1) (h2 : Forest r bs S2) :
    Forest r (as ++ bs) (S1 ++ S2) := by
  induction h1 with
  | nil => simpa using h2
  | dead hc _ ih => exact .dead hc ih
  | live hc hk _ _ ih2 =>
    have := Forest.live hc hk ih2
    simpa [List.append_assoc] using this

theorem Forest.single_live {r : Root} {c : Id} {n : Node} {S : List Id} (hc : r.get? c = some n)
    (h : Forest r n.children S) : Forest r [c] (c :: S) := by
  have := Forest.live hc h .nil
  simpa using this

theorem Forest.alive {r : Root} {cs S : List Id} (h : Forest r cs S) : ∀ j ∈ S, r.alive j = true := by
  induction h with
  | nil => simp
  | dead _ _ ih => exact ih
  | live hc _ _ ih1 ih2 =>
    intro j hj
    simp only [List.cons_append, List.mem_cons, List.mem_append] at hj
    rcases hj with rfl | hj | hj
    · exact Root.alive_iff.2 ⟨_, hc⟩
    · exact ih1 j hj
    · exact ih2 j hj

/-- every live root is listed -/
theorem Forest.root_mem {r : Root} {cs S : List Id} (h : Forest r cs S) :
    ∀ c ∈ cs, r.alive c = true → c ∈ S := by
  induction h with
  | nil => simp
  | dead hc _ ih =>
    intro c' hc' ha
    simp only [List.mem_cons] at hc'
    rcases hc' with rfl | hc'
    · simp [Root.alive, hc] at ha
    · exact ih c' hc' ha
  | live hc _ _ _ ih2 =>
    intro c' hc' ha
    simp only [List.mem_cons] at hc'
    rcases hc' with rfl | hc'
    · simp
    · simp [ih2 c' hc' ha]

/-- every listed node is a root or is listed as a child by a listed node -/
theorem Forest.reach {r : Root} {cs S : List Id} (h : Forest r cs S) :
    ∀ j ∈ S, j ∈ cs ∨ ∃ i ∈ S, ∃ n, r.get? i = some n ∧ j ∈ n.children := by
  induction h with
  | nil => simp
  | dead _ _ ih =>
    intro j hj
    rcases ih j hj with h | h
    · exact .inl (by simp [h])
    · exact .inr h
  | @live c cs S1 S2 n hc _ _ ih1 ih2 =>
    intro j hj
    simp only [List.cons_append, List.mem_cons, List.mem_append] at hj
    rcases hj with rfl | hj | hj
    · exact .inl (by simp)
    · rcases ih1 j hj with h | ⟨i, hi, m, hm, hjm⟩
      · exact .inr ⟨c, by simp, n, hc, h⟩
      · exact .inr ⟨i, by simp [hi], m, hm, hjm⟩
    · rcases ih2 j hj with h | ⟨i, hi, m, hm, hjm⟩
      · exact .inl (by simp [h])
      · exact .inr ⟨i, by simp [hi], m, hm, hjm⟩

/-- the list is closed under "live child of" -/
theorem Forest.closed {r : Root} {cs S : List Id} (h : Forest r cs S) :
    ∀ i ∈ S, ∀ n, r.get? i = some n → ∀ j ∈ n.children, r.alive j = true → j ∈ S := by
  induction h with
  | nil => simp
  | dead _ _ ih => exact ih
  | @live c cs S1 S2 n hc hk _ ih1 ih2 =>
    intro i hi m hm j hj ha
    simp only [List.cons_append, List.mem_cons, List.mem_append] at hi ⊢
    rcases hi with rfl | hi | hi
    · rw [hc] at hm; cases hm
      exact .inr (.inl (hk.root_mem j hj ha))
    · exact .inr (.inl (ih1 i hi m hm j hj ha))
    · exact .inr (.inr (ih2 i hi m hm j hj ha))

/-- with creation order, every listed id is at least one of the roots -/
theorem Forest.ge_root {r : Root} (t : TreeOk r) {cs S : List Id} (h : Forest r cs S) :
    ∀ j ∈ S, ∃ c ∈ cs, c ≤ j := by
  induction h with
  | nil => simp
  | dead _ _ ih =>
    intro j hj
    obtain ⟨c, hc, hle⟩ := ih j hj
    exact ⟨c, by simp [hc], hle⟩
  | @live c cs S1 S2 n hc _ _ ih1 ih2 =>
    intro j hj
    simp only [List.cons_append, List.mem_cons, List.mem_append] at hj
    rcases hj with rfl | hj | hj
    · exact ⟨j, by simp, Nat.le_refl _⟩
    · obtain ⟨c', hc', hle⟩ := ih1 j hj
      have := t.lt c n hc c' hc'
      exact ⟨c, by simp, Nat.le_trans (Nat.le_of_lt this) hle⟩
    · obtain ⟨c', hc', hle⟩ := ih2 j hj
      exact ⟨c', by simp [hc'], hle⟩

theorem Owned.root_alive {r : Root} {a j : Id} (ho : Owned r a j) (ha : r.alive j = true) :
    r.alive a = true := by
  induction ho with
  | root => exact ha
  | child _ hn _ _ ih => exact ih (Root.alive_iff.2 ⟨_, hn⟩)

/-- membership in the forest list = live and owned by one of the roots -/
theorem Forest.mem_iff {r : Root} {cs S : List Id} (h : Forest r cs S) (j : Id) :
    j ∈ S ↔ (∃ c ∈ cs, Owned r c j) ∧ r.alive j = true := by
  constructor
  · intro hj
    refine ⟨?_, h.alive j hj⟩
    induction h generalizing j with
    | nil => simp at hj
    | dead _ _ ih =>
      obtain ⟨c, hc, ho⟩ := ih j hj
      exact ⟨c, by simp [hc], ho⟩
    | @live c cs S1 S2 n hc hk _ ih1 ih2 =>
      simp only [List.cons_append, List.mem_cons, List.mem_append] at hj
      rcases hj with rfl | hj | hj
      · exact ⟨j, by simp, .root⟩
      · obtain ⟨c', hc', ho⟩ := ih1 j hj
        have hc'a : r.alive c' = true := ho.root_alive (hk.alive _ hj)
        exact ⟨c, by simp, Owned.trans (.child .root hc hc' hc'a) ho⟩
      · obtain ⟨c', hc', ho⟩ := ih2 j hj
        exact ⟨c', by simp [hc'], ho⟩
  · rintro ⟨⟨c, hc, ho⟩, ha⟩
    induction ho with
    | root => exact h.root_mem c hc ha
    | child ho' hn hj ha' ih =>
      exact h.closed _ (ih (Root.alive_iff.2 ⟨_, hn⟩)) _ hn _ hj ha

/-- transfer of a forest between two arenas that agree (liveness, `children`) on a hereditary set of
"good" ids containing the roots -/
theorem Forest.transfer {r r' : Root} (Good : Id → Prop)
    (hdead : ∀ j, Good j → r'.get? j = none → r.get? j = none)
    (hlive : ∀ j n', Good j → r'.get? j = some n' →
      ∃ n, r.get? j = some n ∧ n.children = n'.children ∧ ∀ c ∈ n'.children, Good c)
    {cs S : List Id} (h : Forest r' cs S) (hg : ∀ c ∈ cs, Good c) : Forest r cs S := by
  induction h with
  | nil => exact .nil
  | dead hc _ ih =>
    exact .dead (hdead _ (hg _ (by simp)) hc) (ih fun c hc => hg c (by simp [hc]))
  | live hc _ _ ih1 ih2 =>
    obtain ⟨n, hn, hch, hgc⟩ := hlive _ _ (hg _ (by simp)) hc
    exact .live hn (hch ▸ ih1 hgc) (ih2 fun c hc => hg c (by simp [hc]))

/-! ### 7. the specification of disposal -/

/-- the cleanups registered on node `j` (`[]` if dead) -/
def cleanupsOf (r : Root) (j : Id) : List Closure :=
  match r.get? j with
  | some n => n.cleanups
  | none => []

/-- the invariants used during a disposal (they hold in every intermediate state) -/
structure DispInv (r : Root) : Prop where
  nd : NoDangling r
  sym : EdgesSym r
  tree : TreeOk r

/-- all cleanups registered in the ownership subtrees of `cs` are inert -/
def InertIn (r : Root) (cs : List Id) : Prop :=
  ∀ c ∈ cs, ∀ j n, Owned r c j → r.get? j = some n → ∀ cl ∈ n.cleanups, InertBody cl.body

/-- no live node lists a live member of `cs` as a child -/
def Unlisted (r : Root) (cs : List Id) : Prop :=
  ∀ c ∈ cs, r.alive c = true → ∀ i n, r.get? i = some n → c ∉ n.children

/-- outcome of disposing the roots `cs`: exactly the forest `S` is removed, `evs` is appended to the
trace -/
structure Disposed (r : Root) (cs : List Id) (r' : Root) (S : List Id) (evs : List Event) : Prop where
  forest : Forest r cs S
  removed : Removed r S r'
  frame : FrameT r r' evs
  nodup : S.Nodup
  count : r'.liveCount + S.length = r.liveCount
  tags : evs.map Event.cleanupTag = (S.flatMap (cleanupsOf r)).map (fun cl => some cl.tag)

theorem flatMap_congr' {α β : Type} {f g : α → List β} {l : List α} (h : ∀ a ∈ l, f a = g a) :
    l.flatMap f = l.flatMap g := by
  induction l with
  | nil => rfl
  | cons a l ih =>
    simp only [List.flatMap_cons, h a (by simp)]
    rw [ih fun b hb => h b (by simp [hb])]

theorem Removed.dispInv {r r' : Root} {S : List Id} (h : Removed r S r') (inv : DispInv r) : DispInv r' :=
  ⟨h.preserves.1 inv.nd, h.preserves.2 inv.sym, h.shrinks.treeOk inv.tree⟩

theorem Removed.cleanupsOf {r r' : Root} {S : List Id} (h : Removed r S r') {j : Id}
    (ha : r'.alive j = true) : cleanupsOf r' j = cleanupsOf r j := by
  obtain ⟨n', hn'⟩ := Root.alive_iff.1 ha
  obtain ⟨_, n, hn, rfl⟩ := h.get?_some hn'
  simp [Reactive.cleanupsOf, hn', hn, eraseIds]

def PNode (f : Nat) : Prop :=
  ∀ r id r', DispInv r → InertIn r [id] → disposeNode f r id = .ok r' → ∃ S evs, Disposed r [id] r' S evs

def PList (f : Nat) : Prop :=
  ∀ r cs r', DispInv r → InertIn r cs → cs.Nodup → Unlisted r cs → disposeList f r cs = .ok r' →
    ∃ S evs, Disposed r cs r' S evs

/-- the forest removed by disposing the first root is closed under "is listed by", so the rest of
the roots see their own subtrees untouched -/
theorem forest_tail_transfer {r r2 : Root} {c : Id} {cs S1 S2 : List Id} (inv : DispInv r)
    (hnd : (c :: cs).Nodup) (hun : Unlisted r (c :: cs)) (h1 : Forest r [c] S1)
    (hrem : Removed r S1 r2) (h2 : Forest r2 cs S2) : Forest r cs S2 := by
  -- a member of `S1` that is listed by a live node `j` has `j ∈ S1`
  have closed : ∀ x ∈ S1, ∀ j n, r.get? j = some n → x ∈ n.children → j ∈ S1 := by
    intro x hx j n hn hxn
    have hxa := h1.alive x hx
    rcases h1.reach x hx with hxc | ⟨i, hi, m, hm, hxm⟩
    · simp only [List.mem_singleton] at hxc; subst hxc
      exact absurd hxn (hun x (by simp) hxa j n hn)
    · obtain ⟨mx, hmx⟩ := Root.alive_iff.1 hxa
      have p1 := inv.tree.parent i m hm x hxm mx hmx
      have p2 := inv.tree.parent j n hn x hxn mx hmx
      rw [p1] at p2; cases p2; exact hi
  refine Forest.transfer (fun j => j ∉ S1 ∨ r.get? j = none) ?_ ?_ h2 ?_
  · intro j hg hj
    rcases hg with hg | hg
    · rw [hrem j, if_neg hg] at hj
      cases h : r.get? j with
      | none => rfl
      | some n => simp [h] at hj
    · exact hg
  · intro j n' _ hn'
    obtain ⟨hjS, n, hn, rfl⟩ := hrem.get?_some hn'
    refine ⟨n, hn, rfl, ?_⟩
    intro x hx
    by_cases hxS : x ∈ S1
    · exact absurd (closed x hxS j n hn hx) hjS
    · exact .inl hxS
  · intro x hx
    by_cases hxa : r.alive x = true
    · left
      intro hxS
      rcases h1.reach x hxS with hxc | ⟨i, _, m, hm, hxm⟩
      · simp only [List.mem_singleton] at hxc; subst hxc
        exact (List.nodup_cons.1 hnd).1 hx
      · exact hun x (by simp [hx]) hxa i m hm hxm
    · right
      simpa [Root.alive] using hxa

/-- after disposing the first root, everything needed to dispose the remaining roots still holds -/
theorem tail_state {r r2 : Root} {c : Id} {cs S1 : List Id} (inv : DispInv r) (inert : InertIn r (c :: cs))
    (hun : Unlisted r (c :: cs)) (hrem : Removed r S1 r2) :
    DispInv r2 ∧ InertIn r2 cs ∧ Unlisted r2 cs := by
  refine ⟨hrem.dispInv inv, ?_, ?_⟩
  · intro c' hc' j n' ho hn' cl hcl
    obtain ⟨_, n, hn, rfl⟩ := hrem.get?_some hn'
    exact inert c' (by simp [hc']) j n (ho.mono hrem.shrinks) hn cl hcl
  · intro c' hc' ha i n' hn'
    obtain ⟨_, n, hn, rfl⟩ := hrem.get?_some hn'
    exact hun c' (by simp [hc']) (hrem.shrinks.alive ha) i n hn

theorem pList_succ {f : Nat} (hN : PNode f) (hL : PList f) : PList (f + 1) := by
  intro r cs r' inv inert hnd hun hx
  cases cs with
  | nil =>
    simp only [disposeList] at hx
    cases hx
    exact ⟨[], [], .nil, .refl r, .refl r, by simp, by simp, by simp⟩
  | cons c cs =>
    simp only [disposeList] at hx
    split at hx
    · cases hx
    · rename_i r2 h1
      obtain ⟨S1, e1, D1⟩ := hN r c r2 inv (fun c' hc' => inert c' (by simp_all)) h1
      obtain ⟨inv2, inert2, hun2⟩ := tail_state inv inert hun D1.removed
      obtain ⟨S2, e2, D2⟩ := hL r2 cs r' inv2 inert2 (List.nodup_cons.1 hnd).2 hun2 hx
      refine ⟨S1 ++ S2, e1 ++ e2, ?_, D1.removed.trans D2.removed, D1.frame.trans D2.frame, ?_, ?_, ?_⟩
      · exact Forest.append D1.forest (forest_tail_transfer inv hnd hun D1.forest D1.removed D2.forest)
      · refine List.nodup_append.2 ⟨D1.nodup, D2.nodup, ?_⟩
        intro a ha b hb hab
        subst hab
        have := D2.forest.alive a hb
        rw [D1.removed.alive] at this
        simp [ha] at this
      · have := D1.count; have := D2.count
        simp only [List.length_append]; omega
      · simp only [List.map_append, List.flatMap_append, D1.tags, D2.tags]
        rw [flatMap_congr' fun j hj => D1.removed.cleanupsOf (D2.forest.alive j hj)]


/-- general form of `Removed.preserves`: only the edge lists of the survivors matter -/
theorem edges_preserves {r r' : Root} {S : List Id}
    (h : ∀ j n', r'.get? j = some n' → j ∉ S ∧ ∃ n, r.get? j = some n ∧
      n'.dependents = (eraseIds S n).dependents ∧ n'.dependencies = (eraseIds S n).dependencies)
    (halive : ∀ j, r.alive j = true → j ∉ S → r'.alive j = true) :
    (NoDangling r → NoDangling r') ∧ (EdgesSym r → EdgesSym r') := by
  constructor
  · intro hnd i n' hn'
    obtain ⟨_, n, hn, e1, e2⟩ := h i n' hn'
    obtain ⟨hd1, hd2⟩ := hnd i n hn
    rw [e1, e2]
    constructor <;> intro d hd <;> simp [eraseIds, List.mem_filter] at hd
    · exact halive d (hd1 d hd.1) hd.2
    · exact halive d (hd2 d hd.1) hd.2
  · intro hs a b na' nb' ha hb
    obtain ⟨haS, na, hna, e1, _⟩ := h a na' ha
    obtain ⟨hbS, nb, hnb, _, e2⟩ := h b nb' hb
    have := hs a b na nb hna hnb
    rw [e1, e2]
    simp only [eraseIds]
    rw [List.count_filter (by simpa using hbS), List.count_filter (by simpa using haS), this]

/-- what `disposeChildren` leaves of the node itself -/
def cleared (n : Node) : Node := { n with cleanups := [], children := [], context := [] }

/-- outcome of `disposeChildren r id` on a live node `n`: the forest `S` below `id` is removed, `id`
itself survives, cleared -/
structure DisposedC (r : Root) (id : Id) (n : Node) (r' : Root) (S : List Id) (evs : List Event) : Prop where
  forest : Forest r n.children S
  get : ∀ j, r'.get? j = if j ∈ S then none else
    if j = id then some (cleared (eraseIds S n)) else (r.get? j).map (eraseIds S)
  frame : FrameT r r' evs
  nodup : S.Nodup
  gt : ∀ j ∈ S, id < j
  count : r'.liveCount + S.length = r.liveCount
  tags : evs.map Event.cleanupTag = (n.cleanups ++ S.flatMap (cleanupsOf r)).map (fun cl => some cl.tag)

/-- `disposeChildren` keeps the edge invariants -/
theorem DisposedC.edges {r r' : Root} {id : Id} {n : Node} {S : List Id} {evs : List Event}
    (D : DisposedC r id n r' S evs) (hn : r.get? id = some n) :
    (NoDangling r → NoDangling r') ∧ (EdgesSym r → EdgesSym r') := by
  refine edges_preserves (S := S) ?_ ?_
  · intro j n' hn'
    rw [D.get] at hn'
    split at hn'
    · cases hn'
    · rename_i hjS
      split at hn'
      · rename_i hj; subst hj; cases hn'
        exact ⟨hjS, n, hn, rfl, rfl⟩
      · rw [Option.map_eq_some_iff] at hn'
        obtain ⟨m, hm, rfl⟩ := hn'
        exact ⟨hjS, m, hm, rfl, rfl⟩
  · intro j ha hjS
    obtain ⟨m, hm⟩ := Root.alive_iff.1 ha
    simp only [Root.alive, D.get, hjS, if_false]
    split <;> simp [hm]

/-- an ownership path either is trivial or starts with a live child of the root -/
theorem Owned.head {r : Root} {a j : Id} (h : Owned r a j) :
    j = a ∨ ∃ c n, r.get? a = some n ∧ c ∈ n.children ∧ r.alive c = true ∧ Owned r c j := by
  induction h with
  | root => exact .inl rfl
  | @child i j n _ hn hj ha ih =>
    right
    rcases ih with rfl | ⟨c, m, hm, hc, hca, hoc⟩
    · exact ⟨j, n, hn, hj, ha, .root⟩
    · exact ⟨c, m, hm, hc, hca, .child hoc hn hj ha⟩

def PChildren (f : Nat) : Prop :=
  ∀ r id n r', DispInv r → InertIn r [id] → r.get? id = some n → disposeChildren f r id = .ok r' →
    ∃ S evs, DisposedC r id n r' S evs

/-- the state in which `disposeChildren` disposes the children: node `id` has its `cleanups` and
`children` taken out; everything needed for the children's disposal still holds -/
theorem children_state {r ra : Root} {id : Id} {n : Node} (inv : DispInv r) (hn : r.get? id = some n)
    (hnodes : ra.nodes = (r.setNode id { n with cleanups := [], children := [] }).nodes) :
    (∀ j, ra.get? j = if j = id then some { n with cleanups := [], children := [] } else r.get? j) ∧
    Shrinks r ra ∧ DispInv ra ∧ (InertIn r [id] → InertIn ra n.children) ∧ Unlisted ra n.children := by
  have hlt := Root.lt_size_of_get? hn
  have hget : ∀ j, ra.get? j = if j = id then some { n with cleanups := [], children := [] } else r.get? j := by
    intro j
    have := Root.get?_setNode r id j { n with cleanups := [], children := [] }
    simp only [hlt, and_true] at this
    rw [← this]; simp only [Root.get?, hnodes]
  have hsh : Shrinks r ra := by
    intro j n' hn'
    rw [hget] at hn'
    split at hn'
    · rename_i hj; subst hj; cases hn'
      exact ⟨n, hn, by simp, rfl, by simp⟩
    · exact ⟨n', hn', List.Sublist.refl _, rfl, fun _ h => h⟩
  have hedges := sameEdges_preserves (r := r) (r' := ra) (fun j =>
    ⟨fun m => if j = id then { m with cleanups := [], children := [] } else m,
      fun m => by split <;> simp,
      by rw [hget]; by_cases hj : j = id
         · subst hj; simp [hn]
         · cases r.get? j <;> simp [hj]⟩)
  refine ⟨hget, hsh, ⟨hedges.1 inv.nd, hedges.2 inv.sym, hsh.treeOk inv.tree⟩, ?_, ?_⟩
  · intro inert c hc j n' ho hn' cl hcl
    obtain ⟨m, hm, _, _, hcls⟩ := hsh j n' hn'
    have ho' := ho.mono hsh
    have hca := ho'.root_alive (Root.alive_iff.2 ⟨m, hm⟩)
    exact inert id (by simp) j m (Owned.trans (.child .root hn hc hca) ho') hm cl (hcls cl hcl)
  · intro c hc ha i ni hni hci
    rw [hget] at hni
    split at hni
    · cases hni; simp at hci
    · rename_i hi
      obtain ⟨mc, hmc⟩ := Root.alive_iff.1 (hsh.alive ha)
      have p1 := inv.tree.parent i ni hni c hci mc hmc
      have p2 := inv.tree.parent id n hn c hc mc hmc
      rw [p1] at p2; cases p2; exact hi rfl

theorem pChildren_core {f : Nat} (hL : PList f) {r ra r3 : Root} {id : Id} {n : Node} {e0 : List Event}
    (inv : DispInv r) (inert : InertIn r [id]) (hn : r.get? id = some n)
    (hnodes : ra.nodes = (r.setNode id { n with cleanups := [], children := [] }).nodes)
    (hfr : FrameT r ra e0) (ht0 : e0.map Event.cleanupTag = n.cleanups.map (fun cl => some cl.tag))
    (h3 : disposeList f ra n.children = .ok r3) :
    ∃ S evs, DisposedC r id n (r3.modify id fun n => { n with context := [] }) S evs := by
  obtain ⟨hget, hsh, inv_a, hinert, hun⟩ := children_state inv hn hnodes
  have inert_a := hinert inert
  obtain ⟨S, evs, D⟩ := hL ra n.children r3 inv_a inert_a (inv.tree.nodup id n hn) hun h3
  have hgt : ∀ j ∈ S, id < j := by
    intro j hj
    obtain ⟨c, hc, hle⟩ := D.forest.ge_root inv_a.tree j hj
    exact Nat.lt_of_lt_of_le (inv.tree.lt id n hn c hc) hle
  have hidS : id ∉ S := fun h => Nat.lt_irrefl _ (hgt id h)
  refine ⟨S, e0 ++ evs, ?_, ?_, ?_, D.nodup, hgt, ?_, ?_⟩
  · refine Forest.transfer (fun j => id < j) ?_ ?_ D.forest (inv.tree.lt id n hn)
    · intro j hj hd
      rw [hget, if_neg (Nat.ne_of_gt hj)] at hd; exact hd
    · intro j n' hj hn'
      rw [hget, if_neg (Nat.ne_of_gt hj)] at hn'
      exact ⟨n', hn', rfl, fun c hc => Nat.lt_trans hj (inv.tree.lt j n' hn' c hc)⟩
  · intro j
    rw [Root.get?_modify]
    by_cases hj : j = id
    · subst hj; rw [D.removed j, hget j]; simp [hidS, cleared, eraseIds]
    · rw [D.removed j, hget j]; by_cases hjS : j ∈ S <;> simp [hj, hjS]
  · have := (hfr.trans D.frame).trans
      (FrameT.of_sameFrame (SameFrame.modify r3 id fun n => { n with context := [] }))
    simpa using this
  · rw [liveCount_modify, D.count]
    have : ra.liveCount = (r.setNode id { n with cleanups := [], children := [] }).liveCount := by
      simp only [Root.liveCount, hnodes]
    rw [this, liveCount_setNode _ hn]
  · simp only [List.map_append, ht0, D.tags]
    congr 2
    apply flatMap_congr'
    intro j hj
    have : j ≠ id := Nat.ne_of_gt (hgt j hj)
    simp [cleanupsOf, hget, this]

theorem pChildren_succ {f : Nat} (hL : PList f) : PChildren (f + 1) := by
  intro r id n r' inv inert hn hx
  simp only [disposeChildren, hn] at hx
  split at hx
  · cases hx
  · rename_i r2 h2
    split at hx
    · cases hx
    · rename_i r3 h3
      cases hx
      obtain ⟨e0, hr2, ht0⟩ := runCleanups_inert_aux f n.cleanups
        (fun cl hcl => inert id (by simp) id n .root hn cl hcl) rfl h2
      subst hr2
      refine pChildren_core hL inv inert hn ?_ ?_ ht0 h3
      · rfl
      obtain ⟨a1, a2, a3, a4, a5, a6, a7, a8⟩ := SameFrame.setNode r id { n with cleanups := [], children := [] }
      exact ⟨a1, a2, a3, a4, a5, a6, a7, by simp [a8]⟩

theorem liveCount_unsubscribe (r : Root) (id : Id) : (unsubscribe r id).liveCount = r.liveCount := by
  unfold unsubscribe
  split
  · rfl
  · rw [liveCount_modify,
      liveCount_foldl_modify (fun _ n => { n with dependents := n.dependents.filter (· != id) })]

theorem eraseIds_unlinked {S : List Id} {id j : Id} (hj : j ≠ id) (hid : id ∈ S) (m : Node) :
    eraseIds S (unlinked id j m) = eraseIds S m := by
  simp only [eraseIds, unlinked, if_neg hj, List.filter_filter]
  congr 1
  apply List.filter_congr; intro d _
  by_cases hd : d = id
  · subst hd; simp [hid]
  · simp [hd]

theorem unsubscribe_shrinks (r : Root) (id : Id) : Shrinks r (unsubscribe r id) := by
  intro j n' hn'
  obtain ⟨g, hg, hf⟩ := unsubscribe_get?_fields r id j
  rw [hg, Option.map_eq_some_iff] at hn'
  obtain ⟨n, hn, rfl⟩ := hn'
  obtain ⟨_, _, h3, h4, h5, _⟩ := hf n
  exact ⟨n, hn, by rw [h3]; exact List.Sublist.refl _, h4, by rw [h5]; exact fun _ h => h⟩

theorem unsubscribe_cleanupsOf (r : Root) (id : Id) : cleanupsOf (unsubscribe r id) = cleanupsOf r := by
  funext j
  obtain ⟨g, hg, hf⟩ := unsubscribe_get?_fields r id j
  simp only [cleanupsOf, hg]
  cases r.get? j with
  | none => rfl
  | some n => simp [(hf n).2.2.2.2.1]

/-- a forest of the arena after `unsubscribe` is a forest of the arena before -/
theorem Forest.of_unsubscribe {r : Root} {id : Id} {cs S : List Id}
    (h : Forest (unsubscribe r id) cs S) : Forest r cs S := by
  refine Forest.transfer (fun _ => True) ?_ ?_ h (fun _ _ => trivial)
  · intro j _ hd
    obtain ⟨g, hg, _⟩ := unsubscribe_get?_fields r id j
    rw [hg] at hd
    cases hj : r.get? j with
    | none => rfl
    | some m => simp [hj] at hd
  · intro j n' _ hn'
    obtain ⟨g, hg, hf⟩ := unsubscribe_get?_fields r id j
    rw [hg, Option.map_eq_some_iff] at hn'
    obtain ⟨m, hm, rfl⟩ := hn'
    exact ⟨m, hm, ((hf m).2.2.1).symm, fun _ _ => trivial⟩

/-- the state in which `disposeNode` disposes the children of `id`: `id` has left the subscriber lists
of its dependencies; everything needed for `disposeChildren` still holds -/
theorem unsubscribe_state {r : Root} (inv : DispInv r) (id : Id) :
    (∀ j, (unsubscribe r id).get? j = (r.get? j).map (unlinked id j)) ∧
    DispInv (unsubscribe r id) ∧
    (∀ cs, InertIn r cs → InertIn (unsubscribe r id) cs) ∧
    FrameT r (unsubscribe r id) [] := by
  obtain ⟨hget, _, hnd, hs, hsf⟩ := unsubscribe_spec inv.nd inv.sym id
  have hsh := unsubscribe_shrinks r id
  refine ⟨hget, ⟨hnd, hs, hsh.treeOk inv.tree⟩, ?_, FrameT.of_sameFrame hsf⟩
  intro cs inert c hc j n' ho hn' cl hcl
  obtain ⟨n, hn, _, _, hcls⟩ := hsh j n' hn'
  exact inert c hc j n (ho.mono hsh) hn cl (hcls cl hcl)

/-- the loop of `disposeNode` (D23) has nothing to do on a dead node -/
theorem disposeRest_dead {f : Nat} {r : Root} {id : Id} (h : r.get? id = none) :
    disposeRest (f + 1) r id = .ok r := by
  simp [disposeRest, h]

/-- the loop of `disposeNode` (D23) has nothing to do on a node that holds no children and no cleanups -/
theorem disposeRest_drained {f : Nat} {r : Root} {id : Id} {n : Node} (h : r.get? id = some n)
    (hc : n.children = []) (hl : n.cleanups = []) : disposeRest (f + 1) r id = .ok r := by
  simp [disposeRest, h, hc, hl]

theorem pNode_succ {f : Nat} (hC : PChildren f) : PNode (f + 1) := by
  intro r id r' inv inert hx
  simp only [disposeNode] at hx
  split at hx
  · cases hx
  · rename_i r2 h1
    cases hn : r.get? id with
    | none =>
      rw [unsubscribe_dead hn] at h1
      cases f with
      | zero => simp [disposeChildren] at h1
      | succ f =>
        simp only [disposeChildren, hn] at h1
        cases h1
        rw [disposeRest_dead hn] at hx
        cases hx
        rw [removeNode_dead hn]
        exact ⟨[], [], .dead hn .nil, .refl r, .refl r, by simp, by simp, by simp⟩
    | some n =>
      obtain ⟨hget1, inv1, hinert1, hfr1⟩ := unsubscribe_state inv id
      have hn1 : (unsubscribe r id).get? id = some (unlinked id id n) := by rw [hget1, hn]; rfl
      obtain ⟨S, evs, D⟩ := hC (unsubscribe r id) id (unlinked id id n) r2 inv1 (hinert1 _ inert) hn1 h1
      have hidS : id ∉ S := fun h => Nat.lt_irrefl _ (D.gt id h)
      have hid2 : r2.get? id = some (cleared (eraseIds S (unlinked id id n))) := by
        rw [D.get]; simp [hidS]
      obtain ⟨f0, rfl⟩ : ∃ f0, f = f0 + 1 := by
        cases f with
        | zero => simp [disposeChildren] at h1
        | succ f0 => exact ⟨f0, rfl⟩
      rw [disposeRest_drained hid2 rfl rfl] at hx
      cases hx
      have hedges := D.edges hn1
      have hrem := removeNode_removed (hedges.1 inv1.nd) (hedges.2 inv1.sym) id
      have hfor : Forest r n.children S := Forest.of_unsubscribe D.forest
      refine ⟨id :: S, evs, Forest.single_live hn hfor, ?_, ?_, ?_, ?_, ?_⟩
      · intro j
        rw [hrem j, D.get, hget1]
        by_cases hj : j = id
        · subst hj; simp
        · by_cases hjS : j ∈ S
          · simp [hj, hjS]
          · simp only [hj, if_false, hjS, List.mem_cons, false_or]
            cases r.get? j with
            | none => rfl
            | some m =>
              simp only [Option.map_some, eraseIds_eraseIds]
              rw [eraseIds_congr (S := S ++ [id]) (S' := id :: S) (by simp; intro d; exact Or.comm),
                eraseIds_unlinked hj (by simp)]
              simp
      · have := (hfr1.trans D.frame).trans
          (FrameT.of_sameFrame (removeNode_spec (hedges.1 inv1.nd) (hedges.2 inv1.sym) id).2.2.2.2.1)
        simpa using this
      · exact List.nodup_cons.2 ⟨hidS, D.nodup⟩
      · have := liveCount_removeNode hid2
        have := D.count
        have := liveCount_unsubscribe r id
        simp only [List.length_cons]; omega
      · rw [D.tags, unsubscribe_cleanupsOf]; simp [cleanupsOf, hn, unlinked]

theorem dispose_all (f : Nat) : PNode f ∧ PList f ∧ PChildren f := by
  induction f with
  | zero =>
    refine ⟨?_, ?_, ?_⟩
    · intro r id r' _ _ hx; simp [disposeNode] at hx
    · intro r cs r' _ _ _ _ hx; simp [disposeList] at hx
    · intro r id n r' _ _ _ hx; simp [disposeChildren] at hx
  | succ f ih => exact ⟨pNode_succ ih.2.2, pList_succ ih.1 ih.2.1, pChildren_succ ih.2.1⟩

/-! ### 8. totality: inert cleanups that read live, valued handles do not fail -/

def bodyLen : Body → Nat
  | .nil => 0
  | .cons _ rest => bodyLen rest + 1

/-- the handle index an inert statement refers to -/
def stmtHandle : Stmt → Option Nat
  | .read h => some h
  | .readU h => some h
  | .track h => some h
  | _ => none

/-- every statement of the body names a handle of the environment of kind signal/memo whose node
satisfies `P` -/
def HandlesOk (env : List Handle) (P : Id → Prop) : Body → Prop
  | .nil => True
  | .cons s rest =>
    (∀ h, stmtHandle s = some h → ∃ hd, env[h]? = some hd ∧ isValueKind hd.kind = true ∧ P hd.id) ∧
    HandlesOk env P rest

theorem HandlesOk.mono {env : List Handle} {P Q : Id → Prop} (hPQ : ∀ x, P x → Q x) :
    ∀ {b : Body}, HandlesOk env P b → HandlesOk env Q b
  | .nil, _ => trivial
  | .cons _ _, h => ⟨fun x hx => by
      obtain ⟨hd, h1, h2, h3⟩ := h.1 x hx
      exact ⟨hd, h1, h2, hPQ _ h3⟩, HandlesOk.mono hPQ h.2⟩

/-- the node is alive and holds a value (`get_untracked` does not panic) -/
def HasValue (r : Root) (x : Id) : Prop := ∃ n v, r.get? x = some n ∧ n.value = some v

theorem execStmt_inert_ok {fuel : Nat} {r : Root} {c : Ctx} {s : Stmt} (hs : InertStmt s)
    (hh : ∀ h, stmtHandle s = some h → ∃ hd, c.env[h]? = some hd ∧ isValueKind hd.kind = true ∧ HasValue r hd.id)
    (ht : r.tracker = none) : ∃ c', execStmt (fuel + 1) r c s = .ok (r, c') ∧ c'.env = c.env := by
  cases s <;> simp only [InertStmt] at hs
  · rename_i h
    obtain ⟨hd, h1, h2, n, v, hn, hv⟩ := hh h rfl
    have htr : track r hd.id = r := by simp [track, ht]
    exact ⟨{ c with acc := mix c.acc v, obs := c.obs ++ [.read hd.id v] },
      by simp [execStmt, lookup, h1, h2, htr, getUntracked, hn, hv], rfl⟩
  · rename_i h
    obtain ⟨hd, h1, h2, n, v, hn, hv⟩ := hh h rfl
    exact ⟨{ c with acc := mix c.acc v, obs := c.obs ++ [.read hd.id v] },
      by simp [execStmt, lookup, h1, h2, getUntracked, hn, hv], rfl⟩
  · rename_i h
    obtain ⟨hd, h1, h2, _⟩ := hh h rfl
    have htr : track r hd.id = r := by simp [track, ht]
    exact ⟨c, by simp [execStmt, lookup, h1, h2, htr], rfl⟩

theorem execBody_inert_ok : ∀ (fuel : Nat) {r : Root} {c : Ctx} {b : Body}, InertBody b →
    HandlesOk c.env (HasValue r) b → r.tracker = none → bodyLen b + 1 ≤ fuel →
    ∃ c', execBody fuel r c b = .ok (r, c')
  | 0, _, _, _, _, _, _, hf => by omega
  | fuel + 1, r, c, .nil, _, _, _, _ => ⟨c, by simp [execBody]⟩
  | fuel + 1, r, c, .cons s rest, hb, hh, ht, hf => by
    simp only [bodyLen] at hf
    obtain ⟨f', rfl⟩ : ∃ f', fuel = f' + 1 := ⟨fuel - 1, by omega⟩
    obtain ⟨c1, h1, he⟩ := execStmt_inert_ok (fuel := f') (c := c) hb.1 hh.1 ht
    obtain ⟨c2, h2⟩ := execBody_inert_ok (f' + 1) (c := c1) hb.2 (he ▸ hh.2) ht (by omega)
    exact ⟨c2, by simp only [execBody, h1, h2]⟩

theorem runClosure_inert_ok {fuel : Nat} {r : Root} {cl : Closure} (hb : InertBody cl.body)
    (hh : HandlesOk cl.env (HasValue r) cl.body) (ht : r.tracker = none)
    (hf : bodyLen cl.body + 2 ≤ fuel) : ∃ v obs, runClosure fuel r cl = .ok (r, v, obs) := by
  obtain ⟨f', rfl⟩ : ∃ f', fuel = f' + 1 := ⟨fuel - 1, by omega⟩
  obtain ⟨c', h⟩ := execBody_inert_ok f' (r := r) (c := ⟨cl.env, 0, []⟩) hb hh ht (by omega)
  exact ⟨c'.acc, c'.obs, by simp only [runClosure, h]⟩

/-- fuel that suffices to run a list of inert cleanups -/
def cleanupsFuel : List Closure → Nat
  | [] => 1
  | cl :: cls => bodyLen cl.body + 3 + cleanupsFuel cls

theorem runCleanups_inert_ok : ∀ (cls : List Closure) (fuel : Nat) {r : Root},
    (∀ cl ∈ cls, InertBody cl.body ∧ HandlesOk cl.env (HasValue r) cl.body) → r.tracker = none →
    cleanupsFuel cls ≤ fuel → ∃ r', runCleanups fuel r cls = .ok r'
  | [], fuel, r, _, _, hf => by
    obtain ⟨f', rfl⟩ : ∃ f', fuel = f' + 1 := ⟨fuel - 1, by simp [cleanupsFuel] at hf; omega⟩
    exact ⟨r, by simp [runCleanups]⟩
  | cl :: cls, fuel, r, h, ht, hf => by
    simp only [cleanupsFuel] at hf
    obtain ⟨f', rfl⟩ : ∃ f', fuel = f' + 1 := ⟨fuel - 1, by omega⟩
    obtain ⟨v, obs, h1⟩ := runClosure_inert_ok (fuel := f') (h cl (by simp)).1 (h cl (by simp)).2 ht (by omega)
    obtain ⟨r', h2⟩ := runCleanups_inert_ok cls f' (r := { r with trace := r.trace ++ [.cleanup cl.tag obs] })
      (fun c hc => h c (by simp [hc])) ht (by omega)
    exact ⟨r', by simp only [runCleanups, h1, h2]⟩

theorem cleanupsFuel_pos (cls : List Closure) : 1 ≤ cleanupsFuel cls := by
  cases cls <;> simp [cleanupsFuel]; omega

/-- the cleanups of the subtrees of `cs` only read live, valued nodes outside these subtrees -/
def ReadableIn (r : Root) (cs : List Id) : Prop :=
  ∀ c ∈ cs, ∀ j n, Owned r c j → r.get? j = some n → ∀ cl ∈ n.cleanups,
    HandlesOk cl.env (fun x => HasValue r x ∧ ∀ c' ∈ cs, ¬ Owned r c' x) cl.body

/-- size bounds that determine the fuel -/
structure Bounds (r : Root) (K W : Nat) : Prop where
  children : ∀ j n, r.get? j = some n → n.children.length ≤ K
  cleanups : ∀ j n, r.get? j = some n → cleanupsFuel n.cleanups ≤ W

/-- fuel that suffices to dispose a node `id` with `r.nodes.size - id ≤ m` -/
def needFuel (K W m : Nat) : Nat := W + 3 + m * (K + 3)

theorem needFuel_succ (K W m : Nat) : needFuel K W (m + 1) = needFuel K W m + (K + 3) := by
  simp only [needFuel, Nat.add_mul]; omega

def TNode (K W m : Nat) : Prop :=
  ∀ r id, r.nodes.size - id ≤ m → DispInv r → InertIn r [id] → ReadableIn r [id] → Bounds r K W →
    ∀ f, needFuel K W m ≤ f → ∃ r', disposeNode f r id = .ok r'

def TList (K W m : Nat) : Prop :=
  ∀ cs r, (∀ c ∈ cs, r.nodes.size - c ≤ m) → DispInv r → InertIn r cs → ReadableIn r cs → cs.Nodup →
    Unlisted r cs → Bounds r K W →
    ∀ f, needFuel K W m + cs.length + 1 ≤ f → ∃ r', disposeList f r cs = .ok r'

theorem Removed.hasValue {r r' : Root} {S : List Id} (h : Removed r S r') {x : Id}
    (hv : HasValue r x) (hx : x ∉ S) : HasValue r' x := by
  obtain ⟨n, v, hn, hnv⟩ := hv
  exact ⟨eraseIds S n, v, by rw [h x, if_neg hx, hn]; rfl, hnv⟩

theorem tList_of_tNode {K W m : Nat} (hN : TNode K W m) : TList K W m := by
  intro cs
  induction cs with
  | nil =>
    intro r _ _ _ _ _ _ _ f hf
    obtain ⟨f', rfl⟩ : ∃ f', f = f' + 1 := ⟨f - 1, by omega⟩
    exact ⟨r, by simp [disposeList]⟩
  | cons c cs ih =>
    intro r hsz inv inert hread hnd hun hb f hf
    simp only [List.length_cons] at hf
    obtain ⟨f', rfl⟩ : ∃ f', f = f' + 1 := ⟨f - 1, by omega⟩
    have inert1 : InertIn r [c] := fun c' hc' => inert c' (by simp_all)
    have hread1 : ReadableIn r [c] := by
      intro c' hc' j n ho hn cl hcl
      simp only [List.mem_singleton] at hc'; subst hc'
      refine (hread c' (by simp) j n ho hn cl hcl).mono ?_
      intro x hx
      exact ⟨hx.1, fun c'' hc'' => hx.2 c'' (by simp_all)⟩
    obtain ⟨r2, h1⟩ := hN r c (hsz c (by simp)) inv inert1 hread1 hb f' (by omega)
    obtain ⟨S1, e1, D1⟩ := (dispose_all f').1 r c r2 inv inert1 h1
    obtain ⟨inv2, inert2, hun2⟩ := tail_state inv inert hun D1.removed
    have hread2 : ReadableIn r2 cs := by
      intro c' hc' j n' ho hn' cl hcl
      obtain ⟨_, n, hn, rfl⟩ := D1.removed.get?_some hn'
      refine (hread c' (by simp [hc']) j n (ho.mono D1.removed.shrinks) hn cl hcl).mono ?_
      intro x hx
      have hxS : x ∉ S1 := by
        intro hxS
        have := (D1.forest.mem_iff x).1 hxS
        obtain ⟨⟨c0, hc0, ho0⟩, _⟩ := this
        simp only [List.mem_singleton] at hc0; subst hc0
        exact hx.2 c0 (by simp) ho0
      exact ⟨D1.removed.hasValue hx.1 hxS,
        fun c'' hc'' ho'' => hx.2 c'' (by simp [hc'']) (ho''.mono D1.removed.shrinks)⟩
    have hb2 : Bounds r2 K W := by
      constructor
      · intro j n' hn'
        obtain ⟨_, n, hn, rfl⟩ := D1.removed.get?_some hn'
        exact hb.children j n hn
      · intro j n' hn'
        obtain ⟨_, n, hn, rfl⟩ := D1.removed.get?_some hn'
        exact hb.cleanups j n hn
    obtain ⟨r', h2⟩ := ih r2 (fun c' hc' => by rw [D1.frame.size]; exact hsz c' (by simp [hc']))
      inv2 inert2 hread2 (List.nodup_cons.1 hnd).2 hun2 hb2 f' (by omega)
    exact ⟨r', by simp only [disposeList, h1, h2]⟩

theorem tNode_dead {K W m : Nat} {r : Root} {id : Id} (hn : r.get? id = none) (f : Nat)
    (hf : needFuel K W m ≤ f) : ∃ r', disposeNode f r id = .ok r' := by
  obtain ⟨f', rfl⟩ : ∃ f', f = f' + 2 := ⟨f - 2, by simp only [needFuel] at hf; omega⟩
  exact ⟨r, by simp [disposeNode, disposeChildren, disposeRest, unsubscribe, hn, removeNode]⟩

theorem sz_step (s i c m : Nat) (h1 : s - i ≤ m + 1) (h2 : i < c) : s - c ≤ m := by omega

/-- totality of `disposeChildren` on a live node, given totality of `disposeList` one level down -/
theorem tChildren_succ {K W m : Nat} (hL : TList K W m) {r : Root} {id : Id} {n : Node}
    (hsz : r.nodes.size - id ≤ m + 1) (inv : DispInv r) (inert : InertIn r [id]) (hread : ReadableIn r [id])
    (hb : Bounds r K W) (hn : r.get? id = some n) (f2 : Nat) (hf : needFuel K W m + (K + 3) ≤ f2 + 2) :
    ∃ r', disposeChildren (f2 + 1) r id = .ok r' := by
  have hW : W + 3 ≤ needFuel K W m := by simp only [needFuel]; omega
  -- the state in which the cleanups run
  obtain ⟨hget1, _, _, _, _⟩ := children_state
    (ra := { (r.setNode id { n with cleanups := [], children := [] }) with tracker := none }) inv hn rfl
  have hv1 : ∀ x, HasValue r x →
      HasValue { (r.setNode id { n with cleanups := [], children := [] }) with tracker := none } x := by
    intro x ⟨nx, v, hnx, hv⟩
    by_cases hx : x = id
    · subst hx; rw [hn] at hnx; cases hnx
      exact ⟨{ n with cleanups := [], children := [] }, v, by rw [hget1]; simp, hv⟩
    · exact ⟨nx, v, by rw [hget1]; simp [hx, hnx], hv⟩
  obtain ⟨r2, h2⟩ := runCleanups_inert_ok n.cleanups f2
    (r := { (r.setNode id { n with cleanups := [], children := [] }) with tracker := none })
    (fun cl hcl => ⟨inert id (by simp) id n .root hn cl hcl,
      (hread id (by simp) id n .root hn cl hcl).mono fun x hx => hv1 x hx.1⟩) rfl
    (by have := hb.cleanups id n hn; omega)
  obtain ⟨e0, hr2, _⟩ := runCleanups_inert_aux f2 n.cleanups
    (fun cl hcl => inert id (by simp) id n .root hn cl hcl) rfl h2
  subst hr2
  -- the state in which the children are disposed
  generalize hra : ({ ({ ({ (r.setNode id { n with cleanups := [], children := [] }) with tracker := none } : Root) with
      trace := ({ (r.setNode id { n with cleanups := [], children := [] }) with tracker := none } : Root).trace ++ e0 } : Root) with
      tracker := (r.setNode id { n with cleanups := [], children := [] }).tracker } : Root) = ra
  have hnodes : ra.nodes = (r.setNode id { n with cleanups := [], children := [] }).nodes := by
    subst hra; rfl
  obtain ⟨hget, hsh, inv_a, hinert, hun⟩ := children_state inv hn hnodes
  have hsize : ra.nodes.size = r.nodes.size := by
    rw [hnodes]; exact (SameFrame.setNode r id _).1
  have hread_a : ReadableIn ra n.children := by
    intro c hc j n' ho hn' cl hcl
    obtain ⟨mj, hmj, _, _, hcls⟩ := hsh j n' hn'
    have ho' := ho.mono hsh
    have hca := ho'.root_alive (Root.alive_iff.2 ⟨mj, hmj⟩)
    refine (hread id (by simp) j mj (Owned.trans (.child .root hn hc hca) ho') hmj cl (hcls cl hcl)).mono ?_
    intro x hx
    have hxid : x ≠ id := fun e => hx.2 id (by simp) (e ▸ .root)
    obtain ⟨nx, v, hnx, hv⟩ := hx.1
    refine ⟨⟨nx, v, by rw [hget]; simp [hxid, hnx], hv⟩, ?_⟩
    intro c' hc' hox
    have hox' := hox.mono hsh
    have hc'a := hox'.root_alive (Root.alive_iff.2 ⟨nx, hnx⟩)
    exact hx.2 id (by simp) (Owned.trans (.child .root hn hc' hc'a) hox')
  have hb_a : Bounds ra K W := by
    constructor
    · intro j n' hn'
      rw [hget] at hn'
      split at hn'
      · cases hn'; simp
      · exact hb.children j n' hn'
    · intro j n' hn'
      rw [hget] at hn'
      split at hn'
      · cases hn'
        have := hb.cleanups id n hn
        have := cleanupsFuel_pos n.cleanups
        simp only [cleanupsFuel]; omega
      · exact hb.cleanups j n' hn'
  obtain ⟨r3, h3⟩ := hL n.children ra
    (fun c hc => by rw [hsize]; exact sz_step _ _ _ _ hsz (inv.tree.lt id n hn c hc))
    inv_a (hinert inert) hread_a (inv.tree.nodup id n hn) hun hb_a f2
    (by have := hb.children id n hn; omega)
  subst hra
  refine ⟨r3.modify id fun n => { n with context := [] }, ?_⟩
  simp only [disposeChildren, hn, h2, h3]

theorem tNode_succ {K W m : Nat} (hL : TList K W m) : TNode K W (m + 1) := by
  intro r id hsz inv inert hread hb f hf
  cases hn : r.get? id with
  | none => exact tNode_dead hn f hf
  | some n =>
    rw [needFuel_succ] at hf
    obtain ⟨f2, rfl⟩ : ∃ f2, f = f2 + 2 := ⟨f - 2, by simp only [needFuel] at hf; omega⟩
    obtain ⟨hget1, inv1, hinert1, hfr1⟩ := unsubscribe_state inv id
    have hsh := unsubscribe_shrinks r id
    have hn1 : (unsubscribe r id).get? id = some (unlinked id id n) := by rw [hget1, hn]; rfl
    have hread1 : ReadableIn (unsubscribe r id) [id] := by
      intro c hc j n' ho hn' cl hcl
      obtain ⟨mj, hmj, _, _, hcls⟩ := hsh j n' hn'
      refine (hread c hc j mj (ho.mono hsh) hmj cl (hcls cl hcl)).mono ?_
      intro x hx
      obtain ⟨nx, v, hnx, hv⟩ := hx.1
      exact ⟨⟨unlinked id x nx, v, by rw [hget1, hnx]; rfl, hv⟩,
        fun c' hc' ho' => hx.2 c' hc' (ho'.mono hsh)⟩
    have hb1 : Bounds (unsubscribe r id) K W := by
      constructor
      · intro j n' hn'
        rw [hget1, Option.map_eq_some_iff] at hn'
        obtain ⟨mj, hmj, rfl⟩ := hn'
        exact hb.children j mj hmj
      · intro j n' hn'
        rw [hget1, Option.map_eq_some_iff] at hn'
        obtain ⟨mj, hmj, rfl⟩ := hn'
        exact hb.cleanups j mj hmj
    obtain ⟨r3, h3⟩ := tChildren_succ hL (by rw [hfr1.size]; exact hsz) inv1 (hinert1 _ inert) hread1 hb1 hn1 f2 hf
    obtain ⟨S, evs, D⟩ := (dispose_all (f2 + 1)).2.2 _ id _ r3 inv1 (hinert1 _ inert) hn1 h3
    have hidS : id ∉ S := fun h => Nat.lt_irrefl _ (D.gt id h)
    have hid3 : r3.get? id = some (cleared (eraseIds S (unlinked id id n))) := by
      rw [D.get]; simp [hidS]
    exact ⟨removeNode r3 id, by simp only [disposeNode, h3, disposeRest_drained hid3 rfl rfl]⟩

theorem tNode_all (K W : Nat) : ∀ m, TNode K W m
  | 0 => by
    intro r id hsz _ _ _ _ f hf
    exact tNode_dead (Root.get?_eq_none_of_size_le (by omega)) f hf
  | m + 1 => tNode_succ (tList_of_tNode (tNode_all K W m))


/-- a bound for a per-node quantity: its sum over the arena -/
def sumOver (r : Root) (g : Node → Nat) : Nat :=
  (r.nodes.toList.map fun o => match o with | some n => g n | none => 0).sum

theorem le_sum_of_mem {l : List Nat} {a : Nat} (h : a ∈ l) : a ≤ l.sum := by
  induction l with
  | nil => simp at h
  | cons b l ih =>
    simp only [List.mem_cons] at h
    simp only [List.sum_cons]
    rcases h with rfl | h
    · omega
    · have := ih h; omega

theorem le_sumOver {r : Root} {j : Id} {n : Node} (g : Node → Nat) (h : r.get? j = some n) :
    g n ≤ sumOver r g := by
  apply le_sum_of_mem
  rw [List.mem_map]
  refine ⟨some n, ?_, rfl⟩
  have hlt := Root.lt_size_of_get? h
  simp only [Root.get?, Array.getElem?_eq_getElem hlt, Option.join_some] at h
  rw [← h]; simp

theorem bounds_exist (r : Root) :
    Bounds r (sumOver r fun n => n.children.length) (sumOver r fun n => cleanupsFuel n.cleanups) :=
  ⟨fun _ _ h => le_sumOver (fun n => n.children.length) h,
   fun _ _ h => le_sumOver (fun n => cleanupsFuel n.cleanups) h⟩

end SycVerif.Reactive
