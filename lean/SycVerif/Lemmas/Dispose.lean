import SycVerif.Lemmas.Edges
/-!
Helper lemmas for C04 (ownership / disposal): inert cleanup closures, the ownership forest, and the
specification of `disposeNode` / `disposeChildren` / `disposeList`.
The readable statements are in `SycVerif.Props.C04`.
-/
namespace SycVerif.Reactive

/-! ### 1. inert closures -/

/-- statements that cannot change the arena: untracked reads, and tracked reads / `track`, which
only touch `r.tracker` (and do nothing when no tracker is installed) -/
def InertStmt : Stmt → Prop
  | .readU _ => True
  | .read _ => True
  | .track _ => True
  | _ => False

/-- every statement of the body is inert -/
def InertBody : Body → Prop
  | .nil => True
  | .cons s rest => InertStmt s ∧ InertBody rest

/-- the strict class of the task statement: untracked reads only -/
def ReadUStmt : Stmt → Prop
  | .readU _ => True
  | _ => False

def ReadUBody : Body → Prop
  | .nil => True
  | .cons s rest => ReadUStmt s ∧ ReadUBody rest

theorem InertStmt.of_readU {s : Stmt} (h : ReadUStmt s) : InertStmt s := by
  cases s <;> simp_all [ReadUStmt, InertStmt]

theorem execStmt_inert {fuel : Nat} {r r' : Root} {c c' : Ctx} {s : Stmt} (hs : InertStmt s)
    (ht : r.tracker = none) (hx : execStmt fuel r c s = .ok (r', c')) : r' = r := by
  cases fuel with
  | zero => simp [execStmt] at hx
  | succ fuel =>
    cases s <;> simp only [InertStmt] at hs
    · -- read
      simp only [execStmt] at hx
      split at hx <;> try simp at hx
      split at hx <;> try simp at hx
      split at hx <;> try simp at hx
      rw [← hx.1]; simp [track, ht]
    · -- readU
      simp only [execStmt] at hx
      split at hx <;> try simp at hx
      split at hx <;> try simp at hx
      split at hx <;> try simp at hx
      exact hx.1.symm
    · -- track
      simp only [execStmt] at hx
      split at hx <;> try simp at hx
      split at hx <;> try simp at hx
      rw [← hx.1]; simp [track, ht]

theorem execBody_inert : ∀ (fuel : Nat) {r r' : Root} {c c' : Ctx} {b : Body}, InertBody b →
    r.tracker = none → execBody fuel r c b = .ok (r', c') → r' = r
  | 0, _, _, _, _, _, _, _, hx => by simp [execBody] at hx
  | fuel + 1, r, r', c, c', .nil, _, _, hx => by
    simp [execBody] at hx; exact hx.1.symm
  | fuel + 1, r, r', c, c', .cons s rest, hb, ht, hx => by
    simp only [execBody] at hx
    split at hx
    · simp at hx
    · rename_i r1 c1 h1
      have e1 := execStmt_inert hb.1 ht h1
      subst e1
      exact execBody_inert fuel hb.2 ht hx

theorem runClosure_inert {fuel : Nat} {r r' : Root} {cl : Closure} {v : Int} {obs : List Obs}
    (hb : InertBody cl.body) (ht : r.tracker = none)
    (hx : runClosure fuel r cl = .ok (r', v, obs)) : r' = r := by
  cases fuel with
  | zero => simp [runClosure] at hx
  | succ fuel =>
    simp only [runClosure] at hx
    split at hx
    · simp at hx
    · rename_i r1 c1 h1
      simp at hx
      rw [← hx.1]; exact execBody_inert fuel hb ht h1

/-- the tag of a cleanup event (`none` for `run` events) -/
def Event.cleanupTag : Event → Option Nat
  | .cleanup t _ => some t
  | .run .. => none

/-- item 2: running inert cleanup closures with no tracker installed changes nothing in the root
except appending one `Event.cleanup tag obs` per closure, in order, to the trace -/
theorem runCleanups_inert_aux : ∀ (fuel : Nat) (cls : List Closure) {r r' : Root},
    (∀ cl ∈ cls, InertBody cl.body) → r.tracker = none → runCleanups fuel r cls = .ok r' →
    ∃ evs, r' = { r with trace := r.trace ++ evs } ∧
      evs.map Event.cleanupTag = cls.map (fun cl => some cl.tag)
  | 0, _, _, _, _, _, hx => by simp [runCleanups] at hx
  | fuel + 1, [], r, r', _, _, hx => by
    simp [runCleanups] at hx; exact ⟨[], by simp [hx]⟩
  | fuel + 1, cl :: cls, r, r', hb, ht, hx => by
    simp only [runCleanups] at hx
    split at hx
    · simp at hx
    · rename_i r1 v obs h1
      have e1 := runClosure_inert (hb cl (by simp)) ht h1
      subst e1
      obtain ⟨evs, e, ht⟩ := runCleanups_inert_aux fuel cls (r := { r1 with trace := r1.trace ++ [.cleanup cl.tag obs] })
        (fun c hc => hb c (by simp [hc])) ht hx
      exact ⟨.cleanup cl.tag obs :: evs, by simp [e], by simp [ht, Event.cleanupTag]⟩

end SycVerif.Reactive
