import SycVerif.Spec.Route
namespace SycVerif.Route

theorem scan_spec {stop : Str} : ∀ {ps acc c r}, scan stop ps acc = some (c, r) →
    ∃ c', c = acc ++ c' ∧ ps = c' ++ stop :: r ∧ stop ∉ c'
  | [], acc, c, r, h => by simp [scan] at h
  | p :: ps, acc, c, r, h => by
    unfold scan at h
    split at h
    · rename_i hp
      simp at h; obtain ⟨rfl, rfl⟩ := h
      exact ⟨[], by simp, by simp [hp], by simp⟩
    · rename_i hp
      obtain ⟨c', h1, h2, h3⟩ := scan_spec h
      refine ⟨p :: c', by simp [h1], by simp [h2], ?_⟩
      simp; exact ⟨fun h => hp h.symm, h3⟩

theorem scan_complete {stop : Str} : ∀ (c r acc : List Str), stop ∉ c →
    scan stop (c ++ stop :: r) acc = some (acc ++ c, r)
  | [], r, acc, _ => by simp [scan]
  | p :: c, r, acc, h => by
    simp at h
    have hp : ¬ p = stop := fun hh => h.1 hh.symm
    simp [scan, hp, scan_complete c r (acc ++ [p]) h.2]

theorem scan_none {stop : Str} : ∀ {ps acc}, scan stop ps acc = none → stop ∉ ps
  | [], _, _ => by simp
  | p :: ps, acc, h => by
    unfold scan at h
    split at h
    · simp at h
    · rename_i hp
      simp; exact ⟨fun hh => hp hh.symm, scan_none h⟩

theorem matchLoop_sound : ∀ (pat : List Seg) (ps : List Str) (caps out : List Cap),
    matchLoop pat ps caps = .some out → ∃ c', out = caps ++ c' ∧ Fits pat ps c' := by
  intro pat ps caps out h
  fun_induction matchLoop pat ps caps generalizing out
  all_goals (try simp at h)
  · subst h; exact ⟨[], by simp, .nil⟩
  · rename_i ih
    obtain ⟨c', h1, h2⟩ := ih _ h
    exact ⟨c', h1, .param h2⟩
  · rename_i ih
    obtain ⟨c', h1, h2⟩ := ih _ h
    exact ⟨_ :: c', by simp [h1], .dynParam h2⟩
  · subst h; exact ⟨_, rfl, .segsLast⟩
  · rename_i hs ih
    obtain ⟨c', h1, h2⟩ := ih _ h
    obtain ⟨c'', e1, e2, e3⟩ := scan_spec hs
    simp at e1; subst e1; subst e2
    exact ⟨_ :: c', by simp [h1], .segs e3 h2⟩

theorem matchLoop_complete : ∀ {pat ps c'}, Fits pat ps c' → ∀ caps,
    matchLoop pat ps caps = .some (caps ++ c') := by
  intro pat ps c' h
  induction h with
  | nil => intro caps; simp [matchLoop]
  | param _ ih => intro caps; simp [matchLoop, ih]
  | dynParam _ ih => intro caps; simp [matchLoop, ih]
  | segsLast => intro caps; simp [matchLoop]
  | segs hn _ ih => intro caps; simp [matchLoop, scan_complete _ _ _ hn, ih]

theorem matchLoop_not_unreachable : ∀ (pat : List Seg) (ps : List Str) (caps : List Cap),
    WFPat pat = true → matchLoop pat ps caps ≠ .unreachable := by
  intro pat ps caps h
  fun_induction matchLoop pat ps caps
  all_goals (try simp)
  all_goals (try (rename_i ih; apply ih))
  all_goals (try (simp [WFPat] at h; try exact h))

theorem fits_kinds : ∀ {pat ps caps}, Fits pat ps caps → capKinds caps = dynKinds pat := by
  intro pat ps caps h
  induction h <;> simp [dynKinds, capKinds, *]

theorem fits_subst : ∀ {pat ps caps}, Fits pat ps caps → subst pat caps = ps := by
  intro pat ps caps h
  induction h <;> simp [subst, *]

theorem fits_functional : ∀ {pat ps c1 c2}, Fits pat ps c1 → Fits pat ps c2 → c1 = c2 := by
  intro pat ps c1 c2 h1 h2
  have a := matchLoop_complete h1 []
  have b := matchLoop_complete h2 []
  simp [a] at b; exact b

end SycVerif.Route
