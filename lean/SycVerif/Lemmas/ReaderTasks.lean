import SycVerif.Props.C13Readers
/-!
Helper lemmas for `Props/C13ReaderTasks.lean`: the step function `rtStep` event by event, the alignment invariant of the
task list, the projection of `rtStep` runs to `rrStep` runs, `rwStep` as one or two `rrStep`s.
-/
namespace SycVerif.Async

def runRT (s : ResRT) (evs : List RTEv) : ResRT := evs.foldl rtStep s

theorem runRT_append (s : ResRT) (es es' : List RTEv) : runRT s (es ++ es') = runRT (runRT s es) es' := by
  simp [runRT, List.foldl_append]

theorem runRR_append (s : ResR) (es es' : List RREv) : runRR s (es ++ es') = runRR (runRR s es) es' := by
  simp [runRR, List.foldl_append]

/-! ### `rrStep`: what it does to the reader list -/

theorem rrStep_read_dead (s : ResR) (ha : s.alive = false) : rrStep s .read = s := by simp [rrStep, ha]

theorem rrStep_read_length (s : ResR) (ha : s.alive = true) :
    (rrStep s .read).readers.length = s.readers.length + 1 := by
  rw [C13_reader_read s ha]; simp

theorem rrStep_ev_length (s : ResR) (e : REv) : (rrStep s (.ev e)).readers.length = s.readers.length := by
  cases e with
  | write v => simp only [rrStep]; split <;> simp
  | finish k =>
    simp only [rrStep]
    split
    · rfl
    · simp only []; split <;> simp

theorem rrStep_ev_dead (s : ResR) (e : REv) (ha : s.alive = false) : rrStep s (.ev e) = s := by
  cases e <;> simp [rrStep, ha]

/-! ### `rtStep`, event by event -/

theorem rtStep_readTask_alive (s : ResRT) (ha : s.base.alive = true) :
    rtStep s .readTask = ⟨rrStep s.base .read, s.tasks ++ [some s.nv], s.nv + 1⟩ := by
  have h := rrStep_read_length s.base ha
  simp only [rtStep, h]; simp

theorem rtStep_read_alive (s : ResRT) (ha : s.base.alive = true) :
    rtStep s .read = ⟨rrStep s.base .read, s.tasks ++ [none], s.nv⟩ := by
  have h := rrStep_read_length s.base ha
  simp only [rtStep, h]; simp

theorem rtStep_readTask_dead (s : ResRT) (ha : s.base.alive = false) : rtStep s .readTask = s := by
  simp only [rtStep, rrStep_read_dead s.base ha]; simp

theorem rtStep_read_dead (s : ResRT) (ha : s.base.alive = false) : rtStep s .read = s := by
  simp only [rtStep, rrStep_read_dead s.base ha]; simp

/-! ### the projection to the resource machine -/

/-- the events of the resource machine an event of the machine with tasks stands for (`taskDone`: none) -/
def RTEv.proj : RTEv → List RREv
  | .readTask => [.read]
  | .read => [.read]
  | .taskDone _ => []
  | .dropOldest => [.dropOldest]
  | .disposeOwner => [.disposeOwner]
  | .ev e => [.ev e]

theorem rtStep_base (s : ResRT) (e : RTEv) : (rtStep s e).base = runRR s.base e.proj := by
  cases e with
  | readTask => simp only [rtStep]; split <;> rfl
  | read => simp only [rtStep]; split <;> rfl
  | taskDone i => rfl
  | dropOldest => rfl
  | disposeOwner => rfl
  | ev e => rfl

theorem runRT_base (s : ResRT) (evs : List RTEv) : (runRT s evs).base = runRR s.base (evs.flatMap RTEv.proj) := by
  induction evs generalizing s with
  | nil => rfl
  | cons e es ih =>
    show (runRT (rtStep s e) es).base = _
    rw [ih, rtStep_base, List.flatMap_cons, runRR_append]

/-! ### the task list stays aligned with the reader list -/

/-- no two entries carry the same task -/
def TasksDistinct (ts : List (Option Nat)) : Prop := ts.Pairwise fun a b => ∀ i, a = some i → b ≠ some i

structure RTInv (s : ResRT) : Prop where
  len : s.tasks.length = s.base.readers.length
  lt : ∀ i, some i ∈ s.tasks → i < s.nv
  distinct : TasksDistinct s.tasks

theorem rtInv_init (d : Nat) : RTInv (ResRT.init d) where
  len := rfl
  lt := by intro i h; simp [ResRT.init] at h
  distinct := List.Pairwise.nil

theorem tasksDistinct_snoc {ts : List (Option Nat)} (h : TasksDistinct ts) (t : Option Nat)
    (hn : ∀ i, t = some i → some i ∉ ts) : TasksDistinct (ts ++ [t]) := by
  unfold TasksDistinct
  rw [List.pairwise_append]
  refine ⟨h, List.pairwise_singleton _ _, ?_⟩
  intro a ha b hb i hai hbi
  simp only [List.mem_singleton] at hb
  subst hb; subst hai
  exact hn i hbi ha

theorem rtInv_step {s : ResRT} (h : RTInv s) (e : RTEv) : RTInv (rtStep s e) := by
  obtain ⟨hlen, hlt, hd⟩ := h
  cases e with
  | readTask =>
    cases ha : s.base.alive with
    | false => rw [rtStep_readTask_dead s ha]; exact ⟨hlen, hlt, hd⟩
    | true =>
      rw [rtStep_readTask_alive s ha]
      refine ⟨?_, ?_, ?_⟩
      · simp [rrStep_read_length s.base ha, hlen]
      · intro i hi
        simp only [List.mem_append, List.mem_singleton, Option.some.injEq] at hi
        rcases hi with hi | hi
        · exact Nat.lt_succ_of_lt (hlt i hi)
        · subst hi; exact Nat.lt_succ_self _
      · refine tasksDistinct_snoc hd _ ?_
        intro i hi hm
        simp only [Option.some.injEq] at hi
        subst hi
        exact Nat.lt_irrefl _ (hlt _ hm)
  | read =>
    cases ha : s.base.alive with
    | false => rw [rtStep_read_dead s ha]; exact ⟨hlen, hlt, hd⟩
    | true =>
      rw [rtStep_read_alive s ha]
      refine ⟨?_, ?_, ?_⟩
      · simp [rrStep_read_length s.base ha, hlen]
      · intro i hi
        simp only [List.mem_append, List.mem_singleton] at hi
        rcases hi with hi | hi
        · exact hlt i hi
        · cases hi
      · exact tasksDistinct_snoc hd _ (fun i hi => by cases hi)
  | taskDone i0 =>
    have key : ∀ (t : Option Nat) (i : Nat), (if (t == some i0) = true then none else t) = some i → t = some i := by
      intro t i; split <;> simp
    refine ⟨?_, ?_, ?_⟩
    · simp [rtStep, hlen]
    · intro i hi
      simp only [rtStep, List.mem_map] at hi
      obtain ⟨t, ht, hti⟩ := hi
      have := key t i hti
      subst this
      exact hlt i ht
    · show TasksDistinct (s.tasks.map _)
      unfold TasksDistinct
      rw [List.pairwise_map]
      refine List.Pairwise.imp ?_ hd
      intro a b hab i hai hbi
      exact hab i (key a i hai) (key b i hbi)
  | dropOldest =>
    refine ⟨?_, ?_, ?_⟩
    · simp [rtStep, rrStep, hlen]
    · intro i hi
      exact hlt i (List.mem_of_mem_tail hi)
    · exact List.Pairwise.sublist (List.tail_sublist _) hd
  | disposeOwner =>
    refine ⟨?_, hlt, hd⟩
    simp [rtStep, rrStep, hlen]
  | ev e =>
    refine ⟨?_, hlt, hd⟩
    show s.tasks.length = (rrStep s.base (.ev e)).readers.length
    rw [rrStep_ev_length, hlen]

theorem rtInv_run {s : ResRT} (h : RTInv s) (evs : List RTEv) : RTInv (runRT s evs) := by
  induction evs generalizing s with
  | nil => exact h
  | cons e es ih => exact ih (rtInv_step h e)

/-- the entries that carry a task, by position -/
theorem tasksDistinct_index {ts : List (Option Nat)} (h : TasksDistinct ts) {j j' i : Nat}
    (hj : ts[j]? = some (some i)) (hj' : ts[j']? = some (some i)) : j = j' := by
  unfold TasksDistinct at h
  rw [List.pairwise_iff_getElem] at h
  obtain ⟨hjl, hje⟩ := List.getElem?_eq_some_iff.mp hj
  obtain ⟨hjl', hje'⟩ := List.getElem?_eq_some_iff.mp hj'
  rcases Nat.lt_trichotomy j j' with hlt | heq | hgt
  · exact absurd hje' (h j j' hjl hjl' hlt i hje)
  · exact heq
  · exact absurd hje (h j' j hjl' hjl hgt i hje')

/-! ### a recorded reader's owner is alive (not part of `ReadersOk`) -/

/-- a boundary is on the list of scopes to suspend only while the owner of the resource is alive -/
def RecordedOk (s : ResR) : Prop := ∀ r ∈ s.readers, r.recorded = true → s.alive = true

theorem recordedOk_step {s : ResR} (h : RecordedOk s) (e : RREv) : RecordedOk (rrStep s e) := by
  cases e with
  | read =>
    cases ha : s.alive with
    | false => rw [rrStep_read_dead s ha]; exact h
    | true =>
      intro r hr _
      have : (rrStep s .read).alive = s.alive := by simp only [rrStep]; split <;> (try split) <;> rfl
      rw [this, ha]
  | dropOldest => intro r hr; exact h r (List.mem_of_mem_tail hr)
  | disposeOwner =>
    intro r hr hrec
    simp only [rrStep, List.mem_map] at hr
    obtain ⟨_, _, rfl⟩ := hr
    cases hrec
  | ev e =>
    cases ha : s.alive with
    | false => rw [rrStep_ev_dead s e ha]; exact h
    | true =>
      intro r _ _
      have : (rrStep s (.ev e)).alive = s.alive := by cases e <;> simp [rrStep, ha]
      rw [this, ha]

theorem recordedOk_run (d : Nat) (evs : List RREv) : RecordedOk (runRR (ResR.init d) evs) := by
  suffices h : ∀ s, RecordedOk s → RecordedOk (runRR s evs) from
    h _ (by intro r hr; simp [ResR.init] at hr)
  induction evs with
  | nil => intro s h; exact h
  | cons e es ih => intro s h; exact ih _ (recordedOk_step h e)

end SycVerif.Async
