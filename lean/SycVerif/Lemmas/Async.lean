import SycVerif.Model.Async
/-!
Helper lemmas for C13 / C14 (suspense boundaries, scoped tasks): closed forms of the model's event
functions, the structural and dynamic invariants of reachable states, `isLoading`, commutation of
completions, polls and cancellation. The readable statements are in `SycVerif.Props.C13` / `C14`.
-/
namespace SycVerif.Async

/-! ### 0. list helpers -/

theorem countP_modify {α} (p : α → Bool) (f : α → α) : ∀ (l : List α) (i : Nat) (a : α), l[i]? = some a →
    (l.modify i f).countP p + (if p a then 1 else 0) = l.countP p + (if p (f a) then 1 else 0)
  | [], i, a, h => by simp at h
  | x :: l, 0, a, h => by
    simp at h; subst h
    simp [List.countP_cons]; omega
  | x :: l, i + 1, a, h => by
    simp at h
    have := countP_modify p f l i a h
    simp [List.countP_cons]; omega

theorem modify_eq_self {α} (f : α → α) (l : List α) (i : Nat) (h : ∀ a, l[i]? = some a → f a = a) :
    l.modify i f = l := by
  apply List.ext_getElem?
  intro j
  rw [List.getElem?_modify]
  by_cases hij : i = j
  · subst hij
    cases hl : l[i]? with
    | none => simp
    | some a => simp [h a hl]
  · cases l[j]? <;> simp [hij]

/-! ### 1. observers -/

/-- parent of scope `s` (as used by `inSubtree`) -/
def parentOf (m : M) (s : Nat) : Option Nat := (m.scopes[s]?).bind (·.parent)

/-- `a` is `s` or an ancestor of `s` in the ownership tree -/
inductive Anc (m : M) (a : Nat) : Nat → Prop
  | refl : Anc m a a
  | up {s p : Nat} : parentOf m s = some p → Anc m a p → Anc m a s

/-- the guard of `tk` on boundary `b` is still held (task neither finished nor dropped) -/
def held (b : Nat) (tk : Task) : Bool :=
  tk.boundary == some b && (tk.status == .pending || tk.status == .aborted)

def unfin (b : Nat) (tk : Task) : Bool := tk.boundary == some b && tk.status == .pending

/-- number of guards held on `b` -/
def heldAt (m : M) (b : Nat) : Nat := m.tasks.countP (held b)

/-- number of unfinished tasks registered under `b` -/
def unfinishedAt (m : M) (b : Nat) : Nat := m.tasks.countP (unfin b)

def NoAborted (m : M) : Prop := ∀ (t : Nat) (tk : Task), m.tasks[t]? = some tk → tk.status ≠ .aborted

theorem heldAt_eq_unfinishedAt {m : M} (h : NoAborted m) (b : Nat) : heldAt m b = unfinishedAt m b := by
  unfold heldAt unfinishedAt
  apply List.countP_congr
  intro tk htk
  obtain ⟨t, ht⟩ := List.mem_iff_getElem?.1 htk
  have := h t tk ht
  simp [held, unfin, this]

/-! ### 2. `dropGuard` -/

def decr (x : Boundary) : Boundary := { x with remaining := x.remaining - 1 }

/-- what `dropGuard m ob` does to boundary `b` -/
def decIf (m : M) (ob : Option Nat) (b : Nat) (x : Boundary) : Boundary :=
  if ob = some b ∧ scopeAlive m x.counterScope = true then decr x else x

theorem dropGuard_scopes (m : M) (ob) : (dropGuard m ob).scopes = m.scopes := by
  unfold dropGuard; repeat' split
  all_goals rfl
theorem dropGuard_tasks (m : M) (ob) : (dropGuard m ob).tasks = m.tasks := by
  unfold dropGuard; repeat' split
  all_goals rfl
theorem dropGuard_polls (m : M) (ob) : (dropGuard m ob).polls = m.polls := by
  unfold dropGuard; repeat' split
  all_goals rfl
theorem dropGuard_resOwner (m : M) (ob) : (dropGuard m ob).resOwner = m.resOwner := by
  unfold dropGuard; repeat' split
  all_goals rfl

theorem dropGuard_boundaries (m : M) (ob : Option Nat) (b : Nat) :
    (dropGuard m ob).boundaries[b]? = (m.boundaries[b]?).map (decIf m ob b) := by
  unfold dropGuard
  split
  · cases h : m.boundaries[b]? <;> simp [decIf]
  · rename_i b0
    split
    · rename_i hn
      by_cases hb : b0 = b
      · subst hb; simp [hn]
      · cases h : m.boundaries[b]? <;> simp [decIf, hb]
    · rename_i bd hbd
      split
      · rename_i hal
        simp only [List.getElem?_modify]
        by_cases hb : b0 = b
        · subst hb; simp [hbd, decIf, hal, decr]
        · cases h : m.boundaries[b]? <;> simp [decIf, hb]
      · rename_i hal
        by_cases hb : b0 = b
        · subst hb; simp [hbd, decIf, hal]
        · cases h : m.boundaries[b]? <;> simp [decIf, hb]

theorem dropGuard_polls_set (m : M) (ob) (q : List (Nat × Nat)) :
    dropGuard { m with polls := q } ob = { dropGuard m ob with polls := q } := by
  unfold dropGuard; repeat' split
  all_goals first | rfl | simp_all [scopeAlive]


theorem modify_congr {α} (f g : α → α) (l : List α) (i : Nat) (h : ∀ a, l[i]? = some a → f a = g a) :
    l.modify i f = l.modify i g := by
  apply List.ext_getElem?
  intro j
  rw [List.getElem?_modify, List.getElem?_modify]
  by_cases hij : i = j
  · subst hij
    cases hl : l[i]? with
    | none => simp
    | some a => simp [h a hl]
  · cases l[j]? <;> simp [hij]

/-! ### 3. `complete` in closed form -/

/-- what `complete` does to the completed task -/
def adv (tk : Task) : Task :=
  if tk.status != .pending || tk.awaits = 0 then tk
  else if tk.awaits - 1 = 0 then { tk with awaits := 0, status := .done } else { tk with awaits := tk.awaits - 1 }

/-- the guard released by `complete m t`: task `t` is at its last await point -/
def released (m : M) (t : Nat) : Option Nat :=
  match m.tasks[t]? with
  | some tk => if tk.status = .pending ∧ tk.awaits = 1 then tk.boundary else none
  | none => none

/-- the poll recorded by `complete m t` -/
def pollOf (m : M) (t : Nat) : List (Nat × Nat) :=
  match m.tasks[t]? with
  | some tk => if tk.status = .pending ∧ tk.awaits ≠ 0 then [(t, tk.awaits - 1)] else []
  | none => []

theorem dropGuard_none (m : M) : dropGuard m none = m := rfl

theorem complete_eq (m : M) (t : Nat) :
    complete m t = { dropGuard { m with tasks := m.tasks.modify t adv } (released m t) with
                     polls := m.polls ++ pollOf m t } := by
  cases htk : m.tasks[t]? with
  | none =>
    have e1 : complete m t = m := by unfold complete; rw [htk]
    have e2 : released m t = none := by unfold released; rw [htk]
    have e3 : pollOf m t = [] := by unfold pollOf; rw [htk]
    rw [e1, e2, e3, modify_eq_self adv m.tasks t (by simp [htk])]
    simp [dropGuard_none]
  | some tk =>
    by_cases hc : (tk.status != .pending || decide (tk.awaits = 0)) = true
    · have e1 : complete m t = m := by unfold complete; rw [htk]; simp only [hc, if_true]
      have h1 : adv tk = tk := by simp only [adv]; rw [if_pos hc]
      have e2 : released m t = none := by
        unfold released; rw [htk]; simp only []
        rw [if_neg]; intro ⟨h, h'⟩; simp [h, h'] at hc
      have e3 : pollOf m t = [] := by
        unfold pollOf; rw [htk]; simp only []
        rw [if_neg]; intro ⟨h, h'⟩; simp [h, h'] at hc
      rw [e1, e2, e3, modify_eq_self adv m.tasks t (by intro a ha; rw [htk] at ha; cases ha; exact h1)]
      simp [dropGuard_none]
    · have hp : tk.status = .pending := by
        cases h : tk.status <;> simp [h] at hc ⊢
      have ha : tk.awaits ≠ 0 := by intro h; simp [h] at hc
      have e3 : pollOf m t = [(t, tk.awaits - 1)] := by
        unfold pollOf; rw [htk]; simp only []
        rw [if_pos ⟨hp, ha⟩]
      by_cases hl : tk.awaits - 1 = 0
      · have h1 : tk.awaits = 1 := by omega
        have e2 : released m t = tk.boundary := by
          unfold released; rw [htk]; simp only []
          rw [if_pos ⟨hp, h1⟩]
        have e1 : complete m t = dropGuard { m with polls := m.polls ++ [(t, tk.awaits - 1)], tasks := m.tasks.modify t fun x => { x with awaits := 0, status := .done } } tk.boundary := by
          unfold complete; rw [htk]; simp only [hc, hl, if_true]; rfl
        rw [e1, e2, e3]
        rw [modify_congr adv (fun x => { x with awaits := 0, status := .done }) m.tasks t
          (by intro a ha'; rw [htk] at ha'; cases ha'; simp only [adv]; rw [if_neg hc, if_pos hl])]
        exact dropGuard_polls_set { m with tasks := m.tasks.modify t fun x => { x with awaits := 0, status := .done } } _ _
      · have h1 : ¬ (tk.status = .pending ∧ tk.awaits = 1) := by omega
        have e2 : released m t = none := by
          unfold released; rw [htk]; simp only []
          rw [if_neg h1]
        have e1 : complete m t = { m with polls := m.polls ++ [(t, tk.awaits - 1)], tasks := m.tasks.modify t fun x => { x with awaits := tk.awaits - 1 } } := by
          unfold complete; rw [htk]; simp only [hc, hl]; rfl
        rw [e1, e2, e3]
        rw [modify_congr adv (fun x => { x with awaits := tk.awaits - 1 }) m.tasks t
          (by intro a ha'; rw [htk] at ha'; cases ha'; simp only [adv]; rw [if_neg hc, if_neg hl])]
        rfl

theorem complete_scopes (m : M) (t) : (complete m t).scopes = m.scopes := by
  rw [complete_eq]; exact dropGuard_scopes _ _
theorem complete_tasks (m : M) (t) : (complete m t).tasks = m.tasks.modify t adv := by
  rw [complete_eq]; exact dropGuard_tasks _ _
theorem complete_polls (m : M) (t) : (complete m t).polls = m.polls ++ pollOf m t := by
  rw [complete_eq]
theorem complete_boundaries (m : M) (t b) :
    (complete m t).boundaries[b]? = (m.boundaries[b]?).map (decIf m (released m t) b) := by
  rw [complete_eq]; exact dropGuard_boundaries _ _ _

/-! ### 4. `drain` -/

/-- the executor drops aborted task `i` -/
def dropOne (m : M) (i : Nat) (tk : Task) : M :=
  dropGuard { m with tasks := m.tasks.modify i fun x => { x with status := .dropped } } tk.boundary

theorem drainFrom_ind (P : M → Prop)
    (hstep : ∀ (m : M) (i : Nat) (tk : Task), P m → m.tasks[i]? = some tk → tk.status = .aborted → P (dropOne m i tk)) :
    ∀ (fuel : Nat) (m : M) (i : Nat), P m → P (drainFrom m fuel i)
  | 0, m, i, h => by simpa [drainFrom] using h
  | fuel + 1, m, i, h => by
    unfold drainFrom
    split
    · exact h
    · rename_i tk htk
      split
      · rename_i ha
        exact drainFrom_ind P hstep fuel _ _ (hstep m i tk h htk (by simpa using ha))
      · exact drainFrom_ind P hstep fuel _ _ h

theorem drain_ind (P : M → Prop)
    (hstep : ∀ (m : M) (i : Nat) (tk : Task), P m → m.tasks[i]? = some tk → tk.status = .aborted → P (dropOne m i tk))
    (m : M) (h : P m) : P (drain m) := drainFrom_ind P hstep _ _ _ h

theorem drainFrom_noAborted : ∀ (fuel : Nat) (m : M) (i : Nat), NoAborted m → drainFrom m fuel i = m
  | 0, m, i, h => by simp [drainFrom]
  | fuel + 1, m, i, h => by
    unfold drainFrom
    split
    · rfl
    · rename_i tk htk
      have := h i tk htk
      simp [this]
      exact drainFrom_noAborted fuel m (i + 1) h

theorem drain_noAborted {m : M} (h : NoAborted m) : drain m = m := drainFrom_noAborted _ _ _ h

/-- an aborted task is dropped -/
def fixT (tk : Task) : Task := if tk.status = .aborted then { tk with status := .dropped } else tk

theorem dropOne_tasks (m : M) (i tk) :
    (dropOne m i tk).tasks = m.tasks.modify i fun x => { x with status := .dropped } := by
  unfold dropOne; rw [dropGuard_tasks]

theorem drainFrom_tasks : ∀ (fuel : Nat) (m : M) (i j : Nat),
    (drainFrom m fuel i).tasks[j]? = if i ≤ j ∧ j < i + fuel then (m.tasks[j]?).map fixT else m.tasks[j]?
  | 0, m, i, j => by
    simp [drainFrom]; omega
  | fuel + 1, m, i, j => by
    unfold drainFrom
    split
    · rename_i hn
      split
      · rename_i hij
        have : m.tasks.length ≤ j := by
          have := List.getElem?_eq_none_iff.1 hn; omega
        simp [List.getElem?_eq_none_iff.2 this]
      · rfl
    · rename_i tk htk
      split
      · rename_i ha
        have ha : tk.status = .aborted := by simpa using ha
        rw [drainFrom_tasks fuel _ (i + 1) j, dropGuard_tasks, List.getElem?_modify]
        by_cases hij : i = j
        · subst hij
          simp [htk, fixT, ha]
        · have : (i + 1 ≤ j ∧ j < i + 1 + fuel) ↔ (i ≤ j ∧ j < i + (fuel + 1)) := by omega
          cases hj : m.tasks[j]? <;> simp [hij, this]
      · rename_i ha
        have ha : tk.status ≠ .aborted := by simpa using ha
        rw [drainFrom_tasks fuel _ (i + 1) j]
        by_cases hij : i = j
        · subst hij
          simp [htk, fixT, ha]
        · have : (i + 1 ≤ j ∧ j < i + 1 + fuel) ↔ (i ≤ j ∧ j < i + (fuel + 1)) := by omega
          simp [this]

theorem drain_tasks (m : M) : (drain m).tasks = m.tasks.map fixT := by
  apply List.ext_getElem?
  intro j
  unfold drain
  rw [drainFrom_tasks, List.getElem?_map]
  split
  · rfl
  · rename_i h
    have : m.tasks.length ≤ j := by omega
    simp [List.getElem?_eq_none_iff.2 this]

theorem drain_noAborted_after (m : M) : NoAborted (drain m) := by
  intro t tk h
  rw [drain_tasks, List.getElem?_map] at h
  cases h' : m.tasks[t]? with
  | none => simp [h'] at h
  | some tk0 =>
    simp [h'] at h
    subst h
    unfold fixT
    split <;> simp_all


/-! ### 5. structural invariant -/

/-- static shape of the build: never changed by events -/
structure Struct (m : M) : Prop where
  parent_lt : ∀ (s p : Nat), parentOf m s = some p → p < s
  bnd_inner : ∀ (b : Nat) (bd : Boundary), m.boundaries[b]? = some bd →
    parentOf m bd.innerScope = some bd.counterScope
  bnd_parent : ∀ (b : Nat) (bd : Boundary) (p : Nat), m.boundaries[b]? = some bd → bd.parent = some p →
    p < b ∧ ∃ pd, m.boundaries[p]? = some pd ∧ Anc m pd.innerScope bd.counterScope
  task_scope : ∀ (t : Nat) (tk : Task), m.tasks[t]? = some tk → tk.scope < m.scopes.length
  /-- the boundary of a task exists. (The guard of a READ — `Item.use` — lives in the scope that owns
  the resource, which need not be below the boundary: see `Local` for the tasks spawned in place.) -/
  task_bnd : ∀ (t : Nat) (tk : Task) (b : Nat), m.tasks[t]? = some tk → tk.boundary = some b →
    ∃ bd, m.boundaries[b]? = some bd
  /-- the root scope exists -/
  root : 0 < m.scopes.length
  /-- the recorded owner of a resource is a scope that exists -/
  res_owner : ∀ (n s : Nat), (n, s) ∈ m.resOwner → s < m.scopes.length

/-- the tasks are spawned in place: the inner scope of a task's boundary is the task's scope or an
ancestor of it. True of the tasks created by `Item.task` / `Item.resource`, NOT of the guard of a read
(`Item.use`), which is held by the resource and lives in the scope that owns the resource. -/
def Local (m : M) : Prop :=
  ∀ (t : Nat) (tk : Task) (b : Nat), m.tasks[t]? = some tk → tk.boundary = some b →
    ∃ bd, m.boundaries[b]? = some bd ∧ Anc m bd.innerScope tk.scope

/-- the scope that owns a resource exists -/
theorem Struct.ownerOf_lt {m : M} (h : Struct m) (n : Nat) : m.ownerOf n < m.scopes.length := by
  unfold M.ownerOf
  cases hf : m.resOwner.find? (·.1 == n) with
  | none => exact h.root
  | some p => exact h.res_owner p.1 p.2 (List.mem_of_find?_eq_some hf)

def bstat (bd : Boundary) : Option Nat × Nat × Nat := (bd.parent, bd.counterScope, bd.innerScope)
def tstat (tk : Task) : Nat × Option Nat := (tk.scope, tk.boundary)

/-- `m'` has the same static shape as `m` -/
structure SameSkel (m m' : M) : Prop where
  len : m'.scopes.length = m.scopes.length
  par : ∀ (s : Nat), parentOf m' s = parentOf m s
  bnd : ∀ (b : Nat), (m'.boundaries[b]?).map bstat = (m.boundaries[b]?).map bstat
  task : ∀ (t : Nat), (m'.tasks[t]?).map tstat = (m.tasks[t]?).map tstat
  res : m'.resOwner = m.resOwner

theorem SameSkel.refl (m : M) : SameSkel m m := ⟨rfl, fun _ => rfl, fun _ => rfl, fun _ => rfl, rfl⟩
theorem SameSkel.trans {a b c : M} (h1 : SameSkel a b) (h2 : SameSkel b c) : SameSkel a c :=
  ⟨h2.len.trans h1.len, fun s => (h2.par s).trans (h1.par s), fun s => (h2.bnd s).trans (h1.bnd s),
   fun s => (h2.task s).trans (h1.task s), h2.res.trans h1.res⟩
theorem SameSkel.symm {a b : M} (h : SameSkel a b) : SameSkel b a :=
  ⟨h.len.symm, fun s => (h.par s).symm, fun s => (h.bnd s).symm, fun s => (h.task s).symm, h.res.symm⟩

theorem map_eq_some_of {α β} {f : α → β} {o o' : Option α} {x' : α} (h : o'.map f = o.map f) (h' : o' = some x') :
    ∃ x, o = some x ∧ f x = f x' := by
  subst h'
  cases o with
  | none => simp at h
  | some x => exact ⟨x, rfl, by simpa using h.symm⟩

theorem SameSkel.bnd_of {m m' : M} (h : SameSkel m m') {b : Nat} {bd' : Boundary} (hb : m'.boundaries[b]? = some bd') :
    ∃ bd, m.boundaries[b]? = some bd ∧ bd.parent = bd'.parent ∧ bd.counterScope = bd'.counterScope ∧
      bd.innerScope = bd'.innerScope := by
  obtain ⟨bd, h1, h2⟩ := map_eq_some_of (h.bnd b) hb
  simp [bstat] at h2
  exact ⟨bd, h1, h2⟩

theorem SameSkel.task_of {m m' : M} (h : SameSkel m m') {t : Nat} {tk' : Task} (ht : m'.tasks[t]? = some tk') :
    ∃ tk, m.tasks[t]? = some tk ∧ tk.scope = tk'.scope ∧ tk.boundary = tk'.boundary := by
  obtain ⟨tk, h1, h2⟩ := map_eq_some_of (h.task t) ht
  simp [tstat] at h2
  exact ⟨tk, h1, h2⟩

theorem Anc.of_sameSkel {m m' : M} (h : SameSkel m m') {a s : Nat} (ha : Anc m a s) : Anc m' a s := by
  induction ha with
  | refl => exact .refl
  | up hp _ ih => exact .up ((h.par _).trans hp) ih

theorem Struct.of_sameSkel {m m' : M} (hs : Struct m) (h : SameSkel m m') : Struct m' where
  parent_lt s p hp := hs.parent_lt s p ((h.par s).symm.trans hp)
  bnd_inner b bd' hb := by
    obtain ⟨bd, h1, _, h3, h4⟩ := h.bnd_of hb
    rw [h.par, ← h3, ← h4]; exact hs.bnd_inner b bd h1
  bnd_parent b bd' p hb hp := by
    obtain ⟨bd, h1, h2, h3, _⟩ := h.bnd_of hb
    obtain ⟨hlt, pd, hpd, hanc⟩ := hs.bnd_parent b bd p h1 (h2.trans hp)
    obtain ⟨pd', hpd', _, _, h6⟩ := h.symm.bnd_of hpd
    exact ⟨hlt, pd', hpd', by rw [h6, ← h3]; exact hanc.of_sameSkel h⟩
  task_scope t tk' ht := by
    obtain ⟨tk, h1, h2, _⟩ := h.task_of ht
    rw [h.len, ← h2]; exact hs.task_scope t tk h1
  task_bnd t tk' b ht hb := by
    obtain ⟨tk, h1, _, h3⟩ := h.task_of ht
    obtain ⟨bd, hbd⟩ := hs.task_bnd t tk b h1 (h3.trans hb)
    obtain ⟨bd', hbd', _⟩ := h.symm.bnd_of hbd
    exact ⟨bd', hbd'⟩
  root := by rw [h.len]; exact hs.root
  res_owner n s hm := by rw [h.len]; rw [h.res] at hm; exact hs.res_owner n s hm

theorem Local.of_sameSkel {m m' : M} (hl : Local m) (h : SameSkel m m') : Local m' := by
  intro t tk' b ht hb
  obtain ⟨tk, h1, h2, h3⟩ := h.task_of ht
  obtain ⟨bd, hbd, hanc⟩ := hl t tk b h1 (h3.trans hb)
  obtain ⟨bd', hbd', _, _, h6⟩ := h.symm.bnd_of hbd
  exact ⟨bd', hbd', by rw [h6, ← h2]; exact hanc.of_sameSkel h⟩

/-! #### every primitive keeps the static shape -/

theorem parentOf_congr {m m' : M} (h : m'.scopes = m.scopes) (s : Nat) : parentOf m' s = parentOf m s := by
  unfold parentOf; rw [h]
theorem scopeAlive_congr {m m' : M} (h : m'.scopes = m.scopes) (s : Nat) : scopeAlive m' s = scopeAlive m s := by
  unfold scopeAlive; rw [h]

theorem bstat_decIf (m : M) (ob b x) : bstat (decIf m ob b x) = bstat x := by
  unfold decIf; split <;> rfl

theorem sameSkel_dropGuard (m : M) (ob : Option Nat) : SameSkel m (dropGuard m ob) where
  len := by rw [dropGuard_scopes]
  par := parentOf_congr (dropGuard_scopes m ob)
  bnd b := by
    rw [dropGuard_boundaries]
    cases m.boundaries[b]? <;> simp [bstat_decIf]
  task t := by rw [dropGuard_tasks]
  res := dropGuard_resOwner m ob

theorem sameSkel_modify (m : M) (i : Nat) (f : Task → Task) (hf : ∀ tk, m.tasks[i]? = some tk → tstat (f tk) = tstat tk) :
    SameSkel m { m with tasks := m.tasks.modify i f } where
  len := rfl
  par _ := rfl
  bnd _ := rfl
  task t := by
    show ((m.tasks.modify i f)[t]?).map tstat = _
    rw [List.getElem?_modify]
    by_cases h : i = t
    · subst h
      cases h' : m.tasks[i]? with
      | none => rfl
      | some tk => simp [hf tk h']
    · cases m.tasks[t]? <;> simp [h]
  res := rfl

theorem sameSkel_polls (m : M) (q) : SameSkel m { m with polls := q } :=
  ⟨rfl, fun _ => rfl, fun _ => rfl, fun _ => rfl, rfl⟩

theorem tstat_adv (tk : Task) : tstat (adv tk) = tstat tk := by
  unfold adv; repeat' split
  all_goals rfl

theorem sameSkel_complete (m : M) (t : Nat) : SameSkel m (complete m t) := by
  rw [complete_eq]
  exact ((sameSkel_modify m t adv fun tk _ => tstat_adv tk).trans (sameSkel_dropGuard _ _)).trans (sameSkel_polls _ _)

theorem sameSkel_dispose (m : M) (s : Nat) : SameSkel m (dispose m s) where
  len := by simp [dispose]
  par s' := by
    simp only [parentOf, dispose, List.getElem?_mapIdx]
    cases m.scopes[s']? with
    | none => rfl
    | some sc => simp; split <;> rfl
  bnd _ := rfl
  task t := by
    simp only [dispose, List.getElem?_map]
    cases m.tasks[t]? with
    | none => rfl
    | some tk => simp; split <;> rfl
  res := rfl

theorem sameSkel_dropOne (m : M) (i : Nat) (tk : Task) : SameSkel m (dropOne m i tk) :=
  (sameSkel_modify m i (fun x => { x with status := .dropped }) fun _ _ => rfl).trans (sameSkel_dropGuard _ _)

theorem sameSkel_drain (m : M) : SameSkel m (drain m) :=
  drain_ind (SameSkel m) (fun m' i tk h _ _ => h.trans (sameSkel_dropOne m' i tk)) m (SameSkel.refl m)

theorem sameSkel_step (m : M) (e : Ev) : SameSkel m (step m e) := by
  cases e with
  | complete t => exact (sameSkel_complete m t).trans (sameSkel_drain _)
  | dispose s => exact (sameSkel_dispose m s).trans (sameSkel_drain _)

/-! #### `inSubtree` is the ancestor relation -/

theorem inSubtree_sound (m : M) (a : Nat) : ∀ (fuel s : Nat), inSubtree m a fuel s = true → Anc m a s
  | 0, s, h => by simp [inSubtree] at h
  | fuel + 1, s, h => by
    unfold inSubtree at h
    split at h
    · rename_i he; subst he; exact .refl
    · split at h
      · rename_i p hp
        exact .up hp (inSubtree_sound m a fuel p h)
      · simp at h

theorem inSubtree_complete {m : M} (hs : Struct m) {a s : Nat} (h : Anc m a s) :
    ∀ fuel, s < fuel → inSubtree m a fuel s = true := by
  induction h with
  | refl => intro fuel hf; cases fuel with
    | zero => omega
    | succ fuel => simp [inSubtree]
  | @up s p hp _ ih =>
    intro fuel hf
    cases fuel with
    | zero => omega
    | succ fuel =>
      have := hs.parent_lt s p hp
      unfold inSubtree
      split
      · rfl
      · have hp' : (m.scopes[s]?).bind (·.parent) = some p := hp
        rw [hp']
        exact ih fuel (by omega)

theorem parentOf_lt_length {m : M} {s p : Nat} (h : parentOf m s = some p) : s < m.scopes.length := by
  unfold parentOf at h
  cases h' : m.scopes[s]? with
  | none => simp [h'] at h
  | some sc => exact (List.getElem?_eq_some_iff.1 h').1

/-- with the fuel used by `dispose`, `inSubtree` is exactly "descendant-or-equal" (for scopes that exist) -/
theorem inSubtree_iff {m : M} (hs : Struct m) (a s : Nat) (h : s < m.scopes.length) :
    inSubtree m a m.scopes.length s = true ↔ Anc m a s :=
  ⟨inSubtree_sound m a _ s, fun h' => inSubtree_complete hs h' _ h⟩

theorem inSubtree_sameSkel {m m' : M} (h : SameSkel m m') (a : Nat) : ∀ (fuel s : Nat),
    inSubtree m' a fuel s = inSubtree m a fuel s
  | 0, s => rfl
  | fuel + 1, s => by
    unfold inSubtree
    have : (m'.scopes[s]?).bind (·.parent) = (m.scopes[s]?).bind (·.parent) := h.par s
    rw [this]
    split
    · rfl
    · split
      · exact inSubtree_sameSkel h a fuel _
      · rfl


/-! ### 6. dynamic invariant -/

structure Dyn (m : M) : Prop where
  /-- a live scope has a live parent (dead scopes are closed under descendants) -/
  alive_up : ∀ (s p : Nat), parentOf m s = some p → scopeAlive m s = true → scopeAlive m p = true
  /-- a counter that still exists equals the number of guards held on it -/
  counter : ∀ (b : Nat) (bd : Boundary), m.boundaries[b]? = some bd → scopeAlive m bd.counterScope = true →
    bd.remaining = heldAt m b
  /-- a pending task lives in a live scope -/
  pend_alive : ∀ (t : Nat) (tk : Task), m.tasks[t]? = some tk → tk.status = .pending → scopeAlive m tk.scope = true

theorem Dyn.polls {m : M} (h : Dyn m) (q) : Dyn { m with polls := q } := ⟨h.alive_up, h.counter, h.pend_alive⟩

theorem Anc.alive {m : M} (hd : Dyn m) {a s : Nat} (h : Anc m a s) : scopeAlive m s = true → scopeAlive m a = true := by
  induction h with
  | refl => exact id
  | up hp _ ih => exact fun hs => ih (hd.alive_up _ _ hp hs)

theorem Anc.dead {m : M} (hd : Dyn m) {a s : Nat} (h : Anc m a s) (ha : scopeAlive m a = false) : scopeAlive m s = false := by
  cases hs : scopeAlive m s with
  | false => rfl
  | true => rw [h.alive hd hs] at ha; cases ha

/-- a task changes but keeps its guard status -/
theorem modify_dyn {m : M} (hd : Dyn m) (i : Nat) (f : Task → Task)
    (hf : ∀ tk, m.tasks[i]? = some tk → (f tk).boundary = tk.boundary ∧ (f tk).scope = tk.scope ∧ (f tk).status = tk.status) :
    Dyn { m with tasks := m.tasks.modify i f } where
  alive_up := hd.alive_up
  counter b bd hb hal := by
    rw [hd.counter b bd hb hal]
    show heldAt m b = (m.tasks.modify i f).countP (held b)
    cases hi : m.tasks[i]? with
    | none => rw [modify_eq_self f m.tasks i (by simp [hi])]; rfl
    | some tk =>
      have := countP_modify (held b) f m.tasks i tk hi
      obtain ⟨h1, _, h3⟩ := hf tk hi
      have e : held b (f tk) = held b tk := by simp [held, h1, h3]
      rw [e] at this
      unfold heldAt; omega
  pend_alive t tk' ht hp := by
    have ht : (m.tasks.modify i f)[t]? = some tk' := ht
    rw [List.getElem?_modify] at ht
    show scopeAlive m tk'.scope = true
    cases h' : m.tasks[t]? with
    | none => simp [h'] at ht
    | some tk =>
      simp [h'] at ht
      by_cases hit : i = t
      · subst hit
        simp at ht; subst ht
        obtain ⟨_, h2, h3⟩ := hf tk h'
        rw [h2]; exact hd.pend_alive i tk h' (h3 ▸ hp)
      · simp [hit] at ht; subst ht
        exact hd.pend_alive t tk h' hp

/-- a task finishes or is dropped: its guard is released -/
theorem release_dyn {m : M} (hd : Dyn m) (i : Nat) (tk : Task) (f : Task → Task) (hi : m.tasks[i]? = some tk)
    (hheld : tk.status = .pending ∨ tk.status = .aborted)
    (hf : (f tk).boundary = tk.boundary ∧ (f tk).status ≠ .pending ∧ (f tk).status ≠ .aborted) :
    Dyn (dropGuard { m with tasks := m.tasks.modify i f } tk.boundary) where
  alive_up s p hp hs := by
    rw [parentOf_congr (dropGuard_scopes _ _)] at hp
    rw [scopeAlive_congr (dropGuard_scopes _ _)] at hs ⊢
    exact hd.alive_up s p hp hs
  counter b bd' hb hal := by
    rw [dropGuard_boundaries] at hb
    rw [scopeAlive_congr (dropGuard_scopes _ _)] at hal
    change (m.boundaries[b]?).map _ = _ at hb
    cases hbd : m.boundaries[b]? with
    | none => simp [hbd] at hb
    | some bd =>
      simp [hbd] at hb
      have hcnt := countP_modify (held b) f m.tasks i tk hi
      have e2 : held b (f tk) = false := by
        have h2 := hf.2.1; have h3 := hf.2.2
        cases hst : (f tk).status <;> simp_all [held]
      have hh : heldAt (dropGuard { m with tasks := m.tasks.modify i f } tk.boundary) b
          = (m.tasks.modify i f).countP (held b) := by
        unfold heldAt; rw [dropGuard_tasks]
      rw [hh]
      by_cases hbb : tk.boundary = some b
      · have hal' : scopeAlive m bd.counterScope = true := by
          have : (decIf { m with tasks := m.tasks.modify i f } tk.boundary b bd).counterScope = bd.counterScope := by
            unfold decIf; split <;> rfl
          rw [← hb, this] at hal; exact hal
        have e1 : held b tk = true := by
          rcases hheld with h | h <;> simp [held, hbb, h]
        have : bd'.remaining = bd.remaining - 1 := by
          rw [← hb]; unfold decIf
          rw [if_pos ⟨hbb, hal'⟩]; rfl
        rw [this, hd.counter b bd hbd hal']
        rw [e1, e2] at hcnt
        simp at hcnt
        unfold heldAt; omega
      · have e1 : held b tk = false := by simp [held, hbb]
        have : bd' = bd := by
          rw [← hb]; unfold decIf
          rw [if_neg (fun h => hbb h.1)]
        subst this
        rw [hd.counter b bd' hbd hal]
        rw [e1, e2] at hcnt
        simp at hcnt
        unfold heldAt; omega
  pend_alive t tk' ht hp := by
    rw [dropGuard_tasks] at ht
    rw [scopeAlive_congr (dropGuard_scopes _ _)]
    change (m.tasks.modify i f)[t]? = some tk' at ht
    show scopeAlive m tk'.scope = true
    rw [List.getElem?_modify] at ht
    cases h' : m.tasks[t]? with
    | none => simp [h'] at ht
    | some tk0 =>
      simp [h'] at ht
      by_cases hit : i = t
      · subst hit
        rw [hi] at h'; cases h'
        simp at ht; subst ht
        exact absurd hp hf.2.1
      · simp [hit] at ht; subst ht
        exact hd.pend_alive t tk0 h' hp

theorem dyn_complete {m : M} (hd : Dyn m) (t : Nat) : Dyn (complete m t) := by
  rw [complete_eq]
  apply Dyn.polls
  cases ht : m.tasks[t]? with
  | none =>
    have : released m t = none := by unfold released; rw [ht]
    rw [this, dropGuard_none]
    exact modify_dyn hd t adv (by simp [ht])
  | some tk =>
    by_cases hc : tk.status = .pending ∧ tk.awaits = 1
    · have : released m t = tk.boundary := by
        unfold released; rw [ht]; simp only []; rw [if_pos hc]
      rw [this]
      have hadv : adv tk = { tk with awaits := 0, status := .done } := by
        simp [adv, hc.1, hc.2]
      exact release_dyn hd t tk adv ht (.inl hc.1) (by rw [hadv]; simp)
    · have : released m t = none := by
        unfold released; rw [ht]; simp only []; rw [if_neg hc]
      rw [this, dropGuard_none]
      apply modify_dyn hd t adv
      intro tk' htk'
      rw [ht] at htk'; cases htk'
      unfold adv
      split
      · exact ⟨rfl, rfl, rfl⟩
      · rename_i h1
        split
        · rename_i h2
          exfalso; apply hc
          constructor
          · cases h : tk.status <;> simp [h] at h1 ⊢
          · have : tk.awaits ≠ 0 := by intro h; simp [h] at h1
            omega
        · exact ⟨rfl, rfl, rfl⟩

theorem dyn_dropOne {m : M} (hd : Dyn m) (i : Nat) (tk : Task) (hi : m.tasks[i]? = some tk) (ha : tk.status = .aborted) :
    Dyn (dropOne m i tk) :=
  release_dyn hd i tk (fun x => { x with status := .dropped }) hi (.inr ha) (by simp)

/-- which scopes `dispose m s` kills -/
def dying (m : M) (s i : Nat) : Bool := inSubtree m s m.scopes.length i

theorem scopeAlive_dispose (m : M) (s i : Nat) :
    scopeAlive (dispose m s) i = (scopeAlive m i && !dying m s i) := by
  simp only [scopeAlive, dispose, List.getElem?_mapIdx, dying]
  cases m.scopes[i]? with
  | none => simp
  | some sc =>
    simp
    split <;> simp_all

theorem dyn_dispose {m : M} (hs : Struct m) (hd : Dyn m) (s : Nat) : Dyn (dispose m s) where
  alive_up i p hp hal := by
    rw [(sameSkel_dispose m s).par] at hp
    rw [scopeAlive_dispose] at hal ⊢
    simp at hal ⊢
    refine ⟨hd.alive_up i p hp hal.1, ?_⟩
    cases hdp : dying m s p with
    | false => rfl
    | true =>
      have h1 : Anc m s p := inSubtree_sound m s _ p hdp
      have h2 : Anc m s i := .up hp h1
      have := inSubtree_complete hs h2 m.scopes.length (parentOf_lt_length hp)
      unfold dying at hal; rw [this] at hal; simp at hal
  counter b bd hb hal := by
    have hb : m.boundaries[b]? = some bd := hb
    rw [scopeAlive_dispose] at hal
    simp at hal
    rw [hd.counter b bd hb hal.1]
    unfold heldAt
    simp only [dispose, List.countP_map]
    apply List.countP_congr
    intro tk _
    simp only [Function.comp]
    split
    · rename_i h
      simp at h
      simp [held, h.1]
    · rfl
  pend_alive t tk' ht hp := by
    simp only [dispose, List.getElem?_map] at ht
    cases h' : m.tasks[t]? with
    | none => simp [h'] at ht
    | some tk =>
      simp [h'] at ht
      rw [scopeAlive_dispose]
      split at ht
      · subst ht; simp at hp
      · rename_i hn
        subst ht
        simp at hn
        have := hd.pend_alive t tk h' hp
        simp [this, dying]
        exact hn hp

/-! ### 7. the invariant of reachable states -/

structure Good (m : M) : Prop where
  struct : Struct m
  dyn : Dyn m
  noAborted : NoAborted m

theorem drain_keeps {m : M} (hs : Struct m) (hd : Dyn m) : Struct (drain m) ∧ Dyn (drain m) :=
  drain_ind (fun m' => Struct m' ∧ Dyn m')
    (fun m' i tk h hi ha => ⟨h.1.of_sameSkel (sameSkel_dropOne m' i tk), dyn_dropOne h.2 i tk hi ha⟩) m ⟨hs, hd⟩

theorem good_step {m : M} (h : Good m) (e : Ev) : Good (step m e) := by
  cases e with
  | complete t =>
    have := drain_keeps (h.struct.of_sameSkel (sameSkel_complete m t)) (dyn_complete h.dyn t)
    exact ⟨this.1, this.2, drain_noAborted_after _⟩
  | dispose s =>
    have := drain_keeps (h.struct.of_sameSkel (sameSkel_dispose m s)) (dyn_dispose h.struct h.dyn s)
    exact ⟨this.1, this.2, drain_noAborted_after _⟩


/-! ### 8. the build establishes the invariant -/

/-- invariant during the build: nothing is disposed, every task is pending -/
structure BI (m : M) : Prop where
  struct : Struct m
  all_alive : ∀ (s : Nat), s < m.scopes.length → scopeAlive m s = true
  all_pending : ∀ (t : Nat) (tk : Task), m.tasks[t]? = some tk → tk.status = .pending
  counter : ∀ (b : Nat) (bd : Boundary), m.boundaries[b]? = some bd → bd.remaining = heldAt m b

/-- `cur` / `ctx` are a legal current scope and nearest boundary -/
def Valid (m : M) (cur : Nat) (ctx : Option Nat) : Prop :=
  cur < m.scopes.length ∧ ∀ b, ctx = some b → ∃ bd, m.boundaries[b]? = some bd ∧ Anc m bd.innerScope cur

/-- `m'` was built on top of `m` -/
structure Ext (m m' : M) : Prop where
  par : ∀ (s p : Nat), parentOf m s = some p → parentOf m' s = some p
  len : m.scopes.length ≤ m'.scopes.length
  bnd : ∀ (b : Nat) (bd : Boundary), m.boundaries[b]? = some bd →
    ∃ bd', m'.boundaries[b]? = some bd' ∧ bd'.innerScope = bd.innerScope

theorem Ext.refl (m : M) : Ext m m := ⟨fun _ _ h => h, Nat.le_refl _, fun _ bd h => ⟨bd, h, rfl⟩⟩
theorem Ext.trans {a b c : M} (h1 : Ext a b) (h2 : Ext b c) : Ext a c where
  par s p h := h2.par s p (h1.par s p h)
  len := Nat.le_trans h1.len h2.len
  bnd i bd h := by
    obtain ⟨bd', h', e'⟩ := h1.bnd i bd h
    obtain ⟨bd'', h'', e''⟩ := h2.bnd i bd' h'
    exact ⟨bd'', h'', e''.trans e'⟩

theorem Anc.ext {m m' : M} (h : Ext m m') {a s : Nat} (ha : Anc m a s) : Anc m' a s := by
  induction ha with
  | refl => exact .refl
  | up hp _ ih => exact .up (h.par _ _ hp) ih

theorem Valid.ext {m m' : M} {cur ctx} (hv : Valid m cur ctx) (h : Ext m m') : Valid m' cur ctx := by
  refine ⟨Nat.lt_of_lt_of_le hv.1 h.len, fun b hb => ?_⟩
  obtain ⟨bd, hbd, hanc⟩ := hv.2 b hb
  obtain ⟨bd', hbd', e⟩ := h.bnd b bd hbd
  exact ⟨bd', hbd', by rw [e]; exact hanc.ext h⟩

/-- parents after pushing one scope -/
theorem parentOf_push {m m1 : M} {cur : Nat} (h : m1.scopes = m.scopes ++ [⟨some cur, true⟩]) (s p : Nat) :
    parentOf m1 s = some p ↔ parentOf m s = some p ∨ (s = m.scopes.length ∧ p = cur) := by
  unfold parentOf
  rw [h, List.getElem?_append]
  split
  · rename_i hlt
    constructor
    · exact .inl
    · rintro (h | ⟨h, _⟩)
      · exact h
      · omega
  · rename_i hge
    have : m.scopes[s]? = none := List.getElem?_eq_none_iff.2 (by omega)
    rw [this]
    by_cases hs : s = m.scopes.length
    · subst hs; simp; exact eq_comm
    · have : s - m.scopes.length ≠ 0 := by omega
      cases hk : s - m.scopes.length with
      | zero => omega
      | succ k => simp [hs]

theorem scopeAlive_push {m m1 : M} {cur : Nat} (h : m1.scopes = m.scopes ++ [⟨some cur, true⟩])
    (hall : ∀ (s : Nat), s < m.scopes.length → scopeAlive m s = true) :
    ∀ (s : Nat), s < m1.scopes.length → scopeAlive m1 s = true := by
  intro s hs
  rw [h] at hs; simp at hs
  unfold scopeAlive
  rw [h, List.getElem?_append]
  split
  · rename_i hlt; exact hall s hlt
  · have : s - m.scopes.length = 0 := by omega
    rw [this]; rfl

/-! #### the constructors of the harness (scope, boundary, task; resource and read below) -/

def addScope (m : M) (cur : Nat) : M := { m with scopes := m.scopes ++ [⟨some cur, true⟩] }

def addBoundary (m : M) (cur : Nat) (ctx : Option Nat) : M :=
  { m with scopes := m.scopes ++ [⟨some cur, true⟩],
           boundaries := m.boundaries ++ [⟨ctx, cur, m.scopes.length, 0⟩] }

def incr (x : Boundary) : Boundary := { x with remaining := x.remaining + 1 }

def addTask (m : M) (cur : Nat) (ctx : Option Nat) (n : Nat) : M :=
  let m := match ctx with
    | some b => { m with boundaries := m.boundaries.modify b fun x => { x with remaining := x.remaining + 1 } }
    | none => m
  { m with tasks := m.tasks ++ [⟨cur, ctx, n, .pending⟩] }

theorem addTask_scopes (m cur ctx n) : (addTask m cur ctx n).scopes = m.scopes := by
  unfold addTask; cases ctx <;> rfl
theorem addTask_tasks (m cur ctx n) : (addTask m cur ctx n).tasks = m.tasks ++ [⟨cur, ctx, n, .pending⟩] := by
  unfold addTask; cases ctx <;> rfl
theorem addTask_boundaries (m cur ctx n) (b : Nat) :
    (addTask m cur ctx n).boundaries[b]? = (m.boundaries[b]?).map fun x => if ctx = some b then incr x else x := by
  unfold addTask
  cases ctx with
  | none => cases m.boundaries[b]? <;> simp
  | some b0 =>
    show (m.boundaries.modify b0 _)[b]? = _
    rw [List.getElem?_modify]
    by_cases h : b0 = b
    · subst h; cases m.boundaries[b0]? <;> simp [incr]
    · cases m.boundaries[b]? <;> simp [h]

theorem ext_push {m m1 : M} {cur : Nat} (h : m1.scopes = m.scopes ++ [⟨some cur, true⟩])
    (hb : ∀ (b : Nat) (bd : Boundary), m.boundaries[b]? = some bd →
      ∃ bd', m1.boundaries[b]? = some bd' ∧ bd'.innerScope = bd.innerScope) : Ext m m1 where
  par s p hp := (parentOf_push h s p).2 (.inl hp)
  len := by rw [h]; simp
  bnd := hb

theorem addScope_bi {m : M} {cur : Nat} {ctx : Option Nat} (h : BI m) (hv : Valid m cur ctx) :
    BI (addScope m cur) ∧ Ext m (addScope m cur) ∧ Valid (addScope m cur) m.scopes.length ctx := by
  have hsc : (addScope m cur).scopes = m.scopes ++ [⟨some cur, true⟩] := rfl
  have hext : Ext m (addScope m cur) := ext_push hsc fun b bd hb => ⟨bd, hb, rfl⟩
  have hpar := parentOf_push hsc
  refine ⟨⟨⟨?_, ?_, ?_, ?_, ?_, ?_, ?_⟩, scopeAlive_push hsc h.all_alive, h.all_pending, h.counter⟩, hext, ?_, ?_⟩
  · intro s p hp
    rcases (hpar s p).1 hp with hp | ⟨rfl, rfl⟩
    · exact h.struct.parent_lt s p hp
    · exact hv.1
  · intro b bd hb
    exact hext.par _ _ (h.struct.bnd_inner b bd hb)
  · intro b bd p hb hp
    obtain ⟨hlt, pd, hpd, hanc⟩ := h.struct.bnd_parent b bd p hb hp
    exact ⟨hlt, pd, hpd, hanc.ext hext⟩
  · intro t tk ht
    have := h.struct.task_scope t tk ht
    rw [hsc]; simp; omega
  · intro t tk b ht hb
    exact h.struct.task_bnd t tk b ht hb
  · rw [hsc]; simp
  · intro n s hm
    have := h.struct.res_owner n s hm
    rw [hsc]; simp; omega
  · rw [hsc]; simp
  · intro b hb
    obtain ⟨bd, hbd, hanc⟩ := hv.2 b hb
    exact ⟨bd, hbd, .up ((hpar _ _).2 (.inr ⟨rfl, rfl⟩)) (hanc.ext hext)⟩

theorem addBoundary_bi {m : M} {cur : Nat} {ctx : Option Nat} (h : BI m) (hv : Valid m cur ctx) :
    BI (addBoundary m cur ctx) ∧ Ext m (addBoundary m cur ctx) ∧
      Valid (addBoundary m cur ctx) m.scopes.length (some m.boundaries.length) := by
  have hsc : (addBoundary m cur ctx).scopes = m.scopes ++ [⟨some cur, true⟩] := rfl
  have hbs : (addBoundary m cur ctx).boundaries = m.boundaries ++ [⟨ctx, cur, m.scopes.length, 0⟩] := rfl
  have hold : ∀ (b : Nat) (bd : Boundary), m.boundaries[b]? = some bd → (addBoundary m cur ctx).boundaries[b]? = some bd := by
    intro b bd hb
    rw [hbs, List.getElem?_append_left (List.getElem?_eq_some_iff.1 hb).1]; exact hb
  have hnew : ∀ (b : Nat) (bd : Boundary), (addBoundary m cur ctx).boundaries[b]? = some bd →
      m.boundaries[b]? = some bd ∨ (b = m.boundaries.length ∧ bd = ⟨ctx, cur, m.scopes.length, 0⟩) := by
    intro b bd hb
    rw [hbs, List.getElem?_append] at hb
    split at hb
    · exact .inl hb
    · by_cases hbb : b = m.boundaries.length
      · subst hbb; simp at hb; exact .inr ⟨rfl, hb.symm⟩
      · cases hk : b - m.boundaries.length with
        | zero => omega
        | succ k => simp [hk] at hb
  have hext : Ext m (addBoundary m cur ctx) := ext_push hsc fun b bd hb => ⟨bd, hold b bd hb, rfl⟩
  have hpar := parentOf_push hsc
  refine ⟨⟨⟨?_, ?_, ?_, ?_, ?_, ?_, ?_⟩, scopeAlive_push hsc h.all_alive, h.all_pending, ?_⟩, hext, ?_, ?_⟩
  · intro s p hp
    rcases (hpar s p).1 hp with hp | ⟨rfl, rfl⟩
    · exact h.struct.parent_lt s p hp
    · exact hv.1
  · intro b bd hb
    rcases hnew b bd hb with hb | ⟨rfl, rfl⟩
    · exact hext.par _ _ (h.struct.bnd_inner b bd hb)
    · exact (hpar _ _).2 (.inr ⟨rfl, rfl⟩)
  · intro b bd p hb hp
    rcases hnew b bd hb with hb | ⟨rfl, rfl⟩
    · obtain ⟨hlt, pd, hpd, hanc⟩ := h.struct.bnd_parent b bd p hb hp
      exact ⟨hlt, pd, hold p pd hpd, hanc.ext hext⟩
    · obtain ⟨pd, hpd, hanc⟩ := hv.2 p hp
      exact ⟨(List.getElem?_eq_some_iff.1 hpd).1, pd, hold p pd hpd, hanc.ext hext⟩
  · intro t tk ht
    have := h.struct.task_scope t tk ht
    rw [hsc]; simp; omega
  · intro t tk b ht hb
    obtain ⟨bd, hbd⟩ := h.struct.task_bnd t tk b ht hb
    exact ⟨bd, hold b bd hbd⟩
  · rw [hsc]; simp
  · intro n s hm
    have := h.struct.res_owner n s hm
    rw [hsc]; simp; omega
  · intro b bd hb
    rcases hnew b bd hb with hb | ⟨rfl, rfl⟩
    · exact h.counter b bd hb
    · show 0 = m.tasks.countP (held m.boundaries.length)
      symm
      rw [List.countP_eq_zero]
      intro tk htk
      obtain ⟨t, ht⟩ := List.mem_iff_getElem?.1 htk
      cases hb : tk.boundary with
      | none => simp [held, hb]
      | some b =>
        obtain ⟨bd, hbd⟩ := h.struct.task_bnd t tk b ht hb
        have := (List.getElem?_eq_some_iff.1 hbd).1
        have : b ≠ m.boundaries.length := by omega
        simp [held, hb, this]
  · rw [hsc]; simp
  · intro b hb
    cases hb
    refine ⟨⟨ctx, cur, m.scopes.length, 0⟩, ?_, .refl⟩
    rw [hbs]; simp

theorem addTask_resOwner (m cur ctx n) : (addTask m cur ctx n).resOwner = m.resOwner := by
  unfold addTask; cases ctx <;> rfl

/-- a task is added in scope `cur` (which exists) under boundary `ctx` (which exists); `cur` need not be
below `ctx`: this covers the guard of a read, which lives in the scope that owns the resource -/
theorem addTask_bi {m : M} {cur : Nat} {ctx : Option Nat} (n : Nat) (h : BI m) (hcur : cur < m.scopes.length)
    (hctx : ∀ b, ctx = some b → ∃ bd, m.boundaries[b]? = some bd) :
    BI (addTask m cur ctx n) ∧ Ext m (addTask m cur ctx n) := by
  have hsc := addTask_scopes m cur ctx n
  have hts := addTask_tasks m cur ctx n
  have hbs := addTask_boundaries m cur ctx n
  have hold : ∀ (b : Nat) (bd : Boundary), m.boundaries[b]? = some bd →
      ∃ bd', (addTask m cur ctx n).boundaries[b]? = some bd' ∧ bstat bd' = bstat bd := by
    intro b bd hb
    rw [hbs, hb]
    refine ⟨_, rfl, ?_⟩
    split <;> rfl
  have hnew : ∀ (b : Nat) (bd' : Boundary), (addTask m cur ctx n).boundaries[b]? = some bd' →
      ∃ bd, m.boundaries[b]? = some bd ∧ bstat bd' = bstat bd ∧
        bd'.remaining = bd.remaining + (if ctx = some b then 1 else 0) := by
    intro b bd' hb
    rw [hbs] at hb
    cases hbd : m.boundaries[b]? with
    | none => simp [hbd] at hb
    | some bd =>
      simp [hbd] at hb
      refine ⟨bd, rfl, ?_⟩
      rw [← hb]
      split <;> simp [incr, bstat]
  have hpar : ∀ s, parentOf (addTask m cur ctx n) s = parentOf m s := parentOf_congr hsc
  have hext : Ext m (addTask m cur ctx n) := by
    refine ⟨fun s p hp => by rw [hpar]; exact hp, by rw [hsc]; exact Nat.le_refl _, fun b bd hb => ?_⟩
    obtain ⟨bd', h1, h2⟩ := hold b bd hb
    simp [bstat] at h2
    exact ⟨bd', h1, h2.2.2⟩
  have htask : ∀ (t : Nat) (tk : Task), (addTask m cur ctx n).tasks[t]? = some tk →
      m.tasks[t]? = some tk ∨ tk = ⟨cur, ctx, n, .pending⟩ := by
    intro t tk ht
    rw [hts, List.getElem?_append] at ht
    split at ht
    · exact .inl ht
    · cases hk : t - m.tasks.length with
      | zero => simp [hk] at ht; exact .inr ht.symm
      | succ k => simp [hk] at ht
  refine ⟨⟨⟨?_, ?_, ?_, ?_, ?_, ?_, ?_⟩, ?_, ?_, ?_⟩, hext⟩
  · intro s p hp
    exact h.struct.parent_lt s p (by rw [← hpar]; exact hp)
  · intro b bd' hb
    obtain ⟨bd, h1, h2, _⟩ := hnew b bd' hb
    simp [bstat] at h2
    rw [hpar, h2.2.1, h2.2.2]; exact h.struct.bnd_inner b bd h1
  · intro b bd' p hb hp
    obtain ⟨bd, h1, h2, _⟩ := hnew b bd' hb
    simp [bstat] at h2
    obtain ⟨hlt, pd, hpd, hanc⟩ := h.struct.bnd_parent b bd p h1 (by rw [← h2.1]; exact hp)
    obtain ⟨pd', h3, h4⟩ := hold p pd hpd
    simp [bstat] at h4
    exact ⟨hlt, pd', h3, by rw [h4.2.2, h2.2.1]; exact hanc.ext hext⟩
  · intro t tk ht
    rw [hsc]
    rcases htask t tk ht with ht | rfl
    · exact h.struct.task_scope t tk ht
    · exact hcur
  · intro t tk b ht hb
    rcases htask t tk ht with ht | rfl
    · obtain ⟨bd, hbd⟩ := h.struct.task_bnd t tk b ht hb
      obtain ⟨bd', h3, _⟩ := hold b bd hbd
      exact ⟨bd', h3⟩
    · obtain ⟨bd, hbd⟩ := hctx b hb
      obtain ⟨bd', h3, _⟩ := hold b bd hbd
      exact ⟨bd', h3⟩
  · rw [hsc]; exact h.struct.root
  · intro k s hm
    rw [addTask_resOwner] at hm
    rw [hsc]; exact h.struct.res_owner k s hm
  · intro s hs
    rw [scopeAlive_congr hsc]; rw [hsc] at hs; exact h.all_alive s hs
  · intro t tk ht
    rcases htask t tk ht with ht | rfl
    · exact h.all_pending t tk ht
    · rfl
  · intro b bd' hb
    obtain ⟨bd, h1, _, h3⟩ := hnew b bd' hb
    rw [h3, h.counter b bd h1]
    unfold heldAt
    rw [hts, List.countP_append]
    simp [held, List.countP_cons]

/-- `create_isomorphic_resource`: the fetch is a task of the current scope; the owner is recorded -/
def addResource (m : M) (cur : Nat) (ctx : Option Nat) (n : Nat) : M :=
  { addTask m cur ctx 1 with resOwner := m.resOwner ++ [(n, cur)] }

/-- recording owners that exist keeps the build invariant -/
theorem setRes_bi {m : M} (r : List (Nat × Nat)) (h : BI m) (hr : ∀ (n s : Nat), (n, s) ∈ r → s < m.scopes.length) :
    BI { m with resOwner := r } ∧ Ext m { m with resOwner := r } := by
  have hext : Ext m { m with resOwner := r } := ⟨fun _ _ h => h, Nat.le_refl _, fun _ bd h => ⟨bd, h, rfl⟩⟩
  refine ⟨⟨⟨h.struct.parent_lt, h.struct.bnd_inner, ?_, h.struct.task_scope, h.struct.task_bnd, h.struct.root, hr⟩,
    h.all_alive, h.all_pending, h.counter⟩, hext⟩
  intro b bd p hb hp
  obtain ⟨hlt, pd, hpd, hanc⟩ := h.struct.bnd_parent b bd p hb hp
  exact ⟨hlt, pd, hpd, hanc.ext hext⟩

theorem addResource_bi {m : M} {cur : Nat} {ctx : Option Nat} (n : Nat) (h : BI m) (hv : Valid m cur ctx) :
    BI (addResource m cur ctx n) ∧ Ext m (addResource m cur ctx n) := by
  obtain ⟨h1, e1⟩ := addTask_bi 1 h hv.1 (fun b hb => (hv.2 b hb).imp fun _ h => h.1)
  obtain ⟨h2, e2⟩ := setRes_bi (m.resOwner ++ [(n, cur)]) h1 (by
    intro k s hm
    rw [addTask_scopes]
    rcases List.mem_append.1 hm with hm | hm
    · exact h.struct.res_owner k s hm
    · simp at hm; rw [hm.2]; exact hv.1)
  exact ⟨h2, e1.trans e2⟩

/-- the guard of a read of resource `n`: a task of the scope that owns the resource -/
theorem addUse_bi {m : M} {cur : Nat} {ctx : Option Nat} (n : Nat) (h : BI m) (hv : Valid m cur ctx) :
    BI (addTask m (m.ownerOf n) ctx 1) ∧ Ext m (addTask m (m.ownerOf n) ctx 1) :=
  addTask_bi 1 h (h.struct.ownerOf_lt n) (fun b hb => (hv.2 b hb).imp fun _ h => h.1)

/-! #### tasks spawned in place -/

theorem Local.ext {m m' : M} (hl : Local m) (he : Ext m m')
    (hnew : ∀ (t : Nat) (tk : Task) (b : Nat), m'.tasks[t]? = some tk → tk.boundary = some b →
      m.tasks[t]? = some tk ∨ ∃ bd, m.boundaries[b]? = some bd ∧ Anc m bd.innerScope tk.scope) : Local m' := by
  intro t tk b ht hb
  have : ∃ bd, m.boundaries[b]? = some bd ∧ Anc m bd.innerScope tk.scope := by
    rcases hnew t tk b ht hb with h | h
    · exact hl t tk b h hb
    · exact h
  obtain ⟨bd, hbd, hanc⟩ := this
  obtain ⟨bd', hbd', e⟩ := he.bnd b bd hbd
  exact ⟨bd', hbd', by rw [e]; exact hanc.ext he⟩

theorem addTask_local {m : M} {cur : Nat} {ctx : Option Nat} (n : Nat) (hl : Local m) (hv : Valid m cur ctx)
    (he : Ext m (addTask m cur ctx n)) : Local (addTask m cur ctx n) := by
  refine hl.ext he fun t tk b ht hb => ?_
  rw [addTask_tasks, List.getElem?_append] at ht
  split at ht
  · exact .inl ht
  · cases hk : t - m.tasks.length with
    | zero => simp [hk] at ht; subst ht; exact .inr (hv.2 b hb)
    | succ k => simp [hk] at ht

/-! #### induction over the build description -/

theorem buildItem_scope (m cur ctx cs) :
    buildItem m cur ctx (.scope cs) = buildItems (addScope m cur) m.scopes.length ctx cs := by
  simp [buildItem, addScope]
theorem buildItem_boundary (m cur ctx cs) :
    buildItem m cur ctx (.boundary cs) =
      buildItems (addBoundary m cur ctx) m.scopes.length (some m.boundaries.length) cs := by
  simp [buildItem, addBoundary]
theorem buildItem_task (m cur ctx n) : buildItem m cur ctx (.task n) = addTask m cur ctx n := by
  cases ctx <;> simp only [buildItem, addTask]
theorem buildItem_resource (m cur ctx n) : buildItem m cur ctx (.resource n) = addResource m cur ctx n := by
  cases ctx <;> simp only [buildItem, addTask, addResource]
/-- the guard of a read is a task of the scope that owns the resource -/
theorem buildItem_use (m cur ctx n) : buildItem m cur ctx (.use n) = addTask m (m.ownerOf n) ctx 1 := by
  cases ctx <;> simp only [buildItem, addTask, M.ownerOf]

mutual
theorem buildItem_bi : ∀ (it : Item) (m : M) (cur : Nat) (ctx : Option Nat), BI m → Valid m cur ctx →
    BI (buildItem m cur ctx it) ∧ Ext m (buildItem m cur ctx it)
  | .scope cs, m, cur, ctx, h, hv => by
    rw [buildItem_scope]
    obtain ⟨h1, e1, v1⟩ := addScope_bi h hv
    obtain ⟨h2, e2⟩ := buildItems_bi cs _ _ _ h1 v1
    exact ⟨h2, e1.trans e2⟩
  | .boundary cs, m, cur, ctx, h, hv => by
    rw [buildItem_boundary]
    obtain ⟨h1, e1, v1⟩ := addBoundary_bi h hv
    obtain ⟨h2, e2⟩ := buildItems_bi cs _ _ _ h1 v1
    exact ⟨h2, e1.trans e2⟩
  | .task n, m, cur, ctx, h, hv => by
    rw [buildItem_task]
    exact addTask_bi n h hv.1 (fun b hb => (hv.2 b hb).imp fun _ h => h.1)
  | .resource n, m, cur, ctx, h, hv => by
    rw [buildItem_resource]
    exact addResource_bi n h hv
  | .use n, m, cur, ctx, h, hv => by
    rw [buildItem_use]
    exact addUse_bi n h hv
theorem buildItems_bi : ∀ (is : List Item) (m : M) (cur : Nat) (ctx : Option Nat), BI m → Valid m cur ctx →
    BI (buildItems m cur ctx is) ∧ Ext m (buildItems m cur ctx is)
  | [], m, cur, ctx, h, hv => by
    simp only [buildItems]; exact ⟨h, Ext.refl m⟩
  | i :: is, m, cur, ctx, h, hv => by
    simp only [buildItems]
    obtain ⟨h1, e1⟩ := buildItem_bi i m cur ctx h hv
    obtain ⟨h2, e2⟩ := buildItems_bi is _ cur ctx h1 (hv.ext e1)
    exact ⟨h2, e1.trans e2⟩
end

theorem bi_init : BI M.init where
  struct := by
    refine ⟨?_, ?_, ?_, ?_, ?_, ?_, ?_⟩
    · intro s p hp
      unfold parentOf M.init at hp
      cases s <;> simp at hp
    all_goals (intros; simp_all [M.init])
  all_alive s hs := by
    simp [M.init] at hs; subst hs; rfl
  all_pending t tk ht := by simp [M.init] at ht
  counter b bd hb := by simp [M.init] at hb

theorem valid_init : Valid M.init 0 none := ⟨by simp [M.init], fun b hb => by cases hb⟩

theorem BI.good {m : M} (h : BI m) : Good m where
  struct := h.struct
  dyn := {
    alive_up := fun s p hp _ => h.all_alive p (Nat.lt_trans (h.struct.parent_lt s p hp) (parentOf_lt_length hp))
    counter := fun b bd hb _ => h.counter b bd hb
    pend_alive := fun t tk ht _ => h.all_alive _ (h.struct.task_scope t tk ht) }
  noAborted t tk ht := by rw [h.all_pending t tk ht]; simp

theorem good_build (items : List Item) : Good (buildItems M.init 0 none items) :=
  (buildItems_bi items _ _ _ bi_init valid_init).1.good

/-! #### build descriptions without reads: every task is spawned in place -/

mutual
/-- the description contains no read (`Item.use`) -/
def Item.noUse : Item → Bool
  | .scope cs => Items.noUse cs
  | .boundary cs => Items.noUse cs
  | .task _ => true
  | .resource _ => true
  | .use _ => false
def Items.noUse : List Item → Bool
  | [] => true
  | i :: is => i.noUse && Items.noUse is
end

mutual
theorem buildItem_local : ∀ (it : Item) (m : M) (cur : Nat) (ctx : Option Nat), it.noUse = true → BI m →
    Valid m cur ctx → Local m → Local (buildItem m cur ctx it)
  | .scope cs, m, cur, ctx, hn, h, hv, hl => by
    rw [buildItem_scope]
    obtain ⟨h1, e1, v1⟩ := addScope_bi h hv
    exact buildItems_local cs _ _ _ (by simpa [Item.noUse] using hn) h1 v1 (hl.ext e1 fun _ _ _ ht _ => .inl ht)
  | .boundary cs, m, cur, ctx, hn, h, hv, hl => by
    rw [buildItem_boundary]
    obtain ⟨h1, e1, v1⟩ := addBoundary_bi h hv
    exact buildItems_local cs _ _ _ (by simpa [Item.noUse] using hn) h1 v1 (hl.ext e1 fun _ _ _ ht _ => .inl ht)
  | .task n, m, cur, ctx, _, h, hv, hl => by
    rw [buildItem_task]
    exact addTask_local n hl hv (addTask_bi n h hv.1 (fun b hb => (hv.2 b hb).imp fun _ h => h.1)).2
  | .resource n, m, cur, ctx, _, h, hv, hl => by
    rw [buildItem_resource]
    have e1 := (addTask_bi 1 h hv.1 (fun b hb => (hv.2 b hb).imp fun _ h => h.1)).2
    exact (addTask_local 1 hl hv e1).ext ⟨fun _ _ h => h, Nat.le_refl _, fun _ bd h => ⟨bd, h, rfl⟩⟩
      fun _ _ _ ht _ => .inl ht
  | .use n, m, cur, ctx, hn, _, _, _ => by simp [Item.noUse] at hn
theorem buildItems_local : ∀ (is : List Item) (m : M) (cur : Nat) (ctx : Option Nat), Items.noUse is = true → BI m →
    Valid m cur ctx → Local m → Local (buildItems m cur ctx is)
  | [], m, cur, ctx, _, _, _, hl => by
    simp only [buildItems]; exact hl
  | i :: is, m, cur, ctx, hn, h, hv, hl => by
    simp only [buildItems]
    have hn' : i.noUse = true ∧ Items.noUse is = true := by simpa [Items.noUse] using hn
    obtain ⟨h1, e1⟩ := buildItem_bi i m cur ctx h hv
    exact buildItems_local is _ cur ctx hn'.2 h1 (hv.ext e1) (buildItem_local i m cur ctx hn'.1 h hv hl)
end

theorem local_build (items : List Item) (hn : Items.noUse items = true) : Local (buildItems M.init 0 none items) :=
  buildItems_local items _ _ _ hn bi_init valid_init (fun t tk b ht _ => by simp [M.init] at ht)


/-! ### 9. reachable states, runs -/

/-- states the harness can reach: build anything, then any events -/
inductive Reach : M → Prop
  | build (items : List Item) : Reach (buildItems M.init 0 none items)
  | step {m : M} (e : Ev) : Reach m → Reach (step m e)

def run (m : M) (es : List Ev) : M := es.foldl step m

@[simp] theorem run_nil (m : M) : run m [] = m := rfl
@[simp] theorem run_cons (m : M) (e : Ev) (es : List Ev) : run m (e :: es) = run (step m e) es := rfl
theorem run_append (m : M) (es es' : List Ev) : run m (es ++ es') = run (run m es) es' := by
  simp [run, List.foldl_append]

theorem Reach.good {m : M} (h : Reach m) : Good m := by
  induction h with
  | build items => exact good_build items
  | step e _ ih => exact good_step ih e

theorem Reach.run {m : M} (h : Reach m) (es : List Ev) : Reach (run m es) := by
  induction es generalizing m with
  | nil => exact h
  | cons e es ih => exact ih (.step e h)

theorem good_run {m : M} (h : Good m) (es : List Ev) : Good (run m es) := by
  induction es generalizing m with
  | nil => exact h
  | cons e es ih => exact ih (good_step h e)

theorem sameSkel_run (m : M) (es : List Ev) : SameSkel m (run m es) := by
  induction es generalizing m with
  | nil => exact SameSkel.refl m
  | cons e es ih => exact (sameSkel_step m e).trans (ih _)

/-! ### 10. `isLoading` -/

/-- `a` is `b` or a boundary on `b`'s parent chain -/
inductive Encloses (m : M) (a : Nat) : Nat → Prop
  | refl : Encloses m a a
  | up {b p : Nat} {bd : Boundary} : m.boundaries[b]? = some bd → bd.parent = some p → Encloses m a p → Encloses m a b

theorem Good.counter_eq {m : M} (h : Good m) {b : Nat} {bd : Boundary} (hb : m.boundaries[b]? = some bd)
    (hal : scopeAlive m bd.counterScope = true) : bd.remaining = unfinishedAt m b := by
  rw [h.dyn.counter b bd hb hal, heldAt_eq_unfinishedAt h.noAborted]

theorem Good.counter_alive {m : M} (h : Good m) {b : Nat} {bd : Boundary} (hb : m.boundaries[b]? = some bd)
    (hal : scopeAlive m bd.innerScope = true) : scopeAlive m bd.counterScope = true :=
  h.dyn.alive_up _ _ (h.struct.bnd_inner b bd hb) hal

theorem isLoading_iff_aux {m : M} (h : Good m) : ∀ (fuel b : Nat) (bd : Boundary), b < fuel →
    m.boundaries[b]? = some bd → scopeAlive m bd.counterScope = true →
    (isLoading m fuel b = true ↔ ∃ a, Encloses m a b ∧ 0 < unfinishedAt m a)
  | 0, b, bd, hlt, _, _ => by omega
  | fuel + 1, b, bd, hlt, hb, hal => by
    unfold isLoading
    rw [hb]
    simp only []
    rw [h.counter_eq hb hal]
    cases hp : bd.parent with
    | none =>
      simp only [Bool.or_false, decide_eq_true_eq]
      constructor
      · intro h0; exact ⟨b, .refl, h0⟩
      · rintro ⟨a, ha, h0⟩
        cases ha with
        | refl => exact h0
        | up hb' hp' _ => rw [hb] at hb'; cases hb'; rw [hp] at hp'; cases hp'
    | some p =>
      obtain ⟨hpb, pd, hpd, hanc⟩ := h.struct.bnd_parent b bd p hb hp
      have hpal : scopeAlive m pd.counterScope = true := h.counter_alive hpd (hanc.alive h.dyn hal)
      have ih := isLoading_iff_aux h fuel p pd (by omega) hpd hpal
      simp only [Bool.or_eq_true, decide_eq_true_eq]
      rw [ih]
      constructor
      · rintro (h0 | ⟨a, ha, h0⟩)
        · exact ⟨b, .refl, h0⟩
        · exact ⟨a, .up hb hp ha, h0⟩
      · rintro ⟨a, ha, h0⟩
        cases ha with
        | refl => exact .inl h0
        | up hb' hp' ha' =>
          rw [hb] at hb'; cases hb'; rw [hp] at hp'; cases hp'
          exact .inr ⟨a, ha', h0⟩

theorem unfinishedAt_pos_iff (m : M) (a : Nat) :
    0 < unfinishedAt m a ↔ ∃ (t : Nat) (tk : Task), m.tasks[t]? = some tk ∧ tk.boundary = some a ∧ tk.status = .pending := by
  unfold unfinishedAt
  rw [List.countP_pos_iff]
  constructor
  · rintro ⟨tk, hmem, hp⟩
    obtain ⟨t, ht⟩ := List.mem_iff_getElem?.1 hmem
    simp [unfin] at hp
    exact ⟨t, tk, ht, hp.1, hp.2⟩
  · rintro ⟨t, tk, ht, h1, h2⟩
    exact ⟨tk, List.mem_iff_getElem?.2 ⟨t, ht⟩, by simp [unfin, h1, h2]⟩

theorem isLoading_iff {m : M} (h : Good m) {b : Nat} {bd : Boundary} (hb : m.boundaries[b]? = some bd)
    (hal : scopeAlive m bd.innerScope = true) :
    isLoading m (m.boundaries.length + 1) b = true ↔
      ∃ (a t : Nat) (tk : Task), Encloses m a b ∧ m.tasks[t]? = some tk ∧ tk.boundary = some a ∧ tk.status = .pending := by
  rw [isLoading_iff_aux h _ b bd (by have := (List.getElem?_eq_some_iff.1 hb).1; omega) hb (h.counter_alive hb hal)]
  constructor
  · rintro ⟨a, ha, h0⟩
    obtain ⟨t, tk, h1, h2, h3⟩ := (unfinishedAt_pos_iff m a).1 h0
    exact ⟨a, t, tk, ha, h1, h2, h3⟩
  · rintro ⟨a, t, tk, ha, h1, h2, h3⟩
    exact ⟨a, ha, (unfinishedAt_pos_iff m a).2 ⟨t, tk, h1, h2, h3⟩⟩

theorem globalLoading_iff {m : M} (h : Good m) :
    globalLoading m = true ↔
      ∃ (b : Nat) (bd : Boundary), m.boundaries[b]? = some bd ∧ scopeAlive m bd.counterScope = true ∧ 0 < unfinishedAt m b := by
  unfold globalLoading
  rw [List.any_eq_true]
  constructor
  · rintro ⟨bd, hmem, hp⟩
    obtain ⟨b, hb⟩ := List.mem_iff_getElem?.1 hmem
    simp at hp
    exact ⟨b, bd, hb, hp.1, by rw [← h.counter_eq hb hp.1]; exact hp.2⟩
  · rintro ⟨b, bd, hb, hal, h0⟩
    refine ⟨bd, List.mem_iff_getElem?.2 ⟨b, hb⟩, ?_⟩
    simp [hal]
    rw [h.counter_eq hb hal]; exact h0

/-! ### 11. completions commute -/

/-- equal up to the poll log -/
def ObsEq (m m' : M) : Prop := m.scopes = m'.scopes ∧ m.boundaries = m'.boundaries ∧ m.tasks = m'.tasks

theorem ObsEq.refl (m : M) : ObsEq m m := ⟨rfl, rfl, rfl⟩
theorem ObsEq.trans {a b c : M} (h1 : ObsEq a b) (h2 : ObsEq b c) : ObsEq a c :=
  ⟨h1.1.trans h2.1, h1.2.1.trans h2.2.1, h1.2.2.trans h2.2.2⟩

theorem decIf_congr {m m' : M} (h : m.scopes = m'.scopes) (ob b x) : decIf m ob b x = decIf m' ob b x := by
  unfold decIf; rw [scopeAlive_congr h]
theorem released_congr {m m' : M} (h : m.tasks = m'.tasks) (t) : released m t = released m' t := by
  unfold released; rw [h]

theorem ObsEq.complete {m m' : M} (h : ObsEq m m') (t : Nat) : ObsEq (complete m t) (complete m' t) := by
  refine ⟨?_, ?_, ?_⟩
  · rw [complete_scopes, complete_scopes]; exact h.1
  · apply List.ext_getElem?
    intro b
    rw [complete_boundaries, complete_boundaries, h.2.1, released_congr h.2.2]
    cases m'.boundaries[b]? with
    | none => rfl
    | some x => simp [decIf_congr h.1]
  · rw [complete_tasks, complete_tasks, h.2.2]

theorem modify_comm {α} (f g : α → α) (l : List α) (i j : Nat) (h : i ≠ j) :
    (l.modify i f).modify j g = (l.modify j g).modify i f := by
  apply List.ext_getElem?
  intro k
  simp only [List.getElem?_modify]
  cases l[k]? with
  | none => rfl
  | some a =>
    by_cases h1 : i = k <;> by_cases h2 : j = k <;> simp [h1, h2]
    omega

theorem decIf_comm (m : M) (o o' : Option Nat) (b : Nat) (x : Boundary) :
    decIf m o b (decIf m o' b x) = decIf m o' b (decIf m o b x) := by
  unfold decIf decr
  by_cases h1 : o = some b <;> by_cases h2 : o' = some b <;>
    cases h3 : scopeAlive m x.counterScope <;> simp [h1, h2, h3]

theorem complete_comm (m : M) (t u : Nat) : ObsEq (complete (complete m t) u) (complete (complete m u) t) := by
  by_cases htu : t = u
  · subst htu; exact ObsEq.refl _
  have hr1 : released (complete m t) u = released m u := by
    unfold released; rw [complete_tasks, List.getElem?_modify]
    cases m.tasks[u]? <;> simp [htu]
  have hr2 : released (complete m u) t = released m t := by
    unfold released; rw [complete_tasks, List.getElem?_modify]
    have : u ≠ t := fun h => htu h.symm
    cases m.tasks[t]? <;> simp [this]
  refine ⟨?_, ?_, ?_⟩
  · simp only [complete_scopes]
  · apply List.ext_getElem?
    intro b
    simp only [complete_boundaries, hr1, hr2]
    cases m.boundaries[b]? with
    | none => rfl
    | some x =>
      simp only [Option.map_some]
      rw [decIf_congr (complete_scopes m t), decIf_congr (complete_scopes m u), decIf_comm]
  · simp only [complete_tasks]
    exact modify_comm adv adv m.tasks t u htu

/-- run completions only (no executor turn needed: nothing is aborted) -/
def runC (m : M) (ts : List Nat) : M := ts.foldl complete m

theorem runC_scopes (m : M) (ts : List Nat) : (runC m ts).scopes = m.scopes := by
  induction ts generalizing m with
  | nil => rfl
  | cons t ts ih => exact (ih (complete m t)).trans (complete_scopes m t)

theorem ObsEq.runC {m m' : M} (h : ObsEq m m') (ts : List Nat) : ObsEq (runC m ts) (runC m' ts) := by
  induction ts generalizing m m' with
  | nil => exact h
  | cons t ts ih => exact ih (h.complete t)

theorem runC_perm {ts ts' : List Nat} (hp : ts.Perm ts') : ∀ m, ObsEq (runC m ts) (runC m ts') := by
  induction hp with
  | nil => exact fun m => ObsEq.refl _
  | cons x _ ih => exact fun m => ih (complete m x)
  | swap x y l => exact fun m => (complete_comm m y x).runC l
  | trans _ _ ih1 ih2 => exact fun m => (ih1 m).trans (ih2 m)

theorem adv_status_ne_aborted {tk : Task} (h : tk.status ≠ .aborted) : (adv tk).status ≠ .aborted := by
  unfold adv; repeat' split
  all_goals simp_all

theorem noAborted_complete {m : M} (h : NoAborted m) (t : Nat) : NoAborted (complete m t) := by
  intro i tk' hi
  rw [complete_tasks, List.getElem?_modify] at hi
  cases h' : m.tasks[i]? with
  | none => simp [h'] at hi
  | some tk =>
    simp [h'] at hi
    have := h i tk h'
    split at hi
    · subst hi; exact adv_status_ne_aborted this
    · subst hi; exact this

theorem step_complete_eq {m : M} (h : NoAborted m) (t : Nat) : step m (.complete t) = complete m t :=
  drain_noAborted (noAborted_complete h t)

theorem run_complete_eq {m : M} (h : NoAborted m) (ts : List Nat) : run m (ts.map .complete) = runC m ts := by
  induction ts generalizing m with
  | nil => rfl
  | cons t ts ih =>
    simp only [List.map_cons, run_cons, step_complete_eq h]
    exact ih (noAborted_complete h t)

theorem isLoading_congr {m m' : M} (h : m.boundaries = m'.boundaries) : ∀ (fuel b : Nat),
    isLoading m fuel b = isLoading m' fuel b
  | 0, b => rfl
  | fuel + 1, b => by
    unfold isLoading
    rw [h]
    split
    · rfl
    · rename_i bd _
      cases bd.parent with
      | none => rfl
      | some p => simp only []; rw [isLoading_congr h fuel p]

theorem globalLoading_congr {m m' : M} (h : ObsEq m m') : globalLoading m = globalLoading m' := by
  unfold globalLoading
  rw [h.2.1]
  congr 1
  funext bd
  rw [scopeAlive_congr h.1]

/-- every await point of every pending task is completed by `ts` -/
def Covers (m : M) (ts : List Nat) : Prop :=
  ∀ (t : Nat) (tk : Task), m.tasks[t]? = some tk → tk.status = .pending → 1 ≤ tk.awaits ∧ tk.awaits ≤ ts.count t

theorem runC_all_done : ∀ (ts : List Nat) (m : M), Covers m ts →
    ∀ (t : Nat) (tk : Task), (runC m ts).tasks[t]? = some tk → tk.status ≠ .pending
  | [], m, hc, t, tk, ht, hp => by
    have := hc t tk ht hp
    simp at this; omega
  | u :: ts, m, hc, t, tk, ht, hp => by
    refine runC_all_done ts (complete m u) ?_ t tk ht hp
    intro i tk' hi hp'
    rw [complete_tasks, List.getElem?_modify] at hi
    cases h' : m.tasks[i]? with
    | none => simp [h'] at hi
    | some tk0 =>
      simp [h'] at hi
      by_cases hui : u = i
      · subst hui
        simp at hi
        subst hi
        unfold adv at hp' ⊢
        split at hp'
        · rename_i hc'
          simp [hp'] at hc'
          have := hc u tk0 h' hp'
          omega
        · rename_i hc'
          have hp0 : tk0.status = .pending := by
            cases hs : tk0.status <;> simp [hs] at hc' ⊢
          have := hc u tk0 h' hp0
          rw [if_neg hc']
          split at hp'
          · simp at hp'
          · rename_i hl
            rw [if_neg hl]
            simp at this ⊢
            omega
      · simp [hui] at hi
        subst hi
        have := hc i tk0 h' hp'
        simp [hui] at this
        exact this


/-! ### 12. polls, cancellation -/

theorem drain_polls (m : M) : (drain m).polls = m.polls :=
  drain_ind (fun m' => m'.polls = m.polls) (fun _ _ _ h _ _ => (dropGuard_polls _ _).trans h) m rfl

theorem drain_scopes (m : M) : (drain m).scopes = m.scopes :=
  drain_ind (fun m' => m'.scopes = m.scopes) (fun _ _ _ h _ _ => (dropGuard_scopes _ _).trans h) m rfl

theorem step_complete_polls (m : M) (t : Nat) : (step m (.complete t)).polls = m.polls ++ pollOf m t := by
  show (drain (complete m t)).polls = _
  rw [drain_polls, complete_polls]

theorem step_dispose_polls (m : M) (s : Nat) : (step m (.dispose s)).polls = m.polls := by
  show (drain (dispose m s)).polls = _
  rw [drain_polls]; rfl

theorem pollOf_pending {m : M} {t : Nat} {p : Nat × Nat} (hp : p ∈ pollOf m t) :
    p.1 = t ∧ ∃ tk, m.tasks[t]? = some tk ∧ tk.status = .pending := by
  unfold pollOf at hp
  cases h : m.tasks[t]? with
  | none => simp [h] at hp
  | some tk =>
    simp [h] at hp
    exact ⟨by rw [hp.2], tk, rfl, hp.1.1⟩

/-- what `dispose m s` does to a task -/
def abortIf (m : M) (s : Nat) (tk : Task) : Task :=
  if tk.status == .pending && dying m s tk.scope then { tk with status := .aborted } else tk

theorem step_complete_tasks (m : M) (t : Nat) : (step m (.complete t)).tasks = (m.tasks.modify t adv).map fixT := by
  show (drain (complete m t)).tasks = _
  rw [drain_tasks, complete_tasks]

theorem step_dispose_tasks (m : M) (s : Nat) : (step m (.dispose s)).tasks = (m.tasks.map (abortIf m s)).map fixT := by
  show (drain (dispose m s)).tasks = _
  rw [drain_tasks]; rfl

theorem adv_pending {tk : Task} (h : (adv tk).status = .pending) : tk.status = .pending := by
  unfold adv at h
  split at h
  · exact h
  · split at h
    · simp at h
    · exact h

theorem fixT_pending {tk : Task} (h : (fixT tk).status = .pending) : tk.status = .pending ∧ fixT tk = tk := by
  unfold fixT at h ⊢
  split at h
  · simp at h
  · simp [h]

theorem abortIf_pending {m : M} {s : Nat} {tk : Task} (h : (abortIf m s tk).status = .pending) :
    tk.status = .pending ∧ dying m s tk.scope = false := by
  unfold abortIf at h
  split at h
  · simp at h
  · rename_i hn
    simp [h] at hn
    exact ⟨h, hn⟩

/-- a task that is pending after an event was pending before it -/
theorem step_pending {m : M} {e : Ev} {t : Nat} {tk' : Task} (ht : (step m e).tasks[t]? = some tk')
    (hp : tk'.status = .pending) : ∃ tk, m.tasks[t]? = some tk ∧ tk.status = .pending := by
  cases e with
  | complete u =>
    rw [step_complete_tasks, List.getElem?_map, List.getElem?_modify] at ht
    cases h' : m.tasks[t]? with
    | none => simp [h'] at ht
    | some tk =>
      refine ⟨tk, rfl, ?_⟩
      simp [h'] at ht
      subst ht
      have := (fixT_pending hp).1
      split at this
      · exact adv_pending this
      · exact this
  | dispose s =>
    rw [step_dispose_tasks, List.getElem?_map, List.getElem?_map] at ht
    cases h' : m.tasks[t]? with
    | none => simp [h'] at ht
    | some tk =>
      refine ⟨tk, rfl, ?_⟩
      simp [h'] at ht
      subst ht
      exact (abortIf_pending (fixT_pending hp).1).1

theorem run_pending {m : M} {es : List Ev} {t : Nat} {tk' : Task} (ht : (run m es).tasks[t]? = some tk')
    (hp : tk'.status = .pending) : ∃ tk, m.tasks[t]? = some tk ∧ tk.status = .pending := by
  induction es generalizing m with
  | nil => exact ⟨tk', ht, hp⟩
  | cons e es ih =>
    obtain ⟨tk1, h1, h2⟩ := ih (m := step m e) ht
    exact step_pending h1 h2

/-- every poll recorded during a run belongs to a task that was pending at the start of the run -/
theorem run_polls (m : M) (es : List Ev) : ∃ extra, (run m es).polls = m.polls ++ extra ∧
    ∀ p, p ∈ extra → ∃ tk, m.tasks[p.1]? = some tk ∧ tk.status = .pending := by
  induction es generalizing m with
  | nil => exact ⟨[], by simp, by simp⟩
  | cons e es ih =>
    obtain ⟨extra, h1, h2⟩ := ih (step m e)
    have h2' : ∀ p, p ∈ extra → ∃ tk, m.tasks[p.1]? = some tk ∧ tk.status = .pending := by
      intro p hp
      obtain ⟨tk, h3, h4⟩ := h2 p hp
      exact step_pending h3 h4
    cases e with
    | complete t =>
      refine ⟨pollOf m t ++ extra, ?_, ?_⟩
      · rw [run_cons, h1, step_complete_polls, List.append_assoc]
      · intro p hp
        rcases List.mem_append.1 hp with hp | hp
        · obtain ⟨e1, tk, h3, h4⟩ := pollOf_pending hp
          exact ⟨tk, by rw [e1]; exact h3, h4⟩
        · exact h2' p hp
    | dispose s =>
      refine ⟨extra, ?_, h2'⟩
      rw [run_cons, h1, step_dispose_polls]

/-- after `dispose s` (and the executor turn) no task of the subtree is pending -/
theorem step_dispose_kills {m : M} {s t : Nat} {tk' : Task} (ht : (step m (.dispose s)).tasks[t]? = some tk')
    (hd : dying m s tk'.scope = true) : tk'.status ≠ .pending := by
  intro hp
  rw [step_dispose_tasks, List.getElem?_map, List.getElem?_map] at ht
  cases h' : m.tasks[t]? with
  | none => simp [h'] at ht
  | some tk =>
    simp [h'] at ht
    subst ht
    obtain ⟨h1, h2⟩ := fixT_pending hp
    rw [h2] at hd
    have h3 := abortIf_pending h1
    have : abortIf m s tk = tk := by
      unfold abortIf; rw [if_neg]; simp [h3.2]
    rw [this, h3.2] at hd
    cases hd

/-- a pending task of the subtree is cancelled: aborted, then dropped by the executor -/
theorem step_dispose_dropped {m : M} {s t : Nat} {tk : Task} (ht : m.tasks[t]? = some tk)
    (hd : dying m s tk.scope = true) (hp : tk.status = .pending) :
    (step m (.dispose s)).tasks[t]? = some { tk with status := .dropped } := by
  rw [step_dispose_tasks, List.getElem?_map, List.getElem?_map, ht]
  simp [abortIf, hp, hd, fixT]

/-- tasks outside the subtree are untouched -/
theorem step_dispose_other {m : M} (hn : NoAborted m) {s t : Nat} {tk : Task} (ht : m.tasks[t]? = some tk)
    (hd : dying m s tk.scope = false ∨ tk.status ≠ .pending) :
    (step m (.dispose s)).tasks[t]? = some tk := by
  rw [step_dispose_tasks, List.getElem?_map, List.getElem?_map, ht]
  have h1 : abortIf m s tk = tk := by
    unfold abortIf; rw [if_neg]
    rcases hd with h | h
    · simp [h]
    · simp [h]
  have h2 : fixT tk = tk := by
    unfold fixT; rw [if_neg (hn t tk ht)]
  simp [h1, h2]

theorem dying_dead {m : M} (h : Good m) {s i : Nat} (hs : scopeAlive m s = false) (hd : dying m s i = true) :
    scopeAlive m i = false :=
  (inSubtree_sound m s _ i hd).dead h.dyn hs

/-- disposing a dead (or non-existent) scope is a no-op -/
theorem step_dispose_dead {m : M} (h : Good m) {s : Nat} (hs : scopeAlive m s = false) :
    step m (.dispose s) = m := by
  have hd : dispose m s = m := by
    have h1 : (m.scopes.mapIdx fun i sc => if inSubtree m s m.scopes.length i = true then { sc with alive := false } else sc)
        = m.scopes := by
      apply List.ext_getElem?
      intro i
      rw [List.getElem?_mapIdx]
      cases hi : m.scopes[i]? with
      | none => rfl
      | some sc =>
        simp only [Option.map_some]
        split
        · rename_i hdy
          have := dying_dead h hs hdy
          simp [scopeAlive, hi] at this
          cases sc; simp_all
        · rfl
    have h2 : (m.tasks.map fun tk =>
        if (tk.status == .pending && inSubtree m s m.scopes.length tk.scope) = true then { tk with status := .aborted } else tk)
        = m.tasks := by
      apply List.ext_getElem?
      intro t
      rw [List.getElem?_map]
      cases ht : m.tasks[t]? with
      | none => rfl
      | some tk =>
        simp only [Option.map_some]
        rw [if_neg]
        intro hc
        simp at hc
        have := h.dyn.pend_alive t tk ht hc.1
        rw [dying_dead h hs hc.2] at this
        cases this
    unfold dispose
    simp only [h1, h2]
  show drain (dispose m s) = m
  rw [hd, drain_noAborted h.noAborted]

/-- the tasks still counted after `dispose s`: pending and outside the subtree -/
theorem unfinishedAt_step_dispose {m : M} (hn : NoAborted m) (s b : Nat) :
    unfinishedAt (step m (.dispose s)) b = m.tasks.countP fun tk => unfin b tk && !dying m s tk.scope := by
  unfold unfinishedAt
  rw [step_dispose_tasks, List.countP_map, List.countP_map]
  apply List.countP_congr
  intro tk hmem
  obtain ⟨t, ht⟩ := List.mem_iff_getElem?.1 hmem
  have hna := hn t tk ht
  simp only [Function.comp]
  unfold abortIf
  cases hd : dying m s tk.scope <;> cases hst : tk.status <;> simp_all [fixT, unfin]


end SycVerif.Async
