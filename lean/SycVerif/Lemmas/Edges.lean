import SycVerif.Model.Reactive
/-!
Bookkeeping invariants of the subscription graph (`dependents` / `dependencies`) of the reactive
model: `NoDangling`, `EdgesSym`, and the specifications of the functions that contain no user code.
-/
namespace SycVerif.Reactive

/-! ### 1. `get?` lemmas -/

/-- everything of a `Root` except the arena contents -/
def SameFrame (r r' : Root) : Prop :=
  r'.nodes.size = r.nodes.size ∧ r'.tracker = r.tracker ∧ r'.current = r.current ∧
  r'.rootNode = r.rootNode ∧ r'.queue = r.queue ∧ r'.batching = r.batching ∧
  r'.nextTag = r.nextTag ∧ r'.trace = r.trace

theorem SameFrame.refl (r : Root) : SameFrame r r := by simp [SameFrame]

theorem SameFrame.trans {a b c : Root} (h1 : SameFrame a b) (h2 : SameFrame b c) : SameFrame a c := by
  obtain ⟨a1, a2, a3, a4, a5, a6, a7, a8⟩ := h1
  obtain ⟨b1, b2, b3, b4, b5, b6, b7, b8⟩ := h2
  exact ⟨b1.trans a1, b2.trans a2, b3.trans a3, b4.trans a4, b5.trans a5, b6.trans a6, b7.trans a7, b8.trans a8⟩

theorem Root.get?_eq_none_of_size_le {r : Root} {j : Id} (h : r.nodes.size ≤ j) : r.get? j = none := by
  simp [Root.get?, Array.getElem?_eq_none h]

theorem Root.lt_size_of_get? {r : Root} {j : Id} {n : Node} (h : r.get? j = some n) : j < r.nodes.size := by
  apply Classical.byContradiction; intro hn
  rw [Root.get?_eq_none_of_size_le (Nat.le_of_not_lt hn)] at h; cases h

theorem Root.alive_iff {r : Root} {j : Id} : r.alive j = true ↔ ∃ n, r.get? j = some n := by
  simp [Root.alive, Option.isSome_iff_exists]

theorem Root.get?_setNode (r : Root) (id j : Id) (n : Node) :
    (r.setNode id n).get? j = if j = id ∧ id < r.nodes.size then some n else r.get? j := by
  unfold Root.setNode
  by_cases h : id < r.nodes.size
  · by_cases hj : j = id
    · subst hj; simp [Root.get?, h]
    · simp [Root.get?, h, hj, Array.getElem?_setIfInBounds_ne (Ne.symm hj)]
  · simp [h]

theorem Root.get?_remove (r : Root) (id j : Id) :
    (r.remove id).get? j = if j = id then none else r.get? j := by
  unfold Root.remove
  by_cases h : id < r.nodes.size
  · by_cases hj : j = id
    · subst hj; simp [Root.get?, h]
    · simp [Root.get?, h, hj, Array.getElem?_setIfInBounds_ne (Ne.symm hj)]
  · by_cases hj : j = id
    · subst hj; simp [h, Root.get?_eq_none_of_size_le (Nat.le_of_not_lt h)]
    · simp [h, hj]

theorem Root.get?_modify (r : Root) (id j : Id) (f : Node → Node) :
    (r.modify id f).get? j = if j = id then (r.get? id).map f else r.get? j := by
  unfold Root.modify
  split
  · rename_i n hn
    have := Root.lt_size_of_get? hn
    rw [Root.get?_setNode]; by_cases hj : j = id <;> simp [hj, hn, this]
  · rename_i hn
    by_cases hj : j = id <;> simp [hj, hn]

theorem SameFrame.setNode (r : Root) (id : Id) (n : Node) : SameFrame r (r.setNode id n) := by
  unfold Root.setNode; split <;> simp [SameFrame]

theorem SameFrame.remove (r : Root) (id : Id) : SameFrame r (r.remove id) := by
  unfold Root.remove; split <;> simp [SameFrame]

theorem SameFrame.modify (r : Root) (id : Id) (f : Node → Node) : SameFrame r (r.modify id f) := by
  unfold Root.modify; split
  · exact SameFrame.setNode ..
  · exact SameFrame.refl r

/-- `n`-fold application -/
def iter (f : Node → Node) : Nat → Node → Node
  | 0, n => n
  | k + 1, n => iter f k (f n)

/-- the `foldl`-based updates: node `j` is modified once per occurrence of `j` in the list -/
theorem Root.get?_foldl_modify (f : Node → Node) (l : List Id) (r : Root) (j : Id) :
    (l.foldl (fun r d => r.modify d f) r).get? j = (r.get? j).map (iter f (l.count j)) := by
  induction l generalizing r with
  | nil => simp [iter]
  | cons d l ih =>
    simp only [List.foldl_cons, ih, Root.get?_modify, List.count_cons]
    by_cases hj : j = d
    · subst hj; cases r.get? j <;> simp [iter]
    · have : (d == j) = false := by simp; exact Ne.symm hj
      simp [hj, this]

theorem SameFrame.foldl_modify (f : Node → Node) (l : List Id) (r : Root) :
    SameFrame r (l.foldl (fun r d => r.modify d f) r) := by
  induction l generalizing r with
  | nil => exact SameFrame.refl r
  | cons d l ih => exact (SameFrame.modify r d f).trans (ih _)

theorem iter_idem {f : Node → Node} (hf : ∀ n, f (f n) = f n) (k : Nat) (n : Node) :
    iter f (k + 1) n = f n := by
  induction k generalizing n with
  | zero => rfl
  | succ k ih => rw [iter, ih, hf]

/-- for an idempotent update the multiplicity does not matter -/
theorem Root.get?_foldl_modify_idem {f : Node → Node} (hf : ∀ n, f (f n) = f n) (l : List Id)
    (r : Root) (j : Id) :
    (l.foldl (fun r d => r.modify d f) r).get? j = if j ∈ l then (r.get? j).map f else r.get? j := by
  rw [Root.get?_foldl_modify]
  by_cases hj : j ∈ l
  · obtain ⟨k, hk⟩ : ∃ k, l.count j = k + 1 := ⟨l.count j - 1, by have := List.count_pos_iff.2 hj; omega⟩
    have : iter f (k + 1) = f := funext (iter_idem hf k)
    simp [hj, hk, this]
  · simp [hj, List.count_eq_zero.2 hj]; cases r.get? j <;> simp [iter]

theorem iter_push (d : Id) (k : Nat) (n : Node) :
    iter (fun n => { n with dependents := n.dependents ++ [d] }) k n
      = { n with dependents := n.dependents ++ List.replicate k d } := by
  induction k generalizing n with
  | zero => simp [iter]
  | succ k ih => simp [iter, ih, List.replicate_succ]

/-! ### 2. the invariants -/

/-- every id stored in a `dependents` / `dependencies` list of a live node is alive -/
def NoDangling (r : Root) : Prop :=
  ∀ i n, r.get? i = some n →
    (∀ d ∈ n.dependents, r.alive d = true) ∧ (∀ d ∈ n.dependencies, r.alive d = true)

/-- edge multiset symmetry: `b` occurs in `a`'s subscriber list exactly as often as `a` occurs in
`b`'s dependency list -/
def EdgesSym (r : Root) : Prop :=
  ∀ a b na nb, r.get? a = some na → r.get? b = some nb →
    na.dependents.count b = nb.dependencies.count a

example : NoDangling Root.init ∧ EdgesSym Root.init := by
  have h : ∀ j n, Root.init.get? j = some n → n.dependents = [] ∧ n.dependencies = [] := by
    intro j n hn
    have hj := Root.lt_size_of_get? hn
    have : j = 0 := by simp [Root.init] at hj; exact hj
    subst this
    simp [Root.init, Root.get?] at hn
    subst hn; simp
  constructor
  · intro i n hn; simp [(h i n hn).1, (h i n hn).2]
  · intro a b na nb ha hb; simp [(h a na ha).1, (h b nb hb).2]

/-! list helpers -/

theorem filter_ne_of_not_mem {c : Id} {l : List Id} (h : c ∉ l) : l.filter (· != c) = l := by
  rw [List.filter_eq_self]; intro a ha; simp; intro hac; exact h (hac ▸ ha)

theorem count_filter_ne (c b : Id) (l : List Id) :
    (l.filter (· != c)).count b = if b = c then 0 else l.count b := by
  by_cases hb : b = c
  · subst hb; simp [List.count_eq_zero]
  · simp [hb, List.count_filter (p := (· != c)) (a := b) (by simp [hb])]

theorem NoDangling.not_mem_of_dead {r : Root} (h : NoDangling r) {id : Id} (hid : r.get? id = none)
    {j : Id} {n : Node} (hn : r.get? j = some n) : id ∉ n.dependents ∧ id ∉ n.dependencies := by
  have := h j n hn
  constructor <;> intro hm
  · have := this.1 id hm; simp [Root.alive, hid] at this
  · have := this.2 id hm; simp [Root.alive, hid] at this

/-! ### 3. `removeNode` -/

/-- filter `id` out of both edge lists; all other fields untouched -/
def eraseId (id : Id) (n : Node) : Node :=
  { n with dependents := n.dependents.filter (· != id),
           dependencies := n.dependencies.filter (· != id) }

/-- (d): `eraseId` touches nothing but the two edge lists -/
theorem eraseId_fields (id : Id) (n : Node) :
    (eraseId id n).value = n.value ∧ (eraseId id n).callback = n.callback ∧
    (eraseId id n).children = n.children ∧ (eraseId id n).parent = n.parent ∧
    (eraseId id n).cleanups = n.cleanups ∧ (eraseId id n).context = n.context ∧
    (eraseId id n).dirty = n.dirty ∧ (eraseId id n).mark = n.mark ∧
    (eraseId id n).dependents = n.dependents.filter (· != id) ∧
    (eraseId id n).dependencies = n.dependencies.filter (· != id) :=
  ⟨rfl, rfl, rfl, rfl, rfl, rfl, rfl, rfl, rfl, rfl⟩

theorem removeNode_dead {r : Root} {id : Id} (h : r.get? id = none) : removeNode r id = r := by
  simp [removeNode, h]

/-- what `removeNode` does, without any assumption on the state -/
theorem removeNode_get?_raw {r : Root} {id : Id} {this : Node} (h : r.get? id = some this) (j : Id) :
    (removeNode r id).get? j =
      if j = id then none else
        (r.get? j).map fun n =>
          { n with dependencies := if j ∈ this.dependents then n.dependencies.filter (· != id) else n.dependencies,
                   dependents := if j ∈ this.dependencies then n.dependents.filter (· != id) else n.dependents } := by
  simp only [removeNode, h]
  rw [Root.get?_foldl_modify_idem (by intro n; simp), Root.get?_foldl_modify_idem (by intro n; simp),
    Root.get?_remove]
  by_cases hj : j = id
  · simp [hj]
  · by_cases h1 : j ∈ this.dependents <;> by_cases h2 : j ∈ this.dependencies <;>
      cases r.get? j <;> simp [hj, h1, h2]

/-- any state transformer that removes `id` and erases it from all edge lists keeps the invariants -/
theorem erase_preserves {r r' : Root} {id : Id} (h0 : r'.get? id = none)
    (h1 : ∀ j, j ≠ id → r'.get? j = (r.get? j).map (eraseId id)) :
    (NoDangling r → NoDangling r') ∧ (EdgesSym r → EdgesSym r') := by
  have key : ∀ j n', r'.get? j = some n' → j ≠ id ∧ ∃ n, r.get? j = some n ∧ n' = eraseId id n := by
    intro j n' hn'
    have hj : j ≠ id := by intro e; subst e; rw [h0] at hn'; cases hn'
    rw [h1 j hj, Option.map_eq_some_iff] at hn'
    obtain ⟨n, hn, e⟩ := hn'
    exact ⟨hj, n, hn, e.symm⟩
  have alive' : ∀ d, d ≠ id → r.alive d = true → r'.alive d = true := by
    intro d hd ha
    rw [Root.alive_iff] at *
    obtain ⟨m, hm⟩ := ha
    exact ⟨eraseId id m, by rw [h1 d hd, hm]; rfl⟩
  constructor
  · intro hnd i n' hn'
    obtain ⟨_, n, hn, rfl⟩ := key i n' hn'
    obtain ⟨hd1, hd2⟩ := hnd i n hn
    constructor <;> intro d hd <;> simp [eraseId, List.mem_filter] at hd
    · exact alive' d hd.2 (hd1 d hd.1)
    · exact alive' d hd.2 (hd2 d hd.1)
  · intro hs a b na' nb' ha hb
    obtain ⟨haid, na, hna, rfl⟩ := key a na' ha
    obtain ⟨hbid, nb, hnb, rfl⟩ := key b nb' hb
    simp [eraseId, haid, hbid, hs a b na nb hna hnb]

/-- item 3 (repair D2): `removeNode` removes `id`, erases it from every edge list, changes nothing
else, and keeps the invariants -/
theorem removeNode_spec {r : Root} (hnd : NoDangling r) (hs : EdgesSym r) (id : Id) :
    (removeNode r id).get? id = none ∧
    NoDangling (removeNode r id) ∧
    EdgesSym (removeNode r id) ∧
    (∀ j, j ≠ id → (removeNode r id).get? j = (r.get? j).map (eraseId id)) ∧
    SameFrame r (removeNode r id) ∧
    (r.get? id = none → removeNode r id = r) := by
  have h0 : (removeNode r id).get? id = none := by
    cases h : r.get? id with
    | none => rw [removeNode_dead h, h]
    | some this => simp [removeNode_get?_raw h]
  have h1 : ∀ j, j ≠ id → (removeNode r id).get? j = (r.get? j).map (eraseId id) := by
    intro j hj
    cases h : r.get? id with
    | none =>
      rw [removeNode_dead h]
      cases hn : r.get? j with
      | none => rfl
      | some n =>
        obtain ⟨h1, h2⟩ := hnd.not_mem_of_dead h hn
        simp [eraseId, filter_ne_of_not_mem h1, filter_ne_of_not_mem h2]
    | some this =>
      rw [removeNode_get?_raw h]
      cases hn : r.get? j with
      | none => simp [hj]
      | some n =>
        have e1 : j ∉ this.dependents → n.dependencies.filter (· != id) = n.dependencies := by
          intro hm; apply filter_ne_of_not_mem
          rw [← List.count_eq_zero, ← hs id j this n h hn, List.count_eq_zero]; exact hm
        have e2 : j ∉ this.dependencies → n.dependents.filter (· != id) = n.dependents := by
          intro hm; apply filter_ne_of_not_mem
          rw [← List.count_eq_zero, hs j id n this hn h, List.count_eq_zero]; exact hm
        by_cases m1 : j ∈ this.dependents <;> by_cases m2 : j ∈ this.dependencies <;>
          simp [hj, m1, m2, eraseId] <;> simp [e1, e2, m1, m2]
  have hp := erase_preserves h0 h1
  refine ⟨h0, hp.1 hnd, hp.2 hs, h1, ?_, removeNode_dead⟩
  unfold removeNode
  split
  · exact SameFrame.refl r
  · exact (SameFrame.remove r id).trans ((SameFrame.foldl_modify ..).trans (SameFrame.foldl_modify ..))

/-- (b) spelled out: after `removeNode`, no live node mentions `id` -/
theorem removeNode_not_mem {r : Root} (hnd : NoDangling r) (hs : EdgesSym r) (id : Id) {j : Id} {n : Node}
    (hn : (removeNode r id).get? j = some n) : id ∉ n.dependents ∧ id ∉ n.dependencies :=
  (removeNode_spec hnd hs id).2.1.not_mem_of_dead (removeNode_spec hnd hs id).1 hn

/-! ### 4. `unlink` (first loop of `run_node_update`) -/

theorem Root.alive_setNode_of_alive {r : Root} {id : Id} (n : Node) (h : r.alive id = true) (j : Id) :
    (r.setNode id n).alive j = r.alive j := by
  rw [Root.alive_iff] at h; obtain ⟨m, hm⟩ := h
  simp only [Root.alive, Root.get?_setNode]
  by_cases hj : j = id
  · subst hj; simp [Root.lt_size_of_get? hm, hm]
  · simp [hj]

/-- when every listed dependency is alive, `unlink` does not panic and is a `foldl` of `modify` -/
theorem unlink_eq_foldl (cur : Id) (l : List Id) (r : Root) (h : ∀ d ∈ l, r.alive d = true) :
    unlink cur r l = .ok (l.foldl (fun r d => r.modify d fun n =>
      { n with dependents := n.dependents.filter (· != cur) }) r) := by
  induction l generalizing r with
  | nil => simp [unlink]
  | cons d l ih =>
    have hd := h d (by simp)
    obtain ⟨dn, hdn⟩ := Root.alive_iff.1 hd
    simp only [unlink, hdn, List.foldl_cons, Root.modify]
    apply ih
    intro x hx
    rw [Root.alive_setNode_of_alive _ hd]; exact h x (by simp [hx])

/-- `unlink` panics iff some listed dependency is dead (so `NoDangling` is what rules the panic out) -/
theorem unlink_error_of_dead (cur : Id) (l : List Id) (r : Root) (h : ∃ d ∈ l, r.alive d = false) :
    unlink cur r l = .error .slotKey := by
  induction l generalizing r with
  | nil => simp at h
  | cons d l ih =>
    unfold unlink
    cases hdn : r.get? d with
    | none => rfl
    | some dn =>
      simp only
      apply ih
      obtain ⟨x, hx, hax⟩ := h
      have hd : r.alive d = true := by simp [Root.alive, hdn]
      simp at hx
      rcases hx with rfl | hx
      · rw [hd] at hax; cases hax
      · exact ⟨x, hx, by rw [Root.alive_setNode_of_alive _ hd]; exact hax⟩

/-- the effect of the unlink phase on node `j`: `cur` is erased from `dependents`; `cur` itself
gets `dependencies := []` -/
def unlinked (cur j : Id) (m : Node) : Node :=
  { m with dependents := m.dependents.filter (· != cur),
           dependencies := if j = cur then [] else m.dependencies }

theorem unlinked_fields (cur j : Id) (m : Node) :
    (unlinked cur j m).value = m.value ∧ (unlinked cur j m).callback = m.callback ∧
    (unlinked cur j m).children = m.children ∧ (unlinked cur j m).parent = m.parent ∧
    (unlinked cur j m).cleanups = m.cleanups ∧ (unlinked cur j m).context = m.context ∧
    (unlinked cur j m).dirty = m.dirty ∧ (unlinked cur j m).mark = m.mark ∧
    (unlinked cur j m).dependents = m.dependents.filter (· != cur) ∧
    (unlinked cur j m).dependencies = if j = cur then [] else m.dependencies :=
  ⟨rfl, rfl, rfl, rfl, rfl, rfl, rfl, rfl, rfl, rfl⟩

theorem unlink_spec {r : Root} (hnd : NoDangling r) (hs : EdgesSym r) {cur : Id} {n : Node}
    (hn : r.get? cur = some n) :
    ∃ r2, unlink cur (r.setNode cur { n with dependencies := [] }) n.dependencies = .ok r2 ∧
      (∀ j, r2.get? j = (r.get? j).map (unlinked cur j)) ∧
      (∀ j m, r2.get? j = some m → cur ∉ m.dependents) ∧
      (∃ n2, r2.get? cur = some n2 ∧ n2.dependencies = []) ∧
      NoDangling r2 ∧ EdgesSym r2 ∧ SameFrame r r2 := by
  have hcur : r.alive cur = true := Root.alive_iff.2 ⟨n, hn⟩
  refine ⟨_, unlink_eq_foldl cur n.dependencies _ ?_, ?_⟩
  · intro d hd
    rw [Root.alive_setNode_of_alive _ hcur]; exact (hnd cur n hn).2 d hd
  generalize hr2 : (n.dependencies.foldl (fun r d => r.modify d fun n =>
      { n with dependents := n.dependents.filter (· != cur) }) (r.setNode cur { n with dependencies := [] })) = r2
  have hget : ∀ j, r2.get? j = (r.get? j).map (unlinked cur j) := by
    intro j
    subst hr2
    rw [Root.get?_foldl_modify_idem (by intro n; simp), Root.get?_setNode]
    have hlt := Root.lt_size_of_get? hn
    -- a node outside `n.dependencies` does not list `cur` as a dependent
    have e : ∀ m, r.get? j = some m → j ∉ n.dependencies →
        m.dependents.filter (· != cur) = m.dependents := by
      intro m hm hj; apply filter_ne_of_not_mem
      rw [← List.count_eq_zero, hs j cur m n hm hn, List.count_eq_zero]; exact hj
    by_cases hj : j = cur
    · subst hj
      by_cases hm : j ∈ n.dependencies
      · simp [hm, hlt, hn, unlinked]
      · simp [hm, hlt, hn, unlinked, e n hn hm]
    · cases hjn : r.get? j with
      | none => simp [hj]
      | some m =>
        by_cases hm : j ∈ n.dependencies
        · simp [hm, hj, unlinked]
        · simp [hm, hj, unlinked, e m hjn hm]
  have key : ∀ j m', r2.get? j = some m' → ∃ m, r.get? j = some m ∧ m' = unlinked cur j m := by
    intro j m' h
    rw [hget, Option.map_eq_some_iff] at h
    obtain ⟨m, hm, e⟩ := h; exact ⟨m, hm, e.symm⟩
  have alive' : ∀ d, r2.alive d = r.alive d := by
    intro d; simp [Root.alive, hget]
  refine ⟨hget, ?_, ?_, ?_, ?_, ?_⟩
  · intro j m' h
    obtain ⟨m, _, rfl⟩ := key j m' h
    simp [unlinked]
  · exact ⟨unlinked cur cur n, by rw [hget, hn]; rfl, by simp [unlinked]⟩
  · intro j m' h
    obtain ⟨m, hm, rfl⟩ := key j m' h
    obtain ⟨h1, h2⟩ := hnd j m hm
    constructor <;> intro d hd <;> rw [alive']
    · simp [unlinked] at hd; exact h1 d hd.1
    · by_cases hj : j = cur
      · simp [unlinked, hj] at hd
      · simp [unlinked, hj] at hd; exact h2 d hd
  · intro a b na' nb' ha hb
    obtain ⟨na, hna, rfl⟩ := key a na' ha
    obtain ⟨nb, hnb, rfl⟩ := key b nb' hb
    have := hs a b na nb hna hnb
    by_cases hb : b = cur
    · simp [unlinked, hb, count_filter_ne]
    · simp [unlinked, hb, this]
  · subst hr2
    exact (SameFrame.setNode ..).trans (SameFrame.foldl_modify ..)

/-! ### 4b. `unsubscribe` (first step of `NodeHandle::dispose`, repair D19) -/

theorem unsubscribe_dead {r : Root} {id : Id} (h : r.get? id = none) : unsubscribe r id = r := by
  simp [unsubscribe, h]

theorem unsubscribe_sameFrame (r : Root) (id : Id) : SameFrame r (unsubscribe r id) := by
  unfold unsubscribe
  split
  · exact SameFrame.refl r
  · exact (SameFrame.foldl_modify ..).trans (SameFrame.modify ..)

/-- what `unsubscribe` does, without any assumption on the state -/
theorem unsubscribe_get?_raw {r : Root} {id : Id} {this : Node} (h : r.get? id = some this) (j : Id) :
    (unsubscribe r id).get? j =
      (r.get? j).map fun n =>
        { n with dependents := if j ∈ this.dependencies then n.dependents.filter (· != id) else n.dependents,
                 dependencies := if j = id then [] else n.dependencies } := by
  simp only [unsubscribe, h]
  rw [Root.get?_modify]
  by_cases hj : j = id
  · subst hj
    rw [if_pos rfl, Root.get?_foldl_modify_idem (by intro n; simp)]
    by_cases h2 : j ∈ this.dependencies <;> cases r.get? j <;> simp [h2]
  · rw [if_neg hj, Root.get?_foldl_modify_idem (by intro n; simp)]
    by_cases h2 : j ∈ this.dependencies <;> cases r.get? j <;> simp [hj, h2]

/-- `unsubscribe` changes nothing but edge lists: every node is mapped by a function that keeps all
other fields (no assumption on the state) -/
theorem unsubscribe_get?_fields (r : Root) (id j : Id) :
    ∃ g : Node → Node, (unsubscribe r id).get? j = (r.get? j).map g ∧
      ∀ m, (g m).value = m.value ∧ (g m).callback = m.callback ∧ (g m).children = m.children ∧
        (g m).parent = m.parent ∧ (g m).cleanups = m.cleanups ∧ (g m).context = m.context ∧
        (g m).dirty = m.dirty ∧ (g m).mark = m.mark ∧
        (∀ d ∈ (g m).dependents, d ∈ m.dependents) ∧ (∀ d ∈ (g m).dependencies, d ∈ m.dependencies) := by
  cases h : r.get? id with
  | none =>
    rw [unsubscribe_dead h]
    exact ⟨fun m => m, by simp, fun m => ⟨rfl, rfl, rfl, rfl, rfl, rfl, rfl, rfl, fun _ h => h, fun _ h => h⟩⟩
  | some this =>
    refine ⟨_, unsubscribe_get?_raw h j, fun m => ⟨rfl, rfl, rfl, rfl, rfl, rfl, rfl, rfl, ?_, ?_⟩⟩
    · intro d hd; simp only at hd; split at hd
      · exact (List.mem_filter.1 hd).1
      · exact hd
    · intro d hd; simp only at hd; split at hd
      · cases hd
      · exact hd

theorem unsubscribe_alive (r : Root) (id j : Id) : (unsubscribe r id).alive j = r.alive j := by
  obtain ⟨g, hg, _⟩ := unsubscribe_get?_fields r id j
  simp [Root.alive, hg]

/-- `unsubscribe` has the same effect as the unlink phase of `run_node_update`: `id` is erased from
every `dependents` list and `id` itself gets `dependencies := []`; nothing else changes and the
invariants are kept -/
theorem unsubscribe_spec {r : Root} (hnd : NoDangling r) (hs : EdgesSym r) (id : Id) :
    (∀ j, (unsubscribe r id).get? j = (r.get? j).map (unlinked id j)) ∧
    (∀ j m, (unsubscribe r id).get? j = some m → id ∉ m.dependents) ∧
    NoDangling (unsubscribe r id) ∧ EdgesSym (unsubscribe r id) ∧ SameFrame r (unsubscribe r id) := by
  have hget : ∀ j, (unsubscribe r id).get? j = (r.get? j).map (unlinked id j) := by
    intro j
    cases h : r.get? id with
    | none =>
      rw [unsubscribe_dead h]
      cases hn : r.get? j with
      | none => rfl
      | some m =>
        have hj : j ≠ id := by intro e; subst e; rw [h] at hn; cases hn
        obtain ⟨h1, _⟩ := hnd.not_mem_of_dead h hn
        simp [unlinked, hj, filter_ne_of_not_mem h1]
    | some n =>
      rw [unsubscribe_get?_raw h]
      cases hjn : r.get? j with
      | none => rfl
      | some m =>
        have e : j ∉ n.dependencies → m.dependents.filter (· != id) = m.dependents := by
          intro hj; apply filter_ne_of_not_mem
          rw [← List.count_eq_zero, hs j id m n hjn h, List.count_eq_zero]; exact hj
        by_cases hm : j ∈ n.dependencies
        · simp [hm, unlinked]
        · simp [hm, unlinked, e hm]
  have hsf := unsubscribe_sameFrame r id
  generalize unsubscribe r id = r2 at hget hsf ⊢
  have key : ∀ j m', r2.get? j = some m' → ∃ m, r.get? j = some m ∧ m' = unlinked id j m := by
    intro j m' h
    rw [hget, Option.map_eq_some_iff] at h
    obtain ⟨m, hm, e⟩ := h; exact ⟨m, hm, e.symm⟩
  have alive' : ∀ d, r2.alive d = r.alive d := by
    intro d; simp [Root.alive, hget]
  refine ⟨hget, ?_, ?_, ?_, hsf⟩
  · intro j m' h
    obtain ⟨m, _, rfl⟩ := key j m' h
    simp [unlinked]
  · intro j m' h
    obtain ⟨m, hm, rfl⟩ := key j m' h
    obtain ⟨h1, h2⟩ := hnd j m hm
    constructor <;> intro d hd <;> rw [alive']
    · simp [unlinked] at hd; exact h1 d hd.1
    · by_cases hj : j = id
      · simp [unlinked, hj] at hd
      · simp [unlinked, hj] at hd; exact h2 d hd
  · intro a b na' nb' ha hb
    obtain ⟨na, hna, rfl⟩ := key a na' ha
    obtain ⟨nb, hnb, rfl⟩ := key b nb' hb
    have := hs a b na nb hna hnb
    by_cases hb : b = id
    · simp [unlinked, hb, count_filter_ne]
    · simp [unlinked, hb, this]

/-! ### 5. `createDependencyLink` -/

/-- the effect of `createDependencyLink r deps d` on node `j`, where `L = deps.filter r.alive`:
one copy of `d` is appended to `dependents` per occurrence of `j` in `L`; `d` itself gets
`dependencies := L` -/
def linked (L : List Id) (d j : Id) (m : Node) : Node :=
  { m with dependents := m.dependents ++ List.replicate (L.count j) d,
           dependencies := if j = d then L else m.dependencies }

theorem linked_fields (L : List Id) (d j : Id) (m : Node) :
    (linked L d j m).value = m.value ∧ (linked L d j m).callback = m.callback ∧
    (linked L d j m).children = m.children ∧ (linked L d j m).parent = m.parent ∧
    (linked L d j m).cleanups = m.cleanups ∧ (linked L d j m).context = m.context ∧
    (linked L d j m).dirty = m.dirty ∧ (linked L d j m).mark = m.mark ∧
    (linked L d j m).dependents = m.dependents ++ List.replicate (L.count j) d ∧
    (linked L d j m).dependencies = if j = d then L else m.dependencies :=
  ⟨rfl, rfl, rfl, rfl, rfl, rfl, rfl, rfl, rfl, rfl⟩

theorem createDependencyLink_dead {r : Root} {d : Id} (deps : List Id) (h : r.get? d = none) :
    createDependencyLink r deps d = r := by
  simp [createDependencyLink, Root.alive, h]

/-- what `createDependencyLink` does on a live dependent, without any assumption on the state -/
theorem createDependencyLink_get? {r : Root} {d : Id} (deps : List Id) (h : r.alive d = true) (j : Id) :
    (createDependencyLink r deps d).get? j = (r.get? j).map (linked (deps.filter r.alive) d j) := by
  simp only [createDependencyLink, h, Bool.not_true, Bool.false_eq_true, if_false]
  rw [Root.get?_modify]
  by_cases hj : j = d
  · subst hj
    rw [if_pos rfl, Root.get?_foldl_modify, Option.map_map]
    congr 1; funext m; simp [iter_push, linked]
  · rw [if_neg hj, Root.get?_foldl_modify]
    congr 1; funext m; simp [iter_push, linked, hj]

theorem createDependencyLink_sameFrame (r : Root) (deps : List Id) (d : Id) :
    SameFrame r (createDependencyLink r deps d) := by
  unfold createDependencyLink
  split
  · exact SameFrame.refl r
  · exact (SameFrame.foldl_modify ..).trans (SameFrame.modify ..)

theorem createDependencyLink_spec {r : Root} (hnd : NoDangling r) (hs : EdgesSym r) {d : Id} {nd : Node}
    (hd : r.get? d = some nd) (_hdeps : nd.dependencies = [])
    (hfresh : ∀ j nj, r.get? j = some nj → d ∉ nj.dependents) (deps : List Id) :
    -- every node, field by field
    (∀ j, (createDependencyLink r deps d).get? j = (r.get? j).map (linked (deps.filter r.alive) d j)) ∧
    -- `d`'s dependencies, as a list
    (∃ nd', (createDependencyLink r deps d).get? d = some nd' ∧ nd'.dependencies = deps.filter r.alive) ∧
    -- `a`'s dependents: the old ones followed by `count a` copies of `d`
    (∀ a na, r.get? a = some na → ∃ na', (createDependencyLink r deps d).get? a = some na' ∧
        na'.dependents = na.dependents ++ List.replicate ((deps.filter r.alive).count a) d ∧
        na'.dependents.count d = (deps.filter r.alive).count a) ∧
    NoDangling (createDependencyLink r deps d) ∧ EdgesSym (createDependencyLink r deps d) ∧
    SameFrame r (createDependencyLink r deps d) := by
  have hda : r.alive d = true := Root.alive_iff.2 ⟨nd, hd⟩
  have hget := createDependencyLink_get? deps hda
  generalize hr' : createDependencyLink r deps d = r' at hget
  have key : ∀ j m', r'.get? j = some m' →
      ∃ m, r.get? j = some m ∧ m' = linked (deps.filter r.alive) d j m := by
    intro j m' h
    rw [hget, Option.map_eq_some_iff] at h
    obtain ⟨m, hm, e⟩ := h; exact ⟨m, hm, e.symm⟩
  have alive' : ∀ x, r'.alive x = r.alive x := by
    intro x; simp [Root.alive, hget]
  refine ⟨hget, ⟨linked (deps.filter r.alive) d d nd, by rw [hget, hd]; rfl, by simp [linked]⟩, ?_, ?_, ?_, ?_⟩
  · intro a na ha
    refine ⟨linked (deps.filter r.alive) d a na, by rw [hget, ha]; rfl, by simp [linked], ?_⟩
    have := hfresh a na ha
    simp [linked, List.count_append, List.count_eq_zero.2 this]
  · intro j m' h
    obtain ⟨m, hm, rfl⟩ := key j m' h
    obtain ⟨h1, h2⟩ := hnd j m hm
    constructor <;> intro x hx <;> rw [alive']
    · simp only [linked, List.mem_append, List.mem_replicate] at hx
      rcases hx with hx | ⟨_, rfl⟩
      · exact h1 x hx
      · exact hda
    · by_cases hj : j = d
      · simp [linked, hj] at hx; exact hx.2
      · simp [linked, hj] at hx; exact h2 x hx
  · intro a b na' nb' ha hb
    obtain ⟨na, hna, rfl⟩ := key a na' ha
    obtain ⟨nb, hnb, rfl⟩ := key b nb' hb
    have := hs a b na nb hna hnb
    by_cases hb : b = d
    · subst hb
      have := hfresh a na hna
      simp [linked, List.count_append, List.count_eq_zero.2 this]
    · have hb' : ¬ d = b := fun e => hb e.symm
      simp [linked, List.count_append, List.count_replicate, hb, hb', this]
  · subst hr'; exact createDependencyLink_sameFrame ..

/-! ### transformers that do not touch the edge lists -/

/-- if every node keeps its `dependents` and `dependencies` (and no node appears or disappears),
both invariants carry over -/
theorem sameEdges_preserves {r r' : Root}
    (h : ∀ j, ∃ g : Node → Node, (∀ m, (g m).dependents = m.dependents ∧ (g m).dependencies = m.dependencies) ∧
      r'.get? j = (r.get? j).map g) :
    (NoDangling r → NoDangling r') ∧ (EdgesSym r → EdgesSym r') := by
  have key : ∀ j m', r'.get? j = some m' →
      ∃ m, r.get? j = some m ∧ m'.dependents = m.dependents ∧ m'.dependencies = m.dependencies := by
    intro j m' hm'
    obtain ⟨g, hg, e⟩ := h j
    rw [e, Option.map_eq_some_iff] at hm'
    obtain ⟨m, hm, rfl⟩ := hm'
    exact ⟨m, hm, hg m⟩
  have alive' : ∀ x, r'.alive x = r.alive x := by
    intro x; obtain ⟨g, _, e⟩ := h x; simp [Root.alive, e]
  constructor
  · intro hnd j m' hm'
    obtain ⟨m, hm, e1, e2⟩ := key j m' hm'
    rw [e1, e2]; simp only [alive']; exact hnd j m hm
  · intro hs a b na' nb' ha hb
    obtain ⟨na, hna, e1, _⟩ := key a na' ha
    obtain ⟨nb, hnb, _, e2⟩ := key b nb' hb
    rw [e1, e2]; exact hs a b na nb hna hnb

/-- overwriting a live node by one with the same edge lists keeps both invariants (covers all the
`setNode` calls of the model that change `value`, `callback`, `children`, `cleanups`, `context`,
`dirty` or `mark`) -/
theorem setNode_sameEdges_preserves {r : Root} {id : Id} {n n' : Node} (hn : r.get? id = some n)
    (h1 : n'.dependents = n.dependents) (h2 : n'.dependencies = n.dependencies) :
    (NoDangling r → NoDangling (r.setNode id n')) ∧ (EdgesSym r → EdgesSym (r.setNode id n')) := by
  apply sameEdges_preserves
  intro j
  by_cases hj : j = id
  · subst hj
    exact ⟨fun m => { n' with dependents := m.dependents, dependencies := m.dependencies }, by simp,
      by simp [Root.get?_setNode, Root.lt_size_of_get? hn, hn, ← h1, ← h2]⟩
  · exact ⟨fun m => m, by simp, by simp [Root.get?_setNode, hj]⟩

theorem modify_sameEdges_preserves {r : Root} (id : Id) {f : Node → Node}
    (hf : ∀ m, (f m).dependents = m.dependents ∧ (f m).dependencies = m.dependencies) :
    (NoDangling r → NoDangling (r.modify id f)) ∧ (EdgesSym r → EdgesSym (r.modify id f)) := by
  apply sameEdges_preserves
  intro j
  by_cases hj : j = id
  · subst hj; exact ⟨f, hf, by simp [Root.get?_modify]⟩
  · exact ⟨fun m => m, by simp, by simp [Root.get?_modify, hj]⟩

/-! ### 6. `createNode` -/

/-- the node inserted by `createNode` -/
def freshNode (value : Option Int) (parent : Option Id) : Node :=
  { value := value, callback := none, children := [], parent := parent, dependents := [],
    dependencies := [], cleanups := [], context := [], dirty := false, mark := .none }

/-- `children.push(id)` on the current node -/
def addChild (cur : Option Id) (id j : Id) (m : Node) : Node :=
  { m with children := if cur = some j then m.children ++ [id] else m.children }

/-- the arena after `nodes.insert(fresh)` -/
def pushFresh (r : Root) (v : Option Int) : Root :=
  { r with nodes := r.nodes.push (some (freshNode v r.current)) }

theorem createNode_eq (r : Root) (v : Option Int) :
    createNode r v =
      match r.current with
      | none => .ok (pushFresh r v, r.nodes.size)
      | some cur =>
        match (pushFresh r v).get? cur with
        | none => .error .slotKey
        | some c => .ok ((pushFresh r v).setNode cur { c with children := c.children ++ [r.nodes.size] },
            r.nodes.size) := rfl

theorem pushFresh_get? (r : Root) (v : Option Int) (j : Id) :
    (pushFresh r v).get? j = if j = r.nodes.size then some (freshNode v r.current) else r.get? j := by
  simp only [pushFresh, Root.get?, Array.getElem?_push]
  split <;> simp

/-- what `createNode` does: slot `r.nodes.size` receives `freshNode`, and the current node (if any)
gets the new id appended to its `children` -/
theorem createNode_get? {r r' : Root} {v : Option Int} {id : Id} (h : createNode r v = .ok (r', id)) :
    id = r.nodes.size ∧
    (∀ j, r'.get? j =
      (if j = r.nodes.size then some (freshNode v r.current) else r.get? j).map (addChild r.current id j)) ∧
    r'.nodes.size = r.nodes.size + 1 ∧ r'.tracker = r.tracker ∧ r'.current = r.current ∧
    r'.rootNode = r.rootNode ∧ r'.queue = r.queue ∧ r'.batching = r.batching ∧
    r'.nextTag = r.nextTag ∧ r'.trace = r.trace := by
  rw [createNode_eq] at h
  split at h
  · rename_i hc
    simp only [Except.ok.injEq, Prod.mk.injEq] at h
    obtain ⟨rfl, rfl⟩ := h
    refine ⟨rfl, ?_, by simp [pushFresh], rfl, rfl, rfl, rfl, rfl, rfl, rfl⟩
    intro j
    rw [pushFresh_get?, hc]
    cases (if j = r.nodes.size then some (freshNode v none) else r.get? j) <;> simp [addChild]
  · rename_i cur hc
    split at h
    · cases h
    · rename_i c hcn
      simp only [Except.ok.injEq, Prod.mk.injEq] at h
      obtain ⟨rfl, rfl⟩ := h
      obtain ⟨s1, s2, s3, s4, s5, s6, s7, s8⟩ := SameFrame.setNode (pushFresh r v)
        cur { c with children := c.children ++ [r.nodes.size] }
      refine ⟨rfl, ?_, by rw [s1]; simp [pushFresh], s2, s3, s4, s5, s6, s7, s8⟩
      intro j
      have hlt := Root.lt_size_of_get? hcn
      rw [Root.get?_setNode, hc]
      by_cases hj : j = cur
      · subst hj
        rw [if_pos ⟨rfl, hlt⟩, ← hc, ← pushFresh_get?, hcn]; simp [addChild, hc]
      · have : ¬ (j = cur ∧ cur < (pushFresh r v).nodes.size) := fun h => hj h.1
        rw [if_neg this, pushFresh_get?, hc]
        have hj' : ¬ cur = j := fun e => hj e.symm
        cases (if j = r.nodes.size then some (freshNode v (some cur)) else r.get? j) <;> simp [addChild, hj']

theorem createNode_spec {r r' : Root} {v : Option Int} {id : Id} (h : createNode r v = .ok (r', id)) :
    id = r.nodes.size ∧ r.get? id = none ∧
    -- the new node
    (∃ n', r'.get? id = some n' ∧ n'.dependents = [] ∧ n'.dependencies = [] ∧ n'.value = v ∧
      n'.callback.isNone = true ∧ n'.parent = r.current ∧ n'.cleanups = [] ∧ n'.context = [] ∧
      n'.dirty = false ∧ n'.mark = .none) ∧
    r'.alive id = true ∧
    -- the old nodes: only the `children` of the current node change
    (∀ j, j ≠ id → r'.get? j = (r.get? j).map (addChild r.current id j)) ∧
    -- the invariants
    (NoDangling r → NoDangling r' ∧ (EdgesSym r → EdgesSym r') ∧
      ∀ j nj, r'.get? j = some nj → id ∉ nj.dependents ∧ id ∉ nj.dependencies) := by
  obtain ⟨rfl, hget, _⟩ := createNode_get? h
  have hdead : r.get? r.nodes.size = none := Root.get?_eq_none_of_size_le (Nat.le_refl _)
  have hnew : r'.get? r.nodes.size = some (addChild r.current r.nodes.size r.nodes.size (freshNode v r.current)) := by
    rw [hget]; simp
  have hold : ∀ j, j ≠ r.nodes.size → r'.get? j = (r.get? j).map (addChild r.current r.nodes.size j) := by
    intro j hj; rw [hget, if_neg hj]
  refine ⟨rfl, hdead, ⟨_, hnew, by simp [addChild, freshNode]⟩, by simp [Root.alive, hnew], hold, ?_⟩
  intro hnd
  -- every node of `r'` has the edge lists of `freshNode` or of the same node of `r`
  have key : ∀ j m', r'.get? j = some m' →
      (j = r.nodes.size ∧ m'.dependents = [] ∧ m'.dependencies = []) ∨
      (j ≠ r.nodes.size ∧ ∃ m, r.get? j = some m ∧ m'.dependents = m.dependents ∧ m'.dependencies = m.dependencies) := by
    intro j m' hm'
    by_cases hj : j = r.nodes.size
    · subst hj; rw [hnew] at hm'; cases hm'; left; simp [addChild, freshNode]
    · right
      rw [hold j hj, Option.map_eq_some_iff] at hm'
      obtain ⟨m, hm, rfl⟩ := hm'
      exact ⟨hj, m, hm, by simp [addChild]⟩
  have alive' : ∀ x, r.alive x = true → r'.alive x = true := by
    intro x hx
    obtain ⟨m, hm⟩ := Root.alive_iff.1 hx
    have : x ≠ r.nodes.size := by intro e; subst e; rw [hdead] at hm; cases hm
    simp [Root.alive, hold x this, hm]
  have notmem : ∀ j nj, r'.get? j = some nj → r.nodes.size ∉ nj.dependents ∧ r.nodes.size ∉ nj.dependencies := by
    intro j nj hnj
    rcases key j nj hnj with ⟨_, e1, e2⟩ | ⟨_, m, hm, e1, e2⟩
    · simp [e1, e2]
    · rw [e1, e2]; exact hnd.not_mem_of_dead hdead hm
  refine ⟨?_, ?_, notmem⟩
  · intro j m' hm'
    rcases key j m' hm' with ⟨_, e1, e2⟩ | ⟨_, m, hm, e1, e2⟩
    · simp [e1, e2]
    · rw [e1, e2]
      exact ⟨fun d hd => alive' d ((hnd j m hm).1 d hd), fun d hd => alive' d ((hnd j m hm).2 d hd)⟩
  · intro hs a b na' nb' ha hb
    have na_not := notmem a na' ha
    have nb_not := notmem b nb' hb
    rcases key a na' ha with ⟨rfl, e1, _⟩ | ⟨_, na, hna, e1, _⟩
    · rw [e1, List.count_eq_zero.2 nb_not.2]; simp
    · rcases key b nb' hb with ⟨rfl, _, e2⟩ | ⟨_, nb, hnb, _, e2⟩
      · rw [e2, List.count_eq_zero.2 na_not.1]; simp
      · rw [e1, e2]; exact hs a b na nb hna hnb

/-! ### 7. `markDependentsDirty` -/

/-- `j` is in the `dependents` list of the live node `cur` -/
def isDependentOf (r : Root) (cur j : Id) : Bool :=
  match r.get? cur with
  | some n => n.dependents.contains j
  | none => false

/-- exactly the direct dependents of `cur` get `dirty := true`; nothing else changes -/
theorem markDependentsDirty_get? (r : Root) (cur j : Id) :
    (markDependentsDirty r cur).get? j =
      (r.get? j).map fun m => { m with dirty := m.dirty || isDependentOf r cur j } := by
  unfold markDependentsDirty isDependentOf
  cases h : r.get? cur with
  | none => cases r.get? j <;> simp
  | some n =>
    simp only
    rw [Root.get?_foldl_modify_idem (by intro m; rfl)]
    by_cases hj : j ∈ n.dependents
    · cases r.get? j <;> simp [hj]
    · cases r.get? j <;> simp [hj]

theorem markDependentsDirty_frame (r : Root) (cur : Id) :
    (∀ j, ∃ b, (markDependentsDirty r cur).get? j = (r.get? j).map fun m => { m with dirty := m.dirty || b }) ∧
    (NoDangling r → NoDangling (markDependentsDirty r cur)) ∧
    (EdgesSym r → EdgesSym (markDependentsDirty r cur)) ∧
    SameFrame r (markDependentsDirty r cur) := by
  have hp : (NoDangling r → NoDangling (markDependentsDirty r cur)) ∧
      (EdgesSym r → EdgesSym (markDependentsDirty r cur)) :=
    sameEdges_preserves fun j => ⟨fun m => { m with dirty := m.dirty || isDependentOf r cur j },
      fun m => ⟨rfl, rfl⟩, markDependentsDirty_get? r cur j⟩
  refine ⟨fun j => ⟨_, markDependentsDirty_get? r cur j⟩, hp.1, hp.2, ?_⟩
  unfold markDependentsDirty
  split
  · exact SameFrame.refl r
  · exact SameFrame.foldl_modify ..

end SycVerif.Reactive
