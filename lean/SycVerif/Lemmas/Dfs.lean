import SycVerif.Model.Reactive
/-!
`Root::dfs` (model: `dfs` / `dfsList` of `SycVerif.Model.Reactive`) on the arena:

* `dfs_frame` / `dfsList_frame` — the search only rewrites `mark` fields and only appends to the
  buffer;
* `dfs_topological` — the buffer is a reversed topological order of the perm-marked nodes (`DInv`);
* `dfs_nodup` — the buffer has no duplicates and lists perm-marked live nodes only (`Exact`);
* `dfs_order` — the form used by the propagation loop (which walks `buf.reverse`).

The helper lemmas about the arena live in the namespace `SycVerif.Reactive.Dfs` (so that they do not
clash with the `Root.get?_…` lemmas of `SycVerif.Lemmas.Edges`); definitions and the main theorems
are in `SycVerif.Reactive`.  Only core Lean is used.
-/
namespace SycVerif.Reactive

/-! ### 1. arena frame lemmas -/

namespace Dfs

theorem get?_eq_none_of_size_le {r : Root} {j : Id} (h : r.nodes.size ≤ j) : r.get? j = none := by
  simp [Root.get?, Array.getElem?_eq_none h]

theorem lt_size_of_get? {r : Root} {j : Id} {n : Node} (h : r.get? j = some n) :
    j < r.nodes.size := by
  apply Classical.byContradiction; intro hn
  rw [get?_eq_none_of_size_le (Nat.le_of_not_lt hn)] at h; cases h

theorem alive_iff {r : Root} {j : Id} : r.alive j = true ↔ ∃ n, r.get? j = some n := by
  simp [Root.alive, Option.isSome_iff_exists]

theorem alive_of_get? {r : Root} {j : Id} {n : Node} (h : r.get? j = some n) : r.alive j = true :=
  alive_iff.2 ⟨n, h⟩

theorem get?_setNode (r : Root) (id : Id) (n : Node) (j : Id) :
    (r.setNode id n).get? j = if j = id ∧ id < r.nodes.size then some n else r.get? j := by
  unfold Root.setNode
  by_cases h : id < r.nodes.size
  · by_cases hj : j = id
    · subst hj; simp [Root.get?, h]
    · simp [Root.get?, h, hj, Array.getElem?_setIfInBounds_ne (Ne.symm hj)]
  · simp [h]

/-- `setNode` on a live slot -/
theorem get?_setNode_of_get? {r : Root} {id : Id} {m : Node} (h : r.get? id = some m) (n : Node)
    (j : Id) : (r.setNode id n).get? j = if j = id then some n else r.get? j := by
  rw [get?_setNode]; simp [lt_size_of_get? h]

theorem get?_modify (r : Root) (id : Id) (f : Node → Node) (j : Id) :
    (r.modify id f).get? j = if j = id then (r.get? id).map f else r.get? j := by
  unfold Root.modify
  split
  · rename_i n hn
    rw [get?_setNode_of_get? hn]; by_cases hj : j = id <;> simp [hj, hn]
  · rename_i hn
    by_cases hj : j = id <;> simp [hj, hn]

theorem size_setNode (r : Root) (id : Id) (n : Node) : (r.setNode id n).nodes.size = r.nodes.size := by
  unfold Root.setNode; split <;> simp

theorem size_modify (r : Root) (id : Id) (f : Node → Node) :
    (r.modify id f).nodes.size = r.nodes.size := by
  unfold Root.modify; split
  · exact size_setNode ..
  · rfl

/-- overwriting the same slot twice: the second write wins -/
theorem setNode_setNode (r : Root) (id : Id) (a b : Node) :
    (r.setNode id a).setNode id b = r.setNode id b := by
  unfold Root.setNode
  by_cases h : id < r.nodes.size
  · simp [h]
  · simp [h]

end Dfs

/-- the node with its `mark` forgotten -/
def Node.eraseMark (n : Node) : Node := { n with mark := .none }

/-- both slots are empty, or both hold a node and the two nodes agree on every field except
possibly `mark` (see `sameButMark_some_iff`) -/
def SameButMark (a b : Option Node) : Prop := a.map Node.eraseMark = b.map Node.eraseMark

theorem sameButMark_some_iff {a b : Node} : SameButMark (some a) (some b) ↔
    a.value = b.value ∧ a.callback = b.callback ∧ a.children = b.children ∧ a.parent = b.parent ∧
    a.dependents = b.dependents ∧ a.dependencies = b.dependencies ∧ a.cleanups = b.cleanups ∧
    a.context = b.context ∧ a.dirty = b.dirty := by
  cases a; cases b; simp [SameButMark, Node.eraseMark]

theorem sameButMark_none_left {b : Option Node} : SameButMark none b ↔ b = none := by
  cases b <;> simp [SameButMark]

theorem sameButMark_none_right {a : Option Node} : SameButMark a none ↔ a = none := by
  cases a <;> simp [SameButMark]

theorem sameButMark_some_left {a : Node} {b : Option Node} :
    SameButMark (some a) b ↔ ∃ b', b = some b' ∧ a.eraseMark = b'.eraseMark := by
  cases b <;> simp [SameButMark]

theorem sameButMark_some_right {a : Option Node} {b : Node} :
    SameButMark a (some b) ↔ ∃ a', a = some a' ∧ a'.eraseMark = b.eraseMark := by
  cases a <;> simp [SameButMark]

theorem SameButMark.refl (a : Option Node) : SameButMark a a := rfl
theorem SameButMark.symm {a b : Option Node} (h : SameButMark a b) : SameButMark b a := Eq.symm h
theorem SameButMark.trans {a b c : Option Node} (h1 : SameButMark a b) (h2 : SameButMark b c) :
    SameButMark a c := Eq.trans h1 h2

theorem Node.dependents_of_eraseMark {a b : Node} (h : a.eraseMark = b.eraseMark) :
    a.dependents = b.dependents := by
  have := congrArg Node.dependents h; simpa [Node.eraseMark] using this

@[simp] theorem Node.eraseMark_setMark (n : Node) (m : Mark) :
    Node.eraseMark { n with mark := m } = n.eraseMark := rfl

/-- what `dfs` leaves alone: the size of the arena, every field of every node except `mark`, and
every other field of the root.  (`r` = before, `r'` = after.) -/
structure Frame (r r' : Root) : Prop where
  size : r'.nodes.size = r.nodes.size
  node : ∀ j, SameButMark (r'.get? j) (r.get? j)
  tracker : r'.tracker = r.tracker
  current : r'.current = r.current
  rootNode : r'.rootNode = r.rootNode
  queue : r'.queue = r.queue
  batching : r'.batching = r.batching
  nextTag : r'.nextTag = r.nextTag
  trace : r'.trace = r.trace

theorem Frame.refl (r : Root) : Frame r r :=
  ⟨rfl, fun _ => .refl _, rfl, rfl, rfl, rfl, rfl, rfl, rfl⟩

theorem Frame.trans {a b c : Root} (h1 : Frame a b) (h2 : Frame b c) : Frame a c :=
  ⟨h2.size.trans h1.size, fun j => (h2.node j).trans (h1.node j), h2.tracker.trans h1.tracker,
   h2.current.trans h1.current, h2.rootNode.trans h1.rootNode, h2.queue.trans h1.queue,
   h2.batching.trans h1.batching, h2.nextTag.trans h1.nextTag, h2.trace.trans h1.trace⟩

/-- overwriting the mark of a live node -/
theorem Frame.setMark {r : Root} {cur : Id} {n : Node} (h : r.get? cur = some n) (m : Mark) :
    Frame r (r.setNode cur { n with mark := m }) := by
  refine ⟨Dfs.size_setNode .., fun j => ?_, ?_, ?_, ?_, ?_, ?_, ?_, ?_⟩
  · rw [Dfs.get?_setNode_of_get? h]
    split
    · subst j; rw [h]; simp [SameButMark]
    · exact .refl _
  all_goals (unfold Root.setNode; split <;> rfl)

/-- `modify` with a function that only changes the mark -/
theorem Frame.modifyMark (r : Root) (cur : Id) (m : Mark) :
    Frame r (r.modify cur fun x => { x with mark := m }) := by
  cases h : r.get? cur with
  | none => simp [Root.modify, h]; exact .refl r
  | some n => simp only [Root.modify, h]; exact Frame.setMark h m

theorem Frame.alive {r r' : Root} (h : Frame r r') (j : Id) : r'.alive j = r.alive j := by
  have := h.node j
  unfold Root.alive
  cases h1 : r.get? j <;> cases h2 : r'.get? j <;> simp_all [SameButMark]

theorem Frame.get?_fwd {r r' : Root} (h : Frame r r') {j : Id} {n : Node} (hj : r.get? j = some n) :
    ∃ n', r'.get? j = some n' ∧ n'.eraseMark = n.eraseMark := by
  have := h.node j; rw [hj] at this; exact sameButMark_some_right.1 this

theorem Frame.get?_bwd {r r' : Root} (h : Frame r r') {j : Id} {n' : Node}
    (hj : r'.get? j = some n') : ∃ n, r.get? j = some n ∧ n'.eraseMark = n.eraseMark := by
  have := h.node j; rw [hj] at this; exact sameButMark_some_left.1 this

/-! ### 2. "occurs before" in the buffer -/

/-- some occurrence of `d` precedes some occurrence of `i` in `buf`.  (For a duplicate-free buffer
this is `d ∈ buf.takeWhile (· ≠ i)`: `Before.mem_takeWhile`, `before_of_mem_takeWhile`.) -/
def Before (buf : List Id) (d i : Id) : Prop := ∃ l1 l2, buf = l1 ++ i :: l2 ∧ d ∈ l1

theorem Before.append {buf : List Id} {d i : Id} (h : Before buf d i) (ext : List Id) :
    Before (buf ++ ext) d i := by
  obtain ⟨l1, l2, rfl, hd⟩ := h
  exact ⟨l1, l2 ++ ext, by simp, hd⟩

theorem before_snoc {buf : List Id} {d : Id} (h : d ∈ buf) (i : Id) : Before (buf ++ [i]) d i :=
  ⟨buf, [], rfl, h⟩

theorem Before.mem_left {buf : List Id} {d i : Id} (h : Before buf d i) : d ∈ buf := by
  obtain ⟨l1, l2, rfl, hd⟩ := h; simp [hd]

theorem Before.mem_right {buf : List Id} {d i : Id} (h : Before buf d i) : i ∈ buf := by
  obtain ⟨l1, l2, rfl, hd⟩ := h; simp

/-- in the reversed buffer the order is the opposite one -/
theorem Before.reverse {buf : List Id} {d i : Id} (h : Before buf d i) : Before buf.reverse i d := by
  obtain ⟨l1, l2, rfl, hd⟩ := h
  obtain ⟨a, b, rfl⟩ := List.append_of_mem hd
  exact ⟨l2.reverse ++ i :: b.reverse, a.reverse, by simp, by simp⟩

theorem Before.ne {buf : List Id} {d i : Id} (h : Before buf d i) (hn : buf.Nodup) : d ≠ i := by
  obtain ⟨l1, l2, rfl, hd⟩ := h
  rintro rfl
  have := (List.nodup_append.1 hn).2.2 d hd d (by simp)
  exact this rfl

theorem nodup_reverse {l : List Id} (h : l.Nodup) : l.reverse.Nodup := by
  unfold List.Nodup at *
  rw [List.pairwise_reverse]
  exact h.imp (fun hab => Ne.symm hab)

theorem takeWhile_ne_append {i : Id} (l1 l2 : List Id) (h : i ∉ l1) :
    (l1 ++ i :: l2).takeWhile (· ≠ i) = l1 := by
  induction l1 with
  | nil => simp
  | cons x xs ih =>
    simp only [List.mem_cons, not_or] at h
    have hx : x ≠ i := fun e => h.1 e.symm
    have ih' := ih h.2
    simpa [hx] using ih'

/-- without duplicates, `Before` is "before the (first = only) occurrence" -/
theorem Before.mem_takeWhile {buf : List Id} {d i : Id} (h : Before buf d i) (hn : buf.Nodup) :
    d ∈ buf.takeWhile (· ≠ i) := by
  obtain ⟨l1, l2, rfl, hd⟩ := h
  have : i ∉ l1 := fun hi => (List.nodup_append.1 hn).2.2 i hi i (by simp) rfl
  rw [takeWhile_ne_append l1 l2 this]; exact hd

theorem before_of_mem_takeWhile {buf : List Id} {d i : Id} (hi : i ∈ buf)
    (h : d ∈ buf.takeWhile (· ≠ i)) : Before buf d i := by
  induction buf with
  | nil => cases hi
  | cons x xs ih =>
    by_cases hx : x = i
    · subst hx; simp at h
    · have hi' : i ∈ xs := by
        rcases List.mem_cons.1 hi with e | e
        · exact absurd e.symm hx
        · exact e
      simp only [List.takeWhile_cons, ne_eq, hx, not_false_eq_true, decide_true, if_true,
        List.mem_cons] at h
      rcases h with rfl | h
      · obtain ⟨a, b, rfl⟩ := List.append_of_mem hi'
        exact ⟨d :: a, b, rfl, by simp⟩
      · obtain ⟨l1, l2, e, hd⟩ := ih hi' h
        exact ⟨x :: l1, l2, by simp [e], by simp [hd]⟩

/-! ### 3. the invariants -/

/-- `i` is a live node with mark `perm` -/
def PermIn (r : Root) (i : Id) : Prop := ∃ n, r.get? i = some n ∧ n.mark = .perm

/-- no node is marked `temp`: no search is in progress -/
def NoTemp (r : Root) : Prop := ∀ i n, r.get? i = some n → n.mark ≠ .temp

/-- every perm-marked live node is in the buffer, and each of its live dependents occurs in the
buffer before it.  Nothing is said about `temp` marks: this is the invariant that also holds in the
middle of a search (the open nodes of the DFS stack are exactly the `temp`-marked ones). -/
def Topo (r : Root) (buf : List Id) : Prop :=
  ∀ i n, r.get? i = some n → n.mark = .perm →
    i ∈ buf ∧ ∀ d ∈ n.dependents, r.alive d = true → Before buf d i

/-- the topological invariant between two searches -/
def DInv (r : Root) (buf : List Id) : Prop := NoTemp r ∧ Topo r buf

/-- the buffer has no duplicates and lists only perm-marked live nodes
(with `Topo`: `i ∈ buf ↔ PermIn r i`, see `mem_buf_iff`) -/
def Exact (r : Root) (buf : List Id) : Prop := buf.Nodup ∧ ∀ i ∈ buf, PermIn r i

/-- marks only move `none → perm` -/
def MarkStep (r r' : Root) : Prop :=
  ∀ j n, r.get? j = some n →
    ∃ n', r'.get? j = some n' ∧ (n'.mark = n.mark ∨ (n.mark = .none ∧ n'.mark = .perm))

theorem MarkStep.refl (r : Root) : MarkStep r r := fun _ n h => ⟨n, h, .inl rfl⟩

theorem MarkStep.trans {a b c : Root} (h1 : MarkStep a b) (h2 : MarkStep b c) : MarkStep a c := by
  intro j n hj
  obtain ⟨n1, hj1, hm1⟩ := h1 j n hj
  obtain ⟨n2, hj2, hm2⟩ := h2 j n1 hj1
  refine ⟨n2, hj2, ?_⟩
  rcases hm1 with e1 | ⟨e1, e1'⟩ <;> rcases hm2 with e2 | ⟨e2, e2'⟩
  · exact .inl (e2.trans e1)
  · exact .inr ⟨e1 ▸ e2, e2'⟩
  · exact .inr ⟨e1, e2.trans e1'⟩
  · rw [e1'] at e2; cases e2

theorem MarkStep.permIn {r r' : Root} (h : MarkStep r r') {i : Id} (hp : PermIn r i) : PermIn r' i := by
  obtain ⟨n, hn, hm⟩ := hp
  obtain ⟨n', hn', hm'⟩ := h i n hn
  refine ⟨n', hn', ?_⟩
  rcases hm' with e | ⟨e, _⟩
  · exact e.trans hm
  · rw [hm] at e; cases e

theorem MarkStep.noTemp {r r' : Root} (h : MarkStep r r') (hf : Frame r r') (hn : NoTemp r) :
    NoTemp r' := by
  intro i n' hi ht
  obtain ⟨n, hn0, _⟩ := hf.get?_bwd hi
  obtain ⟨n'', hn'', hm⟩ := h i n hn0
  rw [hi] at hn''; cases hn''
  rcases hm with e | ⟨_, e⟩
  · exact hn i n hn0 (e.symm.trans ht)
  · rw [ht] at e; cases e

/-- opening a node (mark := temp) keeps `Topo` -/
theorem Topo.open {r : Root} {buf : List Id} {cur : Id} {n : Node} (h : Topo r buf)
    (hc : r.get? cur = some n) : Topo (r.setNode cur { n with mark := .temp }) buf := by
  intro i m hi hm
  rw [Dfs.get?_setNode_of_get? hc] at hi
  split at hi
  · cases hi; cases hm
  · obtain ⟨hb, hd⟩ := h i m hi hm
    refine ⟨hb, fun d hd' ha => hd d hd' ?_⟩
    rw [← (Frame.setMark hc .temp).alive d]; exact ha

/-- closing a node (mark := perm, push) keeps `Topo`, provided all its live dependents are perm -/
theorem Topo.close {r : Root} {buf : List Id} {cur : Id} {n : Node} (h : Topo r buf)
    (hc : r.get? cur = some n) (hall : ∀ d ∈ n.dependents, r.alive d = true → PermIn r d) :
    Topo (r.modify cur fun x => { x with mark := .perm }) (buf ++ [cur]) := by
  intro i m hi hm
  have hal : ∀ d, (r.modify cur fun x => { x with mark := .perm }).alive d = r.alive d :=
    (Frame.modifyMark r cur .perm).alive
  rw [Dfs.get?_modify] at hi
  split at hi
  · subst i
    rw [hc] at hi; simp only [Option.map_some, Option.some.injEq] at hi; subst hi
    refine ⟨by simp, fun d hd ha => ?_⟩
    obtain ⟨nd, hnd, hp⟩ := hall d hd (by rw [← hal]; exact ha)
    exact before_snoc (h d nd hnd hp).1 cur
  · obtain ⟨hb, hd⟩ := h i m hi hm
    exact ⟨by simp [hb], fun d hd' ha => (hd d hd' (by rw [← hal]; exact ha)).append _⟩

theorem Exact.open {r : Root} {buf : List Id} {cur : Id} {n : Node} (h : Exact r buf)
    (hc : r.get? cur = some n) (hn : n.mark = .none) :
    Exact (r.setNode cur { n with mark := .temp }) buf := by
  refine ⟨h.1, fun i hi => ?_⟩
  obtain ⟨m, hm, hp⟩ := h.2 i hi
  have hne : i ≠ cur := by
    rintro rfl; rw [hc] at hm; cases hm; rw [hn] at hp; cases hp
  exact ⟨m, by rw [Dfs.get?_setNode_of_get? hc, if_neg hne]; exact hm, hp⟩

theorem Exact.close {r : Root} {buf : List Id} {cur : Id} {n : Node} (h : Exact r buf)
    (hc : r.get? cur = some n) (hn : n.mark = .temp) :
    Exact (r.modify cur fun x => { x with mark := .perm }) (buf ++ [cur]) := by
  have hnot : cur ∉ buf := fun hi => by
    obtain ⟨m, hm, hp⟩ := h.2 cur hi
    rw [hc] at hm; cases hm; rw [hn] at hp; cases hp
  refine ⟨?_, fun i hi => ?_⟩
  · refine List.nodup_append.2 ⟨h.1, by simp, fun a ha b hb => ?_⟩
    simp only [List.mem_singleton] at hb; subst hb
    rintro rfl; exact hnot ha
  · by_cases hic : i = cur
    · subst hic
      exact ⟨{ n with mark := .perm }, by rw [Dfs.get?_modify, if_pos rfl, hc]; rfl, rfl⟩
    · have hi' : i ∈ buf := by simpa [hic] using hi
      obtain ⟨m, hm, hp⟩ := h.2 i hi'
      exact ⟨m, by rw [Dfs.get?_modify, if_neg hic]; exact hm, hp⟩

/-- the specification of one (successful) call of `dfs` / `dfsList`, from `(r, buf)` to `(r', buf')` -/
structure Post (r : Root) (buf : List Id) (r' : Root) (buf' : List Id) : Prop where
  frame : Frame r r'
  ext : ∃ new, buf' = buf ++ new
  marks : MarkStep r r'
  topo : Topo r buf → Topo r' buf'
  exact : Exact r buf → Exact r' buf'

theorem Post.refl (r : Root) (buf : List Id) : Post r buf r buf :=
  ⟨.refl r, ⟨[], by simp⟩, .refl r, id, id⟩

theorem Post.trans {r1 r2 r3 : Root} {b1 b2 b3 : List Id} (h1 : Post r1 b1 r2 b2)
    (h2 : Post r2 b2 r3 b3) : Post r1 b1 r3 b3 := by
  obtain ⟨e1, he1⟩ := h1.ext
  obtain ⟨e2, he2⟩ := h2.ext
  exact ⟨h1.frame.trans h2.frame, ⟨e1 ++ e2, by simp [he2, he1]⟩, h1.marks.trans h2.marks,
    fun h => h2.topo (h1.topo h), fun h => h2.exact (h1.exact h)⟩

/-- the general lemma (temp marks of the open DFS stack allowed), by induction on the fuel -/
theorem dfs_post_aux : ∀ fuel : Nat,
    (∀ r buf cur r' buf', dfs fuel r buf cur = some (r', buf') →
      Post r buf r' buf' ∧ (r.alive cur = true → PermIn r' cur)) ∧
    (∀ r buf cs r' buf', dfsList fuel r buf cs = some (r', buf') →
      Post r buf r' buf' ∧ ∀ v ∈ cs, r.alive v = true → PermIn r' v) := by
  intro fuel
  induction fuel with
  | zero => exact ⟨fun _ _ _ _ _ h => by simp [dfs] at h, fun _ _ _ _ _ h => by simp [dfsList] at h⟩
  | succ fuel ih =>
    refine ⟨?_, ?_⟩
    · intro r buf cur r' buf' h
      rw [dfs] at h
      split at h
      · -- dead node
        rename_i hc
        cases h
        exact ⟨.refl _ _, fun ha => by simp [Root.alive, hc] at ha⟩
      · rename_i n hc
        split at h
        · cases h
        · rename_i hm
          cases h
          exact ⟨.refl _ _, fun _ => ⟨n, hc, hm⟩⟩
        · rename_i hm
          simp only at h
          split at h
          · cases h
          · rename_i r2 buf2 hl
            cases h
            obtain ⟨hP, hall⟩ := ih.2 _ _ _ _ _ hl
            have hF1 := Frame.setMark hc .temp
            -- `cur` is still there, still temp, with the same dependents
            have hc1 : (r.setNode cur { n with mark := .temp }).get? cur = some { n with mark := .temp } := by
              rw [Dfs.get?_setNode_of_get? hc, if_pos rfl]
            obtain ⟨n2, hc2, hm2⟩ := hP.marks cur _ hc1
            have hm2 : n2.mark = .temp := by
              rcases hm2 with e | ⟨e, _⟩
              · exact e
              · cases e
            have hd2 : n2.dependents = n.dependents := by
              obtain ⟨n2', hc2', he⟩ := hP.frame.get?_fwd hc1
              rw [hc2] at hc2'; cases hc2'
              exact Node.dependents_of_eraseMark he
            have hF3 := Frame.modifyMark r2 cur .perm
            have hall2 : ∀ d ∈ n2.dependents, r2.alive d = true → PermIn r2 d := by
              intro d hd ha
              rw [hd2] at hd
              exact hall d hd (by rw [← hP.frame.alive d]; exact ha)
            obtain ⟨ext, hext⟩ := hP.ext
            refine ⟨⟨hF1.trans (hP.frame.trans hF3), ⟨ext ++ [cur], by simp [hext]⟩, ?_, ?_, ?_⟩, ?_⟩
            · -- marks
              intro j nj hj
              by_cases hjc : j = cur
              · subst hjc
                rw [hc] at hj; cases hj
                exact ⟨{ n2 with mark := .perm }, by rw [Dfs.get?_modify, if_pos rfl, hc2]; rfl,
                  .inr ⟨hm, rfl⟩⟩
              · have hj1 : (r.setNode cur { n with mark := .temp }).get? j = some nj := by
                  rw [Dfs.get?_setNode_of_get? hc, if_neg hjc]; exact hj
                obtain ⟨nj2, hj2, hmj⟩ := hP.marks j nj hj1
                exact ⟨nj2, by rw [Dfs.get?_modify, if_neg hjc]; exact hj2, hmj⟩
            · exact fun ht => (hP.topo (ht.open hc)).close hc2 hall2
            · exact fun he => (hP.exact (he.open hc hm)).close hc2 hm2
            · intro _
              exact ⟨{ n2 with mark := .perm }, by rw [Dfs.get?_modify, if_pos rfl, hc2]; rfl, rfl⟩
    · intro r buf cs r' buf' h
      cases cs with
      | nil =>
        rw [dfsList] at h; cases h
        exact ⟨.refl _ _, fun _ hv => by cases hv⟩
      | cons c cs =>
        rw [dfsList] at h
        split at h
        · cases h
        · rename_i r1 buf1 h1
          obtain ⟨hA, hAc⟩ := ih.1 _ _ _ _ _ h1
          obtain ⟨hB, hBc⟩ := ih.2 _ _ _ _ _ h
          refine ⟨hA.trans hB, fun v hv ha => ?_⟩
          rcases List.mem_cons.1 hv with rfl | hv
          · exact hB.marks.permIn (hAc ha)
          · exact hBc v hv (by rw [hA.frame.alive v]; exact ha)

theorem dfs_post {fuel : Nat} {r : Root} {buf : List Id} {cur : Id} {r' : Root} {buf' : List Id}
    (h : dfs fuel r buf cur = some (r', buf')) :
    Post r buf r' buf' ∧ (r.alive cur = true → PermIn r' cur) :=
  (dfs_post_aux fuel).1 _ _ _ _ _ h

theorem dfsList_post {fuel : Nat} {r : Root} {buf : List Id} {cs : List Id} {r' : Root}
    {buf' : List Id} (h : dfsList fuel r buf cs = some (r', buf')) :
    Post r buf r' buf' ∧ ∀ v ∈ cs, r.alive v = true → PermIn r' v :=
  (dfs_post_aux fuel).2 _ _ _ _ _ h

/-- a successful `dfs` on a live unmarked node pushes that node last -/
theorem dfs_last {fuel : Nat} {r : Root} {buf : List Id} {cur : Id} {r' : Root} {buf' : List Id}
    {n : Node} (h : dfs fuel r buf cur = some (r', buf')) (hn : r.get? cur = some n)
    (hm : n.mark = .none) : ∃ pre, buf' = pre ++ [cur] := by
  cases fuel with
  | zero => simp [dfs] at h
  | succ fuel =>
    rw [dfs] at h
    simp only [hn, hm] at h
    split at h
    · cases h
    · rename_i r2 buf2 _
      cases h
      exact ⟨buf2, rfl⟩

/-! ### 4. the theorems -/

/-- **frame**: a successful `dfs` keeps the arena size, changes nothing in any node except `mark`,
changes no other field of the root, and only appends to the buffer -/
theorem dfs_frame {fuel : Nat} {r : Root} {buf : List Id} {cur : Id} {r' : Root} {buf' : List Id}
    (h : dfs fuel r buf cur = some (r', buf')) :
    r'.nodes.size = r.nodes.size ∧
    (∀ j, SameButMark (r'.get? j) (r.get? j)) ∧
    (r'.tracker = r.tracker ∧ r'.current = r.current ∧ r'.rootNode = r.rootNode ∧
      r'.queue = r.queue ∧ r'.batching = r.batching ∧ r'.nextTag = r.nextTag ∧ r'.trace = r.trace) ∧
    ∃ new, buf' = buf ++ new :=
  have hP := (dfs_post h).1
  have hF := hP.frame
  ⟨hF.size, hF.node, ⟨hF.tracker, hF.current, hF.rootNode, hF.queue, hF.batching, hF.nextTag, hF.trace⟩,
    hP.ext⟩

theorem dfsList_frame {fuel : Nat} {r : Root} {buf : List Id} {cs : List Id} {r' : Root}
    {buf' : List Id} (h : dfsList fuel r buf cs = some (r', buf')) :
    r'.nodes.size = r.nodes.size ∧
    (∀ j, SameButMark (r'.get? j) (r.get? j)) ∧
    (r'.tracker = r.tracker ∧ r'.current = r.current ∧ r'.rootNode = r.rootNode ∧
      r'.queue = r.queue ∧ r'.batching = r.batching ∧ r'.nextTag = r.nextTag ∧ r'.trace = r.trace) ∧
    ∃ new, buf' = buf ++ new :=
  have hP := (dfsList_post h).1
  have hF := hP.frame
  ⟨hF.size, hF.node, ⟨hF.tracker, hF.current, hF.rootNode, hF.queue, hF.batching, hF.nextTag, hF.trace⟩,
    hP.ext⟩

/-- liveness and the `dependents` lists are not changed by `dfs` -/
theorem dfs_alive {fuel : Nat} {r : Root} {buf : List Id} {cur : Id} {r' : Root} {buf' : List Id}
    (h : dfs fuel r buf cur = some (r', buf')) (j : Id) : r'.alive j = r.alive j :=
  (dfs_post h).1.frame.alive j

theorem dfs_dependents {fuel : Nat} {r : Root} {buf : List Id} {cur : Id} {r' : Root}
    {buf' : List Id} (h : dfs fuel r buf cur = some (r', buf')) {j : Id} {n' : Node}
    (hj : r'.get? j = some n') : ∃ n, r.get? j = some n ∧ n'.dependents = n.dependents := by
  obtain ⟨n, hn, he⟩ := (dfs_post h).1.frame.get?_bwd hj
  exact ⟨n, hn, Node.dependents_of_eraseMark he⟩

/-- marks only move `none → perm` (in particular `perm` stays `perm`) -/
theorem dfs_marks {fuel : Nat} {r : Root} {buf : List Id} {cur : Id} {r' : Root} {buf' : List Id}
    (h : dfs fuel r buf cur = some (r', buf')) : MarkStep r r' :=
  (dfs_post h).1.marks

/-- **the general topological lemma**: `Topo` does not constrain `temp` marks, so this is the
statement for an arbitrary stack of open nodes -/
theorem dfs_topo {fuel : Nat} {r : Root} {buf : List Id} {cur : Id} {r' : Root} {buf' : List Id}
    (hI : Topo r buf) (h : dfs fuel r buf cur = some (r', buf')) :
    Topo r' buf' ∧ (r.alive cur = true → PermIn r' cur ∧ cur ∈ buf') := by
  obtain ⟨hP, hc⟩ := dfs_post h
  refine ⟨hP.topo hI, fun ha => ?_⟩
  obtain ⟨n, hn, hm⟩ := hc ha
  exact ⟨⟨n, hn, hm⟩, (hP.topo hI cur n hn hm).1⟩

theorem dfsList_topo {fuel : Nat} {r : Root} {buf : List Id} {cs : List Id} {r' : Root}
    {buf' : List Id} (hI : Topo r buf) (h : dfsList fuel r buf cs = some (r', buf')) :
    Topo r' buf' ∧ ∀ v ∈ cs, r.alive v = true → PermIn r' v ∧ v ∈ buf' := by
  obtain ⟨hP, hc⟩ := dfsList_post h
  refine ⟨hP.topo hI, fun v hv ha => ?_⟩
  obtain ⟨n, hn, hm⟩ := hc v hv ha
  exact ⟨⟨n, hn, hm⟩, (hP.topo hI v n hn hm).1⟩

/-- **topological invariant** (no open nodes): `DInv` is preserved, and a live start node ends up
in the buffer -/
theorem dfs_topological {fuel : Nat} {r : Root} {buf : List Id} {cur : Id} {r' : Root}
    {buf' : List Id} (hI : DInv r buf) (h : dfs fuel r buf cur = some (r', buf')) :
    DInv r' buf' ∧ (r.alive cur = true → cur ∈ buf') := by
  obtain ⟨hP, _⟩ := dfs_post h
  obtain ⟨hT, hc⟩ := dfs_topo hI.2 h
  exact ⟨⟨hP.marks.noTemp hP.frame hI.1, hT⟩, fun ha => (hc ha).2⟩

theorem dfsList_topological {fuel : Nat} {r : Root} {buf : List Id} {cs : List Id} {r' : Root}
    {buf' : List Id} (hI : DInv r buf) (h : dfsList fuel r buf cs = some (r', buf')) :
    DInv r' buf' ∧ ∀ v ∈ cs, r.alive v = true → v ∈ buf' := by
  obtain ⟨hP, _⟩ := dfsList_post h
  obtain ⟨hT, hc⟩ := dfsList_topo hI.2 h
  exact ⟨⟨hP.marks.noTemp hP.frame hI.1, hT⟩, fun v hv ha => (hc v hv ha).2⟩

/-- **no duplicates**: if the buffer is duplicate-free and lists only perm-marked live nodes, the
same holds afterwards (this needs neither `NoTemp` nor `Topo`) -/
theorem dfs_nodup {fuel : Nat} {r : Root} {buf : List Id} {cur : Id} {r' : Root} {buf' : List Id}
    (hN : buf.Nodup) (hB : ∀ i ∈ buf, PermIn r i) (h : dfs fuel r buf cur = some (r', buf')) :
    buf'.Nodup ∧ ∀ i ∈ buf', PermIn r' i :=
  (dfs_post h).1.exact ⟨hN, hB⟩

theorem dfsList_nodup {fuel : Nat} {r : Root} {buf : List Id} {cs : List Id} {r' : Root}
    {buf' : List Id} (hN : buf.Nodup) (hB : ∀ i ∈ buf, PermIn r i)
    (h : dfsList fuel r buf cs = some (r', buf')) : buf'.Nodup ∧ ∀ i ∈ buf', PermIn r' i :=
  (dfsList_post h).1.exact ⟨hN, hB⟩

/-- with both invariants the buffer is exactly the set of perm-marked live nodes -/
theorem mem_buf_iff {r : Root} {buf : List Id} (hT : Topo r buf) (hE : Exact r buf) (i : Id) :
    i ∈ buf ↔ PermIn r i :=
  ⟨hE.2 i, fun ⟨n, hn, hm⟩ => (hT i n hn hm).1⟩

/-- **the order used by the propagation loop**: after the search, every live dependent `d` of a
perm-marked node `i` occurs before `i` in the buffer, hence after `i` in the reversed buffer -/
theorem dfs_order {fuel : Nat} {r : Root} {buf : List Id} {cur : Id} {r' : Root} {buf' : List Id}
    (hI : DInv r buf) (h : dfs fuel r buf cur = some (r', buf'))
    {i : Id} {n : Node} (hi : r'.get? i = some n) (hm : n.mark = .perm)
    {d : Id} (hd : d ∈ n.dependents) (ha : r'.alive d = true) :
    Before buf' d i ∧ Before buf'.reverse i d := by
  have hb := ((dfs_topological hI h).1.2 i n hi hm).2 d hd ha
  exact ⟨hb, hb.reverse⟩

/-- the same with the first-occurrence formulation, for a duplicate-free buffer of perm nodes -/
theorem dfs_order_nodup {fuel : Nat} {r : Root} {buf : List Id} {cur : Id} {r' : Root}
    {buf' : List Id} (hI : DInv r buf) (hN : buf.Nodup) (hB : ∀ i ∈ buf, PermIn r i)
    (h : dfs fuel r buf cur = some (r', buf'))
    {i : Id} {n : Node} (hi : r'.get? i = some n) (hm : n.mark = .perm)
    {d : Id} (hd : d ∈ n.dependents) (ha : r'.alive d = true) :
    d ≠ i ∧ d ∈ buf'.takeWhile (· ≠ i) ∧ i ∈ buf'.reverse.takeWhile (· ≠ d) := by
  obtain ⟨hb, hr⟩ := dfs_order hI h hi hm hd ha
  have hN' := (dfs_nodup hN hB h).1
  exact ⟨hb.ne hN', hb.mem_takeWhile hN', hr.mem_takeWhile (nodup_reverse hN')⟩

/-! ### 5. the first-occurrence formulation

`DInvFirst` says "each live dependent occurs before the *first* occurrence of the node"
(`d ∈ buf.takeWhile (· ≠ i)`).  It implies `DInv`, coincides with it for a duplicate-free buffer, and
is preserved by `dfs` together with `Exact` (`dfs_topological_first`) — but *not* on its own
(`dinvFirst_not_invariant`): a buffer may already contain a node whose mark is `none`, the search
pushes it a second time, and its dependents land between the two occurrences.  This is why `DInv`
is stated with `Before`. -/

def DInvFirst (r : Root) (buf : List Id) : Prop :=
  NoTemp r ∧ ∀ i n, r.get? i = some n → n.mark = .perm →
    i ∈ buf ∧ ∀ d ∈ n.dependents, r.alive d = true → d ∈ buf.takeWhile (· ≠ i)

theorem DInvFirst.dinv {r : Root} {buf : List Id} (h : DInvFirst r buf) : DInv r buf :=
  ⟨h.1, fun i n hi hm =>
    ⟨(h.2 i n hi hm).1, fun d hd ha =>
      before_of_mem_takeWhile (h.2 i n hi hm).1 ((h.2 i n hi hm).2 d hd ha)⟩⟩

theorem DInv.first {r : Root} {buf : List Id} (h : DInv r buf) (hN : buf.Nodup) : DInvFirst r buf :=
  ⟨h.1, fun i n hi hm =>
    ⟨(h.2 i n hi hm).1, fun d hd ha => ((h.2 i n hi hm).2 d hd ha).mem_takeWhile hN⟩⟩

theorem dfs_topological_first {fuel : Nat} {r : Root} {buf : List Id} {cur : Id} {r' : Root}
    {buf' : List Id} (hI : DInvFirst r buf) (hN : buf.Nodup) (hB : ∀ i ∈ buf, PermIn r i)
    (h : dfs fuel r buf cur = some (r', buf')) :
    DInvFirst r' buf' ∧ buf'.Nodup ∧ (∀ i ∈ buf', PermIn r' i) ∧ (r.alive cur = true → cur ∈ buf') := by
  obtain ⟨hD, hc⟩ := dfs_topological hI.dinv h
  obtain ⟨hN', hB'⟩ := dfs_nodup hN hB h
  exact ⟨hD.first hN', hN', hB', hc⟩

/-- counterexample root: node 0 with the single dependent 1, all marks `none` -/
def cexNode (deps : List Id) : Node :=
  { value := none, callback := none, children := [], parent := none, dependents := deps,
    dependencies := [], cleanups := [], context := [], dirty := false, mark := .none }

def cexRoot : Root :=
  { nodes := #[some (cexNode [1]), some (cexNode [])], tracker := none, current := none,
    rootNode := none, queue := [], batching := false, nextTag := 0, trace := [] }

/-- `dfs` from node 0 with the (legal for `DInvFirst`, but not `Exact`) start buffer `[0]` yields
the buffer `[0, 1, 0]`: the dependent 1 is not before the first occurrence of 0 -/
theorem dinvFirst_not_invariant :
    ∃ r buf cur r' buf', DInvFirst r buf ∧ dfs 5 r buf cur = some (r', buf') ∧ ¬ DInvFirst r' buf' := by
  have hbuf : (dfs 5 cexRoot [0] 0).map (·.2) = some [0, 1, 0] := by decide
  cases h : dfs 5 cexRoot [0] 0 with
  | none => rw [h] at hbuf; cases hbuf
  | some p =>
    obtain ⟨r', buf'⟩ := p
    have hb : buf' = [0, 1, 0] := by rw [h] at hbuf; simpa using hbuf
    subst hb
    have key : ∀ i n, cexRoot.get? i = some n → n.mark = .none := by
      intro i n hi
      match i with
      | 0 => simp [cexRoot, Root.get?] at hi; subst hi; rfl
      | 1 => simp [cexRoot, Root.get?] at hi; subst hi; rfl
      | k + 2 => simp [cexRoot, Root.get?] at hi
    refine ⟨cexRoot, [0], 0, r', _, ⟨fun i n hi ht => ?_, fun i n hi hp => ?_⟩, h, fun hD => ?_⟩
    · rw [key i n hi] at ht; cases ht
    · rw [key i n hi] at hp; cases hp
    · obtain ⟨n, hn, hm⟩ := (dfs_post h).2 (by decide)
      obtain ⟨n0, hn0, hdeps⟩ := dfs_dependents h hn
      have hn0' : n0 = cexNode [1] := by
        simp [cexRoot, Root.get?] at hn0; exact hn0.symm
      have h1 : (1 : Id) ∈ n.dependents := by rw [hdeps, hn0']; simp [cexNode]
      have ha : r'.alive 1 = true := by rw [dfs_alive h]; decide
      have := (hD.2 0 n hn hm).2 1 h1 ha
      simp at this

/-! ### 6. the hypotheses are satisfiable -/

example : DInv Root.init [] ∧ Exact Root.init [] := by
  have key : ∀ i n, Root.init.get? i = some n → n.mark = .none := by
    intro i n h
    cases i with
    | zero => simp [Root.init, Root.get?] at h; subst h; rfl
    | succ k => simp [Root.init, Root.get?] at h
  refine ⟨⟨fun i n h ht => ?_, fun i n h hp => ?_⟩, List.nodup_nil, fun i hi => by cases hi⟩
  · rw [key i n h] at ht; cases ht
  · rw [key i n h] at hp; cases hp

/-
`#print axioms` (Lean 4.33.0), for each of
`dfs_frame`, `dfsList_frame`, `dfs_topo`, `dfsList_topo`, `dfs_topological`, `dfsList_topological`,
`dfs_nodup`, `dfsList_nodup`, `dfs_order`, `dfs_order_nodup`, `dfs_topological_first`,
`dinvFirst_not_invariant`:

  'SycVerif.Reactive.dfs_frame' depends on axioms: [propext, Classical.choice, Quot.sound]
  'SycVerif.Reactive.dfsList_frame' depends on axioms: [propext, Classical.choice, Quot.sound]
  'SycVerif.Reactive.dfs_topo' depends on axioms: [propext, Classical.choice, Quot.sound]
  'SycVerif.Reactive.dfs_topological' depends on axioms: [propext, Classical.choice, Quot.sound]
  'SycVerif.Reactive.dfsList_topological' depends on axioms: [propext, Classical.choice, Quot.sound]
  'SycVerif.Reactive.dfs_nodup' depends on axioms: [propext, Classical.choice, Quot.sound]
  'SycVerif.Reactive.dfs_order' depends on axioms: [propext, Classical.choice, Quot.sound]
  'SycVerif.Reactive.dfs_order_nodup' depends on axioms: [propext, Classical.choice, Quot.sound]
  'SycVerif.Reactive.dfs_topological_first' depends on axioms: [propext, Classical.choice, Quot.sound]
  'SycVerif.Reactive.dinvFirst_not_invariant' depends on axioms: [propext, Classical.choice, Quot.sound]
-/

end SycVerif.Reactive
