/-
Helper lemmas for C10 clause (ii): `propagate_node_updates` started from SEVERAL start nodes (the
queue of the outermost batch), on dynamic dependency graphs with pure bodies.

* `LoopInvM` — `LoopInvD` (`Lemmas/PropagateDyn.lean`) with two clauses weakened: (marks) only a node
  that is not pending must be unmarked; (schedule) only pending COMPUTATIONS (`isComp`) must precede
  their dependents.  `LoopInvM.skip`, `LoopInvM.run`, `LoopInvM.step_run`: one iteration.  (The
  proofs are those of `PropagateDyn.lean` with these two clauses adapted.)
* `NoLateRunC` (trace hypothesis: no read of a pending computation; `NoLateRun.toC`),
  `propagateLoop_multi_run`; `LateOkC` (static hypothesis; `LateOk.toC`), `lateOk_noLateRun_multi`,
  `propagateLoop_multi`: the second loop.  Also: every node dirty at the start of the loop is run.
* `VisitInv`, `visitStarts_multi` — the first loop (`dfs` + `mark_dependents_dirty` for every start
  node, duplicates allowed) by induction on the list of start nodes; `VisitInv.mem_of_reach`;
* `resetMarks_spec` — `resetMarks` only rewrites marks, to `none`;
* `loopInvM_start` — the state handed to the second loop satisfies `LoopInvM`;
* `silentOf`, `TouchPost`, `batch_touched` — inside a batch a `WriteOnly` body changes the values of
  the nodes written by its `set` / `set_silent` statements only, and these are live callback-less
  nodes (complements `batch_quiet` of `Lemmas/Batch.lean`).

Only core Lean is used.
-/
import SycVerif.Lemmas.PropagateDyn
import SycVerif.Lemmas.Batch
namespace SycVerif.Reactive

/-! ### 1. the loop invariant with a weaker clause on marks -/

/-- `i` is a live node with a callback: a computation (memo, selector, effect) -/
def isComp (r : Root) (i : Id) : Bool :=
  match r.get? i with
  | some n => n.callback.isSome
  | none => false

theorem isComp_congr {r r' : Root} {i : Id}
    (h : (r'.get? i).map (·.callback.isSome) = (r.get? i).map (·.callback.isSome)) :
    isComp r' i = isComp r i := by
  unfold isComp
  cases h1 : r.get? i <;> cases h2 : r'.get? i <;> simp_all

theorem FlagsRel.isComp_eq {r r' : Root} (h : FlagsRel r r') (i : Id) : isComp r' i = isComp r i := by
  apply isComp_congr
  obtain ⟨g, hg, e⟩ := h i
  rw [e]; cases r.get? i <;> simp [(hg _).2.1]

theorem EvolvesD.isComp_eq {r r' : Root} {ran : List Event} (h : EvolvesD r r' ran) (i : Id) :
    isComp r' i = isComp r i := by
  apply isComp_congr
  cases hm : r.get? i with
  | none => rw [h.dead i hm]
  | some m => obtain ⟨m', hm', c1, _⟩ := h.node i m hm; simp [hm', c1]

/-- `LoopInvD` with the clause on marks weakened: only the nodes that are NOT pending are required
to be unmarked; nothing is said about the marks of pending nodes.  (With several start nodes the
start nodes sit inside the schedule with their marks already reset by `resetMarks`, the other
pending nodes are `perm`.)  The loop clears the mark of every node it visits, bodies are pure (no
nested `dfs`), so marks of pending nodes are never looked at.

The schedule clause is weakened too: only pending COMPUTATIONS (`isComp`) need to precede their
dependents.  A pending callback-less node (a written signal) is never re-run and holds its final
value, so a computation may start reading it "late". -/
structure LoopInvM (r : Root) (Pn : List Id) : Prop where
  struct : StructD r
  marks : ∀ j n, r.get? j = some n → j ∉ Pn → n.mark = .none
  pend : ∀ j ∈ Pn, r.alive j = true
  dirty : ∀ j n, r.get? j = some n → n.dirty = true → j ∈ Pn ∧ n.callback ≠ none
  cons : ∀ j n, r.get? j = some n → n.dirty = false → locallyConsistent r j ∧ DepsCurrent r n
  sched : Sched (fun i d => i ∈ depsOf r d ∧ isComp r i = true) Pn

/-- clearing the mark of the head of the schedule when it is not dirty -/
theorem LoopInvM.skip {r : Root} {node : Id} {rest : List Id} {n : Node} (h : LoopInvM r (node :: rest))
    (hn : r.get? node = some n) (hd : n.dirty = false) :
    LoopInvM (r.setNode node { n with mark := .none }) rest := by
  have hF := Frame.setMark hn .none
  have hR := hF.flagsRel
  obtain ⟨hnot, _, hsch⟩ := h.sched
  have hget := Dfs.get?_setNode_of_get? hn { n with mark := .none }
  refine ⟨hR.structD h.struct, ?_, ?_, ?_, ?_, ?_⟩
  · intro j m hm hjr
    rw [hget] at hm
    split at hm
    · cases hm; rfl
    · rename_i hj; exact h.marks j m hm (by simp [hj, hjr])
  · intro j hj; rw [hF.alive]; exact h.pend j (by simp [hj])
  · intro j m hm hdm
    rw [hget] at hm
    split at hm
    · cases hm; simp [hd] at hdm
    · rename_i hj
      obtain ⟨h1, h2⟩ := h.dirty j m hm hdm
      exact ⟨by simpa [hj] using h1, h2⟩
  · intro j m hm hdm
    have hm' := hm
    rw [hget] at hm
    split at hm
    · subst j; cases hm; exact hR.settled hn hm' (h.cons _ n hn hd)
    · exact hR.settled hm hm' (h.cons j m hm hdm)
  · refine Sched.mono (fun i d hd => ?_) hsch
    have e1 : depsOf (r.setNode node { n with mark := .none }) d = depsOf r d :=
      depsOf_eq (fun j m hm => by
        obtain ⟨m', hm', _, _, _, _, _, e, _⟩ := hR.fwd hm
        exact ⟨m', hm', e⟩) (fun j hj => hR.dead hj) d
    rw [e1, hR.isComp_eq] at hd
    exact hd

/-- running the (dirty) head of the schedule, when none of the nodes it reads is a computation that
is still pending -/
theorem LoopInvM.run {r r3 : Root} {node : Id} {rest : List Id} {n : Node} {eq : EqKind} {cl : Closure}
    {old new : Int} {obs : List Obs} (h : LoopInvM r (node :: rest)) (hn : r.get? node = some n)
    (hcb : n.callback = some (eq, cl)) (hv : n.value = some old)
    (hev : evalPureBody (r.setNode node { n with mark := .none }) cl.env cl.body 0 = some new)
    (hP : RunPostD (r.setNode node { n with mark := .none }) node (if eqHolds eq new old then old else new)
      (!eqHolds eq new old) (trackedReads (r.setNode node { n with mark := .none }) cl.env cl.body)
      (.run node obs new) r3)
    (hlate : ∀ d ∈ trackedReads (r.setNode node { n with mark := .none }) cl.env cl.body, d ∈ rest →
      isComp (r.setNode node { n with mark := .none }) d = false) :
    LoopInvM r3 rest := by
  have hF := Frame.setMark hn .none
  have hR := hF.flagsRel
  obtain ⟨hnot, hdeps, hsch⟩ := h.sched
  obtain ⟨r2, hr2⟩ : ∃ r2, r2 = r.setNode node { n with mark := .none } := ⟨_, rfl⟩
  rw [← hr2] at hF hR hev hP hlate
  have hget : ∀ j, r2.get? j = if j = node then some { n with mark := .none } else r.get? j := by
    intro j; rw [hr2]; exact Dfs.get?_setNode_of_get? hn _ j
  have hn2 : r2.get? node = some { n with mark := .none } := by rw [hget, if_pos rfl]
  have hS2 := hR.structD h.struct
  have hother : ∀ j, j ≠ node → r2.get? j = r.get? j := fun j hj => by rw [hget, if_neg hj]
  obtain ⟨_, _, hpure, hok, _, _⟩ := (h.struct.node node n hn).comp eq cl hcb
  have hrlt : ∀ id ∈ trackedReads r2 cl.env cl.body, id ≠ node := fun id hid =>
    Nat.ne_of_lt (allReads_lt _ hok id (trackedReads_subset _ id hid))
  -- every node of `r3` comes from a node of `r2`
  have back : ∀ j m3, r3.get? j = some m3 → ∃ m2, r2.get? j = some m2 ∧
      m3.callback = m2.callback ∧ m3.children = m2.children ∧
      m3.cleanups = m2.cleanups ∧ m3.mark = m2.mark ∧
      (j ≠ node → m3.dependencies = m2.dependencies ∧ m3.value = m2.value ∧
        m3.dirty = (m2.dirty || (!eqHolds eq new old && decide (node ∈ m2.dependencies)))) ∧
      (j = node → m3.dependencies = trackedReads r2 cl.env cl.body ∧
        m3.value = some (if eqHolds eq new old then old else new) ∧ m3.dirty = false) := by
    intro j m3 hm3
    cases hm2 : r2.get? j with
    | none => rw [hP.dead j hm2] at hm3; cases hm3
    | some m2 =>
      obtain ⟨m', hm', c1, c3, c4, _, c6, c7, c8⟩ := hP.node j m2 hm2
      rw [hm3] at hm'; cases hm'
      exact ⟨m2, rfl, c1, c3, c4, c6, fun hj => ⟨(c7 hj).1, (c7 hj).2.1, (c7 hj).2.2.2⟩, c8⟩
  have halive3 : ∀ d, r2.alive d = true → r3.alive d = true := by
    intro d hd
    obtain ⟨m, hm⟩ := Root.alive_iff.1 hd
    obtain ⟨m', hm', _⟩ := hP.node d m hm
    exact Root.alive_iff.2 ⟨m', hm'⟩
  -- values seen by `getUntracked`
  have hval : ∀ id, (id ≠ node ∨ eqHolds eq new old = true) → getUntracked r3 id = getUntracked r2 id := by
    intro id hid
    apply getUntracked_congr
    cases hm2 : r2.get? id with
    | none => rw [hP.dead id hm2]
    | some m2 =>
      obtain ⟨m', hm', _, _, _, _, _, c7, c8⟩ := hP.node id m2 hm2
      rw [hm']
      by_cases hj : id = node
      · subst hj
        rw [hn2] at hm2; cases hm2
        rcases hid with hid | hid
        · exact absurd rfl hid
        · simp [(c8 rfl).2.1, hid, hv]
      · simp [(c7 hj).2.1]
  -- dependency lists of the other nodes
  have hdepsOf : ∀ j, j ≠ node → depsOf r3 j = depsOf r j := by
    intro j hj
    cases hm : r.get? j with
    | none =>
      have h2 : r2.get? j = none := by rw [hother j hj, hm]
      simp [depsOf, hm, hP.dead j h2]
    | some m =>
      have h2 : r2.get? j = some m := by rw [hother j hj, hm]
      obtain ⟨m', hm', _, _, _, _, _, c7, _⟩ := hP.node j m h2
      rw [depsOf_of_get? hm', depsOf_of_get? hm, (c7 hj).1]
  refine ⟨⟨hP.nd, hP.sym, fun j m3 hm3 => ?_⟩, ?_, ?_, ?_, ?_, ?_⟩
  · -- DynNodeOk
    obtain ⟨m2, hm2, c1, c3, c4, _, c7, c8⟩ := back j m3 hm3
    have hk := hS2.node j m2 hm2
    refine ⟨?_, fun hc => ?_, fun eq' cl' hc => ?_⟩
    · by_cases hj : j = node
      · rw [(c8 hj).2.1]; rfl
      · rw [(c7 hj).2.1]; exact hk.value
    · have hj : j ≠ node := by
        rintro rfl; rw [hn2] at hm2; cases hm2; rw [c1] at hc; simp [hcb] at hc
      rw [(c7 hj).1]; exact hk.plain (c1 ▸ hc)
    · obtain ⟨a1, a2, a3, a4, a5, a6⟩ := hk.comp eq' cl' (c1 ▸ hc)
      refine ⟨c3.trans a1, c4.trans a2, a3, a4, fun d hd => halive3 d (a5 d hd), fun d hd => ?_⟩
      by_cases hj : j = node
      · subst hj
        rw [hn2] at hm2; cases hm2
        have : (eq', cl') = (eq, cl) := by
          have := c1 ▸ hc; simpa [hcb] using this.symm
        cases this
        rw [(c8 rfl).1] at hd
        exact trackedReads_subset _ d hd
      · rw [(c7 hj).1] at hd; exact a6 d hd
  · -- marks
    intro j m3 hm3 hjr
    obtain ⟨m2, hm2, _, _, _, c6, _⟩ := back j m3 hm3
    rw [c6]
    rw [hget] at hm2
    split at hm2
    · cases hm2; rfl
    · rename_i hj; exact h.marks j m2 hm2 (by simp [hj, hjr])
  · -- pending nodes are alive
    intro j hj
    apply halive3
    rw [hF.alive]; exact h.pend j (by simp [hj])
  · -- dirty nodes are pending computations
    intro j m3 hm3 hd3
    obtain ⟨m2, hm2, c1, _, _, _, c7, c8⟩ := back j m3 hm3
    by_cases hj : j = node
    · rw [(c8 hj).2.2] at hd3; cases hd3
    · rw [hother j hj] at hm2
      rw [(c7 hj).2.2] at hd3
      rw [c1]
      cases hdm : m2.dirty with
      | true =>
        obtain ⟨h1, h2⟩ := h.dirty j m2 hm2 hdm
        exact ⟨by simpa [hj] using h1, h2⟩
      | false =>
        simp only [hdm, Bool.false_or, Bool.and_eq_true, decide_eq_true_eq] at hd3
        refine ⟨hdeps j ⟨by simp [depsOf, hm2, hd3.2], by simp [isComp, hn, hcb]⟩, fun hc => ?_⟩
        rw [(h.struct.node j m2 hm2).plain hc] at hd3
        exact absurd hd3.2 (by simp)
  · -- clean nodes are consistent and their dependency lists are current
    intro j m3 hm3 hd3
    obtain ⟨m2, hm2, c1, _, _, _, c7, c8⟩ := back j m3 hm3
    by_cases hj : j = node
    · subst hj
      rw [hn2] at hm2; cases hm2
      have hcg : ∀ id ∈ trackedReads r2 cl.env cl.body, getUntracked r3 id = getUntracked r2 id :=
        fun id hid => hval id (.inl (hrlt id hid))
      have hfresh : evalPureBody r3 cl.env cl.body 0 = some new := by
        rw [evalPure_congr hcg]; exact hev
      have hc3 : m3.callback = some (eq, cl) := c1.trans hcb
      constructor
      · unfold locallyConsistent
        simp only [hm3, hc3, (c8 rfl).2.1, hfresh]
        cases hq : eqHolds eq new old <;> simp [hq]
      · intro eq' cl' hc'
        rw [hc3] at hc'; cases hc'
        rw [(c8 rfl).1, trackedReads_congr hcg]
    · have hm2' := hm2
      rw [hother j hj] at hm2
      have hdm : m2.dirty = false := by
        rw [(c7 hj).2.2] at hd3; cases hx : m2.dirty <;> simp [hx] at hd3 ⊢
      have hl2 := hR.settled hm2 hm2' (h.cons j m2 hm2 hdm)
      refine settled_congr hm2' hm3 c1 (c7 hj).2.1 (c7 hj).1 (fun eq' cl' hc id hid => hval id ?_) hl2
      by_cases hid' : id = node
      · right
        rw [(c7 hj).2.2, hdm] at hd3
        rw [← hl2.2 eq' cl' hc, hid'] at hid
        simpa [hid] using hd3
      · exact .inl hid'
  · -- the schedule: the new edges of `node` come from nodes that are not pending
    refine Sched.mono_mem (fun i hi d hd => ?_) hsch
    have hE23 := hP.evolvesD hn2 (by simp [hcb])
    have hci2 : isComp r2 i = true := by rw [← hE23.isComp_eq]; exact hd.2
    have hci : isComp r i = true := by rw [← hR.isComp_eq]; exact hci2
    by_cases hdn : d = node
    · subst hdn
      obtain ⟨m2', hm2', _⟩ := hP.node d _ hn2
      obtain ⟨m2, hm2, _, _, _, _, _, c8⟩ := back d m2' hm2'
      have hd1 := hd.1
      rw [depsOf_of_get? hm2', (c8 rfl).1] at hd1
      rw [hlate i hd1 hi] at hci2; cases hci2
    · exact ⟨by rw [← hdepsOf d hdn]; exact hd.1, hci⟩

/-- one iteration of the loop on a dirty head none of whose reads is a pending computation -/
theorem LoopInvM.step_run {r : Root} {node : Id} {rest : List Id} {n : Node} {f B : Nat}
    (h : LoopInvM r (node :: rest)) (hn : r.get? node = some n) (hd : n.dirty = true)
    (hB : PureBound r B) (hf : B + 3 ≤ f)
    (hlate : ∀ d ∈ readsNow (r.setNode node { n with mark := .none }) node, d ∈ rest →
      isComp (r.setNode node { n with mark := .none }) d = false) :
    ∃ r3 obs new, runNodeUpdate f (r.setNode node { n with mark := .none }) node = .ok r3 ∧
      LoopInvM r3 rest ∧ EvolvesD r r3 [.run node obs new] ∧
      ∀ j m, j ≠ node → r.get? j = some m → m.dirty = true → ∃ m3, r3.get? j = some m3 ∧ m3.dirty = true := by
  have hF := Frame.setMark hn .none
  have hother : ∀ j, j ≠ node → (r.setNode node { n with mark := .none }).get? j = r.get? j :=
    fun j hj => by rw [Dfs.get?_setNode_of_get? hn, if_neg hj]
  have hrunI := fun eq cl old new obs r3 => h.run (r3 := r3) (eq := eq) (cl := cl) (old := old) (new := new)
    (obs := obs) hn
  have hn2 : (r.setNode node { n with mark := .none }).get? node = some { n with mark := .none } := by
    rw [Dfs.get?_setNode_of_get? hn, if_pos rfl]
  obtain ⟨r2, hr2⟩ : ∃ r2, r2 = r.setNode node { n with mark := .none } := ⟨_, rfl⟩
  rw [← hr2] at hF hrunI hn2 hlate hother ⊢
  obtain ⟨n2, hn2def⟩ : ∃ n2 : Node, n2 = { n with mark := .none } := ⟨_, rfl⟩
  rw [← hn2def] at hn2
  have hc2 : n2.callback = n.callback := by rw [hn2def]
  have hv2 : n2.value = n.value := by rw [hn2def]
  clear hr2 hn2def
  obtain ⟨_, hcn⟩ := h.dirty node n hn hd
  obtain ⟨⟨eq, cl⟩, hcb⟩ := Option.ne_none_iff_exists'.1 hcn
  obtain ⟨old, hv⟩ := Option.isSome_iff_exists.1 (h.struct.node node n hn).value
  have hS2 := hF.flagsRel.structD h.struct
  obtain ⟨new, r3, hev, hrn, hP⟩ := runNodeUpdate_dyn (fuel := f) (eq := eq) (cl := cl) (old := old)
    hS2 hn2 (hc2.trans hcb) (hv2.trans hv) (by have := hB node n eq cl hn hcb; omega)
  have hrn2 : readsNow r2 node = trackedReads r2 cl.env cl.body := by
    simp [readsNow, hn2, hc2, hcb]
  rw [hrn2] at hlate
  have hI3 := hrunI _ _ _ _ _ _ hcb hv hev hP hlate
  have hE3 := hP.evolvesD hn2 (by simp [hc2, hcb])
  refine ⟨r3, _, new, hrn, hI3, by simpa using hF.evolves.toD.trans hE3, fun j m hj hm hdm => ?_⟩
  obtain ⟨m', hm', _, _, _, _, _, c7, _⟩ := hP.node j m (by rw [hother j hj]; exact hm)
  exact ⟨m', hm', by rw [(c7 hj).2.2.2, hdm]; rfl⟩

/-- **the trace hypothesis, sharper form**: along the run of `propagateLoop fuel r Pn` (same control
flow as the model function), no computation reads, at the moment it is re-run, a COMPUTATION that is
still waiting in the schedule.  (`NoLateRun` of `Lemmas/PropagateDyn.lean` also forbids reading a
pending callback-less node, i.e. a written signal: `NoLateRun.toC`.) -/
def NoLateRunC : Nat → Root → List Id → Prop
  | 0, _, _ => True
  | _ + 1, _, [] => True
  | fuel + 1, r, node :: rest =>
    match r.get? node with
    | none => NoLateRunC fuel r rest
    | some n =>
      if n.dirty then
        (∀ d ∈ readsNow (r.setNode node { n with mark := .none }) node, d ∈ rest →
          isComp (r.setNode node { n with mark := .none }) d = false) ∧
        (match runNodeUpdate fuel (r.setNode node { n with mark := .none }) node with
         | .error _ => True
         | .ok r3 => NoLateRunC fuel r3 rest)
      else NoLateRunC fuel (r.setNode node { n with mark := .none }) rest

theorem NoLateRun.toC : ∀ (fuel : Nat) (r : Root) (Pn : List Id), NoLateRun fuel r Pn →
    NoLateRunC fuel r Pn
  | 0, _, _, _ => by simp [NoLateRunC]
  | _ + 1, _, [], _ => by simp [NoLateRunC]
  | fuel + 1, r, node :: rest, h => by
    simp only [NoLateRun, NoLateRunC] at h ⊢
    cases hn : r.get? node with
    | none => simp only [hn] at h ⊢; exact NoLateRun.toC fuel r rest h
    | some n =>
      simp only [hn] at h ⊢
      by_cases hd : n.dirty = true
      · rw [if_pos hd] at h ⊢
        refine ⟨fun d hd' hr => absurd hr (h.1 d hd'), ?_⟩
        have h2 := h.2
        cases hrn : runNodeUpdate fuel (r.setNode node { n with mark := .none }) node with
        | error e => trivial
        | ok r3 => rw [hrn] at h2; exact NoLateRun.toC fuel r3 rest h2
      · rw [if_neg hd] at h ⊢; exact NoLateRun.toC fuel _ rest h

/-- **the propagation loop under the trace hypothesis**: from a state satisfying the loop invariant,
if along the run no computation reads a computation that is still pending, the loop terminates
without panic in a state where nothing is pending, having run each scheduled node at most once;
every node that is dirty at the start is run -/
theorem propagateLoop_multi_run : ∀ (Pn : List Id) (r : Root) (fuel B : Nat), LoopInvM r Pn →
    NoLateRunC fuel r Pn → PureBound r B → Pn.length + B + 4 ≤ fuel →
    ∃ r' ran, propagateLoop fuel r Pn = .ok r' ∧ LoopInvM r' [] ∧ EvolvesD r r' ran ∧
      (runIds ran).Sublist Pn ∧ ∀ j m, r.get? j = some m → m.dirty = true → j ∈ runIds ran
  | [], r, fuel, B, h, _, _, hf => by
    obtain ⟨f, rfl⟩ : ∃ f, fuel = f + 1 := ⟨fuel - 1, by omega⟩
    exact ⟨r, [], by rw [propagateLoop], h, (Frame.refl r).evolves.toD, List.Sublist.refl _,
      fun j m hm hd => absurd (h.dirty j m hm hd).1 (by simp)⟩
  | node :: rest, r, fuel, B, h, hL, hB, hf => by
    obtain ⟨f, rfl⟩ : ∃ f, fuel = f + 1 := ⟨fuel - 1, by omega⟩
    simp only [List.length_cons] at hf
    obtain ⟨n, hn⟩ := Root.alive_iff.1 (h.pend node (by simp))
    have hF := Frame.setMark hn .none
    have hB2 := hF.evolves.toD.pureBound hB
    rw [propagateLoop]
    simp only [NoLateRunC, hn] at hL
    simp only [hn]
    by_cases hd : n.dirty = true
    · rw [if_pos hd] at hL ⊢
      obtain ⟨r3, obs, new, hrn, hI3, hE3, hdk⟩ := h.step_run (f := f) hn hd hB (by omega) hL.1
      have hL3 := hL.2
      rw [hrn] at hL3
      obtain ⟨r', ran, hrun, hI, hE, hsub, hdr⟩ := propagateLoop_multi_run rest r3 f B hI3 hL3
        (hE3.pureBound hB) (by omega)
      refine ⟨r', .run node obs new :: ran, by simp [hrn, hrun], hI, ?_, ?_, fun j m hm hdm => ?_⟩
      · simpa using hE3.trans hE
      · simpa [runIds] using hsub
      · by_cases hj : j = node
        · simp [runIds, hj]
        · obtain ⟨m3, hm3, hd3⟩ := hdk j m hj hm hdm
          simp [runIds, hdr j m3 hm3 hd3]
    · rw [if_neg hd] at hL ⊢
      have hd' : n.dirty = false := by simpa using hd
      obtain ⟨r', ran, hrun, hI, hE, hsub, hdr⟩ := propagateLoop_multi_run rest _ f B (h.skip hn hd') hL hB2 (by omega)
      refine ⟨r', ran, hrun, hI, ?_, hsub.cons _, fun j m hm hdm => ?_⟩
      · simpa using hF.evolves.toD.trans hE
      · have hj : j ≠ node := by rintro rfl; rw [hn] at hm; cases hm; rw [hd'] at hdm; cases hdm
        exact hdr j m (by rw [Dfs.get?_setNode_of_get? hn, if_neg hj]; exact hm) hdm

/-- **the static hypothesis on the schedule, sharper form**: every pending COMPUTATION that a pending
computation can read on ANY branch is already one of its dependencies.  (`LateOk` asks this of every
pending node, written signals included: `LateOk.toC`.) -/
def LateOkC (r : Root) (Pn : List Id) : Prop :=
  ∀ c ∈ Pn, ∀ d ∈ allReadsOf r c, d ∈ Pn → isComp r d = true → d ∈ depsOf r c

theorem LateOk.toC {r : Root} {Pn : List Id} (h : LateOk r Pn) : LateOkC r Pn :=
  fun c hc d hd hdp _ => h c hc d hd hdp

theorem LateOkC.tail {r r' : Root} {ran : List Event} {node : Id} {rest : List Id}
    (hE : EvolvesD r r' ran) (hran : ∀ j ∈ runIds ran, j = node) (hnot : node ∉ rest)
    (h : LateOkC r (node :: rest)) : LateOkC r' rest := by
  intro c hc d hd hdr hcd
  have hcn : c ∉ runIds ran := fun hm => hnot (hran c hm ▸ hc)
  rw [hE.allReadsOf_eq] at hd
  rw [hE.isComp_eq] at hcd
  rw [hE.depsOf_eq hcn]
  exact h c (by simp [hc]) d hd (by simp [hdr]) hcd

/-- under `LateOkC` the head of the schedule reads no pending computation -/
theorem LateOkC.headM {r : Root} {node : Id} {rest : List Id} (hI : LoopInvM r (node :: rest))
    (h : LateOkC r (node :: rest)) {r2 : Root} (hF : Frame r r2) :
    ∀ d ∈ readsNow r2 node, d ∈ rest → isComp r2 d = false := by
  intro d hd hdr
  cases hc : isComp r2 d with
  | false => rfl
  | true =>
    exfalso
    obtain ⟨hnot, _, hsch⟩ := hI.sched
    have hd' := readsNow_subset r2 node d hd
    rw [hF.evolves.toD.allReadsOf_eq] at hd'
    rw [hF.flagsRel.isComp_eq] at hc
    have hdep := h node (by simp) d hd' (by simp [hdr]) hc
    exact hnot (Sched.mem_of_dep hsch d hdr node ⟨hdep, hc⟩)

theorem lateOk_noLateRun_multi : ∀ (Pn : List Id) (r : Root) (fuel B : Nat), LoopInvM r Pn → LateOkC r Pn →
    PureBound r B → Pn.length + B + 4 ≤ fuel → NoLateRunC fuel r Pn
  | [], r, fuel, B, _, _, _, hf => by
    obtain ⟨f, rfl⟩ : ∃ f, fuel = f + 1 := ⟨fuel - 1, by omega⟩
    simp [NoLateRunC]
  | node :: rest, r, fuel, B, h, hL, hB, hf => by
    obtain ⟨f, rfl⟩ : ∃ f, fuel = f + 1 := ⟨fuel - 1, by omega⟩
    simp only [List.length_cons] at hf
    obtain ⟨n, hn⟩ := Root.alive_iff.1 (h.pend node (by simp))
    have hF := Frame.setMark hn .none
    have hB2 := hF.evolves.toD.pureBound hB
    have hnot := h.sched.1
    simp only [NoLateRunC, hn]
    by_cases hd : n.dirty = true
    · rw [if_pos hd]
      have hlate := hL.headM h hF
      obtain ⟨r3, obs, new, hrn, hI3, hE3, _⟩ := h.step_run (f := f) hn hd hB (by omega) hlate
      refine ⟨hlate, ?_⟩
      rw [hrn]
      exact lateOk_noLateRun_multi rest r3 f B hI3 (hL.tail hE3 (by simp [runIds]) hnot)
        (hE3.pureBound hB) (by omega)
    · rw [if_neg hd]
      have hd' : n.dirty = false := by simpa using hd
      exact lateOk_noLateRun_multi rest _ f B (h.skip hn hd')
        (hL.tail hF.evolves.toD (by simp [runIds]) hnot) hB2 (by omega)

/-- **the propagation loop under the static hypothesis** -/
theorem propagateLoop_multi (Pn : List Id) (r : Root) (fuel B : Nat) (hI : LoopInvM r Pn)
    (hL : LateOkC r Pn) (hB : PureBound r B) (hf : Pn.length + B + 4 ≤ fuel) :
    ∃ r' ran, propagateLoop fuel r Pn = .ok r' ∧ LoopInvM r' [] ∧ EvolvesD r r' ran ∧
      (runIds ran).Sublist Pn ∧ ∀ j m, r.get? j = some m → m.dirty = true → j ∈ runIds ran :=
  propagateLoop_multi_run Pn r fuel B hI (lateOk_noLateRun_multi Pn r fuel B hI hL hB hf) hB hf


/-! ### 2. transformers that only touch `mark` and `dirty`, continued -/

theorem FlagsRel.refl (r : Root) : FlagsRel r r :=
  fun j => ⟨id, fun _ => ⟨rfl, rfl, rfl, rfl, rfl, rfl, rfl, rfl⟩, by simp⟩

theorem FlagsRel.trans {a b c : Root} (h1 : FlagsRel a b) (h2 : FlagsRel b c) : FlagsRel a c := by
  intro j
  obtain ⟨g1, hg1, e1⟩ := h1 j
  obtain ⟨g2, hg2, e2⟩ := h2 j
  refine ⟨g2 ∘ g1, fun m => ?_, by rw [e2, e1]; cases a.get? j <;> rfl⟩
  obtain ⟨a1, a2, a3, a4, a5, a6, a7, a8⟩ := hg1 m
  obtain ⟨b1, b2, b3, b4, b5, b6, b7, b8⟩ := hg2 (g1 m)
  exact ⟨b1.trans a1, b2.trans a2, b3.trans a3, b4.trans a4, b5.trans a5, b6.trans a6, b7.trans a7,
    b8.trans a8⟩

theorem FlagsRel.up {r r' : Root} (h : FlagsRel r r') (hu : Up r) : Up r' := by
  intro i n' hn' d hd
  obtain ⟨n, hn, _, _, _, _, e5, _⟩ := h.bwd hn'
  exact hu i n hn d (e5 ▸ hd)

theorem FlagsRel.reach_bwd {r r' : Root} (h : FlagsRel r r') {s i : Id} (hr : Reach r' s i) :
    Reach r s i := by
  induction hr with
  | refl => exact .refl
  | step _ hn hd ih =>
    obtain ⟨n0, hn0, _, _, _, _, e5, _⟩ := h.bwd hn
    exact .step ih hn0 (e5 ▸ hd)

theorem Frame.sameFrame {r r' : Root} (h : Frame r r') : SameFrame r r' :=
  ⟨h.size, h.tracker, h.current, h.rootNode, h.queue, h.batching, h.nextTag, h.trace⟩

theorem Frame.dirty_eq {r r' : Root} (h : Frame r r') {j : Id} {n n' : Node} (hn : r.get? j = some n)
    (hn' : r'.get? j = some n') : n'.dirty = n.dirty ∧ n'.dependencies = n.dependencies := by
  obtain ⟨n'', hn'', he⟩ := h.get?_fwd hn
  rw [hn'] at hn''; cases hn''
  have h1 := congrArg Node.dirty he
  have h2 := congrArg Node.dependencies he
  simp only [Node.eraseMark] at h1 h2
  exact ⟨h1, h2⟩

/-- `mark_dependents_dirty` does not touch what the invariants of `dfs` speak about -/
theorem markDependentsDirty_marks (r : Root) (s : Id) (buf : List Id) :
    (NoTemp r → NoTemp (markDependentsDirty r s)) ∧
    (Topo r buf → Topo (markDependentsDirty r s) buf) ∧
    (Exact r buf → Exact (markDependentsDirty r s) buf) := by
  have hg := markDependentsDirty_get? r s
  have hal : ∀ d, (markDependentsDirty r s).alive d = r.alive d :=
    (markDependentsDirty_flagsRel r s).alive_eq
  have back : ∀ j n', (markDependentsDirty r s).get? j = some n' →
      ∃ n, r.get? j = some n ∧ n'.mark = n.mark ∧ n'.dependents = n.dependents := by
    intro j n' hn'
    rw [hg, Option.map_eq_some_iff] at hn'
    obtain ⟨n, hn, rfl⟩ := hn'
    exact ⟨n, hn, rfl, rfl⟩
  refine ⟨fun h i n' hi ht => ?_, fun h i n' hi hm => ?_, fun h => ⟨h.1, fun i hi => ?_⟩⟩
  · obtain ⟨n, hn, e1, _⟩ := back i n' hi
    exact h i n hn (e1 ▸ ht)
  · obtain ⟨n, hn, e1, e2⟩ := back i n' hi
    obtain ⟨hb, hd⟩ := h i n hn (e1 ▸ hm)
    exact ⟨hb, fun d hd' ha => hd d (e2 ▸ hd') (by rw [← hal]; exact ha)⟩
  · obtain ⟨n, hn, hp⟩ := h.2 i hi
    exact ⟨{ n with dirty := n.dirty || isDependentOf r s i }, by rw [hg, hn]; rfl, hp⟩

/-! ### 3. the first loop for a list of start nodes -/

/-- `j` is a direct dependent of one of the (live) nodes of `ss` -/
def DepOfStart (r : Root) (ss : List Id) (j : Id) : Prop :=
  ∃ s ∈ ss, ∃ ns, r.get? s = some ns ∧ j ∈ ns.dependents

/-- the state of the first loop of `propagate_node_updates` after the start nodes `done` have been
visited, `r1` being the (unmarked, clean) arena on which the loop started -/
structure VisitInv (r1 : Root) (done : List Id) (r : Root) (buf : List Id) : Prop where
  flags : FlagsRel r1 r
  frame : SameFrame r1 r
  dinv : DInv r buf
  exact : Exact r buf
  /-- exactly the direct dependents of the visited start nodes are flagged -/
  dirty : ∀ j n, r.get? j = some n → (n.dirty = true ↔ DepOfStart r1 done j)
  starts : ∀ s ∈ done, r1.alive s = true → s ∈ buf
  reach : ∀ i ∈ buf, ∃ s ∈ done, Reach r1 s i

theorem VisitInv.init {r1 : Root} (hm : Unmarked r1)
    (hclean : ∀ j n, r1.get? j = some n → n.dirty = false) : VisitInv r1 [] r1 [] := by
  refine ⟨.refl r1, .refl r1, ⟨fun i n hi ht => (by rw [hm i n hi] at ht; cases ht),
    fun i n hi hp => (by rw [hm i n hi] at hp; cases hp)⟩, ⟨List.nodup_nil, fun i hi => (by cases hi)⟩,
    fun j n hn => ?_, fun s hs => (by cases hs), fun i hi => (by cases hi)⟩
  rw [hclean j n hn]
  constructor
  · intro h; cases h
  · rintro ⟨s, hs, _⟩; cases hs

/-- one iteration: `dfs` from `s`, then `mark_dependents_dirty` -/
theorem VisitInv.step {r1 : Root} {done : List Id} {r : Root} {buf : List Id} (hu : Up r1)
    (h : VisitInv r1 done r buf) (s : Id) :
    ∃ rA bufA, dfs (dfsFuel r) r buf s = some (rA, bufA) ∧
      VisitInv r1 (done ++ [s]) (markDependentsDirty rA s) bufA := by
  obtain ⟨rA, bufA, hdfs⟩ := dfs_total (h.flags.up hu) h.dinv.1 buf s
  refine ⟨rA, bufA, hdfs, ?_⟩
  obtain ⟨hP, _⟩ := dfs_post hdfs
  obtain ⟨hD, hin⟩ := dfs_topological h.dinv hdfs
  have hE := hP.exact h.exact
  obtain ⟨ext, hext⟩ := hP.ext
  have hRA : FlagsRel r1 rA := h.flags.trans hP.frame.flagsRel
  have hRM := markDependentsDirty_flagsRel rA s
  obtain ⟨t1, t2, t3⟩ := markDependentsDirty_marks rA s bufA
  refine ⟨hRA.trans hRM,
    h.frame.trans (hP.frame.sameFrame.trans (markDependentsDirty_frame rA s).2.2.2),
    ⟨t1 hD.1, t2 hD.2⟩, t3 hE, ?_, ?_, ?_⟩
  · -- dirty flags
    intro j n2 hn2
    rw [markDependentsDirty_get?, Option.map_eq_some_iff] at hn2
    obtain ⟨nA, hnA, rfl⟩ := hn2
    obtain ⟨n, hn, _⟩ := hP.frame.get?_bwd hnA
    have hd : nA.dirty = n.dirty := (hP.frame.dirty_eq hn hnA).1
    have hdep : isDependentOf rA s j = true ↔ ∃ ns, r1.get? s = some ns ∧ j ∈ ns.dependents := by
      unfold isDependentOf
      constructor
      · intro hx
        split at hx
        · rename_i nsA hnsA
          obtain ⟨ns, hns, _, _, _, _, e5, _⟩ := hRA.bwd hnsA
          exact ⟨ns, hns, by rw [← e5]; simpa using hx⟩
        · cases hx
      · rintro ⟨ns, hns, hj⟩
        obtain ⟨nsA, hnsA, _, _, _, _, e5, _⟩ := hRA.fwd hns
        rw [hnsA]; simp [e5, hj]
    simp only [Bool.or_eq_true, hd, h.dirty j n hn, hdep]
    constructor
    · rintro (⟨s', hs', x⟩ | x)
      · exact ⟨s', by simp [hs'], x⟩
      · exact ⟨s, by simp, x⟩
    · rintro ⟨s', hs', x⟩
      rcases List.mem_append.1 hs' with hs' | hs'
      · exact .inl ⟨s', hs', x⟩
      · simp only [List.mem_singleton] at hs'; subst hs'; exact .inr x
  · -- the live start nodes are in the buffer
    intro s' hs' ha
    rcases List.mem_append.1 hs' with hs' | hs'
    · rw [hext]; exact List.mem_append_left _ (h.starts s' hs' ha)
    · simp only [List.mem_singleton] at hs'; subst hs'
      exact hin (by rw [h.flags.alive_eq]; exact ha)
  · -- everything in the buffer is reachable from a start node
    intro i hi
    rcases (dfs_reach_aux _).1 _ _ _ _ _ hdfs i hi with hb | hr
    · obtain ⟨s', hs', hr⟩ := h.reach i hb
      exact ⟨s', by simp [hs'], hr⟩
    · exact ⟨s, by simp, h.flags.reach_bwd hr⟩

/-- **the first loop of `propagate_node_updates` for a list of start nodes** (duplicates allowed):
on an arena whose subscriber edges go up it does not fail and keeps `VisitInv` -/
theorem visitStarts_multi {r1 : Root} (hu : Up r1) :
    ∀ (ss done : List Id) (r : Root) (buf : List Id), VisitInv r1 done r buf →
      ∃ rV bufV, visitStarts r buf ss = .ok (rV, bufV) ∧ VisitInv r1 (done ++ ss) rV bufV
  | [], done, r, buf, h => ⟨r, buf, rfl, by simpa using h⟩
  | s :: ss, done, r, buf, h => by
    obtain ⟨rA, bufA, hdfs, hA⟩ := h.step hu s
    obtain ⟨rV, bufV, hv, hV⟩ := visitStarts_multi hu ss (done ++ [s]) _ bufA hA
    refine ⟨rV, bufV, by simp [visitStarts, hdfs, hv], ?_⟩
    simpa using hV

/-- in the buffer of the first loop the perm-marked nodes are exactly the members -/
theorem VisitInv.mem_buf_iff {r1 : Root} {done : List Id} {r : Root} {buf : List Id}
    (h : VisitInv r1 done r buf) (i : Id) : i ∈ buf ↔ PermIn r i :=
  Reactive.mem_buf_iff h.dinv.2 h.exact i

/-! ### 4. `resetMarks` -/

/-- `resetMarks` only rewrites marks, and only to `none` -/
theorem resetMarks_spec : ∀ (ss : List Id) (r : Root), Frame r (resetMarks r ss) ∧
    ∀ j n', (resetMarks r ss).get? j = some n' →
      ∃ n, r.get? j = some n ∧ (n'.mark = n.mark ∨ n'.mark = .none)
  | [], r => ⟨.refl r, fun _ n' h => ⟨n', h, .inl rfl⟩⟩
  | s :: ss, r => by
    rw [resetMarks]
    cases hs : r.get? s with
    | none => exact resetMarks_spec ss r
    | some n =>
      obtain ⟨hF, hm⟩ := resetMarks_spec ss (r.setNode s { n with mark := .none })
      refine ⟨(Frame.setMark hs .none).trans hF, fun j n' hj => ?_⟩
      obtain ⟨n2, hn2, hmm⟩ := hm j n' hj
      rw [Dfs.get?_setNode_of_get? hs] at hn2
      split at hn2
      · subst j; cases hn2
        exact ⟨n, hs, .inr (by rcases hmm with e | e <;> exact e)⟩
      · exact ⟨n2, hn2, hmm⟩

/-! ### 5. the state handed to the second loop -/

/-- **the state handed to the second loop satisfies the loop invariant**: `r1` is the arena on which
`propagate_node_updates` is called; `hsettled` says that in `r1` every node none of whose
dependencies is a start node is consistent and has a current dependency list -/
theorem loopInvM_start {r1 rV : Root} {starts buf : List Id} (hS1 : StructD r1)
    (hsettled : ∀ j n, r1.get? j = some n → (∀ s ∈ starts, s ∉ n.dependencies) →
      locallyConsistent r1 j ∧ DepsCurrent r1 n)
    (hV : VisitInv r1 starts rV buf) :
    LoopInvM (resetMarks rV starts) buf.reverse ∧ EvolvesD r1 (resetMarks rV starts) [] ∧
      ∀ j, DepOfStart r1 starts j → ∃ n, (resetMarks rV starts).get? j = some n ∧ n.dirty = true := by
  obtain ⟨hFR, hmarks⟩ := resetMarks_spec starts rV
  have hR : FlagsRel r1 (resetMarks rV starts) := hV.flags.trans hFR.flagsRel
  have hSV := hV.flags.structD hS1
  obtain ⟨f1, f2, f3, f4, f5, f6, f7, f8⟩ := hV.frame.trans hFR.sameFrame
  refine ⟨⟨hR.structD hS1, ?_, ?_, ?_, ?_, ?_⟩, (hR.evolves ⟨f1, f2, f3, f4, f5, f6, f7⟩ f8).toD, ?_⟩
  rotate_left 5
  · -- the direct dependents of the start nodes are flagged
    intro j hj
    obtain ⟨s, hs, ns, hns, hjs⟩ := hj
    obtain ⟨n1, hn1⟩ := Root.alive_iff.1 ((hS1.nd s ns hns).1 j hjs)
    obtain ⟨n', hn', _⟩ := hR.fwd hn1
    obtain ⟨n, hn, _⟩ := hFR.get?_bwd hn'
    exact ⟨n', hn', by rw [(hFR.dirty_eq hn hn').1]; exact (hV.dirty j n hn).2 ⟨s, hs, ns, hns, hjs⟩⟩
  · -- marks
    intro j n' hn' hj
    obtain ⟨n, hn, hmm⟩ := hmarks j n' hn'
    rcases hmm with e | e
    · rw [e]
      cases hmk : n.mark with
      | none => rfl
      | temp => exact absurd hmk (hV.dinv.1 j n hn)
      | perm => exact absurd (List.mem_reverse.2 (hV.dinv.2 j n hn hmk).1) hj
    · exact e
  · -- pending nodes are alive
    intro j hj
    obtain ⟨n, hn, _⟩ := hV.exact.2 j (List.mem_reverse.1 hj)
    rw [hFR.alive]; exact Root.alive_iff.2 ⟨n, hn⟩
  · -- dirty nodes are pending computations
    intro j n' hn' hd
    obtain ⟨n, hn, _⟩ := hFR.get?_bwd hn'
    have hdn : n.dirty = true := by rw [← (hFR.dirty_eq hn hn').1]; exact hd
    obtain ⟨s, hs, ns, hns, hjs⟩ := (hV.dirty j n hn).1 hdn
    have hsb := hV.starts s hs (Root.alive_iff.2 ⟨ns, hns⟩)
    obtain ⟨nsV, hnsV, hp⟩ := hV.exact.2 s hsb
    obtain ⟨nsV', hnsV', _, _, _, _, e5, _⟩ := hV.flags.fwd hns
    rw [hnsV] at hnsV'; cases hnsV'
    have hbef := (hV.dinv.2 s nsV hnsV hp).2 j (e5 ▸ hjs) (Root.alive_iff.2 ⟨n, hn⟩)
    refine ⟨List.mem_reverse.2 hbef.mem_left, fun hc => ?_⟩
    obtain ⟨n1, hn1, _, e2, _⟩ := hR.bwd hn'
    have hsd : s ∈ n1.dependencies := (mem_dependents_iff hS1.sym hns hn1).1 hjs
    rw [(hS1.node j n1 hn1).plain (e2 ▸ hc)] at hsd; cases hsd
  · -- clean nodes are settled
    intro j n' hn' hd
    obtain ⟨n1, hn1, _⟩ := hR.bwd hn'
    refine hR.settled hn1 hn' (hsettled j n1 hn1 fun s hs hsd => ?_)
    obtain ⟨ns, hns⟩ := Root.alive_iff.1 ((hS1.nd j n1 hn1).2 s hsd)
    have hjs : j ∈ ns.dependents := (mem_dependents_iff hS1.sym hns hn1).2 hsd
    obtain ⟨n, hn, _⟩ := hFR.get?_bwd hn'
    have hdn := (hV.dirty j n hn).2 ⟨s, hs, ns, hns, hjs⟩
    rw [(hFR.dirty_eq hn hn').1, hdn] at hd; cases hd
  · -- the schedule
    refine Sched.mono (fun i d hd => hd.1) ?_
    refine sched_of_before (nodup_reverse hV.exact.1) (fun i hi d hd => ?_) buf.reverse [] rfl
    obtain ⟨ni, hni, hp⟩ := hV.exact.2 i (List.mem_reverse.1 hi)
    simp only [depsOf] at hd
    split at hd
    · rename_i md hmd
      obtain ⟨mdV, hmdV, _⟩ := hFR.get?_bwd hmd
      rw [(hFR.dirty_eq hmdV hmd).2] at hd
      have hdi : d ∈ ni.dependents := (mem_dependents_iff hSV.sym hni hmdV).2 hd
      exact ((hV.dinv.2 i ni hni hp).2 d hdi (Root.alive_iff.2 ⟨mdV, hmdV⟩)).reverse
    · cases hd

/-- the buffer of the first loop contains everything reachable from a live visited start node -/
theorem VisitInv.mem_of_reach {r1 : Root} {done : List Id} {r : Root} {buf : List Id}
    (h : VisitInv r1 done r buf) (hnd : NoDangling r1) {s i : Id} (hs : s ∈ done)
    (ha : r1.alive s = true) (hr : Reach r1 s i) : i ∈ buf := by
  induction hr with
  | refl => exact h.starts s hs ha
  | step _ hn hd ih =>
    obtain ⟨nV, hnV, hp⟩ := h.exact.2 _ ih
    obtain ⟨nV', hnV', _, _, _, _, e5, _⟩ := h.flags.fwd hn
    rw [hnV] at hnV'; cases hnV'
    exact ((h.dinv.2 _ nV hnV hp).2 _ (e5 ▸ hd)
      (by rw [h.flags.alive_eq]; exact (hnd _ _ hn).1 _ hd)).mem_left

/-! ### 6. what a `WriteOnly` body run inside a batch can change -/

mutual
/-- ids written by the `set_silent` statements of a body (nested batches included) -/
def silentOf (env : List Handle) : Body → List Id
  | .nil => []
  | .cons s rest => silentOfStmt env s ++ silentOf env rest
def silentOfStmt (env : List Handle) : Stmt → List Id
  | .setSilent h _ => match env[h]? with
    | some hd => [hd.id]
    | none => []
  | .batch b => silentOf env b
  | _ => []
end

/-- between `r` and `r'` only nodes satisfying `P` changed their value, and every id satisfying `P`
names a live callback-less node of `r` -/
def TouchPost (r r' : Root) (P : Id → Prop) : Prop :=
  (∀ j n n', r.get? j = some n → r'.get? j = some n' → n'.value ≠ n.value → P j) ∧
  (∀ s, P s → ∃ ns, r.get? s = some ns ∧ ns.callback = none)

theorem TouchPost.same {r r' : Root} {P : Id → Prop} (h : ∀ j, r'.get? j = r.get? j) (hP : ∀ j, ¬ P j) :
    TouchPost r r' P :=
  ⟨fun j n n' hn hn' hne => by rw [h j, hn] at hn'; cases hn'; exact absurd rfl hne,
    fun s hs => absurd hs (hP s)⟩

theorem TouchPost.trans {a b c : Root} {P1 P2 P : Id → Prop} (q : Quiet a b) (h1 : TouchPost a b P1)
    (h2 : TouchPost b c P2) (i1 : ∀ j, P1 j → P j) (i2 : ∀ j, P2 j → P j) (i3 : ∀ j, P j → P1 j ∨ P2 j) :
    TouchPost a c P := by
  refine ⟨fun j n n' hn hn' hne => ?_, fun s hs => ?_⟩
  · obtain ⟨n1, hn1, _⟩ := q.node j n hn
    by_cases hv : n1.value = n.value
    · exact i2 j (h2.1 j n1 n' hn1 hn' (by rw [hv]; exact hne))
    · exact i1 j (h1.1 j n n1 hn hn1 hv)
  · rcases i3 s hs with hs | hs
    · exact h1.2 s hs
    · obtain ⟨ns, hns, hc⟩ := h2.2 s hs
      cases ha : a.get? s with
      | none => rw [q.dead s ha] at hns; cases hns
      | some na =>
        obtain ⟨n1, hn1, nq⟩ := q.node s na ha
        rw [hns] at hn1; cases hn1
        exact ⟨na, rfl, nq.callback ▸ hc⟩

theorem TouchPost.setValue {r : Root} {id : Id} {n : Node} (hn : r.get? id = some n)
    (hc : n.callback = none) (v : Int) (q : List Id) {P : Id → Prop} (hP : ∀ j, P j ↔ j = id) :
    TouchPost r { r.setNode id { n with value := some v } with queue := q } P := by
  refine ⟨fun j m m' hm hm' hne => ?_, fun s hs => ⟨n, by rw [(hP s).1 hs]; exact hn, hc⟩⟩
  have hm'' : (r.setNode id { n with value := some v }).get? j = some m' := hm'
  rw [Root.get?_setNode] at hm''
  split at hm''
  · rename_i h; exact (hP j).2 h.1
  · rw [hm] at hm''; cases hm''; exact absurd rfl hne

/-- **inside a batch a `WriteOnly` body changes only the values of the nodes written by its `set`
and `set_silent` statements**, and these are live callback-less nodes -/
theorem batch_touched (fuel : Nat) :
    ∀ (r : Root) (c : Ctx) (r' : Root) (c' : Ctx), r.batching = true → SignalHandlesOK r c.env →
      (∀ b, WriteOnly b → execBody fuel r c b = .ok (r', c') →
        TouchPost r r' (fun j => j ∈ writesOf c.env b ∨ j ∈ silentOf c.env b)) ∧
      (∀ b, WriteOnly b → execInner fuel r c b = .ok (r', c') →
        TouchPost r r' (fun j => j ∈ writesOf c.env b ∨ j ∈ silentOf c.env b)) ∧
      (∀ s, WriteOnlyStmt s → execStmt fuel r c s = .ok (r', c') →
        TouchPost r r' (fun j => j ∈ writesOfStmt c.env s ∨ j ∈ silentOfStmt c.env s)) := by
  induction fuel with
  | zero => intro r c r' c' _ _; simp [execBody, execInner, execStmt]
  | succ f ih =>
    intro r c r' c' hb hs
    refine ⟨?_, ?_, ?_⟩
    · intro b hw hx
      cases hw with
      | nil =>
        simp only [execBody, Except.ok.injEq, Prod.mk.injEq] at hx
        obtain ⟨rfl, rfl⟩ := hx
        exact TouchPost.same (fun _ => rfl) (fun j => by simp [writesOf, silentOf])
      | cons hw1 hw2 =>
        simp only [execBody] at hx
        split at hx
        · cases hx
        · rename_i r1 c1 h1
          obtain ⟨q1, e1, _⟩ := (batch_quiet f r c r1 c1 hb hs).2.2 _ hw1 h1
          have t1 := (ih r c r1 c1 hb hs).2.2 _ hw1 h1
          have hb1 : r1.batching = true := q1.batching.trans hb
          have hs1 : SignalHandlesOK r1 c1.env := by rw [e1]; exact hs.quiet q1
          have t2 := (ih r1 c1 r' c' hb1 hs1).1 _ hw2 hx
          rw [e1] at t2
          refine TouchPost.trans q1 t1 t2 ?_ ?_ ?_ <;>
            (intro j; simp only [writesOf, silentOf, List.mem_append])
          · rintro (h | h)
            · exact .inl (.inl h)
            · exact .inr (.inl h)
          · rintro (h | h)
            · exact .inl (.inr h)
            · exact .inr (.inr h)
          · rintro ((h | h) | (h | h))
            · exact .inl (.inl h)
            · exact .inr (.inl h)
            · exact .inl (.inr h)
            · exact .inr (.inr h)
    · intro b hw hx
      simp only [execInner] at hx
      split at hx
      · cases hx
      · rename_i r1 c1 h1
        simp only [Except.ok.injEq, Prod.mk.injEq] at hx
        obtain ⟨rfl, rfl⟩ := hx
        exact (ih r c r1 c1 hb hs).1 _ hw h1
    · intro s hw hx
      cases hw with
      | set h e =>
        simp only [execStmt] at hx
        split at hx
        · cases hx
        · rename_i hd hl
          split at hx
          · cases hx
          · rename_i hk
            split at hx
            · cases hx
            · rename_i r1 h1
              split at hx
              · cases hx
              · rename_i r2 h2
                simp only [Except.ok.injEq, Prod.mk.injEq] at hx
                obtain ⟨rfl, rfl⟩ := hx
                obtain ⟨hg, hm⟩ := lookup_ok hl
                obtain ⟨n, hn, hv, rfl⟩ := setSilent_ok h1
                have hk' : hd.kind = .signal := by simpa using hk
                have q1 := Quiet.setValue hn (hs hd hm hk' n hn) hv (evalEx e c.acc)
                have hb1 := q1.batching.trans hb
                have := propagateUpdates_batching hb1 h2
                subst this
                exact TouchPost.setValue hn (hs hd hm hk' n hn) _ _
                  (fun j => by simp [writesOfStmt, silentOfStmt, hg])
      | setSilent h e =>
        simp only [execStmt] at hx
        split at hx
        · cases hx
        · rename_i hd hl
          split at hx
          · cases hx
          · rename_i hk
            split at hx
            · cases hx
            · rename_i r1 h1
              simp only [Except.ok.injEq, Prod.mk.injEq] at hx
              obtain ⟨rfl, rfl⟩ := hx
              obtain ⟨hg, hm⟩ := lookup_ok hl
              obtain ⟨n, hn, hv, rfl⟩ := setSilent_ok h1
              have hk' : hd.kind = .signal := by simpa using hk
              have hq : ({ r.setNode hd.id { n with value := some (evalEx e c.acc) } with
                  queue := (r.setNode hd.id { n with value := some (evalEx e c.acc) }).queue } : Root) =
                  r.setNode hd.id { n with value := some (evalEx e c.acc) } := rfl
              rw [← hq]
              exact TouchPost.setValue hn (hs hd hm hk' n hn) _ _
                (fun j => by simp [writesOfStmt, silentOfStmt, hg])
      | readU h =>
        simp only [execStmt] at hx
        split at hx
        · cases hx
        · split at hx
          · cases hx
          · split at hx
            · cases hx
            · simp only [Except.ok.injEq, Prod.mk.injEq] at hx
              obtain ⟨rfl, rfl⟩ := hx
              exact TouchPost.same (fun _ => rfl) (fun j => by simp [writesOfStmt, silentOfStmt])
      | read h =>
        simp only [execStmt] at hx
        split at hx
        · cases hx
        · split at hx
          · cases hx
          · split at hx
            · cases hx
            · simp only [Except.ok.injEq, Prod.mk.injEq] at hx
              obtain ⟨rfl, rfl⟩ := hx
              refine TouchPost.same (fun j => ?_) (fun j => by simp [writesOfStmt, silentOfStmt])
              unfold Reactive.track; split <;> rfl
      | batch hwb =>
        rename_i b
        simp only [execStmt, batching_true_eq hb, hb, if_true] at hx
        split at hx
        · cases hx
        · rename_i r1 c1 h1
          simp only [Except.ok.injEq, Prod.mk.injEq] at hx
          obtain ⟨rfl, rfl⟩ := hx
          have := (ih r c r1 c1 hb hs).2.1 _ hwb h1
          simpa [writesOfStmt, silentOfStmt] using this

end SycVerif.Reactive
