/-
Helpers for C05 (client-side rendering, `Model/DomView.lean`): shapes (documents up to node identity),
the realisation relation between instance trees and view descriptions, identity bookkeeping.
The readable statements are in `Props/C05.lean`.
-/
import SycVerif.Model.DomView
namespace SycVerif.DomView

/-! ## Shapes: a document with the node identities forgotten -/

inductive Shape where
  | elem (tag : Str) (attrs : List (Str × Str)) (children : List Shape)
  | text (s : Str)
  | comment
  deriving Repr

mutual
def Shape.decEq : (a b : Shape) → Decidable (a = b)
  | .elem t a c, .elem t' a' c' =>
    if ht : t = t' then
      if ha : a = a' then
        match Shape.decEqL c c' with
        | isTrue hc => isTrue (by rw [ht, ha, hc])
        | isFalse hc => isFalse (fun h => hc (by cases h; rfl))
      else isFalse (fun h => ha (by cases h; rfl))
    else isFalse (fun h => ht (by cases h; rfl))
  | .text s, .text s' => if h : s = s' then isTrue (by rw [h]) else isFalse (fun e => h (by cases e; rfl))
  | .comment, .comment => isTrue rfl
  | .elem .., .text _ => isFalse (fun h => by cases h)
  | .elem .., .comment => isFalse (fun h => by cases h)
  | .text _, .elem .. => isFalse (fun h => by cases h)
  | .text _, .comment => isFalse (fun h => by cases h)
  | .comment, .elem .. => isFalse (fun h => by cases h)
  | .comment, .text _ => isFalse (fun h => by cases h)
def Shape.decEqL : (a b : List Shape) → Decidable (a = b)
  | [], [] => isTrue rfl
  | [], _ :: _ => isFalse (fun h => by cases h)
  | _ :: _, [] => isFalse (fun h => by cases h)
  | x :: xs, y :: ys =>
    match Shape.decEq x y with
    | isTrue hx =>
      match Shape.decEqL xs ys with
      | isTrue hs => isTrue (by rw [hx, hs])
      | isFalse hs => isFalse (fun h => hs (by cases h; rfl))
    | isFalse hx => isFalse (fun h => hx (by cases h; rfl))
end

instance : DecidableEq Shape := Shape.decEq

mutual
/-- forget the identities -/
def shape : DTree → Shape
  | .elem _ tag attrs cs => .elem tag attrs (shapes cs)
  | .text _ s => .text s
  | .comment _ => .comment
def shapes : List DTree → List Shape
  | [] => []
  | t :: ts => shape t :: shapes ts
end

theorem shapes_eq_map : ∀ ts : List DTree, shapes ts = ts.map shape
  | [] => rfl
  | t :: ts => by simp [shapes, shapes_eq_map ts]

theorem shapes_append (a b : List DTree) : shapes (a ++ b) = shapes a ++ shapes b := by
  simp [shapes_eq_map]

/-! ## Unfolding lemmas (the model uses `let (a, b) := …`) -/

section unfold
variable (σ : Store)

theorem mount_el (tag attrs cs k) : mount σ (.el tag attrs cs) k
    = (.el k tag attrs (mountList σ cs (k + 1)).1, (mountList σ cs (k + 1)).2) := rfl
theorem mount_text (s k) : mount σ (.text s) k = (.text k s, k + 1) := rfl
theorem mount_dynText (sig k) : mount σ (.dynText sig) k = (.dynText k sig, k + 1) := rfl
theorem mount_dynView (sig alts k) : mount σ (.dynView sig alts) k
    = (.dynView k (k + 1) sig alts
        (mountAlt σ alts (if alts.length = 0 then 0 else σ.get sig % alts.length) (k + 2)).1,
       (mountAlt σ alts (if alts.length = 0 then 0 else σ.get sig % alts.length) (k + 2)).2) := rfl
theorem mount_show (sig cs k) : mount σ (.show sig cs) k
    = (.show k (k + 1) sig (mountList σ cs (k + 2)).1, (mountList σ cs (k + 2)).2) := rfl
theorem mount_frag (cs k) : mount σ (.frag cs) k
    = (.frag (mountList σ cs k).1, (mountList σ cs k).2) := rfl
theorem mountList_nil (k) : mountList σ .nil k = (.nil, k) := rfl
theorem mountList_cons (v rest k) : mountList σ (.cons v rest) k
    = (.cons (mount σ v k).1 (mountList σ rest (mount σ v k).2).1,
       (mountList σ rest (mount σ v k).2).2) := rfl

theorem update_el (s id tag attrs cs k) : update σ s (.el id tag attrs cs) k
    = (.el id tag attrs (updateList σ s cs k).1, (updateList σ s cs k).2) := rfl
theorem update_text (s id t k) : update σ s (.text id t) k = (.text id t, k) := rfl
theorem update_dynText (s id sig k) : update σ s (.dynText id sig) k = (.dynText id sig, k) := rfl
theorem update_dynView_eq (s a b alts cur k) : update σ s (.dynView a b s alts cur) k
    = (.dynView a b s alts
        (mountAlt σ alts (if alts.length = 0 then 0 else σ.get s % alts.length) k).1,
       (mountAlt σ alts (if alts.length = 0 then 0 else σ.get s % alts.length) k).2) := by
  simp [update]
theorem update_dynView_ne (s a b sig alts cur k) (h : sig ≠ s) :
    update σ s (.dynView a b sig alts cur) k
    = (.dynView a b sig alts (updateList σ s cur k).1, (updateList σ s cur k).2) := by
  simp [update, h]
theorem update_show (s a b sig cs k) : update σ s (.show a b sig cs) k
    = (.show a b sig (updateList σ s cs k).1, (updateList σ s cs k).2) := rfl
theorem update_frag (s cs k) : update σ s (.frag cs) k
    = (.frag (updateList σ s cs k).1, (updateList σ s cs k).2) := rfl
theorem updateList_nil (s k) : updateList σ s .nil k = (.nil, k) := rfl
theorem updateList_cons (s i rest k) : updateList σ s (.cons i rest) k
    = (.cons (update σ s i k).1 (updateList σ s rest (update σ s i k).2).1,
       (updateList σ s rest (update σ s i k).2).2) := rfl

/-- mounting alternative number `i` is mounting the list `alts.get i` -/
theorem mountAlt_eq : ∀ (alts : VDAlts) (i k : Nat), mountAlt σ alts i k = mountList σ (alts.get i) k
  | .nil, _, _ => rfl
  | .cons _ _, 0, _ => rfl
  | .cons _ r, i + 1, k => by
    show mountAlt σ r i k = mountList σ (r.get i) k
    exact mountAlt_eq r i k
end unfold

/-! ## Realisation: an instance tree is a mounted copy of a view description for the store `σ` -/

/-- index of the alternative a dynamic view on `sig` displays under `σ` -/
def altIdx (σ : Store) (sig : Nat) (alts : VDAlts) : Nat :=
  if alts.length = 0 then 0 else σ.get sig % alts.length

mutual
inductive Realizes (σ : Store) : Inst → VD → Prop
  | el {id tag attrs ci cs} : RealizesList σ ci cs → Realizes σ (.el id tag attrs ci) (.el tag attrs cs)
  | text {id s} : Realizes σ (.text id s) (.text s)
  | dynText {id sig} : Realizes σ (.dynText id sig) (.dynText sig)
  | dynView {a b sig alts cur} :
      RealizesList σ cur (alts.get (if alts.length = 0 then 0 else σ.get sig % alts.length)) →
      Realizes σ (.dynView a b sig alts cur) (.dynView sig alts)
  | show {a b sig ci cs} : RealizesList σ ci cs → Realizes σ (.show a b sig ci) (.show sig cs)
  | frag {ci cs} : RealizesList σ ci cs → Realizes σ (.frag ci) (.frag cs)
inductive RealizesList (σ : Store) : InstList → VDList → Prop
  | nil : RealizesList σ .nil .nil
  | cons {i v is vs} : Realizes σ i v → RealizesList σ is vs → RealizesList σ (.cons i is) (.cons v vs)
end

mutual
theorem mount_realizes (σ : Store) : ∀ (vd : VD) (k : Nat), Realizes σ (mount σ vd k).1 vd
  | .el tag attrs cs, k => by rw [mount_el]; exact .el (mountList_realizes σ cs _)
  | .text s, k => by rw [mount_text]; exact .text
  | .dynText sig, k => by rw [mount_dynText]; exact .dynText
  | .dynView sig alts, k => by
    rw [mount_dynView]; exact .dynView (mountAlt_realizes σ alts _ _)
  | .show sig cs, k => by rw [mount_show]; exact .show (mountList_realizes σ cs _)
  | .frag cs, k => by rw [mount_frag]; exact .frag (mountList_realizes σ cs _)
theorem mountList_realizes (σ : Store) : ∀ (vds : VDList) (k : Nat), RealizesList σ (mountList σ vds k).1 vds
  | .nil, k => .nil
  | .cons v rest, k => by
    rw [mountList_cons]; exact .cons (mount_realizes σ v k) (mountList_realizes σ rest _)
theorem mountAlt_realizes (σ : Store) : ∀ (alts : VDAlts) (i k : Nat),
    RealizesList σ (mountAlt σ alts i k).1 (alts.get i)
  | .nil, _, _ => .nil
  | .cons a _, 0, k => mountList_realizes σ a k
  | .cons _ r, i + 1, k => mountAlt_realizes σ r i k
end

/-! ## The document is determined, up to identities, by the description and the store -/

theorem dom_el (σ : Store) (id tag attrs cs) :
    dom σ (.el id tag attrs cs) = [.elem id tag (evalAttrs σ attrs) (domList σ cs)] := by simp [dom]
theorem dom_text (σ : Store) (id s) : dom σ (.text id s) = [.text id s] := by simp [dom]
theorem dom_dynText (σ : Store) (id sig) :
    dom σ (.dynText id sig) = [.text id (natToStr (σ.get sig))] := by simp [dom]
theorem dom_dynView (σ : Store) (a b sig alts cur) :
    dom σ (.dynView a b sig alts cur) = [.comment a] ++ domList σ cur ++ [.comment b] := by simp [dom]
theorem dom_show (σ : Store) (a b sig cs) :
    dom σ (.show a b sig cs)
      = [.comment a] ++ (if σ.get sig % 2 = 1 then domList σ cs else []) ++ [.comment b] := by simp [dom]
theorem dom_frag (σ : Store) (cs) : dom σ (.frag cs) = domList σ cs := by simp [dom]
theorem domList_nil (σ : Store) : domList σ .nil = [] := by simp [domList]
theorem domList_cons (σ : Store) (i rest) : domList σ (.cons i rest) = dom σ i ++ domList σ rest := by
  simp [domList]

mutual
theorem realizes_shape (σ : Store) : ∀ (inst : Inst) (vd : VD) (k : Nat), Realizes σ inst vd →
    shapes (dom σ inst) = shapes (dom σ (mount σ vd k).1)
  | .el id tag attrs ci, _, k, .el h => by
    rw [mount_el, dom_el, dom_el]
    simp only [shapes, shape]
    rw [realizesList_shape σ ci _ (k + 1) h]
  | .text id s, _, k, .text => by rw [mount_text, dom_text, dom_text]; rfl
  | .dynText id sig, _, k, .dynText => by rw [mount_dynText, dom_dynText, dom_dynText]; rfl
  | .dynView a b sig alts cur, _, k, .dynView h => by
    rw [mount_dynView, dom_dynView, dom_dynView, mountAlt_eq]
    simp only [shapes_append]
    rw [realizesList_shape σ cur _ (k + 2) h]; rfl
  | .show a b sig ci, _, k, .show h => by
    rw [mount_show, dom_show, dom_show]
    simp only [shapes_append]
    split
    · rw [realizesList_shape σ ci _ (k + 2) h]; rfl
    · rfl
  | .frag ci, _, k, .frag h => by
    rw [mount_frag, dom_frag, dom_frag]; exact realizesList_shape σ ci _ k h
theorem realizesList_shape (σ : Store) : ∀ (inst : InstList) (vds : VDList) (k : Nat),
    RealizesList σ inst vds → shapes (domList σ inst) = shapes (domList σ (mountList σ vds k).1)
  | .nil, _, k, .nil => rfl
  | .cons i is, _, k, .cons h hs => by
    rw [mountList_cons, domList_cons, domList_cons, shapes_append, shapes_append,
      realizes_shape σ i _ k h, realizesList_shape σ is _ _ hs]
end

end SycVerif.DomView
